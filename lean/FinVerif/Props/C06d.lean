/-
  C06 (part d) — the cached per-flow tables: after `value`, `payment_pvs` has one entry per period,
  entries of periods already paid are 0, and the entries sum to the leg value (before the PAY sign),
  principal included.  Fixed and floating leg, any number of periods.
-/
import FinVerif.Props.C06a

set_option linter.unusedSimpArgs false
set_option linter.unnecessarySeqFocus false
set_option linter.unusedSectionVars false
set_option linter.unusedVariables false

namespace FinVerif.Props.C06
open FinVerif FinVerif.Spec.C06 FinVerif.Model.C06 FinVerif.Lemmas.C06

variable {K : Type} [Field K]

/-- `payment_pvs` of a loop state. -/
def pvCol (st : LoopSt K) : List K := st.rows.map (·.pv)

lemma fixedFold_rows (df : Int → K) (vd : Int) (dfv : K) (l : List (Int × K)) (st : LoopSt K) :
    pvCol (l.foldl (fixedStep df vd dfv) st)
      = pvCol st ++ l.map (fun x => if vd < x.1 then x.2 * (df x.1 / dfv) else 0) := by
  induction l generalizing st with
  | nil => simp
  | cons x xs ih =>
    rw [List.foldl_cons, ih]
    by_cases h : vd < x.1 <;> simp [pvCol, fixedStep, h]

lemma floatFold_rows (df : Int → K) (idx : IndexCurve K) (ff : Option K) (spread : K) (vd : Int) (dfv : K)
    (l : List (Period K × K)) (st : LoopSt K) :
    (pvCol (l.foldl (floatStep df idx ff spread vd dfv) st)).length = (pvCol st).length + l.length
    ∧ sumL (pvCol (l.foldl (floatStep df idx ff spread vd dfv) st)) - (l.foldl (floatStep df idx ff spread vd dfv) st).pv
        = sumL (pvCol st) - st.pv := by
  induction l generalizing st with
  | nil => simp
  | cons x xs ih =>
    rw [List.foldl_cons]
    obtain ⟨h1, h2⟩ := ih (floatStep df idx ff spread vd dfv st x)
    rw [h1, h2]
    by_cases h : vd < x.1.pay
    · constructor
      · simp [pvCol, floatStep, h] <;> omega
      · simp [pvCol, floatStep, h, sumL_append]
    · constructor
      · simp [pvCol, floatStep, h] <;> omega
      · simp [pvCol, floatStep, h, sumL_append]

lemma sumL_map_ite_filter (vd : Int) (g : Int × K → K) (l : List (Int × K)) :
    sumL (l.map (fun x => if vd < x.1 then g x else 0))
      = sumL ((l.filter (fun x => decide (vd < x.1))).map g) := by
  induction l with
  | nil => rfl
  | cons x xs ih => by_cases h : vd < x.1 <;> simp [List.filter_cons, h, ih]

lemma patchLast_sum (rows : List (Row K)) (extra cum : K) (h : rows ≠ []) :
    sumL ((patchLast rows extra cum).map (·.pv)) = sumL (rows.map (·.pv)) + extra
    ∧ (patchLast rows extra cum).length = rows.length := by
  unfold patchLast
  cases hr : rows.reverse with
  | nil => exact absurd (List.reverse_eq_nil_iff.mp hr) h
  | cons r rs =>
    have : rows = rs.reverse ++ [r] := by
      have := congrArg List.reverse hr
      simpa using this
    subst this
    simp [sumL_append]
    ring

/-- C06 **cached tables = summands** (fixed leg): one `payment_pvs` entry per period, and they add up to
the value the loop returns (before the PAY sign), principal included. -/
theorem fixed_rows_sum_to_value (df : Int → K) (vd : Int) (cpn N P : K) (isPay : Bool) (ps : List (Period K)) :
    (pvCol (fixedState df (mkFixedLeg cpn N P isPay ps) vd)).length = ps.length
    ∧ sumL (pvCol (fixedState df (mkFixedLeg cpn N P isPay ps) vd))
        = (fixedState df (mkFixedLeg cpn N P isPay ps) vd).pv := by
  unfold fixedState
  rw [fixedPairs_mk]
  set st := List.foldl (fixedStep df vd (df vd)) LoopSt.init (ps.map (fun p => (p.pay, p.yf * N * cpn))) with hst
  have hrows : pvCol st = (ps.map (fun p => (p.pay, p.yf * N * cpn))).map
      (fun x => if vd < x.1 then x.2 * (df x.1 / df vd) else 0) := by
    rw [hst, fixedFold_rows]; simp [pvCol, LoopSt.init]
  have hpv : st.pv = sumL (pvCol st) := by
    rw [hrows, sumL_map_ite_filter, hst, fixedFold_pv]; simp [LoopSt.init]
  have hlen : (pvCol st).length = ps.length := by rw [hrows]; simp
  cases hl : ps.getLast? with
  | none =>
    simp only [List.getLast?_map, mkFixedLeg, hl, Option.map_none, addPrincipal]
    exact ⟨hlen, hpv.symm⟩
  | some p =>
    simp only [List.getLast?_map, hl, Option.map_some, addPrincipal, mkFixedLeg]
    by_cases h : vd < p.pay
    · have hne : st.rows ≠ [] := by
        intro h0
        have : ps.length = 0 := by rw [← hlen]; simp [pvCol, h0]
        have : ps = [] := List.length_eq_zero_iff.mp this
        simp [this] at hl
      obtain ⟨h1, h2⟩ := patchLast_sum st.rows (P * st.dfPay * N) (st.pv + P * st.dfPay * N) hne
      simp only [h, if_true, pvCol, List.length_map] at *
      exact ⟨by rw [h2]; exact hlen, by rw [h1, ← hpv]⟩
    · simp only [h, if_false]
      exact ⟨hlen, hpv.symm⟩

/-- C06 **cached tables = summands** (floating leg). -/
theorem float_rows_sum_to_value (df : Int → K) (idx : IndexCurve K) (ff : Option K) (vd : Int) (leg : FloatLeg K)
    (hlen : leg.notionals.length = leg.periods.length) :
    (pvCol (floatState df idx ff leg vd)).length = leg.periods.length
    ∧ sumL (pvCol (floatState df idx ff leg vd)) = (floatState df idx ff leg vd).pv := by
  unfold floatState floatPairs
  set st := List.foldl (floatStep df idx ff leg.spread vd (df vd)) LoopSt.init (leg.periods.zip leg.notionals) with hst
  obtain ⟨h1, h2⟩ := floatFold_rows df idx ff leg.spread vd (df vd) (leg.periods.zip leg.notionals) LoopSt.init
  rw [← hst] at h1 h2
  have hl : (pvCol st).length = leg.periods.length := by
    rw [h1]; simp [pvCol, LoopSt.init, List.length_zip, hlen]
  have hs : sumL (pvCol st) = st.pv := by
    have : sumL (pvCol (LoopSt.init : LoopSt K)) - (LoopSt.init : LoopSt K).pv = 0 := by simp [pvCol, LoopSt.init]
    rw [this] at h2
    exact sub_eq_zero.mp h2
  cases hn : leg.notionals.getLast? with
  | none => exact ⟨hl, hs⟩
  | some nLast =>
    simp only
    cases hp : (leg.periods.map (·.pay)).getLast? with
    | none => simp only [addPrincipal]; exact ⟨hl, hs⟩
    | some d =>
      simp only [addPrincipal]
      by_cases h : vd < d
      · have hne : st.rows ≠ [] := by
          intro h0
          have h3 : leg.periods.length = 0 := by rw [← hl]; simp [pvCol, h0]
          have : leg.periods = [] := List.length_eq_zero_iff.mp h3
          simp [this] at hp
        obtain ⟨g1, g2⟩ := patchLast_sum st.rows (leg.principal * st.dfPay * nLast)
          (st.pv + leg.principal * st.dfPay * nLast) hne
        simp only [h, if_true, pvCol, List.length_map] at *
        exact ⟨by rw [g2]; exact hl, by rw [g1, hs]⟩
      · simp only [h, if_false]; exact ⟨hl, hs⟩

/-- Entries of periods already paid are exactly 0 (fixed leg, before the principal patch which only
touches the last entry, and only when the last payment is still to come). -/
theorem fixed_past_rows_are_zero (df : Int → K) (vd : Int) (dfv : K) (l : List (Int × K)) (i : Nat)
    (x : Int × K) (hx : l[i]? = some x) (hpast : x.1 ≤ vd) :
    (pvCol (l.foldl (fixedStep df vd dfv) LoopSt.init))[i]? = some 0 := by
  rw [fixedFold_rows]
  simp [pvCol, LoopSt.init, hx, not_lt.mpr hpast]

end FinVerif.Props.C06
