/-
  C06 (part e) — the hand model's loop bodies and small methods ARE the functions generated from the source.

  `Gen/SwapsR.lean` is written by the translator on every run from the current text of swap_fixed_leg.py,
  swap_float_leg.py, equity_swap_leg.py, ibor_swap.py, ois.py (loop bodies, the blocks after the loops, pv01,
  swap_rate, valuation_details, cash_settled_pv01); `Gen/RatesR.lean` from ibor_deposit.py / ibor_fra.py.
  The theorems here say: one step of the hand model (`Model/C06*.lean`, read over ℝ) = one call of the generated
  function, for every state and every input.  An edit of the source that changes a loop body (comparison, order of
  the first-fixing test, a dropped `/ df_value`, the PAY sign …) changes the generated text and these proofs fail.
  Then the liveness filter as coded: a flow with `payment_dt ≤ value_dt` leaves the running value unchanged and
  writes a zero row; a flow with `payment_dt > value_dt` adds exactly `amount × df(pay)/df(value_dt)` — for any
  payment date whatsoever (any payment lag).
-/
import FinVerif.Lemmas.C06
import FinVerif.Model.C06x
import FinVerif.Gen.SwapsR
import FinVerif.Gen.RatesR

set_option linter.unusedSimpArgs false
set_option linter.unusedSectionVars false
set_option linter.unusedVariables false

namespace FinVerif.Props.C06
open FinVerif FinVerif.Spec.C06 FinVerif.Model.C06 FinVerif.Lemmas.C06
open FinVerif.Gen.SwapsR FinVerif.Gen.RatesR

/-! ### SwapFixedLeg.value -/

/-- One iteration of the hand model's fixed-leg loop = one call of the generated loop body. -/
theorem fixedStep_is_generated (df : Int → ℝ) (vd : Int) (dfv : ℝ) (st : LoopSt ℝ) (x : Int × ℝ) :
    fixedStep df vd dfv st x =
      (let g := fixed_leg_step vd dfv st.pv st.dfPay x.1 x.2 (df x.1)
       { pv := g.1, dfPay := g.2.1, first := st.first,
         rows := st.rows ++ [⟨0, x.2, g.2.2.1, g.2.2.2.1, g.2.2.2.2⟩] }) := by
  unfold fixedStep fixed_leg_step
  by_cases h : vd < x.1 <;> simp [h, gt_iff_lt]

/-- The block after the fixed-leg loop (principal exchange, PAY sign) = the generated tail: value … -/
theorem fixedTail_is_generated (vd d : Int) (P N a b : ℝ) (isPay : Bool) (st : LoopSt ℝ) :
    applySign isPay (addPrincipal vd (some d) P N st).pv
      = (fixed_leg_tail vd d st.pv st.dfPay N a b isPay P).1 := by
  unfold addPrincipal fixed_leg_tail applySign
  by_cases h : vd < d <;> cases isPay <;> simp [h, gt_iff_lt]

/-- … and the patched last row (`payment_pvs[-1] += …; cumulative_pvs[-1] = leg_pv`). -/
theorem fixedTail_rows_is_generated (vd d : Int) (P N : ℝ) (isPay : Bool) (st : LoopSt ℝ) (rs : List (Row ℝ)) (r : Row ℝ)
    (hr : st.rows = rs ++ [r]) :
    (addPrincipal vd (some d) P N st).rows
      = (let g := fixed_leg_tail vd d st.pv st.dfPay N r.pv r.cum isPay P
         rs ++ [{ r with pv := g.2.1, cum := g.2.2 }]) := by
  unfold addPrincipal fixed_leg_tail patchLast
  by_cases h : vd < d <;> simp [h, gt_iff_lt, hr]

/-- Liveness filter as coded (fixed leg): a payment on or before the valuation date leaves the running value and
`df_payment` untouched and writes the zero row. -/
theorem gen_fixed_step_dead (vd : Int) (dfv pv dfp : ℝ) (d : Int) (amt dfd : ℝ) (h : d ≤ vd) :
    fixed_leg_step vd dfv pv dfp d amt dfd = (pv, dfp, 0, 0, 0) := by
  have : ¬ vd < d := not_lt.mpr h
  simp [fixed_leg_step, gt_iff_lt, this]

/-- … a payment after the valuation date adds exactly `amount × df(pay)/df(value_dt)` — whatever the payment
date is (any lag). -/
theorem gen_fixed_step_live (vd : Int) (dfv pv dfp : ℝ) (d : Int) (amt dfd : ℝ) (h : vd < d) :
    fixed_leg_step vd dfv pv dfp d amt dfd
      = (pv + amt * (dfd / dfv), dfd / dfv, dfd / dfv, amt * (dfd / dfv), pv + amt * (dfd / dfv)) := by
  simp [fixed_leg_step, gt_iff_lt, h]

/-! ### SwapFloatLeg.value -/

/-- One iteration of the hand model's float-leg loop = one call of the generated loop body
(`has_first_fixing = first_fixing_rate is not None`). -/
theorem floatStep_is_generated (df : Int → ℝ) (idx : IndexCurve ℝ) (ff : Option ℝ) (spread : ℝ) (vd : Int) (dfv : ℝ)
    (st : LoopSt ℝ) (x : Period ℝ × ℝ) :
    floatStep df idx ff spread vd dfv st x =
      (let g := float_leg_step vd dfv ff.isSome (ff.getD 0) st.pv st.dfPay st.first x.1.pay x.1.yf
                  (idx.yf x.1.start x.1.stop) (idx.df x.1.start) (idx.df x.1.stop) x.2 (df x.1.pay) spread
       { pv := g.1, dfPay := g.2.1, first := g.2.2.1,
         rows := st.rows ++ [⟨g.2.2.2.1, g.2.2.2.2.1, g.2.2.2.2.2.1, g.2.2.2.2.2.2.1, g.2.2.2.2.2.2.2⟩] }) := by
  unfold floatStep float_leg_step
  by_cases h : vd < x.1.pay
  · cases hf : st.first <;> cases ff <;> simp [h, hf, gt_iff_lt]
  · simp [h, gt_iff_lt]

/-- The block after the float-leg loop (principal × `notional_array[-1]`, PAY sign) = the generated tail. -/
theorem floatTail_is_generated (vd d : Int) (P nLast a b : ℝ) (isPay : Bool) (st : LoopSt ℝ) :
    applySign isPay (addPrincipal vd (some d) P nLast st).pv
      = (float_leg_tail vd d st.pv st.dfPay nLast a b isPay P).1 := by
  unfold addPrincipal float_leg_tail applySign
  by_cases h : vd < d <;> cases isPay <;> simp [h, gt_iff_lt]

/-- The two legs share the text of the block after the loop. -/
theorem float_tail_eq_fixed_tail : float_leg_tail = fixed_leg_tail := rfl

/-- Liveness filter as coded (float leg): dead flow — nothing changes, not even the first-fixing flag; zero row
(with the running value in `cumulative_pvs`). -/
theorem gen_float_step_dead (vd : Int) (dfv : ℝ) (has : Bool) (fx pv dfp : ℝ) (first : Bool) (d : Int)
    (pa ia ds de n dfd s : ℝ) (h : d ≤ vd) :
    float_leg_step vd dfv has fx pv dfp first d pa ia ds de n dfd s = (pv, dfp, first, 0, 0, 0, 0, pv) := by
  have : ¬ vd < d := not_lt.mpr h
  simp [float_leg_step, gt_iff_lt, this]

/-- Live flow: adds `(rate + spread) × accrual × notional × df(pay)/df(value_dt)` where the rate is the first fixing
iff one is supplied and none has been used yet, the projected forward `(df_start/df_end − 1)/α_index` otherwise;
the first-fixing flag is raised exactly when the fixing is used. -/
theorem gen_float_step_live (vd : Int) (dfv : ℝ) (has : Bool) (fx pv dfp : ℝ) (first : Bool) (d : Int)
    (pa ia ds de n dfd s : ℝ) (h : vd < d) :
    float_leg_step vd dfv has fx pv dfp first d pa ia ds de n dfd s
      = (let useFix := !first && has
         let rate := if useFix then fx else (ds / de - 1) / ia
         let amt := (rate + s) * pa * n
         (pv + amt * (dfd / dfv), dfd / dfv, (if useFix then true else first), rate, amt, dfd / dfv,
          amt * (dfd / dfv), pv + amt * (dfd / dfv))) := by
  cases first <;> cases has <;> simp [float_leg_step, gt_iff_lt, h]

/-! ### EquitySwapLeg.value -/

/-- One iteration of the hand model's equity-leg loop = one call of the generated loop body. -/
theorem eqStep_is_generated (df : Int → ℝ) (idx : IndexCurve ℝ) (dvd : Int → ℝ) (price qty notional : ℝ) (vd : Int)
    (dfv : ℝ) (st : EqSt ℝ) (p : Period ℝ) :
    eqStep df idx dvd price qty notional vd dfv st p =
      (let g := equity_leg_step vd dfv st.pv st.term st.lastN st.nextN p.pay p.yf (idx.yf p.start p.stop)
                  (idx.df p.start) (idx.df p.stop) (dvd p.start) (dvd p.stop) (df p.pay) price qty notional
       { pv := g.1, term := g.2.1, lastN := g.2.2.1, nextN := g.2.2.2.1,
         rows := st.rows ++ [⟨g.2.2.2.2.1, g.2.2.2.2.2.1, g.2.2.2.2.2.2.1, g.2.2.2.2.2.2.2.1, g.2.2.2.2.2.2.2.2.1,
                              g.2.2.2.2.2.2.2.2.2.1, g.2.2.2.2.2.2.2.2.2.2.1, g.2.2.2.2.2.2.2.2.2.2.2⟩] }) := by
  unfold eqStep equity_leg_step
  by_cases h : vd < p.pay <;> simp [h, gt_iff_lt]

/-- The PAY sign of the equity leg. -/
theorem eqTail_is_generated (isPay : Bool) (pv : ℝ) : applySign isPay pv = equity_leg_tail pv isPay := by
  cases isPay <;> simp [applySign, equity_leg_tail]

/-- Liveness filter as coded (equity leg): dead flow — value and term rate unchanged, `last_notional` catches up
with `next_notional`, the row shows the contract notional. -/
theorem gen_equity_step_dead (vd : Int) (dfv pv term lastN nextN : ℝ) (d : Int) (yf ia ds de vs ve dfd price qty N : ℝ)
    (h : d ≤ vd) :
    equity_leg_step vd dfv pv term lastN nextN d yf ia ds de vs ve dfd price qty N
      = (pv, term, nextN, nextN, 0, 0, 0, N, 0, 0, 0, pv) := by
  have : ¬ vd < d := not_lt.mpr h
  simp [equity_leg_step, gt_iff_lt, this]

/-- Live flow: the term rate compounds by `1 + eq_fwd × year_frac`, the payment is the change of notional
`price × (1 + term') × quantity − last_notional`, discounted by `df(pay)/df(value_dt)`. -/
theorem gen_equity_step_live (vd : Int) (dfv pv term lastN nextN : ℝ) (d : Int) (yf ia ds de vs ve dfd price qty N : ℝ)
    (h : vd < d) :
    equity_leg_step vd dfv pv term lastN nextN d yf ia ds de vs ve dfd price qty N
      = (let eqf := (ds / de * (vs / ve) - 1) / ia
         let term' := (1 + eqf * yf) * (1 + term) - 1
         let nN := price * (1 + term') * qty
         (pv + (nN - lastN) * (dfd / dfv), term', nN, nN, (ds / de - 1) / ia, (vs / ve - 1) / ia, eqf, lastN,
          nN - lastN, dfd / dfv, (nN - lastN) * (dfd / dfv), pv + (nN - lastN) * (dfd / dfv))) := by
  simp [equity_leg_step, gt_iff_lt, h]

/-! ### pv01 / swap_rate / valuation_details / cash_settled_pv01 -/

/-- `IborSwap.pv01` of the hand model = the generated method (fixed leg value / coupon / notional, absolute value). -/
theorem pv01_is_generated (df : Int → ℝ) (s : Swap ℝ) (vd : Int) :
    pv01 abs df s vd = swap_pv01 (fixedValue df s.fixed vd) s.fixed.cpn s.fixed.notional := rfl

/-- pv01 is defined by the same text in `IborSwap` and `OIS`. -/
theorem ois_pv01_eq_swap_pv01 : ois_pv01 = swap_pv01 := rfl

/-- `IborSwap.swap_rate` of the hand model (guard constant `g_small` as in utils/global_vars.py) = the generated method. -/
theorem swapRate_is_generated (df : Int → ℝ) (idx : IndexCurve ℝ) (ff : Option ℝ) (s : Swap ℝ) (vd : Int) :
    swapRate abs (1e-12 : ℝ) df idx ff s vd
      = swap_swap_rate (pv01 abs df s vd) (floatValue df idx ff s.float vd) s.float.isPay s.float.notional := by
  unfold swapRate swap_swap_rate
  by_cases h : |pv01 abs df s vd| < (1e-12 : ℝ) <;> simp [h]

/-- `OIS.swap_rate` of the hand model = the generated method. -/
theorem oisSwapRate_is_generated (df : Int → ℝ) (idx : IndexCurve ℝ) (ff : Option ℝ) (s : Swap ℝ) (vd : Int) :
    oisSwapRate abs df idx ff s vd
      = ois_swap_rate (pv01 abs df s vd) (floatValue df idx ff s.float vd) s.float.isPay s.fixed.notional := by
  unfold oisSwapRate ois_swap_rate
  rfl

/-- `valuation_details`' pv01 and market_rate of the hand model = the generated statements. -/
theorem detailsRate_is_generated (df : Int → ℝ) (idx : IndexCurve ℝ) (ff : Option ℝ) (s : Swap ℝ) (vd : Int) :
    detailsRate abs df idx ff s vd
      = swap_details_rate (fixedValue df s.fixed vd) (floatValue df idx ff s.float vd) s.float.isPay
          s.fixed.cpn s.fixed.notional s.float.notional := by
  unfold detailsRate swap_details_rate
  cases s.float.isPay <;> simp

/-- pv01 definition consistency inside `IborSwap`: `valuation_details` reports the same pv01 as `pv01()` and, whenever
`swap_rate()` returns, the same rate (it has no `g_small` guard of its own). -/
theorem details_rate_eq_swap_rate (df : Int → ℝ) (idx : IndexCurve ℝ) (ff : Option ℝ) (s : Swap ℝ) (vd : Int) (r : ℝ)
    (h : swapRate abs (1e-12 : ℝ) df idx ff s vd = .ok r) :
    detailsRate abs df idx ff s vd = (pv01 abs df s vd, r) := by
  unfold swapRate at h
  by_cases hg : |pv01 abs df s vd| < (1e-12 : ℝ)
  · simp [hg] at h
  · simp only [hg, if_false, Except.ok.injEq] at h
    subst h
    unfold detailsRate pv01
    cases s.float.isPay <;> simp [neg_div, div_neg]

/-- One iteration of the flat annuity loop of `cash_settled_pv01` = the generated loop body. -/
theorem cashStep_is_generated (alpha r : ℝ) (st : ℝ × ℝ) :
    cashStep alpha r st = swap_cash_pv01_step st.1 st.2 alpha r := rfl

/-! ### IborDeposit.value / IborFRA.value -/

/-- The hand model of `IborDeposit.value` = the function generated from ibor_deposit.py. -/
theorem deposit_is_generated (df : Int → ℝ) (start mat : Int) (yf r N : ℝ) (vd : Int) :
    depositValue df start mat yf r N vd = deposit_value vd yf (df start) (df mat) r N mat := by
  unfold depositValue deposit_value
  by_cases h : mat < vd <;> simp [h, gt_iff_lt]

/-- The hand model of `IborFRA.value(pv_only=True)` = the function generated from ibor_fra.py. -/
theorem fra_is_generated (df dfI : Int → ℝ) (start mat : Int) (yf k N : ℝ) (payFixed : Bool) (vd : Int) :
    fraValue df dfI start mat yf k N payFixed vd
      = fra_value yf (dfI start) (dfI mat) (df mat) (df vd) k N payFixed := by
  unfold fraValue fra_value
  cases payFixed <;> simp

end FinVerif.Props.C06
