/-
  C06 (part f) — consequences that need more than one leg or more than one period:
  telescoping of the single-curve floating leg with a first fixing and a principal exchange (any number of periods,
  seasoned legs), the par floater; invariance of every value under rescaling of the discount curve (what the division
  by `df(value_dt)` buys); `value = (cpn − par rate) × pv01 × notional` for IborSwap and OIS; closed form of the par
  rate on one curve; basis swaps (float − float, sign, linearity, single-curve value 0, par spread); the flat
  annuity of `cash_settled_pv01`.
  Over an arbitrary (ordered, where `abs` is involved) field; witnesses over ℚ.
-/
import FinVerif.Props.C06c
import FinVerif.Model.C06x

set_option linter.unusedSimpArgs false
set_option linter.unusedSectionVars false
set_option linter.unusedVariables false

namespace FinVerif.Props.C06
open FinVerif FinVerif.Spec.C06 FinVerif.Model.C06 FinVerif.Lemmas.C06

section field
variable {K : Type} [Field K]

/-! ### telescoping with first fixing and principal -/

/-- C06 **float_leg_telescopes (general)**: one curve for projection and discounting, no spread, pay basis = index
basis, payment on the accrual end date, contiguous periods all still to be paid.  Then with a principal exchange `P`
and an optional first fixing the leg is worth
`± [ N (df(a) − df(end)) + P N df(end) ] / df(value_dt)` plus, when a fixing `r` is supplied, the fixed first coupon
`r × yf₁ × N × df(end₁)/df(value_dt)`; `a` is the start of the first period, or its end when the first coupon is fixed. -/
theorem float_leg_telescopes_general (df : Int → K) (yfI : Int → Int → K) (vd : Int) (N P : K) (isPay : Bool)
    (ff : Option K) (p : Period K) (qs : List (Period K))
    (hfut : ∀ q ∈ p :: qs, vd < q.pay) (hlag : ∀ q ∈ p :: qs, q.pay = q.stop)
    (hbasis : ∀ q ∈ p :: qs, yfI q.start q.stop = q.yf) (hyf : ∀ q ∈ p :: qs, q.yf ≠ 0)
    (hdf : ∀ q ∈ p :: qs, df q.stop ≠ 0) (hc : Contiguous (p :: qs)) :
    floatValue df ⟨df, yfI⟩ ff (mkFloatLeg 0 N P isPay (p :: qs)) vd
      = signed isPay
          ((match ff with
            | none => N * (df p.start - df ((p :: qs).getLast (by simp)).stop) / df vd
            | some r => r * p.yf * N * (df p.stop / df vd)
                        + N * (df p.stop - df ((p :: qs).getLast (by simp)).stop) / df vd)
           + P * N * (df ((p :: qs).getLast (by simp)).stop / df vd)) := by
  rw [float_leg_eq_sum _ _ _ _ _ (by simp [mkFloatLeg])]
  congr 1
  simp only [mkFloatLeg, floatFlows, pv_append, zip_replicate]
  -- the principal flow
  have hLmem : (p :: qs).getLast (by simp) ∈ p :: qs := List.getLast_mem _
  have hLfut := hfut _ hLmem
  have hLlag := hlag _ hLmem
  have hlast : ((p :: qs).map (fun q => (q, N))).getLast? = some ((p :: qs).getLast (by simp), N) := by
    rw [List.getLast?_map, List.getLast?_eq_some_getLast (by simp)]; rfl
  have hprin : pv df vd (principalFlow P ((((p :: qs).map (fun q => (q, N))).getLast?).map (fun x => (x.1.pay, x.2))))
      = P * N * (df ((p :: qs).getLast (by simp)).stop / df vd) := by
    rw [hlast]
    have hLfut' : vd < ((p :: qs).getLast (by simp)).stop := hLlag ▸ hLfut
    simp only [Option.map_some, principalFlow, pv_cons, pv_nil, Flow.amount, hLlag, hLfut', if_true]
    ring
  rw [hprin]
  congr 1
  -- the coupons
  have hp := hfut p (by simp)
  cases ff with
  | none =>
    rw [floatCoupons_none, List.map_map]
    exact tele_sum df yfI vd N p qs hfut hlag hbasis hyf hdf hc
  | some r =>
    simp only [List.map_cons, floatCoupons, hp, if_true, pv_cons, Flow.amount, List.map_map]
    have h2 := hlag p (by simp)
    rw [h2]
    cases qs with
    | nil => simp only [List.map_nil, pv_nil, List.getLast_singleton]; ring
    | cons q rs =>
      obtain ⟨hpq, hc'⟩ := hc
      have ht := tele_sum df yfI vd N q rs (fun x hx => hfut x (by simp [hx])) (fun x hx => hlag x (by simp [hx]))
        (fun x hx => hbasis x (by simp [hx])) (fun x hx => hyf x (by simp [hx]))
        (fun x hx => hdf x (by simp [hx])) hc'
      have hfun : (fwdFlow df yfI 0 ∘ fun q => (q, N)) = (fun q => fwdFlow df yfI 0 (q, N)) := rfl
      rw [hfun, ht, List.getLast_cons_cons, hpq]
      ring

/-- Non-vacuity of `float_leg_telescopes_general` (two periods, a first fixing, a principal exchange). -/
example : floatValue (fun d => if d = 1 then (1 / 2 : ℚ) else if d = 2 then 1 / 4 else 1)
      ⟨fun d => if d = 1 then (1 / 2 : ℚ) else if d = 2 then 1 / 4 else 1, fun _ _ => 1⟩ (some (3 / 100))
      (mkFloatLeg 0 100 1 false [⟨0, 1, 1, 1⟩, ⟨1, 2, 2, 1⟩]) 0
    = (3 / 100) * 1 * 100 * ((1 / 2) / 1) + 100 * (1 / 2 - 1 / 4) / 1 + 1 * 100 * ((1 / 4) / 1) := by
  have h := float_leg_telescopes_general (fun d => if d = 1 then (1 / 2 : ℚ) else if d = 2 then 1 / 4 else 1)
    (fun _ _ => 1) 0 100 1 false (some (3 / 100)) ⟨0, 1, 1, 1⟩ [⟨1, 2, 2, 1⟩]
    (by intro q hq; simp at hq; rcases hq with rfl | rfl <;> norm_num)
    (by intro q hq; simp at hq; rcases hq with rfl | rfl <;> rfl)
    (by intro q hq; simp at hq; rcases hq with rfl | rfl <;> rfl)
    (by intro q hq; simp at hq; rcases hq with rfl | rfl <;> norm_num)
    (by intro q hq; simp at hq; rcases hq with rfl | rfl <;> norm_num)
    ⟨rfl, trivial⟩
  simpa [signed] using h

/-- C06 **par floater**: with the notional exchanged at the end (`principal = 1`) and no fixing, the spread-free
single-curve leg is worth `± N × df(start)/df(value_dt)` — the notional, discounted from the start of the first
unpaid period; in particular exactly `± N` when that period starts on the valuation date. -/
theorem par_floater (df : Int → K) (yfI : Int → Int → K) (vd : Int) (N : K) (isPay : Bool)
    (p : Period K) (qs : List (Period K))
    (hfut : ∀ q ∈ p :: qs, vd < q.pay) (hlag : ∀ q ∈ p :: qs, q.pay = q.stop)
    (hbasis : ∀ q ∈ p :: qs, yfI q.start q.stop = q.yf) (hyf : ∀ q ∈ p :: qs, q.yf ≠ 0)
    (hdf : ∀ q ∈ p :: qs, df q.stop ≠ 0) (hc : Contiguous (p :: qs)) :
    floatValue df ⟨df, yfI⟩ none (mkFloatLeg 0 N 1 isPay (p :: qs)) vd = signed isPay (N * (df p.start / df vd)) := by
  rw [float_leg_telescopes_general df yfI vd N 1 isPay none p qs hfut hlag hbasis hyf hdf hc]
  congr 1
  ring

/-- … worth the notional itself on the start date. -/
theorem par_floater_at_start (df : Int → K) (yfI : Int → Int → K) (N : K) (isPay : Bool)
    (p : Period K) (qs : List (Period K)) (hv : df p.start ≠ 0)
    (hfut : ∀ q ∈ p :: qs, p.start < q.pay) (hlag : ∀ q ∈ p :: qs, q.pay = q.stop)
    (hbasis : ∀ q ∈ p :: qs, yfI q.start q.stop = q.yf) (hyf : ∀ q ∈ p :: qs, q.yf ≠ 0)
    (hdf : ∀ q ∈ p :: qs, df q.stop ≠ 0) (hc : Contiguous (p :: qs)) :
    floatValue df ⟨df, yfI⟩ none (mkFloatLeg 0 N 1 isPay (p :: qs)) p.start = signed isPay N := by
  rw [par_floater df yfI p.start N isPay p qs hfut hlag hbasis hyf hdf hc, div_self hv, mul_one]

/-- C06 **float_leg_telescopes (seasoned leg)**: periods already paid in front of the live ones change nothing —
the telescoping value starts at the first period still to be paid (first fixing and principal as above). -/
theorem float_leg_telescopes_seasoned (df : Int → K) (yfI : Int → Int → K) (vd : Int) (N P : K) (isPay : Bool)
    (ff : Option K) (past : List (Period K)) (p : Period K) (qs : List (Period K))
    (hpast : ∀ q ∈ past, q.pay ≤ vd)
    (hfut : ∀ q ∈ p :: qs, vd < q.pay) (hlag : ∀ q ∈ p :: qs, q.pay = q.stop)
    (hbasis : ∀ q ∈ p :: qs, yfI q.start q.stop = q.yf) (hyf : ∀ q ∈ p :: qs, q.yf ≠ 0)
    (hdf : ∀ q ∈ p :: qs, df q.stop ≠ 0) (hc : Contiguous (p :: qs)) :
    floatValue df ⟨df, yfI⟩ ff (mkFloatLeg 0 N P isPay (past ++ p :: qs)) vd
      = floatValue df ⟨df, yfI⟩ ff (mkFloatLeg 0 N P isPay (p :: qs)) vd := by
  have h := float_past_flows_contribute_nothing df ⟨df, yfI⟩ ff vd (mkFloatLeg 0 N P isPay (p :: qs)) past (p :: qs)
    (List.replicate past.length N) (List.replicate (p :: qs).length N) (by simp) (by simp) (by simp) hpast
  simpa [mkFloatLeg, List.replicate_add] using h

/-! ### rescaling the curves: what dividing by `df(value_dt)` buys -/

lemma pv_rescale (df : Int → K) (vd : Int) (c : K) (hc : c ≠ 0) (l : List (Flow K)) :
    pv (fun d => c * df d) vd l = pv df vd l := by
  induction l with
  | nil => rfl
  | cons f fs ih =>
    rw [pv_cons, pv_cons, ih, mul_div_mul_left _ _ hc]

lemma fwdFlow_rescale (dfI : Int → K) (iyf : Int → Int → K) (s c : K) (hc : c ≠ 0) :
    fwdFlow (fun d => c * dfI d) iyf s = fwdFlow dfI iyf s := by
  funext x
  simp [fwdFlow, fwdRate, mul_div_mul_left _ _ hc]

lemma floatCoupons_rescale (dfI : Int → K) (iyf : Int → Int → K) (ff : Option K) (s c : K) (hc : c ≠ 0) (vd : Int)
    (l : List (Period K × K)) :
    floatCoupons (fun d => c * dfI d) iyf ff s vd l = floatCoupons dfI iyf ff s vd l := by
  induction l with
  | nil => rfl
  | cons x xs ih =>
    by_cases h : vd < x.1.pay
    · cases ff <;> simp [floatCoupons, h, fwdFlow_rescale dfI iyf s c hc]
    · simp [floatCoupons, h, ih, fwdFlow_rescale dfI iyf s c hc]

/-- C06 **normalisation by df(value_dt)** (fixed leg): multiplying every discount factor by a non-zero constant —
e.g. re-basing the curve to another anchor date — does not change the value. -/
theorem fixed_value_rescale_invariant (df : Int → K) (vd : Int) (cpn N P c : K) (hc : c ≠ 0) (isPay : Bool)
    (ps : List (Period K)) :
    fixedValue (fun d => c * df d) (mkFixedLeg cpn N P isPay ps) vd = fixedValue df (mkFixedLeg cpn N P isPay ps) vd := by
  rw [fixed_leg_eq_sum, fixed_leg_eq_sum, pv_rescale df vd c hc]

/-- C06 **normalisation by df(value_dt)** (floating leg): neither a constant factor on the discount curve nor one
on the index curve (forwards are ratios) changes the value. -/
theorem float_value_rescale_invariant (df : Int → K) (idx : IndexCurve K) (ff : Option K) (vd : Int) (leg : FloatLeg K)
    (hlen : leg.notionals.length = leg.periods.length) (c c' : K) (hc : c ≠ 0) (hc' : c' ≠ 0) :
    floatValue (fun d => c * df d) ⟨fun d => c' * idx.df d, idx.yf⟩ ff leg vd = floatValue df idx ff leg vd := by
  rw [float_leg_eq_sum _ _ _ _ _ hlen, float_leg_eq_sum _ _ _ _ _ hlen, pv_rescale df vd c hc]
  simp only [floatFlows, floatCoupons_rescale idx.df idx.yf ff leg.spread c' hc']

/-- Swap value, both legs, one constant on the discount curve and one on the index curve. -/
theorem swap_value_rescale_invariant (df : Int → K) (idx : IndexCurve K) (ff : Option K) (vd : Int) (s : Bool)
    (cpn N spread : K) (fp lp : List (Period K)) (c c' : K) (hc : c ≠ 0) (hc' : c' ≠ 0) :
    swapValue (fun d => c * df d) ⟨fun d => c' * idx.df d, idx.yf⟩ ff (mkSwap s cpn N spread fp lp) vd
      = swapValue df idx ff (mkSwap s cpn N spread fp lp) vd := by
  unfold swapValue
  have h1 := fixed_value_rescale_invariant df vd cpn N 0 c hc s fp
  have h2 := float_value_rescale_invariant df idx ff vd (mkSwap s cpn N spread fp lp).float (by simp [mkSwap, mkFloatLeg]) c c' hc hc'
  unfold mkSwap at h2 ⊢
  rw [h1, h2]

/-- pv01 does not depend on the scale of the discount curve either (it is normalised by `df(value_dt)`). -/
theorem pv01_rescale_invariant (absf : K → K) (df : Int → K) (vd : Int) (s : Bool) (cpn N spread : K)
    (fp lp : List (Period K)) (c : K) (hc : c ≠ 0) :
    pv01 absf (fun d => c * df d) (mkSwap s cpn N spread fp lp) vd = pv01 absf df (mkSwap s cpn N spread fp lp) vd := by
  unfold pv01
  have h1 := fixed_value_rescale_invariant df vd cpn N 0 c hc s fp
  unfold mkSwap
  rw [h1]

/-- The same leg valued WITHOUT the division (the sum of `amount × df(pay)`) is not invariant: the
normaliser is what makes the value a price on the valuation date. -/
theorem unnormalised_sum_not_invariant :
    ∃ (df : Int → ℚ) (c : ℚ), c ≠ 0 ∧ (1 : ℚ) * (c * df 1) ≠ 1 * df 1 :=
  ⟨fun _ => 1, 2, by norm_num, by norm_num⟩

/-! ### basis swaps -/

/-- C06 **basis swap = float − float**: seen from leg 1's side, `IborBasisSwap.value` / `OISBasisSwap.value` is leg 1's
discounted sum minus leg 2's, each projected on its own index curve. -/
theorem basis_swap_eq_float_minus_float (df : Int → K) (idx1 idx2 : IndexCurve K) (ff1 ff2 : Option K) (vd : Int)
    (b : Bool) (s1 s2 N : K) (ps1 ps2 : List (Period K)) :
    basisSwapValue df idx1 idx2 ff1 ff2 (mkBasisLegs b s1 s2 N ps1 ps2).1 (mkBasisLegs b s1 s2 N ps1 ps2).2 vd
      = signed b (pv df vd (floatFlows idx1.df idx1.yf ff1 s1 0 vd (ps1.zip (List.replicate ps1.length N)))
                  - pv df vd (floatFlows idx2.df idx2.yf ff2 s2 0 vd (ps2.zip (List.replicate ps2.length N)))) := by
  rw [basis_swap_eq_sum _ _ _ _ _ _ _ _ (by simp [mkBasisLegs, mkFloatLeg]) (by simp [mkBasisLegs, mkFloatLeg])]
  cases b <;> simp [mkBasisLegs, mkFloatLeg, signed, sub_eq_add_neg, add_comm]

/-- C06 **pay_eq_neg_receive** (basis swap). -/
theorem basis_pay_eq_neg_receive (df : Int → K) (idx1 idx2 : IndexCurve K) (ff1 ff2 : Option K) (vd : Int)
    (s1 s2 N : K) (ps1 ps2 : List (Period K)) :
    basisSwapValue df idx1 idx2 ff1 ff2 (mkBasisLegs true s1 s2 N ps1 ps2).1 (mkBasisLegs true s1 s2 N ps1 ps2).2 vd
      = - basisSwapValue df idx1 idx2 ff1 ff2 (mkBasisLegs false s1 s2 N ps1 ps2).1 (mkBasisLegs false s1 s2 N ps1 ps2).2 vd := by
  rw [basis_swap_eq_float_minus_float, basis_swap_eq_float_minus_float]
  simp [signed]

lemma mkFloatLeg_linear (df : Int → K) (i : IndexCurve K) (f : Option K) (vd : Int) (s N P k : K) (bb : Bool)
    (ps : List (Period K)) :
    floatValue df i f (mkFloatLeg s (k * N) P bb ps) vd = k * floatValue df i f (mkFloatLeg s N P bb ps) vd := by
  rw [← float_linear_in_notional df i f vd k (mkFloatLeg s N P bb ps) (by simp [mkFloatLeg])]
  simp [floatValue, floatState, floatPairs, mkFloatLeg, List.map_replicate]

/-- C06 **linear_in_notional** (basis swap). -/
theorem basis_linear_in_notional (df : Int → K) (idx1 idx2 : IndexCurve K) (ff1 ff2 : Option K) (vd : Int)
    (b : Bool) (s1 s2 N k : K) (ps1 ps2 : List (Period K)) :
    basisSwapValue df idx1 idx2 ff1 ff2 (mkBasisLegs b s1 s2 (k * N) ps1 ps2).1 (mkBasisLegs b s1 s2 (k * N) ps1 ps2).2 vd
      = k * basisSwapValue df idx1 idx2 ff1 ff2 (mkBasisLegs b s1 s2 N ps1 ps2).1 (mkBasisLegs b s1 s2 N ps1 ps2).2 vd := by
  unfold basisSwapValue mkBasisLegs
  rw [mkFloatLeg_linear, mkFloatLeg_linear]
  ring

/-- Both legs of a basis swap on ONE curve, each meeting the telescoping conditions and spanning the same dates, are
worth the same: the swap is worth zero whatever the two frequencies are. -/
theorem basis_swap_single_curve_zero (df : Int → K) (yf1 yf2 : Int → Int → K) (vd : Int) (b : Bool) (N : K)
    (p1 : Period K) (q1 : List (Period K)) (p2 : Period K) (q2 : List (Period K))
    (hstart : p1.start = p2.start)
    (hend : ((p1 :: q1).getLast (by simp)).stop = ((p2 :: q2).getLast (by simp)).stop)
    (hfut1 : ∀ q ∈ p1 :: q1, vd < q.pay) (hlag1 : ∀ q ∈ p1 :: q1, q.pay = q.stop)
    (hbasis1 : ∀ q ∈ p1 :: q1, yf1 q.start q.stop = q.yf) (hyf1 : ∀ q ∈ p1 :: q1, q.yf ≠ 0)
    (hdf1 : ∀ q ∈ p1 :: q1, df q.stop ≠ 0) (hc1 : Contiguous (p1 :: q1))
    (hfut2 : ∀ q ∈ p2 :: q2, vd < q.pay) (hlag2 : ∀ q ∈ p2 :: q2, q.pay = q.stop)
    (hbasis2 : ∀ q ∈ p2 :: q2, yf2 q.start q.stop = q.yf) (hyf2 : ∀ q ∈ p2 :: q2, q.yf ≠ 0)
    (hdf2 : ∀ q ∈ p2 :: q2, df q.stop ≠ 0) (hc2 : Contiguous (p2 :: q2)) :
    basisSwapValue df ⟨df, yf1⟩ ⟨df, yf2⟩ none none
      (mkBasisLegs b 0 0 N (p1 :: q1) (p2 :: q2)).1 (mkBasisLegs b 0 0 N (p1 :: q1) (p2 :: q2)).2 vd = 0 := by
  unfold basisSwapValue mkBasisLegs
  rw [float_leg_telescopes_general df yf1 vd N 0 b none p1 q1 hfut1 hlag1 hbasis1 hyf1 hdf1 hc1,
    float_leg_telescopes_general df yf2 vd N 0 (!b) none p2 q2 hfut2 hlag2 hbasis2 hyf2 hdf2 hc2, hstart, hend]
  cases b <;> simp [signed]

/-- The spread on leg 1 that makes a basis swap worth zero: `s₁* = −(F₁(0) − F₂)/U₁` where `F₁(0)` is leg 1 without
spread, `F₂` leg 2 and `U₁` the value of unit coupons on leg 1 (its "annuity × notional").  The code has no method
for it; this is the consequence of the value being affine in the spread. -/
theorem basis_par_spread_zeroes_value (df : Int → K) (idx1 idx2 : IndexCurve K) (ff1 ff2 : Option K) (vd : Int)
    (b : Bool) (s2 N : K) (ps1 ps2 : List (Period K))
    (hU : pv df vd (unitCoupons (ps1.zip (List.replicate ps1.length N))) ≠ 0) :
    basisSwapValue df idx1 idx2 ff1 ff2
      (mkBasisLegs b
        (-(pv df vd (floatFlows idx1.df idx1.yf ff1 0 0 vd (ps1.zip (List.replicate ps1.length N)))
            - pv df vd (floatFlows idx2.df idx2.yf ff2 s2 0 vd (ps2.zip (List.replicate ps2.length N))))
          / pv df vd (unitCoupons (ps1.zip (List.replicate ps1.length N)))) s2 N ps1 ps2).1
      (mkBasisLegs b 0 s2 N ps1 ps2).2 vd = 0 := by
  have h2 : (mkBasisLegs b 0 s2 N ps1 ps2).2 = (mkBasisLegs b
        (-(pv df vd (floatFlows idx1.df idx1.yf ff1 0 0 vd (ps1.zip (List.replicate ps1.length N)))
            - pv df vd (floatFlows idx2.df idx2.yf ff2 s2 0 vd (ps2.zip (List.replicate ps2.length N))))
          / pv df vd (unitCoupons (ps1.zip (List.replicate ps1.length N)))) s2 N ps1 ps2).2 := rfl
  rw [h2, basis_swap_eq_float_minus_float]
  have : ∀ s : K, pv df vd (floatFlows idx1.df idx1.yf ff1 s 0 vd (ps1.zip (List.replicate ps1.length N)))
      = pv df vd (floatFlows idx1.df idx1.yf ff1 0 0 vd (ps1.zip (List.replicate ps1.length N)))
        + s * pv df vd (unitCoupons (ps1.zip (List.replicate ps1.length N))) := by
    intro s
    simp only [floatFlows, pv_append]
    rw [pv_floatCoupons_spread df vd idx1.df idx1.yf ff1 s]
    ring
  rw [this]
  have : ∀ x : K, signed b x = 0 ↔ x = 0 := by intro x; cases b <;> simp [signed]
  rw [this]
  field_simp
  ring

/-! ### cash_settled_pv01: the flat annuity -/

/-- The discount factor after `n` iterations of the loop: `(1 + α r)^{-n}`. -/
theorem cashAnnuity_df (alpha r : K) (n : Nat) : (cashAnnuity alpha r n).1 = 1 / (1 + alpha * r) ^ n := by
  induction n with
  | zero => simp [cashAnnuity]
  | succ n ih => simp only [cashAnnuity, cashStep, ih, pow_succ]; rw [div_div]

/-- Closed form of the loop of `cash_settled_pv01` over `n` payments: `(1 − (1 + α r)^{-n}) / r`
(for `r ≠ 0`, `1 + α r ≠ 0`). -/
theorem cashAnnuity_closed (alpha r : K) (hr : r ≠ 0) (h1 : 1 + alpha * r ≠ 0) (n : Nat) :
    (cashAnnuity alpha r n).2 = (1 - 1 / (1 + alpha * r) ^ n) / r := by
  induction n with
  | zero => simp [cashAnnuity]
  | succ n ih =>
    have hp : (1 + alpha * r) ^ n ≠ 0 := pow_ne_zero _ h1
    simp only [cashAnnuity, cashStep, ih, cashAnnuity_df, pow_succ]
    field_simp
    ring

/-- At a zero flat rate the annuity is `n × α`. -/
theorem cashAnnuity_zero_rate (alpha : K) (n : Nat) : (cashAnnuity alpha 0 n).2 = n * alpha := by
  induction n with
  | zero => simp [cashAnnuity]
  | succ n ih =>
    have hd : (cashAnnuity alpha 0 n).1 = 1 := by rw [cashAnnuity_df]; simp
    simp only [cashAnnuity, cashStep, ih, hd]
    push_cast
    simp
    ring

/-- As coded, a valuation on or before the effective date starts at index 1: the first coupon is left out of the
annuity of a forward-starting swap (`payment_dts` no longer contains the effective date), so one day later the
annuity jumps by one term.  (Observation outside C06's clauses; recorded in notes/C06.md.) -/
theorem cash_settled_pv01_skips_first_coupon (d : Int) (ds : List Int) (eff vd : Int) (alpha r : K) (h : vd ≤ eff) (hd : vd ≤ d) :
    cashSettledPv01 (d :: ds) eff vd alpha r = .ok (cashAnnuity alpha r ds.length).2 := by
  have : ¬ d < vd := not_lt.mpr hd
  simp [cashSettledPv01, cashStartWhile, this, h]

end field

section ordered
variable {K : Type} [Field K] [LinearOrder K] [IsStrictOrderedRing K]

/-! ### value = (cpn − par rate) × pv01 × notional -/

/-- C06 **pv01 definition consistency** (IborSwap): with a non-zero coupon and notional and a positive annuity above the
guard, `swap_rate` returns `r` and `value = ± (cpn − r) × pv01 × N` (`+` for receive-fixed, `−` for pay-fixed), pv01
being the reported one — the three methods `value`, `pv01`, `swap_rate` agree on what a basis point is worth. -/
theorem swap_value_eq_rate_gap_times_pv01 (gSmall : K) (df : Int → K) (idx : IndexCurve K) (ff : Option K) (vd : Int)
    (s : Bool) (cpn N spread : K) (fp lp : List (Period K))
    (hc : cpn ≠ 0) (hN : N ≠ 0) (hA : 0 < annuity df vd fp) (hg : gSmall ≤ annuity df vd fp) :
    ∃ r, swapRate abs gSmall df idx ff (mkSwap s cpn N spread fp lp) vd = .ok r
      ∧ swapValue df idx ff (mkSwap s cpn N spread fp lp) vd
          = signed s ((cpn - r) * pv01 abs df (mkSwap s cpn N spread fp lp) vd * N) := by
  have hp : pv01 abs df (mkSwap s cpn N spread fp lp) vd = annuity df vd fp := by
    rw [pv01_eq_abs_annuity df vd s cpn N spread fp lp hc hN, abs_of_pos hA]
  have hguard : ¬ |annuity df vd fp| < gSmall := by rw [abs_of_pos hA]; exact not_lt.mpr hg
  refine ⟨_, by unfold swapRate; simp only [hp, hguard, if_false]; rfl, ?_⟩
  have hA' : annuity df vd fp ≠ 0 := ne_of_gt hA
  unfold swapValue
  rw [swap_fixed_value, hp]
  have hn : (mkSwap s cpn N spread fp lp).float.notional = N := rfl
  have hs : (mkSwap s cpn N spread fp lp).float.isPay = !s := rfl
  simp only [hn, hs]
  cases s
  · simp only [signed, Bool.false_eq_true, if_false, Bool.not_false, if_true]
    field_simp
    ring
  · simp only [signed, if_true, Bool.not_true, Bool.false_eq_true, if_false]
    field_simp
    ring

/-- C06 **pv01 definition consistency** (OIS): `value = ± (cpn − swap_rate) × pv01 × N`. -/
theorem ois_value_eq_rate_gap_times_pv01 (df : Int → K) (idx : IndexCurve K) (ff : Option K) (vd : Int)
    (s : Bool) (cpn N spread : K) (fp lp : List (Period K))
    (hc : cpn ≠ 0) (hN : N ≠ 0) (hA : 0 < annuity df vd fp) :
    swapValue df idx ff (mkSwap s cpn N spread fp lp) vd
      = signed s ((cpn - oisSwapRate abs df idx ff (mkSwap s cpn N spread fp lp) vd)
                    * pv01 abs df (mkSwap s cpn N spread fp lp) vd * N) := by
  have hp : pv01 abs df (mkSwap s cpn N spread fp lp) vd = annuity df vd fp := by
    rw [pv01_eq_abs_annuity df vd s cpn N spread fp lp hc hN, abs_of_pos hA]
  have hA' : annuity df vd fp ≠ 0 := ne_of_gt hA
  rw [ois_swap_rate_eq df idx ff vd s cpn N spread fp lp hc hN hA, hp]
  unfold swapValue
  rw [swap_fixed_value]
  cases s
  · simp only [signed, Bool.false_eq_true, if_false, Bool.not_false, if_true]
    field_simp
    ring
  · simp only [signed, if_true, Bool.not_true, Bool.false_eq_true, if_false]
    field_simp
    ring

/-- Non-vacuity of `swap_value_eq_rate_gap_times_pv01`. -/
example : ∃ r, swapRate abs (1 / 10 ^ 12 : ℚ) (fun _ => 1) ⟨fun _ => 1, fun _ _ => 1⟩ none
      (mkSwap true (3 / 100) 1 0 [⟨0, 1, 1, 1⟩] [⟨0, 1, 1, 1⟩]) 0 = .ok r
    ∧ swapValue (fun _ => 1) ⟨fun _ => 1, fun _ _ => 1⟩ none (mkSwap true (3 / 100) 1 0 [⟨0, 1, 1, 1⟩] [⟨0, 1, 1, 1⟩]) 0
        = signed true ((3 / 100 - r) * pv01 abs (fun _ => 1) (mkSwap true (3 / 100 : ℚ) 1 0 [⟨0, 1, 1, 1⟩] [⟨0, 1, 1, 1⟩]) 0 * 1) := by
  have hA : annuity (fun _ => (1 : ℚ)) 0 [⟨0, 1, 1, 1⟩] = 1 := by
    simp [annuity, fixedCoupons, pv_cons, pv_nil, Flow.amount]
  exact swap_value_eq_rate_gap_times_pv01 (1 / 10 ^ 12 : ℚ) (fun _ => 1) ⟨fun _ => 1, fun _ _ => 1⟩ none 0 true (3 / 100) 1 0
    [⟨0, 1, 1, 1⟩] [⟨0, 1, 1, 1⟩] (by norm_num) (by norm_num) (by rw [hA]; norm_num) (by rw [hA]; norm_num)

/-! ### the par rate on one curve -/

/-- C06 **par rate, closed form** (OIS, and IborSwap on one curve alike — `OIS.value` projects the floating leg from the
discounting curve): when the floating leg meets the telescoping conditions, `OIS.swap_rate` is
`(df(start) − df(end)) / df(value_dt) / annuity` — the textbook par swap rate — for pay- and receive-fixed. -/
theorem ois_par_rate_closed_form (df : Int → K) (yfI : Int → Int → K) (vd : Int) (s : Bool) (cpn N : K)
    (fp : List (Period K)) (p : Period K) (qs : List (Period K))
    (hc : cpn ≠ 0) (hN : N ≠ 0) (hA : 0 < annuity df vd fp)
    (hfut : ∀ q ∈ p :: qs, vd < q.pay) (hlag : ∀ q ∈ p :: qs, q.pay = q.stop)
    (hbasis : ∀ q ∈ p :: qs, yfI q.start q.stop = q.yf) (hyf : ∀ q ∈ p :: qs, q.yf ≠ 0)
    (hdf : ∀ q ∈ p :: qs, df q.stop ≠ 0) (hcont : Contiguous (p :: qs)) :
    oisSwapRate abs df ⟨df, yfI⟩ none (mkSwap s cpn N 0 fp (p :: qs)) vd
      = (df p.start - df ((p :: qs).getLast (by simp)).stop) / df vd / annuity df vd fp := by
  rw [ois_swap_rate_eq df ⟨df, yfI⟩ none vd s cpn N 0 fp (p :: qs) hc hN hA]
  have hfl : (mkSwap s cpn N 0 fp (p :: qs)).float = mkFloatLeg 0 N 0 (!s) (p :: qs) := rfl
  rw [hfl, float_leg_telescopes_general df yfI vd N 0 (!s) none p qs hfut hlag hbasis hyf hdf hcont]
  have hA' : annuity df vd fp ≠ 0 := ne_of_gt hA
  cases s <;> simp [signed] <;> field_simp

end ordered

end FinVerif.Props.C06
