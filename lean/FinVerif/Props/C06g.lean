/-
  C06 (part g) — equity swap: the rate leg's notional array repeats every equity reset notional `multiple` times
  (it does not tile the list), the equity leg is the discounted sum of the changes of the position's value, pay =
  −receive, linear in the quantity, paid periods contribute nothing, and a spread-free, dividend-free equity swap
  whose two legs share schedule and basis on one curve is worth zero.
  Over an arbitrary field; witnesses over ℚ.
-/
import FinVerif.Props.C06a
import FinVerif.Model.C06x
import FinVerif.Spec.C06x
import Mathlib.Algebra.Order.Ring.Rat
import Mathlib.Algebra.Field.Rat
import Mathlib.Tactic.NormNum

set_option linter.unusedSimpArgs false
set_option linter.unusedSectionVars false
set_option linter.unusedVariables false

namespace FinVerif.Props.C06
open FinVerif FinVerif.Spec.C06 FinVerif.Model.C06 FinVerif.Lemmas.C06

/-! ### `_fill_rate_notional_array`: repeat structure -/

section fill
variable {β : Type}

/-- The filled array has `multiple × (number of equity resets)` entries. -/
theorem fill_length (m : Nat) (ls : List β) : (fillNotionals m ls).length = m * ls.length := by
  induction ls with
  | nil => simp [fillNotionals]
  | cons x xs ih => simp [fillNotionals, ih, Nat.mul_succ, Nat.add_comm]

/-- C06 **repeat structure**: entry `i` of the rate leg's notional array is the reset notional of equity period
`i / multiple` — rate periods `k·m … k·m + m − 1` all accrue on reset `k`. -/
theorem fill_get (m : Nat) (hm : 0 < m) (ls : List β) (i : Nat) :
    (fillNotionals m ls)[i]? = rateNotional m ls i := by
  unfold rateNotional
  induction ls generalizing i with
  | nil => simp [fillNotionals]
  | cons x xs ih =>
    simp only [fillNotionals]
    by_cases h : i < m
    · rw [List.getElem?_append_left (by simpa using h)]
      simp [List.getElem?_replicate, h, Nat.div_eq_of_lt h]
    · have hge : m ≤ i := Nat.le_of_not_lt h
      rw [List.getElem?_append_right (by simpa using hge)]
      simp only [List.length_replicate]
      rw [ih (i - m)]
      have : i / m = (i - m) / m + 1 := by
        rw [Nat.div_eq_sub_div hm hge]
      rw [this, List.getElem?_cons_succ]

/-- With `multiple = 1` (equal frequencies) the fill is the identity … -/
theorem fill_one (ls : List β) : fillNotionals 1 ls = ls := by
  induction ls with
  | nil => rfl
  | cons x xs ih => simp [fillNotionals, ih, List.replicate]

/-- … and so is tiling: with equal frequencies the two arrangements cannot be told apart. -/
theorem tile_one (ls : List β) : tileNotionals 1 ls = ls := by
  simp [tileNotionals]

/-- With a single equity reset the two arrangements coincide as well. -/
theorem fill_eq_tile_single (m : Nat) (a : β) : fillNotionals m [a] = tileNotionals m [a] := by
  induction m with
  | zero => simp [fillNotionals, tileNotionals]
  | succ n ih =>
    simp only [fillNotionals, tileNotionals, List.append_nil] at ih ⊢
    rw [← ih]
    simp [List.replicate_succ]

/-- C06 **repeat, not tile**: as soon as there are two resets with different notionals and the rate leg pays twice
per reset, the array the code builds `[a, a, b, b]` is not the tiled one `[a, b, a, b]`. -/
theorem fill_ne_tile (a b : β) (h : a ≠ b) : fillNotionals 2 [a, b] ≠ tileNotionals 2 [a, b] := by
  simp [fillNotionals, tileNotionals, List.replicate]
  intro h1
  exact absurd h1 h

/-- The frequency test of `_fill_rate_notional_array`: accepted iff the rate frequency is a multiple of the equity
frequency, and then every reset notional is repeated `rate_freq / eq_freq` times. -/
theorem fillRate_ok_iff (eqFreq rateFreq : Nat) (ls : List β) :
    (∃ arr, fillRateNotionals eqFreq rateFreq ls = .ok arr) ↔ rateFreq % eqFreq = 0 := by
  unfold fillRateNotionals
  by_cases h : rateFreq % eqFreq = 0 <;> simp [h]

end fill

/-! ### EquitySwapLeg.value -/

section field
variable {K : Type} [Field K]

/-- The equity loop as a sum, for any state whose `last_notional` and `next_notional` agree (they do at the loop
head: both are set to the same value at the end of every iteration and before the loop). -/
lemma eqFold_pv (df : Int → K) (idx : IndexCurve K) (dvd : Int → K) (price qty N : K) (vd : Int) (ps : List (Period K))
    (st : EqSt K) (h : st.lastN = st.nextN) :
    (ps.foldl (eqStep df idx dvd price qty N vd (df vd)) st).pv
      = st.pv + pv df vd (eqFlows idx.df idx.yf dvd price qty vd (1 + st.term) st.lastN ps) := by
  induction ps generalizing st with
  | nil => simp [eqFlows, pv_nil]
  | cons p ps ih =>
    rw [List.foldl_cons]
    by_cases hp : vd < p.pay
    · rw [ih _ (by simp [eqStep, hp])]
      simp only [eqFlows, hp, if_true, pv_cons, Flow.amount]
      have hg : (1 : K) + (eqStep df idx dvd price qty N vd (df vd) st p).term = eqGrowth idx.df idx.yf dvd p * (1 + st.term) := by
        simp [eqStep, hp, eqGrowth]
      have hl : (eqStep df idx dvd price qty N vd (df vd) st p).lastN
          = price * (eqGrowth idx.df idx.yf dvd p * (1 + st.term)) * qty := by
        rw [← hg]; simp [eqStep, hp]
      have hv : (eqStep df idx dvd price qty N vd (df vd) st p).pv
          = st.pv + (price * (eqGrowth idx.df idx.yf dvd p * (1 + st.term)) * qty - st.lastN) * (df p.pay / df vd) := by
        rw [← hg]; simp [eqStep, hp]
      rw [hg, hl, hv]
      ring
    · rw [ih _ (by simp [eqStep, hp])]
      simp only [eqFlows, hp, if_false, pv_cons]
      simp [eqStep, hp, h]

/-- C06 **equity_leg_eq_sum**: `EquitySwapLeg.value` = ± Σ over reset periods paid after the valuation date of
`(price × G_k × quantity − previous position value) × df(pay)/df(value_dt)`, `G_k` the equity forward growth compounded
over the periods still to be paid; the first such period is measured from `strike × quantity`. -/
theorem equity_leg_eq_sum (df : Int → K) (idx : IndexCurve K) (dvd : Int → K) (cur : Option K) (leg : EqLeg K) (vd : Int) :
    eqLegValue df idx dvd cur leg vd
      = signed leg.isPay (pv df vd (eqFlows idx.df idx.yf dvd (leg.price cur) leg.qty vd 1 leg.notional leg.periods)) := by
  unfold eqLegValue eqState
  rw [applySign_eq_signed, eqFold_pv _ _ _ _ _ _ _ _ _ rfl]
  simp [EqSt.init]

/-- C06 **pay_eq_neg_receive** (equity leg). -/
theorem equity_pay_eq_neg_receive (df : Int → K) (idx : IndexCurve K) (dvd : Int → K) (cur : Option K) (leg : EqLeg K)
    (vd : Int) :
    eqLegValue df idx dvd cur { leg with isPay := true } vd = - eqLegValue df idx dvd cur { leg with isPay := false } vd := by
  simp [eqLegValue, eqState, applySign, EqLeg.price, EqLeg.notional]

lemma eqFlows_scale (dfI : Int → K) (iyf : Int → Int → K) (dvd : Int → K) (price qty k : K) (vd : Int) (G L : K)
    (ps : List (Period K)) :
    pv df vd (eqFlows dfI iyf dvd price (k * qty) vd G (k * L) ps) = k * pv df vd (eqFlows dfI iyf dvd price qty vd G L ps) := by
  induction ps generalizing G L with
  | nil => simp [eqFlows, pv_nil]
  | cons p ps ih =>
    by_cases hp : vd < p.pay
    · simp only [eqFlows, hp, if_true, pv_cons, Flow.amount]
      have : price * (eqGrowth dfI iyf dvd p * G) * (k * qty) = k * (price * (eqGrowth dfI iyf dvd p * G) * qty) := by ring
      rw [this, ih]
      ring
    · simp only [eqFlows, hp, if_false, pv_cons, ih]
      simp

/-- C06 **linear_in_notional** (equity leg: notional = strike × quantity, linear in the quantity). -/
theorem equity_linear_in_quantity (df : Int → K) (idx : IndexCurve K) (dvd : Int → K) (cur : Option K) (leg : EqLeg K)
    (vd : Int) (k : K) :
    eqLegValue df idx dvd cur { leg with qty := k * leg.qty } vd = k * eqLegValue df idx dvd cur leg vd := by
  rw [equity_leg_eq_sum, equity_leg_eq_sum, ← signed_mul]
  congr 1
  have : ({ leg with qty := k * leg.qty } : EqLeg K).notional = k * leg.notional := by
    simp [EqLeg.notional]; ring
  rw [this]
  exact eqFlows_scale _ _ _ _ _ _ _ _ _ _

/-- C06 **past_flows_contribute_nothing** (equity leg): reset periods already paid change neither the value nor
the compounding of the later ones. -/
theorem equity_past_flows_contribute_nothing (df : Int → K) (idx : IndexCurve K) (dvd : Int → K) (cur : Option K)
    (leg : EqLeg K) (vd : Int) (past fut : List (Period K)) (h : ∀ p ∈ past, p.pay ≤ vd) :
    eqLegValue df idx dvd cur { leg with periods := past ++ fut } vd
      = eqLegValue df idx dvd cur { leg with periods := fut } vd := by
  rw [equity_leg_eq_sum, equity_leg_eq_sum]
  congr 1
  show pv df vd (eqFlows idx.df idx.yf dvd (leg.price cur) leg.qty vd 1 leg.notional (past ++ fut)) = _
  induction past with
  | nil => rfl
  | cons p ps ih =>
    have hp : ¬ vd < p.pay := not_lt.mpr (h p (by simp))
    rw [List.cons_append]
    simp only [eqFlows, hp, if_false, pv_cons]
    rw [ih (fun q hq => h q (by simp [hq]))]
    simp

/-- An equity leg whose payments are all on or before the valuation date is worth nothing. -/
theorem equity_all_past_is_zero (df : Int → K) (idx : IndexCurve K) (dvd : Int → K) (cur : Option K)
    (leg : EqLeg K) (vd : Int) (h : ∀ p ∈ leg.periods, p.pay ≤ vd) :
    eqLegValue df idx dvd cur leg vd = 0 := by
  have := equity_past_flows_contribute_nothing df idx dvd cur leg vd leg.periods [] h
  simp only [List.append_nil] at this
  rw [show leg = { leg with periods := leg.periods } from rfl, this, equity_leg_eq_sum]
  simp [eqFlows, pv_nil, signed_zero]

/-- When the leg's year fraction is the index basis' year fraction, the growth over a period is the ratio of the
index discount factors times the ratio of the dividend discount factors. -/
theorem eqGrowth_matching_basis (dfI : Int → K) (iyf : Int → Int → K) (dvd : Int → K) (p : Period K)
    (hb : iyf p.start p.stop = p.yf) (hy : p.yf ≠ 0) :
    eqGrowth dfI iyf dvd p = (dfI p.start / dfI p.stop) * (dvd p.start / dvd p.stop) := by
  unfold eqGrowth
  rw [hb]
  field_simp
  ring

/-! ### EquitySwap.value -/

/-- The rows of the equity leg when every period is still to be paid: `last_notionals` are the reset notionals. -/
lemma eqFold_lastNs (df : Int → K) (idx : IndexCurve K) (dvd : Int → K) (price qty N : K) (vd : Int) (ps : List (Period K))
    (st : EqSt K) (hl : st.lastN = price * (1 + st.term) * qty) (hfut : ∀ p ∈ ps, vd < p.pay) :
    eqLastNotionals (ps.foldl (eqStep df idx dvd price qty N vd (df vd)) st)
      = eqLastNotionals st ++ eqResetNotionals idx.df idx.yf dvd price qty (1 + st.term) ps := by
  induction ps generalizing st with
  | nil => simp [eqResetNotionals]
  | cons p ps ih =>
    have hp : vd < p.pay := hfut p (by simp)
    rw [List.foldl_cons]
    have hg : (1 : K) + (eqStep df idx dvd price qty N vd (df vd) st p).term = eqGrowth idx.df idx.yf dvd p * (1 + st.term) := by
      simp [eqStep, hp, eqGrowth]
    rw [ih _ (by rw [hg]; simp [eqStep, hp, eqGrowth]) (fun q hq => hfut q (by simp [hq]))]
    rw [hg]
    simp [eqStep, hp, eqLastNotionals, eqResetNotionals, hl]

lemma eqResetNotionals_length (dfI : Int → K) (iyf : Int → Int → K) (dvd : Int → K) (price qty G : K) (ps : List (Period K)) :
    (eqResetNotionals dfI iyf dvd price qty G ps).length = ps.length := by
  induction ps generalizing G with
  | nil => rfl
  | cons p ps ih => simp [eqResetNotionals, ih]

/-- Period by period: what the equity leg pays is what the floating leg accrues on the reset notional, when the
two legs share dates and basis, there are no dividends, and everything is still to be paid. -/
lemma eq_flows_eq_float_flows (df : Int → K) (yfI : Int → Int → K) (dvd : Int → K) (price qty : K) (vd : Int) (G : K)
    (ps : List (Period K))
    (hfut : ∀ p ∈ ps, vd < p.pay) (hbasis : ∀ p ∈ ps, yfI p.start p.stop = p.yf) (hyf : ∀ p ∈ ps, p.yf ≠ 0)
    (hdiv : ∀ p ∈ ps, dvd p.start / dvd p.stop = 1) :
    pv df vd (eqFlows df yfI dvd price qty vd G (price * G * qty) ps)
      = pv df vd ((ps.zip (eqResetNotionals df yfI dvd price qty G ps)).map (fwdFlow df yfI 0)) := by
  induction ps generalizing G with
  | nil => simp [eqFlows, eqResetNotionals, pv_nil]
  | cons p ps ih =>
    have hp : vd < p.pay := hfut p (by simp)
    have hb := hbasis p (by simp)
    have hy := hyf p (by simp)
    have hd := hdiv p (by simp)
    have hg : eqGrowth df yfI dvd p = df p.start / df p.stop := by
      rw [eqGrowth_matching_basis df yfI dvd p hb hy, hd, mul_one]
    simp only [eqFlows, hp, if_true, eqResetNotionals, List.zip_cons_cons, List.map_cons, pv_cons, Flow.amount,
      fwdFlow, fwdRate]
    rw [ih _ (fun q hq => hfut q (by simp [hq])) (fun q hq => hbasis q (by simp [hq]))
      (fun q hq => hyf q (by simp [hq])) (fun q hq => hdiv q (by simp [hq]))]
    rw [hg, hb]
    field_simp
    ring

/-- C06 **equity_swap_zero_at_inception**: equal frequencies and one schedule for both legs, matching bases, one curve
for projection and discounting, no dividends, no spread, no first fixing, current price = strike, every period
still to be paid ⇒ the swap is worth exactly zero ("entered into at zero initial cost when spreads are zero"), for
any number of periods, any payment lag, contiguous or not. -/
theorem equity_swap_zero_at_inception (df : Int → K) (yfI : Int → Int → K) (dvd : Int → K) (vd : Int) (eqIsPay : Bool)
    (strike qty : K) (f : Nat) (hf : 0 < f) (ps : List (Period K))
    (hfut : ∀ p ∈ ps, vd < p.pay) (hbasis : ∀ p ∈ ps, yfI p.start p.stop = p.yf) (hyf : ∀ p ∈ ps, p.yf ≠ 0)
    (hdiv : ∀ p ∈ ps, dvd p.start / dvd p.stop = 1)
    (hdf : ∀ p ∈ ps, df p.stop ≠ 0) (hv : df vd ≠ 0) :   -- where the code divides (not needed by the algebra: kept so that
                                                          -- the field's x/0 = 0 never stands for a ZeroDivisionError)
    eqSwapValue df ⟨df, yfI⟩ dvd none none (mkEqSwap eqIsPay strike qty 0 f f ps ps) vd = .ok 0 := by
  have hstate : eqState df ⟨df, yfI⟩ dvd none (mkEqSwap eqIsPay strike qty 0 f f ps ps).eq vd
      = ps.foldl (eqStep df ⟨df, yfI⟩ dvd strike qty (strike * qty) vd (df vd)) (EqSt.init (strike * qty)) := rfl
  have hfill : fillRateNotionals f f (eqLastNotionals (eqState df ⟨df, yfI⟩ dvd none (mkEqSwap eqIsPay strike qty 0 f f ps ps).eq vd))
      = .ok (eqResetNotionals df yfI dvd strike qty 1 ps) := by
    unfold fillRateNotionals
    simp only [Nat.mod_self, ne_eq, not_true_eq_false, if_false, Nat.div_self hf, fill_one]
    rw [hstate, eqFold_lastNs df ⟨df, yfI⟩ dvd strike qty (strike * qty) vd ps _ (by simp [EqSt.init]) hfut]
    simp [EqSt.init, eqLastNotionals]
  have hpv : (eqState df ⟨df, yfI⟩ dvd none (mkEqSwap eqIsPay strike qty 0 f f ps ps).eq vd).pv
      = pv df vd (eqFlows df yfI dvd strike qty vd 1 (strike * 1 * qty) ps) := by
    rw [hstate, eqFold_pv df ⟨df, yfI⟩ dvd strike qty (strike * qty) vd ps _ rfl]
    simp [EqSt.init]
  have e1 : (mkEqSwap eqIsPay strike qty 0 f f ps ps).eqFreq = f := rfl
  have e2 : (mkEqSwap eqIsPay strike qty 0 f f ps ps).rateFreq = f := rfl
  unfold eqSwapValue
  simp only [e1, e2, hfill, hpv]
  congr 1
  rw [applySign_eq_signed]
  have hlen : (eqResetNotionals df yfI dvd strike qty 1 ps).length = ps.length := eqResetNotionals_length _ _ _ _ _ _ _
  rw [float_leg_eq_sum _ _ _ _ _ (by simpa [mkEqSwap, mkFloatLeg] using hlen)]
  rw [eq_flows_eq_float_flows df yfI dvd strike qty vd 1 ps hfut hbasis hyf hdiv]
  simp only [mkEqSwap, mkFloatLeg, floatFlows, pv_append]
  have hnone : ∀ l : List (Period K × K), floatCoupons df yfI none 0 vd l = l.map (fwdFlow df yfI 0) := by
    intro l
    induction l with
    | nil => rfl
    | cons x xs ih => by_cases h : vd < x.1.pay <;> simp [floatCoupons, h, ih]
  rw [hnone]
  have hprin : pv df vd (principalFlow (0 : K)
      (((ps.zip (eqResetNotionals df yfI dvd strike qty 1 ps)).getLast?).map (fun x => (x.1.pay, x.2)))) = 0 := by
    cases ((ps.zip (eqResetNotionals df yfI dvd strike qty 1 ps)).getLast?) with
    | none => simp [principalFlow, pv_nil]
    | some x => simp [principalFlow, pv_cons, pv_nil, Flow.amount]
  rw [hprin]
  cases eqIsPay <;> simp [signed]

/-- The hypotheses of `equity_swap_zero_at_inception` are satisfiable, with reset notionals that differ
(df(1) = 1/2, df(2) = 1/5: the position doubles, then grows 2.5-fold). -/
example : eqSwapValue (fun d => if d = 1 then (1 / 2 : ℚ) else if d = 2 then 1 / 5 else 1)
      ⟨fun d => if d = 1 then (1 / 2 : ℚ) else if d = 2 then 1 / 5 else 1, fun _ _ => 1⟩ (fun _ => 1) none none
      (mkEqSwap false 100 3 0 4 4 [⟨0, 1, 1, 1⟩, ⟨1, 2, 2, 1⟩] [⟨0, 1, 1, 1⟩, ⟨1, 2, 2, 1⟩]) 0 = .ok 0 :=
  equity_swap_zero_at_inception _ _ _ _ _ _ _ 4 (by norm_num) _
    (by intro p hp; simp at hp; rcases hp with rfl | rfl <;> norm_num)
    (by intro p hp; simp at hp; rcases hp with rfl | rfl <;> rfl)
    (by intro p hp; simp at hp; rcases hp with rfl | rfl <;> norm_num)
    (by intro p hp; norm_num)
    (by intro p hp; simp at hp; rcases hp with rfl | rfl <;> norm_num)
    (by norm_num)

/-- C06 **value = equity leg + rate leg** with the rate leg on the repeated reset notionals: when the frequency test
passes, `EquitySwap.value` is the equity leg's discounted sum plus the floating leg's discounted sum computed on
`notional_array[i] = last_notionals[i / multiple]`. -/
theorem equity_swap_eq_sum (df : Int → K) (idx : IndexCurve K) (dvd : Int → K) (cur ff : Option K) (s : EqSwap K) (vd : Int)
    (hm : s.rateFreq % s.eqFreq = 0)
    (hlen : (fillNotionals (s.rateFreq / s.eqFreq) (eqLastNotionals (eqState df idx dvd cur s.eq vd))).length
              = s.rate.periods.length) :
    eqSwapValue df idx dvd cur ff s vd
      = .ok (signed s.eq.isPay (pv df vd (eqFlows idx.df idx.yf dvd (s.eq.price cur) s.eq.qty vd 1 s.eq.notional s.eq.periods))
          + signed s.rate.isPay (pv df vd (floatFlows idx.df idx.yf ff s.rate.spread s.rate.principal vd
              (s.rate.periods.zip (fillNotionals (s.rateFreq / s.eqFreq) (eqLastNotionals (eqState df idx dvd cur s.eq vd))))))) := by
  unfold eqSwapValue fillRateNotionals
  simp only [hm, ne_eq, not_true_eq_false, if_false]
  congr 1
  rw [float_leg_eq_sum _ _ _ _ _ (by simpa using hlen)]
  have := equity_leg_eq_sum df idx dvd cur s.eq vd
  unfold eqLegValue at this
  rw [this]

end field

end FinVerif.Props.C06
