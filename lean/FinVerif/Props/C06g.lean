/-
  C06 (part g) — equity swap: the rate leg's notional array repeats every equity reset notional `multiple` times
  (it does not tile the list), the equity leg is the discounted sum of the changes of the position's value, pay =
  −receive, linear in the quantity, paid periods contribute nothing, and a spread-free, dividend-free equity swap
  whose two legs share schedule and basis on one curve is worth zero.
  Over an arbitrary field; witnesses over ℚ.
-/
import FinVerif.Props.C06b
import FinVerif.Model.C06x
import FinVerif.Spec.C06x
import Mathlib.Algebra.Order.Ring.Rat
import Mathlib.Algebra.Field.Rat
import Mathlib.Tactic.NormNum

set_option linter.unusedSimpArgs false
set_option linter.unusedSectionVars false
set_option linter.unusedVariables false

namespace FinVerif.Props.C06
open FinVerif FinVerif.Spec.C06 FinVerif.Model.C06 FinVerif.Lemmas.C06

/-! ### `_fill_rate_notional_array` (as repaired): assignment by accrual dates -/

section fill
variable {β : Type}

lemma advancePtr_ne_nil (s : Int) : ∀ (es : List (Int × β)), es ≠ [] → advancePtr s es ≠ []
  | [], h => h
  | [_], _ => by simp [advancePtr]
  | e :: e' :: rest, _ => by
    unfold advancePtr
    split
    · exact advancePtr_ne_nil s (e' :: rest) (by simp)
    · simp

/-- One entry per rate period. -/
theorem assign_length (ss : List Int) : ∀ (es : List (Int × β)), es ≠ [] → (assignNotionals es ss).length = ss.length := by
  induction ss with
  | nil => intro es _; simp [assignNotionals]
  | cons s ss ih =>
    intro es hne
    have h := advancePtr_ne_nil s es hne
    unfold assignNotionals
    cases hA : advancePtr s es with
    | nil => exact absurd hA h
    | cons e es' => simp [ih (e :: es') (by simp)]

/-- The pointer only moves forward: searching for a later start from where an earlier search stopped finds what a
search from the beginning finds. -/
lemma advancePtr_mono (s' s : Int) (h : s' ≤ s) : ∀ (es : List (Int × β)), advancePtr s (advancePtr s' es) = advancePtr s es
  | [] => rfl
  | [_] => by simp [advancePtr]
  | e :: e' :: rest => by
    by_cases h1 : e.1 ≤ s'
    · have h2 : e.1 ≤ s := le_trans h1 h
      simp only [advancePtr, h1, h2, if_true]
      exact advancePtr_mono s' s h (e' :: rest)
    · simp [advancePtr, h1]

/-- With accrual starts in date order the carried pointer does what an independent search per rate period does:
entry `j` is the notional of the first equity period (from the pointer's start) that ends after `start_j`, the last
period if none does. -/
theorem assign_eq_search (ss : List Int) (hs : ss.Pairwise (· ≤ ·)) : ∀ (es : List (Int × β)), es ≠ [] →
    (assignNotionals es ss).map some = ss.map (fun s => (advancePtr s es).head?.map (·.2)) := by
  induction ss with
  | nil => intro es _; simp [assignNotionals]
  | cons s ss ih =>
    intro es hne
    have h := advancePtr_ne_nil s es hne
    obtain ⟨hs1, hs2⟩ := List.pairwise_cons.mp hs
    unfold assignNotionals
    cases hA : advancePtr s es with
    | nil => exact absurd hA h
    | cons e es' =>
      have h1 : (advancePtr s es).head?.map (·.2) = some e.2 := by simp [hA]
      simp only [List.map_cons, h1]
      rw [ih hs2 (e :: es') (by simp)]
      congr 1
      apply List.map_congr_left
      intro t ht
      rw [← hA, advancePtr_mono s t (hs1 t ht)]

lemma assign_stay (e : Int × β) (es : List (Int × β)) (s : Int) (ss : List Int) (h : s < e.1) :
    assignNotionals (e :: es) (s :: ss) = e.2 :: assignNotionals (e :: es) ss := by
  have hn : ¬ e.1 ≤ s := not_le.mpr h
  cases es with
  | nil => simp [assignNotionals, advancePtr]
  | cons e' rest => simp [assignNotionals, advancePtr, hn]

lemma assign_skip (e e' : Int × β) (rest : List (Int × β)) (ss : List Int) (h : ∀ s ∈ ss, e.1 ≤ s) :
    assignNotionals (e :: e' :: rest) ss = assignNotionals (e' :: rest) ss := by
  cases ss with
  | nil => simp [assignNotionals]
  | cons s ss => simp [assignNotionals, advancePtr, h s (by simp)]

lemma assign_prefix (e : Int × β) (es : List (Int × β)) (S T : List Int) (h : ∀ s ∈ S, s < e.1) :
    assignNotionals (e :: es) (S ++ T) = List.replicate S.length e.2 ++ assignNotionals (e :: es) T := by
  induction S with
  | nil => simp
  | cons s S ih =>
    rw [List.cons_append, assign_stay e es s _ (h s (by simp)), ih (fun t ht => h t (by simp [ht]))]
    simp [List.replicate_succ]

/-- The rate periods come in blocks, one block per equity period: every accrual start of block `k` lies before the end
of equity period `k`, and on or after the end of every earlier equity period. -/
def AlignedDates : List Int → List (List Int) → Prop
  | [], [] => True
  | d :: ds, S :: Ss => (∀ s ∈ S, s < d) ∧ (∀ T ∈ Ss, ∀ s ∈ T, d ≤ s) ∧ AlignedDates ds Ss
  | _, _ => False

/-- Every rate period of block `k` on the reset notional of equity period `k`. -/
def blockNotionals : List β → List (List Int) → List β
  | x :: xs, S :: Ss => List.replicate S.length x ++ blockNotionals xs Ss
  | _, _ => []

/-- C06 **notional by containment** (blocks of ANY sizes — stubs, unequal numbers of rate periods per reset): the
repaired fill gives every rate period of block `k` the reset notional of equity period `k`. -/
theorem assign_blocks : ∀ (es : List (Int × β)) (Ss : List (List Int)), AlignedDates (es.map (·.1)) Ss →
    assignNotionals es Ss.flatten = blockNotionals (es.map (·.2)) Ss
  | [], [], _ => by simp [assignNotionals, blockNotionals]
  | [], _ :: _, h => by simp [AlignedDates] at h
  | _ :: _, [], h => by simp [AlignedDates] at h
  | e :: es, S :: Ss, h => by
    simp only [List.map_cons, AlignedDates] at h
    obtain ⟨h1, h2, h3⟩ := h
    rw [List.flatten_cons, assign_prefix e es S _ h1]
    simp only [List.map_cons, blockNotionals]
    congr 1
    cases es with
    | nil =>
      cases Ss with
      | nil => simp [assignNotionals, blockNotionals]
      | cons T Ts => simp [AlignedDates] at h3
    | cons e' rest =>
      rw [assign_skip e e' rest _ (by
        intro s hs
        obtain ⟨T, hT, hsT⟩ := List.mem_flatten.mp hs
        exact h2 T hT s hsT)]
      exact assign_blocks (e' :: rest) Ss h3

/-- The layout before the repair, for comparison. -/
theorem fill_length (m : Nat) (ls : List β) : (fillNotionals m ls).length = m * ls.length := by
  induction ls with
  | nil => simp [fillNotionals]
  | cons x xs ih => simp [fillNotionals, ih, Nat.mul_succ, Nat.add_comm]

/-- When every block has exactly `m` rate periods the repaired fill is the old repeat-`m`-times layout … -/
theorem assign_eq_fill_of_equal_blocks (m : Nat) : ∀ (es : List (Int × β)) (Ss : List (List Int)),
    AlignedDates (es.map (·.1)) Ss → (∀ S ∈ Ss, S.length = m) →
    assignNotionals es Ss.flatten = fillNotionals m (es.map (·.2)) := by
  intro es Ss h hm
  rw [assign_blocks es Ss h]
  induction es generalizing Ss with
  | nil => cases Ss <;> simp [blockNotionals, fillNotionals]
  | cons e es ih =>
    cases Ss with
    | nil => simp [AlignedDates] at h
    | cons S Ss =>
      simp only [List.map_cons, AlignedDates] at h
      simp only [List.map_cons, blockNotionals, fillNotionals, hm S (by simp)]
      congr 1
      exact ih Ss h.2.2 (fun T hT => hm T (by simp [hT]))

/-- … but with a front stub it is not: equity periods `[0,1)`, `[1,5)`, rate periods starting 0, 1, 3 (one in the stub,
two in the full period), `multiple = 2`: the repaired fill gives `[a, b, b]`, the old layout `[a, a, b]`. -/
theorem assign_ne_fill_front_stub (a b : β) (h : a ≠ b) :
    assignNotionals [(1, a), (5, b)] [0, 1, 3] ≠ (fillNotionals 2 [a, b]).take 3 := by
  simp [assignNotionals, advancePtr, fillNotionals, List.replicate]
  intro h1
  exact absurd h1.symm h

/-- C06 **repeat, not tile**: two resets, two rate periods each — `[a, a, b, b]`, not the tiled `[a, b, a, b]`. -/
theorem assign_ne_tile (a b : β) (h : a ≠ b) :
    assignNotionals [(2, a), (4, b)] [0, 1, 2, 3] ≠ tileNotionals 2 [a, b] := by
  simp [assignNotionals, advancePtr, tileNotionals]
  intro h1
  exact absurd h1 h

/-- With a single equity reset every arrangement coincides (why one-period swaps cannot tell them apart). -/
theorem assign_single (d : Int) (a : β) (ss : List Int) : assignNotionals [(d, a)] ss = List.replicate ss.length a := by
  induction ss with
  | nil => simp [assignNotionals]
  | cons s ss ih => simp [assignNotionals, advancePtr, ih, List.replicate_succ]

theorem fill_eq_tile_single (m : Nat) (a : β) : fillNotionals m [a] = tileNotionals m [a] := by
  induction m with
  | zero => simp [fillNotionals, tileNotionals]
  | succ n ih =>
    simp only [fillNotionals, tileNotionals, List.append_nil] at ih ⊢
    rw [← ih]
    simp [List.replicate_succ]

/-- The old layout against tiling (kept: both are refuted arrangements now). -/
theorem fill_ne_tile (a b : β) (h : a ≠ b) : fillNotionals 2 [a, b] ≠ tileNotionals 2 [a, b] := by
  simp [fillNotionals, tileNotionals, List.replicate]
  intro h1
  exact absurd h1 h

/-- The frequency test of `_fill_rate_notional_array` (kept by the repair): accepted iff the rate frequency is a
multiple of the equity frequency. -/
theorem fillRate_ok_iff (eqFreq rateFreq : Nat) (ends : List Int) (ls : List β) (ss : List Int) :
    (∃ arr, fillRateNotionals eqFreq rateFreq ends ls ss = .ok arr) ↔ rateFreq % eqFreq = 0 := by
  unfold fillRateNotionals
  by_cases h : rateFreq % eqFreq = 0 <;> simp [h]

end fill

/-! ### EquitySwapLeg.value -/

section field
variable {K : Type} [Field K]

/-- The equity loop as a sum, for any state whose `last_notional` and `next_notional` agree (they do at the loop
head: both are set to the same value at the end of every iteration and before the loop). -/
lemma eqFold_pv (df : Int → K) (idx : IndexCurve K) (dvd : Int → K) (price qty N : K) (vd : Int) (ps : List (Period K))
    (st : EqSt K) (h : st.lastN = st.nextN) :
    (ps.foldl (eqStep df idx dvd price qty N vd (df vd)) st).pv
      = st.pv + pv df vd (eqFlows idx.df idx.yf dvd price qty vd (1 + st.term) st.lastN ps) := by
  induction ps generalizing st with
  | nil => simp [eqFlows, pv_nil]
  | cons p ps ih =>
    rw [List.foldl_cons]
    by_cases hp : vd < p.pay
    · rw [ih _ (by simp [eqStep, hp])]
      simp only [eqFlows, hp, if_true, pv_cons, Flow.amount]
      have hg : (1 : K) + (eqStep df idx dvd price qty N vd (df vd) st p).term = eqGrowth idx.df idx.yf dvd p * (1 + st.term) := by
        simp [eqStep, hp, eqGrowth]
      have hl : (eqStep df idx dvd price qty N vd (df vd) st p).lastN
          = price * (eqGrowth idx.df idx.yf dvd p * (1 + st.term)) * qty := by
        rw [← hg]; simp [eqStep, hp]
      have hv : (eqStep df idx dvd price qty N vd (df vd) st p).pv
          = st.pv + (price * (eqGrowth idx.df idx.yf dvd p * (1 + st.term)) * qty - st.lastN) * (df p.pay / df vd) := by
        rw [← hg]; simp [eqStep, hp]
      rw [hg, hl, hv]
      ring
    · rw [ih _ (by simp [eqStep, hp])]
      simp only [eqFlows, hp, if_false, pv_cons]
      simp [eqStep, hp, h]

/-- C06 **equity_leg_eq_sum**: `EquitySwapLeg.value` = ± Σ over reset periods paid after the valuation date of
`(price × G_k × quantity − previous position value) × df(pay)/df(value_dt)`, `G_k` the equity forward growth compounded
over the periods still to be paid; the first such period is measured from `strike × quantity`. -/
theorem equity_leg_eq_sum (df : Int → K) (idx : IndexCurve K) (dvd : Int → K) (cur : Option K) (leg : EqLeg K) (vd : Int) :
    eqLegValue df idx dvd cur leg vd
      = signed leg.isPay (pv df vd (eqFlows idx.df idx.yf dvd (leg.price cur) leg.qty vd 1 leg.notional leg.periods)) := by
  unfold eqLegValue eqState
  rw [applySign_eq_signed, eqFold_pv _ _ _ _ _ _ _ _ _ rfl]
  simp [EqSt.init]

/-- C06 **pay_eq_neg_receive** (equity leg). -/
theorem equity_pay_eq_neg_receive (df : Int → K) (idx : IndexCurve K) (dvd : Int → K) (cur : Option K) (leg : EqLeg K)
    (vd : Int) :
    eqLegValue df idx dvd cur { leg with isPay := true } vd = - eqLegValue df idx dvd cur { leg with isPay := false } vd := by
  simp [eqLegValue, eqState, applySign, EqLeg.price, EqLeg.notional]

lemma eqFlows_scale (dfI : Int → K) (iyf : Int → Int → K) (dvd : Int → K) (price qty k : K) (vd : Int) (G L : K)
    (ps : List (Period K)) :
    pv df vd (eqFlows dfI iyf dvd price (k * qty) vd G (k * L) ps) = k * pv df vd (eqFlows dfI iyf dvd price qty vd G L ps) := by
  induction ps generalizing G L with
  | nil => simp [eqFlows, pv_nil]
  | cons p ps ih =>
    by_cases hp : vd < p.pay
    · simp only [eqFlows, hp, if_true, pv_cons, Flow.amount]
      have : price * (eqGrowth dfI iyf dvd p * G) * (k * qty) = k * (price * (eqGrowth dfI iyf dvd p * G) * qty) := by ring
      rw [this, ih]
      ring
    · simp only [eqFlows, hp, if_false, pv_cons, ih]
      simp

/-- C06 **linear_in_notional** (equity leg: notional = strike × quantity, linear in the quantity). -/
theorem equity_linear_in_quantity (df : Int → K) (idx : IndexCurve K) (dvd : Int → K) (cur : Option K) (leg : EqLeg K)
    (vd : Int) (k : K) :
    eqLegValue df idx dvd cur { leg with qty := k * leg.qty } vd = k * eqLegValue df idx dvd cur leg vd := by
  rw [equity_leg_eq_sum, equity_leg_eq_sum, ← signed_mul]
  congr 1
  have : ({ leg with qty := k * leg.qty } : EqLeg K).notional = k * leg.notional := by
    simp [EqLeg.notional]; ring
  rw [this]
  exact eqFlows_scale _ _ _ _ _ _ _ _ _ _

/-- C06 **past_flows_contribute_nothing** (equity leg): reset periods already paid change neither the value nor
the compounding of the later ones. -/
theorem equity_past_flows_contribute_nothing (df : Int → K) (idx : IndexCurve K) (dvd : Int → K) (cur : Option K)
    (leg : EqLeg K) (vd : Int) (past fut : List (Period K)) (h : ∀ p ∈ past, p.pay ≤ vd) :
    eqLegValue df idx dvd cur { leg with periods := past ++ fut } vd
      = eqLegValue df idx dvd cur { leg with periods := fut } vd := by
  rw [equity_leg_eq_sum, equity_leg_eq_sum]
  congr 1
  show pv df vd (eqFlows idx.df idx.yf dvd (leg.price cur) leg.qty vd 1 leg.notional (past ++ fut)) = _
  induction past with
  | nil => rfl
  | cons p ps ih =>
    have hp : ¬ vd < p.pay := not_lt.mpr (h p (by simp))
    rw [List.cons_append]
    simp only [eqFlows, hp, if_false, pv_cons]
    rw [ih (fun q hq => h q (by simp [hq]))]
    simp

/-- An equity leg whose payments are all on or before the valuation date is worth nothing. -/
theorem equity_all_past_is_zero (df : Int → K) (idx : IndexCurve K) (dvd : Int → K) (cur : Option K)
    (leg : EqLeg K) (vd : Int) (h : ∀ p ∈ leg.periods, p.pay ≤ vd) :
    eqLegValue df idx dvd cur leg vd = 0 := by
  have := equity_past_flows_contribute_nothing df idx dvd cur leg vd leg.periods [] h
  simp only [List.append_nil] at this
  rw [show leg = { leg with periods := leg.periods } from rfl, this, equity_leg_eq_sum]
  simp [eqFlows, pv_nil, signed_zero]

/-- When the leg's year fraction is the index basis' year fraction, the growth over a period is the ratio of the
index discount factors times the ratio of the dividend discount factors. -/
theorem eqGrowth_matching_basis (dfI : Int → K) (iyf : Int → Int → K) (dvd : Int → K) (p : Period K)
    (hb : iyf p.start p.stop = p.yf) (hy : p.yf ≠ 0) :
    eqGrowth dfI iyf dvd p = (dfI p.start / dfI p.stop) * (dvd p.start / dvd p.stop) := by
  unfold eqGrowth
  rw [hb]
  field_simp
  ring

/-! ### EquitySwap.value -/

/-- The rows of the equity leg when every period is still to be paid: `last_notionals` are the reset notionals. -/
lemma eqFold_lastNs (df : Int → K) (idx : IndexCurve K) (dvd : Int → K) (price qty N : K) (vd : Int) (ps : List (Period K))
    (st : EqSt K) (hl : st.lastN = price * (1 + st.term) * qty) (hfut : ∀ p ∈ ps, vd < p.pay) :
    eqLastNotionals (ps.foldl (eqStep df idx dvd price qty N vd (df vd)) st)
      = eqLastNotionals st ++ eqResetNotionals idx.df idx.yf dvd price qty (1 + st.term) ps := by
  induction ps generalizing st with
  | nil => simp [eqResetNotionals]
  | cons p ps ih =>
    have hp : vd < p.pay := hfut p (by simp)
    rw [List.foldl_cons]
    have hg : (1 : K) + (eqStep df idx dvd price qty N vd (df vd) st p).term = eqGrowth idx.df idx.yf dvd p * (1 + st.term) := by
      simp [eqStep, hp, eqGrowth]
    rw [ih _ (by rw [hg]; simp [eqStep, hp, eqGrowth]) (fun q hq => hfut q (by simp [hq]))]
    rw [hg]
    simp [eqStep, hp, eqLastNotionals, eqResetNotionals, hl]

lemma eqResetNotionals_length (dfI : Int → K) (iyf : Int → Int → K) (dvd : Int → K) (price qty G : K) (ps : List (Period K)) :
    (eqResetNotionals dfI iyf dvd price qty G ps).length = ps.length := by
  induction ps generalizing G with
  | nil => rfl
  | cons p ps ih => simp [eqResetNotionals, ih]

/-- The search of the repaired fill lands in the equity period that contains the date (`Spec.rateNotional`), for
contiguous equity periods and a date inside their span. -/
theorem ptr_eq_rateNotional (s : Int) : ∀ (eqs : List (Period K × K)), Contiguous (eqs.map (·.1)) →
    (∀ e0, eqs.head? = some e0 → e0.1.start ≤ s) → (∀ eL, eqs.getLast? = some eL → s < eL.1.stop) →
    (advancePtr s (eqs.map (fun e => (e.1.stop, e.2)))).head?.map (·.2) = rateNotional eqs s
  | [], _, _, _ => rfl
  | [e], _, h0, h1 => by
    have a := h0 e rfl
    have b := h1 e rfl
    simp [advancePtr, rateNotional, List.find?, a, b]
  | e :: e' :: rest, hc, h0, h1 => by
    have a := h0 e rfl
    obtain ⟨hcc, hc'⟩ := hc
    by_cases hs : e.1.stop ≤ s
    · have hn : ¬ s < e.1.stop := not_lt.mpr hs
      have ih := ptr_eq_rateNotional s (e' :: rest) hc'
        (by intro e0 he0; simp at he0; subst he0; exact hcc ▸ hs)
        (by intro eL heL; exact h1 eL (by simpa [List.getLast?_cons_cons] using heL))
      simp only [List.map_cons, advancePtr, hs, if_true] at ih ⊢
      rw [ih]
      simp [rateNotional, List.find?, hn]
    · have hlt : s < e.1.stop := not_le.mp hs
      simp [advancePtr, hs, rateNotional, List.find?, a, hlt]

/-- C06 **notional by containment**: contiguous equity periods, rate accrual starts in date order inside their span ⇒
entry `j` of the notional array is the reset notional of the equity period that contains `start_j`. -/
theorem assign_get (eqs : List (Period K × K)) (ss : List Int) (hne : eqs ≠ []) (hc : Contiguous (eqs.map (·.1)))
    (hs : ss.Pairwise (· ≤ ·))
    (h0 : ∀ e0, eqs.head? = some e0 → ∀ s ∈ ss, e0.1.start ≤ s)
    (h1 : ∀ eL, eqs.getLast? = some eL → ∀ s ∈ ss, s < eL.1.stop) :
    (assignNotionals (eqs.map (fun e => (e.1.stop, e.2))) ss).map some = ss.map (rateNotional eqs) := by
  rw [assign_eq_search ss hs _ (by simpa using hne)]
  apply List.map_congr_left
  intro s hs'
  exact ptr_eq_rateNotional s eqs hc (fun e0 he => h0 e0 he s hs') (fun eL he => h1 eL he s hs')

/-- One equity period together with the rate periods that tile it, everything still to be paid on one curve with
matching bases, payment on the accrual end dates, no dividends. -/
structure GoodBlock (df : Int → K) (yfI : Int → Int → K) (dvd : Int → K) (vd : Int) (p : Period K) (qs : List (Period K)) : Prop where
  pfut : vd < p.pay
  plag : p.pay = p.stop
  pbasis : yfI p.start p.stop = p.yf
  pyf : p.yf ≠ 0
  pdiv : dvd p.start / dvd p.stop = 1
  pdf : df p.stop ≠ 0
  ne : qs ≠ []
  first : ∀ q0, qs.head? = some q0 → q0.start = p.start
  last : ∀ qL, qs.getLast? = some qL → qL.stop = p.stop
  fut : ∀ q ∈ qs, vd < q.pay
  lag : ∀ q ∈ qs, q.pay = q.stop
  basis : ∀ q ∈ qs, yfI q.start q.stop = q.yf
  yf : ∀ q ∈ qs, q.yf ≠ 0
  dfq : ∀ q ∈ qs, df q.stop ≠ 0
  cont : Contiguous qs

/-- The reset notional of every block, repeated over the block's rate periods. -/
def blockResetNotionals (df : Int → K) (yfI : Int → Int → K) (dvd : Int → K) (price qty : K) :
    K → List (Period K × List (Period K)) → List K
  | _, [] => []
  | G, b :: bs => List.replicate b.2.length (price * G * qty)
      ++ blockResetNotionals df yfI dvd price qty (eqGrowth df yfI dvd b.1 * G) bs

lemma blockNotionals_eq (df : Int → K) (yfI : Int → Int → K) (dvd : Int → K) (price qty : K) :
    ∀ (G : K) (bs : List (Period K × List (Period K))),
    blockNotionals (eqResetNotionals df yfI dvd price qty G (bs.map (·.1))) (bs.map (fun b => b.2.map (·.start)))
      = blockResetNotionals df yfI dvd price qty G bs
  | _, [] => by simp [blockNotionals, blockResetNotionals, eqResetNotionals]
  | G, b :: bs => by
    simp only [List.map_cons, eqResetNotionals, blockNotionals, blockResetNotionals, List.length_map]
    rw [blockNotionals_eq df yfI dvd price qty _ bs]

lemma blockResetNotionals_length (df : Int → K) (yfI : Int → Int → K) (dvd : Int → K) (price qty : K) :
    ∀ (G : K) (bs : List (Period K × List (Period K))),
    (blockResetNotionals df yfI dvd price qty G bs).length = (bs.map (·.2)).flatten.length
  | _, [] => rfl
  | G, b :: bs => by
    simp [blockResetNotionals, blockResetNotionals_length df yfI dvd price qty _ bs]

/-- Block by block: what the equity leg pays at the end of a reset period is what the floating coupons inside that
period, all on that period's reset notional, are worth together (they telescope). -/
lemma eq_flows_eq_block_flows (df : Int → K) (yfI : Int → Int → K) (dvd : Int → K) (price qty : K) (vd : Int) :
    ∀ (G : K) (bs : List (Period K × List (Period K))), (∀ b ∈ bs, GoodBlock df yfI dvd vd b.1 b.2) →
    pv df vd (eqFlows df yfI dvd price qty vd G (price * G * qty) (bs.map (·.1)))
      = pv df vd (((bs.map (·.2)).flatten.zip (blockResetNotionals df yfI dvd price qty G bs)).map (fwdFlow df yfI 0))
  | _, [], _ => by simp [eqFlows, blockResetNotionals, pv_nil]
  | G, b :: bs, hg => by
    have g := hg b (by simp)
    have ih := eq_flows_eq_block_flows df yfI dvd price qty vd (eqGrowth df yfI dvd b.1 * G) bs
      (fun c hc => hg c (by simp [hc]))
    have hgr : eqGrowth df yfI dvd b.1 = df b.1.start / df b.1.stop := by
      rw [eqGrowth_matching_basis df yfI dvd b.1 g.pbasis g.pyf, g.pdiv, mul_one]
    simp only [List.map_cons, eqFlows, g.pfut, if_true, pv_cons, Flow.amount, List.flatten_cons, blockResetNotionals]
    rw [ih, List.zip_append (by simp), List.map_append, pv_append]
    congr 1
    -- the block's coupons telescope
    obtain ⟨q0, rest, hq⟩ := List.exists_cons_of_ne_nil g.ne
    have hzip : (b.2.zip (List.replicate b.2.length (price * G * qty))).map (fwdFlow df yfI 0)
        = b.2.map (fun q => fwdFlow df yfI 0 (q, price * G * qty)) := by
      rw [zip_replicate, List.map_map]; rfl
    rw [hzip]
    have ht := tele_sum df yfI vd (price * G * qty) q0 rest (hq ▸ g.fut) (hq ▸ g.lag) (hq ▸ g.basis) (hq ▸ g.yf)
      (hq ▸ g.dfq) (hq ▸ g.cont)
    rw [hq, ht]
    have hs : q0.start = b.1.start := g.first q0 (by rw [hq]; rfl)
    have he : ((q0 :: rest).getLast (by simp)).stop = b.1.stop :=
      g.last _ (by rw [hq, List.getLast?_eq_some_getLast (by simp)])
    rw [hs, he, hgr, g.plag]
    have := g.pdf
    field_simp

/-- C06 **equity_swap_zero_at_inception** (general): the rate leg may pay more often than the equity leg resets, the
schedules may have stubs and blocks of different sizes — as long as every equity period is tiled by its own rate
periods (`GoodBlock`) and the blocks are in date order (`AlignedDates`), with one curve for projection and
discounting, matching bases, payment on the accrual end dates, no dividends, no spread, no first fixing, price =
strike, everything still to be paid and a rate frequency that is a multiple of the equity frequency: the swap is
worth exactly zero.  Any number of blocks, any block sizes. -/
theorem equity_swap_zero_at_inception (df : Int → K) (yfI : Int → Int → K) (dvd : Int → K) (vd : Int) (eqIsPay : Bool)
    (strike qty : K) (fe fr : Nat) (hfreq : fr % fe = 0) (bs : List (Period K × List (Period K)))
    (hgood : ∀ b ∈ bs, GoodBlock df yfI dvd vd b.1 b.2)
    (halign : AlignedDates (bs.map (·.1.stop)) (bs.map (fun b => b.2.map (·.start))))
    (hv : df vd ≠ 0) :
    eqSwapValue df ⟨df, yfI⟩ dvd none none
      (mkEqSwap eqIsPay strike qty 0 fe fr (bs.map (·.1)) (bs.map (·.2)).flatten) vd = .ok 0 := by
  have hfut : ∀ p ∈ bs.map (·.1), vd < p.pay := by
    intro p hp; obtain ⟨b, hb, rfl⟩ := List.mem_map.mp hp; exact (hgood b hb).pfut
  have hstate : eqState df ⟨df, yfI⟩ dvd none (mkEqSwap eqIsPay strike qty 0 fe fr (bs.map (·.1)) (bs.map (·.2)).flatten).eq vd
      = (bs.map (·.1)).foldl (eqStep df ⟨df, yfI⟩ dvd strike qty (strike * qty) vd (df vd)) (EqSt.init (strike * qty)) := rfl
  have hlast : eqLastNotionals (eqState df ⟨df, yfI⟩ dvd none
      (mkEqSwap eqIsPay strike qty 0 fe fr (bs.map (·.1)) (bs.map (·.2)).flatten).eq vd)
      = eqResetNotionals df yfI dvd strike qty 1 (bs.map (·.1)) := by
    rw [hstate, eqFold_lastNs df ⟨df, yfI⟩ dvd strike qty (strike * qty) vd _ _ (by simp [EqSt.init]) hfut]
    simp [EqSt.init, eqLastNotionals]
  have hrl : (eqResetNotionals df yfI dvd strike qty 1 (bs.map (·.1))).length = (bs.map (·.1)).length :=
    eqResetNotionals_length _ _ _ _ _ _ _
  have hfill : fillRateNotionals fe fr ((bs.map (·.1)).map (·.stop))
      (eqResetNotionals df yfI dvd strike qty 1 (bs.map (·.1))) ((bs.map (·.2)).flatten.map (·.start))
      = .ok (blockResetNotionals df yfI dvd strike qty 1 bs) := by
    unfold fillRateNotionals
    simp only [hfreq, ne_eq, not_true_eq_false, if_false]
    congr 1
    have hflat : (bs.map (·.2)).flatten.map (·.start) = (bs.map (fun b => b.2.map (·.start))).flatten := by
      rw [List.map_flatten, List.map_map]; rfl
    rw [hflat, assign_blocks _ _ (by
      rw [List.map_fst_zip (by simp [hrl])]
      simpa [List.map_map, Function.comp_def] using halign)]
    rw [List.map_snd_zip (by simp [hrl]), blockNotionals_eq]
  have hpv : (eqState df ⟨df, yfI⟩ dvd none (mkEqSwap eqIsPay strike qty 0 fe fr (bs.map (·.1)) (bs.map (·.2)).flatten).eq vd).pv
      = pv df vd (eqFlows df yfI dvd strike qty vd 1 (strike * 1 * qty) (bs.map (·.1))) := by
    rw [hstate, eqFold_pv df ⟨df, yfI⟩ dvd strike qty (strike * qty) vd _ _ rfl]
    simp [EqSt.init]
  have e1 : (mkEqSwap eqIsPay strike qty 0 fe fr (bs.map (·.1)) (bs.map (·.2)).flatten).eqFreq = fe := rfl
  have e2 : (mkEqSwap eqIsPay strike qty 0 fe fr (bs.map (·.1)) (bs.map (·.2)).flatten).rateFreq = fr := rfl
  have e3 : (mkEqSwap eqIsPay strike qty 0 fe fr (bs.map (·.1)) (bs.map (·.2)).flatten).eq.periods = bs.map (·.1) := rfl
  have e4 : (mkEqSwap eqIsPay strike qty 0 fe fr (bs.map (·.1)) (bs.map (·.2)).flatten).rate.periods = (bs.map (·.2)).flatten := rfl
  unfold eqSwapValue
  simp only [e1, e2, e3, e4, hlast, hfill, hpv]
  congr 1
  rw [applySign_eq_signed]
  have hlen := blockResetNotionals_length df yfI dvd strike qty 1 bs
  rw [float_leg_eq_sum _ _ _ _ _ (by simpa [mkEqSwap, mkFloatLeg] using hlen)]
  rw [eq_flows_eq_block_flows df yfI dvd strike qty vd 1 bs hgood]
  simp only [mkEqSwap, mkFloatLeg, floatFlows, pv_append, floatCoupons_none]
  have hprin : ∀ o : Option (Period K × K), pv df vd (principalFlow (0 : K) (o.map (fun x => (x.1.pay, x.2)))) = 0 := by
    intro o
    cases o with
    | none => simp [principalFlow, pv_nil]
    | some x => simp [principalFlow, pv_cons, pv_nil, Flow.amount]
  rw [hprin]
  cases eqIsPay <;> simp [signed]

/-- The hypotheses of `equity_swap_zero_at_inception` are satisfiable with a FRONT STUB and blocks of different sizes:
equity periods `[0,1]` (stub, one rate period) and `[1,3]` (two rate periods `[1,2]`, `[2,3]`), annual resets against a
semi-annual rate leg, discount factors 1, 1/2, 1/4, 1/5 — the reset notionals differ (300, then 600). -/
example : eqSwapValue (fun d => if d = 1 then (1 / 2 : ℚ) else if d = 2 then 1 / 4 else if d = 3 then 1 / 5 else 1)
      ⟨fun d => if d = 1 then (1 / 2 : ℚ) else if d = 2 then 1 / 4 else if d = 3 then 1 / 5 else 1, fun a b => b - a⟩
      (fun _ => 1) none none
      (mkEqSwap false 100 3 0 1 2 [⟨0, 1, 1, 1⟩, ⟨1, 3, 3, 2⟩] [⟨0, 1, 1, 1⟩, ⟨1, 2, 2, 1⟩, ⟨2, 3, 3, 1⟩]) 0 = .ok 0 := by
  have h := equity_swap_zero_at_inception
    (fun d => if d = 1 then (1 / 2 : ℚ) else if d = 2 then 1 / 4 else if d = 3 then 1 / 5 else 1) (fun a b => b - a)
    (fun _ => 1) 0 false 100 3 1 2 (by norm_num)
    [(⟨0, 1, 1, 1⟩, [⟨0, 1, 1, 1⟩]), (⟨1, 3, 3, 2⟩, [⟨1, 2, 2, 1⟩, ⟨2, 3, 3, 1⟩])]
    (by
      intro b hb
      simp at hb
      rcases hb with rfl | rfl
      · exact { pfut := by norm_num, plag := rfl, pbasis := by norm_num, pyf := by norm_num, pdiv := by norm_num,
                pdf := by norm_num, ne := by simp, first := by intro q h; simp at h; subst h; rfl,
                last := by intro q h; simp at h; subst h; rfl,
                fut := by intro q h; simp at h; subst h; norm_num, lag := by intro q h; simp at h; subst h; rfl,
                basis := by intro q h; simp at h; subst h; norm_num, yf := by intro q h; simp at h; subst h; norm_num,
                dfq := by intro q h; simp at h; subst h; norm_num, cont := trivial }
      · exact { pfut := by norm_num, plag := rfl, pbasis := by norm_num, pyf := by norm_num, pdiv := by norm_num,
                pdf := by norm_num, ne := by simp, first := by intro q h; simp at h; subst h; rfl,
                last := by intro q h; simp [List.getLast?] at h; subst h; rfl,
                fut := by intro q h; simp at h; rcases h with rfl | rfl <;> norm_num,
                lag := by intro q h; simp at h; rcases h with rfl | rfl <;> rfl,
                basis := by intro q h; simp at h; rcases h with rfl | rfl <;> norm_num,
                yf := by intro q h; simp at h; rcases h with rfl | rfl <;> norm_num,
                dfq := by intro q h; simp at h; rcases h with rfl | rfl <;> norm_num,
                cont := ⟨rfl, trivial⟩ })
    (by simp [AlignedDates])
    (by norm_num)
  simpa using h

/-- C06 **value = equity leg + rate leg** with the rate leg on the notionals assigned by accrual dates: when the
frequency test passes, `EquitySwap.value` is the equity leg's discounted sum plus the floating leg's discounted sum
computed on `notional_array = assignNotionals (equity ends × last_notionals) (rate accrual starts)`. -/
theorem equity_swap_eq_sum (df : Int → K) (idx : IndexCurve K) (dvd : Int → K) (cur ff : Option K) (s : EqSwap K) (vd : Int)
    (hm : s.rateFreq % s.eqFreq = 0) (hne : s.eq.periods ≠ []) :
    eqSwapValue df idx dvd cur ff s vd
      = .ok (signed s.eq.isPay (pv df vd (eqFlows idx.df idx.yf dvd (s.eq.price cur) s.eq.qty vd 1 s.eq.notional s.eq.periods))
          + signed s.rate.isPay (pv df vd (floatFlows idx.df idx.yf ff s.rate.spread s.rate.principal vd
              (s.rate.periods.zip (assignNotionals ((s.eq.periods.map (·.stop)).zip (eqLastNotionals (eqState df idx dvd cur s.eq vd)))
                (s.rate.periods.map (·.start))))))) := by
  have hrows : ∀ (ps : List (Period K)) (st : EqSt K),
      (eqLastNotionals (ps.foldl (eqStep df idx dvd (s.eq.price cur) s.eq.qty s.eq.notional vd (df vd)) st)).length
        = (eqLastNotionals st).length + ps.length := by
    intro ps
    induction ps with
    | nil => intro st; simp
    | cons p ps ih =>
      intro st
      rw [List.foldl_cons, ih]
      by_cases hp : vd < p.pay <;> simp [eqStep, hp, eqLastNotionals] <;> omega
  have hl : (eqLastNotionals (eqState df idx dvd cur s.eq vd)).length = s.eq.periods.length := by
    unfold eqState
    rw [hrows]
    simp [EqSt.init, eqLastNotionals]
  have hz : (s.eq.periods.map (·.stop)).zip (eqLastNotionals (eqState df idx dvd cur s.eq vd)) ≠ [] := by
    intro h
    rcases List.zip_eq_nil_iff.mp h with h1 | h1
    · exact hne (List.map_eq_nil_iff.mp h1)
    · rw [h1] at hl; exact hne (List.length_eq_zero_iff.mp hl.symm)
  unfold eqSwapValue fillRateNotionals
  simp only [hm, ne_eq, not_true_eq_false, if_false]
  congr 1
  rw [float_leg_eq_sum _ _ _ _ _ (by simp [assign_length _ _ hz])]
  have := equity_leg_eq_sum df idx dvd cur s.eq vd
  unfold eqLegValue at this
  rw [this]

end field

end FinVerif.Props.C06
