/-
  C06 (part h, growth round 6) — the two basis-swap classes as wholes and the future seen as a linear product.

  * `Gen/BasisR.lean` is written by the translator on every run from ibor_basis_swap.py, ois_basis_swap.py and ibor_future.py:
    the `value` methods with the two leg valuations as parameters, the statements that choose the second leg's type, the
    (spread, notional, principal, payment lag) each constructor hands to `SwapFloatLeg`, and what `to_fra` hands to `IborFRA`.
    The first block proves the hand model (`Model/C06h`) equal to these functions: a sign flipped on one leg, a spread routed to
    the other leg, a lag given to the wrong leg, a principal that is not 0, a future turned into a payer FRA — each changes the
    generated text and breaks a proof here.
  * The constructors reduce to `mkBasisLegs` on `genPeriods` (the model the harness runs against the implementation).
  * Consequences for every curve set, every two schedules, every valuation date: affine in either spread with the leg's own
    spread annuity as slope; two legs with the same conventions cancel exactly (any periods, any curves, with fixing or not),
    leaving `(s₁ − s₂) ×` the spread annuity; paid periods drop out of both legs; all paid ⇒ 0; invariance under rescaling of
    the three curves; on one curve under the telescoping conditions the value is `± (s₁ U₁ − s₂ U₂)`.
  * `IborFuture`: the FRA a future converts to is a receiver FRA struck at `futures_rate − |convexity|/100` on the contract size;
    its value is linear in the contract size, affine in the futures price with slope `yf/100 × df(end)/df(value_dt) × size`,
    and zero exactly when the projected forward equals the convexity-adjusted futures rate.
-/
import FinVerif.Props.C06e
import FinVerif.Props.C06f
import FinVerif.Model.C06h
import FinVerif.Gen.BasisR

set_option linter.unusedSimpArgs false
set_option linter.unusedSectionVars false
set_option linter.unusedVariables false

namespace FinVerif.Props.C06
open FinVerif FinVerif.Spec.C06 FinVerif.Model.C06 FinVerif.Lemmas.C06
open FinVerif.Gen.BasisR FinVerif.Gen.RatesR

/-! ### the hand model IS the generated glue -/

/-- `IborBasisSwap.value` as generated: the sum of the two leg values (each leg carries its own PAY sign). -/
theorem basisValue_is_generated (df : Int → ℝ) (i1 i2 : IndexCurve ℝ) (f1 f2 : Option ℝ) (l1 l2 : FloatLeg ℝ) (vd : Int) :
    basisSwapValue df i1 i2 f1 f2 l1 l2 vd = ibor_basis_value (floatValue df i1 f1 l1 vd) (floatValue df i2 f2 l2 vd) := by
  simp only [basisSwapValue, ibor_basis_value]

/-- `OISBasisSwap.value` as generated: the same sum. -/
theorem oisBasisValue_is_generated (df : Int → ℝ) (i1 i2 : IndexCurve ℝ) (f1 f2 : Option ℝ) (l1 l2 : FloatLeg ℝ) (vd : Int) :
    basisSwapValue df i1 i2 f1 f2 l1 l2 vd = ois_basis_value (floatValue df i1 f1 l1 vd) (floatValue df i2 f2 l2 vd) := by
  simp only [basisSwapValue, ois_basis_value]

/-- The two classes combine their legs by the same function. -/
theorem ibor_basis_value_eq_ois_basis_value (a b : ℝ) : ibor_basis_value a b = ois_basis_value a b := by
  simp only [ibor_basis_value, ois_basis_value]

/-- The second leg's type as `IborBasisSwap.__init__` chooses it. -/
theorem basisLeg2_is_generated (b : Bool) : basisLeg2IsPay b = ibor_basis_leg2_pay b := by
  cases b <;> simp [basisLeg2IsPay, ibor_basis_leg2_pay]

/-- The second leg's type as `OISBasisSwap.__init__` chooses it. -/
theorem oisBasisLeg2_is_generated (b : Bool) : basisLeg2IsPay b = ois_basis_leg2_pay b := by
  cases b <;> simp [basisLeg2IsPay, ois_basis_leg2_pay]

/-- In both classes the second leg always has the opposite type of the first. -/
theorem basisLeg2_opposite (b : Bool) : basisLeg2IsPay b = !b := by
  cases b <;> rfl

/-- What `IborBasisSwap.__init__` hands to `SwapFloatLeg` for each leg: its own spread, the one notional, principal 0, lag 0. -/
theorem iborBasisArgs_is_generated (s1 s2 N : ℝ) :
    ((iborBasisArgs s1 s2 N).1.spread, (iborBasisArgs s1 s2 N).1.notional, (iborBasisArgs s1 s2 N).1.principal,
        (iborBasisArgs s1 s2 N).1.lag) = ibor_basis_leg1_args s1 s2 N
    ∧ ((iborBasisArgs s1 s2 N).2.spread, (iborBasisArgs s1 s2 N).2.notional, (iborBasisArgs s1 s2 N).2.principal,
        (iborBasisArgs s1 s2 N).2.lag) = ibor_basis_leg2_args s1 s2 N := by
  constructor <;> simp [iborBasisArgs, ibor_basis_leg1_args, ibor_basis_leg2_args]

/-- What `OISBasisSwap.__init__` hands to `SwapFloatLeg`: the lag goes to the OIS leg only. -/
theorem oisBasisArgs_is_generated (sI sO : ℝ) (lag : Int) (N : ℝ) :
    ((oisBasisArgs sI sO lag N).1.spread, (oisBasisArgs sI sO lag N).1.notional, (oisBasisArgs sI sO lag N).1.principal,
        (oisBasisArgs sI sO lag N).1.lag) = ois_basis_leg1_args sI sO lag N
    ∧ ((oisBasisArgs sI sO lag N).2.spread, (oisBasisArgs sI sO lag N).2.notional, (oisBasisArgs sI sO lag N).2.principal,
        (oisBasisArgs sI sO lag N).2.lag) = ois_basis_leg2_args sI sO lag N := by
  constructor <;> simp [oisBasisArgs, ois_basis_leg1_args, ois_basis_leg2_args]

/-- What `IborFuture.to_fra` hands to `IborFRA`: the FRA rate, the contract size as notional, `pay_fixed_rate=False`. -/
theorem futureToFra_is_generated (r size : ℝ) : futureToFra r size = future_to_fra_args r size := by
  simp [futureToFra, future_to_fra_args]

/-- The value of the FRA made from a future, on the generated `IborFRA.value` with the generated arguments and the generated
`IborFuture.fra_rate`. -/
theorem futureFraValue_is_generated (df dfI : Int → ℝ) (delivery endP : Int) (yf price cvx size : ℝ) (vd : Int) :
    futureFraValue df dfI delivery endP yf (futures_fra_rate price cvx) size vd
      = fra_value yf (dfI delivery) (dfI endP) (df endP) (df vd)
          (future_to_fra_args (futures_fra_rate price cvx) size).1
          (future_to_fra_args (futures_fra_rate price cvx) size).2.1
          (future_to_fra_args (futures_fra_rate price cvx) size).2.2 := by
  unfold futureFraValue
  rw [fra_is_generated, futureToFra_is_generated]

section field
variable {K : Type} [Field K]

/-! ### the constructors on generated schedules -/

/-- `IborBasisSwap(...)` = the two legs of `mkBasisLegs` on periods generated with lag 0. -/
theorem mkIborBasis_eq_mkBasisLegs (yf1 yf2 : Int → Int → K) (addBD : Int → Int → Int) (b : Bool) (s1 s2 N : K)
    (d1 d2 : List Int) :
    mkIborBasis yf1 yf2 addBD b s1 s2 N d1 d2
      = mkBasisLegs b s1 s2 N (genPeriods yf1 addBD 0 d1) (genPeriods yf2 addBD 0 d2) := by
  cases b <;> rfl

/-- `OISBasisSwap(...)` = `mkBasisLegs` with the OIS leg's periods generated with the payment lag, the Ibor leg's with lag 0. -/
theorem mkOisBasis_eq_mkBasisLegs (yf1 yf2 : Int → Int → K) (addBD : Int → Int → Int) (b : Bool) (sI sO : K) (lag : Int) (N : K)
    (d1 d2 : List Int) :
    mkOisBasis yf1 yf2 addBD b sI sO lag N d1 d2
      = mkBasisLegs b sI sO N (genPeriods yf1 addBD 0 d1) (genPeriods yf2 addBD lag d2) := by
  cases b <;> rfl

/-- Every coupon of an Ibor basis swap (both legs) is paid on its accrual end date and accrues over its own dates. -/
theorem ibor_basis_pays_on_accrual_end (yf1 yf2 : Int → Int → K) (addBD : Int → Int → Int) (b : Bool) (s1 s2 N : K)
    (d1 d2 : List Int) :
    (∀ p ∈ (mkIborBasis yf1 yf2 addBD b s1 s2 N d1 d2).1.periods, p.pay = p.stop ∧ p.yf = yf1 p.start p.stop)
    ∧ (∀ p ∈ (mkIborBasis yf1 yf2 addBD b s1 s2 N d1 d2).2.periods, p.pay = p.stop ∧ p.yf = yf2 p.start p.stop) := by
  rw [mkIborBasis_eq_mkBasisLegs]
  constructor
  · intro p hp
    have h := genPeriods_spec yf1 addBD 0 d1 p (by simpa [mkBasisLegs, mkFloatLeg] using hp)
    exact ⟨by simpa using h.2, h.1⟩
  · intro p hp
    have h := genPeriods_spec yf2 addBD 0 d2 p (by simpa [mkBasisLegs, mkFloatLeg] using hp)
    exact ⟨by simpa using h.2, h.1⟩

/-- In an OIS basis swap the Ibor leg pays on the accrual end dates; the OIS leg pays `lag` business days later while still
accruing over its own `[start, stop]` (the lag moves the payment, never the accrual). -/
theorem ois_basis_lag_only_on_ois_leg (yf1 yf2 : Int → Int → K) (addBD : Int → Int → Int) (b : Bool) (sI sO : K) (lag : Int)
    (N : K) (d1 d2 : List Int) :
    (∀ p ∈ (mkOisBasis yf1 yf2 addBD b sI sO lag N d1 d2).1.periods, p.pay = p.stop ∧ p.yf = yf1 p.start p.stop)
    ∧ (∀ p ∈ (mkOisBasis yf1 yf2 addBD b sI sO lag N d1 d2).2.periods,
        p.pay = (if lag = 0 then p.stop else addBD p.stop lag) ∧ p.yf = yf2 p.start p.stop) := by
  rw [mkOisBasis_eq_mkBasisLegs]
  constructor
  · intro p hp
    have h := genPeriods_spec yf1 addBD 0 d1 p (by simpa [mkBasisLegs, mkFloatLeg] using hp)
    exact ⟨by simpa using h.2, h.1⟩
  · intro p hp
    have h := genPeriods_spec yf2 addBD lag d2 p (by simpa [mkBasisLegs, mkFloatLeg] using hp)
    exact ⟨h.2, h.1⟩

/-- Both legs of both classes are contiguous (each period starts where the previous one stops). -/
theorem ois_basis_legs_contiguous (yf1 yf2 : Int → Int → K) (addBD : Int → Int → Int) (b : Bool) (sI sO : K) (lag : Int)
    (N : K) (d1 d2 : List Int) :
    Contiguous (mkOisBasis yf1 yf2 addBD b sI sO lag N d1 d2).1.periods
    ∧ Contiguous (mkOisBasis yf1 yf2 addBD b sI sO lag N d1 d2).2.periods := by
  rw [mkOisBasis_eq_mkBasisLegs]
  exact ⟨genPeriods_contiguous yf1 addBD 0 d1, genPeriods_contiguous yf2 addBD lag d2⟩

/-! ### the spread of either leg -/

/-- Spread annuity of a leg: the value of unit coupons on its periods and notionals. -/
def spreadAnnuity (df : Int → K) (vd : Int) (N : K) (ps : List (Period K)) : K :=
  pv df vd (unitCoupons (ps.zip (List.replicate ps.length N)))

lemma mkFloatLeg_value_spread (df : Int → K) (i : IndexCurve K) (f : Option K) (vd : Int) (s N P : K) (b : Bool)
    (ps : List (Period K)) :
    floatValue df i f (mkFloatLeg s N P b ps) vd
      = floatValue df i f (mkFloatLeg 0 N P b ps) vd + signed b (s * spreadAnnuity df vd N ps) := by
  rw [float_leg_eq_sum _ _ _ _ _ (by simp [mkFloatLeg]), float_leg_eq_sum _ _ _ _ _ (by simp [mkFloatLeg])]
  simp only [mkFloatLeg, floatFlows, pv_append, spreadAnnuity]
  rw [pv_floatCoupons_spread df vd i.df i.yf f s]
  cases b <;> simp [signed] <;> ring

/-- C06 **linear_in_spread** (basis swap, leg 1): moving leg 1's spread by `δ` moves the value by `± δ ×` leg 1's spread annuity —
whatever the curves, the fixings and the other leg. -/
theorem basis_affine_in_spread1 (df : Int → K) (idx1 idx2 : IndexCurve K) (ff1 ff2 : Option K) (vd : Int)
    (b : Bool) (s1 s2 N δ : K) (ps1 ps2 : List (Period K)) :
    basisSwapValue df idx1 idx2 ff1 ff2 (mkBasisLegs b (s1 + δ) s2 N ps1 ps2).1 (mkBasisLegs b (s1 + δ) s2 N ps1 ps2).2 vd
      = basisSwapValue df idx1 idx2 ff1 ff2 (mkBasisLegs b s1 s2 N ps1 ps2).1 (mkBasisLegs b s1 s2 N ps1 ps2).2 vd
        + signed b (δ * spreadAnnuity df vd N ps1) := by
  unfold basisSwapValue mkBasisLegs
  dsimp only
  rw [mkFloatLeg_value_spread df idx1 ff1 vd (s1 + δ), mkFloatLeg_value_spread df idx1 ff1 vd s1]
  cases b <;> simp [signed] <;> ring

/-- C06 **linear_in_spread** (basis swap, leg 2): the slope is minus leg 2's spread annuity seen from leg 1's side. -/
theorem basis_affine_in_spread2 (df : Int → K) (idx1 idx2 : IndexCurve K) (ff1 ff2 : Option K) (vd : Int)
    (b : Bool) (s1 s2 N δ : K) (ps1 ps2 : List (Period K)) :
    basisSwapValue df idx1 idx2 ff1 ff2 (mkBasisLegs b s1 (s2 + δ) N ps1 ps2).1 (mkBasisLegs b s1 (s2 + δ) N ps1 ps2).2 vd
      = basisSwapValue df idx1 idx2 ff1 ff2 (mkBasisLegs b s1 s2 N ps1 ps2).1 (mkBasisLegs b s1 s2 N ps1 ps2).2 vd
        - signed b (δ * spreadAnnuity df vd N ps2) := by
  unfold basisSwapValue mkBasisLegs
  dsimp only
  rw [mkFloatLeg_value_spread df idx2 ff2 vd (s2 + δ), mkFloatLeg_value_spread df idx2 ff2 vd s2]
  cases b <;> simp [signed] <;> ring

/-- A spread on leg 1 is NOT a spread on leg 2: the two slopes have opposite signs, so routing a spread to the other leg
changes the value by `± δ (U₁ + U₂)`. -/
theorem basis_spread_on_wrong_leg (df : Int → K) (idx1 idx2 : IndexCurve K) (ff1 ff2 : Option K) (vd : Int)
    (b : Bool) (N δ : K) (ps1 ps2 : List (Period K)) :
    basisSwapValue df idx1 idx2 ff1 ff2 (mkBasisLegs b δ 0 N ps1 ps2).1 (mkBasisLegs b δ 0 N ps1 ps2).2 vd
      - basisSwapValue df idx1 idx2 ff1 ff2 (mkBasisLegs b 0 δ N ps1 ps2).1 (mkBasisLegs b 0 δ N ps1 ps2).2 vd
      = signed b (δ * (spreadAnnuity df vd N ps1 + spreadAnnuity df vd N ps2)) := by
  have h1 := basis_affine_in_spread1 df idx1 idx2 ff1 ff2 vd b 0 0 N δ ps1 ps2
  have h2 := basis_affine_in_spread2 df idx1 idx2 ff1 ff2 vd b 0 0 N δ ps1 ps2
  rw [zero_add] at h1 h2
  rw [h1, h2]
  cases b <;> simp [signed] <;> ring

/-! ### legs with the same conventions cancel -/

/-- C06 **legs cancel where the conventions agree**: the same periods, the same index curve, the same fixing on both legs —
whatever the periods (stubs, lags, any day count), the curves and the valuation date — leave exactly the spread difference on
the common spread annuity.  No telescoping condition is needed. -/
theorem basis_same_conventions_spread_gap (df : Int → K) (idx : IndexCurve K) (ff : Option K) (vd : Int)
    (b : Bool) (s1 s2 N : K) (ps : List (Period K)) :
    basisSwapValue df idx idx ff ff (mkBasisLegs b s1 s2 N ps ps).1 (mkBasisLegs b s1 s2 N ps ps).2 vd
      = signed b ((s1 - s2) * spreadAnnuity df vd N ps) := by
  unfold basisSwapValue mkBasisLegs
  dsimp only
  rw [mkFloatLeg_value_spread df idx ff vd s1, mkFloatLeg_value_spread df idx ff vd s2,
    float_leg_eq_sum _ _ _ _ _ (by simp [mkFloatLeg]), float_leg_eq_sum _ _ _ _ _ (by simp [mkFloatLeg])]
  cases b <;> simp [signed, mkFloatLeg] <;> ring

/-- Equal spreads (in particular no spreads) on legs with the same conventions: the basis swap is worth exactly 0. -/
theorem basis_same_conventions_cancel (df : Int → K) (idx : IndexCurve K) (ff : Option K) (vd : Int)
    (b : Bool) (s N : K) (ps : List (Period K)) :
    basisSwapValue df idx idx ff ff (mkBasisLegs b s s N ps ps).1 (mkBasisLegs b s s N ps ps).2 vd = 0 := by
  rw [basis_same_conventions_spread_gap]
  cases b <;> simp [signed]

/-- The cancellation needs the same index curve: with two index curves the value is in general not 0 (one period, leg 1 projecting
10 %, leg 2 projecting 0 %). -/
theorem basis_two_index_curves_do_not_cancel :
    ∃ (df : Int → ℚ) (i1 i2 : IndexCurve ℚ) (ps : List (Period ℚ)),
      basisSwapValue df i1 i2 none none (mkBasisLegs false 0 0 1 ps ps).1 (mkBasisLegs false 0 0 1 ps ps).2 0 ≠ 0 := by
  refine ⟨fun _ => 1, ⟨fun d => if d = 0 then 11 / 10 else 1, fun _ _ => 1⟩, ⟨fun _ => 1, fun _ _ => 1⟩,
    [⟨0, 1, 1, 1⟩], ?_⟩
  rw [basis_swap_eq_float_minus_float]
  norm_num [signed, pv, floatFlows, floatCoupons, fwdFlow, fwdRate, principalFlow, sumL, Flow.amount]

/-! ### flows paid on or before the valuation date -/

/-- C06 **past_flows_contribute_nothing** (basis swap): periods of either leg already paid can be dropped; a fixing then applies to
the first coupon of that leg still to be paid. -/
theorem basis_past_flows_contribute_nothing (df : Int → K) (idx1 idx2 : IndexCurve K) (ff1 ff2 : Option K) (vd : Int)
    (b : Bool) (s1 s2 N : K) (past1 fut1 past2 fut2 : List (Period K)) (hne1 : fut1 ≠ []) (hne2 : fut2 ≠ [])
    (h1 : ∀ p ∈ past1, p.pay ≤ vd) (h2 : ∀ p ∈ past2, p.pay ≤ vd) :
    basisSwapValue df idx1 idx2 ff1 ff2 (mkBasisLegs b s1 s2 N (past1 ++ fut1) (past2 ++ fut2)).1
        (mkBasisLegs b s1 s2 N (past1 ++ fut1) (past2 ++ fut2)).2 vd
      = basisSwapValue df idx1 idx2 ff1 ff2 (mkBasisLegs b s1 s2 N fut1 fut2).1 (mkBasisLegs b s1 s2 N fut1 fut2).2 vd := by
  unfold basisSwapValue mkBasisLegs mkFloatLeg
  dsimp only
  have e1 := float_past_flows_contribute_nothing df idx1 ff1 vd
    ⟨[], [], N, s1, 0, b⟩ past1 fut1 (List.replicate past1.length N) (List.replicate fut1.length N)
    (by simp) (by simp) hne1 h1
  have e2 := float_past_flows_contribute_nothing df idx2 ff2 vd
    ⟨[], [], N, s2, 0, !b⟩ past2 fut2 (List.replicate past2.length N) (List.replicate fut2.length N)
    (by simp) (by simp) hne2 h2
  simp only [List.length_append, List.replicate_add] at e1 e2 ⊢
  rw [e1, e2]

lemma float_all_past_zero (df : Int → K) (idx : IndexCurve K) (ff : Option K) (vd : Int) (s N P : K) (b : Bool)
    (ps : List (Period K)) (h : ∀ p ∈ ps, p.pay ≤ vd) :
    floatValue df idx ff (mkFloatLeg s N P b ps) vd = 0 := by
  rw [float_leg_eq_sum _ _ _ _ _ (by simp [mkFloatLeg])]
  have hz : pv df vd (floatFlows idx.df idx.yf ff s P vd (ps.zip (List.replicate ps.length N))) = 0 := by
    have := pv_past_flows df vd (floatFlows idx.df idx.yf ff s P vd (ps.zip (List.replicate ps.length N))) [] ?_
    · simpa [pv_nil] using this
    · intro f hf
      simp only [floatFlows, List.mem_append] at hf
      rcases hf with hf | hf
      · -- a coupon: its payment date is a period's payment date
        have key : ∀ (l : List (Period K × K)), (∀ x ∈ l, x.1.pay ≤ vd) →
            ∀ g ∈ floatCoupons idx.df idx.yf ff s vd l, g.pay ≤ vd := by
          intro l
          induction l with
          | nil => intro _ g hg; simp [floatCoupons] at hg
          | cons x xs ih =>
            intro hl g hg
            have hx : ¬ vd < x.1.pay := not_lt.mpr (hl x (by simp))
            simp only [floatCoupons, hx, if_false, List.mem_cons] at hg
            rcases hg with rfl | hg
            · simpa [fwdFlow] using hl x (by simp)
            · exact ih (fun y hy => hl y (by simp [hy])) g hg
        exact key _ (fun x hx => h x.1 (List.of_mem_zip hx).1) f hf
      · -- the principal flow sits on the last payment date
        cases hl : (ps.zip (List.replicate ps.length N)).getLast? with
        | none => simp [hl, principalFlow] at hf
        | some x =>
          simp only [hl, Option.map_some, principalFlow, List.mem_singleton] at hf
          have hx : x ∈ ps.zip (List.replicate ps.length N) := List.mem_of_getLast? hl
          rw [hf]
          exact h x.1 (List.of_mem_zip hx).1
  rw [mkFloatLeg] at *
  dsimp only at *
  rw [hz]
  cases b <;> simp [signed]

/-- A basis swap whose every coupon (both legs) is paid on or before the valuation date is worth 0. -/
theorem basis_all_past_is_zero (df : Int → K) (idx1 idx2 : IndexCurve K) (ff1 ff2 : Option K) (vd : Int)
    (b : Bool) (s1 s2 N : K) (ps1 ps2 : List (Period K))
    (h1 : ∀ p ∈ ps1, p.pay ≤ vd) (h2 : ∀ p ∈ ps2, p.pay ≤ vd) :
    basisSwapValue df idx1 idx2 ff1 ff2 (mkBasisLegs b s1 s2 N ps1 ps2).1 (mkBasisLegs b s1 s2 N ps1 ps2).2 vd = 0 := by
  unfold basisSwapValue mkBasisLegs
  dsimp only
  rw [float_all_past_zero df idx1 ff1 vd s1 N 0 b ps1 h1, float_all_past_zero df idx2 ff2 vd s2 N 0 (!b) ps2 h2, add_zero]

/-! ### normalisation -/

/-- The value of a basis swap does not depend on the scale of any of its three curves. -/
theorem basis_rescale_invariant (df : Int → K) (idx1 idx2 : IndexCurve K) (ff1 ff2 : Option K) (vd : Int)
    (b : Bool) (s1 s2 N : K) (ps1 ps2 : List (Period K)) (c c1 c2 : K) (hc : c ≠ 0) (hc1 : c1 ≠ 0) (hc2 : c2 ≠ 0) :
    basisSwapValue (fun d => c * df d) ⟨fun d => c1 * idx1.df d, idx1.yf⟩ ⟨fun d => c2 * idx2.df d, idx2.yf⟩ ff1 ff2
        (mkBasisLegs b s1 s2 N ps1 ps2).1 (mkBasisLegs b s1 s2 N ps1 ps2).2 vd
      = basisSwapValue df idx1 idx2 ff1 ff2 (mkBasisLegs b s1 s2 N ps1 ps2).1 (mkBasisLegs b s1 s2 N ps1 ps2).2 vd := by
  unfold basisSwapValue
  rw [float_value_rescale_invariant df idx1 ff1 vd _ (by simp [mkBasisLegs, mkFloatLeg]) c c1 hc hc1,
    float_value_rescale_invariant df idx2 ff2 vd _ (by simp [mkBasisLegs, mkFloatLeg]) c c2 hc hc2]

/-! ### one curve: only the spreads are left -/

/-- Both legs on ONE curve under the telescoping conditions, spanning the same dates, with spreads: the projected parts cancel
whatever the two frequencies, and the value is `± (s₁ U₁ − s₂ U₂)` with `U_k` the spread annuity of leg k. -/
theorem basis_single_curve_spread_value (df : Int → K) (yf1 yf2 : Int → Int → K) (vd : Int) (b : Bool) (s1 s2 N : K)
    (p1 : Period K) (q1 : List (Period K)) (p2 : Period K) (q2 : List (Period K))
    (hstart : p1.start = p2.start)
    (hend : ((p1 :: q1).getLast (by simp)).stop = ((p2 :: q2).getLast (by simp)).stop)
    (hfut1 : ∀ q ∈ p1 :: q1, vd < q.pay) (hlag1 : ∀ q ∈ p1 :: q1, q.pay = q.stop)
    (hbasis1 : ∀ q ∈ p1 :: q1, yf1 q.start q.stop = q.yf) (hyf1 : ∀ q ∈ p1 :: q1, q.yf ≠ 0)
    (hdf1 : ∀ q ∈ p1 :: q1, df q.stop ≠ 0) (hc1 : Contiguous (p1 :: q1))
    (hfut2 : ∀ q ∈ p2 :: q2, vd < q.pay) (hlag2 : ∀ q ∈ p2 :: q2, q.pay = q.stop)
    (hbasis2 : ∀ q ∈ p2 :: q2, yf2 q.start q.stop = q.yf) (hyf2 : ∀ q ∈ p2 :: q2, q.yf ≠ 0)
    (hdf2 : ∀ q ∈ p2 :: q2, df q.stop ≠ 0) (hc2 : Contiguous (p2 :: q2)) :
    basisSwapValue df ⟨df, yf1⟩ ⟨df, yf2⟩ none none
      (mkBasisLegs b s1 s2 N (p1 :: q1) (p2 :: q2)).1 (mkBasisLegs b s1 s2 N (p1 :: q1) (p2 :: q2)).2 vd
      = signed b (s1 * spreadAnnuity df vd N (p1 :: q1) - s2 * spreadAnnuity df vd N (p2 :: q2)) := by
  have h0 := basis_swap_single_curve_zero df yf1 yf2 vd b N p1 q1 p2 q2 hstart hend hfut1 hlag1 hbasis1 hyf1 hdf1 hc1
    hfut2 hlag2 hbasis2 hyf2 hdf2 hc2
  have h1 := basis_affine_in_spread1 df ⟨df, yf1⟩ ⟨df, yf2⟩ none none vd b 0 s2 N s1 (p1 :: q1) (p2 :: q2)
  have h2 := basis_affine_in_spread2 df ⟨df, yf1⟩ ⟨df, yf2⟩ none none vd b 0 0 N s2 (p1 :: q1) (p2 :: q2)
  rw [zero_add] at h1 h2
  rw [h1, h2, h0]
  cases b <;> simp [signed] <;> ring

/-- Non-vacuity of the telescoping hypotheses with two different frequencies: one annual period against two semi-annual ones on
a curve `df(d) = 1/(1+d)`; spreads 1 % and 2 %. -/
example : ∃ (df : Int → ℚ) (yf : Int → Int → ℚ) (p1 p2 q2 : Period ℚ),
    p1.start = p2.start ∧ ([p1].getLast (by simp)).stop = ([p2, q2].getLast (by simp)).stop
    ∧ (∀ q ∈ [p1], (0 : Int) < q.pay) ∧ (∀ q ∈ [p1], q.pay = q.stop) ∧ (∀ q ∈ [p1], yf q.start q.stop = q.yf)
    ∧ (∀ q ∈ [p1], q.yf ≠ 0) ∧ (∀ q ∈ [p1], df q.stop ≠ 0) ∧ Contiguous [p1]
    ∧ (∀ q ∈ [p2, q2], (0 : Int) < q.pay) ∧ (∀ q ∈ [p2, q2], q.pay = q.stop) ∧ (∀ q ∈ [p2, q2], yf q.start q.stop = q.yf)
    ∧ (∀ q ∈ [p2, q2], q.yf ≠ 0) ∧ (∀ q ∈ [p2, q2], df q.stop ≠ 0) ∧ Contiguous [p2, q2] := by
  refine ⟨fun d => 1 / (1 + (d : ℚ)), fun a b => ((b - a : Int) : ℚ) / 2, ⟨0, 2, 2, 1⟩, ⟨0, 1, 1, 1 / 2⟩, ⟨1, 2, 2, 1 / 2⟩,
    rfl, rfl, ?_, ?_, ?_, ?_, ?_, trivial, ?_, ?_, ?_, ?_, ?_, ⟨rfl, trivial⟩⟩ <;>
  · intro q hq
    simp only [List.mem_cons, List.mem_singleton, List.not_mem_nil, or_false] at hq
    rcases hq with rfl | rfl <;> norm_num

end field

/-! ### IborFuture as a linear product: the FRA it converts to -/

/-- The FRA made from a future is never a payer FRA (`pay_fixed_rate=False`), is struck at the generated `fra_rate` and carries
the contract size as its notional. -/
theorem future_fra_terms (price cvx size : ℝ) :
    future_to_fra_args (futures_fra_rate price cvx) size = (futures_rate price - |cvx| / 100, size, false) := by
  have h : futures_fra_rate price cvx = futures_rate price - |cvx| / 100 := by
    simp only [futures_fra_rate, futures_rate]
    by_cases hc : cvx < 0
    · simp [hc, abs_of_neg hc]; ring
    · simp [hc, abs_of_nonneg (not_lt.mp hc)]
  simp [future_to_fra_args, h]

/-- Closed form of the value of the FRA made from a future (year fraction ≠ 0):
`(df_I(delivery)/df_I(end) − 1 − yf × (futures_rate − |convexity|/100)) × df(end) × size / df(value_dt)`. -/
theorem future_fra_value_eq (df dfI : Int → ℝ) (delivery endP : Int) (yf price cvx size : ℝ) (vd : Int) (hyf : yf ≠ 0) :
    futureFraValue df dfI delivery endP yf (futures_fra_rate price cvx) size vd
      = (dfI delivery / dfI endP - 1 - yf * (futures_rate price - |cvx| / 100)) * df endP * size / df vd := by
  rw [futureFraValue_is_generated, future_fra_terms]
  simp only [fra_value]
  have h : yf * ((dfI delivery / dfI endP - 1) / yf - (futures_rate price - |cvx| / 100))
      = dfI delivery / dfI endP - 1 - yf * (futures_rate price - |cvx| / 100) := by
    field_simp
  simp [h]

/-- C06 **linear_in_notional** (future → FRA): the value is linear in the contract size. -/
theorem future_fra_value_linear_in_contract_size (df dfI : Int → ℝ) (delivery endP : Int) (yf r size k : ℝ) (vd : Int) :
    futureFraValue df dfI delivery endP yf r (k * size) vd = k * futureFraValue df dfI delivery endP yf r size vd := by
  simp only [futureFraValue, futureToFra, fraValue]
  simp
  ring

/-- One price point is one percent of rate on the accrual: raising the futures price by `δ` raises the value of the FRA by
`yf × δ/100 × df(end)/df(value_dt) × size`, whatever the curves and the convexity. -/
theorem future_fra_value_affine_in_price (df dfI : Int → ℝ) (delivery endP : Int) (yf price δ cvx size : ℝ) (vd : Int)
    (hyf : yf ≠ 0) :
    futureFraValue df dfI delivery endP yf (futures_fra_rate (price + δ) cvx) size vd
      - futureFraValue df dfI delivery endP yf (futures_fra_rate price cvx) size vd
      = yf * (δ / 100) * df endP * size / df vd := by
  rw [future_fra_value_eq _ _ _ _ _ _ _ _ _ hyf, future_fra_value_eq _ _ _ _ _ _ _ _ _ hyf]
  simp only [futures_rate]
  ring

/-- With positive accrual, discount factors and contract size the FRA made from a future gains when the futures price rises. -/
theorem future_fra_value_strictMono_in_price (df dfI : Int → ℝ) (delivery endP : Int) (yf p q cvx size : ℝ) (vd : Int)
    (hyf : 0 < yf) (he : 0 < df endP) (hv : 0 < df vd) (hs : 0 < size) (hpq : p < q) :
    futureFraValue df dfI delivery endP yf (futures_fra_rate p cvx) size vd
      < futureFraValue df dfI delivery endP yf (futures_fra_rate q cvx) size vd := by
  have h := future_fra_value_affine_in_price df dfI delivery endP yf p (q - p) cvx size vd hyf.ne'
  rw [add_sub_cancel] at h
  have hpos : 0 < yf * ((q - p) / 100) * df endP * size / df vd := by
    have : 0 < q - p := sub_pos.mpr hpq
    positivity
  linarith

/-- The FRA made from a future is worth zero exactly when the forward projected from the index curve over the futures period
equals the convexity-adjusted futures rate. -/
theorem future_fra_value_zero_iff (df dfI : Int → ℝ) (delivery endP : Int) (yf price cvx size : ℝ) (vd : Int)
    (hyf : yf ≠ 0) (he : df endP ≠ 0) (hv : df vd ≠ 0) (hs : size ≠ 0) :
    futureFraValue df dfI delivery endP yf (futures_fra_rate price cvx) size vd = 0
      ↔ fwdRate dfI delivery endP yf = futures_rate price - |cvx| / 100 := by
  rw [future_fra_value_eq _ _ _ _ _ _ _ _ _ hyf]
  unfold fwdRate
  constructor
  · intro h
    have h1 : (dfI delivery / dfI endP - 1 - yf * (futures_rate price - |cvx| / 100)) = 0 := by
      by_contra hne
      exact (div_ne_zero (mul_ne_zero (mul_ne_zero hne he) hs) hv) h
    field_simp
    linarith
  · intro h
    have : dfI delivery / dfI endP - 1 = yf * (futures_rate price - |cvx| / 100) := by
      rw [← h]; field_simp
    rw [this]; simp

/-- Non-vacuity: a flat situation where the forward is 2 %, the future trades at 98 and there is no convexity. -/
example : ∃ (df dfI : Int → ℝ) (yf price cvx size : ℝ), yf ≠ 0 ∧ df 1 ≠ 0 ∧ df 0 ≠ 0 ∧ size ≠ 0
    ∧ fwdRate dfI 0 1 yf = futures_rate price - |cvx| / 100 := by
  refine ⟨fun _ => 1, fun d => if d = 0 then 1.02 else 1, 1, 98, 0, 1, one_ne_zero, one_ne_zero, one_ne_zero, one_ne_zero, ?_⟩
  norm_num [fwdRate, futures_rate]

end FinVerif.Props.C06
