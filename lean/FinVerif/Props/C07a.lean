/-
  C07 (part a) — the closed-form yield formulas of `Bond.dirty_price_from_ytm` equal the explicit
  cash-flow sums of the specification, for every number `n : ℕ` of remaining coupons, every coupon,
  frequency, yield with `v ≠ 1`, period fraction and convention; accrued-interest identities;
  dirty = clean + accrued.  Read over ℝ (`v ** n` = monoid power, `v ** alpha` = `Real.rpow`).
-/
import FinVerif.Lemmas.C07Real
import Mathlib.Tactic.NormNum
import Mathlib.Tactic.Positivity

namespace FinVerif.Props.C07
open FinVerif FinVerif.Model.C07 FinVerif.Spec.C07 FinVerif.Lemmas.C07

/-- enum value of `YTMCalcType` → convention of the specification -/
def convOf : Nat → Option Conv
  | 1 => some .ukDmo | 2 => some .usStreet | 3 => some .usTreasury | 4 => some .cfets | _ => none

/-! ### The geometric-series block -/

/-- C07: `term1 + term2 + term3 + term4` is the explicit sum of coupons 0..n (coupon 0 only when paid)
plus the principal, for ANY n ≥ 1 and any `v ≠ 1`. -/
theorem terms_eq_cashflow_sum (n : ℕ) (hn : 1 ≤ n) (c f v pay : ℝ) (hv : v ≠ 1) :
    terms n c f v pay
      = ∑ k ∈ Finset.range (n + 1), (c / f) * (if k = 0 then pay else 1) * v ^ k + v ^ n := by
  obtain ⟨m, rfl⟩ : ∃ m, n = m + 1 := ⟨n - 1, by omega⟩
  rw [Finset.sum_range_succ']
  have hg := geom_tail v hv m
  have hs : ∑ k ∈ Finset.range (m + 1), (c / f) * (if k + 1 = 0 then pay else 1) * v ^ (k + 1)
      = (c / f) * ∑ k ∈ Finset.range (m + 1), v ^ (k + 1) := by
    rw [Finset.mul_sum]
    apply Finset.sum_congr rfl
    intro k _
    simp
  rw [hs, ← hg]
  have h00 : (if (0 : ℕ) = 0 then pay else (1 : ℝ)) = pay := if_pos rfl
  rw [h00]
  simp only [terms, powN_real, Nat.add_sub_cancel]
  have h1 : (1 : ℝ) - v ≠ 0 := sub_ne_zero.mpr (Ne.symm hv)
  field_simp
  ring

/-- C07: the excluded point is real — at `v = 1` (yield exactly `−1.2345e-11`) the closed form divides by
zero; read over ℝ (`x/0 = 0`) it loses the coupons k ≥ 2, so the hypothesis `v ≠ 1` cannot be dropped.
(The code adds `1.2345e-11` to every yield so that a user's `y = 0` is not this point.) -/
theorem terms_ne_cashflow_sum_at_v_one :
    terms 2 1 1 (1 : ℝ) 1
      ≠ ∑ k ∈ Finset.range (2 + 1), ((1 : ℝ) / 1) * (if k = 0 then 1 else 1) * (1 : ℝ) ^ k + (1 : ℝ) ^ 2 := by
  norm_num [terms, Finset.sum_range_succ]

/-! ### Per-convention statements -/

/-- The full statement of the first clause of C07: for every convention the coded price per unit face is
the convention's discounted cash-flow sum. -/
def ClosedFormEqCashflowSum : Prop :=
  ∀ (code : Nat) (conv : Conv) (n : ℕ) (c f y a aY pay : ℝ),
    convOf code = some conv → (1 / (1 + y / f) : ℝ) ≠ 1 → (pay = 0 ∨ pay = 1) →
    dirtyCore code n c f y a pay aY = .ok (dirtyPerUnit conv n c f y a aY pay)

/-- The inputs on which the code still leaves the cash-flow definition: last coupon period (`n = 0`) under
US_TREASURY — it compounds over the fractional period (`v**alpha`), while its own `n ≥ 1` branch and the
convention use simple interest `1/(1 + alpha·y/f)`.  (Before fix 81d60de the exception also contained the
non-UK conventions inside the ex-dividend window.) -/
def LastPeriodException (code n : Nat) : Prop := n = 0 ∧ code = 3

/-- C07 closed_form_eq_cashflow_sum: outside `LastPeriodException` every branch of
`dirty_price_from_ytm` (all four conventions, `n = 0` and `n ≥ 1` branches, with and without the
ex-dividend coupon) is the explicit cash-flow sum of the specification, for all `n : ℕ`. -/
theorem closed_form_eq_cashflow_sum_partial
    (code : Nat) (conv : Conv) (n : ℕ) (c f y a aY pay : ℝ)
    (hc : convOf code = some conv) (hv : (1 / (1 + y / f) : ℝ) ≠ 1)
    (hx : ¬ LastPeriodException code n) :
    dirtyCore code n c f y a pay aY = .ok (dirtyPerUnit conv n c f y a aY pay) := by
  rcases Nat.eq_zero_or_pos n with h0 | hpos
  · -- last coupon period
    subst h0
    have hx' : ¬ (code = 3) := fun h => hx ⟨rfl, h⟩
    match code, hc with
    | 1, hc =>
      simp only [convOf, Option.some.injEq] at hc; subst hc
      simp only [dirtyCore, dirtyPerUnit, discount, spec_sum_zero, if_true, powF_real, ipow_real,
        fpow_real, pow_zero]
      congr 1; ring
    | 2, hc =>
      simp only [convOf, Option.some.injEq] at hc; subst hc
      simp only [dirtyCore, dirtyPerUnit, discount, spec_sum_zero, if_true]
      congr 1; ring
    | 3, _ => exact absurd rfl hx'
    | 4, hc =>
      simp only [convOf, Option.some.injEq] at hc; subst hc
      simp only [dirtyCore, dirtyPerUnit, discount, spec_sum_zero, if_true]
      congr 1; ring
  · -- n ≥ 1 : geometric series
    have hn0 : n ≠ 0 := Nat.pos_iff_ne_zero.mp hpos
    have hT := terms_eq_cashflow_sum n hpos c f (1 / (1 + y / f)) pay hv
    match code, hc with
    | 1, hc =>
      simp only [convOf, Option.some.injEq] at hc; subst hc
      simp only [dirtyCore, dirtyPerUnit, discount, if_neg hn0, powF_real, ipow_real, fpow_real,
        sumTo_eq_sum, hT]
      congr 1
      rw [mul_add, Finset.mul_sum]
      congr 1
      · apply Finset.sum_congr rfl; intro k _; ring
      · ring
    | 2, hc =>
      simp only [convOf, Option.some.injEq] at hc; subst hc
      simp only [dirtyCore, dirtyPerUnit, discount, if_neg hn0, powF_real, ipow_real, fpow_real,
        sumTo_eq_sum, hT]
      congr 1
      rw [mul_add, Finset.mul_sum]
      congr 1
      · apply Finset.sum_congr rfl; intro k _; ring
      · ring
    | 3, hc =>
      simp only [convOf, Option.some.injEq] at hc; subst hc
      simp only [dirtyCore, dirtyPerUnit, discount, if_neg hn0, ipow_real, sumTo_eq_sum, hT]
      congr 1
      rw [mul_add, Finset.mul_sum]
      congr 1
      · apply Finset.sum_congr rfl; intro k _; ring
      · ring
    | 4, hc =>
      simp only [convOf, Option.some.injEq] at hc; subst hc
      simp only [dirtyCore, dirtyPerUnit, discount, if_neg hn0, powF_real, ipow_real, fpow_real,
        sumTo_eq_sum, hT]
      congr 1
      rw [mul_add, Finset.mul_sum]
      congr 1
      · apply Finset.sum_congr rfl; intro k _; ring
      · ring

/-- the hypotheses of the partial theorem are satisfiable (a 5 % semi-annual bond, 7 coupons after the next
one, 4 % yield, 40 % of the period left, UK DMO) -/
example : ∃ p : ℝ, dirtyCore 1 7 0.05 2 0.04 0.4 1 0 = .ok p ∧ p = dirtyPerUnit .ukDmo 7 0.05 2 0.04 0.4 0 1 := by
  refine ⟨_, closed_form_eq_cashflow_sum_partial 1 .ukDmo 7 0.05 2 0.04 0.4 0 1 rfl ?_ ?_, rfl⟩
  · norm_num
  · simp [LastPeriodException]

/-- C07: the spec's discount factor `v^k · v^a` IS `v^(k+a)` (compounding over `k + a` periods), `v > 0`. -/
theorem compound_discount_eq_rpow (v a : ℝ) (k : ℕ) (hv : 0 < v) :
    v ^ k * v ^ a = v ^ ((k : ℝ) + a) := by
  rw [Real.rpow_add hv, Real.rpow_natCast]

/-! ### Counterexamples: the full statement fails on the unchanged code -/

/-- C07 (known finding `C07/us-treasury-last-period-compounding`): US_TREASURY, last period, 5 % coupon,
shifted yield 5 %, half a period to run, coupon paid: the code returns `v^½ (1 + c/f)`, the convention
`(1 + c/f)/(1 + ½·y/f)`. -/
theorem us_treasury_last_period_not_simple :
    dirtyCore 3 0 (0.05 : ℝ) 2 0.05 (1 / 2) 1 0 ≠ .ok (dirtyPerUnit .usTreasury 0 0.05 2 0.05 (1 / 2) 0 1) := by
  simp only [dirtyCore, dirtyPerUnit, discount, spec_sum_zero, if_true, powF_real, ipow_real, pow_zero]
  intro h
  have h' := Except.ok.inj h
  -- square both sides: (v^½)^2 = v
  set v : ℝ := 1 / (1 + 0.05 / 2) with hvdef
  have hv0 : (0 : ℝ) ≤ v := by rw [hvdef]; norm_num
  have hsq : (v ^ (1 / 2 : ℝ)) ^ 2 = v := by
    rw [← Real.rpow_natCast, ← Real.rpow_mul hv0]; norm_num
  have hw : v ^ (1 / 2 : ℝ) = 1 / (1 + 1 / 2 * 0.05 / 2) := by
    have hne : (1 + 0.05 / 2 : ℝ) ≠ 0 := by norm_num
    have : v ^ (1 / 2 : ℝ) * (1 + 1 * 0.05 / 2) = (0.05 / 2 * 1 * (1 / (1 + 1 / 2 * 0.05 / 2)) + 1 / (1 + 1 / 2 * 0.05 / 2)) := h'
    field_simp at this ⊢
    linarith
  rw [hw] at hsq
  rw [hvdef] at hsq
  norm_num at hsq

/-- C07: hence the full statement does not hold of the code (only the US_TREASURY last period remains). -/
theorem closed_form_full_statement_fails : ¬ ClosedFormEqCashflowSum := by
  intro H
  exact us_treasury_last_period_not_simple
    (H 3 .usTreasury 0 0.05 2 0.05 (1 / 2) 0 1 rfl (by norm_num) (Or.inr rfl))

/-- C07: what the code computes in the US_TREASURY last period is the UK-DMO (compound) cash-flow sum,
ex-dividend coupon included or not as `pay` says. -/
theorem us_treasury_last_period_eq_compound (c f y a aY pay : ℝ) :
    dirtyCore 3 0 c f y a pay aY = .ok (dirtyPerUnit .ukDmo 0 c f y a aY pay) := by
  simp only [dirtyCore, dirtyPerUnit, discount, spec_sum_zero, if_true, powF_real, ipow_real,
    fpow_real, pow_zero]
  congr 1; ring

/-- C07 (fixed 81d60de): inside the ex-dividend window the last-period price of every convention contains
the principal only — the coupon the buyer will not receive is no longer priced in. -/
theorem last_period_exdiv_principal_only (c f y a aY : ℝ) :
    dirtyCore 2 0 c f y a 0 aY = .ok (1 / (1 + a * y / f)) ∧
    dirtyCore 4 0 c f y a 0 aY = .ok (1 / (1 + aY * y)) ∧
    dirtyCore 3 0 c f y a 0 aY = .ok ((1 / (1 + y / f)) ^ a) ∧
    dirtyCore 1 0 c f y a 0 aY = .ok ((1 / (1 + y / f)) ^ a) := by
  simp [dirtyCore]

/-- C07: the wrapper `dirty_price_from_ytm` = 100 × cash-flow sum at the shifted yield
`ytm + 1.2345e-11`; errors exactly for an unknown convention or no coupon left. -/
theorem dirty_price_from_ytm_eq_cashflow_sum
    (code : Nat) (conv : Conv) (n : ℕ) (c f ytm a aY pay : ℝ)
    (hc : convOf code = some conv) (hv : (1 / (1 + (ytm + 1.2345e-11) / f) : ℝ) ≠ 1)
    (hx : ¬ LastPeriodException code n) :
    dirtyPriceFromYtm code (n : Int) c f ytm a pay aY
      = .ok (dirtyPrice conv n c f (ytm + 1.2345e-11) a aY pay) := by
  have hcode : ¬ (code = 0 ∨ code > 4) := by
    match code, hc with
    | 1, _ => decide
    | 2, _ => decide
    | 3, _ => decide
    | 4, _ => decide
  have hn : ¬ ((n : Int) < 0) := by omega
  simp only [dirtyPriceFromYtm, if_neg hcode, if_neg hn, Int.toNat_natCast, ytmShift,
    closed_form_eq_cashflow_sum_partial code conv n c f _ a aY pay hc hv hx, dirtyPrice]

/-- C07: `n < 0` (settlement on or after the last coupon date) is rejected with `FinError`. -/
theorem dirty_price_no_coupons_left (code : Nat) (nInt : Int) (c f ytm a aY pay : ℝ)
    (hn : nInt < 0) : dirtyPriceFromYtm code nInt c f ytm a pay aY = .error .finError := by
  simp only [dirtyPriceFromYtm]
  split
  · rfl
  · simp [hn]

/-! ### Accrued interest -/

/-- C07 accrued_eq_yearfrac_times_coupon: as coded, accrued = the specification's accrued (day-count
fraction × annual coupon × face, less one coupon inside the ex-dividend window). -/
theorem accrued_eq_spec (accFactor f c face : ℝ) (exDiv : Bool) :
    (accruedInterest accFactor f c face exDiv).accrued = accrued accFactor f c face exDiv := by
  cases exDiv <;> simp [accruedInterest, accrued] <;> ring

/-- C07: outside the ex-dividend window accrued = year fraction × coupon × face. -/
theorem accrued_eq_yearfrac_times_coupon (accFactor f c face : ℝ) :
    (accruedInterest accFactor f c face false).accrued = accFactor * c * face := by
  simp [accruedInterest]; ring

/-- C07: accrued is zero on a coupon date (the day-count fraction from the date to itself is 0 — C15). -/
theorem accrued_zero_on_coupon_date (f c face : ℝ) :
    (accruedInterest 0 f c face false).accrued = 0 := by
  simp [accruedInterest]

/-- C07: accrued is non-negative outside the ex-dividend window. -/
theorem accrued_nonneg_outside_exdiv (accFactor f c face : ℝ)
    (ha : 0 ≤ accFactor) (hc : 0 ≤ c) (hf : 0 ≤ face) :
    0 ≤ (accruedInterest accFactor f c face false).accrued := by
  simp only [accruedInterest, Bool.false_eq_true, if_false]
  positivity

/-- C07 icma_accrued_lt_coupon: under ACT/ACT ICMA (`acc_factor = days since pcd / (freq × days in period)`)
accrued is strictly below one coupon, for settlement inside the period (`0 ≤ num < den`). -/
theorem icma_accrued_lt_coupon (num den f c face : ℝ)
    (h0 : 0 ≤ num) (hlt : num < den) (hf : 0 < f) (hc : 0 < c) (hface : 0 < face) :
    (accruedInterest (num / (f * den)) f c face false).accrued < c / f * face := by
  have hden : 0 < den := lt_of_le_of_lt h0 hlt
  simp only [accruedInterest, Bool.false_eq_true, if_false]
  have h1 : num / (f * den) < 1 / f := by
    rw [div_lt_div_iff₀ (by positivity) hf]
    nlinarith
  have h2 : 0 < c * face := by positivity
  calc num / (f * den) * (c * face) < 1 / f * (c * face) := by
        exact mul_lt_mul_of_pos_right h1 h2
    _ = c / f * face := by ring

/-- C07: inside the ex-dividend window the ICMA accrued is negative and not below minus one coupon. -/
theorem icma_accrued_exdiv_range (num den f c face : ℝ)
    (h0 : 0 ≤ num) (hlt : num < den) (hf : 0 < f) (hc : 0 < c) (hface : 0 < face) :
    -(c / f * face) ≤ (accruedInterest (num / (f * den)) f c face true).accrued ∧
      (accruedInterest (num / (f * den)) f c face true).accrued < 0 := by
  have hden : 0 < den := lt_of_le_of_lt h0 hlt
  simp only [accruedInterest, if_true]
  have h1 : num / (f * den) < 1 / f := by
    rw [div_lt_div_iff₀ (by positivity) hf]
    nlinarith
  have h3 : 0 ≤ num / (f * den) := by positivity
  have h2 : 0 < c * face := by positivity
  constructor
  · have : -(c / f * face) = (0 - 1 / f) * (c * face) := by ring
    rw [this]
    exact mul_le_mul_of_nonneg_right (by linarith) h2.le
  · exact mul_neg_of_neg_of_pos (by linarith) h2

/-- C07: `alpha` (the exponent of the first discount factor) is the fraction of the coupon period still
to run: under ICMA `alpha = (den − num)/den ∈ (0, 1]`. -/
theorem icma_alpha (num den f c face : ℝ) (exDiv : Bool)
    (h0 : 0 ≤ num) (hlt : num < den) (hf : 0 < f) :
    (accruedInterest (num / (f * den)) f c face exDiv).alpha = (den - num) / den ∧
      0 < (accruedInterest (num / (f * den)) f c face exDiv).alpha ∧
      (accruedInterest (num / (f * den)) f c face exDiv).alpha ≤ 1 := by
  have hden : 0 < den := lt_of_le_of_lt h0 hlt
  have he : (accruedInterest (num / (f * den)) f c face exDiv).alpha = (den - num) / den := by
    simp only [accruedInterest]
    field_simp
  rw [he]
  refine ⟨rfl, by apply div_pos <;> linarith, ?_⟩
  rw [div_le_one hden]; linarith

/-- C07 dirty_eq_clean_plus_accrued: whenever `clean_price_from_ytm` returns, `dirty_price_from_ytm`
returns too and dirty = clean + accrued (accrued for face `par`), in every convention and branch. -/
theorem dirty_eq_clean_plus_accrued
    (code : Nat) (nInt : Int) (c f ytm accFactor aY : ℝ) (exDiv : Bool) (cp : ℝ)
    (h : cleanPriceFromYtm code nInt c f ytm accFactor aY exDiv = .ok cp) :
    ∃ dp, dirtyPriceFromYtm code nInt c f ytm (accruedInterest accFactor f c 1 exDiv).alpha
            (payFirst exDiv) aY = .ok dp ∧
          dp = cp + (accruedInterest accFactor f c 100 exDiv).accrued := by
  simp only [cleanPriceFromYtm] at h
  split at h
  · rename_i dp hdp
    refine ⟨dp, hdp, ?_⟩
    have := Except.ok.inj h
    linarith
  · simp at h

/-- C07: `alpha` does not depend on the face amount with which `accrued_interest` was last called
(`dirty_price_from_ytm` calls it with face 1, `clean_price_from_ytm` then with face 100). -/
theorem alpha_independent_of_face (accFactor f c face face' : ℝ) (exDiv : Bool) :
    (accruedInterest accFactor f c face exDiv).alpha = (accruedInterest accFactor f c face' exDiv).alpha := rfl

end FinVerif.Props.C07
