/-
  C07 (part b) — price from a discount curve = PV of the flows (loop = sum, by induction over the
  schedule, any length); position of the settlement date in the schedule; price strictly decreasing in
  yield (termwise, on the cash-flow sum); yield round trip from the solver postcondition; the
  bump-and-reprice risk measures as coded (Macaulay/modified relation, exactness of the bump formulas'
  scaling); zero-coupon / annuity / FRN identities in their own quoting terms.
-/
import FinVerif.Props.C07a

namespace FinVerif.Props.C07
open FinVerif FinVerif.Model.C07 FinVerif.Spec.C07 FinVerif.Lemmas.C07

/-! ### Discount-curve pricing -/

/-- C07: the coupon loop of `dirty_price_from_discount_curve` is a sum (induction, any schedule length,
increasing dates): it adds `cf·df` for exactly the dates after settlement — the NEXT coupon multiplied by
`pay_first_cpn` — and leaves `df` at the last such date. -/
theorem curveLoop_eq_sum (settle : Int) (exDiv : Bool) (cf : ℝ) (l : List (Int × ℝ)) (px df : ℝ)
    (hs : (l.map (·.1)).Pairwise (· < ·)) :
    curveLoop settle cf (payFirst exDiv) ((l.map (·.1)).find? (fun d => decide (d > settle))) l (px, df)
      = (px + curveFlows settle exDiv cf l false, lastDfAfter settle l df) :=
  curveLoop_eq_flows settle exDiv cf l px df hs

/-- C07 price_from_curve_eq_pv (full statement, true since fix dd7e86d): `dirty_price_from_discount_curve` =
Σ (flows the buyer receives) × df / df(settle) × par for every schedule with increasing coupon dates whose
last date is after settlement, ex-dividend or not, in any coupon period. `sched` = coupon dates after the
issue date with their discount factors, `first` = the issue-date entry. -/
theorem price_from_curve_eq_pv
    (first : Int × ℝ) (sched : List (Int × ℝ)) (settle : Int) (exDiv : Bool) (dfSettle c f : ℝ)
    (hne : sched ≠ []) (hinc : (sched.map (·.1)).Pairwise (· < ·))
    (hlast : ∀ x ∈ sched.getLast?, x.1 > settle) :
    dirtyPriceFromCurve (first :: sched) settle exDiv dfSettle c f
      = .ok (priceOnCurve sched settle exDiv dfSettle c f) := by
  cases sched with
  | nil => exact absurd rfl hne
  | cons h t =>
    have hL := lastDfAfter_eq_lastDf settle (h :: t) 1 (by simp) hlast
    have hloop := curveLoop_eq_flows settle exDiv (c / f) (h :: t) 0 1 hinc
    simp only [dirtyPriceFromCurve, priceOnCurve, ncdDate, List.map_cons, List.tail_cons]
    simp only [List.map_cons] at hloop
    rw [hloop, hL]
    simp

/-- C07 (fixed dd7e86d; was the witness of `C07/curve-price-exdiv-later-period`): three coupon dates 10, 20,
30 after issue at 0, settlement at day 19 inside the ex-dividend window of the coupon at 20, flat df = 1,
coupon 1 per period: the buyer receives the coupon at 30 and the principal — 2 per unit, 200 per 100. -/
theorem curve_price_exdiv_later_period_fixed :
    dirtyPriceFromCurve [((0 : Int), (1 : ℝ)), (10, 1), (20, 1), (30, 1)] 19 true 1 1 1 = .ok 200 := by
  rw [price_from_curve_eq_pv (0, 1) [(10, 1), (20, 1), (30, 1)] 19 true 1 1 1 (by simp) (by simp) (by simp)]
  norm_num [priceOnCurve, curveFlows, lastDf]

/-! ### Position of settlement in the schedule (integer logic, any schedule) -/

/-- C07: `_calc_pcd_ncd` picks the first coupon date strictly after settlement: `ncd = cpn_dts[i] >
settle`, every earlier coupon date `cpn_dts[1..i-1] ≤ settle` (so `pcd = cpn_dts[i-1] ≤ settle` when
`i ≥ 2`; for `i = 1` the previous date is the issue date). A coupon paid on the settlement date goes to
the seller. -/
theorem ncdIndex_spec (dates : List Int) (settle : Int) (i : Nat) (h : ncdIndex dates settle = some i) :
    1 ≤ i ∧ i < dates.length ∧ (∀ d ∈ dates[i]?, d > settle) ∧
      ∀ k, 1 ≤ k → k < i → ∀ d ∈ dates[k]?, d ≤ settle := by
  cases dates with
  | nil => simp [ncdIndex, ncdGo] at h
  | cons d0 t =>
    simp only [ncdIndex, List.tail_cons] at h
    obtain ⟨h1, h2, h3, h4⟩ := ncdGo_spec settle t 1 i h
    refine ⟨h1, by simp; omega, ?_, ?_⟩
    · have : i = (i - 1) + 1 := by omega
      rw [this]; simpa using h3
    · intro k hk1 hki dd hdd
      have : k = (k - 1) + 1 := by omega
      rw [this] at hdd
      exact h4 (k - 1) (by omega) dd (by simpa using hdd)

/-- C07: on a coupon date the NEXT period starts: if `settle = cpn_dts[j]` (j ≥ 1, dates increasing)
then the next coupon date found is after it — accrual restarts, `pcd = settle`. -/
theorem ncdIndex_on_coupon_date (dates : List Int) (settle : Int) (i : Nat)
    (h : ncdIndex dates settle = some i) : ∀ d ∈ dates[i]?, d ≠ settle := by
  intro d hd
  have := (ncdIndex_spec dates settle i h).2.2.1 d hd
  omega

/-- C07: for an increasing schedule with settlement on or after the issue date, the `n` of
`dirty_price_from_ytm` (dates after settlement, minus one) is the number of coupon dates after the
next coupon date found by `_calc_pcd_ncd`: `n = len(cpn_dts) − 1 − i`. -/
theorem flowsAfter_eq_coupons_after_next (dates : List Int) (settle : Int) (i : Nat)
    (hs : dates.Pairwise (· < ·)) (h0 : ∀ d ∈ dates.head?, d ≤ settle)
    (h : ncdIndex dates settle = some i) :
    flowsAfter dates settle = (dates.length : Int) - 1 - i := by
  cases dates with
  | nil => simp [ncdIndex, ncdGo] at h
  | cons d0 t =>
    have hd0 : ¬ d0 > settle := by have := h0 d0 (by simp); omega
    simp only [ncdIndex, List.tail_cons] at h
    have hst := (List.pairwise_cons.mp hs)
    have hc := ncdGo_count settle t 1 i hst.2 h
    have hle := (ncdGo_spec settle t 1 i h).1
    simp only [flowsAfter, List.filter_cons, hd0, decide_false, Bool.false_eq_true, if_false, hc,
      List.length_cons]
    push_cast
    omega

/-! ### Monotonicity in yield (termwise on the cash-flow sum) and the yield round trip -/

/-- C07 price_strictAnti_in_yield: the UK-DMO / street / CFETS compound cash-flow sum is STRICTLY
decreasing in the yield on `y > −f`, for non-negative coupon, any n, `0 ≤ α`, provided some payment
lies strictly in the future (`α > 0` or `n > 0`). Termwise: every discount factor `v^k·v^α` is
monotone in `v`, the principal's strictly, and `v = 1/(1+y/f)` is strictly decreasing in `y`. -/
theorem price_strictAnti_in_yield (n : ℕ) (c f a aY pay y y' : ℝ)
    (hc : 0 ≤ c) (hf : 0 < f) (ha : 0 ≤ a) (hpay : 0 ≤ pay) (hpos : 0 < a ∨ 0 < n)
    (hy : -f < y) (hlt : y < y') :
    dirtyPerUnit .ukDmo n c f y' a aY pay < dirtyPerUnit .ukDmo n c f y a aY pay := by
  have hv' := v_pos y' f hf (by linarith)
  have hvv := v_strictAnti y y' f hf hy hlt
  have := pvOfV_strictMono n (c / f) a pay (by positivity) ha hpay hpos _ _ hv' hvv
  simpa only [dirtyPerUnit, discount, sumTo_eq_sum, ipow_real, fpow_real, pvOfV] using this

/-- C07 ytm_roundtrip_of_postcondition: if the root finder in `yield_to_maturity` returns `y'` with
`dirty(y') = clean + accrued` (its postcondition, checked per case by the harness) and `clean` was
produced by `clean_price_from_ytm(y)`, then `y' = y` — the price/yield map is injective on `y > −f`.
Stated on the cash-flow sum to which the coded formula is equal (`closed_form_eq_cashflow_sum_partial`). -/
theorem ytm_roundtrip_of_postcondition (n : ℕ) (c f a aY pay y y' accrued clean : ℝ)
    (hc : 0 ≤ c) (hf : 0 < f) (ha : 0 ≤ a) (hpay : 0 ≤ pay) (hpos : 0 < a ∨ 0 < n)
    (hy : -f < y) (hy' : -f < y')
    (hclean : clean = dirtyPrice .ukDmo n c f y a aY pay - accrued)
    (hpost : dirtyPrice .ukDmo n c f y' a aY pay = clean + accrued) : y' = y := by
  have heq : dirtyPerUnit .ukDmo n c f y' a aY pay = dirtyPerUnit .ukDmo n c f y a aY pay := by
    have : dirtyPrice .ukDmo n c f y' a aY pay = dirtyPrice .ukDmo n c f y a aY pay := by
      rw [hpost, hclean]; ring
    simpa [dirtyPrice] using this
  rcases lt_trichotomy y' y with h | h | h
  · exact absurd heq (ne_of_gt (price_strictAnti_in_yield n c f a aY pay y' y hc hf ha hpay hpos hy' h))
  · exact h
  · exact absurd heq (ne_of_lt (price_strictAnti_in_yield n c f a aY pay y y' hc hf ha hpay hpos hy h))

/-- C07: with a solver residual `ε` instead of exactness, the repriced CLEAN price is within `ε` of the
input clean price (what `yield_to_maturity`'s caller relies on). -/
theorem clean_reprice_within_residual (dirtyAtRoot accrued clean ε : ℝ)
    (hpost : |dirtyAtRoot - (clean + accrued)| ≤ ε) : |(dirtyAtRoot - accrued) - clean| ≤ ε := by
  have : dirtyAtRoot - accrued - clean = dirtyAtRoot - (clean + accrued) := by ring
  rw [this]; exact hpost

/-! ### Bump-and-reprice risk measures, as coded -/

/-- C07: Macaulay duration = modified duration × (1 + y/f), as coded (same `dd`, same `fp`). -/
theorem macauley_eq_modified_times (P : ℝ → ℝ) (y f : ℝ) :
    macauleyDuration P y f = modifiedDuration P y * (1 + y / f) := by
  simp only [macauleyDuration, modifiedDuration]; ring

/-- C07: the dollar-duration bump formula has the right scaling and sign: on an affine price function
it returns exactly minus the slope. -/
theorem dollarDuration_affine (p0 s y : ℝ) : dollarDuration (fun x => p0 + s * x) y = -s := by
  simp only [dollarDuration, bumpDy_real]; norm_num; ring

/-- C07: on a quadratic price function the dollar duration is exactly `−P'(y)` (central difference). -/
theorem dollarDuration_quadratic (p0 s q y : ℝ) :
    dollarDuration (fun x => p0 + s * x + q * x ^ 2) y = -(s + 2 * q * y) := by
  simp only [dollarDuration, bumpDy_real]; norm_num; ring

/-- C07: the convexity bump formula returns exactly `P''(y) / P(y) / par` on a quadratic price function
(second central difference; scaling `dy²`). -/
theorem convexity_quadratic (p0 s q y : ℝ) :
    convexity (fun x => p0 + s * x + q * x ^ 2) y = 2 * q / (p0 + s * y + q * y ^ 2) / 100 := by
  simp only [convexity, bumpDy_real]
  have h : ((p0 + s * (y + 0.0001) + q * (y + 0.0001) ^ 2) + (p0 + s * (y - 0.0001) + q * (y - 0.0001) ^ 2)
      - 2 * (p0 + s * y + q * y ^ 2)) / 0.0001 / 0.0001 = 2 * q := by
    norm_num; ring
  rw [h]

/-! ### Zero-coupon bond, annuity, FRN -/

/-- C07: zero-coupon bond, money-market branch: the price is the principal discounted at simple yield
over the remaining time, i.e. `price × (1 + y·t) = par`. -/
theorem zero_simple_reprices_par (ytm t : ℝ) (h : 1 + (ytm + 1.2345e-11) * t ≠ 0) :
    zeroDirty ytm t true * (1 + (ytm + 1.2345e-11) * t) = 100 := by
  simp only [zeroDirty, ytmShift, if_true]
  field_simp

/-- C07: zero-coupon bond, compound branch: `price × (1+y)^t = par`. -/
theorem zero_compound_reprices_par (ytm t : ℝ) (h : 0 < 1 + (ytm + 1.2345e-11)) :
    zeroDirty ytm t false * (1 + (ytm + 1.2345e-11)) ^ t = 100 := by
  simp only [zeroDirty, ytmShift, Bool.false_eq_true, if_false, powF_real]
  have : (1 + (ytm + 1.2345e-11)) ^ t ≠ 0 := (Real.rpow_pos_of_pos h t).ne'
  field_simp

/-- C07: zero-coupon accrued is the linear accretion of the issue discount: 0 at issue, the whole
discount (per `face`) at maturity. -/
theorem zero_accrued_endpoints (den issuePrice face : ℝ) (hden : den ≠ 0) :
    zeroAccrued 0 den issuePrice face = 0 ∧
      zeroAccrued den den issuePrice face = (100 - issuePrice) / 100 * face := by
  constructor
  · simp [zeroAccrued]
  · simp only [zeroAccrued]; field_simp

/-- C07 (full statement, true since fix 211a9f6; was `C07/zero-curve-price-par-squared`): the zero-coupon
bond's price on a curve is the discounted principal per 100 face. -/
theorem zero_curve_price_eq_pv (dfMat dfSettle : ℝ) :
    zeroDirtyFromCurve dfMat dfSettle = dfMat / dfSettle * 100 := by
  simp only [zeroDirtyFromCurve]; ring

/-- C07: on a flat curve with df = 1 the zero-coupon bond is worth par. -/
theorem zero_curve_price_flat : zeroDirtyFromCurve (1 : ℝ) 1 = 100 := by
  norm_num [zeroDirtyFromCurve]

/-- sum of annuity flows × df -/
def annuitySum (cpn : ℝ) : List (ℝ × ℝ) → ℝ
  | [] => 0
  | (a, df) :: rest => cpn * a * df + annuitySum cpn rest

/-- C07: the annuity loop is the sum of its flows `cpn × year fraction` times their discount factors. -/
theorem annuity_eq_sum (cpn : ℝ) (l : List (ℝ × ℝ)) : annuityDirty cpn l = annuitySum cpn l * 100 := by
  have h : ∀ (l : List (ℝ × ℝ)) (pv : ℝ), annuityLoop cpn l pv = pv + annuitySum cpn l := by
    intro l
    induction l with
    | nil => intro pv; simp [annuityLoop, annuitySum]
    | cons x t ih =>
      intro pv
      obtain ⟨a, df⟩ := x
      simp only [annuityLoop, annuitySum, ih]; ring
  simp only [annuityDirty, h]; ring

/-- C07: FRN dirty = clean + accrued in its own terms (accrued = accrual factor × next coupon × par). -/
theorem frn_dirty_eq_clean_plus_accrued (dirty accFactor nextCpn : ℝ) :
    dirty = frnClean dirty accFactor nextCpn + accFactor * nextCpn * 100 := by
  simp only [frnClean]; ring

/-- C07: an FRN whose coupons equal the discounting rate reprices to par on a coupon date: with zero quoted
margin and zero discount margin, next coupon = current index, full first period (`alpha0 = alpha1`),
every later period telescopes — for ANY list of period lengths. -/
theorem frn_par_on_reset (alpha0 ibor fut : ℝ) (alphas : List ℝ)
    (h0 : 1 + alpha0 * ibor ≠ 0) (hpos : ∀ a ∈ alphas, 1 + a * fut ≠ 0) :
    frnDirty alpha0 alpha0 ibor ibor fut 0 0 alphas = 100 := by
  have hloop : ∀ (l : List ℝ) (pv df : ℝ), (∀ a ∈ l, 1 + a * fut ≠ 0) →
      (frnLoop fut 0 0 l (pv, df)).1 + (frnLoop fut 0 0 l (pv, df)).2 = pv + df := by
    intro l
    induction l with
    | nil => intro pv df _; simp [frnLoop]
    | cons a t ih =>
      intro pv df hl
      have ha : 1 + a * fut ≠ 0 := hl a (by simp)
      have ha' : 1 + fut * a ≠ 0 := by rw [mul_comm]; exact ha
      simp only [frnLoop]
      rw [ih _ _ (fun b hb => hl b (by simp [hb]))]
      simp only [add_zero]
      field_simp
      ring
  have h0' : 1 + ibor * alpha0 ≠ 0 := by rw [mul_comm]; exact h0
  simp only [frnDirty]
  have := hloop alphas (ibor * alpha0 * (1 / (1 + alpha0 * (ibor + 0)))) (1 / (1 + alpha0 * (ibor + 0))) hpos
  rw [this]
  simp only [add_zero]
  field_simp
  ring

end FinVerif.Props.C07
