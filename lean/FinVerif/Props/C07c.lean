/-
  C07 (part c, growth) — the risk measures are derivatives of the price: derivative in the yield of a
  compound discount factor and of any finite sum of compounded flows; with `dd = −P'(y)` the coded Macaulay
  formula `dd·(1+y/f)/P` is the PV-weighted mean payment time.  (The coded `dd` is the central difference
  with dy = 1e-4 of the coded price; its agreement with `−P'` is validated per case by the harness, and
  `dollarDuration_quadratic` shows the difference formula has no scaling error.)
-/
import FinVerif.Props.C07b
import Mathlib.Analysis.SpecialFunctions.Pow.Deriv

namespace FinVerif.Props.C07
open FinVerif FinVerif.Model.C07 FinVerif.Spec.C07 FinVerif.Lemmas.C07

/-- C07: derivative in the yield of one compound discount factor `v(y)^t`, `v = 1/(1+y/f)` -/
theorem hasDerivAt_discount (f t y : ℝ) (hf : f ≠ 0) (hpos : 0 < 1 + y / f) :
    HasDerivAt (fun y => (1 / (1 + y / f)) ^ t) (-(t / f) * (1 / (1 + y / f)) ^ (t + 1)) y := by
  have hg : HasDerivAt (fun y : ℝ => 1 / (1 + y / f)) (-(1 / f) / (1 + y / f) ^ 2) y := by
    have h1 : HasDerivAt (fun y : ℝ => 1 + y / f) (1 / f) y := by
      simpa using ((hasDerivAt_id y).div_const f).const_add 1
    have h2 : HasDerivAt (fun y : ℝ => (1 + y / f)⁻¹) (-(1 / f) / (1 + y / f) ^ 2) y := h1.inv hpos.ne'
    simpa only [one_div] using h2
  have hv : 0 < 1 / (1 + y / f) := by positivity
  have := hg.rpow_const (p := t) (Or.inl hv.ne')
  convert this using 1
  rw [Real.rpow_add hv, Real.rpow_sub hv, Real.rpow_one]
  field_simp

/-- C07 duration_is_derivative: a price that is a sum of flows `A k` paid `T k` periods ahead, compounded at
`v = 1/(1+y/f)`, has derivative `−(1/f) Σ A_k T_k v^(T_k+1)` in the yield (any number of flows). -/
theorem duration_is_derivative (n : ℕ) (A T : ℕ → ℝ) (f y : ℝ) (hf : f ≠ 0) (hpos : 0 < 1 + y / f) :
    HasDerivAt (fun y => ∑ k ∈ Finset.range n, A k * (1 / (1 + y / f)) ^ (T k))
      (-(1 / f) * ∑ k ∈ Finset.range n, A k * T k * (1 / (1 + y / f)) ^ (T k + 1)) y := by
  have h := HasDerivAt.fun_sum (u := Finset.range n)
    (fun k _ => (hasDerivAt_discount f (T k) y hf hpos).const_mul (A k))
  refine h.congr_deriv ?_
  rw [Finset.mul_sum]
  apply Finset.sum_congr rfl
  intro k _
  ring

/-- C07 macaulay_is_pv_weighted_time: with `dd = −P'(y)` the coded formula `dd·(1+y/f)/P` is the
PV-weighted mean payment time in years, `(1/f)·Σ T_k·A_k v^(T_k) / P` — the Macaulay duration. -/
theorem macaulay_is_pv_weighted_time (n : ℕ) (A T : ℕ → ℝ) (f y : ℝ) (hpos : 0 < 1 + y / f) (P : ℝ) :
    -(-(1 / f) * ∑ k ∈ Finset.range n, A k * T k * (1 / (1 + y / f)) ^ (T k + 1)) * (1 + y / f) / P
      = (1 / f) * (∑ k ∈ Finset.range n, T k * (A k * (1 / (1 + y / f)) ^ (T k))) / P := by
  have hv : 0 < 1 / (1 + y / f) := by positivity
  have hsum : (∑ k ∈ Finset.range n, A k * T k * (1 / (1 + y / f)) ^ (T k + 1)) * (1 + y / f)
      = ∑ k ∈ Finset.range n, T k * (A k * (1 / (1 + y / f)) ^ (T k)) := by
    rw [Finset.sum_mul]
    apply Finset.sum_congr rfl
    intro k _
    rw [Real.rpow_add hv, Real.rpow_one]
    field_simp
  rw [← hsum]
  ring
end FinVerif.Props.C07
