/-
  C07 (part d) — the GENERATED bond formulas (`Gen/BondR.lean`, translated from `bond.py`, `bond_zero.py`,
  `bond_frn.py`, `bond_annuity.py` on every run) are the hand-written model the theorems of parts a–c are
  about, branch by branch; hence every YTMCalcType branch AS CODED is the explicit cash-flow sum, dirty =
  clean + accrued holds of the generated text, and the bump formulas of the generated risk measures are the
  modelled ones.
-/
import FinVerif.Props.C07c
import FinVerif.Lemmas.C07Calc
import FinVerif.Gen.BondR

set_option linter.unusedSimpArgs false
set_option linter.unusedVariables false

namespace FinVerif.Props.C07
open FinVerif FinVerif.Model.C07 FinVerif.Spec.C07 FinVerif.Lemmas.C07
open FinVerif.Gen.BondR

/-! ### `Bond.dirty_price_from_ytm`, generated = model -/

/-- C07 (tie, generated ⇒ model): the translation of `Bond.dirty_price_from_ytm` IS the hand model, in every
YTMCalcType branch (`n == 0` and `n ≥ 1`), with the ex-dividend test, the `+1.2345e-11` shift, `× par` and the
three `raise FinError` exits, for every number `nd` of schedule dates after settlement. -/
theorem gen_dirty_price_eq_model (settle exdt : Int) (ytm f aCf alpha c : ℝ) (conv : Nat) (nd : Int) :
    bond_dirty_price_from_ytm settle ytm (conv : Int) nd f aCf alpha c 100 exdt
      = dirtyPriceFromYtm conv (nd - 1) c f ytm alpha (payFirst (decide (settle > exdt))) aCf := by
  have hpay : (if decide (settle > exdt) = true then (0 : ℝ) else 1) = payFirst (decide (settle > exdt)) := by
    simp [payFirst]
  by_cases hn : nd - 1 < 0
  · -- no coupon left
    have h1 : dirtyPriceFromYtm conv (nd - 1) c f ytm alpha (payFirst (decide (settle > exdt))) aCf
        = .error .finError := by
      simp only [dirtyPriceFromYtm]; split
      · rfl
      · simp [hn]
    rw [h1]
    simp only [bond_dirty_price_from_ytm, decide_eq_true_eq, if_pos hn]
    split <;> rfl
  · obtain ⟨m, hm⟩ : ∃ m : ℕ, nd - 1 = (m : Int) := ⟨(nd - 1).toNat, by omega⟩
    have hnd : nd = (m : Int) + 1 := by omega
    subst hnd
    have hm' : ((m : Int) + 1 - 1) = (m : Int) := by omega
    match conv with
    | 0 =>
      simp [bond_dirty_price_from_ytm, dirtyPriceFromYtm]
    | 1 =>
      rcases Nat.eq_zero_or_pos m with h0 | hpos
      · subst h0
        simp [bond_dirty_price_from_ytm, dirtyPriceFromYtm, dirtyCore, ytmShift, payFirst]
      · obtain ⟨k, rfl⟩ : ∃ k, m = k + 1 := ⟨m - 1, by omega⟩
        have e1 : Real.rpow (1 / (1 + (ytm + 1.2345e-11) / f)) ((((k + 1 : ℕ) : Int) + 1 - 1 - 1 : Int) : ℝ)
            = (1 / (1 + (ytm + 1.2345e-11) / f)) ^ k := by
          have : (((k + 1 : ℕ) : Int) + 1 - 1 - 1 : Int) = (k : Int) := by push_cast; omega
          rw [this]; exact rpow_int_nat _ k
        have e2 : Real.rpow (1 / (1 + (ytm + 1.2345e-11) / f)) ((((k + 1 : ℕ) : Int) + 1 - 1 : Int) : ℝ)
            = (1 / (1 + (ytm + 1.2345e-11) / f)) ^ (k + 1) := by
          have : (((k + 1 : ℕ) : Int) + 1 - 1 : Int) = ((k + 1 : ℕ) : Int) := by omega
          rw [this]; exact rpow_int_nat _ (k + 1)
        have hne : ¬ (((k + 1 : ℕ) : Int) + 1 - 1 = 0) := by push_cast; omega
        have hge : ¬ (((k + 1 : ℕ) : Int) + 1 - 1 < 0) := by push_cast; omega
        simp only [bond_dirty_price_from_ytm, dirtyPriceFromYtm, dirtyCore, terms, ytmShift, hpay,
          decide_eq_true_eq, hne, hge, e1, e2, if_false, Int.toNat_natCast, powN_real, powF_real]
        by_cases hx : exdt < settle <;> simp [payFirst, hx]
    | 2 =>
      rcases Nat.eq_zero_or_pos m with h0 | hpos
      · subst h0
        simp [bond_dirty_price_from_ytm, dirtyPriceFromYtm, dirtyCore, ytmShift, payFirst]
      · obtain ⟨k, rfl⟩ : ∃ k, m = k + 1 := ⟨m - 1, by omega⟩
        have e1 : Real.rpow (1 / (1 + (ytm + 1.2345e-11) / f)) ((((k + 1 : ℕ) : Int) + 1 - 1 - 1 : Int) : ℝ)
            = (1 / (1 + (ytm + 1.2345e-11) / f)) ^ k := by
          have : (((k + 1 : ℕ) : Int) + 1 - 1 - 1 : Int) = (k : Int) := by push_cast; omega
          rw [this]; exact rpow_int_nat _ k
        have e2 : Real.rpow (1 / (1 + (ytm + 1.2345e-11) / f)) ((((k + 1 : ℕ) : Int) + 1 - 1 : Int) : ℝ)
            = (1 / (1 + (ytm + 1.2345e-11) / f)) ^ (k + 1) := by
          have : (((k + 1 : ℕ) : Int) + 1 - 1 : Int) = ((k + 1 : ℕ) : Int) := by omega
          rw [this]; exact rpow_int_nat _ (k + 1)
        have hne : ¬ (((k + 1 : ℕ) : Int) + 1 - 1 = 0) := by push_cast; omega
        have hge : ¬ (((k + 1 : ℕ) : Int) + 1 - 1 < 0) := by push_cast; omega
        simp only [bond_dirty_price_from_ytm, dirtyPriceFromYtm, dirtyCore, terms, ytmShift, hpay,
          decide_eq_true_eq, hne, hge, e1, e2, if_false, Int.toNat_natCast, powN_real, powF_real]
        by_cases hx : exdt < settle <;> simp [payFirst, hx]
    | 3 =>
      rcases Nat.eq_zero_or_pos m with h0 | hpos
      · subst h0
        simp [bond_dirty_price_from_ytm, dirtyPriceFromYtm, dirtyCore, ytmShift, payFirst]
      · obtain ⟨k, rfl⟩ : ∃ k, m = k + 1 := ⟨m - 1, by omega⟩
        have e1 : Real.rpow (1 / (1 + (ytm + 1.2345e-11) / f)) ((((k + 1 : ℕ) : Int) + 1 - 1 - 1 : Int) : ℝ)
            = (1 / (1 + (ytm + 1.2345e-11) / f)) ^ k := by
          have : (((k + 1 : ℕ) : Int) + 1 - 1 - 1 : Int) = (k : Int) := by push_cast; omega
          rw [this]; exact rpow_int_nat _ k
        have e2 : Real.rpow (1 / (1 + (ytm + 1.2345e-11) / f)) ((((k + 1 : ℕ) : Int) + 1 - 1 : Int) : ℝ)
            = (1 / (1 + (ytm + 1.2345e-11) / f)) ^ (k + 1) := by
          have : (((k + 1 : ℕ) : Int) + 1 - 1 : Int) = ((k + 1 : ℕ) : Int) := by omega
          rw [this]; exact rpow_int_nat _ (k + 1)
        have hne : ¬ (((k + 1 : ℕ) : Int) + 1 - 1 = 0) := by push_cast; omega
        have hge : ¬ (((k + 1 : ℕ) : Int) + 1 - 1 < 0) := by push_cast; omega
        simp only [bond_dirty_price_from_ytm, dirtyPriceFromYtm, dirtyCore, terms, ytmShift, hpay,
          decide_eq_true_eq, hne, hge, e1, e2, if_false, Int.toNat_natCast, powN_real, powF_real]
        by_cases hx : exdt < settle <;> simp [payFirst, hx]
    | 4 =>
      rcases Nat.eq_zero_or_pos m with h0 | hpos
      · subst h0
        simp [bond_dirty_price_from_ytm, dirtyPriceFromYtm, dirtyCore, ytmShift, payFirst]
      · obtain ⟨k, rfl⟩ : ∃ k, m = k + 1 := ⟨m - 1, by omega⟩
        have e1 : Real.rpow (1 / (1 + (ytm + 1.2345e-11) / f)) ((((k + 1 : ℕ) : Int) + 1 - 1 - 1 : Int) : ℝ)
            = (1 / (1 + (ytm + 1.2345e-11) / f)) ^ k := by
          have : (((k + 1 : ℕ) : Int) + 1 - 1 - 1 : Int) = (k : Int) := by push_cast; omega
          rw [this]; exact rpow_int_nat _ k
        have e2 : Real.rpow (1 / (1 + (ytm + 1.2345e-11) / f)) ((((k + 1 : ℕ) : Int) + 1 - 1 : Int) : ℝ)
            = (1 / (1 + (ytm + 1.2345e-11) / f)) ^ (k + 1) := by
          have : (((k + 1 : ℕ) : Int) + 1 - 1 : Int) = ((k + 1 : ℕ) : Int) := by omega
          rw [this]; exact rpow_int_nat _ (k + 1)
        have hne : ¬ (((k + 1 : ℕ) : Int) + 1 - 1 = 0) := by push_cast; omega
        have hge : ¬ (((k + 1 : ℕ) : Int) + 1 - 1 < 0) := by push_cast; omega
        simp only [bond_dirty_price_from_ytm, dirtyPriceFromYtm, dirtyCore, terms, ytmShift, hpay,
          decide_eq_true_eq, hne, hge, e1, e2, if_false, Int.toNat_natCast, powN_real, powF_real]
        by_cases hx : exdt < settle <;> simp [payFirst, hx]
    | (j + 5) =>
      have hj : ¬ (((j + 5 : ℕ) : Int) = 0) := by push_cast; omega
      have h1 : ¬ (((j + 5 : ℕ) : Int) = 1) := by push_cast; omega
      have h2 : ¬ (((j + 5 : ℕ) : Int) = 2) := by push_cast; omega
      have h3 : ¬ (((j + 5 : ℕ) : Int) = 3) := by push_cast; omega
      have h4 : ¬ (((j + 5 : ℕ) : Int) = 4) := by push_cast; omega
      have hgt : (j + 5 = 0 ∨ j + 5 > 4) := Or.inr (by omega)
      simp only [bond_dirty_price_from_ytm, dirtyPriceFromYtm, decide_eq_true_eq, hj, h1, h2, h3, h4, if_false,
        hgt, if_true]
      split <;> rfl

/-- C07: every YTMCalcType branch of the GENERATED `dirty_price_from_ytm` is `par ×` the explicit cash-flow sum
`Σ_{k=0..n} (c/f)[k=0 → pay_first_cpn]·D(k) + D(n)` of the convention at the shifted yield, for every number
`n : ℕ` of coupons after the next one, outside the one last-period exception (US_TREASURY, `n = 0`: there the
code compounds, `us_treasury_last_period_eq_compound`) and the point `v = 1` where the closed form divides by 0. -/
theorem gen_dirty_price_eq_cashflow_sum (settle exdt : Int) (ytm f aCf alpha c : ℝ) (code : Nat) (conv : Conv)
    (n : ℕ) (hc : convOf code = some conv) (hv : (1 / (1 + (ytm + 1.2345e-11) / f) : ℝ) ≠ 1)
    (hx : ¬ LastPeriodException code n) :
    bond_dirty_price_from_ytm settle ytm (code : Int) ((n : Int) + 1) f aCf alpha c 100 exdt
      = .ok (dirtyPrice conv n c f (ytm + 1.2345e-11) alpha aCf (payFirst (decide (settle > exdt)))) := by
  rw [gen_dirty_price_eq_model]
  have : ((n : Int) + 1 - 1) = (n : Int) := by omega
  rw [this]
  exact dirty_price_from_ytm_eq_cashflow_sum code conv n c f ytm alpha aCf _ hc hv hx

/-- non-vacuity: US_STREET, 7 coupons after the next, 5 % semi-annual, 4 % yield, cum-dividend -/
example : ∃ p : ℝ, bond_dirty_price_from_ytm 100 0.04 2 8 2 0 0.4 0.05 100 200 = .ok p := by
  refine ⟨_, gen_dirty_price_eq_cashflow_sum 100 200 0.04 2 0 0.4 0.05 2 .usStreet 7 rfl ?_ ?_⟩
  · norm_num
  · simp [LastPeriodException]

/-- C07: the generated US_TREASURY last period (`n = 0`) is the COMPOUND sum (known finding
`C07/us-treasury-last-period-compounding`), stated of the generated text. -/
theorem gen_us_treasury_last_period_compound (settle exdt : Int) (ytm f aCf alpha c : ℝ) :
    bond_dirty_price_from_ytm settle ytm 3 1 f aCf alpha c 100 exdt
      = .ok (dirtyPrice .ukDmo 0 c f (ytm + 1.2345e-11) alpha aCf (payFirst (decide (settle > exdt)))) := by
  have h := gen_dirty_price_eq_model settle exdt ytm f aCf alpha c 3 1
  simp only [Nat.cast_ofNat] at h
  rw [h]
  simp only [dirtyPriceFromYtm, ytmShift, dirtyPrice]
  norm_num
  rw [us_treasury_last_period_eq_compound]

/-- C07: the generated function rejects exactly: convention ZERO / unknown, or no coupon date after settlement. -/
theorem gen_dirty_price_errors (settle exdt : Int) (ytm f aCf alpha c : ℝ) (conv : Nat) (nd : Int)
    (h : conv = 0 ∨ conv > 4 ∨ nd < 1) :
    bond_dirty_price_from_ytm settle ytm (conv : Int) nd f aCf alpha c 100 exdt = .error .finError := by
  rw [gen_dirty_price_eq_model]
  simp only [dirtyPriceFromYtm]
  rcases h with h | h | h
  · simp [h]
  · have : conv = 0 ∨ conv > 4 := Or.inr h
    simp [this]
  · split
    · rfl
    · have : nd - 1 < 0 := by omega
      simp [this]

/-! ### `Bond.accrued_interest` / `clean_price_from_ytm`, generated = model -/

/-- C07 (tie): generated `accrued_interest` (return value) = model, incl. the ex-dividend branch. -/
theorem gen_accrued_eq_model (settle exdt : Int) (face accf f c : ℝ) :
    bond_accrued_interest settle face accf f c exdt
      = (accruedInterest accf f c face (decide (settle > exdt))).accrued := by
  by_cases h : settle > exdt <;> simp [bond_accrued_interest, accruedInterest, h]

/-- C07 (tie): the `self.alpha` the generated `accrued_interest` leaves = model; independent of `face` and of
the ex-dividend test. -/
theorem gen_alpha_eq_model (settle exdt : Int) (face accf f c : ℝ) :
    bond_alpha settle face accf f c exdt = (accruedInterest accf f c face (decide (settle > exdt))).alpha := by
  simp [bond_alpha, accruedInterest]

/-- C07: inside the ex-dividend window the generated accrued is EXACTLY `(acc_factor − 1/f)·c·face` — the
(negative) part of the coupon the buyer will not receive; outside it is `acc_factor·c·face`. -/
theorem gen_accrued_exdiv_exact (settle exdt : Int) (face accf f c : ℝ) :
    (settle > exdt → bond_accrued_interest settle face accf f c exdt = (accf - 1 / f) * (c * face)) ∧
    (¬ settle > exdt → bond_accrued_interest settle face accf f c exdt = accf * (c * face)) := by
  constructor <;> intro h <;> simp [bond_accrued_interest, h]

/-- C07: cum-dividend minus ex-dividend accrued = exactly one coupon `c/f × face` (the jump at the ex-dividend
date), for every day-count fraction. -/
theorem gen_accrued_exdiv_jump (s1 s2 exdt : Int) (face accf f c : ℝ) (h1 : ¬ s1 > exdt) (h2 : s2 > exdt) :
    bond_accrued_interest s1 face accf f c exdt - bond_accrued_interest s2 face accf f c exdt = c / f * face := by
  simp [bond_accrued_interest, h1, h2]; ring

/-- C07 (tie): the generated `clean_price_from_ytm` fed with the generated dirty price (state `alpha` from the
`accrued_interest(settle, 1.0)` call inside it) and the generated accrued for `par` = the model's clean price. -/
theorem gen_clean_eq_model (settle exdt : Int) (ytm f aCf accf c : ℝ) (conv : Nat) (nd : Int) :
    (match bond_dirty_price_from_ytm settle ytm (conv : Int) nd f aCf (bond_alpha settle 1 accf f c exdt) c 100 exdt with
      | .ok dp => Except.ok (bond_clean_price_from_ytm dp (bond_accrued_interest settle 100 accf f c exdt))
      | .error e => .error e)
      = cleanPriceFromYtm conv (nd - 1) c f ytm accf aCf (decide (settle > exdt)) := by
  rw [gen_dirty_price_eq_model, gen_alpha_eq_model, gen_accrued_eq_model]
  simp only [cleanPriceFromYtm, bond_clean_price_from_ytm]
  split <;> rename_i h <;> simp [h]

/-- C07 dirty = clean + accrued, of the GENERATED text: whatever dirty price and accrued the calls return,
`clean_price_from_ytm` returns their difference. -/
theorem gen_dirty_eq_clean_plus_accrued (dp acc : ℝ) :
    dp = bond_clean_price_from_ytm dp acc + acc := by
  simp [bond_clean_price_from_ytm]

/-- C07: the clean price is continuous across a coupon date in the following sense — the generated clean price
depends on settlement only through `dp` and `acc`; on a coupon date (`acc_factor = 0`, cum-dividend) clean = dirty. -/
theorem gen_clean_eq_dirty_on_coupon_date (settle exdt : Int) (dp f c : ℝ) (h : ¬ settle > exdt) :
    bond_clean_price_from_ytm dp (bond_accrued_interest settle 100 0 f c exdt) = dp := by
  simp [bond_clean_price_from_ytm, bond_accrued_interest, h]

/-! ### Risk measures, generated = model -/

/-- C07 (tie): generated `dollar_duration` = the model's bump formula. -/
theorem gen_dollar_duration_eq_model (P : ℝ → ℝ) (y : ℝ) :
    bond_dollar_duration (P (y - 0.0001)) (P (y + 0.0001)) = dollarDuration P y := by
  simp only [bond_dollar_duration, dollarDuration, bumpDy_real]

/-- C07 (tie): generated `modified_duration` / `macauley_duration` / `convexity_from_ytm` = model. -/
theorem gen_modified_duration_eq_model (P : ℝ → ℝ) (y : ℝ) :
    bond_modified_duration (bond_dollar_duration (P (y - 0.0001)) (P (y + 0.0001))) (P y) = modifiedDuration P y := by
  simp only [bond_modified_duration, modifiedDuration, gen_dollar_duration_eq_model]

theorem gen_macauley_duration_eq_model (P : ℝ → ℝ) (y f : ℝ) :
    bond_macauley_duration y (bond_dollar_duration (P (y - 0.0001)) (P (y + 0.0001))) (P y) f
      = macauleyDuration P y f := by
  simp only [bond_macauley_duration, macauleyDuration, gen_dollar_duration_eq_model]

theorem gen_convexity_eq_model (P : ℝ → ℝ) (y : ℝ) :
    bond_convexity_from_ytm (P (y - 0.0001)) (P y) (P (y + 0.0001)) 100 = convexity P y := by
  simp only [bond_convexity_from_ytm, convexity, bumpDy_real]

/-- C07: the exact algebraic identity the code uses — `dollar_duration` is the symmetric difference quotient of
the reported price over `2·dy`, negated; `convexity` is the second symmetric difference over `dy²`, per unit price
and per `par`. -/
theorem gen_risk_difference_quotients (p0 p1 p2 par : ℝ) :
    bond_dollar_duration p0 p2 = -((p2 - p0) / (2 * 0.0001)) ∧
    bond_convexity_from_ytm p0 p1 p2 par = ((p2 - 2 * p1 + p0) / (0.0001 ^ 2)) / p1 / par := by
  constructor
  · simp only [bond_dollar_duration]; ring
  · simp only [bond_convexity_from_ytm]; ring

/-- C07: generated Macaulay = generated modified × (1 + y/f) (same `dd`, same `fp`). -/
theorem gen_macauley_eq_modified_times (ytm dd fp f : ℝ) :
    bond_macauley_duration ytm dd fp f = bond_modified_duration dd fp * (1 + ytm / f) := by
  simp only [bond_macauley_duration, bond_modified_duration]; ring

/-! ### Zero-coupon bond, FRN, annuity: generated = model -/

/-- C07 (tie): generated `BondZero.dirty_price_from_ytm` = model (`acc_factor <= 1` ⇒ simple, else compound),
`FinError` for a convention other than ZERO or with no date after settlement. -/
theorem gen_zero_dirty_eq_model (ytm t : ℝ) (nd : Int) (hnd : 1 ≤ nd) :
    zero_dirty_price_from_ytm ytm 0 nd t 100 = .ok (zeroDirty ytm t (decide (t ≤ 1))) := by
  have : ¬ (nd - 1 < 0) := by omega
  by_cases h : t ≤ 1 <;> simp [zero_dirty_price_from_ytm, zeroDirty, ytmShift, this, h]

theorem gen_zero_dirty_errors (ytm t : ℝ) (conv nd : Int) (h : conv ≠ 0 ∨ nd < 1) :
    zero_dirty_price_from_ytm ytm conv nd t 100 = .error .finError := by
  simp only [zero_dirty_price_from_ytm, decide_eq_true_eq]
  by_cases hc : conv ≠ 0
  · simp [hc]
  · have h2 : nd - 1 < 0 := by rcases h with h | h; exact absurd h hc; omega
    simp [hc, h2]

/-- C07 (tie): generated `BondZero.accrued_interest` = model for settlement up to maturity. -/
theorem gen_zero_accrued_eq_model (settle issue mat : Int) (face ip : ℝ) (h : settle ≤ mat) :
    zero_accrued_interest settle face issue mat 100 ip
      = .ok (zeroAccrued ((settle - issue : Int) : ℝ) ((mat - issue : Int) : ℝ) ip face) := by
  have : ¬ settle > mat := by omega
  simp [zero_accrued_interest, zeroAccrued, this]

/-- C07: zero-coupon dirty = clean + accrued (generated text). -/
theorem gen_zero_dirty_eq_clean_plus_accrued (dp acc : ℝ) :
    dp = zero_clean_price_from_ytm dp acc + acc := by
  simp [zero_clean_price_from_ytm]

/-- C07 (tie): generated `BondFRN.clean_price_from_dm` = model; `FinError` above a 1000 % margin. -/
theorem gen_frn_clean_eq_model (nc dm dirty accf : ℝ) (h : ¬ dm > 10) :
    frn_clean_price_from_dm nc dm dirty accf 100 = .ok (frnClean dirty accf nc) := by
  simp [frn_clean_price_from_dm, frnClean, h]

/-- C07: FRN dirty = clean + accrual factor × next coupon × par (generated text). -/
theorem gen_frn_dirty_eq_clean_plus_accrued (nc dm dirty accf cp : ℝ)
    (h : frn_clean_price_from_dm nc dm dirty accf 100 = .ok cp) : dirty = cp + accf * nc * 100 := by
  by_cases hd : dm > 10
  · simp [frn_clean_price_from_dm, hd] at h
  · simp [frn_clean_price_from_dm, hd] at h; linarith

/-- C07: the FRN bump formulas: `dollar_duration` is the NEGATED symmetric difference quotient in
`current_ibor` (the code calls the up-bump `p0` and the down-bump `p2`). -/
theorem gen_frn_dollar_duration (pUp pDn : ℝ) :
    frn_dollar_duration pUp pDn = -((pUp - pDn) / (2 * 0.0001)) := by
  simp only [frn_dollar_duration]; ring

/-- C07: annuity dirty = clean + accrued (per unit face) × par (generated text). -/
theorem gen_annuity_dirty_eq_clean_plus_accrued (dirty acc : ℝ) :
    dirty = annuity_clean_price dirty acc 100 + acc * 100 := by
  simp [annuity_clean_price]

/-- C07 (observation, `BondFRN.principal`): the generated `principal` scales the dirty price by `face/par` but
subtracts the accrued of face 1: it equals `clean × face/par` exactly when `face = 1` or nothing has accrued. -/
theorem gen_frn_principal_vs_clean (nc face dirty accf : ℝ) :
    frn_principal nc face dirty accf 100 = frnClean dirty accf nc * face / 100 + accf * nc * (face - 1) := by
  simp only [frn_principal, frnClean]; ring

end FinVerif.Props.C07
