/-
  C07 (part e) — price STRICTLY DECREASING and STRICTLY CONVEX in yield for EVERY YTMCalcType branch as coded
  (UK_DMO; US_STREET incl. its money-market last period; US_TREASURY incl. the simple-interest first fraction
  and its compound last period; CFETS incl. its ACT/365 last period), any number `n` of coupons; hence the
  yield is unique and "yield from price reproduces the yield" follows from the solver postcondition, stated
  of the generated `dirty_price_from_ytm`.
-/
import FinVerif.Props.C07d
import FinVerif.Lemmas.C07Calc

set_option linter.unusedSimpArgs false
set_option linter.unusedVariables false

namespace FinVerif.Props.C07
open FinVerif FinVerif.Model.C07 FinVerif.Spec.C07 FinVerif.Lemmas.C07
open FinVerif.Gen.BondR Set

/-! ### The compound cash-flow sum as a combination of discount factors -/

theorem pvOfV_eq_discSum {f : ℝ} (hf : 0 < f) (n : ℕ) (cf a pay : ℝ) {y : ℝ} (hy : y ∈ Ioi (-f)) :
    pvOfV n cf a pay (1 / (1 + y / f))
      = discSum f (n + 1) (cpnAmt cf pay) (fun k => (k : ℝ) + a) y + 1 * disc f ((n : ℝ) + a) y := by
  have hv : 0 < 1 / (1 + y / f) := by have := one_add_div_pos hf hy; positivity
  simp only [pvOfV, discSum, disc, cpnAmt, compound_discount_eq_rpow _ _ _ hv, one_mul]

/-- C07: the compound (UK-DMO) cash-flow sum is strictly convex, strictly decreasing and positive in the yield
on `y > −f`, for every `n`, non-negative coupon, `α ≥ 0`, and a payment strictly in the future. -/
theorem compound_sum_props {f : ℝ} (hf : 0 < f) (n : ℕ) (cf a pay : ℝ) (hcf : 0 ≤ cf) (ha : 0 ≤ a) (hpay : 0 ≤ pay)
    (hpos : 0 < a ∨ 0 < n) :
    StrictConvexOn ℝ (Ioi (-f)) (fun y => pvOfV n cf a pay (1 / (1 + y / f))) ∧
    StrictAntiOn (fun y => pvOfV n cf a pay (1 / (1 + y / f))) (Ioi (-f)) ∧
    ∀ y ∈ Ioi (-f), 0 < pvOfV n cf a pay (1 / (1 + y / f)) := by
  have hτ : 0 < (n : ℝ) + a := by
    rcases hpos with h | h
    · positivity
    · have : (0 : ℝ) < n := by exact_mod_cast h
      linarith
  obtain ⟨h1, h2, h3⟩ := discSum_add_strict hf (n + 1) (cpnAmt cf pay) (fun k => (k : ℝ) + a)
    (cpnAmt_nonneg hcf hpay) (fun k => by positivity) one_pos hτ
  have heq : EqOn (fun y => discSum f (n + 1) (cpnAmt cf pay) (fun k => (k : ℝ) + a) y + 1 * disc f ((n : ℝ) + a) y)
      (fun y => pvOfV n cf a pay (1 / (1 + y / f))) (Ioi (-f)) := fun y hy => (pvOfV_eq_discSum hf n cf a pay hy).symm
  refine ⟨h1.congr heq, ?_, ?_⟩
  · intro x hx y hy hxy
    simp only [← heq hx, ← heq hy]
    exact h2 hx hy hxy
  · intro y hy
    simp only [← heq hy]
    exact h3 y hy

theorem dirtyPerUnit_ukDmo_eq_pvOfV (n : ℕ) (c f y a aY pay : ℝ) :
    dirtyPerUnit .ukDmo n c f y a aY pay = pvOfV n (c / f) a pay (1 / (1 + y / f)) := by
  simp only [dirtyPerUnit, discount, sumTo_eq_sum, ipow_real, fpow_real, pvOfV]

/-- C07 price_strictConvex_in_yield (compound conventions): strict convexity of the UK-DMO sum on `y > −f`. -/
theorem price_strictConvex_in_yield (n : ℕ) (c f a aY pay : ℝ)
    (hc : 0 ≤ c) (hf : 0 < f) (ha : 0 ≤ a) (hpay : 0 ≤ pay) (hpos : 0 < a ∨ 0 < n) :
    StrictConvexOn ℝ (Ioi (-f)) (fun y => dirtyPerUnit .ukDmo n c f y a aY pay) := by
  have := (compound_sum_props hf n (c / f) a pay (by positivity) ha hpay hpos).1
  simpa only [dirtyPerUnit_ukDmo_eq_pvOfV] using this

/-- non-vacuity: 5 % semi-annual, 7 coupons after the next, 40 % of the period to run -/
example : StrictConvexOn ℝ (Ioi (-2 : ℝ)) (fun y => dirtyPerUnit .ukDmo 7 0.05 2 y 0.4 0 1) :=
  price_strictConvex_in_yield 7 0.05 2 0.4 0 1 (by norm_num) (by norm_num) (by norm_num) (by norm_num)
    (Or.inl (by norm_num))

/-! ### Every branch as coded -/

/-- the cash-flow sum each branch of `dirty_price_from_ytm` computes AS CODED (per unit face): the convention's
sum, except that the US_TREASURY last period is the compound one (`us_treasury_last_period_eq_compound`). -/
noncomputable def codedPerUnit (code n : ℕ) (c f y a aY pay : ℝ) : ℝ :=
  match code with
  | 1 => dirtyPerUnit .ukDmo n c f y a aY pay
  | 2 => dirtyPerUnit .usStreet n c f y a aY pay
  | 3 => if n = 0 then dirtyPerUnit .ukDmo 0 c f y a aY pay else dirtyPerUnit .usTreasury n c f y a aY pay
  | 4 => dirtyPerUnit .cfets n c f y a aY pay
  | _ => 0

/-- C07: for EVERY convention and EVERY `n` the coded closed form is `codedPerUnit` (no exception left),
wherever the closed form does not divide by zero (`v ≠ 1`, i.e. shifted yield ≠ 0). -/
theorem dirtyCore_eq_codedPerUnit (code n : ℕ) (c f y a aY pay : ℝ) (hcode : 1 ≤ code ∧ code ≤ 4)
    (hv : (1 / (1 + y / f) : ℝ) ≠ 1) :
    dirtyCore code n c f y a pay aY = .ok (codedPerUnit code n c f y a aY pay) := by
  obtain ⟨h1, h4⟩ := hcode
  match code, h1, h4 with
  | 1, _, _ => exact closed_form_eq_cashflow_sum_partial 1 .ukDmo n c f y a aY pay rfl hv (by simp [LastPeriodException])
  | 2, _, _ => exact closed_form_eq_cashflow_sum_partial 2 .usStreet n c f y a aY pay rfl hv (by simp [LastPeriodException])
  | 3, _, _ =>
    by_cases hn : n = 0
    · subst hn
      simp only [codedPerUnit, if_true]
      exact us_treasury_last_period_eq_compound c f y a aY pay
    · simp only [codedPerUnit, if_neg hn]
      exact closed_form_eq_cashflow_sum_partial 3 .usTreasury n c f y a aY pay rfl hv (by simp [LastPeriodException, hn])
  | 4, _, _ => exact closed_form_eq_cashflow_sum_partial 4 .cfets n c f y a aY pay rfl hv (by simp [LastPeriodException])

/-- some payment lies strictly in the future (otherwise the price does not depend on the yield):
a later coupon exists, or the discounting fraction of the last period is positive -/
def FuturePayment (code n : ℕ) (a aY : ℝ) : Prop := 0 < n ∨ (if code = 4 then 0 < aY else 0 < a)

theorem street_last (c f y a aY pay : ℝ) :
    dirtyPerUnit .usStreet 0 c f y a aY pay = (c / f * pay + 1) * sdisc (a / f) y := by
  simp only [dirtyPerUnit, discount, spec_sum_zero, if_true, sdisc]
  have : 1 + a * y / f = 1 + a / f * y := by ring
  rw [this]; ring

theorem cfets_last (c f y a aY pay : ℝ) :
    dirtyPerUnit .cfets 0 c f y a aY pay = (c / f * pay + 1) * sdisc aY y := by
  simp only [dirtyPerUnit, discount, spec_sum_zero, if_true, sdisc]
  ring

theorem street_later (n : ℕ) (hn : n ≠ 0) (c f y a aY pay : ℝ) :
    dirtyPerUnit .usStreet n c f y a aY pay = dirtyPerUnit .ukDmo n c f y a aY pay := by
  simp only [dirtyPerUnit, discount, if_neg hn]

theorem cfets_later (n : ℕ) (hn : n ≠ 0) (c f y a aY pay : ℝ) :
    dirtyPerUnit .cfets n c f y a aY pay = dirtyPerUnit .ukDmo n c f y a aY pay := by
  simp only [dirtyPerUnit, discount, if_neg hn]

theorem treasury_later (n : ℕ) (c f y a aY pay : ℝ) :
    dirtyPerUnit .usTreasury n c f y a aY pay = sdisc (a / f) y * pvOfV n (c / f) 0 pay (1 / (1 + y / f)) := by
  simp only [dirtyPerUnit, discount, sumTo_eq_sum, ipow_real, pvOfV, sdisc, Real.rpow_zero, mul_one]
  have : 1 + a * y / f = 1 + a / f * y := by ring
  rw [this, mul_add, Finset.mul_sum]
  congr 1
  · apply Finset.sum_congr rfl; intro k _; ring
  · ring

/-- C07 price strictly decreasing and strictly convex in yield, EVERY branch as coded: for each of the four
conventions and every `n`, on yields above −100 % (`f ≥ 1`, `0 ≤ α ≤ 1`, CFETS year fraction in `[0,1]`), provided
some payment is strictly in the future. -/
theorem coded_price_strictAnti_strictConvex (code n : ℕ) (c f a aY pay : ℝ)
    (hcode : 1 ≤ code ∧ code ≤ 4) (hc : 0 ≤ c) (hf : 1 ≤ f) (ha : 0 ≤ a ∧ a ≤ 1) (haY : 0 ≤ aY ∧ aY ≤ 1)
    (hpay : 0 ≤ pay) (hfut : FuturePayment code n a aY) :
    StrictAntiOn (fun y => codedPerUnit code n c f y a aY pay) (Ioi (-1)) ∧
    StrictConvexOn ℝ (Ioi (-1)) (fun y => codedPerUnit code n c f y a aY pay) := by
  have hf0 : 0 < f := by linarith
  have hcf : 0 ≤ c / f := by positivity
  have hsub : Ioi (-1 : ℝ) ⊆ Ioi (-f) := fun y hy => by
    have : -1 < y := hy
    show -f < y; linarith
  -- compound sum restricted to yields above −100 %
  have compound : ∀ (m : ℕ) (a' : ℝ), 0 ≤ a' → (0 < a' ∨ 0 < m) →
      StrictAntiOn (fun y => dirtyPerUnit .ukDmo m c f y a' aY pay) (Ioi (-1)) ∧
      StrictConvexOn ℝ (Ioi (-1)) (fun y => dirtyPerUnit .ukDmo m c f y a' aY pay) := by
    intro m a' ha' hpos
    obtain ⟨h1, h2, _⟩ := compound_sum_props hf0 m (c / f) a' pay hcf ha' hpay hpos
    simp only [dirtyPerUnit_ukDmo_eq_pvOfV]
    exact ⟨h2.mono hsub, h1.subset hsub (convex_Ioi _)⟩
  have hK : 0 < c / f * pay + 1 := by positivity
  have haf : 0 ≤ a / f ∧ a / f ≤ 1 := by
    refine ⟨by have := ha.1; positivity, ?_⟩
    rw [div_le_one hf0]; linarith [ha.2]
  obtain ⟨h1, h4⟩ := hcode
  match code, h1, h4 with
  | 1, _, _ =>
    simp only [codedPerUnit]
    refine compound n a ha.1 ?_
    rcases hfut with h | h
    · exact Or.inr h
    · exact Or.inl (by simpa using h)
  | 2, _, _ =>
    simp only [codedPerUnit]
    by_cases hn : n = 0
    · subst hn
      have hapos : 0 < a := by
        rcases hfut with h | h
        · exact absurd h (lt_irrefl 0)
        · simpa using h
      have hβ : 0 < a / f := by positivity
      obtain ⟨_, _, _, hs⟩ := sdisc_props haf.1 haf.2
      obtain ⟨hsa, hsc⟩ := hs hβ
      simp only [street_last]
      exact const_mul_strict hK hsa hsc
    · simp only [street_later n hn]
      exact compound n a ha.1 (Or.inr (Nat.pos_of_ne_zero hn))
  | 3, _, _ =>
    simp only [codedPerUnit]
    by_cases hn : n = 0
    · subst hn
      simp only [if_true]
      have hapos : 0 < a := by
        rcases hfut with h | h
        · exact absurd h (lt_irrefl 0)
        · simpa using h
      exact compound 0 a ha.1 (Or.inl hapos)
    · simp only [if_neg hn, treasury_later]
      obtain ⟨hp, hanti, hconv, _⟩ := sdisc_props haf.1 haf.2
      obtain ⟨c1, c2, c3⟩ := compound_sum_props hf0 n (c / f) 0 pay hcf le_rfl hpay (Or.inr (Nat.pos_of_ne_zero hn))
      have c1' := c1.subset hsub (convex_Ioi _)
      have c2' := c2.mono hsub
      have c3' : ∀ y ∈ Ioi (-1 : ℝ), 0 ≤ pvOfV n (c / f) 0 pay (1 / (1 + y / f)) := fun y hy => (c3 y (hsub hy)).le
      exact ⟨strictAntiOn_mul hp c3' hanti c2', strictConvexOn_mul_of_antitone hconv c1' hp c3' hanti c2'.antitoneOn⟩
  | 4, _, _ =>
    simp only [codedPerUnit]
    by_cases hn : n = 0
    · subst hn
      have hapos : 0 < aY := by
        rcases hfut with h | h
        · exact absurd h (lt_irrefl 0)
        · simpa using h
      obtain ⟨_, _, _, hs⟩ := sdisc_props haY.1 haY.2
      obtain ⟨hsa, hsc⟩ := hs hapos
      simp only [cfets_last]
      exact const_mul_strict hK hsa hsc
    · simp only [cfets_later n hn]
      exact compound n a ha.1 (Or.inr (Nat.pos_of_ne_zero hn))

/-- non-vacuity: US_TREASURY, 7 later coupons, 5 % semi-annual, cum-dividend, 40 % of the period to run -/
example : StrictAntiOn (fun y => codedPerUnit 3 7 0.05 2 y 0.4 0 1) (Ioi (-1)) ∧
    StrictConvexOn ℝ (Ioi (-1)) (fun y => codedPerUnit 3 7 0.05 2 y 0.4 0 1) :=
  coded_price_strictAnti_strictConvex 3 7 0.05 2 0.4 0 1 (by norm_num) (by norm_num) (by norm_num)
    ⟨by norm_num, by norm_num⟩ ⟨by norm_num, by norm_num⟩ (by norm_num) (Or.inl (by norm_num))

/-- the hypothesis `FuturePayment` cannot be dropped: US_STREET last period on the coupon date (α = 0):
the price does not depend on the yield. -/
theorem coded_price_constant_without_future_payment (c f pay aY y y' : ℝ) :
    codedPerUnit 2 0 c f y 0 aY pay = codedPerUnit 2 0 c f y' 0 aY pay := by
  simp [codedPerUnit, street_last, sdisc]

/-- C07: the second symmetric difference of the coded price is strictly positive (what `convexity_from_ytm`
divides by `dy²·P·par`), every branch. -/
theorem coded_second_difference_pos (code n : ℕ) (c f a aY pay y h : ℝ)
    (hcode : 1 ≤ code ∧ code ≤ 4) (hc : 0 ≤ c) (hf : 1 ≤ f) (ha : 0 ≤ a ∧ a ≤ 1) (haY : 0 ≤ aY ∧ aY ≤ 1)
    (hpay : 0 ≤ pay) (hfut : FuturePayment code n a aY) (hh : h ≠ 0) (hlo : -1 < y - h) (hhi : -1 < y + h) :
    0 < codedPerUnit code n c f (y + h) a aY pay + codedPerUnit code n c f (y - h) a aY pay
        - 2 * codedPerUnit code n c f y a aY pay := by
  have hconv := (coded_price_strictAnti_strictConvex code n c f a aY pay hcode hc hf ha haY hpay hfut).2
  have hne : y - h ≠ y + h := by intro e; apply hh; linarith
  have := hconv.2 (show y - h ∈ Ioi (-1 : ℝ) from hlo) (show y + h ∈ Ioi (-1 : ℝ) from hhi) hne
    (show (0 : ℝ) < 1 / 2 by norm_num) (show (0 : ℝ) < 1 / 2 by norm_num) (by norm_num)
  simp only [smul_eq_mul] at this
  have hmid : (1 / 2 : ℝ) * (y - h) + 1 / 2 * (y + h) = y := by ring
  rw [hmid] at this
  linarith

/-- C07 yield uniqueness, every branch: two yields above −100 % that give the same coded price are equal. -/
theorem coded_price_injective (code n : ℕ) (c f a aY pay y y' : ℝ)
    (hcode : 1 ≤ code ∧ code ≤ 4) (hc : 0 ≤ c) (hf : 1 ≤ f) (ha : 0 ≤ a ∧ a ≤ 1) (haY : 0 ≤ aY ∧ aY ≤ 1)
    (hpay : 0 ≤ pay) (hfut : FuturePayment code n a aY) (hy : -1 < y) (hy' : -1 < y')
    (h : codedPerUnit code n c f y a aY pay = codedPerUnit code n c f y' a aY pay) : y = y' :=
  (coded_price_strictAnti_strictConvex code n c f a aY pay hcode hc hf ha haY hpay hfut).1.injOn
    (show y ∈ Ioi (-1 : ℝ) from hy) (show y' ∈ Ioi (-1 : ℝ) from hy') h

/-- C07 "yield from price reproduces the yield", of the GENERATED `dirty_price_from_ytm`, all four conventions
as coded: if the root finder of `yield_to_maturity` returns `ytm'` whose dirty price equals the dirty price at
`ytm` (its postcondition `f(ytm') = 0`, checked per case by the harness), both (shifted) yields above −100 % and
not the singular point 0 of the closed form, then `ytm' = ytm`. -/
theorem gen_ytm_roundtrip_of_postcondition (settle exdt : Int) (ytm ytm' f aCf alpha c p : ℝ) (code n : ℕ)
    (hcode : 1 ≤ code ∧ code ≤ 4) (hc : 0 ≤ c) (hf : 1 ≤ f) (ha : 0 ≤ alpha ∧ alpha ≤ 1)
    (haY : 0 ≤ aCf ∧ aCf ≤ 1) (hfut : FuturePayment code n alpha aCf)
    (hy : -1 < ytm + 1.2345e-11) (hy' : -1 < ytm' + 1.2345e-11)
    (h0 : ytm + 1.2345e-11 ≠ 0) (h0' : ytm' + 1.2345e-11 ≠ 0)
    (hprice : bond_dirty_price_from_ytm settle ytm (code : Int) ((n : Int) + 1) f aCf alpha c 100 exdt = .ok p)
    (hpost : bond_dirty_price_from_ytm settle ytm' (code : Int) ((n : Int) + 1) f aCf alpha c 100 exdt = .ok p) :
    ytm' = ytm := by
  have hf0 : f ≠ 0 := by linarith
  have hv : ∀ z : ℝ, z ≠ 0 → (1 / (1 + z / f) : ℝ) ≠ 1 := by
    intro z hz h
    have h1 : 1 + z / f = 1 := by
      have := congrArg (fun x => 1 / x) h
      simpa using this
    have : z / f = 0 := by linarith
    rcases div_eq_zero_iff.mp this with h | h
    · exact hz h
    · exact hf0 h
  have hcode' : ¬ (code = 0 ∨ code > 4) := by omega
  have key : ∀ z : ℝ, z + 1.2345e-11 ≠ 0 →
      bond_dirty_price_from_ytm settle z (code : Int) ((n : Int) + 1) f aCf alpha c 100 exdt
        = .ok (codedPerUnit code n c f (z + 1.2345e-11) alpha aCf (payFirst (decide (settle > exdt))) * 100) := by
    intro z hz
    rw [gen_dirty_price_eq_model]
    have : ((n : Int) + 1 - 1) = (n : Int) := by omega
    rw [this]
    have hn : ¬ ((n : Int) < 0) := by omega
    simp only [dirtyPriceFromYtm, if_neg hcode', if_neg hn, Int.toNat_natCast, ytmShift,
      dirtyCore_eq_codedPerUnit code n c f _ alpha aCf _ hcode (hv _ hz)]
  rw [key ytm h0] at hprice
  rw [key ytm' h0'] at hpost
  have e1 := Except.ok.inj hprice
  have e2 := Except.ok.inj hpost
  have hpay : (0 : ℝ) ≤ payFirst (decide (settle > exdt)) := by
    unfold payFirst; split <;> norm_num
  have := coded_price_injective code n c f alpha aCf (payFirst (decide (settle > exdt))) _ _ hcode hc hf ha haY hpay hfut
    hy' hy (by linarith)
  linarith

/-- C07: strict monotonicity stated of the GENERATED function, every branch: a higher yield gives a strictly
lower dirty price (both shifted yields above −100 % and ≠ 0). -/
theorem gen_price_strictAnti_in_yield (settle exdt : Int) (y1 y2 f aCf alpha c p1 p2 : ℝ) (code n : ℕ)
    (hcode : 1 ≤ code ∧ code ≤ 4) (hc : 0 ≤ c) (hf : 1 ≤ f) (ha : 0 ≤ alpha ∧ alpha ≤ 1)
    (haY : 0 ≤ aCf ∧ aCf ≤ 1) (hfut : FuturePayment code n alpha aCf)
    (hy : -1 < y1 + 1.2345e-11) (hlt : y1 < y2) (h0 : y1 + 1.2345e-11 ≠ 0) (h0' : y2 + 1.2345e-11 ≠ 0)
    (hp1 : bond_dirty_price_from_ytm settle y1 (code : Int) ((n : Int) + 1) f aCf alpha c 100 exdt = .ok p1)
    (hp2 : bond_dirty_price_from_ytm settle y2 (code : Int) ((n : Int) + 1) f aCf alpha c 100 exdt = .ok p2) :
    p2 < p1 := by
  have hf0 : f ≠ 0 := by linarith
  have hv : ∀ z : ℝ, z ≠ 0 → (1 / (1 + z / f) : ℝ) ≠ 1 := by
    intro z hz h
    have h1 : 1 + z / f = 1 := by
      have := congrArg (fun x => 1 / x) h
      simpa using this
    have : z / f = 0 := by linarith
    rcases div_eq_zero_iff.mp this with h | h
    · exact hz h
    · exact hf0 h
  have hcode' : ¬ (code = 0 ∨ code > 4) := by omega
  have key : ∀ z : ℝ, z + 1.2345e-11 ≠ 0 →
      bond_dirty_price_from_ytm settle z (code : Int) ((n : Int) + 1) f aCf alpha c 100 exdt
        = .ok (codedPerUnit code n c f (z + 1.2345e-11) alpha aCf (payFirst (decide (settle > exdt))) * 100) := by
    intro z hz
    rw [gen_dirty_price_eq_model]
    have : ((n : Int) + 1 - 1) = (n : Int) := by omega
    rw [this]
    have hn : ¬ ((n : Int) < 0) := by omega
    simp only [dirtyPriceFromYtm, if_neg hcode', if_neg hn, Int.toNat_natCast, ytmShift,
      dirtyCore_eq_codedPerUnit code n c f _ alpha aCf _ hcode (hv _ hz)]
  rw [key y1 h0] at hp1
  rw [key y2 h0'] at hp2
  have e1 := Except.ok.inj hp1
  have e2 := Except.ok.inj hp2
  have hpay : (0 : ℝ) ≤ payFirst (decide (settle > exdt)) := by
    unfold payFirst; split <;> norm_num
  have hanti := (coded_price_strictAnti_strictConvex code n c f alpha aCf (payFirst (decide (settle > exdt)))
    hcode hc hf ha haY hpay hfut).1
  have := hanti (show y1 + 1.2345e-11 ∈ Ioi (-1 : ℝ) from hy) (show y2 + 1.2345e-11 ∈ Ioi (-1 : ℝ) from by
    show -1 < y2 + 1.2345e-11; linarith) (by linarith)
  simp only at this
  linarith

end FinVerif.Props.C07
