/-
  C07 (part f) — durations / convexity = derivatives of the reported price.
  * `HasDerivAt` facts for the modelled price of every family of branches (compound sum, money-market last
    period, US-Treasury product form), to any order for the compound sum;
  * the code computes `dollar_duration`, `modified_duration`, `convexity_from_ytm` by symmetric differences with
    `dy = 1e-4`; the relation difference-vs-derivative is proved as a BOUND:
      |dollar_duration − (−P′(y))|            ≤ (dy²/6)·sup|P‴|   = (dy²/6)·(1/f³)·Σ A·T(T+1)(T+2)·v(y−dy)^(T+3)
      |convexity − P″(y)/P(y)/par|            ≤ (dy²/12)·sup|P⁗| / P(y) / par
    with the explicit suprema (the derivatives of a compounded sum are monotone in the yield).
-/
import FinVerif.Props.C07e
import FinVerif.Lemmas.C07FD

set_option linter.unusedSimpArgs false
set_option linter.unusedVariables false

namespace FinVerif.Props.C07
open FinVerif FinVerif.Model.C07 FinVerif.Spec.C07 FinVerif.Lemmas.C07
open Set

/-! ### Derivatives of a compounded sum, to every order -/

/-- C07: `d/dy Σ A_k v(y)^(T_k) = −(1/f) Σ A_k T_k v(y)^(T_k+1)` (with the result written as a sum of the same
kind: amounts `A' = A·T`, times `T' = T + 1`). -/
theorem discSum_hasDerivAt {f : ℝ} (hf : 0 < f) (m : ℕ) (A T A' T' : ℕ → ℝ)
    (hA' : ∀ k, A' k = A k * T k) (hT' : ∀ k, T' k = T k + 1) {y : ℝ} (hy : y ∈ Ioi (-f)) :
    HasDerivAt (discSum f m A T) (-(1 / f) * discSum f m A' T' y) y := by
  have h := duration_is_derivative m A T f y hf.ne' (one_add_div_pos hf hy)
  have e : discSum f m A' T' y = ∑ k ∈ Finset.range m, A k * T k * (1 / (1 + y / f)) ^ (T k + 1) := by
    simp only [discSum, disc, hA', hT']
  rw [e]
  exact h

/-- the `r`-th derivative of the compounded sum: `(−1/f)^r Σ A·T(T+1)…(T+r−1)·v^(T+r)` -/
noncomputable def dSum (f : ℝ) (m : ℕ) (A T : ℕ → ℝ) (r : ℕ) (y : ℝ) : ℝ :=
  (-(1 / f)) ^ r * discSum f m (dAmt A T r) (dTime T r) y

/-- C07: every derivative of a compounded cash-flow sum in the yield, by induction on the order. -/
theorem dSum_hasDerivAt {f : ℝ} (hf : 0 < f) (m : ℕ) (A T : ℕ → ℝ) (r : ℕ) {y : ℝ} (hy : y ∈ Ioi (-f)) :
    HasDerivAt (dSum f m A T r) (dSum f m A T (r + 1) y) y := by
  have h := discSum_hasDerivAt hf m (dAmt A T r) (dTime T r) (dAmt A T (r + 1)) (dTime T (r + 1))
    (fun k => by simp only [dAmt, dTime]) (fun k => by simp only [dTime]; push_cast; ring) hy
  have := h.const_mul ((-(1 / f)) ^ r)
  refine this.congr_deriv ?_
  simp only [dSum, pow_succ]; ring

theorem dSum_zero (f : ℝ) (m : ℕ) (A T : ℕ → ℝ) (y : ℝ) (h : ∀ k, dTime T 0 k = T k) :
    dSum f m A T 0 y = discSum f m A T y := by
  simp only [dSum, pow_zero, one_mul, discSum, dAmt, h]

/-- `|r-th derivative|` on `[lo, ∞)` is bounded by its value at `lo` (every term is positive and decreasing) -/
theorem abs_dSum_le {f : ℝ} (hf : 0 < f) (m : ℕ) (A T : ℕ → ℝ) (hA : ∀ k, 0 ≤ A k) (hT : ∀ k, 0 ≤ T k) (r : ℕ)
    {lo x : ℝ} (hlo : lo ∈ Ioi (-f)) (hx : lo ≤ x) :
    |dSum f m A T r x| ≤ (1 / f) ^ r * discSum f m (dAmt A T r) (dTime T r) lo := by
  have hxm : x ∈ Ioi (-f) := lt_of_lt_of_le hlo hx
  have hnn := discSum_nonneg hf m (dAmt A T r) (dTime T r) (dAmt_nonneg hA hT r) hxm
  have hanti := discSum_antitoneOn hf m (dAmt A T r) (dTime T r) (dAmt_nonneg hA hT r) (dTime_nonneg hT r) hlo hxm hx
  have hpow : |(-(1 / f)) ^ r| = (1 / f) ^ r := by
    rw [abs_pow, abs_neg, abs_of_pos (by positivity)]
  simp only [dSum, abs_mul, hpow, abs_of_nonneg hnn]
  exact mul_le_mul_of_nonneg_left hanti (by positivity)

/-! ### The coded bump formulas versus the derivatives: error bounds -/

/-- C07 dollar_duration = −dP/dy up to `(dy²/6)·sup|P‴|`: for every price that is a compounded sum of non-negative
flows at non-negative times, the coded symmetric difference (dy = 1e-4) differs from the analytic `−P′(y) =
(1/f) Σ A_k T_k v^(T_k+1)` by at most `(dy²/6)·(1/f³) Σ A_k T_k(T_k+1)(T_k+2)·v(y−dy)^(T_k+3)`. -/
theorem dollar_duration_error_bound {f : ℝ} (hf : 0 < f) (m : ℕ) (A T : ℕ → ℝ) (hA : ∀ k, 0 ≤ A k)
    (hT : ∀ k, 0 ≤ T k) (y : ℝ) (hy : -f < y - 0.0001) :
    |dollarDuration (discSum f m A T) y - (-(dSum f m A T 1 y))|
      ≤ (0.0001 : ℝ) ^ 2 / 6 * ((1 / f) ^ 3 * discSum f m (dAmt A T 3) (dTime T 3) (y - 0.0001)) := by
  have hlo : y - 0.0001 ∈ Ioi (-f) := hy
  have hmem : ∀ x ∈ Icc (y - 0.0001) (y + 0.0001), x ∈ Ioi (-f) := fun x hx => lt_of_lt_of_le hlo hx.1
  have hP0 : discSum f m A T = dSum f m A T 0 := by
    funext z; exact (dSum_zero f m A T z (dTime_zero T)).symm
  have key := central_difference_error (P := dSum f m A T 0) (P1 := dSum f m A T 1) (P2 := dSum f m A T 2)
    (P3 := dSum f m A T 3) (y := y) (h := 0.0001)
    (M := (1 / f) ^ 3 * discSum f m (dAmt A T 3) (dTime T 3) (y - 0.0001)) (by norm_num)
    (fun x hx => dSum_hasDerivAt hf m A T 0 (hmem x hx)) (fun x hx => dSum_hasDerivAt hf m A T 1 (hmem x hx))
    (fun x hx => dSum_hasDerivAt hf m A T 2 (hmem x hx))
    (fun x hx => abs_dSum_le hf m A T hA hT 3 hlo hx.1)
  rw [hP0]
  have e : dollarDuration (dSum f m A T 0) y - -(dSum f m A T 1 y)
      = -((dSum f m A T 0 (y + 0.0001) - dSum f m A T 0 (y - 0.0001)) / (2 * 0.0001) - dSum f m A T 1 y) := by
    simp only [dollarDuration, bumpDy_real]; ring
  rw [e, abs_neg]
  calc _ ≤ (1 / f) ^ 3 * discSum f m (dAmt A T 3) (dTime T 3) (y - 0.0001) * (0.0001 : ℝ) ^ 2 / 6 := key
    _ = _ := by ring

/-- C07 convexity = P″/P/par up to `(dy²/12)·sup|P⁗|/P/par`: the coded second symmetric difference against the
analytic second derivative `P″(y) = (1/f²) Σ A_k T_k(T_k+1) v^(T_k+2)`. -/
theorem convexity_error_bound {f : ℝ} (hf : 0 < f) (m : ℕ) (A T : ℕ → ℝ) (hA : ∀ k, 0 ≤ A k)
    (hT : ∀ k, 0 ≤ T k) (y : ℝ) (hy : -f < y - 0.0001) (hP : 0 < discSum f m A T y) :
    |convexity (discSum f m A T) y - dSum f m A T 2 y / discSum f m A T y / 100|
      ≤ (0.0001 : ℝ) ^ 2 / 12 * ((1 / f) ^ 4 * discSum f m (dAmt A T 4) (dTime T 4) (y - 0.0001))
          / discSum f m A T y / 100 := by
  have hlo : y - 0.0001 ∈ Ioi (-f) := hy
  have hmem : ∀ x ∈ Icc (y - 0.0001) (y + 0.0001), x ∈ Ioi (-f) := fun x hx => lt_of_lt_of_le hlo hx.1
  have hP0 : discSum f m A T = dSum f m A T 0 := by
    funext z; exact (dSum_zero f m A T z (dTime_zero T)).symm
  have key := second_difference_error (P := dSum f m A T 0) (P1 := dSum f m A T 1) (P2 := dSum f m A T 2)
    (P3 := dSum f m A T 3) (P4 := dSum f m A T 4) (y := y) (h := 0.0001)
    (M := (1 / f) ^ 4 * discSum f m (dAmt A T 4) (dTime T 4) (y - 0.0001)) (by norm_num)
    (fun x hx => dSum_hasDerivAt hf m A T 0 (hmem x hx)) (fun x hx => dSum_hasDerivAt hf m A T 1 (hmem x hx))
    (fun x hx => dSum_hasDerivAt hf m A T 2 (hmem x hx)) (fun x hx => dSum_hasDerivAt hf m A T 3 (hmem x hx))
    (fun x hx => abs_dSum_le hf m A T hA hT 4 hlo hx.1)
  rw [hP0] at hP ⊢
  set P := dSum f m A T 0 with hPdef
  have e : convexity P y - dSum f m A T 2 y / P y / 100
      = ((P (y + 0.0001) + P (y - 0.0001) - 2 * P y) / (0.0001 : ℝ) ^ 2 - dSum f m A T 2 y) / P y / 100 := by
    simp only [convexity, bumpDy_real]
    field_simp
  rw [e, abs_div, abs_div, abs_of_pos hP, abs_of_pos (by norm_num : (0 : ℝ) < 100)]
  apply div_le_div_of_nonneg_right _ (by norm_num : (0 : ℝ) ≤ 100)
  apply div_le_div_of_nonneg_right _ hP.le
  calc _ ≤ (1 / f) ^ 4 * discSum f m (dAmt A T 4) (dTime T 4) (y - 0.0001) * (0.0001 : ℝ) ^ 2 / 12 := key
    _ = _ := by ring

/-- C07 modified_duration = −P′/P up to the same bound divided by the price. -/
theorem modified_duration_error_bound {f : ℝ} (hf : 0 < f) (m : ℕ) (A T : ℕ → ℝ) (hA : ∀ k, 0 ≤ A k)
    (hT : ∀ k, 0 ≤ T k) (y : ℝ) (hy : -f < y - 0.0001) (hP : 0 < discSum f m A T y) :
    |modifiedDuration (discSum f m A T) y - (-(dSum f m A T 1 y)) / discSum f m A T y|
      ≤ (0.0001 : ℝ) ^ 2 / 6 * ((1 / f) ^ 3 * discSum f m (dAmt A T 3) (dTime T 3) (y - 0.0001))
          / discSum f m A T y := by
  have h := dollar_duration_error_bound hf m A T hA hT y hy
  have e : modifiedDuration (discSum f m A T) y - (-(dSum f m A T 1 y)) / discSum f m A T y
      = (dollarDuration (discSum f m A T) y - (-(dSum f m A T 1 y))) / discSum f m A T y := by
    simp only [modifiedDuration]; ring
  rw [e, abs_div, abs_of_pos hP]
  exact div_le_div_of_nonneg_right h hP.le

/-- C07 macauley_duration = −P′·(1+y/f)/P (the PV-weighted mean payment time, `macaulay_is_pv_weighted_time`) up to
the dollar-duration bound × (1+y/f)/P. -/
theorem macauley_duration_error_bound {f : ℝ} (hf : 0 < f) (m : ℕ) (A T : ℕ → ℝ) (hA : ∀ k, 0 ≤ A k)
    (hT : ∀ k, 0 ≤ T k) (y : ℝ) (hy : -f < y - 0.0001) (hP : 0 < discSum f m A T y) :
    |macauleyDuration (discSum f m A T) y f - (-(dSum f m A T 1 y)) * (1 + y / f) / discSum f m A T y|
      ≤ (0.0001 : ℝ) ^ 2 / 6 * ((1 / f) ^ 3 * discSum f m (dAmt A T 3) (dTime T 3) (y - 0.0001))
          * (1 + y / f) / discSum f m A T y := by
  have h := dollar_duration_error_bound hf m A T hA hT y hy
  have hv : 0 < 1 + y / f := one_add_div_pos hf (show y ∈ Ioi (-f) by show -f < y; linarith)
  have e : macauleyDuration (discSum f m A T) y f - (-(dSum f m A T 1 y)) * (1 + y / f) / discSum f m A T y
      = (dollarDuration (discSum f m A T) y - (-(dSum f m A T 1 y))) * (1 + y / f) / discSum f m A T y := by
    simp only [macauleyDuration]; ring
  rw [e, abs_div, abs_mul, abs_of_pos hP, abs_of_pos hv]
  exact div_le_div_of_nonneg_right (mul_le_mul_of_nonneg_right h hv.le) hP.le

/-! ### The UK-DMO price as such a sum: the bounds for the coded bond risk measures -/

/-- flows of a bond with `n` coupons after the next one, per 100 face: `k ≤ n` coupon `k`, `k = n+1` the principal -/
noncomputable def flowAmt (n : ℕ) (cf pay : ℝ) (k : ℕ) : ℝ := if k ≤ n then 100 * cpnAmt cf pay k else 100

/-- payment times in coupon periods: coupon `k` at `k + α`, principal with the last coupon -/
noncomputable def flowTime (n : ℕ) (a : ℝ) (k : ℕ) : ℝ := if k ≤ n then (k : ℝ) + a else (n : ℝ) + a

theorem flowAmt_nonneg {n : ℕ} {cf pay : ℝ} (hcf : 0 ≤ cf) (hpay : 0 ≤ pay) (k : ℕ) : 0 ≤ flowAmt n cf pay k := by
  unfold flowAmt; split
  · have := cpnAmt_nonneg hcf hpay k; positivity
  · norm_num

theorem flowTime_nonneg {n : ℕ} {a : ℝ} (ha : 0 ≤ a) (k : ℕ) : 0 ≤ flowTime n a k := by
  unfold flowTime; split <;> positivity

/-- C07: the UK-DMO dirty price (per 100) IS the compounded sum of the `n + 2` flows. -/
theorem ukDmo_price_eq_discSum {f : ℝ} (hf : 0 < f) (n : ℕ) (c a aY pay : ℝ) {y : ℝ} (hy : y ∈ Ioi (-f)) :
    dirtyPrice .ukDmo n c f y a aY pay = discSum f (n + 2) (flowAmt n (c / f) pay) (flowTime n a) y := by
  rw [dirtyPrice, dirtyPerUnit_ukDmo_eq_pvOfV, pvOfV_eq_discSum hf n (c / f) a pay hy]
  have hsplit : discSum f (n + 2) (flowAmt n (c / f) pay) (flowTime n a) y
      = (∑ k ∈ Finset.range (n + 1), flowAmt n (c / f) pay k * disc f (flowTime n a k) y)
        + flowAmt n (c / f) pay (n + 1) * disc f (flowTime n a (n + 1)) y := by
    simp only [discSum]; rw [Finset.sum_range_succ]
  rw [hsplit]
  have hlast : flowAmt n (c / f) pay (n + 1) * disc f (flowTime n a (n + 1)) y = 100 * disc f ((n : ℝ) + a) y := by
    simp [flowAmt, flowTime]
  have hsum : ∑ k ∈ Finset.range (n + 1), flowAmt n (c / f) pay k * disc f (flowTime n a k) y
      = 100 * discSum f (n + 1) (cpnAmt (c / f) pay) (fun k => (k : ℝ) + a) y := by
    simp only [discSum]; rw [Finset.mul_sum]
    apply Finset.sum_congr rfl
    intro k hk
    have hk' : k ≤ n := Nat.lt_succ_iff.mp (Finset.mem_range.mp hk)
    simp only [flowAmt, flowTime, if_pos hk']; ring
  rw [hlast, hsum]; ring

/-- C07: the coded `dollar_duration` of a UK-DMO / street / CFETS (n ≥ 1) price — symmetric difference of the
PRICE FUNCTION the code evaluates, here `y ↦ dirtyPrice …` at the shifted yield — is the analytic `−dP/dy`
(PV-weighted payment times, `macaulay_is_pv_weighted_time`) up to `(dy²/6)·sup|P‴|`, with explicit supremum. -/
theorem ukDmo_dollar_duration_error_bound {f : ℝ} (hf : 0 < f) (n : ℕ) (c a aY pay : ℝ) (hc : 0 ≤ c) (ha : 0 ≤ a)
    (hpay : 0 ≤ pay) (y : ℝ) (hy : -f < y - 0.0001)
    (P : ℝ → ℝ) (hPdef : ∀ z ∈ Ioi (-f), P z = dirtyPrice .ukDmo n c f z a aY pay) :
    |dollarDuration P y - (-(dSum f (n + 2) (flowAmt n (c / f) pay) (flowTime n a) 1 y))|
      ≤ (0.0001 : ℝ) ^ 2 / 6 *
          ((1 / f) ^ 3 * discSum f (n + 2) (dAmt (flowAmt n (c / f) pay) (flowTime n a) 3) (dTime (flowTime n a) 3) (y - 0.0001)) := by
  have hcf : 0 ≤ c / f := by positivity
  have h := dollar_duration_error_bound hf (n + 2) (flowAmt n (c / f) pay) (flowTime n a)
    (flowAmt_nonneg hcf hpay) (flowTime_nonneg ha) y hy
  have hm : y - 0.0001 ∈ Ioi (-f) := hy
  have hp : y + 0.0001 ∈ Ioi (-f) := by show -f < y + 0.0001; linarith
  have e : dollarDuration P y = dollarDuration (discSum f (n + 2) (flowAmt n (c / f) pay) (flowTime n a)) y := by
    simp only [dollarDuration, bumpDy_real, hPdef _ hm, hPdef _ hp, ukDmo_price_eq_discSum hf n c a aY pay hm,
      ukDmo_price_eq_discSum hf n c a aY pay hp]
  rw [e]; exact h

/-- non-vacuity of the bound's hypotheses (5 % semi-annual, 7 later coupons, 4 % yield) -/
example : ∃ B : ℝ, |dollarDuration (fun z => dirtyPrice .ukDmo 7 0.05 2 z 0.4 0 1) 0.04
    - (-(dSum 2 9 (flowAmt 7 (0.05 / 2) 1) (flowTime 7 0.4) 1 0.04))| ≤ B :=
  ⟨_, ukDmo_dollar_duration_error_bound (by norm_num) 7 0.05 0.4 0 1 (by norm_num) (by norm_num) (by norm_num) 0.04
    (by norm_num) _ (fun _ _ => rfl)⟩

/-- C07: the analytic first derivative of the UK-DMO price (`HasDerivAt`, any `n`) — minus the dollar duration. -/
theorem ukDmo_price_hasDerivAt {f : ℝ} (hf : 0 < f) (n : ℕ) (c a aY pay : ℝ) {y : ℝ} (hy : y ∈ Ioi (-f)) :
    HasDerivAt (fun z => dirtyPrice .ukDmo n c f z a aY pay)
      (dSum f (n + 2) (flowAmt n (c / f) pay) (flowTime n a) 1 y) y := by
  have h := dSum_hasDerivAt hf (n + 2) (flowAmt n (c / f) pay) (flowTime n a) 0 hy
  refine h.congr_of_eventuallyEq ?_
  have hopen : Ioi (-f) ∈ nhds y := Ioi_mem_nhds hy
  filter_upwards [hopen] with z hz
  rw [ukDmo_price_eq_discSum hf n c a aY pay hz, dSum_zero f _ _ _ z (dTime_zero _)]

/-- C07: second derivative (`HasDerivAt` of the first): the analytic convexity numerator. -/
theorem ukDmo_price_hasDerivAt_second {f : ℝ} (hf : 0 < f) (n : ℕ) (c a aY pay : ℝ) {y : ℝ} (hy : y ∈ Ioi (-f)) :
    HasDerivAt (dSum f (n + 2) (flowAmt n (c / f) pay) (flowTime n a) 1)
      (dSum f (n + 2) (flowAmt n (c / f) pay) (flowTime n a) 2 y) y :=
  dSum_hasDerivAt hf (n + 2) _ _ 1 hy

/-- C07: the first derivative is negative and the second positive (duration > 0, convexity > 0) whenever a
payment lies strictly in the future. -/
theorem ukDmo_derivative_signs {f : ℝ} (hf : 0 < f) (n : ℕ) (c a aY pay : ℝ) (hc : 0 ≤ c) (ha : 0 ≤ a) (hpay : 0 ≤ pay)
    (hpos : 0 < a ∨ 0 < n) {y : ℝ} (hy : y ∈ Ioi (-f)) :
    dSum f (n + 2) (flowAmt n (c / f) pay) (flowTime n a) 1 y < 0 ∧
    0 < dSum f (n + 2) (flowAmt n (c / f) pay) (flowTime n a) 2 y := by
  have hcf : 0 ≤ c / f := by positivity
  have hτ : 0 < (n : ℝ) + a := by
    rcases hpos with h | h
    · positivity
    · have : (0 : ℝ) < n := by exact_mod_cast h
      linarith
  -- the principal's term is strictly positive, all others non-negative
  have hA2 : ∀ r : ℕ, 0 < dAmt (flowAmt n (c / f) pay) (flowTime n a) (r + 1) (n + 1) := by
    intro r
    induction r with
      | zero => simp [dAmt, flowAmt, flowTime]; exact hτ
      | succ r ih =>
        have ht : 0 < flowTime n a (n + 1) := by simp [flowTime]; exact hτ
        have hr : (0 : ℝ) ≤ ((r + 1 : ℕ) : ℝ) := by positivity
        show 0 < dAmt (flowAmt n (c / f) pay) (flowTime n a) (r + 1) (n + 1) * (flowTime n a (n + 1) + ((r + 1 : ℕ) : ℝ))
        exact mul_pos ih (by linarith)
  have hterm : ∀ r : ℕ, 0 < discSum f (n + 2) (dAmt (flowAmt n (c / f) pay) (flowTime n a) (r + 1))
      (dTime (flowTime n a) (r + 1)) y := by
    intro r
    simp only [discSum]
    rw [Finset.sum_range_succ]
    have h1 : 0 ≤ ∑ k ∈ Finset.range (n + 1), dAmt (flowAmt n (c / f) pay) (flowTime n a) (r + 1) k
        * disc f (dTime (flowTime n a) (r + 1) k) y := by
      apply Finset.sum_nonneg
      intro k _
      exact mul_nonneg (dAmt_nonneg (flowAmt_nonneg hcf hpay) (flowTime_nonneg ha) _ _) (disc_pos hf _ hy).le
    have h2 := hA2 r
    have := mul_pos h2 (disc_pos hf (dTime (flowTime n a) (r + 1) (n + 1)) hy)
    linarith
  constructor
  · have := hterm 0
    simp only [dSum, pow_one]
    have hf' : 0 < 1 / f := by positivity
    nlinarith
  · have h1 := hterm 1
    simp only [dSum]
    have hne : (-(1 / f)) ≠ 0 := by
      have : 0 < 1 / f := by positivity
      linarith
    have h2 : 0 < (-(1 / f)) ^ 2 := by positivity
    exact mul_pos h2 h1

/-! ### Derivatives of the other families of branches -/

/-- C07: money-market last period (US_STREET `n = 0`, CFETS `n = 0`): `d/dy K/(1+βy) = −Kβ/(1+βy)²`. -/
theorem simple_price_hasDerivAt (K β y : ℝ) (h : 1 + β * y ≠ 0) :
    HasDerivAt (fun z => K * sdisc β z) (-(K * β) / (1 + β * y) ^ 2) y := by
  have h1 : HasDerivAt (fun z : ℝ => 1 + β * z) β y := by
    simpa using ((hasDerivAt_id y).const_mul β).const_add 1
  have h2 := (h1.inv h).const_mul K
  refine (h2.congr_of_eventuallyEq ?_).congr_deriv ?_
  · exact Filter.Eventually.of_forall (fun z => by simp [sdisc, one_div])
  · field_simp

/-- C07: US_TREASURY (`n ≥ 1`): the coded price `vw(y)·S(y)` — product rule, `S` the compound sum with `α = 0`. -/
theorem treasury_price_hasDerivAt {f : ℝ} (hf : 0 < f) (m : ℕ) (A T : ℕ → ℝ) (β y : ℝ) (h : 1 + β * y ≠ 0)
    (hy : y ∈ Ioi (-f)) :
    HasDerivAt (fun z => sdisc β z * discSum f m A T z)
      (-β / (1 + β * y) ^ 2 * discSum f m A T y + sdisc β y * dSum f m A T 1 y) y := by
  have h1 := simple_price_hasDerivAt 1 β y h
  simp only [one_mul] at h1
  have h2 := dSum_hasDerivAt hf m A T 0 hy
  have h2' : HasDerivAt (discSum f m A T) (dSum f m A T 1 y) y := by
    have e : dSum f m A T 0 = discSum f m A T := by funext z; exact dSum_zero f m A T z (dTime_zero T)
    rwa [e] at h2
  exact (h1.mul h2').congr_deriv (by ring)

end FinVerif.Props.C07
