/-
  C07 (part g) — accrued interest on top of the C15 day-count theorems (ACT/ACT ICMA from the generated
  `DayCount.year_frac`: strictly below one coupon; zero on a coupon date for the conventions C15 proves it for);
  zero-coupon bond, FRN and discount-curve identities "in their own quoting terms":
  zero price strictly decreasing in yield ⇒ unique yield; FRN loop = discounted sum, price = par when the
  discount margin equals the quoted margin on a coupon date, strictly decreasing in the discount margin ⇒
  unique DM; discount-curve price invariant under rescaling of the curve (valuation-date independence) and equal
  to the yield price on the curve made of the yield's own compound factors.
-/
import FinVerif.Props.C07e
import FinVerif.Props.C15

set_option linter.unusedSimpArgs false
set_option linter.unusedVariables false
set_option linter.unnecessarySeqFocus false

namespace FinVerif.Props.C07
open FinVerif FinVerif.Model.C07 FinVerif.Spec.C07 FinVerif.Lemmas.C07
open FinVerif.Gen.BondR

/-! ### Accrued interest from the day-count theorems of C15 -/

/-- C07 icma_accrued_lt_coupon, from C15: with the year fraction computed by the GENERATED
`DayCount.year_frac` under ACT/ACT ICMA (`dcc = 6`) for `pcd ≤ settle < ncd`, the GENERATED `accrued_interest`
(cum-dividend) is strictly below one coupon `c/f × face`, and non-negative. -/
theorem icma_accrued_lt_coupon_of_daycount (pcd settle ncd : PyDate) (fcode : Int) (term : Bool) (q : Rat)
    (hf : FinVerif.Model.annualFrequency fcode = some q) (hq : 0 < q)
    (h1 : pcd.serial ≤ settle.serial) (h2 : settle.serial < ncd.serial)
    (c face : ℝ) (hc : 0 < c) (hface : 0 < face) (exdt : Int) (hx : ¬ settle.serial > exdt) :
    let accf : ℝ := ((C15.fracOf (FinVerif.Gen.DayCount.year_frac pcd settle (some ncd) fcode term 6) : Rat) : ℝ)
    0 ≤ bond_accrued_interest settle.serial face accf (q : ℝ) c exdt ∧
    bond_accrued_interest settle.serial face accf (q : ℝ) c exdt < c / (q : ℝ) * face := by
  intro accf
  have hden : (0 : Rat) < ((ncd.serial - pcd.serial : Int) : Rat) := by
    have : 0 < ncd.serial - pcd.serial := by omega
    exact_mod_cast this
  have hne : q * ((ncd.serial - pcd.serial : Int) : Rat) ≠ 0 := (mul_pos hq hden).ne'
  have hfrac : accf = ((settle.serial - pcd.serial : Int) : ℝ) / ((q : ℝ) * ((ncd.serial - pcd.serial : Int) : ℝ)) := by
    simp only [accf]
    rw [C15.year_frac_act_act_icma pcd settle fcode term ncd q hf hne]
    simp only [C15.fracOf, FinVerif.Spec.actActICMA]
    push_cast
    ring
  have hqr : (0 : ℝ) < (q : ℝ) := by exact_mod_cast hq
  have hnum : (0 : ℝ) ≤ ((settle.serial - pcd.serial : Int) : ℝ) := by
    have : 0 ≤ settle.serial - pcd.serial := by omega
    exact_mod_cast this
  have hlt : ((settle.serial - pcd.serial : Int) : ℝ) < ((ncd.serial - pcd.serial : Int) : ℝ) := by
    have : settle.serial - pcd.serial < ncd.serial - pcd.serial := by omega
    exact_mod_cast this
  rw [gen_accrued_eq_model, hfrac]
  have hd : decide (settle.serial > exdt) = false := by simpa using hx
  rw [hd]
  refine ⟨accrued_nonneg_outside_exdiv _ _ _ _ ?_ hc.le hface.le, icma_accrued_lt_coupon _ _ _ _ _ hnum hlt hqr hc hface⟩
  have : (0 : ℝ) < ((ncd.serial - pcd.serial : Int) : ℝ) := lt_of_le_of_lt hnum hlt
  positivity

/-- C07: inside the ex-dividend window the same accrued is in `[−coupon, 0)`. -/
theorem icma_accrued_exdiv_of_daycount (pcd settle ncd : PyDate) (fcode : Int) (term : Bool) (q : Rat)
    (hf : FinVerif.Model.annualFrequency fcode = some q) (hq : 0 < q)
    (h1 : pcd.serial ≤ settle.serial) (h2 : settle.serial < ncd.serial)
    (c face : ℝ) (hc : 0 < c) (hface : 0 < face) (exdt : Int) (hx : settle.serial > exdt) :
    let accf : ℝ := ((C15.fracOf (FinVerif.Gen.DayCount.year_frac pcd settle (some ncd) fcode term 6) : Rat) : ℝ)
    (-(c / (q : ℝ) * face) ≤ bond_accrued_interest settle.serial face accf (q : ℝ) c exdt ∧
    bond_accrued_interest settle.serial face accf (q : ℝ) c exdt < 0) := by
  intro accf
  have hden : (0 : Rat) < ((ncd.serial - pcd.serial : Int) : Rat) := by
    have : 0 < ncd.serial - pcd.serial := by omega
    exact_mod_cast this
  have hne : q * ((ncd.serial - pcd.serial : Int) : Rat) ≠ 0 := (mul_pos hq hden).ne'
  have hfrac : accf = ((settle.serial - pcd.serial : Int) : ℝ) / ((q : ℝ) * ((ncd.serial - pcd.serial : Int) : ℝ)) := by
    simp only [accf]
    rw [C15.year_frac_act_act_icma pcd settle fcode term ncd q hf hne]
    simp only [C15.fracOf, FinVerif.Spec.actActICMA]
    push_cast
    ring
  have hqr : (0 : ℝ) < (q : ℝ) := by exact_mod_cast hq
  have hnum : (0 : ℝ) ≤ ((settle.serial - pcd.serial : Int) : ℝ) := by
    have : 0 ≤ settle.serial - pcd.serial := by omega
    exact_mod_cast this
  have hlt : ((settle.serial - pcd.serial : Int) : ℝ) < ((ncd.serial - pcd.serial : Int) : ℝ) := by
    have : settle.serial - pcd.serial < ncd.serial - pcd.serial := by omega
    exact_mod_cast this
  rw [gen_accrued_eq_model, hfrac]
  have hd : decide (settle.serial > exdt) = true := by simpa using hx
  rw [hd]
  exact icma_accrued_exdiv_range _ _ _ _ _ hnum hlt hqr hc hface

/-- C07 accrued zero on a coupon date, from C15: for the conventions for which C15 proves "zero on equal dates"
(30/360 Bond, 30E/360, 30E+/360 off a 31st, ACT/365F, ACT/360, SIMPLE) the generated accrued on the previous
coupon date itself (cum-dividend) is 0. -/
theorem accrued_zero_on_coupon_date_of_daycount (pcd : PyDate) (ncd : Option PyDate) (fcode : Int) (term : Bool)
    (dcc : Int) (h : dcc = 1 ∨ dcc = 2 ∨ dcc = 4 ∨ dcc = 7 ∨ dcc = 8 ∨ dcc = 10)
    (h31 : pcd.d ≤ 31) (hplus : dcc = 4 → pcd.d ≠ 31) (face f c : ℝ) (exdt : Int) (hx : ¬ pcd.serial > exdt) :
    bond_accrued_interest pcd.serial face
      ((C15.fracOf (FinVerif.Gen.DayCount.year_frac pcd pcd ncd fcode term dcc) : Rat) : ℝ) f c exdt = 0 := by
  rw [C15.zero_on_equal_dates pcd ncd fcode term dcc h h31 hplus]
  simp [bond_accrued_interest, hx]

/-- C07: under ACT/ACT ICMA too (numerator `settle − pcd = 0`). -/
theorem icma_accrued_zero_on_coupon_date (pcd ncd : PyDate) (fcode : Int) (term : Bool) (q : Rat)
    (hf : FinVerif.Model.annualFrequency fcode = some q) (hq : 0 < q) (h2 : pcd.serial < ncd.serial)
    (face c : ℝ) (exdt : Int) (hx : ¬ pcd.serial > exdt) :
    bond_accrued_interest pcd.serial face
      ((C15.fracOf (FinVerif.Gen.DayCount.year_frac pcd pcd (some ncd) fcode term 6) : Rat) : ℝ) (q : ℝ) c exdt = 0 := by
  have hden : (0 : Rat) < ((ncd.serial - pcd.serial : Int) : Rat) := by
    have : 0 < ncd.serial - pcd.serial := by omega
    exact_mod_cast this
  have hne : q * ((ncd.serial - pcd.serial : Int) : Rat) ≠ 0 := (mul_pos hq hden).ne'
  rw [C15.year_frac_act_act_icma pcd pcd fcode term ncd q hf hne]
  simp [C15.fracOf, FinVerif.Spec.actActICMA, bond_accrued_interest, hx]

/-! ### Zero-coupon bond: monotone in yield, unique yield -/

/-- C07: the zero-coupon price is strictly decreasing in the yield, in both quoting branches (simple up to a
year: `1 + y·t > 0`; annual compounding beyond: `1 + y > 0`), for a positive time to maturity. -/
theorem zero_price_strictAnti_in_yield (y y' t : ℝ) (le1 : Bool) (ht : 0 < t) (hlt : y < y')
    (hdom : if le1 then 0 < 1 + (y + 1.2345e-11) * t else 0 < 1 + (y + 1.2345e-11)) :
    zeroDirty y' t le1 < zeroDirty y t le1 := by
  cases le1 with
  | true =>
    simp only [if_true] at hdom
    simp only [zeroDirty, ytmShift, if_true]
    have h2 : 1 + (y + 1.2345e-11) * t < 1 + (y' + 1.2345e-11) * t := by nlinarith
    exact div_lt_div_of_pos_left (by norm_num) hdom h2
  | false =>
    simp only [Bool.false_eq_true, if_false] at hdom
    simp only [zeroDirty, ytmShift, Bool.false_eq_true, if_false, powF_real]
    have h2 : (1 + (y + 1.2345e-11)) ^ t < (1 + (y' + 1.2345e-11)) ^ t :=
      Real.rpow_lt_rpow hdom.le (by linarith) ht
    exact div_lt_div_of_pos_left (by norm_num) (Real.rpow_pos_of_pos hdom t) h2

/-- C07: zero-coupon yield round trip from the solver postcondition: equal prices ⇒ equal yields. -/
theorem zero_ytm_roundtrip_of_postcondition (y y' t : ℝ) (le1 : Bool) (ht : 0 < t)
    (hdom : if le1 then 0 < 1 + (y + 1.2345e-11) * t else 0 < 1 + (y + 1.2345e-11))
    (hdom' : if le1 then 0 < 1 + (y' + 1.2345e-11) * t else 0 < 1 + (y' + 1.2345e-11))
    (hpost : zeroDirty y' t le1 = zeroDirty y t le1) : y' = y := by
  rcases lt_trichotomy y' y with h | h | h
  · exact absurd hpost (ne_of_gt (zero_price_strictAnti_in_yield y' y t le1 ht h hdom'))
  · exact h
  · exact absurd hpost (ne_of_lt (zero_price_strictAnti_in_yield y y' t le1 ht h hdom))

/-- C07: the two quoting branches of the zero-coupon price agree at exactly one year to maturity (the switch
`acc_factor <= 1` introduces no jump). -/
theorem zero_branches_agree_at_one_year (y : ℝ) : zeroDirty y 1 true = zeroDirty y 1 false := by
  simp [zeroDirty, ytmShift]

/-- C07: zero-coupon price at (shifted) yield 0 is par, in both branches. -/
theorem zero_price_par_at_zero_yield (t : ℝ) (le1 : Bool) : zeroDirty (-1.2345e-11) t le1 = 100 := by
  cases le1 <;> simp [zeroDirty, ytmShift]

/-! ### FRN: loop = discounted sum; par at DM = quoted margin; unique discount margin -/

/-- value (per unit face) of the coupons after the next one and of the principal, given the discount factor `df`
to the next coupon date: each period discounts at `future_ibor + dm`, pays `(future_ibor + q)·α` -/
noncomputable def frnTail (F q dm : ℝ) : List ℝ → ℝ → ℝ
  | [], df => df
  | a :: rest, df => (F + q) * a * (df / (1 + a * (F + dm))) + frnTail F q dm rest (df / (1 + a * (F + dm)))

/-- C07: the loop of `BondFRN.dirty_price_from_dm` is this discounted sum (any number of periods). -/
theorem frnLoop_eq_tail (F q dm : ℝ) (l : List ℝ) (pv df : ℝ) :
    (frnLoop F q dm l (pv, df)).1 + (frnLoop F q dm l (pv, df)).2 = pv + frnTail F q dm l df := by
  induction l generalizing pv df with
  | nil => simp [frnLoop, frnTail]
  | cons a t ih =>
    simp only [frnLoop, frnTail]
    rw [ih]; ring

/-- C07 FRN dirty price from the discount margin = PV of the known next coupon, the projected later coupons
and the principal, per 100. -/
theorem frn_dirty_eq_pv (a0 a1 nc L F q dm : ℝ) (alphas : List ℝ) :
    frnDirty a0 a1 nc L F q dm alphas
      = (nc * a1 * (1 / (1 + a0 * (L + dm))) + frnTail F q dm alphas (1 / (1 + a0 * (L + dm)))) * 100 := by
  simp only [frnDirty]
  rw [frnLoop_eq_tail]

/-- at `dm = q` every later period is worth exactly its opening discount factor (telescoping) -/
theorem frnTail_at_quoted_margin (F q : ℝ) (l : List ℝ) (df : ℝ) (h : ∀ a ∈ l, 1 + a * (F + q) ≠ 0) :
    frnTail F q q l df = df := by
  induction l generalizing df with
  | nil => simp [frnTail]
  | cons a t ih =>
    have ha : 1 + a * (F + q) ≠ 0 := h a (by simp)
    simp only [frnTail]
    rw [ih _ (fun b hb => h b (by simp [hb]))]
    rw [show (F + q) * a * (df / (1 + a * (F + q))) + df / (1 + a * (F + q))
        = df * ((1 + a * (F + q)) / (1 + a * (F + q))) by ring, div_self ha, mul_one]

/-- C07 FRN par identity AS CODED: on a coupon date (`alpha0 = alpha1`: the whole period is ahead), when the next
coupon is `current_ibor + q` and the discount margin equals the quoted margin, the dirty price is par — for ANY
quoted margin, any list of period lengths, any future index level. -/
theorem frn_par_at_dm_eq_quoted_margin (a0 L F q : ℝ) (alphas : List ℝ)
    (h0 : 1 + a0 * (L + q) ≠ 0) (h : ∀ a ∈ alphas, 1 + a * (F + q) ≠ 0) :
    frnDirty a0 a0 (L + q) L F q q alphas = 100 := by
  rw [frn_dirty_eq_pv, frnTail_at_quoted_margin F q alphas _ h]
  rw [show (L + q) * a0 * (1 / (1 + a0 * (L + q))) + 1 / (1 + a0 * (L + q))
      = (1 + a0 * (L + q)) / (1 + a0 * (L + q)) by ring, div_self h0]
  norm_num

/-- non-vacuity (quarterly periods, 1.25 % margin) -/
example : frnDirty 0.25 0.25 (0.03 + 0.0125) 0.03 0.035 0.0125 0.0125 [0.25, 0.25, 0.26] = (100 : ℝ) :=
  frn_par_at_dm_eq_quoted_margin 0.25 0.03 0.035 0.0125 _ (by norm_num) (by
    intro a ha; simp at ha; rcases ha with rfl | rfl | rfl <;> norm_num)

/-- off a coupon date the identity needs the accrual: with `alpha0 < alpha1` the dirty price at `dm = q` is
`(1 + (L+q)·alpha1)/(1 + (L+q)·alpha0)` per unit — above par by the accrued part of the coupon. -/
theorem frn_dirty_at_quoted_margin (a0 a1 L F q : ℝ) (alphas : List ℝ)
    (h0 : 1 + a0 * (L + q) ≠ 0) (h : ∀ a ∈ alphas, 1 + a * (F + q) ≠ 0) :
    frnDirty a0 a1 (L + q) L F q q alphas = (1 + (L + q) * a1) / (1 + a0 * (L + q)) * 100 := by
  rw [frn_dirty_eq_pv, frnTail_at_quoted_margin F q alphas _ h]
  ring

/-- the later-period value is monotone in the opening discount factor and antitone in the discount margin -/
theorem frnTail_mono (F q dm dm' : ℝ) (l : List ℝ) (df df' : ℝ) (hdm : dm ≤ dm') (hc : 0 ≤ F + q)
    (hl : ∀ a ∈ l, 0 ≤ a ∧ 0 < 1 + a * (F + dm)) (hdf' : 0 < df') (hle : df' ≤ df) :
    frnTail F q dm' l df' ≤ frnTail F q dm l df ∧ (df' < df → frnTail F q dm' l df' < frnTail F q dm l df) := by
  induction l generalizing df df' with
  | nil => exact ⟨by simpa [frnTail] using hle, fun h => by simpa [frnTail] using h⟩
  | cons a t ih =>
    obtain ⟨ha0, hapos⟩ := hl a (by simp)
    have hapos' : 0 < 1 + a * (F + dm') := by nlinarith
    have hden : 1 + a * (F + dm) ≤ 1 + a * (F + dm') := by nlinarith
    have hd' : 0 < df' / (1 + a * (F + dm')) := div_pos hdf' hapos'
    have hdle : df' / (1 + a * (F + dm')) ≤ df / (1 + a * (F + dm)) :=
      div_le_div₀ (le_trans hdf'.le hle) hle hapos hden
    have hdlt : df' < df → df' / (1 + a * (F + dm')) < df / (1 + a * (F + dm)) := by
      intro hlt
      calc df' / (1 + a * (F + dm')) ≤ df' / (1 + a * (F + dm)) := div_le_div_of_nonneg_left hdf'.le hapos hden
        _ < df / (1 + a * (F + dm)) := div_lt_div_of_pos_right hlt hapos
    obtain ⟨ih1, ih2⟩ := ih _ _ (fun b hb => hl b (by simp [hb])) hd' hdle
    have hk : 0 ≤ (F + q) * a := mul_nonneg hc ha0
    simp only [frnTail]
    constructor
    · have := mul_le_mul_of_nonneg_left hdle hk
      linarith
    · intro hlt
      have := mul_le_mul_of_nonneg_left hdle hk
      have := ih2 (hdlt hlt)
      linarith

/-- C07: the FRN dirty price is STRICTLY decreasing in the discount margin (settlement strictly before the
next coupon date, non-negative coupons, positive discounting denominators at the lower margin). -/
theorem frn_price_strictAnti_in_dm (a0 a1 nc L F q dm dm' : ℝ) (alphas : List ℝ)
    (hlt : dm < dm') (ha0 : 0 < a0) (h0 : 0 < 1 + a0 * (L + dm)) (hnc : 0 ≤ nc * a1) (hc : 0 ≤ F + q)
    (hl : ∀ a ∈ alphas, 0 ≤ a ∧ 0 < 1 + a * (F + dm)) :
    frnDirty a0 a1 nc L F q dm' alphas < frnDirty a0 a1 nc L F q dm alphas := by
  rw [frn_dirty_eq_pv, frn_dirty_eq_pv]
  have h0' : 0 < 1 + a0 * (L + dm') := by nlinarith
  have hdf : 1 / (1 + a0 * (L + dm')) < 1 / (1 + a0 * (L + dm)) :=
    one_div_lt_one_div_of_lt h0 (by nlinarith)
  have hpos : 0 < 1 / (1 + a0 * (L + dm')) := by positivity
  have ht := (frnTail_mono F q dm dm' alphas _ _ hlt.le hc hl hpos hdf.le).2 hdf
  have h1 : nc * a1 * (1 / (1 + a0 * (L + dm'))) ≤ nc * a1 * (1 / (1 + a0 * (L + dm))) :=
    mul_le_mul_of_nonneg_left hdf.le hnc
  linarith

/-- C07 discount-margin round trip from the solver postcondition of `discount_margin`: equal prices ⇒ equal
margins. -/
theorem frn_dm_roundtrip_of_postcondition (a0 a1 nc L F q dm dm' : ℝ) (alphas : List ℝ)
    (ha0 : 0 < a0) (hnc : 0 ≤ nc * a1) (hc : 0 ≤ F + q)
    (h0 : 0 < 1 + a0 * (L + dm)) (hl : ∀ a ∈ alphas, 0 ≤ a ∧ 0 < 1 + a * (F + dm))
    (h0' : 0 < 1 + a0 * (L + dm')) (hl' : ∀ a ∈ alphas, 0 ≤ a ∧ 0 < 1 + a * (F + dm'))
    (hpost : frnDirty a0 a1 nc L F q dm' alphas = frnDirty a0 a1 nc L F q dm alphas) : dm' = dm := by
  rcases lt_trichotomy dm' dm with h | h | h
  · exact absurd hpost (ne_of_gt (frn_price_strictAnti_in_dm a0 a1 nc L F q dm' dm alphas h ha0 h0' hnc hc hl'))
  · exact h
  · exact absurd hpost (ne_of_lt (frn_price_strictAnti_in_dm a0 a1 nc L F q dm dm' alphas h ha0 h0 hnc hc hl))

/-! ### Price from a discount curve: independence of the curve's valuation date -/

/-- C07: the price from a discount curve is a FORWARD price: multiplying every discount factor (coupon dates and
settlement date) by the same `λ ≠ 0` — i.e. moving the curve's valuation date — leaves it unchanged; stated of
the loop as coded, any schedule with increasing dates not yet matured, ex-dividend or not. -/
theorem curve_price_scale_invariant (first : Int × ℝ) (sched : List (Int × ℝ)) (settle : Int) (exDiv : Bool)
    (dfSettle c f lam : ℝ) (hlam : lam ≠ 0)
    (hne : sched ≠ []) (hinc : (sched.map (·.1)).Pairwise (· < ·)) (hlast : ∀ x ∈ sched.getLast?, x.1 > settle) :
    dirtyPriceFromCurve ((first.1, lam * first.2) :: sched.map (fun x => (x.1, lam * x.2))) settle exDiv
        (lam * dfSettle) c f
      = dirtyPriceFromCurve (first :: sched) settle exDiv dfSettle c f := by
  have hne' : sched.map (fun x => (x.1, lam * x.2)) ≠ [] := by simpa using hne
  have hinc' : ((sched.map (fun x : Int × ℝ => (x.1, lam * x.2))).map (·.1)).Pairwise (· < ·) := by
    have : (sched.map (fun x : Int × ℝ => (x.1, lam * x.2))).map (·.1) = sched.map (·.1) := by
      simp [List.map_map, Function.comp_def]
    rw [this]; exact hinc
  have hlast' : ∀ x ∈ (sched.map (fun x : Int × ℝ => (x.1, lam * x.2))).getLast?, x.1 > settle := by
    intro x hx
    rw [List.getLast?_map] at hx
    obtain ⟨y, hy, rfl⟩ := Option.map_eq_some_iff.mp hx
    exact hlast y hy
  rw [price_from_curve_eq_pv _ _ settle exDiv _ c f hne' hinc' hlast',
    price_from_curve_eq_pv first sched settle exDiv dfSettle c f hne hinc hlast]
  simp only [priceOnCurve, curveFlows_scale, lastDf_scale lam sched hne]
  congr 1
  by_cases hz : dfSettle = 0
  · simp [hz]
  · field_simp

/-- non-vacuity -/
example : dirtyPriceFromCurve [((0 : Int), (2 : ℝ) * 1), (10, 2 * 0.9), (20, 2 * 0.8)] 5 false (2 * 0.95) 0.05 2
    = dirtyPriceFromCurve [((0 : Int), (1 : ℝ)), (10, 0.9), (20, 0.8)] 5 false 0.95 0.05 2 :=
  curve_price_scale_invariant (0, 1) [(10, 0.9), (20, 0.8)] 5 false 0.95 0.05 2 2 (by norm_num) (by simp) (by simp) (by simp)

/-! ### Curve pricing = yield pricing on the yield's own discount factors -/

/-- the coupon dates after settlement with the discount factors of a flat yield: `df(d_k) = v^k · v^α` -/
noncomputable def yieldSched (d : ℕ → Int) (v a : ℝ) (n : ℕ) : List (Int × ℝ) :=
  (List.range (n + 1)).map (fun k => (d k, v ^ k * v ^ a))

theorem curveFlows_seen_range (settle : Int) (exDiv : Bool) (cf : ℝ) (d : ℕ → Int) (g : ℕ → ℝ)
    (hd : ∀ k, d k > settle) (m s : ℕ) :
    curveFlows settle exDiv cf ((List.range m).map (fun k => (d (k + s), g (k + s)))) true
      = ∑ k ∈ Finset.range m, cf * g (k + s) := by
  induction m generalizing s with
  | zero => simp [curveFlows]
  | succ m ih =>
    rw [List.range_succ_eq_map, List.map_cons, List.map_map, Finset.sum_range_succ']
    have h0 : d (0 + s) > settle := hd _
    simp only [curveFlows, if_pos h0]
    have := ih (s + 1)
    have e : ((fun k => (d (k + s), g (k + s))) ∘ Nat.succ) = (fun k => (d (k + (s + 1)), g (k + (s + 1)))) := by
      funext k; simp only [Function.comp, Nat.succ_eq_add_one]; rw [Nat.add_right_comm, Nat.add_assoc]
    rw [e, this]
    simp only [Bool.not_true, Bool.and_false, Bool.false_eq_true, if_false]
    have e2 : ∀ k, g (k + 1 + s) = g (k + (s + 1)) := fun k => by rw [Nat.add_right_comm, Nat.add_assoc]
    simp only [e2]
    ring

theorem curveFlows_yieldSched (settle : Int) (exDiv : Bool) (cf v a : ℝ) (d : ℕ → Int) (hd : ∀ k, d k > settle) (n : ℕ) :
    curveFlows settle exDiv cf (yieldSched d v a n) false
      = ∑ k ∈ Finset.range (n + 1), cf * (if k = 0 then payFirst exDiv else 1) * (v ^ k * v ^ a) := by
  unfold yieldSched
  rw [List.range_succ_eq_map, List.map_cons, List.map_map, Finset.sum_range_succ']
  have h0 : d 0 > settle := hd 0
  simp only [curveFlows, if_pos h0]
  have e : ((fun k => (d k, v ^ k * v ^ a)) ∘ Nat.succ) = (fun k => (d (k + 1), v ^ (k + 1) * v ^ a)) := by
    funext k; rfl
  rw [e, curveFlows_seen_range settle exDiv cf d (fun k => v ^ k * v ^ a) hd n 1]
  have : ∀ k : ℕ, (if k + 1 = 0 then payFirst exDiv else (1 : ℝ)) = 1 := fun k => by simp
  simp only [this, if_true]
  cases exDiv <;> simp [payFirst] <;> ring

theorem lastDf_yieldSched (d : ℕ → Int) (v a : ℝ) (n : ℕ) : lastDf (yieldSched d v a n) = v ^ n * v ^ a := by
  unfold yieldSched
  rw [List.range_succ, List.map_append]
  rw [lastDf_append _ _ (by simp)]
  simp [lastDf]

/-- C07 (yield pricing and curve pricing agree): on a curve whose discount factors at the coupon dates after
settlement are the compound factors `v^k·v^α` of a yield `y` (and `df(settle) = 1`), the loop of
`dirty_price_from_discount_curve` returns the UK-DMO `dirty_price_from_ytm` cash-flow sum — any number of past
and future coupon dates, ex-dividend or not. -/
theorem curve_price_eq_yield_price (first : Int × ℝ) (past : List (Int × ℝ)) (d : ℕ → Int) (n : ℕ) (settle : Int)
    (exDiv : Bool) (c f y a aY : ℝ) (hpast : ∀ x ∈ past, x.1 ≤ settle) (hd : ∀ k, d k > settle)
    (hinc : ((past ++ yieldSched d (1 / (1 + y / f)) a n).map (·.1)).Pairwise (· < ·)) :
    dirtyPriceFromCurve (first :: (past ++ yieldSched d (1 / (1 + y / f)) a n)) settle exDiv 1 c f
      = .ok (dirtyPrice .ukDmo n c f y a aY (payFirst exDiv)) := by
  have hys : yieldSched d (1 / (1 + y / f)) a n ≠ [] := by simp [yieldSched]
  have hne : past ++ yieldSched d (1 / (1 + y / f)) a n ≠ [] := fun h => hys (List.append_eq_nil_iff.mp h).2
  have hlast : ∀ x ∈ (past ++ yieldSched d (1 / (1 + y / f)) a n).getLast?, x.1 > settle := by
    intro x hx
    rw [List.getLast?_append_of_ne_nil _ hys] at hx
    have hmem : x ∈ yieldSched d (1 / (1 + y / f)) a n := List.mem_of_getLast? hx
    simp only [yieldSched, List.mem_map] at hmem
    obtain ⟨k, _, rfl⟩ := hmem
    exact hd k
  rw [price_from_curve_eq_pv first _ settle exDiv 1 c f hne hinc hlast]
  simp only [priceOnCurve, curveFlows_skip_past _ _ _ _ _ _ hpast, lastDf_append _ _ hys,
    curveFlows_yieldSched settle exDiv (c / f) _ a d hd n, lastDf_yieldSched, dirtyPrice,
    dirtyPerUnit_ukDmo_eq_pvOfV, pvOfV, div_one]

/-- non-vacuity: one past coupon date, three future ones -/
example : dirtyPriceFromCurve (((0 : Int), (1 : ℝ)) :: ([((10 : Int), (1 : ℝ))] ++
      yieldSched (fun k => 20 + 10 * (k : Int)) (1 / (1 + 0.04 / 2)) 0.5 2)) 15 false 1 0.05 2
    = .ok (dirtyPrice .ukDmo 2 0.05 2 0.04 0.5 0 (payFirst false)) :=
  curve_price_eq_yield_price (0, 1) [(10, 1)] _ 2 15 false 0.05 2 0.04 0.5 0 (by simp) (by intro k; omega)
    (by simp [yieldSched, List.range_succ])


/-- C07: annuity price is linear in the coupon (loop as coded). -/
theorem annuity_linear_in_coupon (k cpn : ℝ) (l : List (ℝ × ℝ)) :
    annuityDirty (k * cpn) l = k * annuityDirty cpn l := by
  rw [annuity_eq_sum, annuity_eq_sum]
  have : ∀ l : List (ℝ × ℝ), annuitySum (k * cpn) l = k * annuitySum cpn l := by
    intro l
    induction l with
    | nil => simp [annuitySum]
    | cons x t ih => obtain ⟨a, df⟩ := x; simp only [annuitySum, ih]; ring
  rw [this]; ring

end FinVerif.Props.C07
