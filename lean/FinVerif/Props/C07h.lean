/-
  C07 (part h) — the LOOPS of the bond classes.  `Gen/BondLoopR.lean` is cut out of the source `for` statements on
  every run (header, initial values, body as a step function, tail; `tools/py2lean/registry/bonds.py`).  Here the
  hand-written loops of `Model/C07Bond.lean` are proved to BE those loops: same range / slice, same initial state,
  fold step = generated step (so the comparison operator on the dates, the index offsets, the ex-dividend test and
  the arithmetic of each iteration are the source's), same tail.  Then the schedule facts that needed this:
  `_calc_pcd_ncd` brackets every settlement date in [issue, maturity), uniquely for an increasing schedule, and
  the coupon count of `dirty_price_from_ytm` is the number of schedule dates after settlement.
-/
import FinVerif.Props.C07d
import FinVerif.Lemmas.C07Loop
import FinVerif.Gen.BondLoopR

set_option linter.unusedSimpArgs false
set_option linter.unusedVariables false
set_option linter.unnecessarySeqFocus false

namespace FinVerif.Props.C07
open FinVerif FinVerif.Model.C07 FinVerif.Spec.C07 FinVerif.Lemmas.C07
open FinVerif.Gen.BondR FinVerif.Gen.BondLoopR

/-! ### `Bond._calc_pcd_ncd` -/

/-- C07 (tie, loop header): the source scans `for i_flow in range(1, num_flows)`. -/
theorem pcd_ncd_range_is_generated (n : Int) : pcd_ncd_range n = (1, n) := rfl

/-- C07 (tie, loop body): the generated body of the `_calc_pcd_ncd` loop breaks exactly on the first coupon date
STRICTLY after settlement (`>`; a coupon paid on the settlement date goes to the seller) and then stores
`pcd = cpn_dts[i_flow - 1]`, `ncd = cpn_dts[i_flow]`. -/
theorem pcd_ncd_step_spec (settle i d : Int) :
    pcd_ncd_step settle i d = if d > settle then (true, i - 1, i) else (false, -1, -1) := by
  unfold pcd_ncd_step
  by_cases h : d > settle <;> simp [h]

/-- the `break` value of one generated iteration: the index stored into `self.ncd` -/
noncomputable def pcdNcdBody (dates : List Int) (settle : Int) (i : Int) : Option Nat :=
  let g := pcd_ncd_step settle i (dates.getD i.toNat 0)
  if g.1 then some g.2.2.toNat else none

/-- C07 (tie, one iteration): one unfolding of the hand-written scan is one call of the generated loop body. -/
theorem ncdGo_step_is_generated (settle : Int) (i : Nat) (d : Int) (rest : List Int) :
    ncdGo settle i (d :: rest)
      = (let g := pcd_ncd_step settle i d
         if g.1 then some g.2.2.toNat else ncdGo settle (i + 1) rest) := by
  rw [pcd_ncd_step_spec]
  conv_lhs => unfold ncdGo
  by_cases h : d > settle <;> simp [h]

/-- C07 (tie, whole loop): the hand model of `_calc_pcd_ncd` IS the Python loop
`for i_flow in range(1, num_flows): <generated body>` with `break`, for every schedule and settlement date;
`none` = the loop's `else` clause (the source raises there). -/
theorem ncdIndex_is_generated_loop (dates : List Int) (settle : Int) :
    ncdIndex dates settle
      = forRangeBreak (pcd_ncd_range (dates.length : Int)) (pcdNcdBody dates settle) := by
  cases dates with
  | nil => simp [ncdIndex, ncdGo, forRangeBreak, pcd_ncd_range]
  | cons d0 t =>
    simp only [ncdIndex, List.tail_cons, forRangeBreak, pcd_ncd_range_is_generated, List.length_cons]
    rw [ncdGo_eq_findSome settle
      (fun i d => let g := pcd_ncd_step settle i d; if g.1 then some g.2.2.toNat else none)
      (by intro i d; simp only [pcd_ncd_step_spec]; by_cases h : d > settle <;> simp [h]) t 1]
    have hlen : (((t.length + 1 : Nat) : Int) - 1).toNat = t.length := by push_cast; omega
    rw [hlen]
    congr 1
    funext k
    simp only [pcdNcdBody]
    have h1 : (((1 : Nat) : Int) + (k : Int)).toNat = k + 1 := by omega
    have h2 : ((1 : Int) + (k : Int)).toNat = k + 1 := by omega
    simp [h2, Nat.cast_one]

/-- C07 (tie): when the generated body breaks at index `i`, the previous coupon date it stores is the schedule
entry just before the next coupon date: `pcd_idx = ncd_idx − 1`. -/
theorem pcd_idx_is_ncd_idx_pred (settle i d : Int) (h : (pcd_ncd_step settle i d).1 = true) :
    (pcd_ncd_step settle i d).2.1 = (pcd_ncd_step settle i d).2.2 - 1 ∧ (pcd_ncd_step settle i d).2.2 = i := by
  rw [pcd_ncd_step_spec] at h ⊢
  by_cases hd : d > settle <;> simp [hd] at h ⊢

/-- C07 pcd_ncd_brackets_settlement: for EVERY schedule (no monotonicity needed) and every settlement date with
`issue ≤ settle < maturity`, `_calc_pcd_ncd` returns (does not fall through to its `raise`), with consecutive
schedule entries `pcd = cpn_dts[i−1] ≤ settle < cpn_dts[i] = ncd`. -/
theorem pcd_ncd_brackets_settlement (dates : List Int) (settle : Int)
    (hissue : ∀ d ∈ dates.head?, d ≤ settle) (hmat : ∃ d ∈ dates.getLast?, settle < d) :
    ∃ i pcd ncd, ncdIndex dates settle = some i ∧ 1 ≤ i ∧ i < dates.length ∧
      dates[i - 1]? = some pcd ∧ dates[i]? = some ncd ∧ pcd ≤ settle ∧ settle < ncd := by
  cases dates with
  | nil => simp at hmat
  | cons d0 t =>
    have h0 : d0 ≤ settle := hissue d0 (by simp)
    obtain ⟨dl, hdl, hlt⟩ := hmat
    have hmem : dl ∈ t := by
      cases t with
      | nil => simp at hdl; omega
      | cons d1 t' =>
        have : (d0 :: d1 :: t').getLast? = (d1 :: t').getLast? := by simp [List.getLast?_cons_cons]
        rw [this] at hdl
        exact List.mem_of_getLast? hdl
    obtain ⟨i, hi⟩ := ncdGo_isSome_of_exists settle t 1 ⟨dl, hmem, hlt⟩
    have hidx : ncdIndex (d0 :: t) settle = some i := by simpa [ncdIndex] using hi
    obtain ⟨h1, h2, h3, h4⟩ := ncdIndex_spec (d0 :: t) settle i hidx
    have hi_lt : i < (d0 :: t).length := h2
    have hp_lt : i - 1 < (d0 :: t).length := by omega
    refine ⟨i, (d0 :: t)[i - 1], (d0 :: t)[i], hidx, h1, h2, List.getElem?_eq_getElem hp_lt,
      List.getElem?_eq_getElem hi_lt, ?_, ?_⟩
    · by_cases hi1 : i = 1
      · subst hi1; simpa using h0
      · exact h4 (i - 1) (by omega) (by omega) _ (List.getElem?_eq_getElem hp_lt)
    · have := h3 _ (List.getElem?_eq_getElem hi_lt); omega

/-- C07: for an increasing schedule the bracket is unique — whichever consecutive pair contains the settlement date
is the one `_calc_pcd_ncd` returns. -/
theorem pcd_ncd_unique_bracket (dates : List Int) (settle : Int) (j : Nat) (pcd ncd : Int)
    (hs : dates.Pairwise (· < ·)) (hj : 1 ≤ j)
    (hp : dates[j - 1]? = some pcd) (hn : dates[j]? = some ncd) (h1 : pcd ≤ settle) (h2 : settle < ncd) :
    ncdIndex dates settle = some j := by
  have hjl : j < dates.length := by
    by_contra hc; rw [List.getElem?_eq_none (by omega)] at hn; simp at hn
  have hne : dates ≠ [] := by intro h; subst h; simp at hjl
  have hhead : ∀ d ∈ dates.head?, d ≤ settle := by
    intro d hd
    cases dates with
    | nil => simp at hd
    | cons d0 t =>
      simp at hd; subst hd
      by_cases hj1 : j - 1 = 0
      · rw [hj1] at hp; simp at hp; omega
      · have hlt : (d0 :: t)[0] < (d0 :: t)[j - 1] :=
          List.pairwise_iff_getElem.mp hs 0 (j - 1) (by simp) (by omega) (by omega)
        have : (d0 :: t)[j - 1] = pcd := by
          have := List.getElem?_eq_getElem (l := d0 :: t) (i := j - 1) (by omega)
          rw [this] at hp; simpa using hp
        simp at hlt; omega
  have hlast : ∃ d ∈ dates.getLast?, settle < d := by
    refine ⟨dates.getLast hne, by simp [List.getLast?_eq_some_getLast hne], ?_⟩
    rw [List.getLast_eq_getElem]
    have hnj : dates[j] = ncd := by
      have := List.getElem?_eq_getElem hjl; rw [this] at hn; simpa using hn
    by_cases hjl' : j = dates.length - 1
    · subst hjl'; omega
    · have := List.pairwise_iff_getElem.mp hs j (dates.length - 1) hjl (by omega) (by omega)
      omega
  obtain ⟨i, p', n', hi, hi1, hil, hp', hn', hb1, hb2⟩ := pcd_ncd_brackets_settlement dates settle hhead hlast
  have hgi : dates[i] = n' := by
    have := List.getElem?_eq_getElem hil; rw [this] at hn'; simpa using hn'
  have hgi' : dates[i - 1] = p' := by
    have := List.getElem?_eq_getElem (l := dates) (i := i - 1) (by omega); rw [this] at hp'; simpa using hp'
  have hgj : dates[j] = ncd := by
    have := List.getElem?_eq_getElem hjl; rw [this] at hn; simpa using hn
  have hgj' : dates[j - 1] = pcd := by
    have := List.getElem?_eq_getElem (l := dates) (i := j - 1) (by omega); rw [this] at hp; simpa using hp
  -- i < j and j < i are both impossible for an increasing list
  rcases Nat.lt_trichotomy i j with hlt | heq | hgt
  · exfalso
    have hle : dates[i] ≤ dates[j - 1] := by
      by_cases he : i = j - 1
      · subst he; exact le_refl _
      · exact le_of_lt (List.pairwise_iff_getElem.mp hs i (j - 1) hil (by omega) (by omega))
    omega
  · rw [hi, heq]
  · exfalso
    have hle : dates[j] ≤ dates[i - 1] := by
      by_cases he : j = i - 1
      · subst he; exact le_refl _
      · exact le_of_lt (List.pairwise_iff_getElem.mp hs j (i - 1) hjl (by omega) (by omega))
    omega

/-- C07: the loop falls through to its `raise FinError("Settlement date is on or after the last coupon date.")`
exactly when no schedule date after the issue date is after settlement. -/
theorem pcd_ncd_raises_iff (dates : List Int) (settle : Int) :
    ncdIndex dates settle = none ↔ ∀ d ∈ dates.tail, d ≤ settle := by
  simp only [ncdIndex]; exact ncdGo_none_iff settle dates.tail 1

/-- C07 pcd_eq_settle_on_coupon_date: on a coupon date (`settle = cpn_dts[j]`, not the last one) of an increasing
schedule the loop returns the NEXT period: `ncd = cpn_dts[j+1]`, `pcd = settle` — accrual restarts. -/
theorem pcd_eq_settle_on_coupon_date (dates : List Int) (settle : Int) (j : Nat) (ncd : Int)
    (hs : dates.Pairwise (· < ·)) (hj : dates[j]? = some settle) (hn : dates[j + 1]? = some ncd) :
    ncdIndex dates settle = some (j + 1) := by
  have hjl : j + 1 < dates.length := by
    by_contra hc; rw [List.getElem?_eq_none (by omega)] at hn; simp at hn
  have h1 : dates[j] = settle := by
    have := List.getElem?_eq_getElem (l := dates) (i := j) (by omega); rw [this] at hj; simpa using hj
  have h2 : dates[j + 1] = ncd := by
    have := List.getElem?_eq_getElem hjl; rw [this] at hn; simpa using hn
  have hlt := List.pairwise_iff_getElem.mp hs j (j + 1) (by omega) hjl (by omega)
  exact pcd_ncd_unique_bracket dates settle (j + 1) settle ncd hs (by omega) (by simpa using hj) hn (le_refl _)
    (by omega)

example : ncdIndex [100, 200, 300] 200 = some 2 := by decide
example : ∃ i, ∃ (pcd ncd : Int), ncdIndex [100, 200, 300] 150 = some i ∧ 1 ≤ i ∧ i < ([100, 200, 300] : List Int).length ∧
    ([100, 200, 300] : List Int)[i - 1]? = some pcd ∧ ([100, 200, 300] : List Int)[i]? = some ncd ∧ pcd ≤ 150 ∧ (150 : Int) < ncd :=
  pcd_ncd_brackets_settlement [100, 200, 300] 150 (by simp) (by simp)

/-! ### the coupon count of `Bond.dirty_price_from_ytm` -/

/-- C07 (tie, header + init + body): the count loop runs over ALL of `self.cpn_dts` from `n = 0` and adds one for
every date STRICTLY after settlement. -/
theorem n_count_is_generated :
    n_count_slice = (0, 0) ∧ n_count_init = 0 ∧
      ∀ settle n d, n_count_step settle n d = if d > settle then n + 1 else n := by
  refine ⟨rfl, rfl, ?_⟩
  intro settle n d
  unfold n_count_step
  by_cases h : d > settle <;> simp [h]

/-- the generated loop, run: `n = <init>; for dt in self.cpn_dts<slice>: <body>` -/
noncomputable def nDatesGenerated (dates : List Int) (settle : Int) : Int :=
  (pySlice dates n_count_slice).foldl (n_count_step settle) n_count_init

/-- C07 remaining_coupons_eq_dates_after_settlement: the loop counts exactly the schedule dates after settlement. -/
theorem nDates_eq_count_after (dates : List Int) (settle : Int) :
    nDatesGenerated dates settle = ((dates.filter (fun d => decide (d > settle))).length : Int) := by
  unfold nDatesGenerated
  rw [foldl_count settle (n_count_step settle) (n_count_is_generated.2.2 settle)]
  simp [n_count_is_generated.1, n_count_is_generated.2.1, pySlice]

/-- C07 (tie): the hand model's `flowsAfter` is the generated loop followed by the source's `n = n - 1`. -/
theorem flowsAfter_is_generated_loop (dates : List Int) (settle : Int) :
    flowsAfter dates settle = nDatesGenerated dates settle - 1 := by
  rw [nDates_eq_count_after]; rfl

/-- C07 (tie closed): the GENERATED `dirty_price_from_ytm`, fed with the count computed by the GENERATED loop, is the
hand model with `flowsAfter` — no hand-supplied parameter is left between the schedule and the price formula. -/
theorem gen_dirty_price_with_generated_count (dates : List Int) (settle exdt : Int) (ytm f aCf alpha c : ℝ)
    (conv : Nat) :
    bond_dirty_price_from_ytm settle ytm (conv : Int) (nDatesGenerated dates settle) f aCf alpha c 100 exdt
      = dirtyPriceFromYtm conv (flowsAfter dates settle) c f ytm alpha (payFirst (decide (settle > exdt))) aCf := by
  rw [gen_dirty_price_eq_model, flowsAfter_is_generated_loop]

/-- C07: for an increasing schedule and `issue ≤ settle`, the number of coupons the yield formula prices after the
next one (`n`) is `len − 1 − i` with `i` the index returned by the generated `_calc_pcd_ncd` loop; together with the
next coupon that is one flow for every schedule date after settlement. -/
theorem remaining_coupons_eq_dates_after_settlement (dates : List Int) (settle : Int) (i : Nat)
    (hs : dates.Pairwise (· < ·)) (h0 : ∀ d ∈ dates.head?, d ≤ settle)
    (h : forRangeBreak (pcd_ncd_range (dates.length : Int)) (pcdNcdBody dates settle) = some i) :
    nDatesGenerated dates settle = (dates.length : Int) - i ∧
    nDatesGenerated dates settle - 1 = ((dates.drop (i + 1)).length : Int) := by
  rw [← ncdIndex_is_generated_loop] at h
  have h1 := flowsAfter_eq_coupons_after_next dates settle i hs h0 h
  have h2 := (ncdIndex_spec dates settle i h).2.1
  rw [flowsAfter_is_generated_loop] at h1
  refine ⟨by omega, ?_⟩
  rw [List.length_drop]; omega

/-- C07: on the last coupon date before maturity (`settle = cpn_dts[len−2]`) exactly one schedule date is left, so
`n = 0` and the last-period branch prices the final coupon and principal (it is NOT excluded). -/
theorem last_coupon_priced_on_last_coupon_date (dates : List Int) (settle : Int) (j : Nat) (mat : Int)
    (hs : dates.Pairwise (· < ·)) (hj : dates[j]? = some settle) (hm : dates[j + 1]? = some mat)
    (hlen : dates.length = j + 2) :
    nDatesGenerated dates settle - 1 = 0 := by
  have hi := pcd_eq_settle_on_coupon_date dates settle j mat hs hj hm
  have hhead : ∀ d ∈ dates.head?, d ≤ settle := by
    intro d hd
    cases dates with
    | nil => simp at hd
    | cons d0 t =>
      simp at hd; subst hd
      by_cases hj0 : j = 0
      · subst hj0; simp at hj; omega
      · have := List.pairwise_iff_getElem.mp hs 0 j (by simp) (by simp at hlen ⊢; omega) (by omega)
        have hg := List.getElem?_eq_getElem (l := d0 :: t) (i := j) (by simp at hlen ⊢; omega)
        rw [hg] at hj
        simp at hj this; omega
  have := flowsAfter_eq_coupons_after_next dates settle (j + 1) hs hhead hi
  rw [flowsAfter_is_generated_loop] at this
  rw [this, hlen]; push_cast; omega

/-! ### ex-dividend date -/

/-- C07 (tie): in `accrued_interest` and in `dirty_price_from_discount_curve` the ex-dividend date is
`ex_div_days` business days BEFORE the NEXT coupon date (`add_business_days(self.ncd, −ex_div_days)`), not the
previous one. -/
theorem exdiv_anchor_is_ncd (pcd ncd days : Int) :
    accrued_exdiv_args pcd ncd days = (ncd, -days) ∧ curve_exdiv_args pcd ncd days = (ncd, -days) := by
  constructor
  · simp [accrued_exdiv_args]
  · simp [curve_exdiv_args]

/-! ### `Bond.dirty_price_from_discount_curve` -/

/-- C07 (tie, header / init / pay_first_cpn / tail) -/
theorem curve_frame_is_generated (settle exdt : Int) (px df dfS par : ℝ) :
    curve_slice = (1, 0) ∧ curve_init = ((0 : ℝ), (1 : ℝ)) ∧
    curve_pay_first settle exdt = payFirst (decide (settle > exdt)) ∧
    curve_tail px df dfS par = (px + df) / dfS * par := by
  refine ⟨rfl, rfl, ?_, rfl⟩
  by_cases h : settle > exdt <;> simp [curve_pay_first, payFirst, h]

/-- C07 (tie, loop body): one iteration of the hand-written curve loop = one call of the generated body
(date test `dt > settle_dt`, flow `cpn / freq`, the ex-dividend factor on `dt == self.ncd` only — `self.pcd`,
the argument `p`, is not read). -/
theorem curveLoop_step_is_generated (settle p k : Int) (c f pay : ℝ) (d : Int) (dfd : ℝ)
    (rest : List (Int × ℝ)) (px df : ℝ) :
    curveLoop settle (c / f) pay (some k) ((d, dfd) :: rest) (px, df)
      = curveLoop settle (c / f) pay (some k) rest (curve_step settle pay px df d dfd p k c f) := by
  conv_lhs => unfold curveLoop
  unfold curve_step
  by_cases h : d > settle
  · by_cases hk : d = k
    · subst hk; simp [h]
    · have : ¬ k = d := fun e => hk e.symm
      simp [h, hk, this]
  · simp [h]

/-- C07 (tie, whole loop): the hand-written curve loop is the fold of the generated body. -/
theorem curveLoop_is_generated_fold (settle p k : Int) (c f pay : ℝ) (l : List (Int × ℝ)) (s : ℝ × ℝ) :
    curveLoop settle (c / f) pay (some k) l s
      = l.foldl (fun s x => curve_step settle pay s.1 s.2 x.1 x.2 p k c f) s := by
  induction l generalizing s with
  | nil => simp [curveLoop]
  | cons x t ih =>
    obtain ⟨d, dfd⟩ := x
    obtain ⟨px, df⟩ := s
    rw [curveLoop_step_is_generated settle p k, ih]; rfl

/-- C07 (tie closed): `dirty_price_from_discount_curve` of the hand model = generated header, initial state,
`pay_first_cpn`, loop body folded over `cpn_dts[1:]`, and tail, with `self.ncd = k` the date `_calc_pcd_ncd` found. -/
theorem curve_price_is_generated_loop (sched : List (Int × ℝ)) (settle exdt p k : Int) (dfS c f : ℝ)
    (hlen : 2 ≤ sched.length) (hk : ncdDate (sched.map (·.1)) settle = some k) :
    dirtyPriceFromCurve sched settle (decide (settle > exdt)) dfS c f
      = .ok (let s := (pySlice sched curve_slice).foldl
                 (fun s x => curve_step settle (curve_pay_first settle exdt) s.1 s.2 x.1 x.2 p k c f) curve_init
             curve_tail s.1 s.2 dfS 100) := by
  match sched, hlen with
  | a :: b :: rest, _ =>
    have hsl : pySlice (a :: b :: rest) curve_slice = b :: rest := by simp [pySlice, curve_slice]
    simp only [dirtyPriceFromCurve, hk, hsl, (curve_frame_is_generated settle exdt 0 0 0 0).2.2.1]
    rw [curveLoop_is_generated_fold settle p k]
    rfl

/-- C07 (tie): the `self.ncd` the curve loop compares with is the date at the index the generated
`_calc_pcd_ncd` loop returns. -/
theorem ncdDate_is_generated_loop (dates : List Int) (settle : Int) :
    ncdDate dates settle
      = (forRangeBreak (pcd_ncd_range (dates.length : Int)) (pcdNcdBody dates settle)).bind (dates[·]?) := by
  rw [← ncdIndex_is_generated_loop]
  cases dates with
  | nil => simp [ncdDate, ncdIndex, ncdGo]
  | cons d0 t =>
    simp only [ncdDate, ncdIndex, List.tail_cons]
    have key : ∀ (l : List Int) (i : Nat) (pre : List Int), pre.length = i →
        l.find? (fun d => decide (d > settle)) = (ncdGo settle i l).bind ((pre ++ l)[·]?) := by
      intro l
      induction l with
      | nil => intro i pre _; simp [ncdGo]
      | cons d t' ih =>
        intro i pre hpre
        unfold ncdGo
        by_cases hd : d > settle
        · simp [hd, ← hpre]
        · simp only [hd, if_false, List.find?_cons, decide_false]
          have := ih (i + 1) (pre ++ [d]) (by simp [hpre])
          simpa using this
    simpa using key t 1 [d0] rfl

/-! ### `BondFRN.dirty_price_from_dm` -/

/-- C07 (tie, header / period / tail): the FRN loop scans `range(1, num_flows)`, a future coupon accrues over
`(cpn_dts[i−1], cpn_dts[i])`, and the principal is added after the loop and scaled by par. -/
theorem frn_frame_is_generated (n i : Int) (pv df par : ℝ) :
    frn_range n = (1, n) ∧ frn_period_idx i = (i - 1, i) ∧ frn_tail pv df par = (pv + df) * par :=
  ⟨rfl, rfl, rfl⟩

/-- C07 (tie, loop body): the generated body acts only on coupon dates STRICTLY after `self.ncd`, and there it is
the hand-written `frnLoop` step. -/
theorem frn_step_spec (fi dm q pv df : ℝ) (d : Int) (a : ℝ) (ncd : Int) :
    frn_step fi dm q pv df d a ncd
      = if d > ncd then (pv + (fi + q) * a * (df / (1 + a * (fi + dm))), df / (1 + a * (fi + dm))) else (pv, df) := by
  unfold frn_step
  by_cases h : d > ncd <;> simp [h]

/-- C07 (tie, whole loop): folding the generated body over the schedule with its period fractions = the
hand-written loop over the fractions of the coupons after the next one. -/
theorem frnLoop_is_generated_fold (fi q dm : ℝ) (ncd : Int) (l : List (Int × ℝ)) (s : ℝ × ℝ) :
    l.foldl (fun s x => frn_step fi dm q s.1 s.2 x.1 x.2 ncd) s
      = frnLoop fi q dm ((l.filter (fun x => decide (x.1 > ncd))).map (·.2)) s := by
  induction l generalizing s with
  | nil => simp [frnLoop]
  | cons x t ih =>
    obtain ⟨d, a⟩ := x
    obtain ⟨pv, df⟩ := s
    rw [List.foldl_cons, ih, frn_step_spec]
    by_cases h : d > ncd
    · simp [h, List.filter_cons, frnLoop]
    · simp [h, List.filter_cons]

/-- C07 (tie closed): the hand model's FRN dirty price = generated head, generated body folded over the schedule,
generated tail. -/
theorem frnDirty_is_generated_loop (a0 a1 nextCpn ci fi q dm : ℝ) (ncd : Int) (l : List (Int × ℝ)) :
    frnDirty a0 a1 nextCpn ci fi q dm ((l.filter (fun x => decide (x.1 > ncd))).map (·.2))
      = (let s := l.foldl (fun s x => frn_step fi dm q s.1 s.2 x.1 x.2 ncd) (frn_init nextCpn ci dm a0 a1 q)
         frn_tail s.1 s.2 100) := by
  rw [frnLoop_is_generated_fold]
  simp only [frnDirty, frn_init, frn_tail]

/-! ### `BondAnnuity` -/

/-- C07 (tie): the annuity loops — `calculate_payments` appends `cpn × alpha × face` for every date of
`cpn_dts[1:]`; `dirty_price_from_discount_curve` sums `flow_amounts[i] × df` over `range(1, num_flows)` from 0 and
scales by par. -/
theorem annuity_frame_is_generated (n : Int) (pv df flow face a cpn par : ℝ) :
    annuity_range n = (1, n) ∧ annuity_flow_slice = (1, 0) ∧ annuity_init = (0 : ℝ) ∧
    annuity_step pv df flow = pv + flow * df ∧ annuity_flow_step face a cpn = cpn * a * face ∧
    annuity_tail pv par = pv * par :=
  ⟨rfl, rfl, rfl, rfl, rfl, rfl⟩

/-- C07 (tie, whole loop): the hand-written annuity loop is the fold of the generated bodies. -/
theorem annuityLoop_is_generated_fold (cpn : ℝ) (l : List (ℝ × ℝ)) (pv : ℝ) :
    annuityLoop cpn l pv = l.foldl (fun pv x => annuity_step pv x.2 (annuity_flow_step 1 x.1 cpn)) pv := by
  induction l generalizing pv with
  | nil => simp [annuityLoop]
  | cons x t ih =>
    obtain ⟨a, df⟩ := x
    rw [List.foldl_cons, ← ih]
    simp [annuityLoop, annuity_step, annuity_flow_step]

theorem annuityDirty_is_generated_loop (cpn : ℝ) (l : List (ℝ × ℝ)) :
    annuityDirty cpn l
      = annuity_tail (l.foldl (fun pv x => annuity_step pv x.2 (annuity_flow_step 1 x.1 cpn)) annuity_init) 100 := by
  rw [← annuityLoop_is_generated_fold]; rfl

end FinVerif.Props.C07
