/-
  C07 (part i) — accrued interest along the schedule: the previous / next coupon dates are the ones the GENERATED
  `_calc_pcd_ncd` loop returns (part h), the year fraction is the GENERATED `DayCount.year_frac` under ACT/ACT ICMA
  (C15), the accrued amount is the GENERATED `Bond.accrued_interest` (part d).  Accrued is zero EXACTLY on the
  schedule dates, and its sign is the ex-dividend test.
-/
import FinVerif.Props.C07g
import FinVerif.Props.C07h

set_option linter.unusedSimpArgs false
set_option linter.unusedVariables false
set_option linter.unnecessarySeqFocus false

namespace FinVerif.Props.C07
open FinVerif FinVerif.Model.C07 FinVerif.Spec.C07 FinVerif.Lemmas.C07
open FinVerif.Gen.BondR FinVerif.Gen.BondLoopR

/-- the ACT/ACT ICMA accrual fraction of the generated day count, as a real number -/
noncomputable def icmaAccf (pcd settle ncd : PyDate) (fcode : Int) (term : Bool) : ℝ :=
  ((C15.fracOf (FinVerif.Gen.DayCount.year_frac pcd settle (some ncd) fcode term 6) : Rat) : ℝ)

theorem icmaAccf_eq (pcd settle ncd : PyDate) (fcode : Int) (term : Bool) (q : Rat)
    (hf : FinVerif.Model.annualFrequency fcode = some q) (hq : 0 < q) (h : pcd.serial < ncd.serial) :
    icmaAccf pcd settle ncd fcode term
      = ((settle.serial - pcd.serial : Int) : ℝ) / ((q : ℝ) * ((ncd.serial - pcd.serial : Int) : ℝ)) := by
  have hden : (0 : Rat) < ((ncd.serial - pcd.serial : Int) : Rat) := by
    have : 0 < ncd.serial - pcd.serial := by omega
    exact_mod_cast this
  have hne : q * ((ncd.serial - pcd.serial : Int) : Rat) ≠ 0 := (mul_pos hq hden).ne'
  simp only [icmaAccf]
  rw [C15.year_frac_act_act_icma pcd settle fcode term ncd q hf hne]
  simp only [C15.fracOf, FinVerif.Spec.actActICMA]
  push_cast
  ring

/-- C07 accrued_zero_iff_settle_eq_pcd: under ACT/ACT ICMA, cum-dividend, with a non-zero coupon and face, the
generated accrued interest vanishes ONLY when settlement is the previous coupon date. -/
theorem icma_accrued_zero_iff_settle_eq_pcd (pcd settle ncd : PyDate) (fcode : Int) (term : Bool) (q : Rat)
    (hf : FinVerif.Model.annualFrequency fcode = some q) (hq : 0 < q) (h2 : pcd.serial < ncd.serial)
    (c face : ℝ) (hc : c ≠ 0) (hface : face ≠ 0) (exdt : Int) (hx : ¬ settle.serial > exdt) :
    bond_accrued_interest settle.serial face (icmaAccf pcd settle ncd fcode term) (q : ℝ) c exdt = 0
      ↔ settle.serial = pcd.serial := by
  rw [icmaAccf_eq pcd settle ncd fcode term q hf hq h2]
  have hqr : (q : ℝ) ≠ 0 := by exact_mod_cast hq.ne'
  have hden : ((ncd.serial - pcd.serial : Int) : ℝ) ≠ 0 := by
    have : ncd.serial - pcd.serial ≠ 0 := by omega
    exact_mod_cast this
  simp only [bond_accrued_interest, decide_eq_true_eq, hx, if_false]
  constructor
  · intro h
    have h' : ((settle.serial - pcd.serial : Int) : ℝ) = 0 := by
      rcases mul_eq_zero.mp h with h | h
      · rcases div_eq_zero_iff.mp h with h | h
        · exact h
        · exact absurd h (mul_ne_zero hqr hden)
      · exact absurd h (mul_ne_zero hc hface)
    have : settle.serial - pcd.serial = 0 := by exact_mod_cast h'
    omega
  · intro h
    have : ((settle.serial - pcd.serial : Int) : ℝ) = 0 := by
      have : settle.serial - pcd.serial = 0 := by omega
      exact_mod_cast this
    rw [this]; simp

/-- what the generated `_calc_pcd_ncd` loop guarantees about the two dates it stores -/
theorem loop_bracket (sched : List PyDate) (settle : PyDate) (i : Nat) (pcd ncd : PyDate)
    (hi : forRangeBreak (pcd_ncd_range ((sched.map (·.serial)).length : Int))
            (pcdNcdBody (sched.map (·.serial)) settle.serial) = some i)
    (hissue : ∀ d ∈ sched.head?, d.serial ≤ settle.serial)
    (hp : sched[i - 1]? = some pcd) (hn : sched[i]? = some ncd) :
    1 ≤ i ∧ pcd.serial ≤ settle.serial ∧ settle.serial < ncd.serial := by
  rw [← ncdIndex_is_generated_loop] at hi
  obtain ⟨h1, h2, h3, h4⟩ := ncdIndex_spec _ _ _ hi
  have hn' : (sched.map (·.serial))[i]? = some ncd.serial := by simp [List.getElem?_map, hn]
  have hp' : (sched.map (·.serial))[i - 1]? = some pcd.serial := by simp [List.getElem?_map, hp]
  refine ⟨h1, ?_, ?_⟩
  · by_cases hi1 : i = 1
    · subst hi1
      cases sched with
      | nil => simp at hp
      | cons d0 t => simp at hp; subst hp; exact hissue d0 (by simp)
    · exact h4 (i - 1) (by omega) (by omega) _ hp'
  · have := h3 _ hn'; omega

/-- C07 accrued_zero_exactly_on_coupon_dates: increasing schedule, settlement on or after the issue date, previous /
next coupon dates as stored by the generated `_calc_pcd_ncd` loop, ACT/ACT ICMA fraction from the generated day
count, cum-dividend, non-zero coupon and face: the generated accrued interest is 0 if and only if the settlement
date is a schedule date. -/
theorem icma_accrued_zero_iff_on_coupon_date (sched : List PyDate) (settle : PyDate) (i : Nat) (pcd ncd : PyDate)
    (fcode : Int) (term : Bool) (q : Rat)
    (hf : FinVerif.Model.annualFrequency fcode = some q) (hq : 0 < q)
    (hs : (sched.map (·.serial)).Pairwise (· < ·))
    (hi : forRangeBreak (pcd_ncd_range ((sched.map (·.serial)).length : Int))
            (pcdNcdBody (sched.map (·.serial)) settle.serial) = some i)
    (hissue : ∀ d ∈ sched.head?, d.serial ≤ settle.serial)
    (hp : sched[i - 1]? = some pcd) (hn : sched[i]? = some ncd)
    (c face : ℝ) (hc : c ≠ 0) (hface : face ≠ 0) (exdt : Int) (hx : ¬ settle.serial > exdt) :
    bond_accrued_interest settle.serial face (icmaAccf pcd settle ncd fcode term) (q : ℝ) c exdt = 0
      ↔ settle.serial ∈ sched.map (·.serial) := by
  obtain ⟨hi1, hb1, hb2⟩ := loop_bracket sched settle i pcd ncd hi hissue hp hn
  rw [icma_accrued_zero_iff_settle_eq_pcd pcd settle ncd fcode term q hf hq (by omega) c face hc hface exdt hx]
  have hil : i < (sched.map (·.serial)).length := by
    by_contra hc'; rw [List.getElem?_eq_none (by simpa using hc')] at hn; simp at hn
  have hn' : (sched.map (·.serial))[i] = ncd.serial := by
    have : (sched.map (·.serial))[i]? = some ncd.serial := by simp [List.getElem?_map, hn]
    rw [List.getElem?_eq_getElem hil] at this; simpa using this
  have hp' : (sched.map (·.serial))[i - 1] = pcd.serial := by
    have : (sched.map (·.serial))[i - 1]? = some pcd.serial := by simp [List.getElem?_map, hp]
    rw [List.getElem?_eq_getElem (by omega)] at this; simpa using this
  constructor
  · intro h
    rw [h, ← hp']; exact List.getElem_mem _
  · intro h
    obtain ⟨j, hjl, hj⟩ := List.getElem_of_mem h
    rcases Nat.lt_trichotomy j (i - 1) with hlt | heq | hgt
    · have := List.pairwise_iff_getElem.mp hs j (i - 1) hjl (by omega) hlt
      omega
    · subst heq; omega
    · by_cases he : j = i
      · subst he; omega
      · have := List.pairwise_iff_getElem.mp hs i j hil hjl (by omega)
        omega

/-- C07 accrued_sign_is_exdiv_test: with the dates of the generated loop and the generated ICMA fraction, for a
positive coupon and face the generated accrued interest is negative EXACTLY inside the ex-dividend window
(`ex_div_dt < settle`, and `settle < ncd` always): there it lies in `[−coupon, 0)`, outside in `[0, coupon)`. -/
theorem icma_accrued_sign_is_exdiv_test (sched : List PyDate) (settle : PyDate) (i : Nat) (pcd ncd : PyDate)
    (fcode : Int) (term : Bool) (q : Rat)
    (hf : FinVerif.Model.annualFrequency fcode = some q) (hq : 0 < q)
    (hi : forRangeBreak (pcd_ncd_range ((sched.map (·.serial)).length : Int))
            (pcdNcdBody (sched.map (·.serial)) settle.serial) = some i)
    (hissue : ∀ d ∈ sched.head?, d.serial ≤ settle.serial)
    (hp : sched[i - 1]? = some pcd) (hn : sched[i]? = some ncd)
    (c face : ℝ) (hc : 0 < c) (hface : 0 < face) (exdt : Int) :
    let acc := bond_accrued_interest settle.serial face (icmaAccf pcd settle ncd fcode term) (q : ℝ) c exdt
    (acc < 0 ↔ exdt < settle.serial) ∧ settle.serial < ncd.serial ∧
      -(c / (q : ℝ) * face) ≤ acc ∧ acc < c / (q : ℝ) * face := by
  intro acc
  obtain ⟨hi1, hb1, hb2⟩ := loop_bracket sched settle i pcd ncd hi hissue hp hn
  have hcoupon : 0 < c / (q : ℝ) * face := by
    have : (0 : ℝ) < (q : ℝ) := by exact_mod_cast hq
    positivity
  by_cases hx : settle.serial > exdt
  · have := icma_accrued_exdiv_of_daycount pcd settle ncd fcode term q hf hq hb1 hb2 c face hc hface exdt hx
    simp only at this
    refine ⟨⟨fun _ => hx, fun _ => this.2⟩, hb2, this.1, lt_trans this.2 hcoupon⟩
  · have := icma_accrued_lt_coupon_of_daycount pcd settle ncd fcode term q hf hq hb1 hb2 c face hc hface exdt hx
    simp only at this
    exact ⟨⟨fun h => absurd h (not_lt.mpr this.1), fun h => absurd h hx⟩, hb2,
      le_trans (neg_nonpos.mpr hcoupon.le) this.1, this.2⟩

/-- The hypotheses are satisfiable: a three-date schedule, settlement inside the second period. -/
example : forRangeBreak (pcd_ncd_range (([100, 283, 465] : List Int).length : Int))
    (pcdNcdBody [100, 283, 465] 300) = some 2 := by
  rw [← ncdIndex_is_generated_loop]; decide

end FinVerif.Props.C07
