/-
  C08 (part a) — caps/floors and swaptions as coded: parity with the FRA strip and with the forward swap.
  The per-option formulas are the GENERATED kernels (`Gen/BSP`, i.e. the source text with the normal cdf as a
  parameter `Φ`; `Φ = BSR.N` is the code's own Hull polynomial, `tie_*` in Props/C05a).  The cdf enters only through
  `Φ x + Φ (−x) = 1`; for the coded `N` that holds at every `x ≠ 0` (`N_symm`) and fails at 0 by 1e-9 (`N_zero_not_symm`).
-/
import FinVerif.Props.C05d
import FinVerif.Model.C08
import FinVerif.Spec.C08

set_option linter.unusedVariables false
set_option linter.unusedSimpArgs false

namespace FinVerif.Props.C08
open FinVerif FinVerif.Gen FinVerif.C05 FinVerif.Props.C05 FinVerif.Model.C08 FinVerif.Spec.C08

/-- the model read over the reals, with the generated kernels and the cdf / pdf `Φ`, `φ` -/
noncomputable def realKern (Φ φ : ℝ → ℝ) : Kern ℝ where
  lit := fun m e => (m : ℝ) * (10 : ℝ) ^ e
  isZero := fun x => decide (x = 0)
  ltAbs := fun x y => decide (|x| < y)
  max := max
  exp := Real.exp
  log := Real.log
  sqrt := Real.sqrt
  N := Φ
  blackValue := fun f t k r v ty => okVal (BSP.black_value Φ f t k r v ty)
  shiftedValue := fun f k t df ty sh vol => okVal (BSP.black_shifted_value Φ f k t df ty sh vol)
  bachelierValue := fun f k t df ty vol => okVal (BSP.bachelier_value Φ φ f k t df ty vol)

/-- the cdf is symmetric (every exact cdf of a symmetric law; the coded `N` except at 0) -/
def Symm (Φ : ℝ → ℝ) : Prop := ∀ x, Φ x + Φ (-x) = 1

@[simp] theorem lit_zero (Φ φ) : (realKern Φ φ).lit 0 0 = 0 := by simp [realKern]
@[simp] theorem lit_one (Φ φ) : (realKern Φ φ).lit 1 0 = 1 := by simp [realKern]
@[simp] theorem lit_two (Φ φ) : (realKern Φ φ).lit 2 0 = 2 := by simp [realKern]
@[simp] theorem kmax (Φ φ) (x y : ℝ) : (realKern Φ φ).max x y = max x y := rfl

/-! ### one option: call − put = df·(F − K) for every Black-type model -/

/-- `Black.value` recovers the discount factor: `exp(−(−log df / t)·t) = df` (needs `t ≠ 0`, `df > 0`). -/
theorem black_model_parity {Φ φ : ℝ → ℝ} (hΦ : Symm Φ) (vol : ℝ) {f : ℝ} (hf : 0 < f) (k : ℝ) {t : ℝ} (ht : t ≠ 0)
    {df : ℝ} (hdf : 0 < df) :
    blackModelValue (realKern Φ φ) vol f k t df 1 - blackModelValue (realKern Φ φ) vol f k t df 2 = df * (f - k) := by
  have h := black_put_call_parity_gen Φ hf t k (-(Real.log df) / t) vol (hΦ _) (hΦ _)
  have he : Real.exp (-(-(Real.log df) / t) * t) = df := by
    have : -(-(Real.log df) / t) * t = Real.log df := by field_simp
    rw [this, Real.exp_log hdf]
  rw [he] at h
  simpa [blackModelValue, realKern] using h

theorem shifted_model_parity {Φ φ : ℝ → ℝ} (hΦ : Symm Φ) (vol sh f k t df : ℝ) :
    (realKern Φ φ).shiftedValue f k t df 1 sh vol - (realKern Φ φ).shiftedValue f k t df 2 sh vol = df * (f - k) := by
  simpa [realKern] using black_shifted_put_call_parity_gen Φ f k t df sh vol (hΦ _) (hΦ _)

theorem bachelier_model_parity {Φ φ : ℝ → ℝ} (hΦ : Symm Φ) (vol f k t df : ℝ) :
    (realKern Φ φ).bachelierValue f k t df 1 vol - (realKern Φ φ).bachelierValue f k t df 2 vol = df * (f - k) := by
  simpa [realKern] using bachelier_put_call_parity Φ φ f k t df vol (hΦ _)

/-- SABR and shifted SABR: ONE volatility for both legs, whatever the Hagan formula returned ⇒ parity. -/
theorem sabr_model_parity {Φ φ : ℝ → ℝ} (hΦ : Symm Φ) (vol f k t df : ℝ) :
    sabrValue (realKern Φ φ) vol f k t df 1 - sabrValue (realKern Φ φ) vol f k t df 2 = df * (f - k) := by
  simp only [sabrValue, realKern, if_true, show ¬ ((2 : Int) = 1) by decide, if_false]
  set d1 := (Real.log (f / k) + vol * vol * t / ((2 : ℕ) * (10 : ℝ) ^ (0 : ℤ))) / (vol * Real.sqrt t) with hd1
  linear_combination df * f * hΦ d1 - df * k * hΦ (d1 - vol * Real.sqrt t)

/-- `HWTree.option_on_zcb`: put − call = strike·P(t_exp) − face·P(t_mat), for every σ, a (clamps included). -/
theorem hw_zcb_put_minus_call {Φ φ : ℝ → ℝ} (hΦ : Symm Φ) (sigma a texp tmat strike face pe pm : ℝ) :
    (hwZcb (realKern Φ φ) sigma a texp tmat strike face pe pm).2 - (hwZcb (realKern Φ φ) sigma a texp tmat strike face pe pm).1
      = strike * pe - face * pm := by
  simp only [hwZcb]
  generalize (if (realKern Φ φ).ltAbs _ _ = true then _ else _ : ℝ) = sp
  simp only [realKern]
  set h := Real.log (face * pm / (strike * pe)) / sp + sp / ((2 : ℕ) * (10 : ℝ) ^ (0 : ℤ)) with hh
  have h1 := hΦ h
  have h2 := hΦ (h - sp)
  have e : -h + sp = -(h - sp) := by ring
  rw [e]
  linear_combination strike * pe * h2 - face * pm * h1

/-! ### caplet − floorlet, cap − floor -/

/-- what the model must satisfy for the parity theorems: Black needs a positive forward and expiry, `df > 0`;
HW needs non-degenerate accruals -/
def CapletOK (m : Mdl ℝ) (strike : ℝ) (p : Period ℝ) : Prop :=
  match m with
  | .black _ => 0 < p.fwd ∧ p.texp ≠ 0 ∧ 0 < p.df
  | .hw _ _ => p.alpha ≠ 0 ∧ 1 + p.alpha * strike ≠ 0
  | _ => True

/-- the forward-rate payment the caplet/floorlet pair replicates, as the code sees it: the Black-type models use
`df(end)`, the strike clamped away from 0; HW reads the curve at its own two times -/
noncomputable def fraLeg (m : Mdl ℝ) (strike notional : ℝ) (p : Period ℝ) : ℝ :=
  match m with
  | .hw _ _ => notional * (p.ptExp - (1 + strike * p.alpha) * p.ptMat)
  | _ => notional * p.alpha * p.df * (p.fwd - (if strike = 0 then 1e-10 else strike))

/-- **C08** caplet − floorlet = α·df·(F − K)·notional, per model (HW: the same payment written with the two
discount factors the model reads). -/
theorem caplet_minus_floorlet {Φ φ : ℝ → ℝ} (hΦ : Symm Φ) (m : Mdl ℝ) (strike notional : ℝ) (p : Period ℝ)
    (hok : CapletOK m strike p) :
    capletValue (realKern Φ φ) m true strike notional p - capletValue (realKern Φ φ) m false strike notional p
      = fraLeg m strike notional p := by
  have hk : (if (realKern Φ φ).isZero strike = true then (realKern Φ φ).lit 1 (-10) else strike)
      = (if strike = 0 then (1e-10 : ℝ) else strike) := by
    simp only [realKern, decide_eq_true_eq]
    split
    · norm_num
    · rfl
  cases m with
  | black vol =>
    obtain ⟨hf, ht, hdf⟩ := hok
    simp only [capletValue, fraLeg, hk, if_true, Bool.false_eq_true, if_false]
    have := black_model_parity (φ := φ) hΦ vol hf (if strike = 0 then (1e-10 : ℝ) else strike) ht hdf
    linear_combination (notional * p.alpha) * this
  | shifted vol sh =>
    simp only [capletValue, fraLeg, hk, if_true, Bool.false_eq_true, if_false]
    have := shifted_model_parity (φ := φ) hΦ vol sh p.fwd (if strike = 0 then (1e-10 : ℝ) else strike) p.texp p.df
    linear_combination (notional * p.alpha) * this
  | bachelier vol =>
    simp only [capletValue, fraLeg, hk, if_true, Bool.false_eq_true, if_false]
    have := bachelier_model_parity (φ := φ) hΦ vol p.fwd (if strike = 0 then (1e-10 : ℝ) else strike) p.texp p.df
    linear_combination (notional * p.alpha) * this
  | sabr =>
    simp only [capletValue, fraLeg, hk, if_true, Bool.false_eq_true, if_false]
    have := sabr_model_parity (φ := φ) hΦ p.sabrVol p.fwd (if strike = 0 then (1e-10 : ℝ) else strike) p.texp p.df
    linear_combination (notional * p.alpha) * this
  | sabrShifted =>
    simp only [capletValue, fraLeg, hk, if_true, Bool.false_eq_true, if_false]
    have := sabr_model_parity (φ := φ) hΦ p.sabrVol p.fwd (if strike = 0 then (1e-10 : ℝ) else strike) p.texp p.df
    linear_combination (notional * p.alpha) * this
  | hw sigma a =>
    obtain ⟨ha, hs⟩ := hok
    simp only [capletValue, fraLeg, if_true, Bool.false_eq_true, if_false, lit_one]
    have := hw_zcb_put_minus_call (φ := φ) hΦ sigma a p.texp p.tmat (1 / (1 + p.alpha * strike)) 1 p.ptExp p.ptMat
    have e : ∀ x y : ℝ, x * (1 + strike * p.alpha) / p.alpha * (notional * p.alpha)
        - y * (1 + strike * p.alpha) / p.alpha * (notional * p.alpha) = notional * (1 + strike * p.alpha) * (x - y) := by
      intro x y; field_simp
    have hs' : 1 + strike * p.alpha ≠ 0 := by rwa [mul_comm strike]
    rw [e, this]
    field_simp

/-- the first period: known payoff, `max(F−K,0) − max(K−F,0) = F − K` -/
theorem first_caplet_minus_floorlet (Φ φ : ℝ → ℝ) (strike notional : ℝ) (p : Period ℝ) :
    firstValue (realKern Φ φ) true strike notional p - firstValue (realKern Φ φ) false strike notional p
      = notional * p.alpha * p.df * (p.fwd - strike) := by
  simp only [firstValue, if_true, Bool.false_eq_true, if_false, lit_zero, kmax]
  have : max (p.fwd - strike) 0 - max (strike - p.fwd) 0 = p.fwd - strike := by
    rcases le_total (p.fwd - strike) 0 with h | h
    · rw [max_eq_right h, max_eq_left (by linarith)]; ring
    · rw [max_eq_left h, max_eq_right (by linarith)]; ring
  linear_combination (p.df * p.alpha * notional) * this

theorem sumFrom_eq (z : ℝ) (l : List ℝ) : sumFrom z l = z + l.sum := by
  unfold sumFrom
  induction l generalizing z with
  | nil => simp
  | cons x xs ih => simp [ih, add_assoc]

theorem sum_map_sub {β} (f g : β → ℝ) (l : List β) : (l.map f).sum - (l.map g).sum = (l.map (fun x => f x - g x)).sum := by
  induction l with
  | nil => simp
  | cons x xs ih => simp only [List.map_cons, List.sum_cons]; linarith

/-- **C08** cap − floor = the strip of forward-rate payments: the first period at its known payoff, every later
period at the payment its caplet/floorlet pair replicates — for every model the product accepts, any number of
periods (induction over the caplet list). -/
theorem cap_minus_floor_eq_strip {Φ φ : ℝ → ℝ} (hΦ : Symm Φ) (m : Mdl ℝ) (strike notional : ℝ) (p : Period ℝ)
    (ps : List (Period ℝ)) (hok : ∀ q ∈ ps, CapletOK m strike q) :
    capFloorValue (realKern Φ φ) m true strike notional (p :: ps) - capFloorValue (realKern Φ φ) m false strike notional (p :: ps)
      = notional * p.alpha * p.df * (p.fwd - strike) + (ps.map (fraLeg m strike notional)).sum := by
  simp only [capFloorValue, capletTable, sumFrom_eq, List.sum_cons, lit_zero]
  have h1 := first_caplet_minus_floorlet Φ φ strike notional p
  have h2 : (ps.map (capletValue (realKern Φ φ) m true strike notional)).sum
      - (ps.map (capletValue (realKern Φ φ) m false strike notional)).sum = (ps.map (fraLeg m strike notional)).sum := by
    rw [sum_map_sub]
    congr 1
    apply List.map_congr_left
    intro q hq
    exact caplet_minus_floorlet hΦ m strike notional q (hok q hq)
  linarith

/-- **C08** in the property's own words: for a Black-type model (not HW) and a non-zero strike, cap − floor is the
value of the strip of forward-rate payments struck at the cap rate (`Spec.C08.stripValue`). -/
theorem cap_minus_floor_eq_spec_strip {Φ φ : ℝ → ℝ} (hΦ : Symm Φ) (m : Mdl ℝ) (hm : ∀ s a, m ≠ .hw s a)
    (strike notional : ℝ) (hK : strike ≠ 0) (p : Period ℝ) (ps : List (Period ℝ))
    (hok : ∀ q ∈ ps, CapletOK m strike q) :
    capFloorValue (realKern Φ φ) m true strike notional (p :: ps) - capFloorValue (realKern Φ φ) m false strike notional (p :: ps)
      = stripValue strike notional ((p :: ps).map (fun q => ⟨q.alpha, q.df, q.fwd⟩)) := by
  rw [cap_minus_floor_eq_strip hΦ m strike notional p ps hok]
  simp only [List.map_cons, stripValue, FwdPayment.pv]
  congr 1
  induction ps with
  | nil => simp [stripValue]
  | cons q qs ih =>
    simp only [List.map_cons, List.sum_cons, stripValue, FwdPayment.pv]
    rw [ih (fun r hr => hok r (List.mem_cons_of_mem _ hr))]
    congr 1
    cases m with
    | hw s a => exact absurd rfl (hm s a)
    | _ => simp [fraLeg, hK]

/-- the strike clamp: a zero strike is priced as 1e-10 by the model branches (not by the first period) -/
theorem zero_strike_is_clamped {Φ φ : ℝ → ℝ} (vol notional : ℝ) (p : Period ℝ) (isCap : Bool) :
    capletValue (realKern Φ φ) (.shifted vol 0) isCap 0 notional p
      = capletValue (realKern Φ φ) (.shifted vol 0) isCap 1e-10 notional p := by
  have h1 : (realKern Φ φ).isZero (0 : ℝ) = true := by simp [realKern]
  have h2 : (realKern Φ φ).isZero (1e-10 : ℝ) = false := by simp [realKern]; norm_num
  have h3 : (realKern Φ φ).lit 1 (-10) = (1e-10 : ℝ) := by simp [realKern]; norm_num
  simp only [capletValue, h1, h2, h3, if_true, Bool.false_eq_true, if_false]

/-! ### swaptions -/

def SwaptionOK (m : Mdl ℝ) (s texp : ℝ) : Prop :=
  match m with
  | .black _ => 0 < s ∧ texp ≠ 0
  | .hw _ _ => False
  | _ => True

/-- **C08** payer − receiver = pv01·(F − K)·notional / df(settle) for Black, shifted Black, Bachelier, SABR and
shifted SABR (the last two: one volatility for both legs). -/
theorem payer_minus_receiver {Φ φ : ℝ → ℝ} (hΦ : Symm Φ) (m : Mdl ℝ) (sv s k texp pv01 dfs notional : ℝ)
    (hok : SwaptionOK m s texp) :
    swaptionValue (realKern Φ φ) (.blackLike m sv) true s k texp pv01 dfs notional
      - swaptionValue (realKern Φ φ) (.blackLike m sv) false s k texp pv01 dfs notional
      = forwardSwapValue pv01 s k notional / dfs := by
  unfold forwardSwapValue
  cases m with
  | black vol =>
    obtain ⟨hs, ht⟩ := hok
    simp only [swaptionValue, if_true, Bool.false_eq_true, if_false, lit_one]
    have := black_model_parity (φ := φ) hΦ vol hs k ht (df := 1) one_pos
    have e : ∀ x y : ℝ, x * pv01 * notional / dfs - y * pv01 * notional / dfs = (x - y) * pv01 * notional / dfs := by
      intro x y; ring
    rw [e, this]; ring
  | shifted vol sh =>
    simp only [swaptionValue, if_true, Bool.false_eq_true, if_false, lit_one]
    have := shifted_model_parity (φ := φ) hΦ vol sh s k texp 1
    have e : ∀ x y : ℝ, x * pv01 * notional / dfs - y * pv01 * notional / dfs = (x - y) * pv01 * notional / dfs := by
      intro x y; ring
    rw [e, this]; ring
  | bachelier vol =>
    simp only [swaptionValue, if_true, Bool.false_eq_true, if_false, lit_one]
    have := bachelier_model_parity (φ := φ) hΦ vol s k texp 1
    have e : ∀ x y : ℝ, x * pv01 * notional / dfs - y * pv01 * notional / dfs = (x - y) * pv01 * notional / dfs := by
      intro x y; ring
    rw [e, this]; ring
  | sabr =>
    simp only [swaptionValue, if_true, Bool.false_eq_true, if_false, lit_one]
    have := sabr_model_parity (φ := φ) hΦ sv s k texp 1
    have e : ∀ x y : ℝ, x * pv01 * notional / dfs - y * pv01 * notional / dfs = (x - y) * pv01 * notional / dfs := by
      intro x y; ring
    rw [e, this]; ring
  | sabrShifted =>
    simp only [swaptionValue, if_true, Bool.false_eq_true, if_false, lit_one]
    have := sabr_model_parity (φ := φ) hΦ sv s k texp 1
    have e : ∀ x y : ℝ, x * pv01 * notional / dfs - y * pv01 * notional / dfs = (x - y) * pv01 * notional / dfs := by
      intro x y; ring
    rw [e, this]; ring
  | hw sigma a => exact absurd hok id

/-- **C08** … which is the value of the underlying forward-starting swap: with the par rate `s = floatPV/(N·pv01)`
(`IborSwap.swap_rate`, Props/C06b `par_rate_zeroes_value`) and the fixed leg `k·N·pv01` (`fixed_value_closed`),
`pv01·(s − k)·N = floatPV − fixedPV`. -/
theorem forward_swap_value_eq_legs (pv01 s k notional floatPV : ℝ) (hN : notional ≠ 0) (hA : pv01 ≠ 0)
    (hs : s = floatPV / notional / pv01) :
    forwardSwapValue pv01 s k notional = floatPV - k * notional * pv01 := by
  unfold forwardSwapValue
  rw [hs]; field_simp

/-- the bond-option route (HW Jamshidian 'put'/'call', BK/BDT 'pay'/'rec'): payer − receiver = (put − call)·N/df(settle),
the annuity cancels (`/= pv01` then `* pv01`). -/
theorem payer_minus_receiver_bond_route {Φ φ : ℝ → ℝ} (call put s k texp pv01 dfs notional : ℝ) (hA : pv01 ≠ 0) :
    swaptionValue (realKern Φ φ) (.bondOption call put) true s k texp pv01 dfs notional
      - swaptionValue (realKern Φ φ) (.bondOption call put) false s k texp pv01 dfs notional
      = (put - call) * notional / dfs := by
  simp only [swaptionValue, if_true, Bool.false_eq_true, if_false]
  field_simp

/-! ### Jamshidian -/

theorem jam_fold {Φ φ : ℝ → ℝ} (hΦ : Symm Φ) (sigma a texp face pe : ℝ) (legs : List (JLeg ℝ)) (acc : (ℝ × ℝ) × (ℝ × ℝ)) :
    (legs.foldl (jamStep (realKern Φ φ) sigma a texp face pe) acc).1.2
        - (legs.foldl (jamStep (realKern Φ φ) sigma a texp face pe) acc).1.1
      = acc.1.2 - acc.1.1 + (legs.map (fun l => (l.strike * pe - l.ptCpn) * l.cpn * face)).sum ∧
    (legs.foldl (jamStep (realKern Φ φ) sigma a texp face pe) acc).2.2
        - (legs.foldl (jamStep (realKern Φ φ) sigma a texp face pe) acc).2.1
      = (match legs.getLast? with
        | some l => l.strike * pe - l.ptCpn
        | none => acc.2.2 - acc.2.1) := by
  induction legs generalizing acc with
  | nil => simp
  | cons l ls ih =>
    have hv := hw_zcb_put_minus_call (φ := φ) hΦ sigma a texp l.tcpn l.strike 1 pe l.ptCpn
    simp only [one_mul] at hv
    obtain ⟨h1, h2⟩ := ih (jamStep (realKern Φ φ) sigma a texp face pe acc l)
    simp only [List.foldl_cons]
    constructor
    · rw [h1]
      simp only [jamStep, lit_one, List.map_cons, List.sum_cons]
      linear_combination (l.cpn * face) * hv
    · rw [h2]
      cases ls with
      | nil => simp only [List.getLast?_nil, List.getLast?_singleton, jamStep, lit_one]; exact hv
      | cons x xs =>
        obtain ⟨y, hy⟩ : ∃ y, (x :: xs).getLast? = some y := by
          cases h : (x :: xs).getLast? with
          | none => simp at h
          | some y => exact ⟨y, rfl⟩
        simp only [List.getLast?_cons_cons, hy]

/-- **C08** Jamshidian as coded: put − call = K'·P(t_exp) − PV(coupons and redemption after expiry), where
K' = face·(Σ cᵢ·Xᵢ + X_n) is the sum of the zero-coupon strikes.  With the root-search postcondition K' = strike
(+ accrued) this is bond put–call parity; the code's K' misses it (finding `C08/jamshidian-root-period-mismatch`). -/
theorem jamshidian_put_minus_call {Φ φ : ℝ → ℝ} (hΦ : Symm Φ) (sigma a texp face pe : ℝ) (l : JLeg ℝ) (ls : List (JLeg ℝ)) :
    (jamshidian (realKern Φ φ) sigma a texp face pe (l :: ls)).2 - (jamshidian (realKern Φ φ) sigma a texp face pe (l :: ls)).1
      = (((l :: ls).map (fun q => (q.strike * pe - q.ptCpn) * q.cpn * face)).sum
        + (((l :: ls).getLast (by simp)).strike * pe - ((l :: ls).getLast (by simp)).ptCpn) * face) := by
  have := jam_fold (φ := φ) hΦ sigma a texp face pe (l :: ls) ((0, 0), (0, 0))
  simp only [jamshidian, lit_zero] at *
  obtain ⟨h1, h2⟩ := this
  rw [List.getLast?_eq_some_getLast (by simp)] at h2
  simp only at h2
  linear_combination h1 + face * h2

/-! ### zero volatility -/

/-- **C08** what the Black clamp does: volatility 0 (or anything below 1e-12) is priced at volatility 1e-12 … -/
theorem black_zero_vol_is_clamped (Φ : ℝ → ℝ) (f t k r : ℝ) (ty : Int) {v : ℝ} (hv : v ≤ 1e-12) :
    BSP.black_value Φ f t k r v ty = BSP.black_value Φ f t k r 1e-12 ty := by
  have : max v (1e-12 : ℝ) = max (1e-12 : ℝ) 1e-12 := by rw [max_eq_right hv, max_self]
  simp only [BSP.black_value, this]

/-- … and wherever the cdf has saturated at the two (huge) arguments the value IS the discounted intrinsic value:
in the money `Φ(d₁) = Φ(d₂) = 1`, `Φ(−d₁) = Φ(−d₂) = 0` gives call = e^{−rT}(F − K), put = 0. -/
theorem black_saturated_is_intrinsic (Φ : ℝ → ℝ) {f : ℝ} (hf : 0 < f) (t k r v : ℝ)
    (h1 : Φ (bkD1 f t k v) = 1) (h2 : Φ (bkD2 f t k v) = 1) (h3 : Φ (-bkD1 f t k v) = 0) (h4 : Φ (-bkD2 f t k v) = 0) :
    okVal (BSP.black_value Φ f t k r v 1) = Real.exp (-r * t) * (f - k) ∧ okVal (BSP.black_value Φ f t k r v 2) = 0 := by
  rw [(black_value_shape Φ hf t k r v).1, (black_value_shape Φ hf t k r v).2]
  simp only [okVal_ok, h1, h2, h3, h4]
  constructor <;> ring

/-- the first caplet / floorlet (known payoff) is non-negative for positive df, accrual and notional -/
theorem first_value_nonneg (Φ φ : ℝ → ℝ) (isCap : Bool) (strike : ℝ) {notional : ℝ} (hN : 0 ≤ notional) (p : Period ℝ)
    (hdf : 0 ≤ p.df) (ha : 0 ≤ p.alpha) : 0 ≤ firstValue (realKern Φ φ) isCap strike notional p := by
  simp only [firstValue, lit_zero, kmax]
  cases isCap <;> simp only [if_true, Bool.false_eq_true, if_false] <;>
    exact mul_nonneg (mul_nonneg (mul_nonneg hdf ha) (le_max_right _ _)) hN

/-- the hypotheses are satisfiable: a two-period cap under Black -/
example : CapletOK (.black 0.2) 0.03 ⟨0.25, 0.04, 0.98, 0.25, 0.5, 0, 0, 0⟩ := by
  simp only [CapletOK]; norm_num

end FinVerif.Props.C08
