/-
  C08 (part b) — options on the short-rate trees (HW, BK trinomial lattices of Model/C03; BDT binomial):
  backward induction without exercise is a LINEAR operator (induction over the steps), hence a European call minus
  the European put on the tree is the tree's own value of (underlying − strike); more exercise dates never lower a
  value (Bermudan ≥ European); values are non-negative.
-/
import FinVerif.Props.C03c
import FinVerif.Model.C08
import FinVerif.Spec.C08

set_option linter.unusedVariables false
set_option linter.unusedSimpArgs false

namespace FinVerif.Props.C08
open FinVerif.Model.C03 FinVerif.Model.C08 FinVerif.Props.C03 FinVerif.Spec.C08 Finset

theorem max_sub_max_neg (x : ℝ) : max x 0 - max (-x) 0 = x := by
  rcases le_total x 0 with h | h
  · rw [max_eq_right h, max_eq_left (by linarith)]; ring
  · rw [max_eq_left h, max_eq_right (by linarith)]; ring

/-- one backward step is linear in the next level's values (any probabilities and discounts, all branch shapes) -/
theorem backStep_linear (J : Nat) (p : Int → P3 ℝ) (zm : Int → ℝ) (a b : ℝ) (V W : Int → ℝ) (j : Int) :
    backStep J p zm (fun i => a * V i + b * W i) j = a * backStep J p zm V j + b * backStep J p zm W j := by
  unfold backStep; ring

/-- **C08** backward induction without exercise is a linear operator on expiry payoffs (induction over the steps;
no assumption on probabilities, discounts, number of steps or `j_max`). -/
theorem tree_european_is_linear_in_payoff (J : Nat) (p : Int → P3 ℝ) (z : Nat → Int → ℝ) (a b : ℝ)
    (V W : Int → ℝ) (E d : Nat) (j : Int) :
    euroBack 𝕆 J p z (fun i => a * V i + b * W i) E d j
      = a * euroBack 𝕆 J p z V E d j + b * euroBack 𝕆 J p z W E d j := by
  induction d generalizing j with
  | zero => simp [euroBack, bondBack]
  | succ d ih =>
    have e : euroBack 𝕆 J p z (fun i => a * V i + b * W i) E d
        = fun i => a * euroBack 𝕆 J p z V E d i + b * euroBack 𝕆 J p z W E d i := funext ih
    simp only [euroBack, bondBack, bondLevel] at e ⊢
    rw [e, backStep_linear]
    simp only [ofInt_real, Int.cast_zero]
    ring

/-- … in the vocabulary of the specification -/
theorem euroBack_isLinear (J : Nat) (p : Int → P3 ℝ) (z : Nat → Int → ℝ) (E d : Nat) :
    IsLinear (fun V => euroBack 𝕆 J p z V E d) := by
  constructor
  · intro V W; funext j
    have := tree_european_is_linear_in_payoff J p z 1 1 V W E d j
    simpa using this
  · intro c V; funext j
    have := tree_european_is_linear_in_payoff J p z c 0 V (fun _ => 0) E d j
    simpa using this

/-- the European option of the tree kernels (`exercise_type = EUROPEAN`: exercise only at the expiry level) is the
linear operator applied to the expiry payoff `max(payoff, 0)` -/
theorem european_eq_euroBack (J : Nat) (p : Int → P3 ℝ) (z : Nat → Int → ℝ) (payoff : Nat → Int → ℝ) (M d : Nat) (j : Int) :
    optBack 𝕆 J p z payoff (fun _ => false) M d j = euroBack 𝕆 J p z (fun i => max (payoff M i) 0) M d j := by
  induction d generalizing j with
  | zero => simp [optBack, euroBack, bondBack]
  | succ d ih =>
    have e : optBack 𝕆 J p z payoff (fun _ => false) M d = euroBack 𝕆 J p z (fun i => max (payoff M i) 0) M d := funext ih
    simp only [optBack, optLevel, Bool.false_eq_true, if_false, e]
    simp only [euroBack, bondBack, bondLevel, ofInt_real, Int.cast_zero, add_zero]

/-- **C08** call − put on the HW / BK trees = the tree's own value of (underlying clean price − strike), at every
node and level — for the bond option kernels (`american_bond_option_tree_fast` with European exercise) and, with
`clean := par leg − clean fixed leg`, `K := 0`, for the swaption kernels from the exercise level down. -/
theorem tree_call_minus_put (J : Nat) (p : Int → P3 ℝ) (z : Nat → Int → ℝ) (clean : Nat → Int → ℝ) (K : ℝ)
    (M d : Nat) (j : Int) :
    optBack 𝕆 J p z (fun m i => clean m i - K) (fun _ => false) M d j
      - optBack 𝕆 J p z (fun m i => K - clean m i) (fun _ => false) M d j
      = euroBack 𝕆 J p z (fun i => clean M i - K) M d j := by
  rw [european_eq_euroBack, european_eq_euroBack]
  have h := tree_european_is_linear_in_payoff J p z 1 (-1) (fun i => max (clean M i - K) 0)
    (fun i => max (K - clean M i) 0) M d j
  have e : (fun i => 1 * max (clean M i - K) 0 + -1 * max (K - clean M i) 0) = fun i => clean M i - K := by
    funext i
    have := max_sub_max_neg (clean M i - K)
    rw [neg_sub] at this
    linarith
  rw [e] at h
  linarith

/-- **C08** … and at the root that value is the state-price-weighted (underlying − strike): the tree's forward
clean value minus K times the tree's own discount factor to expiry (Σ_j Q[E, j]). -/
theorem tree_call_minus_put_at_root {J : Nat} (hJ : 0 < J) {p z Q} (h : IsLattice J p z Q)
    (clean : Nat → Int → ℝ) (K : ℝ) (M : Nat) :
    optBack 𝕆 J p z (fun m i => clean m i - K) (fun _ => false) M M 0
      - optBack 𝕆 J p z (fun m i => K - clean m i) (fun _ => false) M M 0
      = ∑ i ∈ Icc (-(J : Int)) J, Q M i * clean M i - K * ∑ i ∈ Icc (-(J : Int)) J, Q M i := by
  rw [tree_call_minus_put]
  have := bond_pair_invariant hJ h (fun _ => 0) (fun i => clean M i - K) M M le_rfl
  rw [Nat.sub_self, h.1, q0_pair] at this
  simp only [zero_mul, Finset.sum_const_zero, add_zero] at this
  have e : euroBack 𝕆 J p z (fun i => clean M i - K) M M 0 = bondBack J p z (fun _ => 0) (fun i => clean M i - K) M M 0 := by
    simp only [euroBack, ofInt_real, Int.cast_zero]
  rw [e, this, Finset.mul_sum, ← Finset.sum_sub_distrib]
  apply Finset.sum_congr rfl
  intro i _; ring

/-! ### any lattice with linear one-step operators (covers the BDT binomial tree) -/

/-- `d` backward steps below level `E` with one-step operators `step m` -/
def iterBack {ι : Type} (step : Nat → (ι → ℝ) → (ι → ℝ)) (term : ι → ℝ) (E : Nat) : Nat → ι → ℝ
  | 0 => term
  | d + 1 => step (E - (d + 1)) (iterBack step term E d)

theorem iterBack_linear {ι : Type} (step : Nat → (ι → ℝ) → (ι → ℝ)) (hs : ∀ m, IsLinear (step m))
    (a b : ℝ) (V W : ι → ℝ) (E d : Nat) :
    iterBack step (fun i => a * V i + b * W i) E d = fun i => a * iterBack step V E d i + b * iterBack step W E d i := by
  induction d with
  | zero => rfl
  | succ d ih =>
    simp only [iterBack, ih]
    rw [(hs _).1, (hs _).2, (hs _).2]

/-- **C08** call − put = value of (underlying − strike) on ANY tree whose backward step is linear … -/
theorem generic_tree_call_minus_put {ι : Type} (step : Nat → (ι → ℝ) → (ι → ℝ)) (hs : ∀ m, IsLinear (step m))
    (x : ι → ℝ) (E d : Nat) (i : ι) :
    iterBack step (fun i => max (x i) 0) E d i - iterBack step (fun i => max (-x i) 0) E d i = iterBack step x E d i := by
  have h := congrFun (iterBack_linear step hs 1 (-1) (fun i => max (x i) 0) (fun i => max (-x i) 0) E d) i
  have e : (fun i => 1 * max (x i) 0 + -1 * max (-x i) 0) = x := by
    funext i; have := max_sub_max_neg (x i); linarith
  rw [e] at h
  linarith

/-- … and the BDT step `(½·V[k+1] + ½·V[k])·disc[k]` is linear. -/
theorem bdtBackStep_isLinear (dsc : Nat → ℝ) : IsLinear (bdtBackStep 𝕆 dsc) := by
  constructor
  · intro V W; funext k; simp only [bdtBackStep, ofInt_real]; ring
  · intro c V; funext k; simp only [bdtBackStep, ofInt_real]; ring

theorem bdt_call_minus_put (dsc : Nat → Nat → ℝ) (x : Nat → ℝ) (E d : Nat) (k : Nat) :
    iterBack (fun m => bdtBackStep 𝕆 (dsc m)) (fun i => max (x i) 0) E d k
      - iterBack (fun m => bdtBackStep 𝕆 (dsc m)) (fun i => max (-x i) 0) E d k
      = iterBack (fun m => bdtBackStep 𝕆 (dsc m)) x E d k :=
  generic_tree_call_minus_put _ (fun m => bdtBackStep_isLinear (dsc m)) x E d k

/-! ### swaption trees: exercise level, Bermudan ≥ European, non-negativity -/

/-- above the first flagged level nothing has been exercised: the option values are still zero -/
theorem bermBack_zero (J : Nat) (p : Int → P3 ℝ) (z : Nat → Int → ℝ) (payoff : Nat → Int → ℝ) (ex : Nat → Bool)
    (M d : Nat) (hno : ∀ k, k < d → ex (M - (k + 1)) = false) : bermBack 𝕆 J p z payoff ex M d = fun _ => 0 := by
  induction d with
  | zero => funext j; simp [bermBack]
  | succ d ih =>
    funext j
    simp only [bermBack, optLevel, hno d (Nat.lt_succ_self d), Bool.false_eq_true, if_false,
      ih (fun k hk => hno k (Nat.lt_succ_of_lt hk))]
    simp [backStep]

/-- at the (single) exercise level of a European swaption the hold value is zero, so
pay − receive = max(x,0) − max(−x,0) = x with x = par leg − clean fixed leg: exactly, node by node -/
theorem swaption_exercise_level (J : Nat) (p : Int → P3 ℝ) (zm : Int → ℝ) (x : Int → ℝ) (j : Int) :
    optLevel 𝕆 J p zm x true (fun _ => 0) j - optLevel 𝕆 J p zm (fun i => -x i) true (fun _ => 0) j = x j := by
  simp only [optLevel, if_true, max_real, backStep, mul_zero, add_zero, zero_mul]
  exact max_sub_max_neg (x j)

theorem bermBack_nonneg {J : Nat} (hJ : 0 < J) {p z} (hn : NonNeg J p z) (payoff : Nat → Int → ℝ) (ex : Nat → Bool)
    (M d : Nat) (j : Int) (hj : Node J j) : 0 ≤ bermBack 𝕆 J p z payoff ex M d j := by
  induction d generalizing j with
  | zero => simp [bermBack]
  | succ d ih =>
    simp only [bermBack, optLevel]
    have := backStep_nonneg hJ hn (M - (d + 1)) _ (fun i hi => ih i hi) j hj
    split
    · simp only [max_real]; exact le_max_of_le_right this
    · exact this

/-- **C08** more exercise dates ⇒ larger value (monotone operator; needs non-negative branch probabilities and
discounts, C03 `hw_probs_in_unit_interval`). -/
theorem bermBack_mono_exercise {J : Nat} (hJ : 0 < J) {p z} (hn : NonNeg J p z) (payoff : Nat → Int → ℝ)
    (ex ex' : Nat → Bool) (hex : ∀ m, ex m = true → ex' m = true) (M d : Nat) (j : Int) (hj : Node J j) :
    bermBack 𝕆 J p z payoff ex M d j ≤ bermBack 𝕆 J p z payoff ex' M d j := by
  induction d generalizing j with
  | zero => simp [bermBack]
  | succ d ih =>
    simp only [bermBack, optLevel]
    have hb := backStep_mono hJ hn (M - (d + 1)) _ _ (fun i hi => ih i hi) j hj
    cases h1 : ex (M - (d + 1)) with
    | true =>
      rw [hex _ h1]
      simp only [if_true, max_real]
      exact max_le_max le_rfl hb
    | false =>
      cases h2 : ex' (M - (d + 1)) with
      | true => simp only [if_true, max_real]; exact le_max_of_le_right hb
      | false => simpa using hb

/-- **C08** Bermudan ≥ European with the same first exercise date: the European swaption exercises at level `E`
only, the Bermudan one at `E` and at the later coupon levels `cpn`. -/
theorem bermudan_ge_european {J : Nat} (hJ : 0 < J) {p z} (hn : NonNeg J p z) (payoff : Nat → Int → ℝ)
    (E : Nat) (cpn : Nat → Bool) (M : Nat) :
    0 ≤ bermBack 𝕆 J p z payoff (fun m => decide (m = E)) M M 0 ∧
    bermBack 𝕆 J p z payoff (fun m => decide (m = E)) M M 0
      ≤ bermBack 𝕆 J p z payoff (fun m => decide (m = E) || (cpn m && decide (E < m))) M M 0 := by
  have h0 : Node J 0 := by unfold Node; omega
  refine ⟨bermBack_nonneg hJ hn _ _ M M 0 h0, bermBack_mono_exercise hJ hn _ _ _ ?_ M M 0 h0⟩
  intro m hm
  simp only [hm, Bool.true_or]

/-- bond options on the trees: American ≥ European ≥ 0 (C03 `american_ge_european_ge_0`, restated for the
call / put payoffs of `BondOption`) -/
theorem bond_option_american_ge_european_ge_0 {J : Nat} (hJ : 0 < J) {p z} (hn : NonNeg J p z)
    (clean : Nat → Int → ℝ) (K : ℝ) (M : Nat) :
    (0 ≤ optBack 𝕆 J p z (fun m i => clean m i - K) (fun _ => false) M M 0 ∧
      optBack 𝕆 J p z (fun m i => clean m i - K) (fun _ => false) M M 0
        ≤ optBack 𝕆 J p z (fun m i => clean m i - K) (fun _ => true) M M 0) ∧
    (0 ≤ optBack 𝕆 J p z (fun m i => K - clean m i) (fun _ => false) M M 0 ∧
      optBack 𝕆 J p z (fun m i => K - clean m i) (fun _ => false) M M 0
        ≤ optBack 𝕆 J p z (fun m i => K - clean m i) (fun _ => true) M M 0) :=
  ⟨american_ge_european_ge_0 hJ hn _ M, american_ge_european_ge_0 hJ hn _ M⟩

end FinVerif.Props.C08
