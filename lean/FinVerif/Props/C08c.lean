/-
  C08 (part c) — each model's OWN price function, as generated from the source (`Gen/BSP`: black.py, black_shifted.py,
  bachelier.py; `Gen/RateOptP`: sabr.py, sabr_shifted.py, hw_tree.py `option_on_zcb`):
    * it is an instance of the Black form  a·Φ(d₁) − b·Φ(d₁ − w)  (Bachelier: of the normal form x·Φ(x/w) + w·φ(x/w));
    * bounds: discounted intrinsic ≤ call ≤ df·(F + shift), discounted intrinsic ≤ put ≤ df·(K + shift)
      (Bachelier: time value ≤ df·σ√t·c, c = φ(0));
    * vega ≥ 0 / monotone in volatility; call falls and put rises with the strike;
    * zero volatility: the limit σ → 0⁺ is the discounted intrinsic value (shifted Black, SABR, Bachelier have no
      branch for σ = 0: the code divides by σ√t); Black-76 clamps σ at 1e-12 and is then within df·K·c·1e-12·√t of it.
  The cdf enters through the hypothesis bundle `IsNormalCdf Φ φ c` (Lemmas/C08): Φ' = φ = c·exp(−x²/2), c > 0,
  Φ(x) + Φ(−x) = 1, Φ(+∞) = 1 — satisfied by the normal cdf (`Props/C08n.exists_normalCdf`), assumed and never postulated.
  The hand-model functions `sabrValue`, `hwZcb` of Model/C08 are shown to BE the generated functions.
-/
import FinVerif.Props.C08a
import FinVerif.Props.C05f
import FinVerif.Lemmas.C08
import FinVerif.Gen.RateOptP

set_option linter.unusedVariables false
set_option linter.unusedSimpArgs false

namespace FinVerif.Props.C08
open FinVerif FinVerif.Gen FinVerif.C05 FinVerif.C08 FinVerif.Props.C05 FinVerif.Model.C08 Filter Topology

variable {Φ φ : ℝ → ℝ} {c : ℝ}

theorem mul_max_zero {e : ℝ} (he : 0 ≤ e) (x : ℝ) : max (e * x) 0 = e * max x 0 := by
  rw [mul_max_of_nonneg _ _ he, mul_zero]

theorem lit_small (Φ φ : ℝ → ℝ) : (realKern Φ φ).lit 1 (-10) = (1e-10 : ℝ) := by simp [realKern]; norm_num
theorem kltAbs (Φ φ : ℝ → ℝ) (x y : ℝ) : (realKern Φ φ).ltAbs x y = decide (|x| < y) := rfl
theorem kexp (Φ φ : ℝ → ℝ) (x : ℝ) : (realKern Φ φ).exp x = Real.exp x := rfl
theorem ksqrt (Φ φ : ℝ → ℝ) (x : ℝ) : (realKern Φ φ).sqrt x = Real.sqrt x := rfl
theorem klog (Φ φ : ℝ → ℝ) (x : ℝ) : (realKern Φ φ).log x = Real.log x := rfl
theorem kN (Φ φ : ℝ → ℝ) (x : ℝ) : (realKern Φ φ).N x = Φ x := rfl

/-! ### the hand model's SABR and Hull–White functions are the generated ones -/

/-- `Model/C08.sabrValue` = generated `SABR.value` (with `self.black_vol(f, k, t)` as the parameter `vol`) -/
theorem sabrValue_is_generated (Φ φ : ℝ → ℝ) (vol f k t df : ℝ) {ty : Int} (hty : ty = 1 ∨ ty = 2) :
    RateOptP.sabr_value Φ f k t df ty vol = .ok (sabrValue (realKern Φ φ) vol f k t df ty) := by
  rcases hty with rfl | rfl <;>
    simp [RateOptP.sabr_value, sabrValue, realKern]

/-- … and = generated `SABRShifted.value`: both classes price with the UNSHIFTED forward and strike -/
theorem sabrValue_is_generated_shifted (Φ φ : ℝ → ℝ) (vol f k t df : ℝ) {ty : Int} (hty : ty = 1 ∨ ty = 2) :
    RateOptP.sabr_shifted_value Φ f k t df ty vol = .ok (sabrValue (realKern Φ φ) vol f k t df ty) := by
  rcases hty with rfl | rfl <;>
    simp [RateOptP.sabr_shifted_value, sabrValue, realKern]

/-- SABR.value is shifted Black with shift 0 at the SABR volatility -/
theorem sabr_value_eq_shifted_zero (Φ : ℝ → ℝ) (vol f k t df : ℝ) {ty : Int} (hty : ty = 1 ∨ ty = 2) :
    RateOptP.sabr_value Φ f k t df ty vol = BSP.black_shifted_value Φ f k t df ty 0 vol := by
  rcases hty with rfl | rfl <;>
    simp [RateOptP.sabr_value, BSP.black_shifted_value]

/-- `Model/C08.hwZcb` = generated `HWTree.option_on_zcb` (the two curve reads as parameters) wherever the code does
not raise (`t_exp ≤ t_mat`, `t_exp ≥ 0`) -/
theorem hwZcb_is_generated (Φ φ : ℝ → ℝ) (sigma a texp tmat strike face pe pm : ℝ) (h1 : texp ≤ tmat) (h2 : 0 ≤ texp) :
    RateOptP.hw_option_on_zcb Φ texp tmat strike face pe pm sigma a
      = .ok (hwZcb (realKern Φ φ) sigma a texp tmat strike face pe pm) := by
  have e1 : ¬ (texp > tmat) := not_lt.mpr h1
  have e2 : ¬ (texp < 0) := not_lt.mpr h2
  simp only [RateOptP.hw_option_on_zcb, hwZcb, lit_one, lit_two, lit_small, kltAbs, kexp, ksqrt, klog, kN,
    decide_eq_true_eq, e1, e2, if_false, neg_mul]

/-- … and it raises FinError otherwise -/
theorem hw_option_on_zcb_error (Φ : ℝ → ℝ) (sigma a texp tmat strike face pe pm : ℝ) (h : tmat < texp ∨ texp < 0) :
    RateOptP.hw_option_on_zcb Φ texp tmat strike face pe pm sigma a = .error .finError := by
  simp only [RateOptP.hw_option_on_zcb, decide_eq_true_eq, gt_iff_lt]
  rcases h with h | h
  · simp [h]
  · by_cases h' : tmat < texp <;> simp [h, h']

/-! ### Black-76 (`black_value`, `black_vega` of black.py) -/

/-- total volatility as `calculate_d1_d2` sees it (both clamps) -/
noncomputable def bkW (t v : ℝ) : ℝ := max v 1e-12 * Real.sqrt (max t 1e-12)

theorem bkW_pos (t v : ℝ) : 0 < bkW t v :=
  mul_pos (lt_of_lt_of_le (by norm_num) (le_max_right _ _))
    (Real.sqrt_pos.mpr (lt_of_lt_of_le (by norm_num) (le_max_right _ _)))

theorem bkW_mono (t : ℝ) : Monotone (fun v => bkW t v) := fun v v' h =>
  mul_le_mul_of_nonneg_right (max_le_max h le_rfl) (Real.sqrt_nonneg _)

/-- the coded Black-76 call / put are the Black form of (e^{−rt}F, e^{−rt}K, max(σ,ε)·√max(t,ε)) -/
theorem black_value_eq_bf (Φ : ℝ → ℝ) {f k : ℝ} (hf : 0 < f) (hk : 1e-12 ≤ k) (t r v : ℝ) :
    okVal (BSP.black_value Φ f t k r v 1) = bfCall Φ (Real.exp (-r * t) * f) (Real.exp (-r * t) * k) (bkW t v) ∧
    okVal (BSP.black_value Φ f t k r v 2) = bfPut Φ (Real.exp (-r * t) * f) (Real.exp (-r * t) * k) (bkW t v) := by
  constructor
  · rw [black_value_ok Φ hf hk t r v (Or.inl rfl)]
    simp only [flipN, eps_one, bfCall, bkW, one_mul]
  · rw [black_value_ok Φ hf hk t r v (Or.inr rfl)]
    simp only [flipN, eps_two, bfPut, bkW]
    ring_nf

/-- **C08 (Black-76)** discounted intrinsic ≤ call ≤ discounted forward; discounted intrinsic ≤ put ≤ discounted strike -/
theorem black_value_bounds (h : IsNormalCdf Φ φ c) {f k : ℝ} (hf : 0 < f) (hk : 1e-12 ≤ k) (t r v : ℝ) :
    (Real.exp (-r * t) * max (f - k) 0 ≤ okVal (BSP.black_value Φ f t k r v 1) ∧
      okVal (BSP.black_value Φ f t k r v 1) ≤ Real.exp (-r * t) * f) ∧
    (Real.exp (-r * t) * max (k - f) 0 ≤ okVal (BSP.black_value Φ f t k r v 2) ∧
      okVal (BSP.black_value Φ f t k r v 2) ≤ Real.exp (-r * t) * k) := by
  have hE := Real.exp_pos (-r * t)
  have hk0 : 0 < k := lt_of_lt_of_le (by norm_num) hk
  obtain ⟨e1, e2⟩ := black_value_eq_bf Φ hf hk t r v
  rw [e1, e2, ← mul_max_zero hE.le, ← mul_max_zero hE.le, mul_sub, mul_sub]
  exact ⟨⟨bfCall_ge_intrinsic h (mul_pos hE hf) (mul_pos hE hk0) (bkW_pos t v),
      bfCall_le h (mul_pos hE hf).le (mul_pos hE hk0).le _⟩,
    ⟨bfPut_ge_intrinsic h (mul_pos hE hf) (mul_pos hE hk0) (bkW_pos t v),
      bfPut_le h (mul_pos hE hf).le (mul_pos hE hk0).le _⟩⟩

/-- **C08 (Black-76)** the coded vega is non-negative -/
theorem black_vega_nonneg (h : IsNormalCdf Φ φ c) {f : ℝ} (hf : 0 < f) (t k r v : ℝ) {ty : Int} (hty : ty = 1 ∨ ty = 2) :
    0 ≤ okVal (BSP.black_vega φ f t k r v ty) := by
  rw [black_vega_shape φ hf t k r v hty]
  simp only [okVal_ok]
  exact mul_nonneg (mul_nonneg (mul_nonneg (Real.exp_pos _).le hf.le) (Real.sqrt_nonneg _)) (h.pdf_nonneg _)

/-- **C08 (Black-76)** the coded value is monotone in the volatility argument — on all of ℝ (constant below the clamp) -/
theorem black_value_monotone_in_vol (h : IsNormalCdf Φ φ c) {f k : ℝ} (hf : 0 < f) (hk : 1e-12 ≤ k) (t r : ℝ)
    {ty : Int} (hty : ty = 1 ∨ ty = 2) : Monotone (fun v => okVal (BSP.black_value Φ f t k r v ty)) := by
  have hE := Real.exp_pos (-r * t)
  have hk0 : 0 < k := lt_of_lt_of_le (by norm_num) hk
  intro v v' hvv
  rcases hty with rfl | rfl
  · simp only [(black_value_eq_bf Φ hf hk t r _).1]
    exact bfCall_monotoneOn_w h (mul_pos hE hf) (mul_pos hE hk0) (bkW_pos t v) (bkW_pos t v') (bkW_mono t hvv)
  · simp only [(black_value_eq_bf Φ hf hk t r _).2]
    exact bfPut_monotoneOn_w h (mul_pos hE hf) (mul_pos hE hk0) (bkW_pos t v) (bkW_pos t v') (bkW_mono t hvv)

/-- **C08 (Black-76)** the call falls and the put rises with the strike (strikes above the 1e-12 clamp) -/
theorem black_value_monotone_in_strike (h : IsNormalCdf Φ φ c) {f : ℝ} (hf : 0 < f) (t r v : ℝ) :
    AntitoneOn (fun k => okVal (BSP.black_value Φ f t k r v 1)) (Set.Ici 1e-12) ∧
    MonotoneOn (fun k => okVal (BSP.black_value Φ f t k r v 2)) (Set.Ici 1e-12) := by
  have hE := Real.exp_pos (-r * t)
  have hpos : ∀ k : ℝ, k ∈ Set.Ici (1e-12 : ℝ) → Real.exp (-r * t) * k ∈ Set.Ioi (0 : ℝ) := fun k hk =>
    mul_pos hE (lt_of_lt_of_le (by norm_num) hk)
  constructor
  · intro k hk k' hk' hkk
    simp only [(black_value_eq_bf Φ hf hk t r v).1, (black_value_eq_bf Φ hf hk' t r v).1]
    exact bfCall_antitoneOn_b h (mul_pos hE hf) (bkW_pos t v).ne' (hpos k hk) (hpos k' hk')
      (mul_le_mul_of_nonneg_left hkk hE.le)
  · intro k hk k' hk' hkk
    simp only [(black_value_eq_bf Φ hf hk t r v).2, (black_value_eq_bf Φ hf hk' t r v).2]
    exact bfPut_monotoneOn_b h (mul_pos hE hf) (bkW_pos t v).ne' (hpos k hk) (hpos k' hk')
      (mul_le_mul_of_nonneg_left hkk hE.le)

/-- **C08 (Black-76) zero volatility**: σ = 0 is priced at the clamp σ = 1e-12 (`black_zero_vol_is_clamped`), and
that value is the discounted intrinsic value up to e^{−rt}·K·c·1e-12·√max(t, 1e-12) (c = φ(0) ≈ 0.399). -/
theorem black_zero_vol_within (h : IsNormalCdf Φ φ c) {f k : ℝ} (hf : 0 < f) (hk : 1e-12 ≤ k) (t r : ℝ) {v : ℝ}
    (hv : v ≤ 1e-12) :
    (Real.exp (-r * t) * max (f - k) 0 ≤ okVal (BSP.black_value Φ f t k r v 1) ∧
      okVal (BSP.black_value Φ f t k r v 1)
        ≤ Real.exp (-r * t) * max (f - k) 0 + Real.exp (-r * t) * k * c * (1e-12 * Real.sqrt (max t 1e-12))) ∧
    (Real.exp (-r * t) * max (k - f) 0 ≤ okVal (BSP.black_value Φ f t k r v 2) ∧
      okVal (BSP.black_value Φ f t k r v 2)
        ≤ Real.exp (-r * t) * max (k - f) 0 + Real.exp (-r * t) * k * c * (1e-12 * Real.sqrt (max t 1e-12))) := by
  have hE := Real.exp_pos (-r * t)
  have hk0 : 0 < k := lt_of_lt_of_le (by norm_num) hk
  obtain ⟨e1, e2⟩ := black_value_eq_bf Φ hf hk t r v
  have hw : bkW t v = 1e-12 * Real.sqrt (max t 1e-12) := by unfold bkW; rw [max_eq_right hv]
  have hwp := bkW_pos t v
  rw [e1, e2, ← mul_max_zero hE.le, ← mul_max_zero hE.le, mul_sub, mul_sub, ← hw]
  exact ⟨⟨bfCall_ge_intrinsic h (mul_pos hE hf) (mul_pos hE hk0) hwp,
      bfCall_le_intrinsic_add h (mul_pos hE hf) (mul_pos hE hk0) hwp⟩,
    ⟨bfPut_ge_intrinsic h (mul_pos hE hf) (mul_pos hE hk0) hwp,
      bfPut_le_intrinsic_add h (mul_pos hE hf) (mul_pos hE hk0) hwp⟩⟩

/-- **C08 (Black-76) time value**, every σ and t: 0 ≤ value − discounted intrinsic ≤ e^{−rt}·K·c·max(σ,ε)·√max(t,ε).
At expiry (t ≤ 1e-12, priced at t = 1e-12) the value is within e^{−rt}·K·c·σ·1e-6 of the intrinsic value. -/
theorem black_time_value_bound (h : IsNormalCdf Φ φ c) {f k : ℝ} (hf : 0 < f) (hk : 1e-12 ≤ k) (t r v : ℝ) {ty : Int}
    (hty : ty = 1 ∨ ty = 2) :
    Real.exp (-r * t) * max (if ty = 1 then f - k else k - f) 0 ≤ okVal (BSP.black_value Φ f t k r v ty) ∧
    okVal (BSP.black_value Φ f t k r v ty)
      ≤ Real.exp (-r * t) * max (if ty = 1 then f - k else k - f) 0 + Real.exp (-r * t) * k * c * bkW t v := by
  have hE := Real.exp_pos (-r * t)
  have hk0 : 0 < k := lt_of_lt_of_le (by norm_num) hk
  obtain ⟨e1, e2⟩ := black_value_eq_bf Φ hf hk t r v
  have hwp := bkW_pos t v
  rcases hty with rfl | rfl
  · simp only [if_true]
    rw [e1, ← mul_max_zero hE.le, mul_sub]
    exact ⟨bfCall_ge_intrinsic h (mul_pos hE hf) (mul_pos hE hk0) hwp,
      bfCall_le_intrinsic_add h (mul_pos hE hf) (mul_pos hE hk0) hwp⟩
  · simp only [show ¬ ((2 : Int) = 1) by decide, if_false]
    rw [e2, ← mul_max_zero hE.le, mul_sub]
    exact ⟨bfPut_ge_intrinsic h (mul_pos hE hf) (mul_pos hE hk0) hwp,
      bfPut_le_intrinsic_add h (mul_pos hE hf) (mul_pos hE hk0) hwp⟩

/-- the as-coded branch for t = 0 (or any t ≤ 1e-12): total volatility max(σ,ε)·1e-6 -/
theorem bkW_at_expiry {t : ℝ} (ht : t ≤ 1e-12) (v : ℝ) : bkW t v = max v 1e-12 * 1e-6 := by
  unfold bkW
  rw [max_eq_right ht]
  congr 1
  rw [show (1e-12 : ℝ) = 1e-6 * 1e-6 by norm_num]
  exact Real.sqrt_mul_self (by norm_num)

/-- `Black.value` (the class method: `r = −log(df)/t`): df·intrinsic ≤ value ≤ df·F (call), df·K (put) -/
theorem black_model_bounds (h : IsNormalCdf Φ φ c) (vol : ℝ) {f k : ℝ} (hf : 0 < f) (hk : 1e-12 ≤ k) {t : ℝ} (ht : t ≠ 0)
    {df : ℝ} (hdf : 0 < df) :
    (df * max (f - k) 0 ≤ blackModelValue (realKern Φ φ) vol f k t df 1 ∧
      blackModelValue (realKern Φ φ) vol f k t df 1 ≤ df * f) ∧
    (df * max (k - f) 0 ≤ blackModelValue (realKern Φ φ) vol f k t df 2 ∧
      blackModelValue (realKern Φ φ) vol f k t df 2 ≤ df * k) := by
  have he : Real.exp (-(-(Real.log df) / t) * t) = df := by
    have : -(-(Real.log df) / t) * t = Real.log df := by field_simp
    rw [this, Real.exp_log hdf]
  have := black_value_bounds h hf hk t (-(Real.log df) / t) vol
  rw [he] at this
  simpa [blackModelValue, realKern] using this

/-! ### shifted Black (`BlackShifted.value`), SABR / shifted SABR (`SABR.value` at the Hagan volatility) -/

theorem shD1_eq_D1 (f k sh : ℝ) {t vol : ℝ} (ht : 0 < t) (hv : vol ≠ 0) :
    shD1 f k t sh vol = D1 (f + sh) (k + sh) (vol * Real.sqrt t) := by
  have hs : Real.sqrt t ≠ 0 := (Real.sqrt_pos.mpr ht).ne'
  have hsq : Real.sqrt t * Real.sqrt t = t := Real.mul_self_sqrt ht.le
  unfold shD1 D1
  field_simp
  linear_combination (-(vol * vol)) * hsq

/-- the coded shifted-Black call / put are df × the Black form of (F + s, K + s, σ√t) -/
theorem black_shifted_eq_bf (Φ : ℝ → ℝ) (f k df sh : ℝ) {t vol : ℝ} (ht : 0 < t) (hv : vol ≠ 0) :
    okVal (BSP.black_shifted_value Φ f k t df 1 sh vol) = df * bfCall Φ (f + sh) (k + sh) (vol * Real.sqrt t) ∧
    okVal (BSP.black_shifted_value Φ f k t df 2 sh vol) = df * bfPut Φ (f + sh) (k + sh) (vol * Real.sqrt t) := by
  constructor
  · rw [(black_shifted_shape Φ f k t df sh vol).1]
    simp only [okVal_ok, bfCall, shD1_eq_D1 f k sh ht hv]
  · rw [(black_shifted_shape Φ f k t df sh vol).2]
    simp only [okVal_ok, bfPut, shD1_eq_D1 f k sh ht hv]

/-- **C08 (shifted Black)** df·intrinsic ≤ call ≤ df·(F + s), df·intrinsic ≤ put ≤ df·(K + s) -/
theorem black_shifted_bounds (h : IsNormalCdf Φ φ c) {f k sh : ℝ} (hf : 0 < f + sh) (hk : 0 < k + sh) {t vol : ℝ}
    (ht : 0 < t) (hv : 0 < vol) {df : ℝ} (hdf : 0 ≤ df) :
    (df * max (f - k) 0 ≤ okVal (BSP.black_shifted_value Φ f k t df 1 sh vol) ∧
      okVal (BSP.black_shifted_value Φ f k t df 1 sh vol) ≤ df * (f + sh)) ∧
    (df * max (k - f) 0 ≤ okVal (BSP.black_shifted_value Φ f k t df 2 sh vol) ∧
      okVal (BSP.black_shifted_value Φ f k t df 2 sh vol) ≤ df * (k + sh)) := by
  obtain ⟨e1, e2⟩ := black_shifted_eq_bf Φ f k df sh ht hv.ne'
  have hw : 0 < vol * Real.sqrt t := mul_pos hv (Real.sqrt_pos.mpr ht)
  have i1 := bfCall_ge_intrinsic h hf hk hw
  have i2 := bfPut_ge_intrinsic h hf hk hw
  rw [show f + sh - (k + sh) = f - k by ring] at i1
  rw [show k + sh - (f + sh) = k - f by ring] at i2
  rw [e1, e2]
  exact ⟨⟨mul_le_mul_of_nonneg_left i1 hdf, mul_le_mul_of_nonneg_left (bfCall_le h hf.le hk.le _) hdf⟩,
    ⟨mul_le_mul_of_nonneg_left i2 hdf, mul_le_mul_of_nonneg_left (bfPut_le h hf.le hk.le _) hdf⟩⟩

/-- **C08 (shifted Black)** vega: ∂value/∂σ = df·(K + s)·√t·φ(d₂) ≥ 0 (the class has no coded vega) -/
theorem black_shifted_vega (h : IsNormalCdf Φ φ c) {f k sh : ℝ} (hf : 0 < f + sh) (hk : 0 < k + sh) {t vol : ℝ}
    (ht : 0 < t) (hv : 0 < vol) {df : ℝ} (hdf : 0 ≤ df) :
    HasDerivAt (fun x => okVal (BSP.black_shifted_value Φ f k t df 1 sh x))
      (df * ((k + sh) * φ (shD1 f k t sh vol - vol * Real.sqrt t) * Real.sqrt t)) vol ∧
    0 ≤ df * ((k + sh) * φ (shD1 f k t sh vol - vol * Real.sqrt t) * Real.sqrt t) := by
  have hs : 0 < Real.sqrt t := Real.sqrt_pos.mpr ht
  constructor
  · have hw : HasDerivAt (fun x : ℝ => x * Real.sqrt t) (Real.sqrt t) vol := by
      simpa using (hasDerivAt_id vol).mul_const (Real.sqrt t)
    have hc := (bfCall_hasDerivAt_w h hf hk (mul_pos hv hs).ne').comp vol hw
    have e : (fun x => okVal (BSP.black_shifted_value Φ f k t df 1 sh x)) =ᶠ[𝓝 vol]
        fun x => df * bfCall Φ (f + sh) (k + sh) (x * Real.sqrt t) := by
      filter_upwards [Ioi_mem_nhds hv] with x hx
      exact (black_shifted_eq_bf Φ f k df sh ht (ne_of_gt hx)).1
    refine ((hc.const_mul df).congr_of_eventuallyEq e).congr_deriv ?_
    rw [shD1_eq_D1 f k sh ht hv.ne']
  · exact mul_nonneg hdf (mul_nonneg (mul_nonneg hk.le (h.pdf_nonneg _)) hs.le)

/-- **C08 (shifted Black)** monotone in volatility (σ > 0), both legs -/
theorem black_shifted_monotone_in_vol (h : IsNormalCdf Φ φ c) {f k sh : ℝ} (hf : 0 < f + sh) (hk : 0 < k + sh) {t : ℝ}
    (ht : 0 < t) {df : ℝ} (hdf : 0 ≤ df) {ty : Int} (hty : ty = 1 ∨ ty = 2) :
    MonotoneOn (fun vol => okVal (BSP.black_shifted_value Φ f k t df ty sh vol)) (Set.Ioi 0) := by
  have hs : 0 < Real.sqrt t := Real.sqrt_pos.mpr ht
  intro v hv v' hv' hvv
  have hw : v * Real.sqrt t ≤ v' * Real.sqrt t := mul_le_mul_of_nonneg_right hvv hs.le
  rcases hty with rfl | rfl
  · simp only [(black_shifted_eq_bf Φ f k df sh ht (ne_of_gt hv)).1, (black_shifted_eq_bf Φ f k df sh ht (ne_of_gt hv')).1]
    exact mul_le_mul_of_nonneg_left (bfCall_monotoneOn_w h hf hk (mul_pos hv hs) (mul_pos hv' hs) hw) hdf
  · simp only [(black_shifted_eq_bf Φ f k df sh ht (ne_of_gt hv)).2, (black_shifted_eq_bf Φ f k df sh ht (ne_of_gt hv')).2]
    exact mul_le_mul_of_nonneg_left (bfPut_monotoneOn_w h hf hk (mul_pos hv hs) (mul_pos hv' hs) hw) hdf

/-- **C08 (shifted Black)** the call falls and the put rises with the strike (K + s > 0) -/
theorem black_shifted_monotone_in_strike (h : IsNormalCdf Φ φ c) {f sh : ℝ} (hf : 0 < f + sh) {t vol : ℝ}
    (ht : 0 < t) (hv : 0 < vol) {df : ℝ} (hdf : 0 ≤ df) :
    AntitoneOn (fun k => okVal (BSP.black_shifted_value Φ f k t df 1 sh vol)) (Set.Ioi (-sh)) ∧
    MonotoneOn (fun k => okVal (BSP.black_shifted_value Φ f k t df 2 sh vol)) (Set.Ioi (-sh)) := by
  have hw : vol * Real.sqrt t ≠ 0 := (mul_pos hv (Real.sqrt_pos.mpr ht)).ne'
  have hpos : ∀ k : ℝ, k ∈ Set.Ioi (-sh) → k + sh ∈ Set.Ioi (0 : ℝ) := fun k hk => by
    simp only [Set.mem_Ioi] at hk ⊢; linarith
  constructor
  · intro k hk k' hk' hkk
    simp only [(black_shifted_eq_bf Φ f _ df sh ht hv.ne').1]
    exact mul_le_mul_of_nonneg_left (bfCall_antitoneOn_b h hf hw (hpos k hk) (hpos k' hk') (by linarith)) hdf
  · intro k hk k' hk' hkk
    simp only [(black_shifted_eq_bf Φ f _ df sh ht hv.ne').2]
    exact mul_le_mul_of_nonneg_left (bfPut_monotoneOn_b h hf hw (hpos k hk) (hpos k' hk') (by linarith)) hdf

theorem tendsto_mul_sqrt_nhdsGT {t : ℝ} (ht : 0 < t) :
    Tendsto (fun v : ℝ => v * Real.sqrt t) (𝓝[>] 0) (𝓝[>] 0) := by
  have hs : 0 < Real.sqrt t := Real.sqrt_pos.mpr ht
  apply tendsto_nhdsWithin_of_tendsto_nhds_of_eventually_within
  · have : Tendsto (fun v : ℝ => v * Real.sqrt t) (𝓝 0) (𝓝 (0 * Real.sqrt t)) :=
      (continuous_id.mul continuous_const).tendsto 0
    rw [zero_mul] at this
    exact this.mono_left nhdsWithin_le_nhds
  · filter_upwards [self_mem_nhdsWithin] with v hv
    exact mul_pos hv hs

/-- **C08 (shifted Black) zero volatility = discounted intrinsic value**, as a limit: the code has no branch for
σ = 0 (it divides by σ√t) -/
theorem black_shifted_zero_vol_limit (h : IsNormalCdf Φ φ c) {f k sh : ℝ} (hf : 0 < f + sh) (hk : 0 < k + sh) {t : ℝ}
    (ht : 0 < t) (df : ℝ) :
    Tendsto (fun vol => okVal (BSP.black_shifted_value Φ f k t df 1 sh vol)) (𝓝[>] 0) (𝓝 (df * max (f - k) 0)) ∧
    Tendsto (fun vol => okVal (BSP.black_shifted_value Φ f k t df 2 sh vol)) (𝓝[>] 0) (𝓝 (df * max (k - f) 0)) := by
  have l1 := ((bfCall_tendsto_intrinsic h hf hk).comp (tendsto_mul_sqrt_nhdsGT ht)).const_mul df
  have l2 := ((bfPut_tendsto_intrinsic h hf hk).comp (tendsto_mul_sqrt_nhdsGT ht)).const_mul df
  rw [show f + sh - (k + sh) = f - k by ring] at l1
  rw [show k + sh - (f + sh) = k - f by ring] at l2
  constructor
  · refine l1.congr' ?_
    filter_upwards [self_mem_nhdsWithin] with v hv
    exact ((black_shifted_eq_bf Φ f k df sh ht (ne_of_gt hv)).1).symm
  · refine l2.congr' ?_
    filter_upwards [self_mem_nhdsWithin] with v hv
    exact ((black_shifted_eq_bf Φ f k df sh ht (ne_of_gt hv)).2).symm

/-- **C08 (SABR, shifted SABR)** whatever volatility the Hagan formula returned (σ > 0): df·intrinsic ≤ call ≤ df·F,
df·intrinsic ≤ put ≤ df·K — for the generated `SABR.value` / `SABRShifted.value`, i.e. for `Model/C08.sabrValue`. -/
theorem sabr_value_bounds (h : IsNormalCdf Φ φ c) {f k : ℝ} (hf : 0 < f) (hk : 0 < k) {t vol : ℝ} (ht : 0 < t)
    (hv : 0 < vol) {df : ℝ} (hdf : 0 ≤ df) :
    (df * max (f - k) 0 ≤ sabrValue (realKern Φ φ) vol f k t df 1 ∧ sabrValue (realKern Φ φ) vol f k t df 1 ≤ df * f) ∧
    (df * max (k - f) 0 ≤ sabrValue (realKern Φ φ) vol f k t df 2 ∧ sabrValue (realKern Φ φ) vol f k t df 2 ≤ df * k) := by
  have e : ∀ ty : Int, ty = 1 ∨ ty = 2 →
      sabrValue (realKern Φ φ) vol f k t df ty = okVal (BSP.black_shifted_value Φ f k t df ty 0 vol) := fun ty hty => by
    rw [← sabr_value_eq_shifted_zero Φ vol f k t df hty, sabrValue_is_generated Φ φ vol f k t df hty, okVal_ok]
  have := black_shifted_bounds h (sh := 0) (by simpa using hf) (by simpa using hk) ht hv hdf
  rw [e 1 (Or.inl rfl), e 2 (Or.inr rfl)]
  simpa using this

/-- **C08 (SABR, shifted SABR)** the price rises with the Black volatility the Hagan formula hands to it -/
theorem sabr_value_monotone_in_black_vol (h : IsNormalCdf Φ φ c) {f k : ℝ} (hf : 0 < f) (hk : 0 < k) {t : ℝ} (ht : 0 < t)
    {df : ℝ} (hdf : 0 ≤ df) {ty : Int} (hty : ty = 1 ∨ ty = 2) :
    MonotoneOn (fun vol => sabrValue (realKern Φ φ) vol f k t df ty) (Set.Ioi 0) := by
  have e : ∀ vol, sabrValue (realKern Φ φ) vol f k t df ty = okVal (BSP.black_shifted_value Φ f k t df ty 0 vol) := fun vol => by
    rw [← sabr_value_eq_shifted_zero Φ vol f k t df hty, sabrValue_is_generated Φ φ vol f k t df hty, okVal_ok]
  simp only [e]
  exact black_shifted_monotone_in_vol h (sh := 0) (by simpa using hf) (by simpa using hk) ht hdf hty

/-- the bundle gives the symmetry the parity theorems of Props/C08a assume -/
theorem IsNormalCdf_symm (h : IsNormalCdf Φ φ c) : Symm Φ := h.symm

/-! ### Bachelier (`Bachelier.value`; cdf and pdf are SciPy's) -/

/-- the coded Bachelier call / put are df × the normal form of (F − K, σ√t) resp. (K − F, σ√t) -/
theorem bachelier_eq_form (h : IsNormalCdf Φ φ c) (f k t df vol : ℝ) :
    okVal (BSP.bachelier_value Φ φ f k t df 1 vol) = df * bachCall Φ φ (f - k) (vol * Real.sqrt t) ∧
    okVal (BSP.bachelier_value Φ φ f k t df 2 vol) = df * bachCall Φ φ (k - f) (vol * Real.sqrt t) := by
  constructor
  · simp only [BSP.bachelier_value, decide_eq_true_eq, eq_self_iff_true, if_true, okVal_ok, bachCall]
  · simp only [BSP.bachelier_value, decide_eq_true_eq, show ¬ ((2 : Int) = 1) by decide, if_false, eq_self_iff_true,
      if_true, okVal_ok, bachCall]
    have e : (k - f) / (vol * Real.sqrt t) = -((f - k) / (vol * Real.sqrt t)) := by rw [← neg_div, neg_sub]
    rw [e, h.pdf_even]

/-- **C08 (Bachelier)** df·intrinsic ≤ value ≤ df·(intrinsic + c·σ√t): non-negative, time value at most
df·σ√t·φ(0) (the harness's `σ√t/√(2π)` bound) -/
theorem bachelier_bounds (h : IsNormalCdf Φ φ c) (f k : ℝ) {t vol : ℝ} (ht : 0 < t) (hv : 0 < vol) {df : ℝ} (hdf : 0 ≤ df) :
    (df * max (f - k) 0 ≤ okVal (BSP.bachelier_value Φ φ f k t df 1 vol) ∧
      okVal (BSP.bachelier_value Φ φ f k t df 1 vol) ≤ df * (max (f - k) 0 + c * (vol * Real.sqrt t))) ∧
    (df * max (k - f) 0 ≤ okVal (BSP.bachelier_value Φ φ f k t df 2 vol) ∧
      okVal (BSP.bachelier_value Φ φ f k t df 2 vol) ≤ df * (max (k - f) 0 + c * (vol * Real.sqrt t))) := by
  obtain ⟨e1, e2⟩ := bachelier_eq_form h f k t df vol
  have hw : 0 < vol * Real.sqrt t := mul_pos hv (Real.sqrt_pos.mpr ht)
  rw [e1, e2]
  exact ⟨⟨mul_le_mul_of_nonneg_left (bachCall_ge_intrinsic h _ hw) hdf,
      mul_le_mul_of_nonneg_left (bachCall_le_intrinsic_add h _ hw.le) hdf⟩,
    ⟨mul_le_mul_of_nonneg_left (bachCall_ge_intrinsic h _ hw) hdf,
      mul_le_mul_of_nonneg_left (bachCall_le_intrinsic_add h _ hw.le) hdf⟩⟩

/-- **C08 (Bachelier)** vega: ∂value/∂σ = df·√t·φ(d) ≥ 0 -/
theorem bachelier_vega (h : IsNormalCdf Φ φ c) (f k : ℝ) {t vol : ℝ} (ht : 0 < t) (hv : 0 < vol) {df : ℝ} (hdf : 0 ≤ df) :
    HasDerivAt (fun x => okVal (BSP.bachelier_value Φ φ f k t df 1 x))
      (df * (φ ((f - k) / (vol * Real.sqrt t)) * Real.sqrt t)) vol ∧
    0 ≤ df * (φ ((f - k) / (vol * Real.sqrt t)) * Real.sqrt t) := by
  have hs : 0 < Real.sqrt t := Real.sqrt_pos.mpr ht
  constructor
  · have hw : HasDerivAt (fun x : ℝ => x * Real.sqrt t) (Real.sqrt t) vol := by
      simpa using (hasDerivAt_id vol).mul_const (Real.sqrt t)
    have hc := ((bachCall_hasDerivAt_w h (f - k) (mul_pos hv hs).ne').comp vol hw).const_mul df
    have e : (fun x => okVal (BSP.bachelier_value Φ φ f k t df 1 x))
        = fun x => df * bachCall Φ φ (f - k) (x * Real.sqrt t) := funext fun x => (bachelier_eq_form h f k t df x).1
    rw [e]
    exact hc
  · exact mul_nonneg hdf (mul_nonneg (h.pdf_nonneg _) hs.le)

/-- **C08 (Bachelier)** monotone in volatility (σ > 0), both legs -/
theorem bachelier_monotone_in_vol (h : IsNormalCdf Φ φ c) (f k : ℝ) {t : ℝ} (ht : 0 < t) {df : ℝ} (hdf : 0 ≤ df)
    {ty : Int} (hty : ty = 1 ∨ ty = 2) :
    MonotoneOn (fun vol => okVal (BSP.bachelier_value Φ φ f k t df ty vol)) (Set.Ioi 0) := by
  have hs : 0 < Real.sqrt t := Real.sqrt_pos.mpr ht
  intro v hv v' hv' hvv
  have hw : v * Real.sqrt t ≤ v' * Real.sqrt t := mul_le_mul_of_nonneg_right hvv hs.le
  rcases hty with rfl | rfl
  · simp only [(bachelier_eq_form h f k t df _).1]
    exact mul_le_mul_of_nonneg_left (bachCall_monotoneOn_w h _ (mul_pos hv hs) (mul_pos hv' hs) hw) hdf
  · simp only [(bachelier_eq_form h f k t df _).2]
    exact mul_le_mul_of_nonneg_left (bachCall_monotoneOn_w h _ (mul_pos hv hs) (mul_pos hv' hs) hw) hdf

/-- **C08 (Bachelier)** the call falls and the put rises with the strike — every real strike -/
theorem bachelier_monotone_in_strike (h : IsNormalCdf Φ φ c) (f : ℝ) {t vol : ℝ} (ht : 0 < t) (hv : 0 < vol) {df : ℝ}
    (hdf : 0 ≤ df) :
    Antitone (fun k => okVal (BSP.bachelier_value Φ φ f k t df 1 vol)) ∧
    Monotone (fun k => okVal (BSP.bachelier_value Φ φ f k t df 2 vol)) := by
  have hw : vol * Real.sqrt t ≠ 0 := (mul_pos hv (Real.sqrt_pos.mpr ht)).ne'
  constructor
  · intro k k' hkk
    simp only [(bachelier_eq_form h f _ t df vol).1]
    exact mul_le_mul_of_nonneg_left (bachCall_monotone_x h hw (by linarith)) hdf
  · intro k k' hkk
    simp only [(bachelier_eq_form h f _ t df vol).2]
    exact mul_le_mul_of_nonneg_left (bachCall_monotone_x h hw (by linarith)) hdf

/-- **C08 (Bachelier) zero volatility = discounted intrinsic value**, as a limit (no branch for σ = 0 in the code) -/
theorem bachelier_zero_vol_limit (h : IsNormalCdf Φ φ c) (f k : ℝ) {t : ℝ} (ht : 0 < t) (df : ℝ) :
    Tendsto (fun vol => okVal (BSP.bachelier_value Φ φ f k t df 1 vol)) (𝓝[>] 0) (𝓝 (df * max (f - k) 0)) ∧
    Tendsto (fun vol => okVal (BSP.bachelier_value Φ φ f k t df 2 vol)) (𝓝[>] 0) (𝓝 (df * max (k - f) 0)) := by
  have l1 := ((bachCall_tendsto_intrinsic h (f - k)).comp (tendsto_mul_sqrt_nhdsGT ht)).const_mul df
  have l2 := ((bachCall_tendsto_intrinsic h (k - f)).comp (tendsto_mul_sqrt_nhdsGT ht)).const_mul df
  exact ⟨l1.congr (fun v => ((bachelier_eq_form h f k t df v).1).symm),
    l2.congr (fun v => ((bachelier_eq_form h f k t df v).2).symm)⟩

/-! ### Hull–White closed form (`HWTree.option_on_zcb`) -/

/-- σ_P of `option_on_zcb`, both SMALL clamps as coded -/
noncomputable def hwSigP (sigma a texp tmat : ℝ) : ℝ :=
  let a' := if |a| < 1e-10 then 1e-10 else a
  let s := sigma / a' * (1 - Real.exp (-(a' * (tmat - texp))))
    * Real.sqrt ((1 - Real.exp (-(2 * a' * texp))) / 2 / a')
  if |s| < 1e-10 then 1e-10 else s

/-- with σ ≥ 0, a > 0, 0 ≤ t_exp ≤ t_mat the clamped σ_P is at least 1e-10 -/
theorem hwSigP_pos {sigma a texp tmat : ℝ} (hs : 0 ≤ sigma) (ha : 0 < a) (h1 : texp ≤ tmat) :
    0 < hwSigP sigma a texp tmat := by
  unfold hwSigP
  have ha' : 0 < (if |a| < 1e-10 then (1e-10 : ℝ) else a) := by
    split
    · norm_num
    · exact ha
  set a' := (if |a| < 1e-10 then (1e-10 : ℝ) else a)
  have h2 : 0 ≤ 1 - Real.exp (-(a' * (tmat - texp))) := by
    have : Real.exp (-(a' * (tmat - texp))) ≤ 1 :=
      Real.exp_le_one_iff.mpr (by nlinarith [mul_nonneg ha'.le (sub_nonneg.mpr h1)])
    linarith
  have h3 : 0 ≤ sigma / a' * (1 - Real.exp (-(a' * (tmat - texp))))
      * Real.sqrt ((1 - Real.exp (-(2 * a' * texp))) / 2 / a') :=
    mul_nonneg (mul_nonneg (div_nonneg hs ha'.le) h2) (Real.sqrt_nonneg _)
  simp only []
  split
  · norm_num
  · rename_i hh
    rw [abs_of_nonneg h3] at hh
    exact lt_of_lt_of_le (by norm_num) (not_lt.mp hh)

/-- `option_on_zcb` is the Black form of (face·P(t_mat), strike·P(t_exp), σ_P) -/
theorem hwZcb_eq_bf (Φ φ : ℝ → ℝ) (sigma a texp tmat strike face pe pm : ℝ) :
    hwZcb (realKern Φ φ) sigma a texp tmat strike face pe pm
      = (bfCall Φ (face * pm) (strike * pe) (hwSigP sigma a texp tmat),
         bfPut Φ (face * pm) (strike * pe) (hwSigP sigma a texp tmat)) := by
  simp only [hwZcb, hwSigP, bfCall, bfPut, D1, lit_one, lit_two, lit_small, kltAbs, kexp, ksqrt, klog, kN,
    decide_eq_true_eq, neg_add_eq_sub, neg_sub]

/-- **C08 (Hull–White closed form)** for positive discounted face and strike and σ_P > 0:
intrinsic ≤ call ≤ face·P(t_mat), intrinsic ≤ put ≤ strike·P(t_exp) -/
theorem hw_zcb_bounds (h : IsNormalCdf Φ φ c) {sigma a texp tmat strike face pe pm : ℝ} (hA : 0 < face * pm)
    (hB : 0 < strike * pe) (hw : 0 < hwSigP sigma a texp tmat) :
    (max (face * pm - strike * pe) 0 ≤ (hwZcb (realKern Φ φ) sigma a texp tmat strike face pe pm).1 ∧
      (hwZcb (realKern Φ φ) sigma a texp tmat strike face pe pm).1 ≤ face * pm) ∧
    (max (strike * pe - face * pm) 0 ≤ (hwZcb (realKern Φ φ) sigma a texp tmat strike face pe pm).2 ∧
      (hwZcb (realKern Φ φ) sigma a texp tmat strike face pe pm).2 ≤ strike * pe) := by
  rw [hwZcb_eq_bf]
  exact ⟨⟨bfCall_ge_intrinsic h hA hB hw, bfCall_le h hA.le hB.le _⟩,
    ⟨bfPut_ge_intrinsic h hA hB hw, bfPut_le h hA.le hB.le _⟩⟩

/-- **C08 (Hull–White closed form)** the call on the zero-coupon bond falls and the put rises with the strike -/
theorem hw_zcb_monotone_in_strike (h : IsNormalCdf Φ φ c) {sigma a texp tmat face pe pm : ℝ} (hA : 0 < face * pm)
    (hpe : 0 < pe) (hw : 0 < hwSigP sigma a texp tmat) :
    AntitoneOn (fun strike => (hwZcb (realKern Φ φ) sigma a texp tmat strike face pe pm).1) (Set.Ioi 0) ∧
    MonotoneOn (fun strike => (hwZcb (realKern Φ φ) sigma a texp tmat strike face pe pm).2) (Set.Ioi 0) := by
  have hpos : ∀ k : ℝ, k ∈ Set.Ioi (0 : ℝ) → k * pe ∈ Set.Ioi (0 : ℝ) := fun k hk => mul_pos hk hpe
  constructor
  · intro k hk k' hk' hkk
    simp only [hwZcb_eq_bf]
    exact bfCall_antitoneOn_b h hA hw.ne' (hpos k hk) (hpos k' hk') (mul_le_mul_of_nonneg_right hkk hpe.le)
  · intro k hk k' hk' hkk
    simp only [hwZcb_eq_bf]
    exact bfPut_monotoneOn_b h hA hw.ne' (hpos k hk) (hpos k' hk') (mul_le_mul_of_nonneg_right hkk hpe.le)

/-- σ_P rises with σ (σ ≥ 0, a > 0, t_exp ≤ t_mat), clamps included -/
theorem hwSigP_mono_sigma {a texp tmat : ℝ} (ha : 0 < a) (h1 : texp ≤ tmat) {s s' : ℝ} (hs : 0 ≤ s) (hss : s ≤ s') :
    hwSigP s a texp tmat ≤ hwSigP s' a texp tmat := by
  unfold hwSigP
  have ha' : 0 < (if |a| < 1e-10 then (1e-10 : ℝ) else a) := by
    split
    · norm_num
    · exact ha
  set a' := (if |a| < 1e-10 then (1e-10 : ℝ) else a)
  have h2 : 0 ≤ 1 - Real.exp (-(a' * (tmat - texp))) := by
    have : Real.exp (-(a' * (tmat - texp))) ≤ 1 :=
      Real.exp_le_one_iff.mpr (by nlinarith [mul_nonneg ha'.le (sub_nonneg.mpr h1)])
    linarith
  set G := (1 - Real.exp (-(a' * (tmat - texp)))) with hG
  set R := Real.sqrt ((1 - Real.exp (-(2 * a' * texp))) / 2 / a') with hR
  have hR0 : 0 ≤ R := Real.sqrt_nonneg _
  have r0 : 0 ≤ s / a' * G * R := mul_nonneg (mul_nonneg (div_nonneg hs ha'.le) h2) hR0
  have r1 : s / a' * G * R ≤ s' / a' * G * R :=
    mul_le_mul_of_nonneg_right (mul_le_mul_of_nonneg_right (div_le_div_of_nonneg_right hss ha'.le) h2) hR0
  simp only []
  rw [abs_of_nonneg r0, abs_of_nonneg (le_trans r0 r1)]
  split <;> split
  · exact le_rfl
  · rename_i h3 h4; exact not_lt.mp h4
  · rename_i h3 h4; linarith
  · exact r1

/-- **C08 (Hull–White closed form)** both options rise with the volatility σ -/
theorem hw_zcb_monotone_in_sigma (h : IsNormalCdf Φ φ c) {a texp tmat strike face pe pm : ℝ} (hA : 0 < face * pm)
    (hB : 0 < strike * pe) (ha : 0 < a) (h1 : texp ≤ tmat) {s s' : ℝ} (hs : 0 ≤ s) (hss : s ≤ s') :
    (hwZcb (realKern Φ φ) s a texp tmat strike face pe pm).1 ≤ (hwZcb (realKern Φ φ) s' a texp tmat strike face pe pm).1 ∧
    (hwZcb (realKern Φ φ) s a texp tmat strike face pe pm).2 ≤ (hwZcb (realKern Φ φ) s' a texp tmat strike face pe pm).2 := by
  rw [hwZcb_eq_bf, hwZcb_eq_bf]
  have w1 := hwSigP_pos hs ha h1
  have w2 := hwSigP_pos (le_trans hs hss) ha h1
  have hw := hwSigP_mono_sigma ha h1 hs hss
  exact ⟨bfCall_monotoneOn_w h hA hB w1 w2 hw, bfPut_monotoneOn_w h hA hB w1 w2 hw⟩

/-- **C08 (Hull–White) zero volatility**: σ = 0 makes σ_P = 0, which the code clamps to 1e-10; the value is then the
intrinsic value max(face·P(t_mat) − strike·P(t_exp), 0) up to strike·P(t_exp)·c·1e-10 -/
theorem hw_zcb_zero_vol_within (h : IsNormalCdf Φ φ c) {a texp tmat strike face pe pm : ℝ} (hA : 0 < face * pm)
    (hB : 0 < strike * pe) :
    hwSigP 0 a texp tmat = 1e-10 ∧
    max (face * pm - strike * pe) 0 ≤ (hwZcb (realKern Φ φ) 0 a texp tmat strike face pe pm).1 ∧
    (hwZcb (realKern Φ φ) 0 a texp tmat strike face pe pm).1 ≤ max (face * pm - strike * pe) 0 + strike * pe * c * 1e-10 := by
  have hs : hwSigP 0 a texp tmat = 1e-10 := by
    unfold hwSigP
    simp only [zero_div, zero_mul, abs_zero]
    norm_num
  have hw : 0 < hwSigP 0 a texp tmat := by rw [hs]; norm_num
  refine ⟨hs, ?_⟩
  rw [hwZcb_eq_bf]
  have := bfCall_le_intrinsic_add h hA hB hw
  rw [hs] at this ⊢
  exact ⟨bfCall_ge_intrinsic h hA hB (by norm_num), this⟩

/-! ### Jamshidian: a sum of zero-coupon-bond options with non-negative weights -/

/-- what each zero-coupon leg of the decomposition must satisfy -/
def JLegPos (sigma a texp pe : ℝ) (l : JLeg ℝ) : Prop :=
  0 < l.ptCpn ∧ 0 < l.strike * pe ∧ 0 ≤ l.cpn ∧ 0 < hwSigP sigma a texp l.tcpn

theorem jam_fold_nonneg (h : IsNormalCdf Φ φ c) (sigma a texp : ℝ) {face : ℝ} (hface : 0 ≤ face) (pe : ℝ)
    (legs : List (JLeg ℝ)) (hl : ∀ l ∈ legs, JLegPos sigma a texp pe l) (acc : (ℝ × ℝ) × (ℝ × ℝ))
    (hacc : (0 ≤ acc.1.1 ∧ 0 ≤ acc.1.2) ∧ (0 ≤ acc.2.1 ∧ 0 ≤ acc.2.2)) :
    (0 ≤ (legs.foldl (jamStep (realKern Φ φ) sigma a texp face pe) acc).1.1 ∧
      0 ≤ (legs.foldl (jamStep (realKern Φ φ) sigma a texp face pe) acc).1.2) ∧
    (0 ≤ (legs.foldl (jamStep (realKern Φ φ) sigma a texp face pe) acc).2.1 ∧
      0 ≤ (legs.foldl (jamStep (realKern Φ φ) sigma a texp face pe) acc).2.2) := by
  induction legs generalizing acc with
  | nil => simpa using hacc
  | cons l ls ih =>
    simp only [List.foldl_cons]
    apply ih (fun q hq => hl q (List.mem_cons_of_mem _ hq))
    obtain ⟨hp, hs, hc, hw⟩ := hl l (List.mem_cons_self)
    have hb := hw_zcb_bounds (Φ := Φ) (φ := φ) h (sigma := sigma) (a := a) (texp := texp) (tmat := l.tcpn)
      (strike := l.strike) (face := 1) (pe := pe) (pm := l.ptCpn) (by simpa using hp) hs hw
    have v1 : 0 ≤ (hwZcb (realKern Φ φ) sigma a texp l.tcpn l.strike 1 pe l.ptCpn).1 := le_trans (le_max_right _ _) hb.1.1
    have v2 : 0 ≤ (hwZcb (realKern Φ φ) sigma a texp l.tcpn l.strike 1 pe l.ptCpn).2 := le_trans (le_max_right _ _) hb.2.1
    simp only [jamStep, lit_one]
    exact ⟨⟨add_nonneg hacc.1.1 (mul_nonneg (mul_nonneg v1 hc) hface),
      add_nonneg hacc.1.2 (mul_nonneg (mul_nonneg v2 hc) hface)⟩, v1, v2⟩

/-- **C08 (Jamshidian)** the coupon loop of `european_bond_option_jamshidian` adds zero-coupon options with
non-negative weights: call and put on the coupon bond are non-negative, for any number of coupons after expiry -/
theorem jamshidian_nonneg (h : IsNormalCdf Φ φ c) (sigma a texp : ℝ) {face : ℝ} (hface : 0 ≤ face) (pe : ℝ)
    (legs : List (JLeg ℝ)) (hl : ∀ l ∈ legs, JLegPos sigma a texp pe l) :
    0 ≤ (jamshidian (realKern Φ φ) sigma a texp face pe legs).1 ∧
    0 ≤ (jamshidian (realKern Φ φ) sigma a texp face pe legs).2 := by
  obtain ⟨⟨h1, h2⟩, h3, h4⟩ := jam_fold_nonneg h sigma a texp hface pe legs hl ((0, 0), (0, 0))
    ⟨⟨le_rfl, le_rfl⟩, le_rfl, le_rfl⟩
  simp only [jamshidian, lit_zero]
  exact ⟨add_nonneg h1 (mul_nonneg h3 hface), add_nonneg h2 (mul_nonneg h4 hface)⟩

/-- the hypotheses are satisfiable: a 6M-into-9M Hull–White zero-coupon option -/
example : 0 < hwSigP 0.01 0.05 0.5 0.75 := hwSigP_pos (by norm_num) (by norm_num) (by norm_num)

end FinVerif.Props.C08
