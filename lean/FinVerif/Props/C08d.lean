/-
  C08 (part d) — from the model price functions to the products, as coded:
    * `IborCapFloor.value_caplet_floor_let` and `IborSwaption.value` are (per-unit model value) × annuity
      (`capletValue_eq_unit`, `swaptionValue_eq_unit`);
    * caplet / floorlet: discounted intrinsic ≤ value ≤ annuity bound, for every model the product accepts
      (Black, shifted Black, Bachelier, SABR, shifted SABR, Hull–White);
    * cap / floor (the `+=` loop of `IborCapFloor.value`, first known-payoff caplet included): the same bounds, for
      any number of caplets, by induction over the caplet list; non-negativity; falls (cap) / rises (floor) with the
      strike; rises with the volatility (Black, shifted Black, Bachelier);
    * swaptions: intrinsic ≤ payer ≤ pv01·(S + shift)·N/df, receiver ≤ pv01·(K + shift)·N/df; monotone in strike and vol.
-/
import FinVerif.Props.C08c
import FinVerif.Props.C08n

set_option linter.unusedVariables false
set_option linter.unusedSimpArgs false

namespace FinVerif.Props.C08
open FinVerif FinVerif.Gen FinVerif.C05 FinVerif.C08 FinVerif.Props.C05 FinVerif.Model.C08 FinVerif.Spec.C08

variable {Φ φ : ℝ → ℝ} {c : ℝ}

/-! ### the per-unit value both products scale -/

/-- the strike as the model branches of `value_caplet_floor_let` see it (`if k == 0.0: k = 1e-10`) -/
noncomputable def clampK (strike : ℝ) : ℝ := if strike = 0 then 1e-10 else strike

theorem clampK_of_ne {strike : ℝ} (h : strike ≠ 0) : clampK strike = strike := by simp [clampK, h]

/-- the clamp is not monotone: strike 0 is priced as 1e-10, strike 1e-11 as 1e-11 — so "monotone in strike" is
stated below for non-zero strikes -/
theorem clampK_not_monotone : ¬ Monotone clampK := by
  intro h
  have := h (show (0 : ℝ) ≤ 1e-11 by norm_num)
  simp only [clampK, if_true] at this
  norm_num at this

theorem kernel_strike (Φ φ : ℝ → ℝ) (strike : ℝ) :
    (if (realKern Φ φ).isZero strike = true then (realKern Φ φ).lit 1 (-10) else strike) = clampK strike := by
  simp only [realKern, decide_eq_true_eq, clampK]
  split
  · norm_num
  · rfl

def tyOf (isCall : Bool) : Int := if isCall then 1 else 2

theorem tyOf_cases (b : Bool) : tyOf b = 1 ∨ tyOf b = 2 := by cases b <;> simp [tyOf]

/-- the model price per unit of annuity (`sv` = the SABR Black volatility of this option) -/
noncomputable def unitValue (Φ φ : ℝ → ℝ) (m : Mdl ℝ) (sv f k t df : ℝ) (ty : Int) : ℝ :=
  match m with
  | .black vol => blackModelValue (realKern Φ φ) vol f k t df ty
  | .shifted vol sh => (realKern Φ φ).shiftedValue f k t df ty sh vol
  | .bachelier vol => (realKern Φ φ).bachelierValue f k t df ty vol
  | .sabr => sabrValue (realKern Φ φ) sv f k t df ty
  | .sabrShifted => sabrValue (realKern Φ φ) sv f k t df ty
  | .hw _ _ => 0

def NotHW (m : Mdl ℝ) : Prop := ∀ s a, m ≠ .hw s a

/-- `value_caplet_floor_let` (Black-type branches) = model value × notional × accrual -/
theorem capletValue_eq_unit (Φ φ : ℝ → ℝ) {m : Mdl ℝ} (hm : NotHW m) (isCap : Bool) (strike notional : ℝ) (p : Period ℝ) :
    capletValue (realKern Φ φ) m isCap strike notional p
      = unitValue Φ φ m p.sabrVol p.fwd (clampK strike) p.texp p.df (tyOf isCap) * (notional * p.alpha) := by
  cases m with
  | hw s a => exact absurd rfl (hm s a)
  | _ => simp only [capletValue, kernel_strike, unitValue, tyOf]

/-- `IborSwaption.value` (Black-type branches) = model value at df = 1 × pv01 × notional / df(settle) -/
theorem swaptionValue_eq_unit (Φ φ : ℝ → ℝ) (m : Mdl ℝ) (sv : ℝ) (isPay : Bool) (s k texp pv01 dfs notional : ℝ) :
    swaptionValue (realKern Φ φ) (.blackLike m sv) isPay s k texp pv01 dfs notional
      = unitValue Φ φ m sv s k texp 1 (tyOf isPay) * pv01 * notional / dfs := by
  cases m <;> simp only [swaptionValue, unitValue, tyOf, lit_one, lit_zero]

/-- intrinsic value per unit: max(F − K, 0) for a call, max(K − F, 0) for a put -/
noncomputable def intrinsic (isCall : Bool) (f k : ℝ) : ℝ := max (if isCall then f - k else k - f) 0

theorem intrinsic_nonneg (b : Bool) (f k : ℝ) : 0 ≤ intrinsic b f k := le_max_right _ _

/-- what each model needs for its bounds -/
def UnitPos (m : Mdl ℝ) (sv f k t df : ℝ) : Prop :=
  match m with
  | .black _ => 0 < f ∧ 1e-12 ≤ k ∧ t ≠ 0 ∧ 0 < df
  | .shifted vol sh => 0 < f + sh ∧ 0 < k + sh ∧ 0 < t ∧ 0 < vol ∧ 0 ≤ df
  | .bachelier vol => 0 < t ∧ 0 < vol ∧ 0 ≤ df
  | .sabr => 0 < f ∧ 0 < k ∧ 0 < t ∧ 0 < sv ∧ 0 ≤ df
  | .sabrShifted => 0 < f ∧ 0 < k ∧ 0 < t ∧ 0 < sv ∧ 0 ≤ df
  | .hw _ _ => False

/-- the model's upper bound per unit of df: F (call) / K (put), plus the shift; Bachelier: intrinsic + c·σ√t -/
noncomputable def unitUpper (c : ℝ) (m : Mdl ℝ) (isCall : Bool) (f k t : ℝ) : ℝ :=
  match m with
  | .shifted _ sh => (if isCall then f else k) + sh
  | .bachelier vol => intrinsic isCall f k + c * (vol * Real.sqrt t)
  | _ => if isCall then f else k

/-- **C08** every Black-type model: df·intrinsic ≤ value ≤ df·(upper bound) — call and put -/
theorem unit_bounds (h : IsNormalCdf Φ φ c) (m : Mdl ℝ) (sv f k t df : ℝ) (hp : UnitPos m sv f k t df) (isCall : Bool) :
    df * intrinsic isCall f k ≤ unitValue Φ φ m sv f k t df (tyOf isCall) ∧
    unitValue Φ φ m sv f k t df (tyOf isCall) ≤ df * unitUpper c m isCall f k t := by
  cases m with
  | black vol =>
    obtain ⟨hf, hk, ht, hdf⟩ := hp
    have := black_model_bounds h vol hf hk ht hdf
    cases isCall
    · simpa [unitValue, unitUpper, intrinsic, tyOf] using this.2
    · simpa [unitValue, unitUpper, intrinsic, tyOf] using this.1
  | shifted vol sh =>
    obtain ⟨hf, hk, ht, hv, hdf⟩ := hp
    have := black_shifted_bounds h hf hk ht hv hdf
    cases isCall
    · simpa [unitValue, unitUpper, intrinsic, tyOf, realKern] using this.2
    · simpa [unitValue, unitUpper, intrinsic, tyOf, realKern] using this.1
  | bachelier vol =>
    obtain ⟨ht, hv, hdf⟩ := hp
    have := bachelier_bounds h f k ht hv hdf
    cases isCall
    · simpa [unitValue, unitUpper, intrinsic, tyOf, realKern] using this.2
    · simpa [unitValue, unitUpper, intrinsic, tyOf, realKern] using this.1
  | sabr =>
    obtain ⟨hf, hk, ht, hv, hdf⟩ := hp
    have := sabr_value_bounds h hf hk ht hv hdf
    cases isCall
    · simpa [unitValue, unitUpper, intrinsic, tyOf] using this.2
    · simpa [unitValue, unitUpper, intrinsic, tyOf] using this.1
  | sabrShifted =>
    obtain ⟨hf, hk, ht, hv, hdf⟩ := hp
    have := sabr_value_bounds h hf hk ht hv hdf
    cases isCall
    · simpa [unitValue, unitUpper, intrinsic, tyOf] using this.2
    · simpa [unitValue, unitUpper, intrinsic, tyOf] using this.1
  | hw s a => exact absurd hp id

/-! ### caplets and floorlets -/

/-- the hypotheses of the caplet bounds, per model (HW: positive accrual, curve reads and 1 + αK, σ_P > 0) -/
def CapletPos (m : Mdl ℝ) (strike : ℝ) (p : Period ℝ) : Prop :=
  match m with
  | .hw sigma a => 0 < p.alpha ∧ 0 < 1 + p.alpha * strike ∧ 0 < p.ptExp ∧ 0 < p.ptMat ∧ 0 < hwSigP sigma a p.texp p.tmat
  | m => UnitPos m p.sabrVol p.fwd (clampK strike) p.texp p.df

/-- discounted intrinsic value of one caplet / floorlet as the model sees it (HW: with the two curve reads) -/
noncomputable def capletIntrinsic (m : Mdl ℝ) (isCap : Bool) (strike notional : ℝ) (p : Period ℝ) : ℝ :=
  match m with
  | .hw _ _ => notional * intrinsic isCap p.ptExp ((1 + strike * p.alpha) * p.ptMat)
  | _ => notional * p.alpha * p.df * intrinsic isCap p.fwd (clampK strike)

/-- the annuity bound of one caplet / floorlet: α·df·F·N (cap), α·df·K·N (floor); shifted: F + s, K + s;
Bachelier: intrinsic + c·σ√t; HW: N·P(t_exp) (cap), N·(1 + αK)·P(t_mat) (floor) -/
noncomputable def capletUpper (c : ℝ) (m : Mdl ℝ) (isCap : Bool) (strike notional : ℝ) (p : Period ℝ) : ℝ :=
  match m with
  | .hw _ _ => notional * (if isCap then p.ptExp else (1 + strike * p.alpha) * p.ptMat)
  | m => notional * p.alpha * p.df * unitUpper c m isCap p.fwd (clampK strike) p.texp

theorem hw_caplet_bounds (h : IsNormalCdf Φ φ c) (sigma a : ℝ) (isCap : Bool) (strike : ℝ) {notional : ℝ}
    (hN : 0 ≤ notional) (p : Period ℝ) (hp : CapletPos (.hw sigma a) strike p) :
    capletIntrinsic (.hw sigma a) isCap strike notional p ≤ capletValue (realKern Φ φ) (.hw sigma a) isCap strike notional p ∧
    capletValue (realKern Φ φ) (.hw sigma a) isCap strike notional p ≤ capletUpper c (.hw sigma a) isCap strike notional p := by
  obtain ⟨ha, hs, hpe, hpm, hw⟩ := hp
  have hs' : 0 < 1 + strike * p.alpha := by rwa [mul_comm strike]
  have hX : 0 < 1 / (1 + p.alpha * strike) := by positivity
  have hb := hw_zcb_bounds (Φ := Φ) (φ := φ) h (sigma := sigma) (a := a) (texp := p.texp) (tmat := p.tmat)
    (strike := 1 / (1 + p.alpha * strike)) (face := 1) (pe := p.ptExp) (pm := p.ptMat)
    (by simpa using hpm) (mul_pos hX hpe) hw
  set v := hwZcb (realKern Φ φ) sigma a p.texp p.tmat (1 / (1 + p.alpha * strike)) 1 p.ptExp p.ptMat with hv
  have e : ∀ x : ℝ, x * (1 + strike * p.alpha) / p.alpha * (notional * p.alpha) = notional * ((1 + strike * p.alpha) * x) := by
    intro x; field_simp
  have hXs : (1 + strike * p.alpha) * (1 / (1 + p.alpha * strike)) = 1 := by
    rw [mul_comm strike]; field_simp
  cases isCap
  · -- floorlet = call on the zero-coupon bond
    simp only [capletIntrinsic, capletUpper, capletValue, lit_one, Bool.false_eq_true, if_false, intrinsic, e, ← hv]
    obtain ⟨⟨l, u⟩, -⟩ := hb
    have l' := mul_le_mul_of_nonneg_left l hs'.le
    have u' := mul_le_mul_of_nonneg_left u hs'.le
    rw [← mul_max_zero hs'.le] at l'
    have e1 : (1 + strike * p.alpha) * (1 * p.ptMat - 1 / (1 + p.alpha * strike) * p.ptExp)
        = (1 + strike * p.alpha) * p.ptMat - p.ptExp := by
      linear_combination (-p.ptExp) * hXs
    rw [e1] at l'
    rw [one_mul] at u'
    exact ⟨mul_le_mul_of_nonneg_left l' hN, mul_le_mul_of_nonneg_left u' hN⟩
  · -- caplet = put on the zero-coupon bond
    simp only [capletIntrinsic, capletUpper, capletValue, lit_one, if_true, intrinsic, e, ← hv]
    obtain ⟨-, ⟨l, u⟩⟩ := hb
    have l' := mul_le_mul_of_nonneg_left l hs'.le
    have u' := mul_le_mul_of_nonneg_left u hs'.le
    rw [← mul_max_zero hs'.le] at l'
    have e1 : (1 + strike * p.alpha) * (1 / (1 + p.alpha * strike) * p.ptExp - 1 * p.ptMat)
        = p.ptExp - (1 + strike * p.alpha) * p.ptMat := by
      linear_combination p.ptExp * hXs
    rw [e1] at l'
    rw [← mul_assoc, hXs, one_mul] at u'
    exact ⟨mul_le_mul_of_nonneg_left l' hN, mul_le_mul_of_nonneg_left u' hN⟩

/-- **C08** one caplet / floorlet, every model the product accepts: discounted intrinsic ≤ value ≤ annuity bound -/
theorem caplet_bounds (h : IsNormalCdf Φ φ c) (m : Mdl ℝ) (isCap : Bool) (strike : ℝ) {notional : ℝ} (hN : 0 ≤ notional)
    (p : Period ℝ) (ha : 0 ≤ p.alpha) (hp : CapletPos m strike p) :
    capletIntrinsic m isCap strike notional p ≤ capletValue (realKern Φ φ) m isCap strike notional p ∧
    capletValue (realKern Φ φ) m isCap strike notional p ≤ capletUpper c m isCap strike notional p := by
  by_cases hm : NotHW m
  · have hs : 0 ≤ notional * p.alpha := mul_nonneg hN ha
    have hu : UnitPos m p.sabrVol p.fwd (clampK strike) p.texp p.df := by
      cases m with
      | hw s a => exact absurd rfl (hm s a)
      | _ => exact hp
    obtain ⟨l, u⟩ := unit_bounds h m p.sabrVol p.fwd (clampK strike) p.texp p.df hu isCap
    rw [capletValue_eq_unit Φ φ hm]
    have e1 : capletIntrinsic m isCap strike notional p
        = p.df * intrinsic isCap p.fwd (clampK strike) * (notional * p.alpha) := by
      cases m with
      | hw s a => exact absurd rfl (hm s a)
      | _ => simp only [capletIntrinsic]; ring
    have e2 : capletUpper c m isCap strike notional p
        = p.df * unitUpper c m isCap p.fwd (clampK strike) p.texp * (notional * p.alpha) := by
      cases m with
      | hw s a => exact absurd rfl (hm s a)
      | _ => simp only [capletUpper]; ring
    rw [e1, e2]
    exact ⟨mul_le_mul_of_nonneg_right l hs, mul_le_mul_of_nonneg_right u hs⟩
  · cases m with
    | hw s a => exact hw_caplet_bounds h s a isCap strike hN p hp
    | _ => exact absurd (fun s a => by simp) hm

theorem capletIntrinsic_nonneg (m : Mdl ℝ) (isCap : Bool) (strike : ℝ) {notional : ℝ} (hN : 0 ≤ notional) (p : Period ℝ)
    (ha : 0 ≤ p.alpha) (hdf : 0 ≤ p.df) : 0 ≤ capletIntrinsic m isCap strike notional p := by
  cases m <;> simp only [capletIntrinsic] <;>
    first
    | exact mul_nonneg (mul_nonneg (mul_nonneg hN ha) hdf) (intrinsic_nonneg _ _ _)
    | exact mul_nonneg hN (intrinsic_nonneg _ _ _)

/-! ### cap / floor: the loop of `IborCapFloor.value`, any number of caplets -/

theorem sum_map_le {β} (f g : β → ℝ) (l : List β) (h : ∀ x ∈ l, f x ≤ g x) : (l.map f).sum ≤ (l.map g).sum := by
  induction l with
  | nil => simp
  | cons x xs ih =>
    simp only [List.map_cons, List.sum_cons]
    exact add_le_add (h x (List.mem_cons_self)) (ih (fun y hy => h y (List.mem_cons_of_mem _ hy)))

theorem sum_map_nonneg {β} (f : β → ℝ) (l : List β) (h : ∀ x ∈ l, 0 ≤ f x) : 0 ≤ (l.map f).sum := by
  have := sum_map_le (fun _ => (0 : ℝ)) f l h
  simpa using this

/-- the value of a cap / floor is the first (known-payoff) caplet plus the sum of the model caplets — the `+=` loop
from 0.0 as a fold over the caplet list -/
theorem capFloorValue_eq_sum (Φ φ : ℝ → ℝ) (m : Mdl ℝ) (isCap : Bool) (strike notional : ℝ) (p : Period ℝ)
    (ps : List (Period ℝ)) :
    capFloorValue (realKern Φ φ) m isCap strike notional (p :: ps)
      = firstValue (realKern Φ φ) isCap strike notional p
        + (ps.map (capletValue (realKern Φ φ) m isCap strike notional)).sum := by
  simp only [capFloorValue, capletTable, sumFrom_eq, List.sum_cons, lit_zero, zero_add]

/-- `IborCapFloor.value` with the `last_fixing` argument: the first caplet is the known payoff on the FIXING when one is
given (whatever its value — 0.0 and negative fixings included), on the curve forward only when it is `None` -/
theorem capFloorValueFix_eq_sum (Φ φ : ℝ → ℝ) (m : Mdl ℝ) (isCap : Bool) (strike notional : ℝ) (fix : Option ℝ) (p : Period ℝ)
    (ps : List (Period ℝ)) :
    capFloorValueFix (realKern Φ φ) m isCap strike notional fix (p :: ps)
      = firstValue (realKern Φ φ) isCap strike notional { p with fwd := firstFwd fix p.fwd }
        + (ps.map (capletValue (realKern Φ φ) m isCap strike notional)).sum := by
  simp only [capFloorValueFix, withFixing, capFloorValue_eq_sum]

/-- **C08** cap − floor with a known first fixing `x`: the first term of the strip is N·α₁·df₁·(x − K) — for EVERY real x,
in particular x = 0 (`if self.last_fixing is None`, not `if not self.last_fixing`) -/
theorem cap_minus_floor_with_fixing {Φ φ : ℝ → ℝ} (hΦ : Symm Φ) (m : Mdl ℝ) (strike notional x : ℝ) (p : Period ℝ)
    (ps : List (Period ℝ)) (hok : ∀ q ∈ ps, CapletOK m strike q) :
    capFloorValueFix (realKern Φ φ) m true strike notional (some x) (p :: ps)
        - capFloorValueFix (realKern Φ φ) m false strike notional (some x) (p :: ps)
      = notional * p.alpha * p.df * (x - strike) + (ps.map (fraLeg m strike notional)).sum := by
  simp only [capFloorValueFix, withFixing, firstFwd]
  exact cap_minus_floor_eq_strip hΦ m strike notional { p with fwd := x } ps hok

/-- … and without a fixing (`None`) the first term uses the curve forward -/
theorem cap_minus_floor_without_fixing {Φ φ : ℝ → ℝ} (hΦ : Symm Φ) (m : Mdl ℝ) (strike notional : ℝ) (p : Period ℝ)
    (ps : List (Period ℝ)) (hok : ∀ q ∈ ps, CapletOK m strike q) :
    capFloorValueFix (realKern Φ φ) m true strike notional none (p :: ps)
        - capFloorValueFix (realKern Φ φ) m false strike notional none (p :: ps)
      = notional * p.alpha * p.df * (p.fwd - strike) + (ps.map (fraLeg m strike notional)).sum := by
  simp only [capFloorValueFix, withFixing, firstFwd]
  exact cap_minus_floor_eq_strip hΦ m strike notional p ps hok

/-- a zero fixing is a fixing: the first caplet of a cap with `last_fixing = 0.0` and strike K ≥ 0 is worth 0, the first
floorlet N·α·df·K — whatever the curve forward -/
theorem zero_fixing_first_period (Φ φ : ℝ → ℝ) {strike : ℝ} (hK : 0 ≤ strike) (notional : ℝ) (p : Period ℝ) :
    firstValue (realKern Φ φ) true strike notional { p with fwd := firstFwd (some 0) p.fwd } = 0 ∧
    firstValue (realKern Φ φ) false strike notional { p with fwd := firstFwd (some 0) p.fwd }
      = p.df * p.alpha * strike * notional := by
  simp only [firstValue, firstFwd, if_true, Bool.false_eq_true, if_false, lit_zero, kmax, zero_sub, sub_zero]
  rw [max_eq_right (by linarith), max_eq_left hK]
  constructor <;> ring

/-- **C08** cap / floor bounds for any number of caplets (induction over the caplet list): the first period at its
known payoff, every later period between its discounted intrinsic value and its annuity bound -/
theorem capFloor_bounds (h : IsNormalCdf Φ φ c) (m : Mdl ℝ) (isCap : Bool) (strike : ℝ) {notional : ℝ} (hN : 0 ≤ notional)
    (p : Period ℝ) (ps : List (Period ℝ)) (hp : ∀ q ∈ ps, 0 ≤ q.alpha ∧ CapletPos m strike q) :
    firstValue (realKern Φ φ) isCap strike notional p + (ps.map (capletIntrinsic m isCap strike notional)).sum
        ≤ capFloorValue (realKern Φ φ) m isCap strike notional (p :: ps) ∧
    capFloorValue (realKern Φ φ) m isCap strike notional (p :: ps)
        ≤ firstValue (realKern Φ φ) isCap strike notional p + (ps.map (capletUpper c m isCap strike notional)).sum := by
  rw [capFloorValue_eq_sum]
  exact ⟨add_le_add le_rfl (sum_map_le _ _ ps (fun q hq => (caplet_bounds h m isCap strike hN q (hp q hq).1 (hp q hq).2).1)),
    add_le_add le_rfl (sum_map_le _ _ ps (fun q hq => (caplet_bounds h m isCap strike hN q (hp q hq).1 (hp q hq).2).2))⟩

/-- **C08** a cap / floor is worth at least its discounted intrinsic strip, hence is non-negative -/
theorem capFloor_nonneg (h : IsNormalCdf Φ φ c) (m : Mdl ℝ) (isCap : Bool) (strike : ℝ) {notional : ℝ} (hN : 0 ≤ notional)
    (p : Period ℝ) (hpa : 0 ≤ p.alpha) (hpd : 0 ≤ p.df) (ps : List (Period ℝ))
    (hp : ∀ q ∈ ps, 0 ≤ q.alpha ∧ 0 ≤ q.df ∧ CapletPos m strike q) :
    0 ≤ capFloorValue (realKern Φ φ) m isCap strike notional (p :: ps) := by
  have hb := (capFloor_bounds h m isCap strike hN p ps (fun q hq => ⟨(hp q hq).1, (hp q hq).2.2⟩)).1
  have h1 := first_value_nonneg Φ φ isCap strike hN p hpd hpa
  have h2 := sum_map_nonneg (capletIntrinsic m isCap strike notional) ps
    (fun q hq => capletIntrinsic_nonneg m isCap strike hN q (hp q hq).1 (hp q hq).2.1)
  linarith

/-- the first (known-payoff) caplet falls, the floorlet rises with the strike -/
theorem firstValue_monotone_in_strike (Φ φ : ℝ → ℝ) {notional : ℝ} (hN : 0 ≤ notional) (p : Period ℝ) (ha : 0 ≤ p.alpha)
    (hdf : 0 ≤ p.df) {k k' : ℝ} (hkk : k ≤ k') :
    firstValue (realKern Φ φ) true k' notional p ≤ firstValue (realKern Φ φ) true k notional p ∧
    firstValue (realKern Φ φ) false k notional p ≤ firstValue (realKern Φ φ) false k' notional p := by
  simp only [firstValue, if_true, Bool.false_eq_true, if_false, lit_zero, kmax]
  have hs : 0 ≤ p.df * p.alpha := mul_nonneg hdf ha
  constructor
  · exact mul_le_mul_of_nonneg_right (mul_le_mul_of_nonneg_left (max_le_max (by linarith) le_rfl) hs) hN
  · exact mul_le_mul_of_nonneg_right (mul_le_mul_of_nonneg_left (max_le_max (by linarith) le_rfl) hs) hN

/-- any per-caplet comparison lifts to the cap / floor (the loop is a sum) -/
theorem capFloor_le_of_caplets_le (Φ φ : ℝ → ℝ) (m m' : Mdl ℝ) (isCap : Bool) (k k' notional : ℝ) (p : Period ℝ)
    (ps : List (Period ℝ))
    (h0 : firstValue (realKern Φ φ) isCap k notional p ≤ firstValue (realKern Φ φ) isCap k' notional p)
    (hq : ∀ q ∈ ps, capletValue (realKern Φ φ) m isCap k notional q ≤ capletValue (realKern Φ φ) m' isCap k' notional q) :
    capFloorValue (realKern Φ φ) m isCap k notional (p :: ps) ≤ capFloorValue (realKern Φ φ) m' isCap k' notional (p :: ps) := by
  rw [capFloorValue_eq_sum, capFloorValue_eq_sum]
  exact add_le_add h0 (sum_map_le _ _ ps hq)

/-- the models with one quoted volatility for every strike (for SABR the volatility itself moves with the strike) -/
def ConstVol (m : Mdl ℝ) : Prop :=
  match m with
  | .black _ => True
  | .shifted _ _ => True
  | .bachelier _ => True
  | _ => False

/-- per unit: the call falls and the put rises with the strike (Black, shifted Black, Bachelier) -/
theorem unit_monotone_in_strike (h : IsNormalCdf Φ φ c) (m : Mdl ℝ) (hc : ConstVol m) (sv f t df : ℝ) {k k' : ℝ}
    (hkk : k ≤ k') (hp : UnitPos m sv f k t df) (hp' : UnitPos m sv f k' t df) :
    unitValue Φ φ m sv f k' t df 1 ≤ unitValue Φ φ m sv f k t df 1 ∧
    unitValue Φ φ m sv f k t df 2 ≤ unitValue Φ φ m sv f k' t df 2 := by
  cases m with
  | black vol =>
    obtain ⟨hf, hk, ht, hdf⟩ := hp
    obtain ⟨-, hk', -, -⟩ := hp'
    obtain ⟨a, b⟩ := black_value_monotone_in_strike h hf t (-(Real.log df) / t) vol
    exact ⟨a hk hk' hkk, b hk hk' hkk⟩
  | shifted vol sh =>
    obtain ⟨hf, hk, ht, hv, hdf⟩ := hp
    obtain ⟨-, hk', -, -, -⟩ := hp'
    obtain ⟨a, b⟩ := black_shifted_monotone_in_strike h hf ht hv hdf
    have m1 : k ∈ Set.Ioi (-sh) := by simp only [Set.mem_Ioi]; linarith
    have m2 : k' ∈ Set.Ioi (-sh) := by simp only [Set.mem_Ioi]; linarith
    exact ⟨a m1 m2 hkk, b m1 m2 hkk⟩
  | bachelier vol =>
    obtain ⟨ht, hv, hdf⟩ := hp
    obtain ⟨a, b⟩ := bachelier_monotone_in_strike h f ht hv hdf
    exact ⟨a hkk, b hkk⟩
  | sabr => exact absurd hc id
  | sabrShifted => exact absurd hc id
  | hw s a => exact absurd hc id

/-- **C08** the cap falls and the floor rises with the strike — Black, shifted Black, Bachelier; non-zero strikes
(strike 0 is re-priced at 1e-10, `clampK_not_monotone`); any number of caplets -/
theorem capFloor_monotone_in_strike (h : IsNormalCdf Φ φ c) (m : Mdl ℝ) (hc : ConstVol m) {notional : ℝ} (hN : 0 ≤ notional)
    {k k' : ℝ} (hk0 : k ≠ 0) (hk0' : k' ≠ 0) (hkk : k ≤ k') (p : Period ℝ) (hpa : 0 ≤ p.alpha) (hpd : 0 ≤ p.df)
    (ps : List (Period ℝ)) (hp : ∀ q ∈ ps, 0 ≤ q.alpha ∧ CapletPos m k q ∧ CapletPos m k' q) :
    capFloorValue (realKern Φ φ) m true k' notional (p :: ps) ≤ capFloorValue (realKern Φ φ) m true k notional (p :: ps) ∧
    capFloorValue (realKern Φ φ) m false k notional (p :: ps) ≤ capFloorValue (realKern Φ φ) m false k' notional (p :: ps) := by
  have hm : NotHW m := by
    intro s a e; subst e; exact hc
  have hu : ∀ q ∈ ps, UnitPos m q.sabrVol q.fwd k q.texp q.df ∧ UnitPos m q.sabrVol q.fwd k' q.texp q.df := by
    intro q hq
    obtain ⟨-, h1, h2⟩ := hp q hq
    rw [← clampK_of_ne hk0, ← clampK_of_ne hk0']
    cases m with
    | hw s a => exact absurd rfl (hm s a)
    | _ => exact ⟨h1, h2⟩
  obtain ⟨f1, f2⟩ := firstValue_monotone_in_strike Φ φ hN p hpa hpd hkk
  constructor
  · apply capFloor_le_of_caplets_le Φ φ m m true k' k notional p ps f1
    intro q hq
    rw [capletValue_eq_unit Φ φ hm, capletValue_eq_unit Φ φ hm, clampK_of_ne hk0, clampK_of_ne hk0']
    exact mul_le_mul_of_nonneg_right
      (unit_monotone_in_strike h m hc q.sabrVol q.fwd q.texp q.df hkk (hu q hq).1 (hu q hq).2).1
      (mul_nonneg hN (hp q hq).1)
  · apply capFloor_le_of_caplets_le Φ φ m m false k k' notional p ps f2
    intro q hq
    rw [capletValue_eq_unit Φ φ hm, capletValue_eq_unit Φ φ hm, clampK_of_ne hk0, clampK_of_ne hk0']
    exact mul_le_mul_of_nonneg_right
      (unit_monotone_in_strike h m hc q.sabrVol q.fwd q.texp q.df hkk (hu q hq).1 (hu q hq).2).2
      (mul_nonneg hN (hp q hq).1)

/-- the same model at another volatility -/
def withVol (m : Mdl ℝ) (v : ℝ) : Mdl ℝ :=
  match m with
  | .black _ => .black v
  | .shifted _ sh => .shifted v sh
  | .bachelier _ => .bachelier v
  | m => m

/-- per unit: the value rises with the volatility (Black: every σ, constant below the clamp; shifted Black and
Bachelier: σ > 0) -/
theorem unit_monotone_in_vol (h : IsNormalCdf Φ φ c) (m : Mdl ℝ) (sv f k t df : ℝ) {v v' : ℝ} (hvv : v ≤ v')
    (hp : UnitPos (withVol m v) sv f k t df) (isCall : Bool) :
    unitValue Φ φ (withVol m v) sv f k t df (tyOf isCall) ≤ unitValue Φ φ (withVol m v') sv f k t df (tyOf isCall) := by
  cases m with
  | black vol =>
    obtain ⟨hf, hk, ht, hdf⟩ := hp
    exact black_value_monotone_in_vol h hf hk t (-(Real.log df) / t) (tyOf_cases isCall) hvv
  | shifted vol sh =>
    obtain ⟨hf, hk, ht, hv, hdf⟩ := hp
    exact black_shifted_monotone_in_vol h hf hk ht hdf (tyOf_cases isCall) hv (lt_of_lt_of_le hv hvv) hvv
  | bachelier vol =>
    obtain ⟨ht, hv, hdf⟩ := hp
    exact bachelier_monotone_in_vol h f k ht hdf (tyOf_cases isCall) hv (lt_of_lt_of_le hv hvv) hvv
  | sabr => exact le_rfl
  | sabrShifted => exact le_rfl
  | hw s a => exact le_rfl

/-- **C08** caps and floors rise with the volatility (Black, shifted Black, Bachelier), any number of caplets -/
theorem capFloor_monotone_in_vol (h : IsNormalCdf Φ φ c) (m : Mdl ℝ) (hc : ConstVol m) (isCap : Bool) (strike : ℝ)
    {notional : ℝ} (hN : 0 ≤ notional) {v v' : ℝ} (hvv : v ≤ v') (p : Period ℝ) (ps : List (Period ℝ))
    (hp : ∀ q ∈ ps, 0 ≤ q.alpha ∧ CapletPos (withVol m v) strike q) :
    capFloorValue (realKern Φ φ) (withVol m v) isCap strike notional (p :: ps)
      ≤ capFloorValue (realKern Φ φ) (withVol m v') isCap strike notional (p :: ps) := by
  have hm : ∀ x, NotHW (withVol m x) := by
    intro x s a e
    cases m <;> simp [withVol] at e
    exact hc
  apply capFloor_le_of_caplets_le Φ φ _ _ isCap strike strike notional p ps le_rfl
  intro q hq
  rw [capletValue_eq_unit Φ φ (hm v), capletValue_eq_unit Φ φ (hm v')]
  have hu : UnitPos (withVol m v) q.sabrVol q.fwd (clampK strike) q.texp q.df := by
    have := (hp q hq).2
    cases m <;> first | exact this | exact absurd hc id
  exact mul_le_mul_of_nonneg_right (unit_monotone_in_vol h m q.sabrVol q.fwd (clampK strike) q.texp q.df hvv hu isCap)
    (mul_nonneg hN (hp q hq).1)

/-! ### swaptions -/

/-- **C08** payer / receiver swaption (Black, shifted Black, SABR, shifted SABR on the forward swap rate):
pv01·intrinsic·N/df(settle) ≤ value ≤ pv01·(S + shift)·N/df(settle) (payer), pv01·(K + shift)·N/df(settle) (receiver) -/
theorem swaption_bounds (h : IsNormalCdf Φ φ c) (m : Mdl ℝ) (sv s k texp : ℝ) {pv01 dfs notional : ℝ} (hA : 0 ≤ pv01)
    (hd : 0 < dfs) (hN : 0 ≤ notional) (hp : UnitPos m sv s k texp 1) (isPay : Bool) :
    intrinsic isPay s k * pv01 * notional / dfs
        ≤ swaptionValue (realKern Φ φ) (.blackLike m sv) isPay s k texp pv01 dfs notional ∧
    swaptionValue (realKern Φ φ) (.blackLike m sv) isPay s k texp pv01 dfs notional
        ≤ unitUpper c m isPay s k texp * pv01 * notional / dfs := by
  obtain ⟨l, u⟩ := unit_bounds h m sv s k texp 1 hp isPay
  rw [one_mul] at l u
  rw [swaptionValue_eq_unit]
  have hs : 0 ≤ pv01 * notional / dfs := div_nonneg (mul_nonneg hA hN) hd.le
  have e : ∀ x : ℝ, x * pv01 * notional / dfs = x * (pv01 * notional / dfs) := fun x => by ring
  rw [e, e, e]
  exact ⟨mul_le_mul_of_nonneg_right l hs, mul_le_mul_of_nonneg_right u hs⟩

theorem swaption_nonneg (h : IsNormalCdf Φ φ c) (m : Mdl ℝ) (sv s k texp : ℝ) {pv01 dfs notional : ℝ} (hA : 0 ≤ pv01)
    (hd : 0 < dfs) (hN : 0 ≤ notional) (hp : UnitPos m sv s k texp 1) (isPay : Bool) :
    0 ≤ swaptionValue (realKern Φ φ) (.blackLike m sv) isPay s k texp pv01 dfs notional :=
  le_trans (div_nonneg (mul_nonneg (mul_nonneg (intrinsic_nonneg _ _ _) hA) hN) hd.le)
    (swaption_bounds h m sv s k texp hA hd hN hp isPay).1

/-- **C08** the payer falls and the receiver rises with the strike (Black, shifted Black) -/
theorem swaption_monotone_in_strike (h : IsNormalCdf Φ φ c) (m : Mdl ℝ) (hc : ConstVol m) (sv s texp : ℝ)
    {pv01 dfs notional : ℝ} (hA : 0 ≤ pv01) (hd : 0 < dfs) (hN : 0 ≤ notional) {k k' : ℝ} (hkk : k ≤ k')
    (hp : UnitPos m sv s k texp 1) (hp' : UnitPos m sv s k' texp 1) :
    swaptionValue (realKern Φ φ) (.blackLike m sv) true s k' texp pv01 dfs notional
        ≤ swaptionValue (realKern Φ φ) (.blackLike m sv) true s k texp pv01 dfs notional ∧
    swaptionValue (realKern Φ φ) (.blackLike m sv) false s k texp pv01 dfs notional
        ≤ swaptionValue (realKern Φ φ) (.blackLike m sv) false s k' texp pv01 dfs notional := by
  obtain ⟨a, b⟩ := unit_monotone_in_strike h m hc sv s texp 1 hkk hp hp'
  simp only [swaptionValue_eq_unit]
  have hs : 0 ≤ pv01 * notional / dfs := div_nonneg (mul_nonneg hA hN) hd.le
  have e : ∀ x : ℝ, x * pv01 * notional / dfs = x * (pv01 * notional / dfs) := fun x => by ring
  simp only [e, tyOf, if_true, Bool.false_eq_true, if_false]
  exact ⟨mul_le_mul_of_nonneg_right a hs, mul_le_mul_of_nonneg_right b hs⟩

/-- **C08** swaptions rise with the volatility (Black, shifted Black) -/
theorem swaption_monotone_in_vol (h : IsNormalCdf Φ φ c) (m : Mdl ℝ) (sv s k texp : ℝ) {pv01 dfs notional : ℝ}
    (hA : 0 ≤ pv01) (hd : 0 < dfs) (hN : 0 ≤ notional) {v v' : ℝ} (hvv : v ≤ v')
    (hp : UnitPos (withVol m v) sv s k texp 1) (isPay : Bool) :
    swaptionValue (realKern Φ φ) (.blackLike (withVol m v) sv) isPay s k texp pv01 dfs notional
      ≤ swaptionValue (realKern Φ φ) (.blackLike (withVol m v') sv) isPay s k texp pv01 dfs notional := by
  simp only [swaptionValue_eq_unit]
  have hs : 0 ≤ pv01 * notional / dfs := div_nonneg (mul_nonneg hA hN) hd.le
  have e : ∀ x : ℝ, x * pv01 * notional / dfs = x * (pv01 * notional / dfs) := fun x => by ring
  rw [e, e]
  exact mul_le_mul_of_nonneg_right (unit_monotone_in_vol h m sv s k texp 1 hvv hp isPay) hs

/-! ### non-vacuity: the standard normal cdf, a three-period cap -/

/-- the hypotheses are satisfiable for every model class: a quarterly period, F = 4 %, K = 3 % -/
example : CapletPos (.black 0.2) 0.03 ⟨0.25, 0.04, 0.98, 0.25, 0.5, 0, 0, 0⟩ := by
  simp only [CapletPos, UnitPos, clampK]; norm_num
example : CapletPos (.shifted 0.2 0.01) 0.03 ⟨0.25, 0.04, 0.98, 0.25, 0.5, 0, 0, 0⟩ := by
  simp only [CapletPos, UnitPos, clampK]; norm_num
example : CapletPos (.bachelier 0.005) 0.03 ⟨0.25, 0.04, 0.98, 0.25, 0.5, 0, 0, 0⟩ := by
  simp only [CapletPos, UnitPos, clampK]; norm_num
example : CapletPos .sabr 0.03 ⟨0.25, 0.04, 0.98, 0.25, 0.5, 0.22, 0, 0⟩ := by
  simp only [CapletPos, UnitPos, clampK]; norm_num
example : CapletPos (.hw 0.01 0.05) 0.03 ⟨0.25, 0.04, 0.98, 0.5, 0.75, 0, 0.985, 0.975⟩ := by
  simp only [CapletPos]
  refine ⟨by norm_num, by norm_num, by norm_num, by norm_num, hwSigP_pos (by norm_num) (by norm_num) (by norm_num)⟩

/-- … and with the standard normal cdf a concrete two-period Black cap is non-negative -/
example : 0 ≤ capFloorValue (realKern stdCdf stdPdf) (.black 0.2) true 0.03 1000000
    [⟨0.25, 0.035, 0.99, 0, 0.25, 0, 0, 0⟩, ⟨0.25, 0.04, 0.98, 0.25, 0.5, 0, 0, 0⟩] := by
  apply capFloor_nonneg stdNormal_isNormalCdf (.black 0.2) true 0.03 (by norm_num) _ (by norm_num) (by norm_num)
  intro q hq
  simp only [List.mem_singleton] at hq
  subst hq
  simp only [CapletPos, UnitPos, clampK]
  norm_num

end FinVerif.Props.C08
