/-
  C08 (part e) — options on the short-rate trees, continued:
    * the option value is monotone in the exercise payoff (any exercise schedule, any number of steps), hence the
      call falls and the put rises with the strike — European, Bermudan and American alike;
    * a European call on the tree is at most the tree's value of the underlying, the put at most the tree's value
      of the strike (the bounds "by the underlying" of the property, on the lattice);
    * the European swaption of `bermudan_swaption_tree_fast` as ONE theorem from the root: zero above the exercise
      level, max(exercise, 0) at it, linear roll-back below it ⇒ payer − receiver = Σ_j Q[E, j]·(par leg − fixed leg);
    * any lattice whose one-step operator is monotone (covers the BDT binomial tree): non-negativity, more exercise
      dates never lower the value (Bermudan ≥ European, American ≥ Bermudan), induction over the exercise dates.
-/
import FinVerif.Props.C08b

set_option linter.unusedVariables false
set_option linter.unusedSimpArgs false

namespace FinVerif.Props.C08
open FinVerif.Model.C03 FinVerif.Model.C08 FinVerif.Props.C03 FinVerif.Spec.C08 Finset

/-! ### monotone in the payoff ⇒ monotone in the strike -/

/-- the roll-back without exercise is monotone in the terminal payoff -/
theorem euroBack_mono {J : Nat} (hJ : 0 < J) {p z} (hn : NonNeg J p z) (V W : Int → ℝ)
    (hVW : ∀ i, Node J i → V i ≤ W i) (E d : Nat) (j : Int) (hj : Node J j) :
    euroBack 𝕆 J p z V E d j ≤ euroBack 𝕆 J p z W E d j := by
  induction d generalizing j with
  | zero => simpa [euroBack, bondBack] using hVW j hj
  | succ d ih =>
    simp only [euroBack, bondBack, bondLevel, ofInt_real, Int.cast_zero, add_zero] at ih ⊢
    exact backStep_mono hJ hn _ _ _ (fun i hi => ih i hi) j hj

/-- **C08** a larger exercise payoff never lowers the option value — any exercise flags, any number of steps -/
theorem optBack_mono_payoff {J : Nat} (hJ : 0 < J) {p z} (hn : NonNeg J p z) (pay pay' : Nat → Int → ℝ)
    (hpp : ∀ m i, Node J i → pay m i ≤ pay' m i) (ex : Nat → Bool) (M d : Nat) (j : Int) (hj : Node J j) :
    optBack 𝕆 J p z pay ex M d j ≤ optBack 𝕆 J p z pay' ex M d j := by
  induction d generalizing j with
  | zero => simp only [optBack, max_real]; exact max_le_max (hpp M j hj) le_rfl
  | succ d ih =>
    simp only [optBack, optLevel]
    have hb := backStep_mono hJ hn (M - (d + 1)) _ _ (fun i hi => ih i hi) j hj
    split
    · simp only [max_real]; exact max_le_max (hpp _ j hj) hb
    · exact hb

/-- **C08** on the HW / BK trees the bond-option call falls and the put rises with the strike — European
(`ex = fun _ => false`), American (`fun _ => true`) or any Bermudan schedule -/
theorem tree_option_monotone_in_strike {J : Nat} (hJ : 0 < J) {p z} (hn : NonNeg J p z) (clean : Nat → Int → ℝ)
    {K K' : ℝ} (hKK : K ≤ K') (ex : Nat → Bool) (M d : Nat) (j : Int) (hj : Node J j) :
    optBack 𝕆 J p z (fun m i => clean m i - K') ex M d j ≤ optBack 𝕆 J p z (fun m i => clean m i - K) ex M d j ∧
    optBack 𝕆 J p z (fun m i => K - clean m i) ex M d j ≤ optBack 𝕆 J p z (fun m i => K' - clean m i) ex M d j :=
  ⟨optBack_mono_payoff hJ hn _ _ (fun m i _ => by linarith) ex M d j hj,
   optBack_mono_payoff hJ hn _ _ (fun m i _ => by linarith) ex M d j hj⟩

/-- **C08** bounds by the underlying, on the lattice: for a non-negative clean price and strike the European call
is at most the tree's value of the bond, the put at most the tree's value of the strike -/
theorem tree_european_le_underlying {J : Nat} (hJ : 0 < J) {p z} (hn : NonNeg J p z) (clean : Nat → Int → ℝ) {K : ℝ}
    (hK : 0 ≤ K) (M : Nat) (hc : ∀ i, Node J i → 0 ≤ clean M i) (d : Nat) (j : Int) (hj : Node J j) :
    optBack 𝕆 J p z (fun m i => clean m i - K) (fun _ => false) M d j ≤ euroBack 𝕆 J p z (clean M) M d j ∧
    optBack 𝕆 J p z (fun m i => K - clean m i) (fun _ => false) M d j ≤ euroBack 𝕆 J p z (fun _ => K) M d j := by
  rw [european_eq_euroBack, european_eq_euroBack]
  constructor
  · apply euroBack_mono hJ hn _ _ _ M d j hj
    intro i hi
    exact max_le (by linarith [hc i hi]) (hc i hi)
  · apply euroBack_mono hJ hn _ _ _ M d j hj
    intro i hi
    exact max_le (by linarith [hc i hi]) hK

/-! ### the European swaption kernel, from the root -/

theorem backStep_zero (J : Nat) (p : Int → P3 ℝ) (zm : Int → ℝ) : backStep J p zm (fun _ => (0 : ℝ)) = fun _ => 0 := by
  funext j; simp [backStep]

/-- `bermudan_swaption_tree_fast` with European exercise at level `E < M`: `n` levels below `E` the value is the
linear roll-back of max(exercise value at E, 0) -/
theorem european_swaption_eq_euroBack (J : Nat) (p : Int → P3 ℝ) (z : Nat → Int → ℝ) (payoff : Nat → Int → ℝ)
    {E M : Nat} (hEM : E < M) (n : Nat) (hn : n ≤ E) :
    bermBack 𝕆 J p z payoff (fun m => decide (m = E)) M (M - E + n)
      = euroBack 𝕆 J p z (fun i => max (payoff E i) 0) E n := by
  induction n with
  | zero =>
    obtain ⟨d0, hd0⟩ : ∃ d0, M - E = d0 + 1 := ⟨M - E - 1, by omega⟩
    have hz := bermBack_zero J p z payoff (fun m => decide (m = E)) M d0
      (fun k hk => by simp only [decide_eq_false_iff_not]; omega)
    have hm : M - (d0 + 1) = E := by omega
    rw [Nat.add_zero, hd0]
    funext j
    simp only [bermBack, hz, hm, optLevel, decide_true, if_true, max_real, backStep_zero, euroBack, bondBack]
  | succ n ih =>
    have hm : M - (M - E + n + 1) = E - (n + 1) := by omega
    have hex : decide (E - (n + 1) = E) = false := by simp only [decide_eq_false_iff_not]; omega
    funext j
    rw [show M - E + (n + 1) = (M - E + n) + 1 by omega]
    simp only [bermBack, hm, hex, optLevel, Bool.false_eq_true, if_false, ih (by omega), euroBack, bondBack,
      bondLevel, ofInt_real, Int.cast_zero, add_zero]

/-- **C08** European swaption on the HW / BK tree, one theorem from the root: payer − receiver = the tree's own
value of (par leg − clean fixed leg) at the exercise level `E` — for any number of steps before and after `E`. -/
theorem tree_swaption_payer_minus_receiver (J : Nat) (p : Int → P3 ℝ) (z : Nat → Int → ℝ) (x : Nat → Int → ℝ)
    {E M : Nat} (hEM : E < M) :
    bermBack 𝕆 J p z x (fun m => decide (m = E)) M M 0
      - bermBack 𝕆 J p z (fun m i => -x m i) (fun m => decide (m = E)) M M 0
      = euroBack 𝕆 J p z (x E) E E 0 := by
  have hM : M = M - E + E := by omega
  have e1 := european_swaption_eq_euroBack J p z x hEM E le_rfl
  have e2 := european_swaption_eq_euroBack J p z (fun m i => -x m i) hEM E le_rfl
  rw [← hM] at e1 e2
  rw [e1, e2]
  exact generic_euro_call_minus_put J p z (x E) E E 0
where
  generic_euro_call_minus_put (J : Nat) (p : Int → P3 ℝ) (z : Nat → Int → ℝ) (y : Int → ℝ) (E d : Nat) (j : Int) :
      euroBack 𝕆 J p z (fun i => max (y i) 0) E d j - euroBack 𝕆 J p z (fun i => max (-y i) 0) E d j
        = euroBack 𝕆 J p z y E d j := by
    have h := tree_european_is_linear_in_payoff J p z 1 (-1) (fun i => max (y i) 0) (fun i => max (-y i) 0) E d j
    have e : (fun i => 1 * max (y i) 0 + -1 * max (-y i) 0) = y := by
      funext i; have := max_sub_max_neg (y i); linarith
    rw [e] at h
    linarith

/-- **C08** … which at the root is the state-price-weighted exercise value Σ_j Q[E, j]·x[E, j] -/
theorem tree_swaption_payer_minus_receiver_at_root {J : Nat} (hJ : 0 < J) {p z Q} (h : IsLattice J p z Q)
    (x : Nat → Int → ℝ) {E M : Nat} (hEM : E < M) :
    bermBack 𝕆 J p z x (fun m => decide (m = E)) M M 0
      - bermBack 𝕆 J p z (fun m i => -x m i) (fun m => decide (m = E)) M M 0
      = ∑ i ∈ Icc (-(J : Int)) J, Q E i * x E i := by
  rw [tree_swaption_payer_minus_receiver J p z x hEM]
  have := bond_pair_invariant hJ h (fun _ => 0) (x E) E E le_rfl
  rw [Nat.sub_self, h.1, q0_pair] at this
  simp only [zero_mul, Finset.sum_const_zero, add_zero] at this
  have e : euroBack 𝕆 J p z (x E) E E 0 = bondBack J p z (fun _ => 0) (x E) E E 0 := by
    simp only [euroBack, ofInt_real, Int.cast_zero]
  rw [e, this]

/-- Bermudan swaption values are monotone in the exercise payoff, so the payer falls and the receiver rises with
the strike when the exercise value does (x = par − fixed leg at coupon K) -/
theorem bermBack_mono_payoff {J : Nat} (hJ : 0 < J) {p z} (hn : NonNeg J p z) (pay pay' : Nat → Int → ℝ)
    (hpp : ∀ m i, Node J i → pay m i ≤ pay' m i) (ex : Nat → Bool) (M d : Nat) (j : Int) (hj : Node J j) :
    bermBack 𝕆 J p z pay ex M d j ≤ bermBack 𝕆 J p z pay' ex M d j := by
  induction d generalizing j with
  | zero => simp [bermBack]
  | succ d ih =>
    simp only [bermBack, optLevel]
    have hb := backStep_mono hJ hn (M - (d + 1)) _ _ (fun i hi => ih i hi) j hj
    split
    · simp only [max_real]; exact max_le_max (hpp _ j hj) hb
    · exact hb

/-! ### any lattice with monotone one-step operators (covers the BDT binomial tree) -/

/-- option roll-back with one-step operators `step m`: `max(payoff, 0)` at the last level `M`, stepping back,
`max(exercise, hold)` at the levels flagged by `ex` (the shape of the BDT kernels of `bdt_tree.py`) -/
noncomputable def iterOpt {ι : Type} (step : Nat → (ι → ℝ) → (ι → ℝ)) (payoff : Nat → ι → ℝ) (ex : Nat → Bool)
    (M : Nat) : Nat → ι → ℝ
  | 0 => fun i => max (payoff M i) 0
  | d + 1 => fun i =>
    if ex (M - (d + 1)) then max (payoff (M - (d + 1)) i) (step (M - (d + 1)) (iterOpt step payoff ex M d) i)
    else step (M - (d + 1)) (iterOpt step payoff ex M d) i

/-- a one-step pricing operator is positive: it preserves pointwise order and maps 0 to 0 -/
def IsPositiveStep {ι : Type} (L : (ι → ℝ) → (ι → ℝ)) : Prop :=
  (∀ V W : ι → ℝ, (∀ i, V i ≤ W i) → ∀ i, L V i ≤ L W i) ∧ L (fun _ => 0) = fun _ => 0

theorem iterOpt_nonneg {ι : Type} (step : Nat → (ι → ℝ) → (ι → ℝ)) (hs : ∀ m, IsPositiveStep (step m))
    (payoff : Nat → ι → ℝ) (ex : Nat → Bool) (M d : Nat) (i : ι) : 0 ≤ iterOpt step payoff ex M d i := by
  induction d generalizing i with
  | zero => exact le_max_right _ _
  | succ d ih =>
    have h0 : 0 ≤ step (M - (d + 1)) (iterOpt step payoff ex M d) i := by
      have := (hs (M - (d + 1))).1 (fun _ => 0) _ (fun i => ih i) i
      rwa [(hs (M - (d + 1))).2] at this
    simp only [iterOpt]
    split
    · exact le_max_of_le_right h0
    · exact h0

/-- **C08** more exercise dates never lower the value, on any lattice with positive one-step operators
(induction over the levels: max(exercise, continuation) ≥ continuation) -/
theorem iterOpt_mono_exercise {ι : Type} (step : Nat → (ι → ℝ) → (ι → ℝ)) (hs : ∀ m, IsPositiveStep (step m))
    (payoff : Nat → ι → ℝ) (ex ex' : Nat → Bool) (hex : ∀ m, ex m = true → ex' m = true) (M d : Nat) (i : ι) :
    iterOpt step payoff ex M d i ≤ iterOpt step payoff ex' M d i := by
  induction d generalizing i with
  | zero => exact le_rfl
  | succ d ih =>
    have hb := (hs (M - (d + 1))).1 _ _ (fun i => ih i) i
    simp only [iterOpt]
    cases h1 : ex (M - (d + 1)) with
    | true =>
      rw [hex _ h1]
      simp only [if_true]
      exact max_le_max le_rfl hb
    | false =>
      cases h2 : ex' (M - (d + 1)) with
      | true => simp only [if_true, Bool.false_eq_true, if_false]; exact le_max_of_le_right hb
      | false => simpa using hb

/-- the BDT step `(½·V[k+1] + ½·V[k])·disc[k]` is a positive operator when the discounts are non-negative -/
theorem bdtBackStep_isPositive (dsc : Nat → ℝ) (hd : ∀ k, 0 ≤ dsc k) : IsPositiveStep (bdtBackStep 𝕆 dsc) := by
  constructor
  · intro V W hVW k
    simp only [bdtBackStep, ofInt_real]
    apply mul_le_mul_of_nonneg_right _ (hd k)
    have := hVW (k + 1); have := hVW k
    norm_num
    linarith
  · funext k; simp [bdtBackStep]

/-- **C08** on the BDT binomial tree: 0 ≤ European ≤ Bermudan ≤ American (same first exercise level `E`, exercise
also at the flagged later levels), for any number of steps -/
theorem bdt_bermudan_ge_european (dsc : Nat → Nat → ℝ) (hd : ∀ m k, 0 ≤ dsc m k) (payoff : Nat → Nat → ℝ)
    (E : Nat) (cpn : Nat → Bool) (M : Nat) (k : Nat) :
    0 ≤ iterOpt (fun m => bdtBackStep 𝕆 (dsc m)) payoff (fun m => decide (m = E)) M M k ∧
    iterOpt (fun m => bdtBackStep 𝕆 (dsc m)) payoff (fun m => decide (m = E)) M M k
      ≤ iterOpt (fun m => bdtBackStep 𝕆 (dsc m)) payoff (fun m => decide (m = E) || (cpn m && decide (E < m))) M M k ∧
    iterOpt (fun m => bdtBackStep 𝕆 (dsc m)) payoff (fun m => decide (m = E) || (cpn m && decide (E < m))) M M k
      ≤ iterOpt (fun m => bdtBackStep 𝕆 (dsc m)) payoff (fun _ => true) M M k := by
  have hs : ∀ m, IsPositiveStep ((fun m => bdtBackStep 𝕆 (dsc m)) m) := fun m => bdtBackStep_isPositive (dsc m) (hd m)
  exact ⟨iterOpt_nonneg _ hs payoff _ M M k,
    iterOpt_mono_exercise _ hs payoff _ _ (fun m hm => by simp only [hm, Bool.true_or]) M M k,
    iterOpt_mono_exercise _ hs payoff _ _ (fun _ _ => rfl) M M k⟩

/-- the European `iterOpt` is the linear iteration of C08b applied to max(payoff, 0): BDT call − put parity
(`bdt_call_minus_put`) is a statement about the same roll-back -/
theorem iterOpt_european_eq_iterBack {ι : Type} (step : Nat → (ι → ℝ) → (ι → ℝ)) (payoff : Nat → ι → ℝ) (M d : Nat) :
    iterOpt step payoff (fun _ => false) M d = iterBack step (fun i => max (payoff M i) 0) M d := by
  induction d with
  | zero => rfl
  | succ d ih => funext i; simp only [iterOpt, iterBack, Bool.false_eq_true, if_false, ih]

/-- instance: exercise at level 1 of a 3-level swaption tree (E = 1 < M = 3), any probabilities and discounts -/
example (p : Int → P3 ℝ) (z : Nat → Int → ℝ) (x : Nat → Int → ℝ) :
    bermBack 𝕆 2 p z x (fun m => decide (m = 1)) 3 3 0 - bermBack 𝕆 2 p z (fun m i => -x m i) (fun m => decide (m = 1)) 3 3 0
      = euroBack 𝕆 2 p z (x 1) 1 1 0 :=
  tree_swaption_payer_minus_receiver 2 p z x (by decide)

end FinVerif.Props.C08
