/-
  C08 (part n) — non-vacuity of the hypothesis bundle `IsNormalCdf` of Lemmas/C08: the standard normal cdf
  Φ(x) = ∫_{−∞}^{x} φ,  φ(u) = exp(−u²/2)/√(2π), satisfies it (Gaussian integral + fundamental theorem of calculus),
  so every theorem of Props/C08c–d that assumes `IsNormalCdf Φ φ c` is a statement about the normal model.
-/
import FinVerif.Lemmas.C08
import Mathlib.Analysis.SpecialFunctions.Gaussian.GaussianIntegral
import Mathlib.MeasureTheory.Integral.IntervalIntegral.FundThmCalculus
import Mathlib.MeasureTheory.Integral.IntegralEqImproper
import Mathlib.MeasureTheory.Measure.Lebesgue.Integral

set_option linter.unusedVariables false

namespace FinVerif.Props.C08
open FinVerif FinVerif.C05 FinVerif.C08 MeasureTheory Filter Topology Set

/-- the standard normal density -/
noncomputable def stdPdf (x : ℝ) : ℝ := (Real.sqrt (2 * Real.pi))⁻¹ * Real.exp (-(x * x) / 2)

/-- the standard normal cdf -/
noncomputable def stdCdf (x : ℝ) : ℝ := ∫ u in Iic x, stdPdf u

theorem stdPdf_continuous : Continuous stdPdf := by unfold stdPdf; fun_prop

theorem stdPdf_integrable : Integrable stdPdf := by
  have h := (integrable_exp_neg_mul_sq (b := 1 / 2) (by norm_num)).const_mul (Real.sqrt (2 * Real.pi))⁻¹
  refine h.congr (Eventually.of_forall fun x => ?_)
  simp only [stdPdf]
  congr 2; ring

theorem stdPdf_integral : ∫ x, stdPdf x = 1 := by
  have e : stdPdf = fun x => (Real.sqrt (2 * Real.pi))⁻¹ * Real.exp (-(1 / 2) * x ^ 2) := by
    funext x; simp only [stdPdf]; congr 2; ring
  rw [e, integral_const_mul, integral_gaussian]
  have : Real.pi / (1 / 2) = 2 * Real.pi := by ring
  rw [this]
  exact inv_mul_cancel₀ (Real.sqrt_pos.mpr (by positivity)).ne'

theorem stdPdf_even (x : ℝ) : stdPdf (-x) = stdPdf x := by simp [stdPdf]

theorem stdCdf_eq (x : ℝ) : stdCdf x = stdCdf 0 + ∫ u in (0 : ℝ)..x, stdPdf u := by
  have := intervalIntegral.integral_Iic_sub_Iic (f := stdPdf) (μ := volume) (a := 0) (b := x)
    stdPdf_integrable.integrableOn stdPdf_integrable.integrableOn
  unfold stdCdf
  linarith

theorem stdCdf_hasDerivAt (x : ℝ) : HasDerivAt stdCdf (stdPdf x) x := by
  have e : stdCdf = fun x => stdCdf 0 + ∫ u in (0 : ℝ)..x, stdPdf u := funext stdCdf_eq
  rw [e]
  exact ((stdPdf_continuous.integral_hasStrictDerivAt 0 x).hasDerivAt).const_add _

theorem stdCdf_symm (x : ℝ) : stdCdf x + stdCdf (-x) = 1 := by
  have h1 : stdCdf (-x) = ∫ u in Ioi x, stdPdf u := by
    unfold stdCdf
    have := integral_comp_neg_Iic (-x) stdPdf
    rw [neg_neg] at this
    rw [← this]
    simp only [stdPdf_even]
  rw [h1]
  unfold stdCdf
  rw [← compl_Iic, integral_add_compl measurableSet_Iic stdPdf_integrable, stdPdf_integral]

theorem stdCdf_tendsto_top : Tendsto stdCdf atTop (𝓝 1) := by
  have e : stdCdf = fun x => stdCdf 0 + ∫ u in (0 : ℝ)..x, stdPdf u := funext stdCdf_eq
  have h := (intervalIntegral_tendsto_integral_Ioi (f := stdPdf) (μ := volume) 0 stdPdf_integrable.integrableOn
    tendsto_id).const_add (stdCdf 0)
  have h1 : stdCdf 0 + ∫ u in Ioi (0 : ℝ), stdPdf u = 1 := by
    unfold stdCdf
    rw [← compl_Iic, integral_add_compl measurableSet_Iic stdPdf_integrable, stdPdf_integral]
  rw [h1] at h
  rw [e]
  exact h

/-- **non-vacuity**: the standard normal pair satisfies `IsNormalCdf` with c = 1/√(2π) -/
theorem exists_normalCdf : ∃ Φ φ : ℝ → ℝ, ∃ c : ℝ, IsNormalCdf Φ φ c :=
  ⟨stdCdf, stdPdf, (Real.sqrt (2 * Real.pi))⁻¹,
    ⟨⟨stdCdf_hasDerivAt, fun x => rfl⟩, inv_pos.mpr (Real.sqrt_pos.mpr (by positivity)), stdCdf_symm, stdCdf_tendsto_top⟩⟩

theorem stdNormal_isNormalCdf : IsNormalCdf stdCdf stdPdf (Real.sqrt (2 * Real.pi))⁻¹ :=
  ⟨⟨stdCdf_hasDerivAt, fun x => rfl⟩, inv_pos.mpr (Real.sqrt_pos.mpr (by positivity)), stdCdf_symm, stdCdf_tendsto_top⟩

end FinVerif.Props.C08
