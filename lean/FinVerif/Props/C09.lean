/-
  C09 — CDS valuation identities and curve lemmas, over the reals, for arbitrary survival / discount
  functions `Q Z`, arbitrary schedules (any number of coupons, any number of integration steps).
-/
import FinVerif.Model.C09
import Mathlib.Analysis.SpecialFunctions.Log.Basic
import Mathlib.Analysis.SpecialFunctions.Exp
import Mathlib.Tactic.Ring
import Mathlib.Tactic.Linarith
import Mathlib.Tactic.FieldSimp

namespace FinVerif.Props.C09
open FinVerif.Model.C09

/-- **value_eq_prot_minus_cpn_rpv01** — long protection: value = protection leg − coupon × risky annuity
(× notional), clean and dirty. -/
theorem value_eq_prot_minus_cpn_rpv01 (cpn n prot rf rc : ℝ) :
    cdsValue true cpn n prot rf rc = (prot * n - cpn * rf * n, prot * n - cpn * rc * n) := by
  simp [cdsValue]

/-- **long_eq_neg_short** -/
theorem long_eq_neg_short (cpn n prot rf rc : ℝ) :
    (cdsValue true cpn n prot rf rc).1 = -(cdsValue false cpn n prot rf rc).1 ∧
    (cdsValue true cpn n prot rf rc).2 = -(cdsValue false cpn n prot rf rc).2 := by
  simp [cdsValue]

/-- **linear_in_notional** -/
theorem linear_in_notional (long : Bool) (cpn n k prot rf rc : ℝ) :
    (cdsValue long cpn (k * n) prot rf rc).1 = k * (cdsValue long cpn n prot rf rc).1 ∧
    (cdsValue long cpn (k * n) prot rf rc).2 = k * (cdsValue long cpn n prot rf rc).2 := by
  constructor <;> simp only [cdsValue] <;> ring

/-- **linear_in_coupon** — value is affine in the coupon: equal coupon steps give equal value steps. -/
theorem linear_in_coupon (long : Bool) (c1 c2 lam n prot rf rc : ℝ) :
    (cdsValue long (lam * c1 + (1 - lam) * c2) n prot rf rc).2
      = lam * (cdsValue long c1 n prot rf rc).2 + (1 - lam) * (cdsValue long c2 n prot rf rc).2 ∧
    (cdsValue long (lam * c1 + (1 - lam) * c2) n prot rf rc).1
      = lam * (cdsValue long c1 n prot rf rc).1 + (1 - lam) * (cdsValue long c2 n prot rf rc).1 := by
  constructor <;> simp only [cdsValue] <;> ring

/-- the kernel's clean annuity is the full one minus the accrual from the previous coupon date -/
theorem rpv01_full_minus_clean (o : Ops ℝ) (Q Z : ℝ → ℝ) (teff acc tncd yf1 : ℝ) (tail : List (ℝ × ℝ)) :
    (riskyPV01 o Q Z teff acc tncd yf1 tail).1 - (riskyPV01 o Q Z teff acc tncd yf1 tail).2 = acc := by
  simp [riskyPV01]

/-- **dirty_minus_clean_eq_accrued** — with the kernel's two annuities, dirty − clean PV is exactly
`accrued_interest()` (negative for the protection buyer). -/
theorem dirty_minus_clean_eq_accrued (long : Bool) (o : Ops ℝ) (Q Z : ℝ → ℝ) (teff acc tncd yf1 cpn n prot : ℝ)
    (tail : List (ℝ × ℝ)) :
    let r := riskyPV01 o Q Z teff acc tncd yf1 tail
    (cdsValue long cpn n prot r.1 r.2).1 - (cdsValue long cpn n prot r.1 r.2).2
      = accruedInterest long cpn n acc := by
  cases long <;> simp only [cdsValue, accruedInterest, riskyPV01] <;> simp <;> ring

/-- **par_spread_zeroes_clean_pv** -/
theorem par_spread_zeroes_clean_pv (long : Bool) (n prot rf rc : ℝ) (hn : n ≠ 0) (hr : rc ≠ 0) :
    (cdsValue long (parSpread n prot rc) n prot rf rc).2 = 0 := by
  simp only [cdsValue, parSpread]
  field_simp
  ring

/-- the coupon loop reads the survival curve only at the payment times -/
theorem couponLoop_congr (o : Ops ℝ) (Q Q' Z : ℝ → ℝ) (z1 q1 acc : ℝ) (tail : List (ℝ × ℝ))
    (h : ∀ p ∈ tail, Q p.1 = Q' p.1) :
    couponLoop o Q Z z1 q1 tail acc = couponLoop o Q' Z z1 q1 tail acc := by
  induction tail generalizing q1 acc with
  | nil => rfl
  | cons p rest ih =>
    obtain ⟨t2, af⟩ := p
    have h0 : Q t2 = Q' t2 := h (t2, af) List.mem_cons_self
    simp only [couponLoop, h0]
    exact ih _ _ (fun p hp => h p (List.mem_cons_of_mem _ hp))

/-- **locality (annuity)** — two survival curves that agree at the step-in time and at every payment time
give the same risky annuity: a knot appended beyond a CDS's maturity (with a local interpolation) leaves its
annuity unchanged. -/
theorem rpv01_local (o : Ops ℝ) (Q Q' Z : ℝ → ℝ) (teff acc tncd yf1 : ℝ) (tail : List (ℝ × ℝ))
    (h0 : Q teff = Q' teff) (h1 : Q tncd = Q' tncd) (h : ∀ p ∈ tail, Q p.1 = Q' p.1) :
    riskyPV01 o Q Z teff acc tncd yf1 tail = riskyPV01 o Q' Z teff acc tncd yf1 tail := by
  simp only [riskyPV01, h0, h1, couponLoop_congr o Q Q' Z _ _ _ tail h]

/-- the protection-leg loop reads the survival curve only on its grid `t + j·dt` (stated for curves that
agree everywhere up to a horizon `T` that bounds the grid, `dt ≥ 0`) -/
theorem protLoop_local (o : Ops ℝ) (Q Q' Z : ℝ → ℝ) (dt T : ℝ) (hdt : 0 ≤ dt) (hQ : ∀ s, s ≤ T → Q s = Q' s)
    (k : ℕ) (t q1 z1 acc : ℝ) (hT : t + k * dt ≤ T) :
    protLoop o Q Z dt k t q1 z1 acc = protLoop o Q' Z dt k t q1 z1 acc := by
  induction k generalizing t q1 z1 acc with
  | zero => rfl
  | succ k ih =>
    have hk : (0 : ℝ) ≤ k := Nat.cast_nonneg k
    have h1 : t + dt ≤ T := by
      have : t + dt ≤ t + ((k : ℝ) + 1) * dt := by nlinarith
      push_cast at hT; linarith
    simp only [protLoop, hQ _ h1]
    apply ih
    push_cast at hT; linarith

/-- **locality (protection leg)** -/
theorem protLeg_local (o : Ops ℝ) (Q Q' Z : ℝ → ℝ) (teff tmat rec : ℝ) (n : ℕ) (hn : 0 < n) (hle : teff ≤ tmat)
    (hQ : ∀ s, s ≤ tmat → Q s = Q' s) :
    protLegPV o Q Z teff tmat rec n n = protLegPV o Q' Z teff tmat rec n n := by
  simp only [protLegPV]
  have hn' : (0 : ℝ) < n := Nat.cast_pos.mpr hn
  have hdt : 0 ≤ (tmat - teff) / (n : ℝ) := div_nonneg (by linarith) hn'.le
  rw [hQ teff hle, protLoop_local o Q Q' Z _ tmat hdt hQ n teff _ _ _ (by field_simp; linarith)]

/-! ### flat-forward survival kernel (the FLAT_FWD_RATES branch of `_uinterpolate` between two knots) -/

/-- `exp(-(((t2-t)·(-log q1) + (t-t1)·(-log q2))/(t2-t1)))` -/
noncomputable def ffInterp (t1 t2 q1 q2 t : ℝ) : ℝ :=
  Real.exp (-(((t2 - t) * (-Real.log q1) + (t - t1) * (-Real.log q2)) / (t2 - t1)))

theorem ffInterp_left (t1 t2 q1 q2 : ℝ) (h : t1 < t2) (hq : 0 < q1) : ffInterp t1 t2 q1 q2 t1 = q1 := by
  unfold ffInterp
  have : t2 - t1 ≠ 0 := by linarith
  have e : -(((t2 - t1) * (-Real.log q1) + (t1 - t1) * (-Real.log q2)) / (t2 - t1)) = Real.log q1 := by
    field_simp; ring
  rw [e, Real.exp_log hq]

theorem ffInterp_right (t1 t2 q1 q2 : ℝ) (h : t1 < t2) (hq : 0 < q2) : ffInterp t1 t2 q1 q2 t2 = q2 := by
  unfold ffInterp
  have : t2 - t1 ≠ 0 := by linarith
  have e : -(((t2 - t2) * (-Real.log q1) + (t2 - t1) * (-Real.log q2)) / (t2 - t1)) = Real.log q2 := by
    field_simp; ring
  rw [e, Real.exp_log hq]

/-- **survival_nonincreasing** — between two knots with `0 < q2 ≤ q1` (non-negative hazard) the flat-forward
survival probability is non-increasing. -/
theorem survival_nonincreasing (t1 t2 q1 q2 s t : ℝ) (h : t1 < t2) (hq2 : 0 < q2) (hq : q2 ≤ q1) (hst : s ≤ t) :
    ffInterp t1 t2 q1 q2 t ≤ ffInterp t1 t2 q1 q2 s := by
  unfold ffInterp
  apply Real.exp_le_exp.mpr
  have hd : 0 < t2 - t1 := by linarith
  have hl : Real.log q2 ≤ Real.log q1 := Real.log_le_log hq2 hq
  rw [neg_le_neg_iff, div_le_div_iff_of_pos_right hd]
  nlinarith

/-- **survival_in_unit_interval** — and stays in (0,1] when the knots do. -/
theorem survival_in_unit_interval (t1 t2 q1 q2 t : ℝ) (h : t1 < t2) (hq2 : 0 < q2) (hq : q2 ≤ q1) (hq1 : q1 ≤ 1)
    (ht : t1 ≤ t) : 0 < ffInterp t1 t2 q1 q2 t ∧ ffInterp t1 t2 q1 q2 t ≤ 1 := by
  refine ⟨Real.exp_pos _, ?_⟩
  have h1 := survival_nonincreasing t1 t2 q1 q2 t1 t h hq2 hq ht
  rw [ffInterp_left t1 t2 q1 q2 h (lt_of_lt_of_le hq2 hq)] at h1
  linarith

/-- **curve_starts_at_one** — the first knot is (0, 1): survival at the anchor is 1. -/
theorem curve_starts_at_one (t2 q2 : ℝ) (h : 0 < t2) : ffInterp 0 t2 1 q2 0 = 1 :=
  ffInterp_left 0 t2 1 q2 h one_pos

/-- non-vacuity -/
example : (cdsValue true (parSpread 10 0.03 4.5) 10 (0.03 : ℝ) 4.6 4.5).2 = 0 :=
  par_spread_zeroes_clean_pv true 10 0.03 4.6 4.5 (by norm_num) (by norm_num)

end FinVerif.Props.C09
