/-
  C09b — the credit-curve bootstrap `CDSCurve._build_curve` as a fold with the solver as a parameter
  (`Model/C09Boot.lean`), over the reals, for ANY number of pillars:

  * the state after more pillars extends the state after fewer (earlier knots are never rewritten);
  * if the solver's post-condition `|f(x)| ≤ ε` held at every call made during the run, then on the FINAL
    curve every quoted CDS has clean PV within `ε` of zero, and its par spread is within `ε / |annuity·notional|`
    of its quote (exactly the quote for an exact solver) — the "reprices its instruments" clause;
  * the survival probability at a time inside the span of the first `k` pillars is not changed by later pillars.

  The only property of the valuation used is locality (`Props/C09.lean`, `Props/C02a.lean: interp_append_local`),
  which needs every time at which a contract reads the survival curve to lie in `[0, t_mat]` (`WF`).  That is
  NOT always so in the code: the last premium payment date is the business-day-adjusted maturity, so when the
  maturity date is rolled forward the last coupon reads the curve BEYOND the contract's own knot, where the
  flat-forward extrapolation is replaced by the next pillar's segment (`extrapolation_not_local`; measured on the
  real objects by the harness, see notes/C09.md).
-/
import FinVerif.Model.C09Boot
import FinVerif.Props.C09
import FinVerif.Props.C02a
import Mathlib.Tactic.Ring
import Mathlib.Tactic.Linarith
import Mathlib.Tactic.FieldSimp
import Mathlib.Tactic.NormNum

namespace FinVerif.Props.C09b
open FinVerif FinVerif.Model.C02 FinVerif.Model.C09 FinVerif.Props.C09 FinVerif.Props.C02

/-! ### the fold, for an arbitrary objective -/

section abstract
variable {κ : Type}

/-- the function handed to the solver in the pass for contract `c` from state `s`: `cds_curve.f` -/
def stepObjective (tmat : κ → ℝ) (obj : List ℝ → List ℝ → κ → ℝ) (s : List ℝ × List ℝ) (c : κ) : ℝ → ℝ :=
  fun q => obj (s.1 ++ [tmat c]) (s.2 ++ [q]) c

/-- ASSUMPTION of the repricing theorems: the post-condition `|f(x)| ≤ ε` held at every solver call that the
run from state `s` over `cs` actually makes (`x` = the value the solver left in the knot). -/
def SolverOK (solve : (ℝ → ℝ) → ℝ → ℝ) (tmat : κ → ℝ) (obj : List ℝ → List ℝ → κ → ℝ) (ε : ℝ) :
    List ℝ × List ℝ → List κ → Prop
  | _, [] => True
  | s, c :: rest =>
    |stepObjective tmat obj s c (solve (stepObjective tmat obj s c) (s.2.getLastD default))| ≤ ε ∧
      SolverOK solve tmat obj ε (bootStep solve tmat obj s c) rest

/-- on knot lists that start at `first` and end at `last`, appended knots do not change the objective of `c` -/
def IsLocal (obj : List ℝ → List ℝ → κ → ℝ) (c : κ) (first last : ℝ) : Prop :=
  ∀ pt pd st sd : List ℝ, pd.length = pt.length → 1 ≤ pt.length → g pt 0 = first →
    g pt (pt.length - 1) = last → obj (pt ++ st) (pd ++ sd) c = obj pt pd c

theorem g_append_last (l : List ℝ) (a : ℝ) : g (l ++ [a]) ((l ++ [a]).length - 1) = a := by
  unfold g
  simp [List.getD_eq_getElem?_getD]

theorem bootStep_fst (solve : (ℝ → ℝ) → ℝ → ℝ) (tmat : κ → ℝ) (obj : List ℝ → List ℝ → κ → ℝ)
    (s : List ℝ × List ℝ) (c : κ) : (bootStep solve tmat obj s c).1 = s.1 ++ [tmat c] := rfl

theorem bootStep_snd (solve : (ℝ → ℝ) → ℝ → ℝ) (tmat : κ → ℝ) (obj : List ℝ → List ℝ → κ → ℝ)
    (s : List ℝ × List ℝ) (c : κ) :
    (bootStep solve tmat obj s c).2
      = s.2 ++ [solve (stepObjective tmat obj s c) (s.2.getLastD default)] := rfl

/-- **bootFrom_extends** — the curve after any further passes EXTENDS the current one: the new times are the
maturities, in order, and no existing knot is rewritten. -/
theorem bootFrom_extends (solve : (ℝ → ℝ) → ℝ → ℝ) (tmat : κ → ℝ) (obj : List ℝ → List ℝ → κ → ℝ)
    (cs : List κ) (s : List ℝ × List ℝ) :
    ∃ sd : List ℝ, bootFrom solve tmat obj s cs = (s.1 ++ cs.map tmat, s.2 ++ sd) ∧ sd.length = cs.length := by
  induction cs generalizing s with
  | nil => exact ⟨[], by simp [bootFrom], rfl⟩
  | cons c rest ih =>
    obtain ⟨sd, he, hl⟩ := ih (bootStep solve tmat obj s c)
    refine ⟨solve (stepObjective tmat obj s c) (s.2.getLastD default) :: sd, ?_, by simp [hl]⟩
    have : bootFrom solve tmat obj s (c :: rest) = bootFrom solve tmat obj (bootStep solve tmat obj s c) rest := rfl
    rw [this, he, bootStep_fst, bootStep_snd]
    simp

/-- **bootFrom_append** — bootstrapping `cs ++ ds` is bootstrapping `ds` from the curve built on `cs`. -/
theorem bootFrom_append (solve : (ℝ → ℝ) → ℝ → ℝ) (tmat : κ → ℝ) (obj : List ℝ → List ℝ → κ → ℝ)
    (cs ds : List κ) (s : List ℝ × List ℝ) :
    bootFrom solve tmat obj s (cs ++ ds) = bootFrom solve tmat obj (bootFrom solve tmat obj s cs) ds := by
  simp [bootFrom, List.foldl_append]

/-- **bootFrom_reprices** — solver post-condition at every call + locality of the objective ⇒ on the final
curve every contract's objective is within `ε` of zero.  Any number of pillars (induction on the fold). -/
theorem bootFrom_reprices (solve : (ℝ → ℝ) → ℝ → ℝ) (tmat : κ → ℝ) (obj : List ℝ → List ℝ → κ → ℝ) (ε : ℝ)
    (cs : List κ) (s : List ℝ × List ℝ) (hlen : s.2.length = s.1.length) (h1 : 1 ≤ s.1.length)
    (hloc : ∀ c ∈ cs, IsLocal obj c (g s.1 0) (tmat c))
    (hok : SolverOK solve tmat obj ε s cs) :
    ∀ c ∈ cs, |obj (bootFrom solve tmat obj s cs).1 (bootFrom solve tmat obj s cs).2 c| ≤ ε := by
  induction cs generalizing s with
  | nil => intro c hc; simp at hc
  | cons c rest ih =>
    have hstep : bootFrom solve tmat obj s (c :: rest)
        = bootFrom solve tmat obj (bootStep solve tmat obj s c) rest := rfl
    set s1 := bootStep solve tmat obj s c with hs1
    have l1 : s1.2.length = s1.1.length := by
      rw [hs1, bootStep_fst, bootStep_snd]; simp [hlen]
    have l2 : 1 ≤ s1.1.length := by rw [hs1, bootStep_fst]; simp
    have f0 : g s1.1 0 = g s.1 0 := by
      rw [hs1, bootStep_fst]; exact g_append_left _ _ 0 (by omega)
    have fl : g s1.1 (s1.1.length - 1) = tmat c := by
      rw [hs1, bootStep_fst]; exact g_append_last _ _
    obtain ⟨hok0, hokr⟩ := hok
    intro c' hc'
    rw [hstep]
    rcases List.mem_cons.mp hc' with rfl | hin
    · obtain ⟨sd, he, _⟩ := bootFrom_extends solve tmat obj rest s1
      rw [he]
      rw [hloc c' List.mem_cons_self s1.1 s1.2 (rest.map tmat) sd l1 l2 f0 fl]
      exact hok0
    · exact ih s1 l1 l2 (fun d hd => by rw [f0]; exact hloc d (List.mem_cons_of_mem _ hd)) hokr c' hin

end abstract

/-! ### the CDS objective is local when the contract reads the curve only inside `[0, t_mat]` -/

/-- every time at which the contract reads the survival curve lies in `[0, t_mat]`; the step count is
positive and `nf` is that count -/
structure WF (c : Contract ℝ) : Prop where
  teff0 : 0 ≤ c.teff
  teffT : c.teff ≤ c.tmat
  tncd0 : 0 ≤ c.tncd
  tncdT : c.tncd ≤ c.tmat
  tail : ∀ p ∈ c.tail, 0 ≤ p.1 ∧ p.1 ≤ c.tmat
  steps : 0 < c.nSteps
  nf : c.nf = c.nSteps

/-- **curveFn_append_local** — `_uinterpolate` at a time inside the span of the first knots ignores appended
knots (C02's `interp_append_local`, totalised). -/
theorem curveFn_append_local (bad : ℝ) (pt pd st sd : List ℝ) (t : ℝ) (hlen : pd.length = pt.length)
    (h1 : 1 ≤ pt.length) (hlo : g pt 0 ≤ t) (hhi : t ≤ g pt (pt.length - 1)) :
    curveFn bad (pt ++ st) (pd ++ sd) t = curveFn bad pt pd t := by
  unfold curveFn
  rw [interp_append_local 1 pt pd st sd t hlen h1 hlo hhi]

/-- the protection loop reads the survival curve only on its grid, here inside `[lo, T]` -/
theorem protLoop_local_between (o : Ops ℝ) (Q Q' Z : ℝ → ℝ) (dt lo T : ℝ) (hdt : 0 ≤ dt)
    (hQ : ∀ s, lo ≤ s → s ≤ T → Q s = Q' s) (k : ℕ) (t q1 z1 acc : ℝ) (hlo : lo ≤ t) (hT : t + k * dt ≤ T) :
    protLoop o Q Z dt k t q1 z1 acc = protLoop o Q' Z dt k t q1 z1 acc := by
  induction k generalizing t q1 z1 acc with
  | zero => rfl
  | succ k ih =>
    have hk : (0 : ℝ) ≤ k := Nat.cast_nonneg k
    have h1 : t + dt ≤ T := by
      have : t + dt ≤ t + ((k : ℝ) + 1) * dt := by nlinarith
      push_cast at hT; linarith
    simp only [protLoop, hQ _ (by linarith) h1]
    apply ih
    · linarith
    · push_cast at hT; linarith

/-- **protLeg_local_between** -/
theorem protLeg_local_between (o : Ops ℝ) (Q Q' Z : ℝ → ℝ) (teff tmat rec lo : ℝ) (n : ℕ) (hn : 0 < n)
    (hlo : lo ≤ teff) (hle : teff ≤ tmat) (hQ : ∀ s, lo ≤ s → s ≤ tmat → Q s = Q' s) :
    protLegPV o Q Z teff tmat rec n n = protLegPV o Q' Z teff tmat rec n n := by
  simp only [protLegPV]
  have hn' : (0 : ℝ) < n := Nat.cast_pos.mpr hn
  have hdt : 0 ≤ (tmat - teff) / (n : ℝ) := div_nonneg (by linarith) hn'.le
  rw [hQ teff hlo hle,
    protLoop_local_between o Q Q' Z _ lo tmat hdt hQ n teff _ _ _ hlo (by field_simp; linarith)]

/-- **cdsObj_local** — the solver's objective for a well-formed contract does not see knots appended after
its own maturity knot. -/
theorem cdsObj_local (o : Ops ℝ) (bad : ℝ) (lt ld : List ℝ) (rec : ℝ) (c : Contract ℝ) (hc : WF c) :
    IsLocal (cdsObj o bad lt ld rec) c 0 c.tmat := by
  intro pt pd st sd hlen h1 h0 hlast
  have hQ : ∀ s, 0 ≤ s → s ≤ c.tmat →
      curveFn bad (pt ++ st) (pd ++ sd) s = curveFn bad pt pd s := fun s hs0 hsT =>
    curveFn_append_local bad pt pd st sd s hlen h1 (by rw [h0]; exact hs0) (by rw [hlast]; exact hsT)
  simp only [cdsObj, cleanPV, valueOf, rpv01Of]
  rw [rpv01_local o _ (curveFn bad pt pd) _ c.teff c.acc c.tncd c.yf1 c.tail
      (hQ _ hc.teff0 hc.teffT) (hQ _ hc.tncd0 hc.tncdT) (fun p hp => hQ _ (hc.tail p hp).1 (hc.tail p hp).2),
    hc.nf,
    protLeg_local_between o _ (curveFn bad pt pd) _ c.teff c.tmat rec 0 c.nSteps hc.steps hc.teff0 hc.teffT hQ]

/-! ### the bootstrapped curve -/

section boot
variable (o : Ops ℝ) (bad : ℝ) (solve : (ℝ → ℝ) → ℝ → ℝ) (lt ld : List ℝ) (rec : ℝ)

/-- **bootstrap_times** — the knot times are `0` followed by the maturities in the order given; there are as
many values as times. -/
theorem bootstrap_times (cs : List (Contract ℝ)) :
    (bootstrap o bad solve lt ld rec 0 1 cs).1 = 0 :: cs.map Contract.tmat ∧
    (bootstrap o bad solve lt ld rec 0 1 cs).2.length = cs.length + 1 := by
  obtain ⟨sd, he, hl⟩ := bootFrom_extends solve Contract.tmat (cdsObj o bad lt ld rec) cs ([0], [1])
  unfold bootstrap
  rw [he]
  simp [hl]

/-- **bootstrap_earlier_knots_unchanged** — adding pillars `ds` after `cs` keeps every knot of the curve built
on `cs` (times and survival values) and only appends. -/
theorem bootstrap_earlier_knots_unchanged (cs ds : List (Contract ℝ)) :
    ∃ sd : List ℝ, sd.length = ds.length ∧
      (bootstrap o bad solve lt ld rec 0 1 (cs ++ ds)).1
        = (bootstrap o bad solve lt ld rec 0 1 cs).1 ++ ds.map Contract.tmat ∧
      (bootstrap o bad solve lt ld rec 0 1 (cs ++ ds)).2
        = (bootstrap o bad solve lt ld rec 0 1 cs).2 ++ sd := by
  unfold bootstrap
  rw [bootFrom_append]
  obtain ⟨sd, he, hl⟩ := bootFrom_extends solve Contract.tmat (cdsObj o bad lt ld rec) ds
    (bootFrom solve Contract.tmat (cdsObj o bad lt ld rec) ([0], [1]) cs)
  exact ⟨sd, hl, by rw [he], by rw [he]⟩

/-- **bootstrap_reprices** — if `|f(x)| ≤ ε` held at every solver call, every quoted (well-formed) CDS has
clean PV within `ε` of zero on the FINAL curve, whatever the number of pillars. -/
theorem bootstrap_reprices (ε : ℝ) (cs : List (Contract ℝ)) (hwf : ∀ c ∈ cs, WF c)
    (hok : SolverOK solve Contract.tmat (cdsObj o bad lt ld rec) ε ([0], [1]) cs) :
    ∀ c ∈ cs, |cdsObj o bad lt ld rec (bootstrap o bad solve lt ld rec 0 1 cs).1
        (bootstrap o bad solve lt ld rec 0 1 cs).2 c| ≤ ε := by
  unfold bootstrap
  apply bootFrom_reprices solve Contract.tmat (cdsObj o bad lt ld rec) ε cs ([0], [1]) rfl (by simp)
  · intro c hc
    have : g (([0], [1]) : List ℝ × List ℝ).1 0 = 0 := by simp
    rw [this]
    exact cdsObj_local o bad lt ld rec c (hwf c hc)
  · exact hok

/-- **bootstrap_reprices_exact** — exact solver (`f(x) = 0` at every call) ⇒ clean PV exactly zero. -/
theorem bootstrap_reprices_exact (cs : List (Contract ℝ)) (hwf : ∀ c ∈ cs, WF c)
    (hok : SolverOK solve Contract.tmat (cdsObj o bad lt ld rec) 0 ([0], [1]) cs) :
    ∀ c ∈ cs, cdsObj o bad lt ld rec (bootstrap o bad solve lt ld rec 0 1 cs).1
        (bootstrap o bad solve lt ld rec 0 1 cs).2 c = 0 := fun c hc =>
  abs_nonpos_iff.mp (bootstrap_reprices o bad solve lt ld rec 0 cs hwf hok c hc)

end boot

/-- **cleanPV_eq_par_minus_cpn** — mark-to-market identity: clean PV = ± (par spread − coupon) × clean risky
annuity × notional, for every curve. -/
theorem cleanPV_eq_par_minus_cpn (o : Ops ℝ) (Q Z : ℝ → ℝ) (rec : ℝ) (c : Contract ℝ)
    (hn : c.notional ≠ 0) (hr : (rpv01Of o Q Z c).2 ≠ 0) :
    cleanPV o Q Z rec c
      = (if c.long then 1 else -1) * (parSpreadOf o Q Z rec c - c.cpn) * (rpv01Of o Q Z c).2 * c.notional := by
  simp only [cleanPV, valueOf, parSpreadOf, cdsValue, parSpread]
  field_simp

/-- **bootstrap_par_spread_error** — on the final curve each quoted CDS's par spread differs from its quote
(the contract's coupon) by at most `ε / |clean annuity × notional|`. -/
theorem bootstrap_par_spread_error (o : Ops ℝ) (bad : ℝ) (solve : (ℝ → ℝ) → ℝ → ℝ) (lt ld : List ℝ) (rec ε : ℝ)
    (cs : List (Contract ℝ)) (hwf : ∀ c ∈ cs, WF c)
    (hok : SolverOK solve Contract.tmat (cdsObj o bad lt ld rec) ε ([0], [1]) cs) (c : Contract ℝ) (hc : c ∈ cs) :
    let b := bootstrap o bad solve lt ld rec 0 1 cs
    let Q := curveFn bad b.1 b.2
    let Z := curveFn bad lt ld
    c.notional ≠ 0 → (rpv01Of o Q Z c).2 ≠ 0 →
      |parSpreadOf o Q Z rec c - c.cpn| ≤ ε / |(rpv01Of o Q Z c).2 * c.notional| := by
  intro b Q Z hn hr
  have h := bootstrap_reprices o bad solve lt ld rec ε cs hwf hok c hc
  have e : cdsObj o bad lt ld rec b.1 b.2 c = cleanPV o Q Z rec c := rfl
  change |cdsObj o bad lt ld rec b.1 b.2 c| ≤ ε at h
  rw [e, cleanPV_eq_par_minus_cpn o Q Z rec c hn hr] at h
  have hpos : 0 < |(rpv01Of o Q Z c).2 * c.notional| := abs_pos.mpr (mul_ne_zero hr hn)
  rw [le_div_iff₀ hpos]
  have hs : |(if c.long then (1 : ℝ) else -1)| = 1 := by split <;> simp
  have e2 : |(if c.long then 1 else -1) * (parSpreadOf o Q Z rec c - c.cpn) * (rpv01Of o Q Z c).2 * c.notional|
      = |parSpreadOf o Q Z rec c - c.cpn| * |(rpv01Of o Q Z c).2 * c.notional| := by
    rw [mul_assoc, mul_assoc, abs_mul, hs, one_mul, abs_mul]
  rw [e2] at h
  exact h

/-- **bootstrap_returns_quotes** — exact solver ⇒ the final curve returns every input spread as that
contract's par spread. -/
theorem bootstrap_returns_quotes (o : Ops ℝ) (bad : ℝ) (solve : (ℝ → ℝ) → ℝ → ℝ) (lt ld : List ℝ) (rec : ℝ)
    (cs : List (Contract ℝ)) (hwf : ∀ c ∈ cs, WF c)
    (hok : SolverOK solve Contract.tmat (cdsObj o bad lt ld rec) 0 ([0], [1]) cs) (c : Contract ℝ) (hc : c ∈ cs) :
    let b := bootstrap o bad solve lt ld rec 0 1 cs
    let Q := curveFn bad b.1 b.2
    let Z := curveFn bad lt ld
    c.notional ≠ 0 → (rpv01Of o Q Z c).2 ≠ 0 → parSpreadOf o Q Z rec c = c.cpn := by
  intro b Q Z hn hr
  have h := bootstrap_par_spread_error o bad solve lt ld rec 0 cs hwf hok c hc hn hr
  simp only [zero_div] at h
  exact sub_eq_zero.mp (abs_nonpos_iff.mp h)

/-- **bootstrap_survival_local** — the survival probability at a time inside the span of the curve built on the
pillars `cs` is the same on the curve built on `cs ++ ds`: later pillars do not change earlier survival
probabilities. -/
theorem bootstrap_survival_local (o : Ops ℝ) (bad : ℝ) (solve : (ℝ → ℝ) → ℝ → ℝ) (lt ld : List ℝ) (rec : ℝ)
    (cs ds : List (Contract ℝ)) (t : ℝ) (h0 : 0 ≤ t)
    (hT : t ≤ g (bootstrap o bad solve lt ld rec 0 1 cs).1 ((bootstrap o bad solve lt ld rec 0 1 cs).1.length - 1)) :
    curveFn bad (bootstrap o bad solve lt ld rec 0 1 (cs ++ ds)).1 (bootstrap o bad solve lt ld rec 0 1 (cs ++ ds)).2 t
      = curveFn bad (bootstrap o bad solve lt ld rec 0 1 cs).1 (bootstrap o bad solve lt ld rec 0 1 cs).2 t := by
  obtain ⟨sd, _, e1, e2⟩ := bootstrap_earlier_knots_unchanged o bad solve lt ld rec cs ds
  obtain ⟨t1, t2⟩ := bootstrap_times o bad solve lt ld rec cs
  rw [e1, e2]
  apply curveFn_append_local bad _ _ _ _ t
  · rw [t2, t1]; simp
  · rw [t1]; simp
  · rw [t1]; simpa using h0
  · exact hT

/-- **bootstrap_starts_at_one** — the bootstrapped survival curve is 1 at the valuation date, for any quotes
and any solver. -/
theorem bootstrap_starts_at_one (o : Ops ℝ) (bad : ℝ) (solve : (ℝ → ℝ) → ℝ → ℝ) (lt ld : List ℝ) (rec : ℝ)
    (cs : List (Contract ℝ)) :
    curveFn bad (bootstrap o bad solve lt ld rec 0 1 cs).1 (bootstrap o bad solve lt ld rec 0 1 cs).2 0 = 1 := by
  obtain ⟨sd, he, _⟩ := bootFrom_extends solve Contract.tmat (cdsObj o bad lt ld rec) cs ([0], [1])
  unfold bootstrap
  rw [he]
  have h := uinterp_first 1 ([0] ++ cs.map Contract.tmat) ([1] ++ sd) (by simp)
  have g0 : g ([0] ++ cs.map Contract.tmat) 0 = 0 := by simp
  have g1 : g ([1] ++ sd) 0 = 1 := by simp
  rw [g0, g1] at h
  simp only [curveFn, h]

/-- every query from the first knot on is answered (no error value) on a curve with ≥ 2 strictly increasing
knot times -/
theorem curveFn_ok (bad : ℝ) (times dfs : List ℝ) (hs : times.Pairwise (· < ·)) (hn : 2 ≤ times.length) (t : ℝ)
    (ht : g times 0 ≤ t) : uinterp 1 times dfs t = .ok (curveFn bad times dfs t) := by
  unfold curveFn
  rcases eq_or_lt_of_le ht with h0 | h0
  · rw [← h0, uinterp_first 1 times dfs (by omega)]
  · obtain ⟨j, _, _, _, _, e⟩ := uinterp_flat_shape times dfs hs hn t h0
    rw [e]

/-- **bootstrap_survival_shape** — the "starts at 1, non-increasing, stays in (0,1]" clause for the bootstrapped
curve, any number of pillars: with maturity-ordered pillars (`0 < T_1 < T_2 < …`), if the solved knot values are
positive and non-increasing (non-negative solved hazards), the survival curve through `_uinterpolate` is
non-increasing on `[0, ∞)` (extrapolation included), positive, and at most 1. -/
theorem bootstrap_survival_shape (o : Ops ℝ) (bad : ℝ) (solve : (ℝ → ℝ) → ℝ → ℝ) (lt ld : List ℝ) (rec : ℝ)
    (cs : List (Contract ℝ)) (hne : cs ≠ [])
    (hsorted : (0 :: cs.map Contract.tmat).Pairwise (· < ·))
    (hpos : ∀ d ∈ (bootstrap o bad solve lt ld rec 0 1 cs).2, 0 < d)
    (hmono : ∀ k, k + 1 < (bootstrap o bad solve lt ld rec 0 1 cs).1.length →
      g (bootstrap o bad solve lt ld rec 0 1 cs).2 (k + 1) ≤ g (bootstrap o bad solve lt ld rec 0 1 cs).2 k)
    (s t : ℝ) (h0 : 0 ≤ s) (hst : s ≤ t) :
    let Q := curveFn bad (bootstrap o bad solve lt ld rec 0 1 cs).1 (bootstrap o bad solve lt ld rec 0 1 cs).2
    Q t ≤ Q s ∧ 0 < Q t ∧ Q t ≤ 1 := by
  intro Q
  obtain ⟨t1, t2⟩ := bootstrap_times o bad solve lt ld rec cs
  set b := bootstrap o bad solve lt ld rec 0 1 cs with hb
  have hlen : b.2.length = b.1.length := by rw [t2, t1]; simp
  have hs : b.1.Pairwise (· < ·) := by rw [t1]; exact hsorted
  have hn : 2 ≤ b.1.length := by
    rw [t1]
    cases cs with
    | nil => exact absurd rfl hne
    | cons c r => simp
  have g0 : g b.1 0 = 0 := by rw [t1]; simp
  have ok : ∀ x, 0 ≤ x → uinterp 1 b.1 b.2 x = .ok (Q x) := fun x hx =>
    curveFn_ok bad b.1 b.2 hs hn x (by rw [g0]; exact hx)
  have anti := (flatfwd_antitone_iff b.1 b.2 hlen hs hpos hn).mpr hmono
  have a1 : Q t ≤ Q s := anti s t (Q s) (Q t) (by rw [g0]; exact h0) hst (ok s h0) (ok t (le_trans h0 hst))
  have a2 : 0 < Q t := interp_pos 1 b.1 b.2 t (Q t) (ok t (le_trans h0 hst)) hpos hlen
  have a3 : Q t ≤ Q 0 := anti 0 t (Q 0) (Q t) (by rw [g0]) (le_trans h0 hst) (ok 0 le_rfl) (ok t (le_trans h0 hst))
  have one : Q 0 = 1 := bootstrap_starts_at_one o bad solve lt ld rec cs
  exact ⟨a1, a2, by rw [one] at a3; exact a3⟩

/-! ### why `WF` is needed: flat-forward EXTRAPOLATION is not local -/

/-- **extrapolation_not_local** — a query to the right of the last knot (the last coupon of a CDS whose maturity
date was rolled forward) is answered by extrapolating the last segment; once a further pillar is appended the
same query falls inside the new segment and gets a different value.  Knots `(0,1), (1,e⁻¹)` then `(2,e⁻³)`,
query `3/2`: `e^{-3/2}` before, `e^{-2}` after. -/
theorem extrapolation_not_local (bad : ℝ) :
    curveFn bad [0, 1] [1, Real.exp (-1)] (3 / 2) = Real.exp (-(3 / 2)) ∧
    curveFn bad ([0, 1] ++ [2]) ([1, Real.exp (-1)] ++ [Real.exp (-3)]) (3 / 2) = Real.exp (-2) ∧
    curveFn bad ([0, 1] ++ [2]) ([1, Real.exp (-1)] ++ [Real.exp (-3)]) (3 / 2)
      ≠ curveFn bad [0, 1] [1, Real.exp (-1)] (3 / 2) := by
  have a : curveFn bad [0, 1] [1, Real.exp (-1)] (3 / 2) = Real.exp (-(3 / 2)) := by
    have hne : (3 / 2 : ℝ) ≠ g [0, 1] 0 := by simp [g]
    have hloc : locate [(0 : ℝ), 1] (3 / 2) = 2 := by
      simp only [locate, search]; norm_num [g]
    simp only [curveFn, uinterp_kernel 1 _ _ _ (by simp : 2 ≤ ([0, 1] : List ℝ).length) hne, hloc]
    rw [kernel_m1]
    norm_num [guardDiv, anyZero, kFlat, g]
  have b : curveFn bad ([0, 1] ++ [2]) ([1, Real.exp (-1)] ++ [Real.exp (-3)]) (3 / 2) = Real.exp (-2) := by
    have hne : (3 / 2 : ℝ) ≠ g ([0, 1] ++ [2]) 0 := by simp [g]
    have hloc : locate ([(0 : ℝ), 1] ++ [2]) (3 / 2) = 2 := by
      simp only [locate, search, List.cons_append, List.nil_append]; norm_num [g]
    simp only [curveFn, uinterp_kernel 1 _ _ _ (by simp : 2 ≤ ([0, 1] ++ [2] : List ℝ).length) hne, hloc]
    rw [kernel_m1]
    norm_num [guardDiv, anyZero, kFlat, g]
  refine ⟨a, b, ?_⟩
  rw [a, b]
  intro h
  have := Real.exp_injective h
  norm_num at this

/-! ### non-vacuity -/

/-- a well-formed contract: 1Y spot CDS, quarterly, 25 steps -/
noncomputable def exContract : Contract ℝ :=
  { teff := 0, acc := 0, tncd := 0.25, yf1 := 0.25, tail := [(0.5, 0.25), (0.75, 0.25), (1, 0.25)], tmat := 1,
    nSteps := 25, nf := 25, cpn := 0.01, notional := 1, long := true }

example : WF exContract := by
  refine ⟨by norm_num [exContract], by norm_num [exContract], by norm_num [exContract],
    by norm_num [exContract], ?_, by norm_num [exContract], by norm_num [exContract]⟩
  intro p hp
  simp only [exContract, List.mem_cons, List.not_mem_nil, or_false] at hp
  rcases hp with rfl | rfl | rfl <;> norm_num [exContract]

/-- `SolverOK` is satisfiable: with no pillars it is `True`; with one pillar it is exactly the statement
`|f(solve f 1)| ≤ ε` about the single solver call. -/
example (o : Ops ℝ) (bad : ℝ) (solve : (ℝ → ℝ) → ℝ → ℝ) (lt ld : List ℝ) (rec ε : ℝ) (c : Contract ℝ) :
    SolverOK solve Contract.tmat (cdsObj o bad lt ld rec) ε ([0], [1]) [c]
      ↔ |stepObjective Contract.tmat (cdsObj o bad lt ld rec) ([0], [1]) c
          (solve (stepObjective Contract.tmat (cdsObj o bad lt ld rec) ([0], [1]) c) 1)| ≤ ε := by
  simp [SolverOK]

end FinVerif.Props.C09b
