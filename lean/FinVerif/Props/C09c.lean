/-
  C09c — the protection-leg integration scheme actually coded in `_prot_leg_pv_numba`
  (USE_FLAT_HAZARD_RATE_INTEGRAL branch, `small = 1e-8` regulariser, `abs(h12 + r12)`), over the reals
  with `log`/`exp`/`abs` read as the real functions, for EVERY number of integration steps:

  * each step, for positive curves, is  h12·(q1 z1 − q2 z2)/(|h12 + r12| + 1e-8)                (`protStep_eq`)
  * sign and bound for non-increasing positive curves:
        0 ≤ protection PV ≤ (1 − R)·Z(t_eff)·(Q(t_eff) − Q(T)) ≤ (1 − R)·(1 − Q(T))
  * flat hazard `h`, flat rate `r` (Q = e^{-ht}, Z = e^{-rt}): the sum telescopes EXACTLY, for any step count, to
        (1 − R)·h·(e^{-(h+r) t_eff} − e^{-(h+r) T})/(|h + r| + 1e-8),
    which is the closed-form integral of `Spec/C09.lean` times (h+r)/(h+r+1e-8); it is non-decreasing in `h`
    for spot-starting protection and non-negative rates;
  * zero hazard ⇒ zero protection leg; the leg is (1 − R) × the zero-recovery leg.
-/
import FinVerif.Model.C09Boot
import FinVerif.Spec.C09
import Mathlib.Analysis.SpecialFunctions.Log.Basic
import Mathlib.Analysis.SpecialFunctions.Exp
import Mathlib.Tactic.Ring
import Mathlib.Tactic.Linarith
import Mathlib.Tactic.FieldSimp
import Mathlib.Tactic.NormNum
import Mathlib.Tactic.Positivity

namespace FinVerif.Props.C09c
open FinVerif.Model.C09 FinVerif.Spec.C09

/-- the real-number reading of the operations the kernels use (`Model/C09F.lean: opsF` is the Float reading):
`log`, `exp`, `abs`, `0.5`, `1e-20`, `1e-8` -/
noncomputable def opsR : Ops ℝ := ⟨Real.log, Real.exp, fun x => |x|, 0.5, 1e-20, 1e-8⟩

/-! ### two elementary inequalities -/

/-- for `u, v ∈ (0,1]`:  (−log u)(1 − uv) ≤ (1 − u)(−log u − log v) -/
theorem key_ineq (u v : ℝ) (hu : 0 < u) (hu1 : u ≤ 1) (hv : 0 < v) (hv1 : v ≤ 1) :
    (-Real.log u) * (1 - u * v) ≤ (1 - u) * (-Real.log u + -Real.log v) := by
  have a : 1 - v ≤ -Real.log v := by
    have := Real.log_le_sub_one_of_pos hv
    linarith
  have b : u * (-Real.log u) ≤ 1 - u := by
    have h := Real.log_le_sub_one_of_pos (inv_pos.mpr hu)
    rw [Real.log_inv] at h
    have h2 := mul_le_mul_of_nonneg_left h hu.le
    rw [mul_sub, mul_inv_cancel₀ hu.ne', mul_one] at h2
    exact h2
  have b' := mul_le_mul_of_nonneg_right b (sub_nonneg.mpr hv1)
  have a' := mul_le_mul_of_nonneg_left a (sub_nonneg.mpr hu1)
  nlinarith

/-- `1 − e^{-s} − s e^{-s} ≥ 0` for every real `s` -/
theorem expTerm_nonneg (s : ℝ) : 0 ≤ 1 - Real.exp (-s) - s * Real.exp (-s) := by
  have h := Real.add_one_le_exp s
  have hp := Real.exp_pos (-s)
  have h2 := mul_le_mul_of_nonneg_right h hp.le
  rw [← Real.exp_add, add_neg_cancel, Real.exp_zero] at h2
  linarith

/-! ### one integration step -/

/-- one pass of the integration loop: the increment `dprot_pv` -/
noncomputable def protStep (dt q1 z1 q2 z2 : ℝ) : ℝ :=
  let h12 := -(Real.log (q2 / q1)) / dt
  let r12 := -(Real.log (z2 / z1)) / dt
  h12 * (1 - Real.exp (-(r12 + h12) * dt)) * q1 * z1 / (|h12 + r12| + 1e-8)

theorem protLoop_succ (Q Z : ℝ → ℝ) (dt : ℝ) (k : ℕ) (t q1 z1 acc : ℝ) :
    protLoop opsR Q Z dt (k + 1) t q1 z1 acc
      = protLoop opsR Q Z dt k (t + dt) (Q (t + dt)) (Z (t + dt))
          (acc + protStep dt q1 z1 (Q (t + dt)) (Z (t + dt))) := rfl

/-- **protStep_eq** — for positive curve values the `exp` term is the ratio of the risky discount factors, so
the increment is `h12 · (q1 z1 − q2 z2) / (|h12 + r12| + 1e-8)`. -/
theorem protStep_eq (dt q1 z1 q2 z2 : ℝ) (hdt : dt ≠ 0) (hq1 : 0 < q1) (hz1 : 0 < z1) (hq2 : 0 < q2)
    (hz2 : 0 < z2) :
    protStep dt q1 z1 q2 z2
      = (-(Real.log (q2 / q1)) / dt) * (q1 * z1 - q2 * z2)
          / (|-(Real.log (q2 / q1)) / dt + -(Real.log (z2 / z1)) / dt| + 1e-8) := by
  unfold protStep
  have he : Real.exp (-(-(Real.log (z2 / z1)) / dt + -(Real.log (q2 / q1)) / dt) * dt)
      = (z2 / z1) * (q2 / q1) := by
    have : -(-(Real.log (z2 / z1)) / dt + -(Real.log (q2 / q1)) / dt) * dt
        = Real.log (z2 / z1) + Real.log (q2 / q1) := by
      field_simp
      ring
    rw [this, Real.exp_add, Real.exp_log (div_pos hz2 hz1), Real.exp_log (div_pos hq2 hq1)]
  simp only [he]
  congr 1
  field_simp

/-- **protStep_bounds** — non-increasing positive survival and discount factors over the step (`0 < q2 ≤ q1`,
`0 < z2 ≤ z1`, `dt > 0`):  `0 ≤ dprot_pv ≤ z1·(q1 − q2)` (the discounted default probability of the step). -/
theorem protStep_bounds (dt q1 z1 q2 z2 : ℝ) (hdt : 0 < dt) (hq2 : 0 < q2) (hq : q2 ≤ q1) (hz2 : 0 < z2)
    (hz : z2 ≤ z1) :
    0 ≤ protStep dt q1 z1 q2 z2 ∧ protStep dt q1 z1 q2 z2 ≤ z1 * (q1 - q2) := by
  have hq1 : 0 < q1 := lt_of_lt_of_le hq2 hq
  have hz1 : 0 < z1 := lt_of_lt_of_le hz2 hz
  rw [protStep_eq dt q1 z1 q2 z2 hdt.ne' hq1 hz1 hq2 hz2]
  set u := q2 / q1 with hu
  set v := z2 / z1 with hv
  have hu0 : 0 < u := div_pos hq2 hq1
  have hv0 : 0 < v := div_pos hz2 hz1
  have hu1 : u ≤ 1 := (div_le_one hq1).mpr hq
  have hv1 : v ≤ 1 := (div_le_one hz1).mpr hz
  have eq2 : q2 = u * q1 := by rw [hu]; field_simp
  have ez2 : z2 = v * z1 := by rw [hv]; field_simp
  have hx : 0 ≤ -Real.log u := neg_nonneg.mpr (Real.log_nonpos hu0.le hu1)
  have hy : 0 ≤ -Real.log v := neg_nonneg.mpr (Real.log_nonpos hv0.le hv1)
  have hsum : 0 ≤ -Real.log u / dt + -Real.log v / dt :=
    add_nonneg (div_nonneg hx hdt.le) (div_nonneg hy hdt.le)
  rw [abs_of_nonneg hsum]
  have hden : 0 < -Real.log u / dt + -Real.log v / dt + 1e-8 := by
    have : (0 : ℝ) < 1e-8 := by norm_num
    linarith
  have huv : u * v ≤ 1 := by nlinarith
  have hnum : 0 ≤ q1 * z1 - q2 * z2 := by
    rw [eq2, ez2]
    have : 0 ≤ q1 * z1 * (1 - u * v) := mul_nonneg (mul_pos hq1 hz1).le (by linarith)
    nlinarith
  refine ⟨div_nonneg (mul_nonneg (div_nonneg hx hdt.le) hnum) hden.le, ?_⟩
  rw [div_le_iff₀ hden]
  have K := key_ineq u v hu0 hu1 hv0 hv1
  have hc : 0 ≤ q1 * z1 / dt := div_nonneg (mul_pos hq1 hz1).le hdt.le
  have K' := mul_le_mul_of_nonneg_left K hc
  have e1 : -Real.log u / dt * (q1 * z1 - q2 * z2) = q1 * z1 / dt * (-Real.log u * (1 - u * v)) := by
    rw [eq2, ez2]; ring
  have e2 : z1 * (q1 - q2) * (-Real.log u / dt + -Real.log v / dt + 1e-8)
      = q1 * z1 / dt * ((1 - u) * (-Real.log u + -Real.log v)) + z1 * q1 * (1 - u) * 1e-8 := by
    rw [eq2]; ring
  rw [e1, e2]
  have : 0 ≤ z1 * q1 * (1 - u) * 1e-8 :=
    mul_nonneg (mul_nonneg (mul_pos hz1 hq1).le (by linarith)) (by norm_num)
  linarith

/-! ### sign and bound of the protection leg, any number of steps -/

/-- loop invariant: with positive, non-increasing curves on `[lo, ∞)` the accumulated sum only grows, by at
most the discounted default probability over the steps taken. -/
theorem protLoop_bounds (Q Z : ℝ → ℝ) (dt lo : ℝ) (hdt : 0 < dt)
    (hQpos : ∀ s, lo ≤ s → 0 < Q s) (hQanti : ∀ s u, lo ≤ s → s ≤ u → Q u ≤ Q s)
    (hZpos : ∀ s, lo ≤ s → 0 < Z s) (hZanti : ∀ s u, lo ≤ s → s ≤ u → Z u ≤ Z s)
    (k : ℕ) (t acc : ℝ) (ht : lo ≤ t) :
    acc ≤ protLoop opsR Q Z dt k t (Q t) (Z t) acc ∧
      protLoop opsR Q Z dt k t (Q t) (Z t) acc ≤ acc + Z t * (Q t - Q (t + k * dt)) := by
  induction k generalizing t acc with
  | zero => simp [protLoop]
  | succ k ih =>
    rw [protLoop_succ]
    have ht' : lo ≤ t + dt := by linarith
    obtain ⟨s0, s1⟩ := protStep_bounds dt (Q t) (Z t) (Q (t + dt)) (Z (t + dt)) hdt (hQpos _ ht')
      (hQanti t (t + dt) ht (by linarith)) (hZpos _ ht') (hZanti t (t + dt) ht (by linarith))
    obtain ⟨i0, i1⟩ := ih (t + dt) (acc + protStep dt (Q t) (Z t) (Q (t + dt)) (Z (t + dt))) ht'
    have hk : (0 : ℝ) ≤ k := Nat.cast_nonneg k
    have et : t + dt + (k : ℝ) * dt = t + ((k + 1 : ℕ) : ℝ) * dt := by push_cast; ring
    rw [et] at i1
    have hQend : Q (t + ((k + 1 : ℕ) : ℝ) * dt) ≤ Q (t + dt) := by
      apply hQanti _ _ ht'
      push_cast; nlinarith
    have hZ1 : Z (t + dt) ≤ Z t := hZanti t (t + dt) ht (by linarith)
    constructor
    · linarith
    · have : Z (t + dt) * (Q (t + dt) - Q (t + ((k + 1 : ℕ) : ℝ) * dt))
          ≤ Z t * (Q (t + dt) - Q (t + ((k + 1 : ℕ) : ℝ) * dt)) :=
        mul_le_mul_of_nonneg_right hZ1 (by linarith)
      nlinarith

/-- **protLeg_bounds** — positive non-increasing survival and discount curves from `lo ≤ t_eff` on, recovery in
`[0,1]`, any step count `n ≥ 1`:  `0 ≤ protection PV ≤ (1 − R)·Z(t_eff)·(Q(t_eff) − Q(T))`. -/
theorem protLeg_bounds (Q Z : ℝ → ℝ) (teff tmat rec lo : ℝ) (n : ℕ) (hn : 0 < n) (hlo : lo ≤ teff)
    (hlt : teff < tmat) (hrec : rec ≤ 1)
    (hQpos : ∀ s, lo ≤ s → 0 < Q s) (hQanti : ∀ s u, lo ≤ s → s ≤ u → Q u ≤ Q s)
    (hZpos : ∀ s, lo ≤ s → 0 < Z s) (hZanti : ∀ s u, lo ≤ s → s ≤ u → Z u ≤ Z s) :
    0 ≤ protLegPV opsR Q Z teff tmat rec n n ∧
      protLegPV opsR Q Z teff tmat rec n n ≤ (1 - rec) * (Z teff * (Q teff - Q tmat)) := by
  have hn' : (0 : ℝ) < n := Nat.cast_pos.mpr hn
  have hdt : 0 < (tmat - teff) / (n : ℝ) := div_pos (by linarith) hn'
  obtain ⟨b0, b1⟩ := protLoop_bounds Q Z _ lo hdt hQpos hQanti hZpos hZanti n teff 0 hlo
  have et : teff + (n : ℝ) * ((tmat - teff) / (n : ℝ)) = tmat := by field_simp; ring
  rw [et, zero_add] at b1
  simp only [protLegPV]
  have h1 : 0 ≤ 1 - rec := by linarith
  constructor
  · exact mul_nonneg b0 h1
  · rw [mul_comm (1 - rec)]
    exact mul_le_mul_of_nonneg_right b1 h1

/-- **protLeg_le_lgd_times_default_prob** — if moreover `Z(t_eff) ≤ 1` and `Q(t_eff) ≤ 1` and `0 ≤ R`, the
protection leg per unit notional is at most the loss given default times the default probability to maturity:
`protection PV ≤ (1 − R)·(1 − Q(T))`. -/
theorem protLeg_le_lgd_times_default_prob (Q Z : ℝ → ℝ) (teff tmat rec lo : ℝ) (n : ℕ) (hn : 0 < n)
    (hlo : lo ≤ teff) (hlt : teff < tmat) (hrec : rec ≤ 1)
    (hQpos : ∀ s, lo ≤ s → 0 < Q s) (hQanti : ∀ s u, lo ≤ s → s ≤ u → Q u ≤ Q s)
    (hZpos : ∀ s, lo ≤ s → 0 < Z s) (hZanti : ∀ s u, lo ≤ s → s ≤ u → Z u ≤ Z s)
    (hZ1 : Z teff ≤ 1) (hQ1 : Q teff ≤ 1) :
    protLegPV opsR Q Z teff tmat rec n n ≤ (1 - rec) * (1 - Q tmat) := by
  obtain ⟨_, b1⟩ := protLeg_bounds Q Z teff tmat rec lo n hn hlo hlt hrec hQpos hQanti hZpos hZanti
  have h1 : 0 ≤ 1 - rec := by linarith
  have hd : 0 ≤ Q teff - Q tmat := by
    have := hQanti teff tmat hlo hlt.le; linarith
  have : Z teff * (Q teff - Q tmat) ≤ 1 * (1 - Q tmat) := by
    calc Z teff * (Q teff - Q tmat) ≤ 1 * (Q teff - Q tmat) := mul_le_mul_of_nonneg_right hZ1 hd
      _ ≤ 1 * (1 - Q tmat) := by linarith
  calc protLegPV opsR Q Z teff tmat rec n n ≤ (1 - rec) * (Z teff * (Q teff - Q tmat)) := b1
    _ ≤ (1 - rec) * (1 * (1 - Q tmat)) := mul_le_mul_of_nonneg_left this h1
    _ = (1 - rec) * (1 - Q tmat) := by ring

/-! ### flat hazard and flat rate: the coded sum telescopes exactly -/

/-- the increment on flat curves -/
theorem protStep_flat (h r dt t : ℝ) (hdt : dt ≠ 0) :
    protStep dt (flatSurvival h t) (flatDiscount r t) (flatSurvival h (t + dt)) (flatDiscount r (t + dt))
      = h * (Real.exp (-(h + r) * t) - Real.exp (-(h + r) * (t + dt))) / (|h + r| + 1e-8) := by
  unfold flatSurvival flatDiscount
  rw [protStep_eq _ _ _ _ _ hdt (Real.exp_pos _) (Real.exp_pos _) (Real.exp_pos _) (Real.exp_pos _)]
  rw [← Real.exp_sub, ← Real.exp_sub, Real.log_exp, Real.log_exp, ← Real.exp_add, ← Real.exp_add]
  have e1 : -(-h * (t + dt) - -h * t) / dt = h := by field_simp; ring
  have e2 : -(-r * (t + dt) - -r * t) / dt = r := by field_simp; ring
  rw [e1, e2]
  congr 2
  · congr 1 <;> ring_nf

/-- loop invariant on flat curves: after `k` steps from `t` the accumulated sum is the exact integral over
`[t, t + k·dt]` divided by `(|h + r| + 1e-8)/(h + r)`. -/
theorem protLoop_flat (h r dt : ℝ) (hdt : dt ≠ 0) (k : ℕ) (t acc : ℝ) :
    protLoop opsR (flatSurvival h) (flatDiscount r) dt k t (flatSurvival h t) (flatDiscount r t) acc
      = acc + h * (Real.exp (-(h + r) * t) - Real.exp (-(h + r) * (t + k * dt))) / (|h + r| + 1e-8) := by
  induction k generalizing t acc with
  | zero => simp [protLoop]
  | succ k ih =>
    rw [protLoop_succ, ih, protStep_flat h r dt t hdt]
    have et : t + dt + (k : ℝ) * dt = t + ((k + 1 : ℕ) : ℝ) * dt := by push_cast; ring
    rw [et]
    ring

/-- **protLeg_flat_closed_form** — flat hazard `h`, flat rate `r`, ANY number of steps `n ≥ 1`:
the coded protection leg equals `(1 − R)·h·(e^{-(h+r) t_eff} − e^{-(h+r) T})/(|h + r| + 1e-8)` exactly. -/
theorem protLeg_flat_closed_form (h r teff tmat rec : ℝ) (n : ℕ) (hn : 0 < n) (hne : teff ≠ tmat) :
    protLegPV opsR (flatSurvival h) (flatDiscount r) teff tmat rec n n
      = (1 - rec) * (h * (Real.exp (-(h + r) * teff) - Real.exp (-(h + r) * tmat)) / (|h + r| + 1e-8)) := by
  have hn' : (n : ℝ) ≠ 0 := Nat.cast_ne_zero.mpr hn.ne'
  have hdt : (tmat - teff) / (n : ℝ) ≠ 0 := div_ne_zero (sub_ne_zero.mpr (Ne.symm hne)) hn'
  simp only [protLegPV]
  rw [protLoop_flat h r _ hdt n teff 0]
  have et : teff + (n : ℝ) * ((tmat - teff) / (n : ℝ)) = tmat := by field_simp; ring
  rw [et]
  ring

/-- **protLeg_flat_vs_spec** — against the closed-form integral of the specification: for `h + r > 0` the coded
leg is the integral times `(h+r)/(h+r+1e-8)`; hence (for `h ≥ 0`, `R ≤ 1`, `t_eff ≤ T`) it never exceeds the
integral and falls short of it by at most the fraction `1e-8/(h+r)`. -/
theorem protLeg_flat_vs_spec (h r teff tmat rec : ℝ) (n : ℕ) (hn : 0 < n) (hne : teff ≠ tmat)
    (ha : 0 < h + r) :
    protLegPV opsR (flatSurvival h) (flatDiscount r) teff tmat rec n n
      = flatProtLeg h r rec teff tmat * ((h + r) / (h + r + 1e-8)) ∧
    (0 ≤ h → rec ≤ 1 → teff ≤ tmat →
      protLegPV opsR (flatSurvival h) (flatDiscount r) teff tmat rec n n ≤ flatProtLeg h r rec teff tmat ∧
      flatProtLeg h r rec teff tmat - protLegPV opsR (flatSurvival h) (flatDiscount r) teff tmat rec n n
        ≤ 1e-8 / (h + r) * flatProtLeg h r rec teff tmat) := by
  have hs : (0 : ℝ) < 1e-8 := by norm_num
  have hden : 0 < h + r + 1e-8 := by linarith
  have e : protLegPV opsR (flatSurvival h) (flatDiscount r) teff tmat rec n n
      = flatProtLeg h r rec teff tmat * ((h + r) / (h + r + 1e-8)) := by
    rw [protLeg_flat_closed_form h r teff tmat rec n hn hne, abs_of_pos ha]
    unfold flatProtLeg
    field_simp
  refine ⟨e, fun hh hrec hle => ?_⟩
  have hspec : 0 ≤ flatProtLeg h r rec teff tmat := by
    unfold flatProtLeg
    have : Real.exp (-(h + r) * tmat) ≤ Real.exp (-(h + r) * teff) := by
      apply Real.exp_le_exp.mpr; nlinarith
    exact mul_nonneg (mul_nonneg (by linarith) (div_nonneg hh ha.le)) (by linarith)
  have hfrac : (h + r) / (h + r + 1e-8) ≤ 1 := (div_le_one hden).mpr (by linarith)
  constructor
  · rw [e]
    calc flatProtLeg h r rec teff tmat * ((h + r) / (h + r + 1e-8))
        ≤ flatProtLeg h r rec teff tmat * 1 := mul_le_mul_of_nonneg_left hfrac hspec
      _ = flatProtLeg h r rec teff tmat := mul_one _
  · rw [e]
    have : 1 - (h + r) / (h + r + 1e-8) ≤ 1e-8 / (h + r) := by
      rw [show 1 - (h + r) / (h + r + 1e-8) = 1e-8 / (h + r + 1e-8) by field_simp; ring]
      exact div_le_div_of_nonneg_left hs.le ha (by linarith)
    nlinarith

/-- **protLeg_flat_mono_hazard** — spot-starting protection (`t_eff = 0`), non-negative rate, recovery ≤ 1:
the coded protection leg is non-decreasing in the flat hazard rate, for any step count. -/
theorem protLeg_flat_mono_hazard (h1 h2 r tmat rec : ℝ) (n : ℕ) (hn : 0 < n) (hT : 0 < tmat) (hr : 0 ≤ r)
    (hh1 : 0 ≤ h1) (hh : h1 ≤ h2) (hrec : rec ≤ 1) :
    protLegPV opsR (flatSurvival h1) (flatDiscount r) 0 tmat rec n n
      ≤ protLegPV opsR (flatSurvival h2) (flatDiscount r) 0 tmat rec n n := by
  rw [protLeg_flat_closed_form h1 r 0 tmat rec n hn hT.ne, protLeg_flat_closed_form h2 r 0 tmat rec n hn hT.ne]
  have hs : (0 : ℝ) < 1e-8 := by norm_num
  have hh2 : 0 ≤ h2 := le_trans hh1 hh
  rw [abs_of_nonneg (by linarith : 0 ≤ h1 + r), abs_of_nonneg (by linarith : 0 ≤ h2 + r)]
  simp only [mul_zero, Real.exp_zero]
  have d1 : 0 < h1 + r + 1e-8 := by linarith
  have d2 : 0 < h2 + r + 1e-8 := by linarith
  have f1 : h1 / (h1 + r + 1e-8) ≤ h2 / (h2 + r + 1e-8) := by
    rw [div_le_div_iff₀ d1 d2]; nlinarith
  have g1 : 1 - Real.exp (-(h1 + r) * tmat) ≤ 1 - Real.exp (-(h2 + r) * tmat) := by
    have : Real.exp (-(h2 + r) * tmat) ≤ Real.exp (-(h1 + r) * tmat) := by
      apply Real.exp_le_exp.mpr; nlinarith
    linarith
  have g0 : 0 ≤ 1 - Real.exp (-(h1 + r) * tmat) := by
    have : Real.exp (-(h1 + r) * tmat) ≤ 1 := by
      rw [← Real.exp_zero]; apply Real.exp_le_exp.mpr; nlinarith
    linarith
  have f0 : 0 ≤ h2 / (h2 + r + 1e-8) := div_nonneg hh2 d2.le
  have key : h1 / (h1 + r + 1e-8) * (1 - Real.exp (-(h1 + r) * tmat))
      ≤ h2 / (h2 + r + 1e-8) * (1 - Real.exp (-(h2 + r) * tmat)) :=
    mul_le_mul f1 g1 g0 f0
  have e : ∀ x : ℝ, x * (1 - Real.exp (-(x + r) * tmat)) / (x + r + 1e-8)
      = x / (x + r + 1e-8) * (1 - Real.exp (-(x + r) * tmat)) := fun x => by ring
  rw [e h1, e h2]
  exact mul_le_mul_of_nonneg_left key (by linarith)

/-! ### zero hazard, recovery -/

theorem protLoop_zero_hazard (Q Z : ℝ → ℝ) (hQ : ∀ t, Q t = 1) (dt : ℝ) (k : ℕ) (t z1 acc : ℝ) :
    protLoop opsR Q Z dt k t 1 z1 acc = acc := by
  induction k generalizing t z1 acc with
  | zero => rfl
  | succ k ih =>
    simp only [protLoop, hQ, opsR, div_one, Real.log_one, neg_zero, zero_div, zero_mul, add_zero]
    simpa [opsR] using ih (t + dt) (Z (t + dt)) acc

/-- **protLeg_zero_hazard** — a survival curve identically 1 (zero hazard) gives a zero protection leg. -/
theorem protLeg_zero_hazard (Q Z : ℝ → ℝ) (hQ : ∀ t, Q t = 1) (teff tmat rec nf : ℝ) (n : ℕ) :
    protLegPV opsR Q Z teff tmat rec n nf = 0 := by
  simp only [protLegPV, hQ, protLoop_zero_hazard Q Z hQ, zero_mul]

/-- **protLeg_recovery_linear** — the protection leg is `(1 − R)` times the zero-recovery leg (any operations,
any curves). -/
theorem protLeg_recovery_linear (o : Ops ℝ) (Q Z : ℝ → ℝ) (teff tmat rec nf : ℝ) (n : ℕ) :
    protLegPV o Q Z teff tmat rec n nf = (1 - rec) * protLegPV o Q Z teff tmat 0 n nf := by
  simp only [protLegPV]; ring

/-- **protLeg_affine_in_recovery** -/
theorem protLeg_affine_in_recovery (o : Ops ℝ) (Q Z : ℝ → ℝ) (teff tmat r1 r2 lam nf : ℝ) (n : ℕ) :
    protLegPV o Q Z teff tmat (lam * r1 + (1 - lam) * r2) n nf
      = lam * protLegPV o Q Z teff tmat r1 n nf + (1 - lam) * protLegPV o Q Z teff tmat r2 n nf := by
  simp only [protLegPV]; ring

/-- **parSpread_recovery_linear** — the par spread scales with the loss given default `1 − R` (the annuity does
not depend on the recovery rate). -/
theorem parSpread_recovery_linear (o : Ops ℝ) (Q Z : ℝ → ℝ) (rec : ℝ) (c : Contract ℝ) :
    parSpreadOf o Q Z rec c = (1 - rec) * parSpreadOf o Q Z 0 c := by
  simp only [parSpreadOf, parSpread, protLegPV]; ring

/-! ### non-vacuity -/

example : protLegPV opsR (flatSurvival 0.02) (flatDiscount 0.03) 0 5 0.4 125 (125 : ℕ)
    ≤ protLegPV opsR (flatSurvival 0.05) (flatDiscount 0.03) 0 5 0.4 125 (125 : ℕ) :=
  protLeg_flat_mono_hazard 0.02 0.05 0.03 5 0.4 125 (by norm_num) (by norm_num) (by norm_num) (by norm_num)
    (by norm_num) (by norm_num)

/-- the flat curves meet the hypotheses of `protLeg_bounds` (with `lo = 0`, `h, r ≥ 0`) -/
example (h r : ℝ) (hh : 0 ≤ h) (hr : 0 ≤ r) :
    0 ≤ protLegPV opsR (flatSurvival h) (flatDiscount r) 0 5 0.4 125 (125 : ℕ) ∧
    protLegPV opsR (flatSurvival h) (flatDiscount r) 0 5 0.4 125 (125 : ℕ) ≤ (1 - 0.4) * (1 - flatSurvival h 5) := by
  have anti : ∀ a : ℝ, 0 ≤ a → ∀ s u : ℝ, (0 : ℝ) ≤ s → s ≤ u → Real.exp (-a * u) ≤ Real.exp (-a * s) :=
    fun a ha s u _ hsu => Real.exp_le_exp.mpr (by nlinarith)
  refine ⟨(protLeg_bounds _ _ 0 5 0.4 0 125 (by norm_num) le_rfl (by norm_num) (by norm_num)
      (fun s _ => Real.exp_pos _) (anti h hh) (fun s _ => Real.exp_pos _) (anti r hr)).1,
    protLeg_le_lgd_times_default_prob _ _ 0 5 0.4 0 125 (by norm_num) le_rfl (by norm_num) (by norm_num)
      (fun s _ => Real.exp_pos _) (anti h hh) (fun s _ => Real.exp_pos _) (anti r hr) ?_ ?_⟩
  · simp [flatDiscount]
  · simp [flatSurvival]

end FinVerif.Props.C09c
