/-
  C09d — the risky annuity `_risky_pv01_numba` as coded (accrual-on-default by the flat-hazard integral with the
  `1e-20` regulariser; first coupon with `year_fracs[1]`; `z1` not advanced in the loop), the object-level
  observables `clean_price` / `premium_leg_pv`, and the link between the flat-forward interpolator and the flat
  curves of `Props/C09c.lean`.  Reals; any number of coupons.

  * accrual-on-default term of one period: `≥ 0` and `≤ τ·z1·(q1 − q2)` (one full period's accrual times the
    discounted default probability of the period) for non-increasing positive curves; `= 0` at zero hazard;
  * the full annuity is a sum of non-negative terms; at zero hazard it is the riskless annuity
    `Z(t_1)·yf_1 + Σ Z(t_j)·yf_j`, and the CDS is worth `∓ coupon × notional × (riskless annuity − accrued)`;
  * clean price = 100·(1 − (par spread − coupon)·clean annuity); 100 at the par spread;
    dirty PV = protection − premium leg PV;
  * knots that all lie on `e^{-h t}` interpolate (and extrapolate) to `e^{-h t}` ⇒ the coded protection leg on
    such knot lists IS the closed form of `protLeg_flat_closed_form`.
-/
import FinVerif.Props.C09c
import FinVerif.Props.C02a

namespace FinVerif.Props.C09d
open FinVerif FinVerif.Model.C02 FinVerif.Model.C09 FinVerif.Spec.C09 FinVerif.Props.C09c

/-! ### accrual on default -/

/-- **accrualOnDefault_eq** — shape of the term for positive inputs: with `x = −log(q2/q1)`, `y = −log(z2/z1)`,
`s = x + y`:  `q1 z1 (x/τ)(1 − e^{-s} − s e^{-s}) / |(s/τ)² + 1e-20|`. -/
theorem accrualOnDefault_eq (q1 z1 q2 z2 tau : ℝ) (htau : tau ≠ 0) :
    accrualOnDefault opsR q1 z1 q2 z2 tau
      = q1 * z1 * (-Real.log (q2 / q1) / tau)
          * (1 - Real.exp (-(-Real.log (q2 / q1) + -Real.log (z2 / z1)))
              - (-Real.log (q2 / q1) + -Real.log (z2 / z1)) * Real.exp (-(-Real.log (q2 / q1) + -Real.log (z2 / z1))))
          / |((-Real.log (q2 / q1) + -Real.log (z2 / z1)) / tau) ^ 2 + 1e-20| := by
  simp only [accrualOnDefault, opsR]
  have e1 : -(-Real.log (q2 / q1) / tau + -Real.log (z2 / z1) / tau) * tau
      = -(-Real.log (q2 / q1) + -Real.log (z2 / z1)) := by field_simp
  have e2 : (-Real.log (q2 / q1) / tau + -Real.log (z2 / z1) / tau) * tau
      = -Real.log (q2 / q1) + -Real.log (z2 / z1) := by field_simp
  have e3 : (-Real.log (q2 / q1) / tau + -Real.log (z2 / z1) / tau)
        * (-Real.log (q2 / q1) / tau + -Real.log (z2 / z1) / tau)
      = ((-Real.log (q2 / q1) + -Real.log (z2 / z1)) / tau) ^ 2 := by field_simp
  rw [e1, e2, e3]

/-- **accrualOnDefault_nonneg** — the accrual-on-default term is non-negative whenever survival does not
increase over the period (`0 < q2 ≤ q1`), for ANY discount factors (also negative rates). -/
theorem accrualOnDefault_nonneg (q1 z1 q2 z2 tau : ℝ) (htau : 0 < tau) (hz1 : 0 < z1) (hq2 : 0 < q2)
    (hq : q2 ≤ q1) : 0 ≤ accrualOnDefault opsR q1 z1 q2 z2 tau := by
  have hq1 : 0 < q1 := lt_of_lt_of_le hq2 hq
  rw [accrualOnDefault_eq q1 z1 q2 z2 tau htau.ne']
  have hx : 0 ≤ -Real.log (q2 / q1) :=
    neg_nonneg.mpr (Real.log_nonpos (div_pos hq2 hq1).le ((div_le_one hq1).mpr hq))
  exact div_nonneg (mul_nonneg (mul_nonneg (mul_pos hq1 hz1).le (div_nonneg hx htau.le)) (expTerm_nonneg _))
    (abs_nonneg _)

/-- **accrualOnDefault_le** — non-increasing positive survival AND discount factors over the period:
the term is at most `τ · z1 · (q1 − q2)`, a full period's accrual paid on the period's discounted default
probability. -/
theorem accrualOnDefault_le (q1 z1 q2 z2 tau : ℝ) (htau : 0 < tau) (hq2 : 0 < q2) (hq : q2 ≤ q1)
    (hz2 : 0 < z2) (hz : z2 ≤ z1) : accrualOnDefault opsR q1 z1 q2 z2 tau ≤ tau * z1 * (q1 - q2) := by
  have hq1 : 0 < q1 := lt_of_lt_of_le hq2 hq
  have hz1 : 0 < z1 := lt_of_lt_of_le hz2 hz
  rw [accrualOnDefault_eq q1 z1 q2 z2 tau htau.ne']
  set u := q2 / q1 with hu
  set v := z2 / z1 with hv
  have hu0 : 0 < u := div_pos hq2 hq1
  have hv0 : 0 < v := div_pos hz2 hz1
  have hu1 : u ≤ 1 := (div_le_one hq1).mpr hq
  have hv1 : v ≤ 1 := (div_le_one hz1).mpr hz
  have eq2 : q2 = u * q1 := by rw [hu]; field_simp
  set x := -Real.log u with hxdef
  set y := -Real.log v with hydef
  have hx : 0 ≤ x := neg_nonneg.mpr (Real.log_nonpos hu0.le hu1)
  have hy : 0 ≤ y := neg_nonneg.mpr (Real.log_nonpos hv0.le hv1)
  have hw : Real.exp (-(x + y)) = u * v := by
    rw [hxdef, hydef, show -(-Real.log u + -Real.log v) = Real.log u + Real.log v by ring, Real.exp_add,
      Real.exp_log hu0, Real.exp_log hv0]
  rw [hw]
  -- E ≤ s (1 − w)
  have huv0 : 0 < u * v := mul_pos hu0 hv0
  have hlogw : Real.log (u * v) ≤ u * v - 1 := Real.log_le_sub_one_of_pos huv0
  have hsdef : x + y = -Real.log (u * v) := by rw [Real.log_mul hu0.ne' hv0.ne', hxdef, hydef]; ring
  have hE : 1 - u * v - (x + y) * (u * v) ≤ (x + y) * (1 - u * v) := by
    rw [hsdef]; nlinarith
  have K : x * (1 - u * v) ≤ (1 - u) * (x + y) := key_ineq u v hu0 hu1 hv0 hv1
  have hs : 0 ≤ x + y := add_nonneg hx hy
  have main : x * (1 - u * v - (x + y) * (u * v)) ≤ (1 - u) * (x + y) ^ 2 := by
    have h1 := mul_le_mul_of_nonneg_left hE hx
    have h2 := mul_le_mul_of_nonneg_left K hs
    nlinarith
  have htiny : (0 : ℝ) < 1e-20 := by norm_num
  have hD : 0 < ((x + y) / tau) ^ 2 + 1e-20 := by positivity
  rw [abs_of_pos hD, div_le_iff₀ hD]
  have hB : 0 ≤ tau * z1 * (q1 - q2) := by
    rw [eq2]
    have : 0 ≤ tau * z1 * q1 * (1 - u) := mul_nonneg (mul_pos (mul_pos htau hz1) hq1).le (by linarith)
    nlinarith
  have e1 : q1 * z1 * (x / tau) * (1 - u * v - (x + y) * (u * v))
      = q1 * z1 / tau * (x * (1 - u * v - (x + y) * (u * v))) := by ring
  have e2 : tau * z1 * (q1 - q2) * (((x + y) / tau) ^ 2 + 1e-20)
      = q1 * z1 / tau * ((1 - u) * (x + y) ^ 2) + tau * z1 * (q1 - q2) * 1e-20 := by
    rw [eq2]; field_simp
  rw [e1, e2]
  have hc : 0 ≤ q1 * z1 / tau := div_nonneg (mul_pos hq1 hz1).le htau.le
  have := mul_le_mul_of_nonneg_left main hc
  have : 0 ≤ tau * z1 * (q1 - q2) * 1e-20 := mul_nonneg hB htiny.le
  linarith

/-- **accrualOnDefault_zero_hazard** — no default over the period (`q2 = q1 > 0`) ⇒ no accrual on default. -/
theorem accrualOnDefault_zero_hazard (q z1 z2 tau : ℝ) (hq : 0 < q) :
    accrualOnDefault opsR q z1 q z2 tau = 0 := by
  simp [accrualOnDefault, opsR, div_self hq.ne']

/-! ### the risky annuity -/

/-- the coupon loop only adds non-negative terms (positive curves, non-increasing survival, payment times in
order, positive accrual factors) -/
theorem couponLoop_ge (Q Z : ℝ → ℝ) (lo : ℝ) (hQpos : ∀ s, lo ≤ s → 0 < Q s)
    (hQanti : ∀ s u, lo ≤ s → s ≤ u → Q u ≤ Q s) (hZpos : ∀ s, lo ≤ s → 0 < Z s) (z1 : ℝ) (hz1 : 0 < z1)
    (tail : List (ℝ × ℝ)) (tcur acc : ℝ) (hcur : lo ≤ tcur)
    (hsorted : (tcur :: tail.map Prod.fst).Pairwise (· ≤ ·)) (haf : ∀ p ∈ tail, 0 < p.2) :
    acc ≤ couponLoop opsR Q Z z1 (Q tcur) tail acc := by
  induction tail generalizing tcur acc with
  | nil => simp [couponLoop]
  | cons p rest ih =>
    obtain ⟨t2, af⟩ := p
    have hs := List.pairwise_cons.mp hsorted
    have h2 : tcur ≤ t2 := hs.1 t2 (by simp)
    have hlo2 : lo ≤ t2 := le_trans hcur h2
    have haf0 : 0 < af := haf (t2, af) List.mem_cons_self
    simp only [couponLoop]
    have hstep := ih t2 (acc + Q t2 * Z t2 * af + accrualOnDefault opsR (Q tcur) z1 (Q t2) (Z t2) af) hlo2
      (by simpa using hs.2) (fun p hp => haf p (List.mem_cons_of_mem _ hp))
    have a1 : 0 ≤ Q t2 * Z t2 * af := (mul_pos (mul_pos (hQpos _ hlo2) (hZpos _ hlo2)) haf0).le
    have a2 := accrualOnDefault_nonneg (Q tcur) z1 (Q t2) (Z t2) af haf0 hz1 (hQpos _ hlo2)
      (hQanti tcur t2 hcur h2)
    linarith

/-- **rpv01_full_nonneg** — the full risky annuity is non-negative: it is a sum of non-negative terms (step-in
before the first payment, payments in order, non-negative accrual factors, positive curves, non-increasing
survival).  No assumption on the sign of interest rates. -/
theorem rpv01_full_nonneg (Q Z : ℝ → ℝ) (lo teff acc tncd yf1 : ℝ) (tail : List (ℝ × ℝ))
    (hQpos : ∀ s, lo ≤ s → 0 < Q s) (hQanti : ∀ s u, lo ≤ s → s ≤ u → Q u ≤ Q s)
    (hZpos : ∀ s, lo ≤ s → 0 < Z s) (hlo : lo ≤ teff) (hle : teff ≤ tncd) (hacc : 0 ≤ acc) (hyf : 0 ≤ yf1)
    (hsorted : (tncd :: tail.map Prod.fst).Pairwise (· ≤ ·)) (haf : ∀ p ∈ tail, 0 < p.2) :
    0 ≤ (riskyPV01 opsR Q Z teff acc tncd yf1 tail).1 := by
  have hl1 : lo ≤ tncd := le_trans hlo hle
  have hz1 := hZpos _ hl1
  have hq1 := hQpos _ hl1
  have hd : 0 ≤ Q teff - Q tncd := by have := hQanti teff tncd hlo hle; linarith
  simp only [riskyPV01]
  refine le_trans ?_ (couponLoop_ge Q Z lo hQpos hQanti hZpos (Z tncd) hz1 tail tncd _ hl1 hsorted haf)
  have t1 : 0 ≤ Q tncd * Z tncd * yf1 := mul_nonneg (mul_pos hq1 hz1).le hyf
  have t2 : 0 ≤ Z tncd * (Q teff - Q tncd) * acc := mul_nonneg (mul_nonneg hz1.le hd) hacc
  have t3 : 0 ≤ Z tncd * (Q teff - Q tncd) * yf1 := mul_nonneg (mul_nonneg hz1.le hd) hyf
  simp only [opsR]
  nlinarith

/-- Σ over the coupons after the first of survival × discount × accrual factor -/
noncomputable def survSum (Q Z : ℝ → ℝ) (tail : List (ℝ × ℝ)) : ℝ := (tail.map fun p => Q p.1 * Z p.1 * p.2).sum

/-- Σ over the coupons after the first of  accrual factor × z1 × (default probability of the period) -/
noncomputable def aodCap (Q : ℝ → ℝ) (z1 : ℝ) : ℝ → List (ℝ × ℝ) → ℝ
  | _, [] => 0
  | qprev, (t, af) :: rest => af * z1 * (qprev - Q t) + aodCap Q z1 (Q t) rest

/-- loop invariant: the coupon loop adds the survival-weighted coupons plus accrual-on-default terms that are
each between 0 and a full period's accrual on the period's default probability (discounted with the loop's
`z1`, as coded). -/
theorem couponLoop_bounds (Q Z : ℝ → ℝ) (lo : ℝ) (hQpos : ∀ s, lo ≤ s → 0 < Q s)
    (hQanti : ∀ s u, lo ≤ s → s ≤ u → Q u ≤ Q s) (hZpos : ∀ s, lo ≤ s → 0 < Z s) (z1 : ℝ)
    (tail : List (ℝ × ℝ)) (tcur acc : ℝ) (hcur : lo ≤ tcur)
    (hsorted : (tcur :: tail.map Prod.fst).Pairwise (· ≤ ·)) (haf : ∀ p ∈ tail, 0 < p.2)
    (hz : ∀ p ∈ tail, Z p.1 ≤ z1) :
    acc + survSum Q Z tail ≤ couponLoop opsR Q Z z1 (Q tcur) tail acc ∧
      couponLoop opsR Q Z z1 (Q tcur) tail acc ≤ acc + survSum Q Z tail + aodCap Q z1 (Q tcur) tail := by
  induction tail generalizing tcur acc with
  | nil => simp [couponLoop, survSum, aodCap]
  | cons p rest ih =>
    obtain ⟨t2, af⟩ := p
    have hs := List.pairwise_cons.mp hsorted
    have h2 : tcur ≤ t2 := hs.1 t2 (by simp)
    have hlo2 : lo ≤ t2 := le_trans hcur h2
    have haf0 : 0 < af := haf (t2, af) List.mem_cons_self
    have hz2 : Z t2 ≤ z1 := hz (t2, af) List.mem_cons_self
    simp only [couponLoop]
    obtain ⟨i0, i1⟩ := ih t2 (acc + Q t2 * Z t2 * af + accrualOnDefault opsR (Q tcur) z1 (Q t2) (Z t2) af) hlo2
      (by simpa using hs.2) (fun p hp => haf p (List.mem_cons_of_mem _ hp))
      (fun p hp => hz p (List.mem_cons_of_mem _ hp))
    have a0 := accrualOnDefault_nonneg (Q tcur) z1 (Q t2) (Z t2) af haf0 (lt_of_lt_of_le (hZpos _ hlo2) hz2)
      (hQpos _ hlo2) (hQanti tcur t2 hcur h2)
    have a1 := accrualOnDefault_le (Q tcur) z1 (Q t2) (Z t2) af haf0 (hQpos _ hlo2) (hQanti tcur t2 hcur h2)
      (hZpos _ hlo2) hz2
    have e1 : survSum Q Z ((t2, af) :: rest) = Q t2 * Z t2 * af + survSum Q Z rest := by
      simp [survSum]
    have e2 : aodCap Q z1 (Q tcur) ((t2, af) :: rest) = af * z1 * (Q tcur - Q t2) + aodCap Q z1 (Q t2) rest := rfl
    rw [e1, e2]
    constructor <;> linarith

/-- **rpv01_full_sandwich** — the full risky annuity as coded lies between the survival-weighted coupons and
the same plus, per period, one full accrual on the discounted default probability:
`q1 z1 yf1 + Σ q_j z_j yf_j  ≤  full  ≤  q1 z1 yf1 + z1 (q_eff − q1)(acc + yf1)/2 + Σ q_j z_j yf_j + Σ yf_j z1 (q_{j−1} − q_j)`
(positive curves, non-increasing survival, discount factors after the first payment not above `Z(t_1)`). -/
theorem rpv01_full_sandwich (Q Z : ℝ → ℝ) (lo teff acc tncd yf1 : ℝ) (tail : List (ℝ × ℝ))
    (hQpos : ∀ s, lo ≤ s → 0 < Q s) (hQanti : ∀ s u, lo ≤ s → s ≤ u → Q u ≤ Q s)
    (hZpos : ∀ s, lo ≤ s → 0 < Z s) (hlo : lo ≤ teff) (hle : teff ≤ tncd) (hacc : 0 ≤ acc) (hyf : 0 ≤ yf1)
    (hsorted : (tncd :: tail.map Prod.fst).Pairwise (· ≤ ·)) (haf : ∀ p ∈ tail, 0 < p.2)
    (hz : ∀ p ∈ tail, Z p.1 ≤ Z tncd) :
    Q tncd * Z tncd * yf1 + survSum Q Z tail ≤ (riskyPV01 opsR Q Z teff acc tncd yf1 tail).1 ∧
    (riskyPV01 opsR Q Z teff acc tncd yf1 tail).1
      ≤ Q tncd * Z tncd * yf1 + Z tncd * (Q teff - Q tncd) * ((acc + yf1) / 2) + survSum Q Z tail
        + aodCap Q (Z tncd) (Q tncd) tail := by
  have hl1 : lo ≤ tncd := le_trans hlo hle
  have hz1 := hZpos _ hl1
  have hd : 0 ≤ Q teff - Q tncd := by have := hQanti teff tncd hlo hle; linarith
  simp only [riskyPV01]
  obtain ⟨b0, b1⟩ := couponLoop_bounds Q Z lo hQpos hQanti hZpos (Z tncd) tail tncd
    (Q tncd * Z tncd * yf1 + Z tncd * (Q teff - Q tncd) * acc * 1
      + opsR.half * Z tncd * (Q teff - Q tncd) * (yf1 - acc) * 1) hl1 hsorted haf hz
  have t2 : 0 ≤ Z tncd * (Q teff - Q tncd) * acc := mul_nonneg (mul_nonneg hz1.le hd) hacc
  have t3 : 0 ≤ Z tncd * (Q teff - Q tncd) * yf1 := mul_nonneg (mul_nonneg hz1.le hd) hyf
  have hh : opsR.half = 1 / 2 := by simp only [opsR]; norm_num
  rw [hh] at b0 b1
  rw [hh]
  constructor
  · refine le_trans ?_ b0
    nlinarith
  · refine le_trans b1 ?_
    nlinarith

theorem couponLoop_zero_hazard (Q Z : ℝ → ℝ) (hQ : ∀ t, Q t = 1) (z1 : ℝ) (tail : List (ℝ × ℝ)) (acc : ℝ) :
    couponLoop opsR Q Z z1 1 tail acc = acc + (tail.map fun p => Z p.1 * p.2).sum := by
  induction tail generalizing acc with
  | nil => simp [couponLoop]
  | cons p rest ih =>
    obtain ⟨t2, af⟩ := p
    simp only [couponLoop, hQ, accrualOnDefault_zero_hazard 1 z1 (Z t2) af one_pos, ih, List.map_cons,
      List.sum_cons]
    ring

/-- **rpv01_zero_hazard** — survival identically 1: the full annuity is the riskless annuity
`Z(t_1)·year_fracs[1] + Σ_{j ≥ 1} Z(t_j)·year_fracs[j]` (as coded: the first coupon is weighted with
`year_fracs[1]`), and clean = full − accrued. -/
theorem rpv01_zero_hazard (Q Z : ℝ → ℝ) (hQ : ∀ t, Q t = 1) (teff acc tncd yf1 : ℝ) (tail : List (ℝ × ℝ)) :
    riskyPV01 opsR Q Z teff acc tncd yf1 tail
      = (Z tncd * yf1 + (tail.map fun p => Z p.1 * p.2).sum,
         Z tncd * yf1 + (tail.map fun p => Z p.1 * p.2).sum - acc) := by
  simp only [riskyPV01, hQ, couponLoop_zero_hazard Q Z hQ]
  simp

/-- **value_zero_hazard** — at zero hazard a long-protection CDS is worth minus its riskless premium leg:
clean PV = −coupon × notional × (riskless annuity − accrued); short protection the opposite. -/
theorem value_zero_hazard (Q Z : ℝ → ℝ) (hQ : ∀ t, Q t = 1) (rec : ℝ) (c : Contract ℝ) :
    cleanPV opsR Q Z rec c
      = (if c.long then -1 else 1) * (c.cpn * c.notional
          * (Z c.tncd * c.yf1 + (c.tail.map fun p => Z p.1 * p.2).sum - c.acc)) := by
  simp only [cleanPV, valueOf, rpv01Of, rpv01_zero_hazard Q Z hQ, protLeg_zero_hazard Q Z hQ, cdsValue]
  split <;> ring

/-! ### clean price, premium leg, upfront -/

/-- **cleanPrice_eq** — `CDS.clean_price` = 100 × (1 − (par spread − coupon) × clean annuity). -/
theorem cleanPrice_eq (cpn n prot rc : ℝ) (hn : n ≠ 0) (hr : rc ≠ 0) :
    cleanPrice 100 cpn n prot rc = 100 * (1 - (parSpread n prot rc - cpn) * rc) := by
  simp only [cleanPrice, parSpread]
  field_simp

/-- **cleanPrice_at_par** — a contract struck at the par spread has clean price 100. -/
theorem cleanPrice_at_par (n prot rc : ℝ) (hn : n ≠ 0) (hr : rc ≠ 0) :
    cleanPrice 100 (parSpread n prot rc) n prot rc = 100 := by
  rw [cleanPrice_eq _ n prot rc hn hr]; ring

/-- **cleanPrice_plus_upfront** — clean price + 100 × (long clean PV / notional) = 100: the clean PV is the
upfront the protection buyer pays, in price points. -/
theorem cleanPrice_plus_upfront (cpn n prot rf rc : ℝ) (hn : n ≠ 0) :
    cleanPrice 100 cpn n prot rc + 100 * ((cdsValue true cpn n prot rf rc).2 / n) = 100 := by
  simp only [cleanPrice, cdsValue, ↓reduceIte]
  field_simp
  ring

/-- **dirty_eq_prot_minus_premium** — long-protection dirty PV = protection leg − `premium_leg_pv`. -/
theorem dirty_eq_prot_minus_premium (cpn n prot rf rc : ℝ) :
    (cdsValue true cpn n prot rf rc).1 = prot * n - premiumLegPV cpn n rf := by
  simp only [cdsValue, premiumLegPV, ↓reduceIte]; ring

/-- **clean_pv_spread_annuity** — value of an existing contract from the market par spread:
clean PV = ± (par spread − coupon) × clean annuity × notional (kernel-level form). -/
theorem clean_pv_spread_annuity (long : Bool) (cpn n prot rf rc : ℝ) (hn : n ≠ 0) (hr : rc ≠ 0) :
    (cdsValue long cpn n prot rf rc).2 = (if long then 1 else -1) * (parSpread n prot rc - cpn) * rc * n := by
  simp only [cdsValue, parSpread]
  field_simp

/-! ### knots on an exponential interpolate to the exponential -/

/-- the flat-forward branch through two knots that lie on `e^{-h t}` is `e^{-h t}` -/
theorem kFlat_on_exponential (times dfs : List ℝ) (h : ℝ) (a b : ℕ) (hab : g times b - g times a ≠ 0)
    (ha : g dfs a = Real.exp (-h * g times a)) (hb : g dfs b = Real.exp (-h * g times b)) (t : ℝ) :
    kFlat times dfs a b t = Real.exp (-h * t) := by
  unfold kFlat
  simp only [exp_real, log_real, ha, hb, Real.log_exp]
  congr 1
  field_simp
  ring

/-- **curveFn_flat** — a FLAT_FWD_RATES curve whose knots all lie on `e^{-h t}` (strictly increasing times, at
least two knots) returns `e^{-h t}` at every `t` from the first knot on, extrapolation included. -/
theorem curveFn_flat (bad h : ℝ) (times dfs : List ℝ) (hs : times.Pairwise (· < ·)) (hn : 2 ≤ times.length)
    (hk : ∀ k, k < times.length → g dfs k = Real.exp (-h * g times k)) (t : ℝ) (ht : g times 0 ≤ t) :
    curveFn bad times dfs t = flatSurvival h t := by
  unfold curveFn flatSurvival
  rcases eq_or_lt_of_le ht with h0 | h0
  · rw [← h0, uinterp_first 1 times dfs (by omega), hk 0 (by omega)]
  · obtain ⟨j, j1, j2, _, _, e⟩ := uinterp_flat_shape times dfs hs hn t h0
    rw [e]
    have hlt := g_lt_of_lt times hs (j - 1) j (by omega) j2
    exact kFlat_on_exponential times dfs h (j - 1) j (by linarith) (hk _ (by omega)) (hk _ j2) t

/-- the protection loop reads both curves only on its grid in `[lo, ∞)` -/
theorem protLoop_congr (o : Ops ℝ) (Q Q' Z Z' : ℝ → ℝ) (dt lo : ℝ) (hdt : 0 ≤ dt)
    (hQ : ∀ s, lo ≤ s → Q s = Q' s) (hZ : ∀ s, lo ≤ s → Z s = Z' s) (k : ℕ) (t q1 z1 acc : ℝ) (hlo : lo ≤ t) :
    protLoop o Q Z dt k t q1 z1 acc = protLoop o Q' Z' dt k t q1 z1 acc := by
  induction k generalizing t q1 z1 acc with
  | zero => rfl
  | succ k ih =>
    simp only [protLoop, hQ _ (by linarith : lo ≤ t + dt), hZ _ (by linarith : lo ≤ t + dt)]
    exact ih _ _ _ _ (by linarith)

/-- **protLeg_flat_knots** — survival knots on `e^{-h t}` and Ibor knots on `e^{-r t}` (both lists starting at
time 0, strictly increasing, ≥ 2 knots — e.g. a one-pillar bootstrapped curve, or any bootstrapped curve whose
solved hazards coincide): the coded protection leg through `_uinterpolate` is the closed form, for any number of
steps. -/
theorem protLeg_flat_knots (bad h r : ℝ) (st sv lt ld : List ℝ) (hs : st.Pairwise (· < ·)) (hsn : 2 ≤ st.length)
    (hl : lt.Pairwise (· < ·)) (hln : 2 ≤ lt.length) (hs0 : g st 0 = 0) (hl0 : g lt 0 = 0)
    (hsk : ∀ k, k < st.length → g sv k = Real.exp (-h * g st k))
    (hlk : ∀ k, k < lt.length → g ld k = Real.exp (-r * g lt k))
    (teff tmat rec : ℝ) (n : ℕ) (hn : 0 < n) (h0 : 0 ≤ teff) (hlt : teff < tmat) :
    protLegPV opsR (curveFn bad st sv) (curveFn bad lt ld) teff tmat rec n n
      = (1 - rec) * (h * (Real.exp (-(h + r) * teff) - Real.exp (-(h + r) * tmat)) / (|h + r| + 1e-8)) := by
  rw [← protLeg_flat_closed_form h r teff tmat rec n hn hlt.ne]
  have hQ : ∀ s, 0 ≤ s → curveFn bad st sv s = flatSurvival h s := fun s hs' =>
    curveFn_flat bad h st sv hs hsn hsk s (by rw [hs0]; exact hs')
  have hZ : ∀ s, 0 ≤ s → curveFn bad lt ld s = flatDiscount r s := fun s hs' =>
    curveFn_flat bad r lt ld hl hln hlk s (by rw [hl0]; exact hs')
  have hn' : (0 : ℝ) < n := Nat.cast_pos.mpr hn
  simp only [protLegPV]
  rw [hQ teff h0, hZ teff h0,
    protLoop_congr opsR _ (flatSurvival h) _ (flatDiscount r) _ 0 (div_nonneg (by linarith) hn'.le) hQ hZ n teff _ _ _ h0]

/-! ### non-vacuity -/

example : 0 ≤ accrualOnDefault opsR 0.99 0.97 0.98 0.96 0.25 ∧
    accrualOnDefault opsR 0.99 0.97 0.98 0.96 0.25 ≤ 0.25 * 0.97 * (0.99 - 0.98) :=
  ⟨accrualOnDefault_nonneg _ _ _ _ _ (by norm_num) (by norm_num) (by norm_num) (by norm_num),
   accrualOnDefault_le _ _ _ _ _ (by norm_num) (by norm_num) (by norm_num) (by norm_num) (by norm_num)⟩

example : cleanPrice (100 : ℝ) (parSpread 1e6 0.03 4.5) 1e6 0.03 4.5 = 100 :=
  cleanPrice_at_par 1e6 0.03 4.5 (by norm_num) (by norm_num)

/-- a one-pillar curve `(0,1), (5, e^{-5h})` is a flat-hazard knot list -/
example (h : ℝ) : ∀ k, k < ([0, 5] : List ℝ).length → g [1, Real.exp (-h * 5)] k = Real.exp (-h * g [0, 5] k) := by
  intro k hk
  simp only [List.length_cons, List.length_nil] at hk
  obtain rfl | rfl : k = 0 ∨ k = 1 := by omega
  all_goals simp [g]

end FinVerif.Props.C09d
