/-
  C09e — `CDS.value_fast_approx` (model `Model/C09Fast.lean: valueFastApprox`, tied by op FAST) and
  `CDSCurve.survival_prob` on a list of times (`survivalProbs`, op SURV).  Reals.

  * the curve-free value IS the specification's flat-hazard closed form: protection = notional × `Spec.flatProtLeg`,
    clean annuity = (365/360)·∫ e^{-(h+r)s} ds; so clean PV = ± N·(z/w)·(h(1−R) − coupon·365/360);
  * clean PV = 0 exactly when coupon·365/360 = hazard × (1 − R)  (the property's "par spread ≈ hazard × (1−R)" is
    EXACT for this method); with equal curve and contract recoveries the par coupon is the flat spread × 360/365;
  * full − clean = accrued; long = −short for full and clean PV; linear in the notional; affine in the coupon;
  * the two bumped values add `long_protect × accrued` with an accrued that is already signed: for LONG protection the
    accrued cancels and credit01 / ir01 are clean-PV differences; for SHORT protection they are off by −2 × accrued.
    `FastDv01Antisym` (credit01 long = −credit01 short) is refuted at a witness and proved when nothing has accrued.
  * `survival_prob(list)` = the scalar interpolation applied element by element (same length, slot i = interp(t[i])).
-/
import FinVerif.Model.C09Fast
import FinVerif.Props.C09c

namespace FinVerif.Props.C09e
open FinVerif.Model.C09 FinVerif.Spec.C09 FinVerif.Props.C09c

/-! ### value_fast_approx -/

/-- `z/w` of the code: `∫_{t_eff}^{T} e^{-(h+r)s} ds` -/
noncomputable def riskyIntegral (h r teff tmat : ℝ) : ℝ :=
  (Real.exp (-(r + h) * teff) - Real.exp (-(r + h) * tmat)) / (r + h)

/-- **fastCleanPV_eq** — the repeated block in closed form: `lp · N · (z/w) · (h(1−R) − coupon·365/360)`. -/
theorem fastCleanPV_eq (h r rcon teff tmat cpn n lp : ℝ) :
    fastCleanPV opsR h r rcon teff tmat cpn n lp
      = lp * n * riskyIntegral h r teff tmat * (h * (1 - rcon) - cpn * (365 / 360)) := by
  simp only [fastCleanPV, opsR, riskyIntegral]
  norm_num
  ring

/-- **fast_prot_eq_spec** — the protection leg inside `value_fast_approx` (`h(1−R)(z/w)·N`) is the notional times the
closed-form flat-hazard integral of the specification. -/
theorem fast_prot_eq_spec (h r rcon teff tmat n : ℝ) :
    h * (1 - rcon) * riskyIntegral h r teff tmat * n = n * flatProtLeg h r rcon teff tmat := by
  simp only [riskyIntegral, flatProtLeg]
  rw [show r + h = h + r by ring]
  ring

/-- **fast_clean_eq** — `clean_pv` of `value_fast_approx` = ± N·(z/w)·(h(1−R_contract) − coupon·365/360) with
`h = spread/(1 − R_curve)`. -/
theorem fast_clean_eq (teff tmat r s rcurve rcon cpn n acc : ℝ) (long : Bool) :
    (valueFastApprox opsR teff tmat r s rcurve rcon cpn n acc long).2.1
      = (if long then 1 else -1) * n * riskyIntegral (s / (1 - rcurve)) r teff tmat
          * (s / (1 - rcurve) * (1 - rcon) - cpn * (365 / 360)) := by
  simp only [valueFastApprox, fastCleanPV_eq]

/-- **fast_full_minus_clean_eq_accrued** — dirty − clean = `accrued_interest()` (signed for direction). -/
theorem fast_full_minus_clean_eq_accrued (teff tmat r s rcurve rcon cpn n acc : ℝ) (long : Bool) :
    (valueFastApprox opsR teff tmat r s rcurve rcon cpn n acc long).1
      - (valueFastApprox opsR teff tmat r s rcurve rcon cpn n acc long).2.1
      = accruedInterest long cpn n acc := by
  simp only [valueFastApprox]; ring

/-- **fast_long_eq_neg_short** — full and clean PV of long protection are minus those of short protection. -/
theorem fast_long_eq_neg_short (teff tmat r s rcurve rcon cpn n acc : ℝ) :
    (valueFastApprox opsR teff tmat r s rcurve rcon cpn n acc true).1
        = -(valueFastApprox opsR teff tmat r s rcurve rcon cpn n acc false).1 ∧
    (valueFastApprox opsR teff tmat r s rcurve rcon cpn n acc true).2.1
        = -(valueFastApprox opsR teff tmat r s rcurve rcon cpn n acc false).2.1 := by
  simp only [valueFastApprox, fastCleanPV_eq, accruedInterest]
  constructor <;> simp <;> ring

/-- **fast_linear_in_notional** — all four outputs scale with the notional. -/
theorem fast_linear_in_notional (teff tmat r s rcurve rcon cpn n k acc : ℝ) (long : Bool) :
    valueFastApprox opsR teff tmat r s rcurve rcon cpn (k * n) acc long
      = (k * (valueFastApprox opsR teff tmat r s rcurve rcon cpn n acc long).1,
         k * (valueFastApprox opsR teff tmat r s rcurve rcon cpn n acc long).2.1,
         k * (valueFastApprox opsR teff tmat r s rcurve rcon cpn n acc long).2.2.1,
         k * (valueFastApprox opsR teff tmat r s rcurve rcon cpn n acc long).2.2.2) := by
  simp only [valueFastApprox, fastCleanPV_eq, accruedInterest]
  cases long <;> simp <;> refine ⟨?_, ?_, ?_, ?_⟩ <;> ring

/-- **fast_clean_affine_in_coupon** — the clean PV is affine in the running coupon. -/
theorem fast_clean_affine_in_coupon (teff tmat r s rcurve rcon c1 c2 lam n acc : ℝ) (long : Bool) :
    (valueFastApprox opsR teff tmat r s rcurve rcon (lam * c1 + (1 - lam) * c2) n acc long).2.1
      = lam * (valueFastApprox opsR teff tmat r s rcurve rcon c1 n acc long).2.1
        + (1 - lam) * (valueFastApprox opsR teff tmat r s rcurve rcon c2 n acc long).2.1 := by
  simp only [fast_clean_eq]; ring

/-- **fast_par_coupon** — non-degenerate case (`N ≠ 0`, `z/w ≠ 0`): the clean PV vanishes exactly when
`coupon × 365/360 = hazard × (1 − R_contract)`, `hazard = spread/(1 − R_curve)`. -/
theorem fast_par_coupon (teff tmat r s rcurve rcon cpn n acc : ℝ) (long : Bool) (hn : n ≠ 0)
    (hz : riskyIntegral (s / (1 - rcurve)) r teff tmat ≠ 0) :
    (valueFastApprox opsR teff tmat r s rcurve rcon cpn n acc long).2.1 = 0
      ↔ cpn * (365 / 360) = s / (1 - rcurve) * (1 - rcon) := by
  rw [fast_clean_eq]
  have hl : (if long then (1 : ℝ) else -1) ≠ 0 := by cases long <;> norm_num
  constructor
  · intro h0
    rcases mul_eq_zero.mp h0 with h1 | h1
    · exact absurd h1 (mul_ne_zero (mul_ne_zero hl hn) hz)
    · linarith
  · intro e; rw [e]; ring

/-- **fast_par_coupon_equal_recoveries** — curve recovery = contract recovery ≠ 1: a contract whose coupon is the flat
curve spread × 360/365 has zero clean PV — the curve-free method returns its input spread up to the day-count factor. -/
theorem fast_par_coupon_equal_recoveries (teff tmat r s rec n acc : ℝ) (long : Bool) (hrec : rec ≠ 1) :
    (valueFastApprox opsR teff tmat r s rec rec (s * (360 / 365)) n acc long).2.1 = 0 := by
  rw [fast_clean_eq]
  have : (1 - rec) ≠ 0 := sub_ne_zero.mpr (Ne.symm hrec)
  have e : s / (1 - rec) * (1 - rec) - s * (360 / 365) * (365 / 360) = 0 := by field_simp; ring
  rw [e, mul_zero]

/-- **fast_riskyIntegral_pos** — `h + r > 0`, `t_eff < T`: the risky integral `z/w` is positive (so `fast_par_coupon`
applies). -/
theorem fast_riskyIntegral_pos (h r teff tmat : ℝ) (hw : 0 < r + h) (hlt : teff < tmat) :
    0 < riskyIntegral h r teff tmat := by
  unfold riskyIntegral
  apply div_pos _ hw
  have : Real.exp (-(r + h) * tmat) < Real.exp (-(r + h) * teff) := Real.exp_lt_exp.mpr (by nlinarith)
  linarith

/-- **fast_credit01_long** — long protection: the accrued cancels, credit01 is the difference of the two clean PVs
(spread bumped by 1bp, hazard from the CONTRACT recovery in the bumped value). -/
theorem fast_credit01_long (teff tmat r s rcurve rcon cpn n acc : ℝ) :
    (valueFastApprox opsR teff tmat r s rcurve rcon cpn n acc true).2.2.1
      = fastCleanPV opsR ((s + 0.0001) / (1 - rcon)) r rcon teff tmat cpn n 1
        - fastCleanPV opsR (s / (1 - rcurve)) r rcon teff tmat cpn n 1 := by
  simp only [valueFastApprox, accruedInterest]; simp

/-- **fast_credit01_short** — short protection, as coded: credit01 = (difference of the clean PVs) − 2 × accrued,
accrued = `acc · N · coupon`; the same offset enters ir01. -/
theorem fast_credit01_short (teff tmat r s rcurve rcon cpn n acc : ℝ) :
    (valueFastApprox opsR teff tmat r s rcurve rcon cpn n acc false).2.2.1
        = fastCleanPV opsR ((s + 0.0001) / (1 - rcon)) r rcon teff tmat cpn n (-1)
          - fastCleanPV opsR (s / (1 - rcurve)) r rcon teff tmat cpn n (-1) - 2 * (acc * n * cpn) ∧
    (valueFastApprox opsR teff tmat r s rcurve rcon cpn n acc false).2.2.2
        = fastCleanPV opsR (s / (1 - rcon)) (r + 0.0001) rcon teff tmat cpn n (-1)
          - fastCleanPV opsR (s / (1 - rcurve)) r rcon teff tmat cpn n (-1) - 2 * (acc * n * cpn) := by
  simp only [valueFastApprox, accruedInterest]
  constructor <;> simp <;> ring

/-- the full statement: the spread sensitivity of long protection is minus that of short protection -/
def FastDv01Antisym : Prop :=
  ∀ teff tmat r s rcurve rcon cpn n acc : ℝ,
    (valueFastApprox opsR teff tmat r s rcurve rcon cpn n acc true).2.2.1
      = -(valueFastApprox opsR teff tmat r s rcurve rcon cpn n acc false).2.2.1

/-- **fast_credit01_long_plus_short** — as coded, credit01(long) + credit01(short) = −2 × accrued (and the same for
ir01), for all inputs. -/
theorem fast_credit01_long_plus_short (teff tmat r s rcurve rcon cpn n acc : ℝ) :
    (valueFastApprox opsR teff tmat r s rcurve rcon cpn n acc true).2.2.1
        + (valueFastApprox opsR teff tmat r s rcurve rcon cpn n acc false).2.2.1 = -2 * (acc * n * cpn) ∧
    (valueFastApprox opsR teff tmat r s rcurve rcon cpn n acc true).2.2.2
        + (valueFastApprox opsR teff tmat r s rcurve rcon cpn n acc false).2.2.2 = -2 * (acc * n * cpn) := by
  simp only [valueFastApprox, fastCleanPV_eq, accruedInterest]
  constructor <;> simp <;> ring

/-- **fast_dv01_antisym_fails** — the full statement is FALSE for the code as written: any contract with a non-zero
accrued (here accrual fraction 0.1, notional 1, coupon 1) breaks it. -/
theorem fast_dv01_antisym_fails : ¬ FastDv01Antisym := by
  intro H
  have h1 := H 0 1 0 0 0 0 1 1 0.1
  have h2 := (fast_credit01_long_plus_short 0 1 0 0 0 0 1 1 0.1).1
  rw [h1] at h2
  norm_num at h2

/-- **fast_dv01_antisym_partial** — with nothing accrued (step-in on a coupon date) long = −short for credit01 and ir01. -/
theorem fast_dv01_antisym_partial (teff tmat r s rcurve rcon cpn n : ℝ) :
    (valueFastApprox opsR teff tmat r s rcurve rcon cpn n 0 true).2.2.1
        = -(valueFastApprox opsR teff tmat r s rcurve rcon cpn n 0 false).2.2.1 ∧
    (valueFastApprox opsR teff tmat r s rcurve rcon cpn n 0 true).2.2.2
        = -(valueFastApprox opsR teff tmat r s rcurve rcon cpn n 0 false).2.2.2 := by
  obtain ⟨a, b⟩ := fast_credit01_long_plus_short teff tmat r s rcurve rcon cpn n 0
  constructor <;> linarith

/-! ### survival_prob on a list of times -/

theorem survLoop_size {α : Type} (interp : α → α) (t : Array α) (fuel i : ℕ) (qs : Array α) :
    (survLoop interp t fuel i qs).size = qs.size := by
  induction fuel generalizing i qs with
  | zero => rfl
  | succ f ih =>
    simp only [survLoop]
    split
    · rw [ih]; simp
    · rfl

/-- loop invariant: slots below `i` are never rewritten; slots `i ≤ j < i + fuel` hold `interp t[j]` afterwards -/
theorem survLoop_get {α : Type} (interp : α → α) (t : Array α) (fuel i : ℕ) (qs : Array α) (hs : qs.size = t.size)
    (j : ℕ) (hj : j < t.size) :
    (survLoop interp t fuel i qs)[j]'(by rw [survLoop_size, hs]; exact hj)
      = if i ≤ j ∧ j < i + fuel then interp t[j] else qs[j]'(by rw [hs]; exact hj) := by
  induction fuel generalizing i qs with
  | zero =>
    simp only [survLoop]
    rw [if_neg (by omega)]
  | succ f ih =>
    simp only [survLoop]
    split
    · rename_i hi
      rw [ih (i + 1) _ (by simp [hs])]
      by_cases h1 : i + 1 ≤ j ∧ j < i + 1 + f
      · rw [if_pos h1, if_pos (by omega)]
      · rw [if_neg h1]
        by_cases h2 : j = i
        · subst h2
          rw [if_pos (by omega)]
          simp
        · rw [if_neg (by omega)]
          rw [Array.getElem_setIfInBounds]
          rw [if_neg (fun e => h2 e.symm)]
    · rename_i hi
      rw [if_neg (by omega)]

/-- **survivalProbs_size** — `survival_prob(list)` returns one number per input time. -/
theorem survivalProbs_size (interp : ℝ → ℝ) (t : Array ℝ) : (survivalProbs interp t).size = t.size := by
  simp [survivalProbs, survLoop_size]

/-- **survivalProbs_get** — slot `j` of `survival_prob(list)` is the scalar `survival_prob(t[j])`. -/
theorem survivalProbs_get (interp : ℝ → ℝ) (t : Array ℝ) (j : ℕ) (hj : j < t.size) :
    (survivalProbs interp t)[j]'(by rw [survivalProbs_size]; exact hj) = interp t[j] := by
  unfold survivalProbs
  rw [survLoop_get interp t t.size 0 _ (by simp) j hj, if_pos (by omega)]

/-- **survivalProbs_eq_map** — the vectorised accessor is the element-wise map of the scalar one. -/
theorem survivalProbs_eq_map (interp : ℝ → ℝ) (t : Array ℝ) : survivalProbs interp t = t.map interp := by
  apply Array.ext
  · rw [survivalProbs_size, Array.size_map]
  · intro j h1 h2
    rw [survivalProbs_get interp t j (by simpa using h2)]
    simp

/-! ### non-vacuity -/

example : (valueFastApprox opsR 0 5 0.03 0.01 0.4 0.4 (0.01 * (360 / 365)) 1e6 0.1 true).2.1 = 0 :=
  fast_par_coupon_equal_recoveries 0 5 0.03 0.01 0.4 1e6 0.1 true (by norm_num)

example : 0 < riskyIntegral (0.01 / (1 - 0.4)) 0.03 0 5 :=
  fast_riskyIntegral_pos _ _ _ _ (by norm_num) (by norm_num)

example : survivalProbs (fun x : ℝ => 2 * x) #[1, 2, 3] = #[1, 2, 3].map (fun x : ℝ => 2 * x) :=
  survivalProbs_eq_map _ _

end FinVerif.Props.C09e
