/-
  C09f — the risky annuity `_risky_pv01_numba` as coded, split EXACTLY into
      first-coupon block  +  Σ survival-weighted coupons  +  Σ accrual-on-default terms,
  monotonicity in a flat hazard of everything but the accrual-on-default sum, and the half-period bound for the
  accrual-on-default term.  Reals; any number of coupons.

  * `rpv01_full_decomp` — full annuity = `firstCoupon + survSum + aodSum` for ANY curves;
    `firstCoupon = Z(t_1)·(Q(t_1)(yf_1 − acc)/2 + Q(t_eff)(yf_1 + acc)/2)` is what the three special-case statements of
    the first coupon add up to;
  * flat hazard `Q = e^{-ht}`: `firstCoupon` and `survSum` are non-increasing in `h` (strictly, under mild conditions)
    for payment times ≥ 0, non-negative accrual factors and discount factors, `0 ≤ acc ≤ yf_1`;
    ⇒ `annuityNoAoD_flat_antitone`, and with `protLeg_flat_mono_hazard`: the long-protection clean PV built from the
    coded protection leg and the annuity WITHOUT its accrual-on-default sum is non-decreasing in the hazard
    (`cleanPV_flat_mono_hazard_partial`).  The full statement `AnnuityFlatAntitone` (with the accrual-on-default sum)
    is kept visible; `Props/C09h.lean` proves it under the per-period hypothesis `h·Δ_j − log(Z(t_j)/Z(t_1)) ≤ 1`
    (`rpv01_flat_antitone_partial`): each accrual-on-default term rises from 0 at h = 0, and with the loop's stale `z1`
    the sum `q2 z2 τ + AoD` of one period is decreasing only while `e^{s}` ≤ `1 + s + s²`, `s = h12 τ − log(z2/z1)` (s ≲ 1.79);
  * `expTerm_le_half_sq` (`1 − e^{-s} − s e^{-s} ≤ s²/2`, s ≥ 0) ⇒ the accrual-on-default term of one period is at most
    HALF a period's accrual on `q1·(−log(q2/q1))`, hence at most `½·τ·z1·(q1 − q2)·(q1/q2)`: the half-period rule up to
    the factor `q1/q2 = e^{h12 τ}` = 1 + O(hτ) (`accrualOnDefault_le_half`); annuity upper bound `rpv01_full_upper_half`.
-/
import FinVerif.Props.C09d
import Mathlib.Analysis.Calculus.Deriv.MeanValue
import Mathlib.Analysis.SpecialFunctions.ExpDeriv
import Mathlib.Analysis.Calculus.Deriv.Mul
import Mathlib.Analysis.Calculus.Deriv.Pow

namespace FinVerif.Props.C09f
open FinVerif FinVerif.Model.C09 FinVerif.Spec.C09 FinVerif.Props.C09c FinVerif.Props.C09d

/-! ### exact decomposition of the annuity -/

/-- Σ over the coupons after the first of the accrual-on-default terms, as the loop forms them (`q1` advances, `z1`
is the first coupon's discount factor throughout) -/
noncomputable def aodSum (Q Z : ℝ → ℝ) (z1 : ℝ) : ℝ → List (ℝ × ℝ) → ℝ
  | _, [] => 0
  | qprev, (t, af) :: rest => accrualOnDefault opsR qprev z1 (Q t) (Z t) af + aodSum Q Z z1 (Q t) rest

/-- what the three first-coupon statements of `_risky_pv01_numba` add up to -/
noncomputable def firstCoupon (Q Z : ℝ → ℝ) (teff acc tncd yf1 : ℝ) : ℝ :=
  Z tncd * (Q tncd * ((yf1 - acc) / 2) + Q teff * ((yf1 + acc) / 2))

/-- **couponLoop_decomp** — loop invariant: the coupon loop adds exactly the survival-weighted coupons and the
accrual-on-default terms. -/
theorem couponLoop_decomp (Q Z : ℝ → ℝ) (z1 q1 : ℝ) (tail : List (ℝ × ℝ)) (acc : ℝ) :
    couponLoop opsR Q Z z1 q1 tail acc = acc + survSum Q Z tail + aodSum Q Z z1 q1 tail := by
  induction tail generalizing q1 acc with
  | nil => simp [couponLoop, survSum, aodSum]
  | cons p rest ih =>
    obtain ⟨t2, af⟩ := p
    have e : survSum Q Z ((t2, af) :: rest) = Q t2 * Z t2 * af + survSum Q Z rest := by simp [survSum]
    simp only [couponLoop, ih, aodSum, e]
    ring

/-- **rpv01_full_decomp** — for any curves: full annuity = first-coupon block + survival-weighted coupons +
accrual-on-default sum. -/
theorem rpv01_full_decomp (Q Z : ℝ → ℝ) (teff acc tncd yf1 : ℝ) (tail : List (ℝ × ℝ)) :
    (riskyPV01 opsR Q Z teff acc tncd yf1 tail).1
      = firstCoupon Q Z teff acc tncd yf1 + survSum Q Z tail + aodSum Q Z (Z tncd) (Q tncd) tail := by
  have hh : opsR.half = 1 / 2 := by simp only [opsR]; norm_num
  simp only [riskyPV01, couponLoop_decomp, firstCoupon, hh]
  ring

/-- the annuity without its accrual-on-default sum -/
noncomputable def annuityNoAoD (Q Z : ℝ → ℝ) (teff acc tncd yf1 : ℝ) (tail : List (ℝ × ℝ)) : ℝ :=
  firstCoupon Q Z teff acc tncd yf1 + survSum Q Z tail

/-- **rpv01_full_eq_noAoD_plus_aod** -/
theorem rpv01_full_eq_noAoD_plus_aod (Q Z : ℝ → ℝ) (teff acc tncd yf1 : ℝ) (tail : List (ℝ × ℝ)) :
    (riskyPV01 opsR Q Z teff acc tncd yf1 tail).1
      = annuityNoAoD Q Z teff acc tncd yf1 tail + aodSum Q Z (Z tncd) (Q tncd) tail := by
  rw [rpv01_full_decomp]; rfl

/-! ### flat hazard: monotonicity of everything but the accrual-on-default sum -/

theorem flatSurvival_antitone_hazard (h1 h2 t : ℝ) (hh : h1 ≤ h2) (ht : 0 ≤ t) :
    flatSurvival h2 t ≤ flatSurvival h1 t := by
  unfold flatSurvival; exact Real.exp_le_exp.mpr (by nlinarith)

theorem flatSurvival_strictAnti_hazard (h1 h2 t : ℝ) (hh : h1 < h2) (ht : 0 < t) :
    flatSurvival h2 t < flatSurvival h1 t := by
  unfold flatSurvival; exact Real.exp_lt_exp.mpr (by nlinarith)

/-- **survSum_flat_antitone** — Σ Q(t_j) Z(t_j) yf_j is non-increasing in the flat hazard (payment times ≥ 0,
non-negative accrual factors and discount factors), for any number of coupons. -/
theorem survSum_flat_antitone (Z : ℝ → ℝ) (h1 h2 : ℝ) (hh : h1 ≤ h2) (tail : List (ℝ × ℝ))
    (hp : ∀ p ∈ tail, 0 ≤ p.1 ∧ 0 ≤ p.2 ∧ 0 ≤ Z p.1) :
    survSum (flatSurvival h2) Z tail ≤ survSum (flatSurvival h1) Z tail := by
  induction tail with
  | nil => simp [survSum]
  | cons p rest ih =>
    obtain ⟨t, af⟩ := p
    have e : ∀ h, survSum (flatSurvival h) Z ((t, af) :: rest)
        = flatSurvival h t * Z t * af + survSum (flatSurvival h) Z rest := fun h => by simp [survSum]
    obtain ⟨p1, p2, p3⟩ := hp (t, af) List.mem_cons_self
    have i := ih (fun p hp' => hp p (List.mem_cons_of_mem _ hp'))
    have a := flatSurvival_antitone_hazard h1 h2 t hh p1
    rw [e, e]
    have : flatSurvival h2 t * Z t * af ≤ flatSurvival h1 t * Z t * af :=
      mul_le_mul_of_nonneg_right (mul_le_mul_of_nonneg_right a p3) p2
    linarith

/-- **firstCoupon_flat_antitone** — the first-coupon block is non-increasing in the flat hazard when
`0 ≤ acc ≤ yf_1`, `t_eff, t_1 ≥ 0`, `Z(t_1) ≥ 0`. -/
theorem firstCoupon_flat_antitone (Z : ℝ → ℝ) (h1 h2 teff acc tncd yf1 : ℝ) (hh : h1 ≤ h2) (ht : 0 ≤ teff)
    (hn : 0 ≤ tncd) (hacc : 0 ≤ acc) (hyf : acc ≤ yf1) (hz : 0 ≤ Z tncd) :
    firstCoupon (flatSurvival h2) Z teff acc tncd yf1 ≤ firstCoupon (flatSurvival h1) Z teff acc tncd yf1 := by
  unfold firstCoupon
  have a := flatSurvival_antitone_hazard h1 h2 tncd hh hn
  have b := flatSurvival_antitone_hazard h1 h2 teff hh ht
  apply mul_le_mul_of_nonneg_left _ hz
  have := mul_le_mul_of_nonneg_right a (by linarith : 0 ≤ (yf1 - acc) / 2)
  have := mul_le_mul_of_nonneg_right b (by linarith : 0 ≤ (yf1 + acc) / 2)
  linarith

/-- **annuityNoAoD_flat_antitone** (= `rpv01_flat_mono_hazard_partial`) — the annuity without the accrual-on-default
sum is non-increasing in the flat hazard, for any number of coupons. -/
theorem annuityNoAoD_flat_antitone (Z : ℝ → ℝ) (h1 h2 teff acc tncd yf1 : ℝ) (tail : List (ℝ × ℝ)) (hh : h1 ≤ h2)
    (ht : 0 ≤ teff) (hn : 0 ≤ tncd) (hacc : 0 ≤ acc) (hyf : acc ≤ yf1) (hz : 0 ≤ Z tncd)
    (hp : ∀ p ∈ tail, 0 ≤ p.1 ∧ 0 ≤ p.2 ∧ 0 ≤ Z p.1) :
    annuityNoAoD (flatSurvival h2) Z teff acc tncd yf1 tail ≤ annuityNoAoD (flatSurvival h1) Z teff acc tncd yf1 tail := by
  unfold annuityNoAoD
  have := firstCoupon_flat_antitone Z h1 h2 teff acc tncd yf1 hh ht hn hacc hyf hz
  have := survSum_flat_antitone Z h1 h2 hh tail hp
  linarith

/-- **annuityNoAoD_flat_strictAnti** — strictly decreasing as soon as the first payment is in the future, discounts
positively and `acc < yf_1`. -/
theorem annuityNoAoD_flat_strictAnti (Z : ℝ → ℝ) (h1 h2 teff acc tncd yf1 : ℝ) (tail : List (ℝ × ℝ)) (hh : h1 < h2)
    (ht : 0 ≤ teff) (hn : 0 < tncd) (hacc : 0 ≤ acc) (hyf : acc < yf1) (hz : 0 < Z tncd)
    (hp : ∀ p ∈ tail, 0 ≤ p.1 ∧ 0 ≤ p.2 ∧ 0 ≤ Z p.1) :
    annuityNoAoD (flatSurvival h2) Z teff acc tncd yf1 tail < annuityNoAoD (flatSurvival h1) Z teff acc tncd yf1 tail := by
  unfold annuityNoAoD firstCoupon
  have a := flatSurvival_strictAnti_hazard h1 h2 tncd hh hn
  have b := flatSurvival_antitone_hazard h1 h2 teff hh.le ht
  have s := survSum_flat_antitone Z h1 h2 hh.le tail hp
  have f1 := mul_lt_mul_of_pos_right a (by linarith : 0 < (yf1 - acc) / 2)
  have f2 := mul_le_mul_of_nonneg_right b (by linarith : 0 ≤ (yf1 + acc) / 2)
  have : Z tncd * (flatSurvival h2 tncd * ((yf1 - acc) / 2) + flatSurvival h2 teff * ((yf1 + acc) / 2))
      < Z tncd * (flatSurvival h1 tncd * ((yf1 - acc) / 2) + flatSurvival h1 teff * ((yf1 + acc) / 2)) :=
    mul_lt_mul_of_pos_left (by linarith) hz
  linarith

/-- the FULL statement (with the accrual-on-default sum, as coded) — kept visible; proved in `C09h` under the extra
per-period hypothesis `PeriodsOK` (`rpv01_flat_antitone_partial`), neither proved nor refuted without it -/
def AnnuityFlatAntitone : Prop :=
  ∀ (Z : ℝ → ℝ) (h1 h2 teff acc tncd yf1 : ℝ) (tail : List (ℝ × ℝ)), 0 ≤ h1 → h1 ≤ h2 → 0 ≤ teff → teff ≤ tncd →
    0 ≤ acc → acc ≤ yf1 → (∀ s u, 0 ≤ s → s ≤ u → Z u ≤ Z s) → (∀ s, 0 ≤ s → 0 < Z s) →
    (tncd :: tail.map Prod.fst).Pairwise (· ≤ ·) → (∀ p ∈ tail, 0 < p.2) →
    (riskyPV01 opsR (flatSurvival h2) Z teff acc tncd yf1 tail).1
      ≤ (riskyPV01 opsR (flatSurvival h1) Z teff acc tncd yf1 tail).1

/-- **cleanPV_mono_of_legs** — long protection, non-negative notional and coupon: a larger protection leg and a smaller
clean annuity give a larger clean PV (kernel-level `CDS.value`). -/
theorem cleanPV_mono_of_legs (cpn n p1 p2 rf1 rf2 rc1 rc2 : ℝ) (hn : 0 ≤ n) (hc : 0 ≤ cpn) (hp : p1 ≤ p2)
    (hr : rc2 ≤ rc1) : (cdsValue true cpn n p1 rf1 rc1).2 ≤ (cdsValue true cpn n p2 rf2 rc2).2 := by
  simp only [cdsValue, ↓reduceIte]
  have a : p1 * n ≤ p2 * n := mul_le_mul_of_nonneg_right hp hn
  have b : cpn * rc2 * n ≤ cpn * rc1 * n := mul_le_mul_of_nonneg_right (mul_le_mul_of_nonneg_left hr hc) hn
  linarith

/-- **cleanPV_flat_mono_hazard_partial** — flat hazard, spot-starting protection, non-negative rates: the long
protection clean PV formed with the CODED protection leg and the annuity without its accrual-on-default sum is
non-decreasing in the hazard (⇒ that objective has at most one sign change).  The statement with the coded annuity is
`C09h.cleanPV_flat_mono_hazard`. -/
theorem cleanPV_flat_mono_hazard_partial (r h1 h2 tmat rec acc tncd yf1 cpn n : ℝ) (tail : List (ℝ × ℝ)) (k : ℕ)
    (hk : 0 < k) (hT : 0 < tmat) (hr : 0 ≤ r) (hh1 : 0 ≤ h1) (hh : h1 ≤ h2) (hrec : rec ≤ 1) (hn : 0 ≤ n)
    (hc : 0 ≤ cpn) (htn : 0 ≤ tncd) (hacc : 0 ≤ acc) (hyf : acc ≤ yf1) (hp : ∀ p ∈ tail, 0 ≤ p.1 ∧ 0 ≤ p.2) :
    (cdsValue true cpn n (protLegPV opsR (flatSurvival h1) (flatDiscount r) 0 tmat rec k k) 0
        (annuityNoAoD (flatSurvival h1) (flatDiscount r) 0 acc tncd yf1 tail - acc)).2
      ≤ (cdsValue true cpn n (protLegPV opsR (flatSurvival h2) (flatDiscount r) 0 tmat rec k k) 0
        (annuityNoAoD (flatSurvival h2) (flatDiscount r) 0 acc tncd yf1 tail - acc)).2 := by
  apply cleanPV_mono_of_legs _ _ _ _ _ _ _ _ hn hc
  · exact protLeg_flat_mono_hazard h1 h2 r tmat rec k hk hT hr hh1 hh hrec
  · have := annuityNoAoD_flat_antitone (flatDiscount r) h1 h2 0 acc tncd yf1 tail hh le_rfl htn hacc hyf
      (Real.exp_pos _).le (fun p hp' => ⟨(hp p hp').1, (hp p hp').2, (Real.exp_pos _).le⟩)
    linarith

/-! ### the half-period bound for accrual on default -/

/-- **expTerm_le_half_sq** — `1 − e^{-s} − s e^{-s} ≤ s²/2` for `s ≥ 0` (the function `s²/2 + e^{-s}(1+s)` has
derivative `s(1 − e^{-s}) ≥ 0`). -/
theorem expTerm_le_half_sq (s : ℝ) (hs : 0 ≤ s) : 1 - Real.exp (-s) - s * Real.exp (-s) ≤ s ^ 2 / 2 := by
  have hd : ∀ x : ℝ, HasDerivAt (fun x : ℝ => x ^ 2 / 2 + Real.exp (-x) * (1 + x)) (x - x * Real.exp (-x)) x := by
    intro x
    have h1 : HasDerivAt (fun x : ℝ => x ^ 2 / 2) x x := by
      have := (hasDerivAt_pow 2 x).div_const 2
      exact this.congr_deriv (by simp)
    have h2 : HasDerivAt (fun x : ℝ => Real.exp (-x)) (-Real.exp (-x)) x := by
      have := (Real.hasDerivAt_exp (-x)).comp x (hasDerivAt_neg x)
      exact this.congr_deriv (by ring)
    have h3 : HasDerivAt (fun x : ℝ => 1 + x) 1 x := by simpa using (hasDerivAt_id x).const_add 1
    have := h1.add (h2.mul h3)
    exact this.congr_deriv (by ring)
  have key : MonotoneOn (fun x : ℝ => x ^ 2 / 2 + Real.exp (-x) * (1 + x)) (Set.Ici 0) := by
    apply monotoneOn_of_deriv_nonneg (convex_Ici 0)
    · exact fun x _ => (hd x).continuousAt.continuousWithinAt
    · exact fun x _ => (hd x).differentiableAt.differentiableWithinAt
    · intro x hx
      rw [interior_Ici] at hx
      rw [(hd x).deriv]
      have hx0 : 0 < x := hx
      have : Real.exp (-x) ≤ 1 := by
        rw [← Real.exp_zero]; exact Real.exp_le_exp.mpr (by linarith)
      nlinarith
  have := key (Set.mem_Ici.mpr le_rfl) (Set.mem_Ici.mpr hs) hs
  simp only [neg_zero, Real.exp_zero] at this
  nlinarith

/-- **accrualOnDefault_le_half_log** — non-increasing positive survival and discount factors over the period:
the accrual-on-default term is at most HALF a period's accrual times `z1 · q1 · (−log(q2/q1))`. -/
theorem accrualOnDefault_le_half_log (q1 z1 q2 z2 tau : ℝ) (htau : 0 < tau) (hq2 : 0 < q2) (hq : q2 ≤ q1)
    (hz2 : 0 < z2) (hz : z2 ≤ z1) :
    accrualOnDefault opsR q1 z1 q2 z2 tau ≤ tau * z1 * (q1 * (-Real.log (q2 / q1))) / 2 := by
  have hq1 : 0 < q1 := lt_of_lt_of_le hq2 hq
  have hz1 : 0 < z1 := lt_of_lt_of_le hz2 hz
  rw [accrualOnDefault_eq q1 z1 q2 z2 tau htau.ne']
  have hu0 : 0 < q2 / q1 := div_pos hq2 hq1
  have hv0 : 0 < z2 / z1 := div_pos hz2 hz1
  set x := -Real.log (q2 / q1) with hxdef
  set y := -Real.log (z2 / z1) with hydef
  have hx : 0 ≤ x := neg_nonneg.mpr (Real.log_nonpos hu0.le ((div_le_one hq1).mpr hq))
  have hy : 0 ≤ y := neg_nonneg.mpr (Real.log_nonpos hv0.le ((div_le_one hz1).mpr hz))
  have hs : 0 ≤ x + y := add_nonneg hx hy
  have hE := expTerm_le_half_sq (x + y) hs
  have hD : 0 < ((x + y) / tau) ^ 2 + 1e-20 := by positivity
  rw [abs_of_pos hD, div_le_iff₀ hD]
  have hc : 0 ≤ q1 * z1 * (x / tau) := mul_nonneg (mul_pos hq1 hz1).le (div_nonneg hx htau.le)
  have h1 := mul_le_mul_of_nonneg_left hE hc
  have e2 : tau * z1 * (q1 * x) / 2 * (((x + y) / tau) ^ 2 + 1e-20)
      = q1 * z1 * (x / tau) * ((x + y) ^ 2 / 2) + tau * z1 * (q1 * x) / 2 * 1e-20 := by
    field_simp
  rw [e2]
  have : 0 ≤ tau * z1 * (q1 * x) / 2 * 1e-20 := by positivity
  linarith

/-- **accrualOnDefault_le_half** — the half-period rule in the exact form the coded expression allows:
`AoD ≤ ½ · τ · z1 · (q1 − q2) · (q1/q2)`; the last factor is `e^{h12 τ}` = 1 + O(hτ). -/
theorem accrualOnDefault_le_half (q1 z1 q2 z2 tau : ℝ) (htau : 0 < tau) (hq2 : 0 < q2) (hq : q2 ≤ q1)
    (hz2 : 0 < z2) (hz : z2 ≤ z1) :
    accrualOnDefault opsR q1 z1 q2 z2 tau ≤ tau * z1 * (q1 - q2) / 2 * (q1 / q2) := by
  have hq1 : 0 < q1 := lt_of_lt_of_le hq2 hq
  have hz1 : 0 < z1 := lt_of_lt_of_le hz2 hz
  refine le_trans (accrualOnDefault_le_half_log q1 z1 q2 z2 tau htau hq2 hq hz2 hz) ?_
  -- −log(q2/q1) = log(q1/q2) ≤ q1/q2 − 1
  have hl : -Real.log (q2 / q1) ≤ q1 / q2 - 1 := by
    have := Real.log_le_sub_one_of_pos (div_pos hq1 hq2)
    rw [show q2 / q1 = (q1 / q2)⁻¹ by rw [inv_div], Real.log_inv]
    linarith
  have e : tau * z1 * (q1 - q2) / 2 * (q1 / q2) = tau * z1 * (q1 * (q1 / q2 - 1)) / 2 := by
    field_simp
  rw [e]
  have hc : 0 ≤ tau * z1 * q1 / 2 := by positivity
  have := mul_le_mul_of_nonneg_left hl hc
  nlinarith

/-- Σ of the half-period caps, with the loop's `z1` -/
noncomputable def aodHalfCap (Q : ℝ → ℝ) (z1 : ℝ) : ℝ → List (ℝ × ℝ) → ℝ
  | _, [] => 0
  | qprev, (t, af) :: rest => af * z1 * (qprev - Q t) / 2 * (qprev / Q t) + aodHalfCap Q z1 (Q t) rest

/-- **aodSum_bounds** — `0 ≤ Σ AoD ≤ Σ ½ τ_j z1 (q_{j−1} − q_j)(q_{j−1}/q_j)`. -/
theorem aodSum_bounds (Q Z : ℝ → ℝ) (lo : ℝ) (hQpos : ∀ s, lo ≤ s → 0 < Q s)
    (hQanti : ∀ s u, lo ≤ s → s ≤ u → Q u ≤ Q s) (hZpos : ∀ s, lo ≤ s → 0 < Z s) (z1 : ℝ)
    (tail : List (ℝ × ℝ)) (tcur : ℝ) (hcur : lo ≤ tcur)
    (hsorted : (tcur :: tail.map Prod.fst).Pairwise (· ≤ ·)) (haf : ∀ p ∈ tail, 0 < p.2)
    (hz : ∀ p ∈ tail, Z p.1 ≤ z1) :
    0 ≤ aodSum Q Z z1 (Q tcur) tail ∧ aodSum Q Z z1 (Q tcur) tail ≤ aodHalfCap Q z1 (Q tcur) tail := by
  induction tail generalizing tcur with
  | nil => simp [aodSum, aodHalfCap]
  | cons p rest ih =>
    obtain ⟨t2, af⟩ := p
    have hs := List.pairwise_cons.mp hsorted
    have h2 : tcur ≤ t2 := hs.1 t2 (by simp)
    have hlo2 : lo ≤ t2 := le_trans hcur h2
    have haf0 : 0 < af := haf (t2, af) List.mem_cons_self
    have hz2 : Z t2 ≤ z1 := hz (t2, af) List.mem_cons_self
    obtain ⟨i0, i1⟩ := ih t2 hlo2 (by simpa using hs.2) (fun p hp => haf p (List.mem_cons_of_mem _ hp))
      (fun p hp => hz p (List.mem_cons_of_mem _ hp))
    have a0 := accrualOnDefault_nonneg (Q tcur) z1 (Q t2) (Z t2) af haf0 (lt_of_lt_of_le (hZpos _ hlo2) hz2)
      (hQpos _ hlo2) (hQanti tcur t2 hcur h2)
    have a1 := accrualOnDefault_le_half (Q tcur) z1 (Q t2) (Z t2) af haf0 (hQpos _ hlo2) (hQanti tcur t2 hcur h2)
      (hZpos _ hlo2) hz2
    simp only [aodSum, aodHalfCap]
    constructor <;> linarith

/-- **rpv01_full_upper_half** — the full annuity as coded is at most the annuity without accrual on default plus the
half-period caps (sharper than `C09d.rpv01_full_sandwich` by the factor ½·q_{j−1}/q_j per period). -/
theorem rpv01_full_upper_half (Q Z : ℝ → ℝ) (lo teff acc tncd yf1 : ℝ) (tail : List (ℝ × ℝ))
    (hQpos : ∀ s, lo ≤ s → 0 < Q s) (hQanti : ∀ s u, lo ≤ s → s ≤ u → Q u ≤ Q s)
    (hZpos : ∀ s, lo ≤ s → 0 < Z s) (hlo : lo ≤ teff) (hle : teff ≤ tncd)
    (hsorted : (tncd :: tail.map Prod.fst).Pairwise (· ≤ ·)) (haf : ∀ p ∈ tail, 0 < p.2)
    (hz : ∀ p ∈ tail, Z p.1 ≤ Z tncd) :
    annuityNoAoD Q Z teff acc tncd yf1 tail ≤ (riskyPV01 opsR Q Z teff acc tncd yf1 tail).1 ∧
    (riskyPV01 opsR Q Z teff acc tncd yf1 tail).1
      ≤ annuityNoAoD Q Z teff acc tncd yf1 tail + aodHalfCap Q (Z tncd) (Q tncd) tail := by
  obtain ⟨b0, b1⟩ := aodSum_bounds Q Z lo hQpos hQanti hZpos (Z tncd) tail tncd (le_trans hlo hle) hsorted haf hz
  rw [rpv01_full_eq_noAoD_plus_aod]
  constructor <;> linarith

/-! ### the TIGHT half-period bound -/

/-- `x − 2 + (2 + x) e^{-x} ≥ 0` for `x ≥ 0` (its derivative is `1 − e^{-x} − x e^{-x} ≥ 0`) -/
theorem two_sub_le (x : ℝ) (hx : 0 ≤ x) : 0 ≤ x - 2 + (2 + x) * Real.exp (-x) := by
  have hd : ∀ t : ℝ, HasDerivAt (fun t : ℝ => t - 2 + (2 + t) * Real.exp (-t))
      (1 - Real.exp (-t) - t * Real.exp (-t)) t := by
    intro t
    have h2 : HasDerivAt (fun t : ℝ => Real.exp (-t)) (-Real.exp (-t)) t :=
      ((Real.hasDerivAt_exp (-t)).comp t (hasDerivAt_neg t)).congr_deriv (by ring)
    have h3 : HasDerivAt (fun t : ℝ => 2 + t) 1 t := by simpa using (hasDerivAt_id' t).const_add 2
    have h1 : HasDerivAt (fun t : ℝ => t - 2) 1 t := by simpa using (hasDerivAt_id' t).sub_const 2
    exact (h1.add (h3.mul h2)).congr_deriv (by ring)
  have key : MonotoneOn (fun t : ℝ => t - 2 + (2 + t) * Real.exp (-t)) (Set.Ici 0) := by
    apply monotoneOn_of_deriv_nonneg (convex_Ici 0)
    · exact fun t _ => (hd t).continuousAt.continuousWithinAt
    · exact fun t _ => (hd t).differentiableAt.differentiableWithinAt
    · intro t _
      rw [(hd t).deriv]
      exact expTerm_nonneg t
  have := key (Set.mem_Ici.mpr le_rfl) (Set.mem_Ici.mpr hx) hx
  simp only [neg_zero, Real.exp_zero] at this
  linarith

/-- **half_key** — for `0 ≤ x ≤ s`:  `2x·(1 − e^{-s} − s e^{-s}) ≤ (1 − e^{-x})·s²`. -/
theorem half_key (x s : ℝ) (hx : 0 ≤ x) (hxs : x ≤ s) :
    2 * x * (1 - Real.exp (-s) - s * Real.exp (-s)) ≤ (1 - Real.exp (-x)) * s ^ 2 := by
  have hd : ∀ t : ℝ, HasDerivAt
      (fun t : ℝ => (1 - Real.exp (-x)) * t ^ 2 - 2 * x * (1 - Real.exp (-t) - t * Real.exp (-t)))
      (2 * (1 - Real.exp (-x)) * t - 2 * x * (t * Real.exp (-t))) t := by
    intro t
    have h2 : HasDerivAt (fun t : ℝ => Real.exp (-t)) (-Real.exp (-t)) t :=
      ((Real.hasDerivAt_exp (-t)).comp t (hasDerivAt_neg t)).congr_deriv (by ring)
    have hp : HasDerivAt (fun t : ℝ => t ^ 2) (2 * t) t := (hasDerivAt_pow 2 t).congr_deriv (by simp)
    have hE : HasDerivAt (fun t : ℝ => 1 - Real.exp (-t) - t * Real.exp (-t)) (t * Real.exp (-t)) t :=
      (((hasDerivAt_const t (1 : ℝ)).sub h2).sub ((hasDerivAt_id' t).mul h2)).congr_deriv (by ring)
    exact ((hp.const_mul (1 - Real.exp (-x))).sub (hE.const_mul (2 * x))).congr_deriv (by ring)
  have key : MonotoneOn
      (fun t : ℝ => (1 - Real.exp (-x)) * t ^ 2 - 2 * x * (1 - Real.exp (-t) - t * Real.exp (-t))) (Set.Ici x) := by
    apply monotoneOn_of_deriv_nonneg (convex_Ici x)
    · exact fun t _ => (hd t).continuousAt.continuousWithinAt
    · exact fun t _ => (hd t).differentiableAt.differentiableWithinAt
    · intro t ht
      rw [interior_Ici] at ht
      rw [(hd t).deriv]
      have hxt : x < t := ht
      have hab : Real.exp (-t) ≤ Real.exp (-x) := Real.exp_le_exp.mpr (by linarith)
      have hEx := expTerm_nonneg x
      have h1 : 0 ≤ 1 - Real.exp (-x) - x * Real.exp (-t) := by
        have := mul_le_mul_of_nonneg_left hab hx
        linarith
      have := mul_nonneg (by linarith : (0 : ℝ) ≤ 2 * t) h1
      linarith
  have hmono := key (Set.mem_Ici.mpr le_rfl) (Set.mem_Ici.mpr hxs) hxs
  simp only at hmono
  have h0 : 0 ≤ (1 - Real.exp (-x)) * x ^ 2 - 2 * x * (1 - Real.exp (-x) - x * Real.exp (-x)) := by
    have := mul_nonneg hx (two_sub_le x hx)
    nlinarith
  linarith

/-- **accrualOnDefault_le_half_tight** — the half-period rule, exactly: for non-increasing positive survival and
discount factors over the period the coded accrual-on-default term is at most HALF a period's accrual on the period's
default probability discounted with the loop's `z1`:  `AoD ≤ ½ · τ · z1 · (q1 − q2)`. -/
theorem accrualOnDefault_le_half_tight (q1 z1 q2 z2 tau : ℝ) (htau : 0 < tau) (hq2 : 0 < q2) (hq : q2 ≤ q1)
    (hz2 : 0 < z2) (hz : z2 ≤ z1) :
    accrualOnDefault opsR q1 z1 q2 z2 tau ≤ tau * z1 * (q1 - q2) / 2 := by
  have hq1 : 0 < q1 := lt_of_lt_of_le hq2 hq
  have hz1 : 0 < z1 := lt_of_lt_of_le hz2 hz
  rw [accrualOnDefault_eq q1 z1 q2 z2 tau htau.ne']
  have hu0 : 0 < q2 / q1 := div_pos hq2 hq1
  have hv0 : 0 < z2 / z1 := div_pos hz2 hz1
  have hu1 : q2 / q1 ≤ 1 := (div_le_one hq1).mpr hq
  have eq2 : q2 = q2 / q1 * q1 := by field_simp
  set u := q2 / q1 with hu
  set x := -Real.log u with hxdef
  set y := -Real.log (z2 / z1) with hydef
  have hx : 0 ≤ x := neg_nonneg.mpr (Real.log_nonpos hu0.le hu1)
  have hy : 0 ≤ y := neg_nonneg.mpr (Real.log_nonpos hv0.le ((div_le_one hz1).mpr hz))
  have hex : Real.exp (-x) = u := by rw [hxdef, neg_neg, Real.exp_log hu0]
  have hK := half_key x (x + y) hx (by linarith)
  rw [hex] at hK
  have hD : 0 < ((x + y) / tau) ^ 2 + 1e-20 := by positivity
  rw [abs_of_pos hD, div_le_iff₀ hD]
  have hc : 0 ≤ q1 * z1 / (2 * tau) := by positivity
  have h1 := mul_le_mul_of_nonneg_left hK hc
  have e1 : q1 * z1 * (x / tau) * (1 - Real.exp (-(x + y)) - (x + y) * Real.exp (-(x + y)))
      = q1 * z1 / (2 * tau) * (2 * x * (1 - Real.exp (-(x + y)) - (x + y) * Real.exp (-(x + y)))) := by
    field_simp
  have e2 : tau * z1 * (q1 - q2) / 2 * (((x + y) / tau) ^ 2 + 1e-20)
      = q1 * z1 / (2 * tau) * ((1 - u) * (x + y) ^ 2) + tau * z1 * (q1 * (1 - u)) / 2 * 1e-20 := by
    rw [eq2]; field_simp
  rw [e1, e2]
  have : 0 ≤ tau * z1 * (q1 * (1 - u)) / 2 * 1e-20 := by
    have : 0 ≤ 1 - u := by linarith
    positivity
  linarith

/-- Σ of the tight half-period caps, with the loop's `z1` -/
noncomputable def aodHalfTight (Q : ℝ → ℝ) (z1 : ℝ) : ℝ → List (ℝ × ℝ) → ℝ
  | _, [] => 0
  | qprev, (t, af) :: rest => af * z1 * (qprev - Q t) / 2 + aodHalfTight Q z1 (Q t) rest

/-- **aodSum_le_halfTight** — `Σ AoD ≤ Σ ½ τ_j z1 (q_{j−1} − q_j)`: exactly half of `C09d.aodCap`. -/
theorem aodSum_le_halfTight (Q Z : ℝ → ℝ) (lo : ℝ) (hQpos : ∀ s, lo ≤ s → 0 < Q s)
    (hQanti : ∀ s u, lo ≤ s → s ≤ u → Q u ≤ Q s) (hZpos : ∀ s, lo ≤ s → 0 < Z s) (z1 : ℝ)
    (tail : List (ℝ × ℝ)) (tcur : ℝ) (hcur : lo ≤ tcur)
    (hsorted : (tcur :: tail.map Prod.fst).Pairwise (· ≤ ·)) (haf : ∀ p ∈ tail, 0 < p.2)
    (hz : ∀ p ∈ tail, Z p.1 ≤ z1) :
    aodSum Q Z z1 (Q tcur) tail ≤ aodHalfTight Q z1 (Q tcur) tail := by
  induction tail generalizing tcur with
  | nil => simp [aodSum, aodHalfTight]
  | cons p rest ih =>
    obtain ⟨t2, af⟩ := p
    have hs := List.pairwise_cons.mp hsorted
    have h2 : tcur ≤ t2 := hs.1 t2 (by simp)
    have hlo2 : lo ≤ t2 := le_trans hcur h2
    have i1 := ih t2 hlo2 (by simpa using hs.2) (fun p hp => haf p (List.mem_cons_of_mem _ hp))
      (fun p hp => hz p (List.mem_cons_of_mem _ hp))
    have a1 := accrualOnDefault_le_half_tight (Q tcur) z1 (Q t2) (Z t2) af (haf (t2, af) List.mem_cons_self)
      (hQpos _ hlo2) (hQanti tcur t2 hcur h2) (hZpos _ hlo2) (hz (t2, af) List.mem_cons_self)
    simp only [aodSum, aodHalfTight]
    linarith

theorem aodHalfTight_eq_half_cap (Q : ℝ → ℝ) (z1 qprev : ℝ) (tail : List (ℝ × ℝ)) :
    aodHalfTight Q z1 qprev tail = aodCap Q z1 qprev tail / 2 := by
  induction tail generalizing qprev with
  | nil => simp [aodHalfTight, aodCap]
  | cons p rest ih =>
    obtain ⟨t, af⟩ := p
    simp only [aodHalfTight, aodCap, ih]; ring

/-- **rpv01_full_upper_half_tight** — full annuity ≤ first-coupon block + Σ q_j z_j yf_j + ½ Σ yf_j z1 (q_{j−1} − q_j). -/
theorem rpv01_full_upper_half_tight (Q Z : ℝ → ℝ) (lo teff acc tncd yf1 : ℝ) (tail : List (ℝ × ℝ))
    (hQpos : ∀ s, lo ≤ s → 0 < Q s) (hQanti : ∀ s u, lo ≤ s → s ≤ u → Q u ≤ Q s)
    (hZpos : ∀ s, lo ≤ s → 0 < Z s) (hlo : lo ≤ teff) (hle : teff ≤ tncd)
    (hsorted : (tncd :: tail.map Prod.fst).Pairwise (· ≤ ·)) (haf : ∀ p ∈ tail, 0 < p.2)
    (hz : ∀ p ∈ tail, Z p.1 ≤ Z tncd) :
    (riskyPV01 opsR Q Z teff acc tncd yf1 tail).1
      ≤ annuityNoAoD Q Z teff acc tncd yf1 tail + aodCap Q (Z tncd) (Q tncd) tail / 2 := by
  have b := aodSum_le_halfTight Q Z lo hQpos hQanti hZpos (Z tncd) tail tncd (le_trans hlo hle) hsorted haf hz
  rw [aodHalfTight_eq_half_cap] at b
  rw [rpv01_full_eq_noAoD_plus_aod]
  linarith

/-! ### non-vacuity -/

example : accrualOnDefault opsR 0.99 0.97 0.98 0.96 0.25 ≤ 0.25 * 0.97 * (0.99 - 0.98) / 2 :=
  accrualOnDefault_le_half_tight _ _ _ _ _ (by norm_num) (by norm_num) (by norm_num) (by norm_num) (by norm_num)


example : accrualOnDefault opsR 0.99 0.97 0.98 0.96 0.25 ≤ 0.25 * 0.97 * (0.99 - 0.98) / 2 * (0.99 / 0.98) :=
  accrualOnDefault_le_half _ _ _ _ _ (by norm_num) (by norm_num) (by norm_num) (by norm_num) (by norm_num)

example : annuityNoAoD (flatSurvival 0.05) (flatDiscount 0.03) 0 0.1 0.15 0.25 [(0.4, 0.25), (0.65, 0.25)]
    < annuityNoAoD (flatSurvival 0.02) (flatDiscount 0.03) 0 0.1 0.15 0.25 [(0.4, 0.25), (0.65, 0.25)] :=
  annuityNoAoD_flat_strictAnti _ 0.02 0.05 0 0.1 0.15 0.25 _ (by norm_num) le_rfl (by norm_num) (by norm_num)
    (by norm_num) (Real.exp_pos _) (fun p hp => by
      simp only [List.mem_cons, List.not_mem_nil, or_false] at hp
      rcases hp with rfl | rfl <;> exact ⟨by norm_num, by norm_num, (Real.exp_pos _).le⟩)

end FinVerif.Props.C09f
