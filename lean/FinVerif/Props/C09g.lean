/-
  C09g — the root the bootstrap's solver looks for: uniqueness, existence and position relative to the previous knot.
  The function handed to the solver in the pass for contract `c` from state `s` is `C09b.stepObjective … s c`
  (= `cds_curve.f`: write `q` into the last knot, return the clean PV).  With `q_prev` = the previous knot (also the
  solver's start value), the forward hazard of the new segment is `−log(q/q_prev)/(t_mat − t_prev)`; it is
  non-negative exactly when `q ≤ q_prev` (`forward_hazard_nonneg_iff`).

  ASSUMPTION of this file (recorded; NOT proved for the coded legs — `C09f` proves it for the protection leg and for the
  annuity without its accrual-on-default sum under flat hazard): the objective is strictly decreasing in the knot `q`
  (= strictly increasing in the forward hazard) on the stated set.  Given that:

  * `root_unique` / `bootstrap_knot_unique` — at most one root per pass; two solvers that both end on exact roots inside
    the admissible set at every pass build the SAME curve (any number of pillars, induction on the fold);
  * `root_with_nonneg_forward_hazard_iff` — continuity + positivity of the objective at some small knot: a root with a
    non-negative forward hazard (`q ∈ (0, q_prev]`) exists IF AND ONLY IF the clean PV at ZERO forward hazard
    (`q = q_prev`) is ≤ 0;  `no_root_with_nonneg_forward_hazard_iff` — none exists iff that clean PV is > 0: this is the
    known finding C09/inverted-quotes-negative-forward-hazard as a theorem;
  * `knot_le_prev_iff` — whatever exact root the solver ends on: the new knot is ≤ the previous one (curve non-increasing
    at this pillar) iff the clean PV at zero forward hazard is ≤ 0; `knot_above_prev_of_pos` — if it is > 0 the solved
    survival curve INCREASES at this pillar;
  * `bootstrap_nonincreasing_of_signs` — for the whole fold: if at every pass the objective is strictly decreasing on
    (0, ∞), the solver ends on an exact positive root and the clean PV at zero forward hazard is ≤ 0, the solved knots are
    non-increasing (the hypothesis of `C09b.bootstrap_survival_shape`).
-/
import FinVerif.Props.C09b
import FinVerif.Props.C09c
import Mathlib.Topology.Order.IntermediateValue
import Mathlib.Topology.Algebra.Order.Field
import Mathlib.Analysis.SpecialFunctions.Log.Basic

namespace FinVerif.Props.C09g
open FinVerif FinVerif.Model.C02 FinVerif.Model.C09 FinVerif.Props.C09b FinVerif.Props.C09c

/-- **forward_hazard_nonneg_iff** — positive knots, `Δ = t_mat − t_prev > 0`: the flat forward hazard of the new segment
is non-negative iff the new knot does not exceed the previous one. -/
theorem forward_hazard_nonneg_iff (q qprev dt : ℝ) (hq : 0 < q) (hp : 0 < qprev) (hdt : 0 < dt) :
    0 ≤ -Real.log (q / qprev) / dt ↔ q ≤ qprev := by
  rw [le_div_iff₀ hdt, zero_mul, neg_nonneg]
  constructor
  · intro h
    by_contra hlt
    have : 1 < q / qprev := (one_lt_div hp).mpr (not_le.mp hlt)
    linarith [Real.log_pos this]
  · intro h
    exact Real.log_nonpos (div_pos hq hp).le ((div_le_one hp).mpr h)

/-! ### one pass -/

/-- **root_unique** — a strictly decreasing objective has at most one root in the set. -/
theorem root_unique (f : ℝ → ℝ) (S : Set ℝ) (hf : StrictAntiOn f S) (a b : ℝ) (ha : a ∈ S) (hb : b ∈ S)
    (fa : f a = 0) (fb : f b = 0) : a = b :=
  hf.injOn ha hb (fa.trans fb.symm)

/-- **root_with_nonneg_forward_hazard_iff** — objective continuous on `[q_lo, q_prev]`, strictly decreasing in the knot
on `(0, q_prev]`, positive at some `q_lo ∈ (0, q_prev]` (large forward hazard): a root with non-negative forward hazard
exists iff the objective at zero forward hazard is ≤ 0. -/
theorem root_with_nonneg_forward_hazard_iff (f : ℝ → ℝ) (qprev qlo : ℝ) (hlo : 0 < qlo) (hle : qlo ≤ qprev)
    (hcont : ContinuousOn f (Set.Icc qlo qprev)) (hanti : StrictAntiOn f (Set.Ioc 0 qprev)) (hpos : 0 < f qlo) :
    (∃ q ∈ Set.Ioc 0 qprev, f q = 0) ↔ f qprev ≤ 0 := by
  have hp : 0 < qprev := lt_of_lt_of_le hlo hle
  constructor
  · rintro ⟨q, ⟨hq0, hq1⟩, hq⟩
    rcases eq_or_lt_of_le hq1 with rfl | hlt
    · exact hq.le
    · have := hanti ⟨hq0, hq1⟩ ⟨hp, le_rfl⟩ hlt
      linarith
  · intro h0
    have hsub := intermediate_value_Icc' hle hcont
    obtain ⟨q, ⟨hq0, hq1⟩, hq⟩ := hsub ⟨h0, hpos.le⟩
    exact ⟨q, ⟨lt_of_lt_of_le hlo hq0, hq1⟩, hq⟩

/-- **no_root_with_nonneg_forward_hazard_iff** — the finding inverted-quotes-negative-forward-hazard as a theorem: NO knot
with a non-negative forward hazard reprices the quote iff its clean PV at zero forward hazard is already positive. -/
theorem no_root_with_nonneg_forward_hazard_iff (f : ℝ → ℝ) (qprev qlo : ℝ) (hlo : 0 < qlo) (hle : qlo ≤ qprev)
    (hcont : ContinuousOn f (Set.Icc qlo qprev)) (hanti : StrictAntiOn f (Set.Ioc 0 qprev)) (hpos : 0 < f qlo) :
    (¬ ∃ q ∈ Set.Ioc 0 qprev, f q = 0) ↔ 0 < f qprev := by
  rw [root_with_nonneg_forward_hazard_iff f qprev qlo hlo hle hcont hanti hpos, not_le]

/-- **knot_le_prev_iff** — objective strictly decreasing on `(0, ∞)`, the solver ended on an exact root `x > 0`: the new
knot is at most the previous one iff the clean PV at zero forward hazard is ≤ 0. -/
theorem knot_le_prev_iff (f : ℝ → ℝ) (qprev x : ℝ) (hp : 0 < qprev) (hx : 0 < x) (hanti : StrictAntiOn f (Set.Ioi 0))
    (hroot : f x = 0) : x ≤ qprev ↔ f qprev ≤ 0 := by
  constructor
  · intro h
    have := hanti.antitoneOn (Set.mem_Ioi.mpr hx) (Set.mem_Ioi.mpr hp) h
    linarith
  · intro h
    by_contra hlt
    have := hanti (Set.mem_Ioi.mpr hp) (Set.mem_Ioi.mpr hx) (not_le.mp hlt)
    linarith

/-- **knot_above_prev_of_pos** — if the clean PV at zero forward hazard is positive, every exact positive root lies ABOVE
the previous knot: the solved survival curve increases at this pillar. -/
theorem knot_above_prev_of_pos (f : ℝ → ℝ) (qprev x : ℝ) (hp : 0 < qprev) (hx : 0 < x)
    (hanti : StrictAntiOn f (Set.Ioi 0)) (hroot : f x = 0) (hpos : 0 < f qprev) : qprev < x := by
  by_contra h
  have := (knot_le_prev_iff f qprev x hp hx hanti hroot).mp (not_lt.mp h)
  linarith

/-! ### the fold -/

section fold
variable {κ : Type}

/-- ASSUMPTION bundle of `bootstrap_knot_unique`: at every pass the run of `solveA` reaches, the objective is injective
on the admissible set `S q_prev` (e.g. strictly monotone there) and both solvers end on exact roots inside it -/
def UniqueRootRun (solveA solveB : (ℝ → ℝ) → ℝ → ℝ) (tmat : κ → ℝ) (obj : List ℝ → List ℝ → κ → ℝ)
    (S : ℝ → Set ℝ) : List ℝ × List ℝ → List κ → Prop
  | _, [] => True
  | s, c :: rest =>
    Set.InjOn (stepObjective tmat obj s c) (S (s.2.getLastD default)) ∧
    solveA (stepObjective tmat obj s c) (s.2.getLastD default) ∈ S (s.2.getLastD default) ∧
    solveB (stepObjective tmat obj s c) (s.2.getLastD default) ∈ S (s.2.getLastD default) ∧
    stepObjective tmat obj s c (solveA (stepObjective tmat obj s c) (s.2.getLastD default)) = 0 ∧
    stepObjective tmat obj s c (solveB (stepObjective tmat obj s c) (s.2.getLastD default)) = 0 ∧
    UniqueRootRun solveA solveB tmat obj S (bootStep solveA tmat obj s c) rest

/-- **bootstrap_knot_unique** — two solvers that end on exact roots inside the set on which the objective is injective, at
every pass, build the same curve: the bootstrapped knots do not depend on the root finder.  Any number of pillars. -/
theorem bootstrap_knot_unique (solveA solveB : (ℝ → ℝ) → ℝ → ℝ) (tmat : κ → ℝ) (obj : List ℝ → List ℝ → κ → ℝ)
    (S : ℝ → Set ℝ) (cs : List κ) (s : List ℝ × List ℝ) (h : UniqueRootRun solveA solveB tmat obj S s cs) :
    bootFrom solveA tmat obj s cs = bootFrom solveB tmat obj s cs := by
  induction cs generalizing s with
  | nil => rfl
  | cons c rest ih =>
    obtain ⟨hinj, ha, hb, fa, fb, hrest⟩ := h
    have e : solveA (stepObjective tmat obj s c) (s.2.getLastD default)
        = solveB (stepObjective tmat obj s c) (s.2.getLastD default) := hinj ha hb (fa.trans fb.symm)
    have es : bootStep solveA tmat obj s c = bootStep solveB tmat obj s c := by
      apply Prod.ext
      · rfl
      · rw [bootStep_snd, bootStep_snd, e]
    have h1 : bootFrom solveA tmat obj s (c :: rest) = bootFrom solveA tmat obj (bootStep solveA tmat obj s c) rest := rfl
    have h2 : bootFrom solveB tmat obj s (c :: rest) = bootFrom solveB tmat obj (bootStep solveB tmat obj s c) rest := rfl
    rw [h1, h2, ← es]
    exact ih _ hrest

/-- ASSUMPTION bundle of `bootstrap_nonincreasing_of_signs`: at every pass the objective is strictly decreasing on
`(0, ∞)`, the solver ends on an exact positive root and the objective at zero forward hazard (`q = q_prev`) is ≤ 0 -/
def SignsOK (solve : (ℝ → ℝ) → ℝ → ℝ) (tmat : κ → ℝ) (obj : List ℝ → List ℝ → κ → ℝ) :
    List ℝ × List ℝ → List κ → Prop
  | _, [] => True
  | s, c :: rest =>
    StrictAntiOn (stepObjective tmat obj s c) (Set.Ioi 0) ∧
    0 < solve (stepObjective tmat obj s c) (s.2.getLastD default) ∧
    stepObjective tmat obj s c (solve (stepObjective tmat obj s c) (s.2.getLastD default)) = 0 ∧
    stepObjective tmat obj s c (s.2.getLastD default) ≤ 0 ∧
    SignsOK solve tmat obj (bootStep solve tmat obj s c) rest

/-- a list is positive and non-increasing from its head on -/
def PosAntitone : List ℝ → Prop
  | [] => True
  | [a] => 0 < a
  | a :: b :: rest => b ≤ a ∧ PosAntitone (b :: rest)

theorem posAntitone_append_last (l : List ℝ) (hne : l ≠ []) (x : ℝ) (hl : PosAntitone l) (hx : 0 < x)
    (hle : x ≤ l.getLastD default) : PosAntitone (l ++ [x]) := by
  induction l with
  | nil => exact absurd rfl hne
  | cons a rest ih =>
    cases rest with
    | nil =>
      simp only [List.getLastD_cons, List.getLastD_nil] at hle
      exact ⟨hle, hx⟩
    | cons b rest2 =>
      obtain ⟨h1, h2⟩ := hl
      refine ⟨h1, ih (by simp) h2 ?_⟩
      simpa [List.getLastD_cons] using hle

theorem posAntitone_last_pos (l : List ℝ) (hne : l ≠ []) (hl : PosAntitone l) : 0 < l.getLastD default := by
  induction l with
  | nil => exact absurd rfl hne
  | cons a rest ih =>
    cases rest with
    | nil => simpa [PosAntitone] using hl
    | cons b rest2 =>
      have := ih (by simp) hl.2
      simpa [List.getLastD_cons] using this

/-- **bootstrap_nonincreasing_of_signs** — if at every pass the objective is strictly decreasing in the knot, the solver
ends on an exact positive root and the clean PV at zero forward hazard is ≤ 0, then the solved knots stay positive and
non-increasing through the whole bootstrap (any number of pillars): the hypothesis of `C09b.bootstrap_survival_shape`
reduced to one sign per pillar. -/
theorem bootstrap_nonincreasing_of_signs (solve : (ℝ → ℝ) → ℝ → ℝ) (tmat : κ → ℝ) (obj : List ℝ → List ℝ → κ → ℝ)
    (cs : List κ) (s : List ℝ × List ℝ) (hne : s.2 ≠ []) (hs : PosAntitone s.2) (h : SignsOK solve tmat obj s cs) :
    PosAntitone (bootFrom solve tmat obj s cs).2 := by
  induction cs generalizing s with
  | nil => exact hs
  | cons c rest ih =>
    obtain ⟨hanti, hx, hroot, h0, hrest⟩ := h
    have hp := posAntitone_last_pos s.2 hne hs
    have hle := (knot_le_prev_iff _ _ _ hp hx hanti hroot).mpr h0
    have h1 : bootFrom solve tmat obj s (c :: rest) = bootFrom solve tmat obj (bootStep solve tmat obj s c) rest := rfl
    rw [h1]
    apply ih _ _ _ hrest
    · rw [bootStep_snd]; simp
    · rw [bootStep_snd]; exact posAntitone_append_last s.2 hne _ hs hx hle

end fold

/-! ### read on the CDS objective -/

/-- **cds_no_root_with_nonneg_forward_hazard_iff** — the statement for `cds_curve.f` itself (`cdsObj` on the state `s`
reached by the bootstrap, `q_prev` = last solved knot). -/
theorem cds_no_root_with_nonneg_forward_hazard_iff (bad : ℝ) (lt ld : List ℝ) (rec : ℝ) (s : List ℝ × List ℝ)
    (c : Contract ℝ) (qlo : ℝ) (hlo : 0 < qlo) (hle : qlo ≤ s.2.getLastD default)
    (hcont : ContinuousOn (stepObjective Contract.tmat (cdsObj opsR bad lt ld rec) s c) (Set.Icc qlo (s.2.getLastD default)))
    (hanti : StrictAntiOn (stepObjective Contract.tmat (cdsObj opsR bad lt ld rec) s c) (Set.Ioc 0 (s.2.getLastD default)))
    (hpos : 0 < stepObjective Contract.tmat (cdsObj opsR bad lt ld rec) s c qlo) :
    (¬ ∃ q ∈ Set.Ioc 0 (s.2.getLastD default), cdsObj opsR bad lt ld rec (s.1 ++ [c.tmat]) (s.2 ++ [q]) c = 0)
      ↔ 0 < cdsObj opsR bad lt ld rec (s.1 ++ [c.tmat]) (s.2 ++ [s.2.getLastD default]) c :=
  no_root_with_nonneg_forward_hazard_iff _ _ qlo hlo hle hcont hanti hpos

/-! ### non-vacuity -/

/-- the hypotheses of the one-pass theorems are satisfiable: `f q = 1 − 2q` on `(0, 1]`, root `½` -/
example : (∃ q ∈ Set.Ioc (0 : ℝ) 1, (fun q : ℝ => 1 - 2 * q) q = 0) ↔ (fun q : ℝ => 1 - 2 * q) 1 ≤ 0 :=
  root_with_nonneg_forward_hazard_iff _ 1 0.1 (by norm_num) (by norm_num)
    (by fun_prop) (fun a _ b _ hab => by linarith) (by norm_num)

/-- `UniqueRootRun` for one pillar is literally: injective on the set, both values in it, both exact roots -/
example (solveA solveB : (ℝ → ℝ) → ℝ → ℝ) (obj : List ℝ → List ℝ → Unit → ℝ) :
    UniqueRootRun solveA solveB (fun _ => 5) obj (fun p => Set.Ioc 0 p) ([0], [1]) [()] ↔
      (Set.InjOn (fun q => obj [0, 5] [1, q] ()) (Set.Ioc 0 1) ∧
       solveA (fun q => obj [0, 5] [1, q] ()) 1 ∈ Set.Ioc (0 : ℝ) 1 ∧
       solveB (fun q => obj [0, 5] [1, q] ()) 1 ∈ Set.Ioc (0 : ℝ) 1 ∧
       obj [0, 5] [1, solveA (fun q => obj [0, 5] [1, q] ()) 1] () = 0 ∧
       obj [0, 5] [1, solveB (fun q => obj [0, 5] [1, q] ()) 1] () = 0) := by
  simp only [UniqueRootRun, and_true]
  exact Iff.rfl

example : PosAntitone [1, 0.9, 0.9, 0.5] := by
  simp only [PosAntitone]; norm_num

end FinVerif.Props.C09g
