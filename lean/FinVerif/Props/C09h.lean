/-
  C09h — monotonicity of the risky annuity `_risky_pv01_numba` AS CODED (accrual-on-default terms, `1e-20` regulariser and
  the loop's stale `z1` included) in a flat hazard rate, for any number of coupons, and hence of the long-protection clean
  PV built from the two coded legs.  Reals.

  One coupon period `(t1, t2]` contributes, with `x = h·(t2 − t1)`, `y = −log(Z(t2)/z1)`, `s = x + y`, `c = 1e-20·τ²`:
      `Q(t2) Z(t2) τ + AoD = τ · z1 · e^{-h t1} · B(x)`,   `B(x) = e^{-s} + x·E(s)/(s² + c)`,  `E(s) = 1 − e^{-s} − s e^{-s}`
  (`period_term_eq`).  `B' (x) − 0 = −e^{-s} + ψ'(x)` and  `e^{-s}(s²+c)² − [(E + x s e^{-s})(s²+c) − 2 x s E]
  = (s y + c)((s²+c) e^{-s} − E) + E s x ≥ 0`  as soon as `E(s) ≤ s² e^{-s}`, i.e. `e^{s} ≤ 1 + s + s²`, which holds for
  `0 ≤ s ≤ 1` (`E_le_sq_exp`).  So `B` is non-increasing on `[0, 1 − y]` (`B_antitoneOn`), each period term is a product of
  two non-negative non-increasing functions of `h`, and the whole annuity is non-increasing in `h` on the range where
  `h·(t_j − t_{j−1}) − log(Z(t_j)/Z(t_1)) ≤ 1` for every period (`rpv01_flat_antitone_partial`; the restriction is the
  hypothesis the proof forces — with the stale `z1`, `y_j` is the discounting from the FIRST coupon date to `t_j`, so it
  reads `h·Δ_j + r·(t_j − t_1) ≤ 1`: e.g. 10Y at 5% and hazards up to 200%).  With `C09c.protLeg_flat_mono_hazard`:
  `cleanPV_flat_mono_hazard` — the long-protection clean PV of the coded legs is non-decreasing in the flat hazard, strictly
  when the coupon and notional are positive (`cleanPV_flat_strictMono_hazard`) ⇒ on the first pillar the bootstrap
  objective has at most one root in that range (`C09g.root_unique`).
-/
import FinVerif.Props.C09f
import Mathlib.Analysis.Calculus.Deriv.Inv
import Mathlib.Analysis.Complex.Exponential

namespace FinVerif.Props.C09h
open FinVerif FinVerif.Model.C09 FinVerif.Spec.C09 FinVerif.Props.C09c FinVerif.Props.C09d FinVerif.Props.C09f

noncomputable def E (s : ℝ) : ℝ := 1 - Real.exp (-s) - s * Real.exp (-s)

theorem E_nonneg (s : ℝ) : 0 ≤ E s := expTerm_nonneg s

theorem E_le_sq_exp (s : ℝ) (h0 : 0 ≤ s) (h1 : s ≤ 1) : E s ≤ s ^ 2 * Real.exp (-s) := by
  have hb := Real.exp_bound' h0 h1 (n := 2) (by norm_num)
  simp [Finset.sum_range_succ, Nat.factorial] at hb
  have hp := Real.exp_pos (-s)
  have h1e : Real.exp s * Real.exp (-s) = 1 := by rw [← Real.exp_add, add_neg_cancel, Real.exp_zero]
  have hb2 : Real.exp s ≤ 1 + s + s ^ 2 := by nlinarith [sq_nonneg s]
  have := mul_le_mul_of_nonneg_right hb2 hp.le
  unfold E
  nlinarith

/-- per-period factor -/
noncomputable def B (y c x : ℝ) : ℝ := Real.exp (-(x + y)) + x * E (x + y) / ((x + y) ^ 2 + c)

theorem B_hasDerivAt (y c x : ℝ) (hc : 0 < c) :
    HasDerivAt (B y c)
      (-Real.exp (-(x + y)) + ((E (x + y) + x * ((x + y) * Real.exp (-(x + y)))) * ((x + y) ^ 2 + c)
          - x * E (x + y) * (2 * (x + y))) / ((x + y) ^ 2 + c) ^ 2) x := by
  have hs : HasDerivAt (fun x : ℝ => x + y) 1 x := (hasDerivAt_id' x).add_const y
  have hneg : HasDerivAt (fun x : ℝ => -(x + y)) (-1) x := hs.neg
  have hexp : HasDerivAt (fun x : ℝ => Real.exp (-(x + y))) (-Real.exp (-(x + y))) x :=
    hneg.exp.congr_deriv (by ring)
  have hE : HasDerivAt (fun x : ℝ => E (x + y)) ((x + y) * Real.exp (-(x + y))) x := by
    unfold E
    exact (((hasDerivAt_const x (1 : ℝ)).sub hexp).sub (hs.mul hexp)).congr_deriv (by ring)
  have hN : HasDerivAt (fun x : ℝ => x * E (x + y)) (E (x + y) + x * ((x + y) * Real.exp (-(x + y)))) x :=
    ((hasDerivAt_id' x).mul hE).congr_deriv (by ring)
  have hD : HasDerivAt (fun x : ℝ => (x + y) ^ 2 + c) (2 * (x + y)) x :=
    ((hs.pow 2).add_const c).congr_deriv (by simp)
  have hne : (x + y) ^ 2 + c ≠ 0 := by positivity
  exact hexp.add (hN.div hD hne)


/-- the algebra behind `B' ≤ 0` -/
theorem B_deriv_nonpos (y c x : ℝ) (hc : 0 < c) (hx : 0 ≤ x) (hy : 0 ≤ y) (hs1 : x + y ≤ 1) :
    -Real.exp (-(x + y)) + ((E (x + y) + x * ((x + y) * Real.exp (-(x + y)))) * ((x + y) ^ 2 + c)
          - x * E (x + y) * (2 * (x + y))) / ((x + y) ^ 2 + c) ^ 2 ≤ 0 := by
  have hD : 0 < (x + y) ^ 2 + c := by positivity
  have hs : 0 ≤ x + y := add_nonneg hx hy
  have hE0 := E_nonneg (x + y)
  have hE1 := E_le_sq_exp (x + y) hs hs1
  have he := Real.exp_pos (-(x + y))
  have hgap : 0 ≤ ((x + y) ^ 2 + c) * Real.exp (-(x + y)) - E (x + y) := by nlinarith
  have key : Real.exp (-(x + y)) * ((x + y) ^ 2 + c) ^ 2
      - ((E (x + y) + x * ((x + y) * Real.exp (-(x + y)))) * ((x + y) ^ 2 + c) - x * E (x + y) * (2 * (x + y)))
      = ((x + y) * y + c) * (((x + y) ^ 2 + c) * Real.exp (-(x + y)) - E (x + y)) + E (x + y) * (x + y) * x := by ring
  have hnn : 0 ≤ ((x + y) * y + c) * (((x + y) ^ 2 + c) * Real.exp (-(x + y)) - E (x + y)) + E (x + y) * (x + y) * x := by
    have a : 0 ≤ (x + y) * y + c := by positivity
    have b : 0 ≤ E (x + y) * (x + y) * x := mul_nonneg (mul_nonneg hE0 hs) hx
    have := mul_nonneg a hgap
    linarith
  have hle : ((E (x + y) + x * ((x + y) * Real.exp (-(x + y)))) * ((x + y) ^ 2 + c) - x * E (x + y) * (2 * (x + y)))
      / ((x + y) ^ 2 + c) ^ 2 ≤ Real.exp (-(x + y)) := by
    rw [div_le_iff₀ (by positivity)]
    linarith
  linarith

/-- **B_antitoneOn** — the per-period factor is non-increasing in `x = h·Δ` on `[0, 1 − y]`. -/
theorem B_antitoneOn (y c : ℝ) (hc : 0 < c) (hy : 0 ≤ y) : AntitoneOn (B y c) (Set.Icc 0 (1 - y)) := by
  apply antitoneOn_of_deriv_nonpos (convex_Icc _ _)
  · exact fun x _ => (B_hasDerivAt y c x hc).continuousAt.continuousWithinAt
  · exact fun x _ => (B_hasDerivAt y c x hc).differentiableAt.differentiableWithinAt
  · intro x hx
    rw [interior_Icc] at hx
    rw [(B_hasDerivAt y c x hc).deriv]
    exact B_deriv_nonpos y c x hc hx.1.le hy (by linarith [hx.2])

theorem B_nonneg (y c x : ℝ) (hc : 0 < c) (hx : 0 ≤ x) : 0 ≤ B y c x := by
  unfold B
  have : 0 ≤ x * E (x + y) / ((x + y) ^ 2 + c) := div_nonneg (mul_nonneg hx (E_nonneg _)) (by positivity)
  linarith [Real.exp_pos (-(x + y))]

/-- **period_term_eq** — flat hazard: survival-weighted coupon + accrual on default of one period, as coded,
`= τ · z1 · e^{-h t1} · B(h (t2 − t1))` with `y = −log(z2/z1)`, `c = 1e-20 τ²`. -/
theorem period_term_eq (h t1 t2 z1 z2 tau : ℝ) (htau : 0 < tau) (hz1 : 0 < z1) (hz2 : 0 < z2) :
    flatSurvival h t2 * z2 * tau + accrualOnDefault opsR (flatSurvival h t1) z1 (flatSurvival h t2) z2 tau
      = tau * z1 * flatSurvival h t1 * B (-Real.log (z2 / z1)) (1e-20 * tau ^ 2) (h * (t2 - t1)) := by
  rw [accrualOnDefault_eq _ _ _ _ _ htau.ne']
  have hx : -Real.log (flatSurvival h t2 / flatSurvival h t1) = h * (t2 - t1) := by
    unfold flatSurvival
    rw [← Real.exp_sub, Real.log_exp]; ring
  rw [hx]
  set y := -Real.log (z2 / z1) with hy
  have hey : Real.exp (-y) = z2 / z1 := by rw [hy, neg_neg, Real.exp_log (div_pos hz2 hz1)]
  have hq2 : flatSurvival h t2 = flatSurvival h t1 * Real.exp (-(h * (t2 - t1))) := by
    unfold flatSurvival
    rw [← Real.exp_add]; congr 1; ring
  have hD : 0 < ((h * (t2 - t1) + y) / tau) ^ 2 + 1e-20 := by positivity
  rw [abs_of_pos hD]
  unfold B E
  have hes : Real.exp (-(h * (t2 - t1) + y)) = Real.exp (-(h * (t2 - t1))) * (z2 / z1) := by
    rw [neg_add, Real.exp_add, hey]
  rw [hes, hq2]
  have hD2 : 0 < (h * (t2 - t1) + y) ^ 2 + 1e-20 * tau ^ 2 := by positivity
  field_simp

/-- hypothesis of the monotonicity theorem, per period: times in order, positive accrual factor, discount factor positive
and not above the loop's `z1`, and `h·Δ + y ≤ 1` at the upper end `hmax` of the hazard range -/
def PeriodsOK (hmax : ℝ) (Z : ℝ → ℝ) (z1 : ℝ) : ℝ → List (ℝ × ℝ) → Prop
  | _, [] => True
  | tprev, (t, af) :: rest =>
    tprev ≤ t ∧ 0 < af ∧ 0 < Z t ∧ Z t ≤ z1 ∧ hmax * (t - tprev) + -Real.log (Z t / z1) ≤ 1 ∧ PeriodsOK hmax Z z1 t rest


/-- the per-period condition at `hmax` implies it at every smaller hazard -/
theorem periodsOK_mono (Z : ℝ → ℝ) (z1 h h' : ℝ) (tprev : ℝ) (tail : List (ℝ × ℝ)) (hle : h ≤ h')
    (hok : PeriodsOK h' Z z1 tprev tail) : PeriodsOK h Z z1 tprev tail := by
  induction tail generalizing tprev with
  | nil => trivial
  | cons p rest ih =>
    obtain ⟨t, af⟩ := p
    obtain ⟨a, b, c, d, e, f⟩ := hok
    refine ⟨a, b, c, d, ?_, ih t f⟩
    have := mul_le_mul_of_nonneg_right hle (by linarith : 0 ≤ t - tprev)
    linarith

/-- **periods_flat_antitone** — Σ over the coupons after the first of (survival-weighted coupon + accrual on default), as
coded, is non-increasing in the flat hazard on `[0, hmax]`.  Any number of coupons. -/
theorem periods_flat_antitone (Z : ℝ → ℝ) (z1 h1 h2 : ℝ) (hz1 : 0 < z1) (hh1 : 0 ≤ h1) (hh : h1 ≤ h2)
    (tail : List (ℝ × ℝ)) (tcur : ℝ) (hcur : 0 ≤ tcur) (hok : PeriodsOK h2 Z z1 tcur tail) :
    survSum (flatSurvival h2) Z tail + aodSum (flatSurvival h2) Z z1 (flatSurvival h2 tcur) tail
      ≤ survSum (flatSurvival h1) Z tail + aodSum (flatSurvival h1) Z z1 (flatSurvival h1 tcur) tail := by
  induction tail generalizing tcur with
  | nil => simp [survSum, aodSum]
  | cons p rest ih =>
    obtain ⟨t, af⟩ := p
    obtain ⟨ht, haf, hzt, hzle, hs1, hrest⟩ := hok
    have i := ih t (le_trans hcur ht) hrest
    have e : ∀ h, survSum (flatSurvival h) Z ((t, af) :: rest)
        = flatSurvival h t * Z t * af + survSum (flatSurvival h) Z rest := fun h => by simp [survSum]
    simp only [e, aodSum]
    have p1 := period_term_eq h1 tcur t z1 (Z t) af haf hz1 hzt
    have p2 := period_term_eq h2 tcur t z1 (Z t) af haf hz1 hzt
    set y := -Real.log (Z t / z1) with hy
    have hy0 : 0 ≤ y := neg_nonneg.mpr (Real.log_nonpos (div_pos hzt hz1).le ((div_le_one hz1).mpr hzle))
    have hc : (0 : ℝ) < 1e-20 * af ^ 2 := by positivity
    have hd : 0 ≤ t - tcur := by linarith
    have hx1 : h1 * (t - tcur) ∈ Set.Icc 0 (1 - y) :=
      ⟨mul_nonneg hh1 hd, by have := mul_le_mul_of_nonneg_right hh hd; linarith⟩
    have hx2 : h2 * (t - tcur) ∈ Set.Icc 0 (1 - y) := ⟨mul_nonneg (le_trans hh1 hh) hd, by linarith⟩
    have hB := B_antitoneOn y _ hc hy0 hx1 hx2 (mul_le_mul_of_nonneg_right hh hd)
    have hB0 := B_nonneg y (1e-20 * af ^ 2) (h2 * (t - tcur)) hc hx2.1
    have hq := flatSurvival_antitone_hazard h1 h2 tcur hh hcur
    have hq0 : 0 ≤ flatSurvival h1 tcur := (Real.exp_pos _).le
    have hprod : flatSurvival h2 tcur * B y (1e-20 * af ^ 2) (h2 * (t - tcur))
        ≤ flatSurvival h1 tcur * B y (1e-20 * af ^ 2) (h1 * (t - tcur)) := mul_le_mul hq hB hB0 hq0
    have hk : 0 ≤ af * z1 := (mul_pos haf hz1).le
    have := mul_le_mul_of_nonneg_left hprod hk
    nlinarith

/-- **rpv01_flat_antitone_partial** — the FULL risky annuity as coded is non-increasing in the flat hazard on `[0, h2]`
(`C09f.AnnuityFlatAntitone` under the extra per-period hypothesis `h2·Δ_j − log(Z(t_j)/Z(t_1)) ≤ 1`). -/
theorem rpv01_flat_antitone_partial (Z : ℝ → ℝ) (h1 h2 teff acc tncd yf1 : ℝ) (tail : List (ℝ × ℝ)) (hh1 : 0 ≤ h1)
    (hh : h1 ≤ h2) (ht : 0 ≤ teff) (hn : 0 ≤ tncd) (hacc : 0 ≤ acc) (hyf : acc ≤ yf1) (hz : 0 < Z tncd)
    (hok : PeriodsOK h2 Z (Z tncd) tncd tail) :
    (riskyPV01 opsR (flatSurvival h2) Z teff acc tncd yf1 tail).1
      ≤ (riskyPV01 opsR (flatSurvival h1) Z teff acc tncd yf1 tail).1 := by
  rw [rpv01_full_decomp, rpv01_full_decomp]
  have a := firstCoupon_flat_antitone Z h1 h2 teff acc tncd yf1 hh ht hn hacc hyf hz.le
  have b := periods_flat_antitone Z (Z tncd) h1 h2 hz hh1 hh tail tncd hn hok
  linarith

/-- strict version: the first coupon already decreases strictly (first payment in the future, `acc < yf_1`) -/
theorem rpv01_flat_strictAnti_partial (Z : ℝ → ℝ) (h1 h2 teff acc tncd yf1 : ℝ) (tail : List (ℝ × ℝ)) (hh1 : 0 ≤ h1)
    (hh : h1 < h2) (ht : 0 ≤ teff) (hn : 0 < tncd) (hacc : 0 ≤ acc) (hyf : acc < yf1) (hz : 0 < Z tncd)
    (hok : PeriodsOK h2 Z (Z tncd) tncd tail) :
    (riskyPV01 opsR (flatSurvival h2) Z teff acc tncd yf1 tail).1
      < (riskyPV01 opsR (flatSurvival h1) Z teff acc tncd yf1 tail).1 := by
  rw [rpv01_full_decomp, rpv01_full_decomp]
  have a := annuityNoAoD_flat_strictAnti Z h1 h2 teff acc tncd yf1 [] hh ht hn hacc hyf hz (by simp)
  simp only [annuityNoAoD, survSum, List.map_nil, List.sum_nil, add_zero] at a
  have b := periods_flat_antitone Z (Z tncd) h1 h2 hz hh1 hh.le tail tncd hn.le hok
  linarith

/-- **cleanPV_flat_mono_hazard** — spot-starting long protection, flat rate `r ≥ 0`, flat hazard in `[0, h2]` with the
per-period condition at `h2`: the clean PV of the CODED legs (`CDS.value`: protection − coupon × clean annuity × notional)
is non-decreasing in the hazard. -/
theorem cleanPV_flat_mono_hazard (r h1 h2 rec : ℝ) (c : Contract ℝ) (hlong : c.long = true) (hteff : c.teff = 0)
    (hnf : c.nf = c.nSteps) (hk : 0 < c.nSteps) (hT : 0 < c.tmat) (hr : 0 ≤ r) (hh1 : 0 ≤ h1) (hh : h1 ≤ h2)
    (hrec : rec ≤ 1) (hn : 0 ≤ c.notional) (hc : 0 ≤ c.cpn) (htn : 0 ≤ c.tncd) (hacc : 0 ≤ c.acc) (hyf : c.acc ≤ c.yf1)
    (hok : PeriodsOK h2 (flatDiscount r) (flatDiscount r c.tncd) c.tncd c.tail) :
    cleanPV opsR (flatSurvival h1) (flatDiscount r) rec c ≤ cleanPV opsR (flatSurvival h2) (flatDiscount r) rec c := by
  simp only [cleanPV, valueOf, rpv01Of, hlong, hteff, hnf]
  apply cleanPV_mono_of_legs _ _ _ _ _ _ _ _ hn hc
  · exact protLeg_flat_mono_hazard h1 h2 r c.tmat rec c.nSteps hk hT hr hh1 hh hrec
  · have := rpv01_flat_antitone_partial (flatDiscount r) h1 h2 0 c.acc c.tncd c.yf1 c.tail hh1 hh le_rfl htn hacc hyf
      (Real.exp_pos _) hok
    simp only [riskyPV01] at this ⊢
    linarith

/-- **cleanPV_flat_strictMono_hazard** — strictly increasing when coupon and notional are positive, the first payment
is in the future and `acc < yf_1`: the first-pillar bootstrap objective has at most one root in `[0, h2]`. -/
theorem cleanPV_flat_strictMono_hazard (r h1 h2 rec : ℝ) (c : Contract ℝ) (hlong : c.long = true) (hteff : c.teff = 0)
    (hnf : c.nf = c.nSteps) (hk : 0 < c.nSteps) (hT : 0 < c.tmat) (hr : 0 ≤ r) (hh1 : 0 ≤ h1) (hh : h1 < h2)
    (hrec : rec ≤ 1) (hn : 0 < c.notional) (hc : 0 < c.cpn) (htn : 0 < c.tncd) (hacc : 0 ≤ c.acc) (hyf : c.acc < c.yf1)
    (hok : PeriodsOK h2 (flatDiscount r) (flatDiscount r c.tncd) c.tncd c.tail) :
    cleanPV opsR (flatSurvival h1) (flatDiscount r) rec c < cleanPV opsR (flatSurvival h2) (flatDiscount r) rec c := by
  simp only [cleanPV, valueOf, rpv01Of, hlong, hteff, hnf, cdsValue, ↓reduceIte]
  have p := protLeg_flat_mono_hazard h1 h2 r c.tmat rec c.nSteps hk hT hr hh1 hh.le hrec
  have a := rpv01_flat_strictAnti_partial (flatDiscount r) h1 h2 0 c.acc c.tncd c.yf1 c.tail hh1 hh le_rfl htn hacc hyf
    (Real.exp_pos _) hok
  simp only [riskyPV01] at a ⊢
  have p' := mul_le_mul_of_nonneg_right p hn.le
  have a' := mul_lt_mul_of_pos_left (sub_lt_sub_right a c.acc) (mul_pos hc hn)
  nlinarith

/-- **flat_root_unique** — consequently two flat hazards in `[0, h2]` that both reprice the contract coincide. -/
theorem flat_root_unique (r ha hb h2 rec : ℝ) (c : Contract ℝ) (hlong : c.long = true) (hteff : c.teff = 0)
    (hnf : c.nf = c.nSteps) (hk : 0 < c.nSteps) (hT : 0 < c.tmat) (hr : 0 ≤ r) (ha0 : 0 ≤ ha) (hb0 : 0 ≤ hb)
    (ha2 : ha ≤ h2) (hb2 : hb ≤ h2) (hrec : rec ≤ 1) (hn : 0 < c.notional) (hc : 0 < c.cpn) (htn : 0 < c.tncd)
    (hacc : 0 ≤ c.acc) (hyf : c.acc < c.yf1)
    (hok : PeriodsOK h2 (flatDiscount r) (flatDiscount r c.tncd) c.tncd c.tail)
    (fa : cleanPV opsR (flatSurvival ha) (flatDiscount r) rec c = 0)
    (fb : cleanPV opsR (flatSurvival hb) (flatDiscount r) rec c = 0) : ha = hb := by
  have mono : ∀ u v h', 0 ≤ u → u < v → v ≤ h' → h' ≤ h2 → PeriodsOK h' (flatDiscount r) (flatDiscount r c.tncd) c.tncd c.tail →
      cleanPV opsR (flatSurvival u) (flatDiscount r) rec c < cleanPV opsR (flatSurvival v) (flatDiscount r) rec c := by
    intro u v h' hu huv hv _ hok'
    exact cleanPV_flat_strictMono_hazard r u v rec c hlong hteff hnf hk hT hr hu huv hrec hn hc htn hacc hyf
      (periodsOK_mono _ _ _ _ _ _ hv hok')
  rcases lt_trichotomy ha hb with h | h | h
  · have := mono ha hb h2 ha0 h hb2 le_rfl hok; linarith
  · exact h
  · have := mono hb ha h2 hb0 h ha2 le_rfl hok; linarith

/-! ### non-vacuity -/

theorem flat_log_ratio (r t t0 : ℝ) : -Real.log (flatDiscount r t / flatDiscount r t0) = r * (t - t0) := by
  unfold flatDiscount
  rw [← Real.exp_sub, Real.log_exp]; ring

/-- **periodsOK_flat_step** — with a flat rate `r ≥ 0` the per-period condition reads `hmax·(t − t_prev) + r·(t − t_1) ≤ 1`. -/
theorem periodsOK_flat_step (hmax r t1 tprev t af : ℝ) (rest : List (ℝ × ℝ)) (hr : 0 ≤ r) (h1 : t1 ≤ t) (hp : tprev ≤ t)
    (haf : 0 < af) (hs : hmax * (t - tprev) + r * (t - t1) ≤ 1)
    (hrest : PeriodsOK hmax (flatDiscount r) (flatDiscount r t1) t rest) :
    PeriodsOK hmax (flatDiscount r) (flatDiscount r t1) tprev ((t, af) :: rest) := by
  refine ⟨hp, haf, Real.exp_pos _, ?_, ?_, hrest⟩
  · unfold flatDiscount; exact Real.exp_le_exp.mpr (by nlinarith)
  · rw [flat_log_ratio]; exact hs

/-- a quarterly contract, step-in today, first coupon in 0.15y, rate 3%, hazards up to 200%: the hypotheses hold -/
noncomputable def exC : Contract ℝ :=
  { teff := 0, acc := 0.1, tncd := 0.15, yf1 := 0.25, tail := [(0.4, 0.25), (0.65, 0.25)], tmat := 0.65, nSteps := 16,
    nf := 16, cpn := 0.01, notional := 1e6, long := true }

example : PeriodsOK 2 (flatDiscount 0.03) (flatDiscount 0.03 exC.tncd) exC.tncd exC.tail := by
  simp only [exC]
  refine periodsOK_flat_step _ _ _ _ _ _ _ (by norm_num) (by norm_num) (by norm_num) (by norm_num) (by norm_num) ?_
  refine periodsOK_flat_step _ _ _ _ _ _ _ (by norm_num) (by norm_num) (by norm_num) (by norm_num) (by norm_num) ?_
  trivial

example : cleanPV opsR (flatSurvival 0.02) (flatDiscount 0.03) 0.4 exC < cleanPV opsR (flatSurvival 0.05) (flatDiscount 0.03) 0.4 exC := by
  apply cleanPV_flat_strictMono_hazard 0.03 0.02 0.05 0.4 exC rfl rfl (by norm_num [exC]) (by norm_num [exC]) (by norm_num [exC])
    (by norm_num) (by norm_num) (by norm_num) (by norm_num) (by norm_num [exC]) (by norm_num [exC]) (by norm_num [exC])
    (by norm_num [exC]) (by norm_num [exC])
  simp only [exC]
  refine periodsOK_flat_step _ _ _ _ _ _ _ (by norm_num) (by norm_num) (by norm_num) (by norm_num) (by norm_num) ?_
  refine periodsOK_flat_step _ _ _ _ _ _ _ (by norm_num) (by norm_num) (by norm_num) (by norm_num) (by norm_num) ?_
  trivial

end FinVerif.Props.C09h
