/-
  C09i — the assumption of `C09g` discharged for the FIRST pillar of the bootstrap: with Ibor knots on `e^{-rt}` (r ≥ 0), a
  spot-starting long-protection quote and the per-period condition of `C09h`, the function the solver sees in the first pass
  of `_build_curve`,  `q ↦ cds_curve.f(q)` = clean PV on the curve `[(0,1), (t_mat, q)]`, equals the flat-hazard clean PV at
  `h = −log q / t_mat` (`first_pillar_objective_eq`: the one-segment FLAT_FWD_RATES curve IS `e^{-ht}`, extrapolation
  included), so it is STRICTLY DECREASING in the knot on `[e^{-h2·t_mat}, 1]` (`first_pillar_objective_strictAntiOn`) and has
  at most one root there (`first_pillar_root_unique`): whatever exact root finder is used, the first solved knot is the same.
  The flat-hazard clean PV is continuous in the hazard (`cleanPV_flat_continuous`) and ≤ 0 at zero hazard, so if it is positive
  at `e^{-h2·t_mat}` the root EXISTS as well: `first_pillar_root_exists_unique` (∃!), with no assumption on solver or objective.
-/
import FinVerif.Props.C09g
import FinVerif.Props.C09h
import Mathlib.Topology.Algebra.Order.Field

namespace FinVerif.Props.C09i
open FinVerif FinVerif.Model.C02 FinVerif.Model.C09 FinVerif.Spec.C09 FinVerif.Props.C09 FinVerif.Props.C09b
  FinVerif.Props.C09c FinVerif.Props.C09d FinVerif.Props.C09f FinVerif.Props.C09g FinVerif.Props.C09h

/-- the coupon loop reads the discount curve only at the payment times -/
theorem couponLoop_congrZ (o : Ops ℝ) (Q Z Z' : ℝ → ℝ) (z1 q1 acc : ℝ) (tail : List (ℝ × ℝ))
    (h : ∀ p ∈ tail, Z p.1 = Z' p.1) :
    couponLoop o Q Z z1 q1 tail acc = couponLoop o Q Z' z1 q1 tail acc := by
  induction tail generalizing q1 acc with
  | nil => rfl
  | cons p rest ih =>
    obtain ⟨t2, af⟩ := p
    have h0 : Z t2 = Z' t2 := h (t2, af) List.mem_cons_self
    simp only [couponLoop, h0]
    exact ih _ _ (fun p hp => h p (List.mem_cons_of_mem _ hp))

/-- **cleanPV_congr** — a well-formed contract reads both curves only at times ≥ 0: curves that agree on `[0, ∞)` give the
same clean PV. -/
theorem cleanPV_congr (o : Ops ℝ) (Q Q' Z Z' : ℝ → ℝ) (rec : ℝ) (c : Contract ℝ) (hc : WF c)
    (hQ : ∀ s, 0 ≤ s → Q s = Q' s) (hZ : ∀ s, 0 ≤ s → Z s = Z' s) :
    cleanPV o Q Z rec c = cleanPV o Q' Z' rec c := by
  have hn : (0 : ℝ) < c.nSteps := Nat.cast_pos.mpr hc.steps
  have hdt : 0 ≤ (c.tmat - c.teff) / c.nf := by
    rw [hc.nf]; exact div_nonneg (by linarith [hc.teffT]) hn.le
  simp only [cleanPV, valueOf, rpv01Of, riskyPV01, protLegPV]
  rw [hQ _ hc.teff0, hQ _ hc.tncd0, hZ _ hc.tncd0, hZ _ hc.teff0,
    couponLoop_congr o Q Q' Z _ _ _ c.tail (fun p hp => hQ _ (hc.tail p hp).1),
    couponLoop_congrZ o Q' Z Z' _ _ _ c.tail (fun p hp => hZ _ (hc.tail p hp).1),
    protLoop_congr o Q Q' Z Z' _ 0 hdt hQ hZ c.nSteps c.teff _ _ _ hc.teff0]

/-- **first_pillar_objective_eq** — first pass of `_build_curve` (state `([0],[1])`), Ibor knots on `e^{-rt}`: the solver's
objective at the knot `e^{-h·t_mat}` is the flat-hazard clean PV at `h`. -/
theorem first_pillar_objective_eq (bad r rec : ℝ) (lt ld : List ℝ) (hl : lt.Pairwise (· < ·)) (hln : 2 ≤ lt.length)
    (hl0 : g lt 0 = 0) (hlk : ∀ k, k < lt.length → g ld k = Real.exp (-r * g lt k))
    (c : Contract ℝ) (hc : WF c) (hT : 0 < c.tmat) (h : ℝ) :
    stepObjective Contract.tmat (cdsObj opsR bad lt ld rec) ([0], [1]) c (Real.exp (-h * c.tmat))
      = cleanPV opsR (flatSurvival h) (flatDiscount r) rec c := by
  have hk : ∀ k, k < ([0, c.tmat] : List ℝ).length →
      g [1, Real.exp (-h * c.tmat)] k = Real.exp (-h * g [0, c.tmat] k) := by
    intro k hk
    simp only [List.length_cons, List.length_nil] at hk
    obtain rfl | rfl : k = 0 ∨ k = 1 := by omega
    all_goals simp [g]
  have hQ : ∀ s, 0 ≤ s → curveFn bad [0, c.tmat] [1, Real.exp (-h * c.tmat)] s = flatSurvival h s := fun s hs =>
    curveFn_flat bad h [0, c.tmat] [1, Real.exp (-h * c.tmat)] (by simp [hT]) (by simp) hk s (by simpa [g] using hs)
  have hZ : ∀ s, 0 ≤ s → curveFn bad lt ld s = flatDiscount r s := fun s hs =>
    curveFn_flat bad r lt ld hl hln hlk s (by rw [hl0]; exact hs)
  show cdsObj opsR bad lt ld rec ([0] ++ [c.tmat]) ([1] ++ [Real.exp (-h * c.tmat)]) c = _
  simp only [cdsObj, List.singleton_append]
  exact cleanPV_congr opsR _ _ _ _ rec c hc hQ hZ

/-- **first_pillar_objective_strictAntiOn** — under the hypotheses of `C09h.cleanPV_flat_strictMono_hazard` the first-pass
objective is strictly decreasing in the knot on `[e^{-h2·t_mat}, 1]` (= strictly increasing in the hazard on `[0, h2]`). -/
theorem first_pillar_objective_strictAntiOn (bad r rec h2 : ℝ) (lt ld : List ℝ) (hl : lt.Pairwise (· < ·))
    (hln : 2 ≤ lt.length) (hl0 : g lt 0 = 0) (hlk : ∀ k, k < lt.length → g ld k = Real.exp (-r * g lt k))
    (c : Contract ℝ) (hc : WF c) (hlong : c.long = true) (hteff : c.teff = 0) (hT : 0 < c.tmat) (hr : 0 ≤ r)
    (hrec : rec ≤ 1) (hn : 0 < c.notional) (hcp : 0 < c.cpn) (htn : 0 < c.tncd) (hacc : 0 ≤ c.acc) (hyf : c.acc < c.yf1)
    (hok : PeriodsOK h2 (flatDiscount r) (flatDiscount r c.tncd) c.tncd c.tail) :
    StrictAntiOn (stepObjective Contract.tmat (cdsObj opsR bad lt ld rec) ([0], [1]) c)
      (Set.Icc (Real.exp (-h2 * c.tmat)) 1) := by
  intro a ha b hb hab
  have ha0 : 0 < a := lt_of_lt_of_le (Real.exp_pos _) ha.1
  have hb0 : 0 < b := lt_of_lt_of_le (Real.exp_pos _) hb.1
  -- hazards
  have haz : ∀ q : ℝ, 0 < q → Real.exp (-h2 * c.tmat) ≤ q → q ≤ 1 →
      q = Real.exp (-(-Real.log q / c.tmat) * c.tmat) ∧ 0 ≤ -Real.log q / c.tmat ∧ -Real.log q / c.tmat ≤ h2 := by
    intro q hq0 hq1 hq2
    refine ⟨?_, div_nonneg (neg_nonneg.mpr (Real.log_nonpos hq0.le hq2)) hT.le, ?_⟩
    · rw [show -(-Real.log q / c.tmat) * c.tmat = Real.log q by field_simp, Real.exp_log hq0]
    · rw [div_le_iff₀ hT]
      have := Real.log_le_log (Real.exp_pos _) hq1
      rw [Real.log_exp] at this
      linarith
  obtain ⟨ea, ha1, ha2⟩ := haz a ha0 ha.1 ha.2
  obtain ⟨eb, hb1, hb2⟩ := haz b hb0 hb.1 hb.2
  have hlt : -Real.log b / c.tmat < -Real.log a / c.tmat := by
    apply div_lt_div_of_pos_right _ hT
    have := Real.log_lt_log ha0 hab
    linarith
  rw [ea, eb, first_pillar_objective_eq bad r rec lt ld hl hln hl0 hlk c hc hT,
    first_pillar_objective_eq bad r rec lt ld hl hln hl0 hlk c hc hT]
  exact cleanPV_flat_strictMono_hazard r _ _ rec c hlong hteff hc.nf hc.steps hT hr hb1 hlt hrec hn hcp htn hacc hyf
    (periodsOK_mono _ _ _ _ _ _ ha2 hok)

/-- **first_pillar_root_unique** — the first solved knot does not depend on the root finder: two exact roots of the first
pass in `[e^{-h2·t_mat}, 1]` coincide. -/
theorem first_pillar_root_unique (bad r rec h2 : ℝ) (lt ld : List ℝ) (hl : lt.Pairwise (· < ·))
    (hln : 2 ≤ lt.length) (hl0 : g lt 0 = 0) (hlk : ∀ k, k < lt.length → g ld k = Real.exp (-r * g lt k))
    (c : Contract ℝ) (hc : WF c) (hlong : c.long = true) (hteff : c.teff = 0) (hT : 0 < c.tmat) (hr : 0 ≤ r)
    (hrec : rec ≤ 1) (hn : 0 < c.notional) (hcp : 0 < c.cpn) (htn : 0 < c.tncd) (hacc : 0 ≤ c.acc) (hyf : c.acc < c.yf1)
    (hok : PeriodsOK h2 (flatDiscount r) (flatDiscount r c.tncd) c.tncd c.tail)
    (qa qb : ℝ) (ha : qa ∈ Set.Icc (Real.exp (-h2 * c.tmat)) 1) (hb : qb ∈ Set.Icc (Real.exp (-h2 * c.tmat)) 1)
    (fa : cdsObj opsR bad lt ld rec [0, c.tmat] [1, qa] c = 0) (fb : cdsObj opsR bad lt ld rec [0, c.tmat] [1, qb] c = 0) :
    qa = qb :=
  root_unique _ _ (first_pillar_objective_strictAntiOn bad r rec h2 lt ld hl hln hl0 hlk c hc hlong hteff hT hr hrec hn
    hcp htn hacc hyf hok) qa qb ha hb fa fb

/-! ### continuity in the hazard and existence of the first knot -/

theorem B_continuous (y c : ℝ) (hc : 0 < c) : Continuous (B y c) :=
  continuous_iff_continuousAt.mpr fun x => (B_hasDerivAt y c x hc).continuousAt

theorem flatSurvival_continuous (t : ℝ) : Continuous (fun h : ℝ => flatSurvival h t) := by
  unfold flatSurvival; fun_prop

/-- the per-period part of the annuity is continuous in the flat hazard -/
theorem periods_flat_continuous (Z : ℝ → ℝ) (z1 : ℝ) (hz1 : 0 < z1) (tail : List (ℝ × ℝ)) (tcur : ℝ)
    (hp : ∀ p ∈ tail, 0 < p.2 ∧ 0 < Z p.1) :
    Continuous (fun h : ℝ => survSum (flatSurvival h) Z tail + aodSum (flatSurvival h) Z z1 (flatSurvival h tcur) tail) := by
  induction tail generalizing tcur with
  | nil => simp [survSum, aodSum]; exact continuous_const
  | cons p rest ih =>
    obtain ⟨t, af⟩ := p
    obtain ⟨haf, hzt⟩ := hp (t, af) List.mem_cons_self
    have i := ih t (fun p hp' => hp p (List.mem_cons_of_mem _ hp'))
    have e : (fun h : ℝ => survSum (flatSurvival h) Z ((t, af) :: rest)
          + aodSum (flatSurvival h) Z z1 (flatSurvival h tcur) ((t, af) :: rest))
        = fun h : ℝ => af * z1 * flatSurvival h tcur * B (-Real.log (Z t / z1)) (1e-20 * af ^ 2) (h * (t - tcur))
            + (survSum (flatSurvival h) Z rest + aodSum (flatSurvival h) Z z1 (flatSurvival h t) rest) := by
      funext h
      have e1 : survSum (flatSurvival h) Z ((t, af) :: rest)
          = flatSurvival h t * Z t * af + survSum (flatSurvival h) Z rest := by simp [survSum]
      rw [← period_term_eq h tcur t z1 (Z t) af haf hz1 hzt, e1]
      simp only [aodSum]
      ring
    rw [e]
    have hB := B_continuous (-Real.log (Z t / z1)) (1e-20 * af ^ 2) (by positivity)
    have hq := flatSurvival_continuous tcur
    have : Continuous (fun h : ℝ => B (-Real.log (Z t / z1)) (1e-20 * af ^ 2) (h * (t - tcur))) :=
      hB.comp (continuous_id.mul continuous_const)
    exact ((continuous_const.mul hq).mul this).add i

theorem rpv01_flat_continuous (Z : ℝ → ℝ) (teff acc tncd yf1 : ℝ) (tail : List (ℝ × ℝ)) (hz : 0 < Z tncd)
    (hp : ∀ p ∈ tail, 0 < p.2 ∧ 0 < Z p.1) :
    Continuous (fun h : ℝ => (riskyPV01 opsR (flatSurvival h) Z teff acc tncd yf1 tail).1) := by
  have e : (fun h : ℝ => (riskyPV01 opsR (flatSurvival h) Z teff acc tncd yf1 tail).1)
      = fun h : ℝ => firstCoupon (flatSurvival h) Z teff acc tncd yf1
          + (survSum (flatSurvival h) Z tail + aodSum (flatSurvival h) Z (Z tncd) (flatSurvival h tncd) tail) := by
    funext h; rw [rpv01_full_decomp]; ring
  rw [e]
  have h1 := flatSurvival_continuous tncd
  have h2 := flatSurvival_continuous teff
  have hf : Continuous (fun h : ℝ => firstCoupon (flatSurvival h) Z teff acc tncd yf1) := by
    unfold firstCoupon; fun_prop
  exact hf.add (periods_flat_continuous Z (Z tncd) hz tail tncd hp)

theorem protLeg_flat_continuous (r tmat rec : ℝ) (n : ℕ) (hn : 0 < n) (hT : 0 < tmat) :
    Continuous (fun h : ℝ => protLegPV opsR (flatSurvival h) (flatDiscount r) 0 tmat rec n n) := by
  have e : (fun h : ℝ => protLegPV opsR (flatSurvival h) (flatDiscount r) 0 tmat rec n n)
      = fun h : ℝ => (1 - rec) * (h * (Real.exp (-(h + r) * 0) - Real.exp (-(h + r) * tmat)) / (|h + r| + 1e-8)) := by
    funext h; exact protLeg_flat_closed_form h r 0 tmat rec n hn hT.ne
  rw [e]
  apply Continuous.mul continuous_const
  apply Continuous.div (by fun_prop) (by fun_prop)
  intro h; positivity


/-- **cleanPV_flat_continuous** — the flat-hazard clean PV of the coded legs is continuous in the hazard. -/
theorem cleanPV_flat_continuous (r rec : ℝ) (c : Contract ℝ) (hlong : c.long = true) (hteff : c.teff = 0)
    (hnf : c.nf = c.nSteps) (hk : 0 < c.nSteps) (hT : 0 < c.tmat) (hp : ∀ p ∈ c.tail, 0 < p.2) :
    Continuous (fun h : ℝ => cleanPV opsR (flatSurvival h) (flatDiscount r) rec c) := by
  have e : (fun h : ℝ => cleanPV opsR (flatSurvival h) (flatDiscount r) rec c)
      = fun h : ℝ => protLegPV opsR (flatSurvival h) (flatDiscount r) 0 c.tmat rec c.nSteps c.nSteps * c.notional
          - c.cpn * ((riskyPV01 opsR (flatSurvival h) (flatDiscount r) 0 c.acc c.tncd c.yf1 c.tail).1 - c.acc) * c.notional := by
    funext h
    simp only [cleanPV, valueOf, rpv01Of, hlong, hteff, hnf, cdsValue, ↓reduceIte, riskyPV01]
    ring
  rw [e]
  have h1 := protLeg_flat_continuous r c.tmat rec c.nSteps hk hT
  have h2 := rpv01_flat_continuous (flatDiscount r) 0 c.acc c.tncd c.yf1 c.tail (Real.exp_pos _)
    (fun p hp' => ⟨hp p hp', Real.exp_pos _⟩)
  exact (h1.mul continuous_const).sub ((continuous_const.mul (h2.sub continuous_const)).mul continuous_const)

/-- **first_pillar_root_exists_unique** — first pass of `_build_curve`, Ibor knots on `e^{-rt}` (r ≥ 0), spot-starting
long-protection quote with positive coupon and notional whose riskless annuity covers the accrued, per-period condition
up to the hazard `h2`: if the clean PV at the knot `e^{-h2·t_mat}` is positive, there is EXACTLY ONE knot in
`[e^{-h2·t_mat}, 1]` that reprices the quote — no assumption on the solver, none on the objective. -/
theorem first_pillar_root_exists_unique (bad r rec h2 : ℝ) (lt ld : List ℝ) (hl : lt.Pairwise (· < ·))
    (hln : 2 ≤ lt.length) (hl0 : g lt 0 = 0) (hlk : ∀ k, k < lt.length → g ld k = Real.exp (-r * g lt k))
    (c : Contract ℝ) (hc : WF c) (hlong : c.long = true) (hteff : c.teff = 0) (hT : 0 < c.tmat) (hr : 0 ≤ r)
    (hh2 : 0 ≤ h2) (hrec : rec ≤ 1) (hn : 0 < c.notional) (hcp : 0 < c.cpn) (htn : 0 < c.tncd) (hacc : 0 ≤ c.acc)
    (hyf : c.acc < c.yf1) (hok : PeriodsOK h2 (flatDiscount r) (flatDiscount r c.tncd) c.tncd c.tail)
    (haf : ∀ p ∈ c.tail, 0 < p.2)
    (hann : c.acc ≤ flatDiscount r c.tncd * c.yf1 + (c.tail.map fun p => flatDiscount r p.1 * p.2).sum)
    (hpos : 0 < cdsObj opsR bad lt ld rec [0, c.tmat] [1, Real.exp (-h2 * c.tmat)] c) :
    ∃! q, q ∈ Set.Icc (Real.exp (-h2 * c.tmat)) 1 ∧ cdsObj opsR bad lt ld rec [0, c.tmat] [1, q] c = 0 := by
  set f := stepObjective Contract.tmat (cdsObj opsR bad lt ld rec) ([0], [1]) c with hf
  have hfq : ∀ q, f q = cdsObj opsR bad lt ld rec [0, c.tmat] [1, q] c := fun q => rfl
  have hanti := first_pillar_objective_strictAntiOn bad r rec h2 lt ld hl hln hl0 hlk c hc hlong hteff hT hr hrec hn
    hcp htn hacc hyf hok
  have hqlo : Real.exp (-h2 * c.tmat) ≤ 1 := by
    rw [← Real.exp_zero]; exact Real.exp_le_exp.mpr (by nlinarith)
  have hqpos : 0 < Real.exp (-h2 * c.tmat) := Real.exp_pos _
  -- on (0, ∞) the objective is the flat clean PV at h = −log q / T
  have hrep : ∀ q, 0 < q → f q = cleanPV opsR (flatSurvival (-Real.log q / c.tmat)) (flatDiscount r) rec c := by
    intro q hq
    have : q = Real.exp (-(-Real.log q / c.tmat) * c.tmat) := by
      rw [show -(-Real.log q / c.tmat) * c.tmat = Real.log q by field_simp, Real.exp_log hq]
    conv_lhs => rw [this]
    exact first_pillar_objective_eq bad r rec lt ld hl hln hl0 hlk c hc hT _
  have hcont : ContinuousOn f (Set.Icc (Real.exp (-h2 * c.tmat)) 1) := by
    have hG := cleanPV_flat_continuous r rec c hlong hteff hc.nf hc.steps hT haf
    have hh : ContinuousOn (fun q : ℝ => -Real.log q / c.tmat) (Set.Icc (Real.exp (-h2 * c.tmat)) 1) := by
      apply ContinuousOn.div_const
      apply ContinuousOn.neg
      exact Real.continuousOn_log.mono (fun q hq => ne_of_gt (lt_of_lt_of_le hqpos hq.1))
    exact (hG.comp_continuousOn hh).congr (fun q hq => hrep q (lt_of_lt_of_le hqpos hq.1))
  -- sign at zero hazard
  have h1 : f 1 ≤ 0 := by
    have e1 : (1 : ℝ) = Real.exp (-0 * c.tmat) := by simp
    rw [e1, hf, first_pillar_objective_eq bad r rec lt ld hl hln hl0 hlk c hc hT 0,
      value_zero_hazard (flatSurvival 0) (flatDiscount r) (fun t => by simp [flatSurvival]) rec c, hlong]
    simp only [↓reduceIte]
    have : 0 ≤ c.cpn * c.notional * (flatDiscount r c.tncd * c.yf1
        + (c.tail.map fun p => flatDiscount r p.1 * p.2).sum - c.acc) :=
      mul_nonneg (mul_pos hcp hn).le (by linarith)
    linarith
  have hsub := intermediate_value_Icc' hqlo hcont
  obtain ⟨q, hq, hq0⟩ := hsub ⟨h1, by rw [hfq]; exact hpos.le⟩
  refine ⟨q, ⟨hq, by rw [← hfq]; exact hq0⟩, ?_⟩
  rintro q' ⟨hq', hq'0⟩
  exact root_unique f _ hanti q' q hq' hq (by rw [hfq]; exact hq'0) hq0

/-! ### non-vacuity: the quarterly contract `C09h.exC`, Ibor curve `[(0,1), (10, e^{-0.3})]`, hazards up to 200% -/

theorem exC_wf : WF exC where
  teff0 := by norm_num [exC]
  teffT := by norm_num [exC]
  tncd0 := by norm_num [exC]
  tncdT := by norm_num [exC]
  tail := by
    intro p hp
    simp only [exC, List.mem_cons, List.not_mem_nil, or_false] at hp
    rcases hp with rfl | rfl <;> norm_num [exC]
  steps := by norm_num [exC]
  nf := by norm_num [exC]

example : StrictAntiOn (stepObjective Contract.tmat (cdsObj opsR 0 [0, 10] [1, Real.exp (-0.03 * 10)] 0.4) ([0], [1]) exC)
    (Set.Icc (Real.exp (-2 * exC.tmat)) 1) := by
  apply first_pillar_objective_strictAntiOn 0 0.03 0.4 2 [0, 10] [1, Real.exp (-0.03 * 10)] (by simp) (by simp) (by simp [g])
    _ exC exC_wf rfl rfl (by norm_num [exC]) (by norm_num) (by norm_num) (by norm_num [exC]) (by norm_num [exC])
    (by norm_num [exC]) (by norm_num [exC]) (by norm_num [exC])
  · simp only [exC]
    refine periodsOK_flat_step _ _ _ _ _ _ _ (by norm_num) (by norm_num) (by norm_num) (by norm_num) (by norm_num) ?_
    refine periodsOK_flat_step _ _ _ _ _ _ _ (by norm_num) (by norm_num) (by norm_num) (by norm_num) (by norm_num) ?_
    trivial
  · intro k hk
    simp only [List.length_cons, List.length_nil] at hk
    obtain rfl | rfl : k = 0 ∨ k = 1 := by omega
    all_goals simp [g]


theorem exC_periodsOK : PeriodsOK 2 (flatDiscount 0.03) (flatDiscount 0.03 exC.tncd) exC.tncd exC.tail := by
  simp only [exC]
  refine periodsOK_flat_step _ _ _ _ _ _ _ (by norm_num) (by norm_num) (by norm_num) (by norm_num) (by norm_num) ?_
  refine periodsOK_flat_step _ _ _ _ _ _ _ (by norm_num) (by norm_num) (by norm_num) (by norm_num) (by norm_num) ?_
  trivial

theorem flatDiscount_le_one (r t : ℝ) (hr : 0 ≤ r) (ht : 0 ≤ t) : flatDiscount r t ≤ 1 := by
  unfold flatDiscount; rw [← Real.exp_zero]; exact Real.exp_le_exp.mpr (by nlinarith)

/-- the clean PV of `exC` at hazard 200% is positive: protection ≥ 0.29 per unit, coupon × annuity ≤ 0.0075 -/
theorem exC_pos_at_h2 : 0 < cleanPV opsR (flatSurvival 2) (flatDiscount 0.03) 0.4 exC := by
  have hann : (riskyPV01 opsR (flatSurvival 2) (flatDiscount 0.03) 0 exC.acc exC.tncd exC.yf1 exC.tail).1
      ≤ (riskyPV01 opsR (flatSurvival 0) (flatDiscount 0.03) 0 exC.acc exC.tncd exC.yf1 exC.tail).1 :=
    rpv01_flat_antitone_partial (flatDiscount 0.03) 0 2 0 exC.acc exC.tncd exC.yf1 exC.tail le_rfl (by norm_num) le_rfl
      (by norm_num [exC]) (by norm_num [exC]) (by norm_num [exC]) (Real.exp_pos _) exC_periodsOK
  rw [rpv01_zero_hazard (flatSurvival 0) (flatDiscount 0.03) (fun t => by simp [flatSurvival])] at hann
  have z1 := flatDiscount_le_one 0.03 0.15 (by norm_num) (by norm_num)
  have z2 := flatDiscount_le_one 0.03 0.4 (by norm_num) (by norm_num)
  have z3 := flatDiscount_le_one 0.03 0.65 (by norm_num) (by norm_num)
  simp only [exC, List.map_cons, List.map_nil, List.sum_cons, List.sum_nil] at hann
  have hprot := protLeg_flat_closed_form 2 0.03 0 0.65 0.4 16 (by norm_num) (by norm_num)
  have hexp : Real.exp (-(2 + 0.03) * 0.65) ≤ 1 / 2 := by
    have h := Real.add_one_le_exp ((2 + 0.03) * 0.65 : ℝ)
    have hp := Real.exp_pos (-(2 + 0.03) * 0.65 : ℝ)
    have e : Real.exp ((2 + 0.03) * 0.65) * Real.exp (-(2 + 0.03) * 0.65) = 1 := by
      rw [← Real.exp_add, show ((2 : ℝ) + 0.03) * 0.65 + -(2 + 0.03) * 0.65 = 0 by ring, Real.exp_zero]
    nlinarith
  simp only [cleanPV, valueOf, rpv01Of, cdsValue, exC, ↓reduceIte, riskyPV01] at hann ⊢
  rw [show ((16 : ℕ) : ℝ) = 16 by norm_num] at hprot
  have hP : 0.29 ≤ protLegPV opsR (flatSurvival 2) (flatDiscount 0.03) 0 0.65 0.4 16 16 := by
    rw [hprot, show (-(2 + 0.03) * 0 : ℝ) = 0 by ring, Real.exp_zero, abs_of_pos (by norm_num : (0 : ℝ) < 2 + 0.03)]
    have hd : (0 : ℝ) < 2 + 0.03 + 1e-8 := by norm_num
    have : 0.29 * (2 + 0.03 + 1e-8) ≤ (1 - 0.4) * (2 * (1 - Real.exp (-(2 + 0.03) * 0.65))) := by nlinarith
    calc (0.29 : ℝ) = 0.29 * (2 + 0.03 + 1e-8) / (2 + 0.03 + 1e-8) := by field_simp
      _ ≤ (1 - 0.4) * (2 * (1 - Real.exp (-(2 + 0.03) * 0.65))) / (2 + 0.03 + 1e-8) := by
          apply div_le_div_of_nonneg_right this hd.le
      _ = (1 - 0.4) * (2 * (1 - Real.exp (-(2 + 0.03) * 0.65)) / (2 + 0.03 + 1e-8)) := by ring
  linarith

theorem flatDiscount_ge (r t : ℝ) : 1 - r * t ≤ flatDiscount r t := by
  unfold flatDiscount
  have := Real.add_one_le_exp (-r * t)
  linarith

theorem exKnots (k : ℕ) (hk : k < ([0, 10] : List ℝ).length) :
    g [1, Real.exp (-0.03 * 10)] k = Real.exp (-0.03 * g [0, 10] k) := by
  simp only [List.length_cons, List.length_nil] at hk
  obtain rfl | rfl : k = 0 ∨ k = 1 := by omega
  all_goals simp [g]

/-- all hypotheses of `first_pillar_root_exists_unique` hold for `exC` on the Ibor curve `[(0,1), (10, e^{-0.3})]`, `R = 0.4`,
hazards up to 200%: the first bootstrap pass has exactly one root in `[e^{-1.3}, 1]` -/
example : ∃! q, q ∈ Set.Icc (Real.exp (-2 * exC.tmat)) 1 ∧
    cdsObj opsR 0 [0, 10] [1, Real.exp (-0.03 * 10)] 0.4 [0, exC.tmat] [1, q] exC = 0 := by
  apply first_pillar_root_exists_unique 0 0.03 0.4 2 [0, 10] [1, Real.exp (-0.03 * 10)] (by simp) (by simp) (by simp [g])
    exKnots exC exC_wf rfl rfl (by norm_num [exC]) (by norm_num) (by norm_num) (by norm_num) (by norm_num [exC])
    (by norm_num [exC]) (by norm_num [exC]) (by norm_num [exC]) (by norm_num [exC]) exC_periodsOK
  · intro p hp
    simp only [exC, List.mem_cons, List.not_mem_nil, or_false] at hp
    rcases hp with rfl | rfl <;> norm_num
  · have a := flatDiscount_ge 0.03 0.15
    have b := flatDiscount_ge 0.03 0.4
    have c := flatDiscount_ge 0.03 0.65
    simp only [exC, List.map_cons, List.map_nil, List.sum_cons, List.sum_nil]
    nlinarith
  · have := first_pillar_objective_eq 0 0.03 0.4 [0, 10] [1, Real.exp (-0.03 * 10)] (by simp) (by simp) (by simp [g])
      exKnots exC exC_wf (by norm_num [exC]) 2
    have e : cdsObj opsR 0 [0, 10] [1, Real.exp (-0.03 * 10)] 0.4 [0, exC.tmat] [1, Real.exp (-2 * exC.tmat)] exC
        = cleanPV opsR (flatSurvival 2) (flatDiscount 0.03) 0.4 exC := this
    rw [e]
    exact exC_pos_at_h2

end FinVerif.Props.C09i
