/-
  C09 (part j) — the LOOPS of the CDS valuation.  `Gen/CdsLoopR.lean` is cut out of the source `for` statements of
  `_risky_pv01_numba`, `_prot_leg_pv_numba`, `CDSCurve._build_curve` (+ the objective `f` and the `CDS` glue methods) on
  every run (header, array indices, initial values, body as a step function, tail; `tools/py2lean/registry/cdsloops.py`).
  Here the hand-written loops of `Model/C09.lean` / `Model/C09Boot.lean` (the subject of Props/C09 … C09i) are proved to
  BE those loops: same range, same indices, same initial state, fold step = generated step, same tail — so a bound, an
  index offset, a comparison or a factor edited in the Python breaks a named theorem here.  Then the invariants that can be
  stated on the generated steps: the time grid of the protection integral ends at the maturity, the state carries the curve
  values of the previous node, no array read is out of range (except the first-coupon read `year_fracs[1]`, which needs two
  entries), the trapezoid branch telescopes, accumulators are monotone.
-/
import FinVerif.Props.C09b
import FinVerif.Props.C09d
import FinVerif.Lemmas.C09Loop
import FinVerif.Gen.CdsLoopR

set_option linter.unusedSimpArgs false
set_option linter.unusedVariables false
set_option linter.unnecessarySeqFocus false
set_option linter.unnecessarySimpa false

namespace FinVerif.Props.C09j
open FinVerif FinVerif.Model.C09 FinVerif.Props.C09c FinVerif.Lemmas.C09 FinVerif.Gen.CdsLoopR

variable (Q Z : ℝ → ℝ)

/-! ### `_risky_pv01_numba` -/

/-- C09 (tie, flag): the module constant `USE_FLAT_HAZARD_RATE_INTEGRAL` is `True` — the branch the hand model is. -/
theorem use_flat_is_generated : use_flat_hazard_rate_integral = true := rfl

/-- C09 (tie, loop header): the coupon loop is `for it in range(1, len(payment_times))`. -/
theorem rpv01_range_is_generated (n : Int) : rpv01_range n = (1, n) := rfl

/-- C09 (tie, first coupon reads): `payment_times[0]` and — AS CODED — `year_fracs[1]`. -/
theorem rpv01_first_idx_is_generated : rpv01_first_idx = (0, 1) := rfl

/-- C09 (tie, loop reads): iteration `it` reads `payment_times[it]` and `year_fracs[it]`. -/
theorem rpv01_step_idx_is_generated (it : Int) : rpv01_step_idx it = (it, it) := rfl

/-- C09 (tie, loop body, flat-hazard branch): the generated body is the hand model's coupon + accrual-on-default update,
and the only state it advances is `q1` (the discount factor `z1` stays the first coupon's). -/
theorem rpv01_step_flat (z1 full q1 t2 af : ℝ) :
    rpv01_step Q Z true z1 full q1 t2 af
      = (full + Q t2 * Z t2 * af + accrualOnDefault opsR q1 z1 (Q t2) (Z t2) af, Q t2) := by
  simp [rpv01_step, accrualOnDefault, opsR]

/-- C09 (other branch of the same body, `USE_FLAT_HAZARD_RATE_INTEGRAL = False`): half a period's accrual on the period's
default probability, discounted at the END of the period. -/
theorem rpv01_step_mid (z1 full q1 t2 af : ℝ) :
    rpv01_step Q Z false z1 full q1 t2 af
      = (full + Q t2 * Z t2 * af + 0.5 * (q1 - Q t2) * Z t2 * af, Q t2) := by
  simp [rpv01_step]

/-- C09 (tie, one iteration): one unfolding of the hand-written coupon loop is one call of the generated loop body. -/
theorem couponLoop_step_is_generated (z1 q1 acc t2 af : ℝ) (rest : List (ℝ × ℝ)) :
    couponLoop opsR Q Z z1 q1 ((t2, af) :: rest) acc
      = couponLoop opsR Q Z z1 (rpv01_step Q Z use_flat_hazard_rate_integral z1 acc q1 t2 af).2 rest
          (rpv01_step Q Z use_flat_hazard_rate_integral z1 acc q1 t2 af).1 := by
  rw [use_flat_is_generated, rpv01_step_flat]
  simp [couponLoop]

/-- C09 (tie, loop as a fold): the hand-written coupon loop is the left fold of the generated body over the
(payment time, year fraction) pairs, started at (accumulator, q1). -/
theorem couponLoop_is_generated_fold (z1 : ℝ) (l : List (ℝ × ℝ)) (q1 acc : ℝ) :
    couponLoop opsR Q Z z1 q1 l acc
      = (l.foldl (fun s e => rpv01_step Q Z use_flat_hazard_rate_integral z1 s.1 s.2 e.1 e.2) (acc, q1)).1 := by
  induction l generalizing q1 acc with
  | nil => simp [couponLoop]
  | cons e rest ih =>
    obtain ⟨t2, af⟩ := e
    rw [couponLoop_step_is_generated, ih, List.foldl_cons]

/-- C09 (tie, first coupon): the three statements before the loop. -/
theorem rpv01_init_is_generated (teff acc tncd yf1 : ℝ) :
    rpv01_init Q Z teff acc tncd yf1
      = (Q tncd * Z tncd * yf1 + Z tncd * (Q teff - Q tncd) * acc * 1
          + opsR.half * Z tncd * (Q teff - Q tncd) * (yf1 - acc) * 1, Q tncd, Z tncd) := by
  simp [rpv01_init, opsR]

/-- C09 (tie, tail): `(full, clean)` with `clean = full − accrued`. -/
theorem rpv01_tail_is_generated (full acc : ℝ) : rpv01_tail full acc = (full, full - acc) := rfl

/-- C09 (tie, WHOLE FUNCTION): the hand model of `_risky_pv01_numba`, called the way the correspondence driver calls it on
the arrays `pt = payment_times`, `yf = year_fracs` (`Model/C09F.lean: rpv01F`), IS
`init; for it in range(1, len(pt)): <generated body at the generated indices>; tail` — for every array length. -/
theorem riskyPV01_is_generated_loop (teff acc : ℝ) (pt yf : List ℝ) :
    riskyPV01 opsR Q Z teff acc (pt.getD 0 0) (yf.getD 1 0)
        ((List.range (pt.length - 1)).map fun j => (pt.getD (j + 1) 0, yf.getD (j + 1) 0))
      = (let i0 := rpv01_init Q Z teff acc (pt.getD rpv01_first_idx.1.toNat 0) (yf.getD rpv01_first_idx.2.toNat 0)
         let s := forRange (rpv01_range (pt.length : Int))
           (fun s it => rpv01_step Q Z use_flat_hazard_rate_integral i0.2.2 s.1 s.2
              (pt.getD (rpv01_step_idx it).1.toNat 0) (yf.getD (rpv01_step_idx it).2.toNat 0)) (i0.1, i0.2.1)
         rpv01_tail s.1 acc) := by
  simp only [riskyPV01, couponLoop_is_generated_fold, rpv01_init_is_generated, rpv01_first_idx_is_generated,
    rpv01_step_idx_is_generated, rpv01_range_is_generated, rpv01_tail_is_generated, List.foldl_map]
  have key : ∀ (body : ℝ × ℝ → Int → ℝ × ℝ) (s : ℝ × ℝ),
      forRange ((1 : Int), (pt.length : Int)) body s
        = (List.range (pt.length - 1)).foldl (fun s (k : Nat) => body s (1 + (k : Int))) s := by
    intro body s
    by_cases h : pt.length = 0
    · simp [forRange, h]
    · have e : ((pt.length : Nat) : Int) = 1 + ((pt.length - 1 : Nat) : Int) := by omega
      rw [e, forRange_nat]
  rw [key]
  have h2 : ∀ k : Nat, ((1 : Int) + (k : Int)).toNat = k + 1 := by intro k; omega
  simp [h2]

/-! #### invariants of the generated coupon loop -/

/-- C09: every read of iteration `it ∈ range(1, n)` is inside arrays of length `n` — no out-of-range read in the loop. -/
theorem rpv01_loop_reads_in_range (n it : Int) (hlo : (rpv01_range n).1 ≤ it) (hhi : it < (rpv01_range n).2) :
    0 ≤ (rpv01_step_idx it).1 ∧ (rpv01_step_idx it).1 < n ∧ 0 ≤ (rpv01_step_idx it).2 ∧ (rpv01_step_idx it).2 < n := by
  simp only [rpv01_range_is_generated, rpv01_step_idx_is_generated] at *
  omega

/-- C09: the loop visits every payment after the first exactly once: indices `1 … n−1`, none skipped; together with the
first-coupon read of `payment_times[0]` every payment time is used. -/
theorem rpv01_loop_covers (n : Int) (j : Int) (h1 : 1 ≤ j) (hn : j < n) :
    (rpv01_range n).1 ≤ j ∧ j < (rpv01_range n).2 ∧ (rpv01_step_idx j).1 = j ∧ rpv01_first_idx.1 = 0 := by
  refine ⟨?_, ?_, rfl, rfl⟩ <;> simp only [rpv01_range_is_generated] <;> omega

/-- C09 (as coded): the first coupon's accrual is read from `year_fracs[1]`; that read is inside the array exactly when
there are at least two year fractions. -/
theorem rpv01_first_read_in_range_iff (n : Int) : rpv01_first_idx.2 < n ↔ 2 ≤ n := by
  simp only [rpv01_first_idx_is_generated]; omega

/-- C09: in BOTH branches the carried `q1` after an iteration is the survival probability at that iteration's payment
time (the hazard of the next period is measured from it). -/
theorem rpv01_step_carries_survival (b : Bool) (z1 full q1 t2 af : ℝ) :
    (rpv01_step Q Z b z1 full q1 t2 af).2 = Q t2 := by
  cases b
  · rw [rpv01_step_mid]
  · rw [rpv01_step_flat]

/-- C09 (monotone accumulator, generated flat-hazard body): with a positive period, positive first discount factor and
non-increasing positive survival, an iteration adds at least the survival-weighted coupon. -/
theorem rpv01_step_adds_at_least_coupon (z1 full q1 t2 af : ℝ) (haf : 0 < af) (hz1 : 0 < z1) (hq2 : 0 < Q t2)
    (hq : Q t2 ≤ q1) :
    full + Q t2 * Z t2 * af ≤ (rpv01_step Q Z use_flat_hazard_rate_integral z1 full q1 t2 af).1 := by
  rw [use_flat_is_generated, rpv01_step_flat]
  have := C09d.accrualOnDefault_nonneg q1 z1 (Q t2) (Z t2) af haf hz1 hq2 hq
  simp only
  linarith

/-- C09 (mid-point branch): the accrual-on-default term is between 0 and half the period's accrual on its default
probability at the end-of-period discount factor; it vanishes iff nothing defaults (for positive `z2`, `af`). -/
theorem rpv01_step_mid_bounds (z1 full q1 t2 af : ℝ) (haf : 0 ≤ af) (hz : 0 ≤ Z t2) (hq : Q t2 ≤ q1) :
    full + Q t2 * Z t2 * af ≤ (rpv01_step Q Z false z1 full q1 t2 af).1 ∧
    (rpv01_step Q Z false z1 full q1 t2 af).1 ≤ full + Q t2 * Z t2 * af + (q1 - Q t2) * Z t2 * af := by
  rw [rpv01_step_mid]
  have h : 0 ≤ (q1 - Q t2) * Z t2 * af := mul_nonneg (mul_nonneg (sub_nonneg.mpr hq) hz) haf
  constructor <;> simp only <;> nlinarith

/-- C09 (mid-point branch, telescoping): coupon + mid-point accrual of one period is the trapezoid of survival over the
period: `½ (q1 + q2) · z2 · af`. -/
theorem rpv01_step_mid_trapezoid (z1 full q1 t2 af : ℝ) :
    (rpv01_step Q Z false z1 full q1 t2 af).1 = full + 0.5 * (q1 + Q t2) * Z t2 * af := by
  rw [rpv01_step_mid]; simp only; ring

/-! ### `_prot_leg_pv_numba` -/

/-- C09 (tie, loop header): `for _ in range(0, num_steps)` in both branches. -/
theorem prot_range_is_generated (n : Int) : prot_range n = (0, n) := rfl

/-- C09 (tie, number of steps): `num_steps = int((t_mat − teff)·steps_per_year + 0.5)`. -/
theorem prot_num_steps_arg_is_generated (teff tmat spy : ℝ) :
    prot_num_steps_arg teff tmat spy = (tmat - teff) * spy + 0.5 := rfl

/-- C09 (tie, initial state): `dt = (t_mat − teff)/num_steps`, `small = 1e-8`, `t = teff`, both curves read at `teff`,
`prot_pv = 0`. -/
theorem prot_init_is_generated (teff tmat nf : ℝ) :
    prot_init Q Z teff tmat nf = ((tmat - teff) / nf, opsR.small, teff, Q teff, Z teff, 0) := by
  simp [prot_init, opsR]

/-- C09 (tie, loop body, flat-hazard branch): the generated body in the hand model's vocabulary. -/
theorem prot_step_flat (dt small t q1 z1 pv : ℝ) :
    prot_step Q Z true dt small t q1 z1 pv
      = (t + dt, Q (t + dt), Z (t + dt),
          pv + -(Real.log (Q (t + dt) / q1)) / dt
            * (1 - Real.exp (-(-(Real.log (Z (t + dt) / z1)) / dt + -(Real.log (Q (t + dt) / q1)) / dt) * dt)) * q1 * z1
            / (|(-(Real.log (Q (t + dt) / q1)) / dt + -(Real.log (Z (t + dt) / z1)) / dt)| + small)) := by
  simp [prot_step]

/-- C09 (other branch, `USE_FLAT_HAZARD_RATE_INTEGRAL = False`): the trapezoid rule on the discount factor. -/
theorem prot_step_trap (dt small t q1 z1 pv : ℝ) :
    prot_step Q Z false dt small t q1 z1 pv
      = (t + dt, Q (t + dt), Z (t + dt), pv + 0.5 * (z1 + Z (t + dt)) * (q1 - Q (t + dt))) := by
  simp [prot_step]

/-- C09 (tie, one iteration): one unfolding of the hand-written integration loop is one call of the generated body. -/
theorem protLoop_step_is_generated (dt : ℝ) (k : Nat) (t q1 z1 acc : ℝ) :
    protLoop opsR Q Z dt (k + 1) t q1 z1 acc
      = (let g := prot_step Q Z use_flat_hazard_rate_integral dt opsR.small t q1 z1 acc
         protLoop opsR Q Z dt k g.1 g.2.1 g.2.2.1 g.2.2.2) := by
  rw [use_flat_is_generated, prot_step_flat]
  simp [protLoop, opsR]

/-- the generated body as a map of the state `(t, q1, z1, prot_pv)` -/
noncomputable def protBody (b : Bool) (dt small : ℝ) (s : ℝ × ℝ × ℝ × ℝ) : ℝ × ℝ × ℝ × ℝ :=
  prot_step Q Z b dt small s.1 s.2.1 s.2.2.1 s.2.2.2

/-- C09 (tie, loop as an iteration): the hand-written integration loop is `n` iterations of the generated body. -/
theorem protLoop_is_generated_iterate (dt : ℝ) (n : Nat) (t q1 z1 acc : ℝ) :
    protLoop opsR Q Z dt n t q1 z1 acc
      = ((protBody Q Z use_flat_hazard_rate_integral dt opsR.small)^[n] (t, q1, z1, acc)).2.2.2 := by
  induction n generalizing t q1 z1 acc with
  | zero => simp [protLoop]
  | succ k ih =>
    rw [protLoop_step_is_generated, Function.iterate_succ_apply]
    simp only [ih, protBody]

/-- C09 (tie, tail): the loss given default multiplies the sum once, after the loop. -/
theorem prot_tail_is_generated (pv rec : ℝ) : prot_tail pv rec = pv * (1 - rec) := rfl

/-- C09 (tie, WHOLE FUNCTION): the hand model of `_prot_leg_pv_numba` IS
`init; for _ in range(0, num_steps): <generated body>; tail`, for every number of steps (`nf` = the same number as a
float, which is how the source divides by it). -/
theorem protLegPV_is_generated_loop (teff tmat rec : ℝ) (n : Nat) (nf : ℝ) :
    protLegPV opsR Q Z teff tmat rec n nf
      = (let i0 := prot_init Q Z teff tmat nf
         let s := forRange (prot_range (n : Int))
           (fun s _ => prot_step Q Z use_flat_hazard_rate_integral i0.1 i0.2.1 s.1 s.2.1 s.2.2.1 s.2.2.2) i0.2.2
         prot_tail s.2.2.2 rec) := by
  simp only [protLegPV, prot_init_is_generated, prot_range_is_generated, prot_tail_is_generated]
  have h := forRange_nat (σ := ℝ × ℝ × ℝ × ℝ) 0 n
  simp only [zero_add] at h
  rw [h, foldl_range_const, protLoop_is_generated_iterate]
  rfl

/-! #### invariants of the generated integration loop -/

/-- C09 (time grid): in both branches an iteration advances the time by exactly `dt` and leaves the curve values AT THAT
TIME in the state — the next step's `q1`, `z1` are this step's `q2`, `z2` (no stale node, unlike the coupon loop). -/
theorem prot_step_state (b : Bool) (dt small t q1 z1 pv : ℝ) :
    (prot_step Q Z b dt small t q1 z1 pv).1 = t + dt ∧
    (prot_step Q Z b dt small t q1 z1 pv).2.1 = Q (t + dt) ∧
    (prot_step Q Z b dt small t q1 z1 pv).2.2.1 = Z (t + dt) := by
  cases b
  · rw [prot_step_trap]; exact ⟨rfl, rfl, rfl⟩
  · rw [prot_step_flat]; exact ⟨rfl, rfl, rfl⟩

/-- C09 (time grid, whole loop): after `n` iterations the time is `t + n·dt`, and for `n ≥ 1` the carried curve values
are the curves at that time. -/
theorem prot_iterate_time (b : Bool) (dt small : ℝ) (n : Nat) (s : ℝ × ℝ × ℝ × ℝ) :
    ((protBody Q Z b dt small)^[n] s).1 = s.1 + n * dt ∧
    (1 ≤ n → ((protBody Q Z b dt small)^[n] s).2.1 = Q (s.1 + n * dt) ∧
             ((protBody Q Z b dt small)^[n] s).2.2.1 = Z (s.1 + n * dt)) := by
  induction n with
  | zero => simp
  | succ k ih =>
    rw [Function.iterate_succ_apply']
    obtain ⟨h1, h2, h3⟩ := prot_step_state Q Z b dt small ((protBody Q Z b dt small)^[k] s).1
      ((protBody Q Z b dt small)^[k] s).2.1 ((protBody Q Z b dt small)^[k] s).2.2.1 ((protBody Q Z b dt small)^[k] s).2.2.2
    have e : s.1 + (k : ℝ) * dt + dt = s.1 + ((k + 1 : Nat) : ℝ) * dt := by push_cast; ring
    refine ⟨?_, fun _ => ⟨?_, ?_⟩⟩
    · show (prot_step Q Z b dt small _ _ _ _).1 = _
      rw [h1, ih.1, e]
    · show (prot_step Q Z b dt small _ _ _ _).2.1 = _
      rw [h2, ih.1, e]
    · show (prot_step Q Z b dt small _ _ _ _).2.2.1 = _
      rw [h3, ih.1, e]

/-- C09 (time grid ends at maturity): with the generated `dt` and `num_steps ≥ 1` iterations started from the generated
initial state, the last node of the integration is EXACTLY the maturity time. -/
theorem prot_grid_ends_at_maturity (b : Bool) (teff tmat : ℝ) (n : Nat) (hn : 1 ≤ n) :
    let i0 := prot_init Q Z teff tmat (n : ℝ)
    ((protBody Q Z b i0.1 i0.2.1)^[n] i0.2.2).1 = tmat := by
  intro i0
  have h := (prot_iterate_time Q Z b i0.1 i0.2.1 n i0.2.2).1
  rw [h]
  simp only [i0, prot_init_is_generated]
  have : (n : ℝ) ≠ 0 := by positivity
  field_simp
  ring

/-- C09 (trapezoid branch telescopes): for a CONSTANT discount factor `c` the trapezoid sum is exactly
`c · (Q(start) − Q(end))` for every number of steps — the protection leg is the discounted default probability. -/
theorem prot_trap_const_discount (c dt small : ℝ) (hZ : ∀ x, Z x = c) (n : Nat) (t pv : ℝ) :
    ((protBody Q Z false dt small)^[n] (t, Q t, c, pv)).2.2.2 = pv + c * (Q t - Q (t + n * dt)) := by
  induction n generalizing t pv with
  | zero => simp
  | succ k ih =>
    rw [Function.iterate_succ_apply]
    have : protBody Q Z false dt small (t, Q t, c, pv) = (t + dt, Q (t + dt), c, pv + c * (Q t - Q (t + dt))) := by
      simp only [protBody, prot_step_trap, hZ]
      congr 3; ring
    rw [this, ih]
    have e : t + dt + (k : ℝ) * dt = t + ((k + 1 : Nat) : ℝ) * dt := by push_cast; ring
    rw [e]; ring

/-- C09 (monotone accumulator, trapezoid branch): non-negative discount factors and non-increasing survival over the
step ⇒ the step adds a non-negative amount. -/
theorem prot_step_trap_nonneg (dt small t q1 z1 pv : ℝ) (hz1 : 0 ≤ z1) (hz2 : 0 ≤ Z (t + dt)) (hq : Q (t + dt) ≤ q1) :
    pv ≤ (prot_step Q Z false dt small t q1 z1 pv).2.2.2 := by
  rw [prot_step_trap]
  have : 0 ≤ 0.5 * (z1 + Z (t + dt)) * (q1 - Q (t + dt)) :=
    mul_nonneg (mul_nonneg (by norm_num) (add_nonneg hz1 hz2)) (sub_nonneg.mpr hq)
  simp only
  linarith

/-! ### the `CDS` glue methods -/

/-- C09 (tie): `CDS.value` — `prot_leg_pv` already carries the notional, the long-protection sign is ±1, the dirty PV uses the
full and the clean PV the clean annuity. -/
theorem cdsValue_is_generated (long : Bool) (cpn notional prot full clean : ℝ) :
    cdsValue long cpn notional prot full clean = cds_value full clean (prot * notional) cpn notional long := by
  cases long <;> simp [cdsValue, cds_value]

/-- C09 (tie): `CDS.par_spread`. -/
theorem parSpread_is_generated (cpn notional prot clean : ℝ) (long : Bool) :
    parSpread notional prot clean = cds_par_spread clean (prot * notional) cpn notional long := by
  simp [parSpread, cds_par_spread]

/-- C09 (tie): `CDS.accrued_interest` (negative for the protection buyer). -/
theorem accruedInterest_is_generated (long : Bool) (cpn notional acc : ℝ) :
    accruedInterest long cpn notional acc = cds_accrued_interest acc cpn notional long := by
  cases long <;> simp [accruedInterest, cds_accrued_interest]

/-- C09 (tie): `CDS.premium_leg_pv`. -/
theorem premiumLegPV_is_generated (long : Bool) (cpn notional full : ℝ) :
    premiumLegPV cpn notional full = cds_premium_leg_pv full cpn notional long := by
  simp [premiumLegPV, cds_premium_leg_pv]

/-- C09 (tie): `CDS.prot_leg_pv` — times are ACT/365 from the valuation date, the kernel value is multiplied by the
notional (this is `protOf`). -/
theorem protLegGlue_is_generated (vd step mat : Int) (k cpn notional : ℝ) (long : Bool) :
    cds_prot_leg_glue vd k cpn notional long step mat
      = (((step - vd : Int) : ℝ) / 365, ((mat - vd : Int) : ℝ) / 365, k * notional) := by
  simp [cds_prot_leg_glue]

/-- C09 (tie): `protOf` is the generated glue applied to the generated-loop kernel. -/
theorem protOf_is_generated (rec : ℝ) (c : Contract ℝ) (vd step mat : Int) :
    protOf opsR Q Z rec c
      = (cds_prot_leg_glue vd (protLegPV opsR Q Z c.teff c.tmat rec c.nSteps c.nf) c.cpn c.notional c.long step mat).2.2 := by
  simp [protOf, cds_prot_leg_glue]

/-- C09 (tie, `CDS.risky_pv01` filter loop): a schedule date enters `payment_times` iff it is STRICTLY after the valuation
date (`t > 0.0`), with time `(date − value_dt)/365`. -/
theorem payment_time_is_generated (d vd : Int) :
    ((cds_payment_time d vd).1 = true ↔ vd < d) ∧ (cds_payment_time d vd).2 = ((d - vd : Int) : ℝ) / 365 := by
  constructor
  · have key : (0 : ℝ) < ((d - vd : Int) : ℝ) / 365 ↔ vd < d := by
      rw [div_pos_iff_of_pos_right (by norm_num : (0 : ℝ) < 365)]
      constructor
      · intro h
        have : (0 : Int) < d - vd := by exact_mod_cast h
        omega
      · intro h
        exact_mod_cast (by omega : 0 < d - vd)
    simpa [cds_payment_time] using key
  · simp [cds_payment_time]

/-- C09: consequently every payment time handed to the kernel is strictly positive. -/
theorem payment_times_positive (d vd : Int) (h : (cds_payment_time d vd).1 = true) : 0 < (cds_payment_time d vd).2 := by
  have hh := (payment_time_is_generated d vd).1.mp h
  rw [(payment_time_is_generated d vd).2]
  have : (0 : ℝ) < ((d - vd : Int) : ℝ) := by exact_mod_cast (by omega : 0 < d - vd)
  exact div_pos this (by norm_num)

/-! ### `CDSCurve._build_curve` and the objective `f` -/

/-- C09 (tie, loop header): one pass per contract, `for i in range(0, num_times)`. -/
theorem boot_range_is_generated (n : Int) : boot_range n = (0, n) := rfl

/-- C09 (tie, initial knot): `_times = [0.0]`, `_values = [1.0]` — what `bootstrap … 0 1` is started from. -/
theorem boot_init_is_generated : boot_init = (0, 1) := rfl

/-- C09 (tie): pass `i` starts the solver from `_values[i]`; `f` writes the trial value into `_values[num_points − 1]`;
the solver is the secant `newton(f, x0 = q, tol = 1e-7, maxiter = 50)`. -/
theorem boot_indices_are_generated (i n : Int) (q : ℝ) :
    boot_q_idx i = i ∧ boot_f_write_idx n = n - 1 ∧ boot_solver_args q = (q, 1e-7, 50) := ⟨rfl, rfl, rfl⟩

/-- C09 (tie): the knot time of a pillar is ACT/365 from the valuation date. -/
theorem boot_tmat_is_generated (mat vd : Int) : boot_tmat mat vd = ((mat - vd : Int) : ℝ) / 365 := rfl

/-- C09 (tie, start value of a pass): when pass `i` begins the curve has `i + 1` knots, so the generated read
`_values[boot_q_idx i]` IS the last knot value — the `getLastD` the hand model's `bootStep` starts the solver from —
and the index `f` writes, `boot_f_write_idx (len + 1)` after the append, IS the appended knot: the hand model's
`s.2 ++ [q]`. -/
theorem bootStep_reads_are_generated (vs : List ℝ) (i : Nat) (hlen : vs.length = i + 1) (q x0 : ℝ) :
    vs.getLastD default = vs.getD (boot_q_idx (i : Int)).toNat default ∧
    (vs ++ [x0]).set (boot_f_write_idx ((vs ++ [x0]).length : Int)).toNat q = vs ++ [q] := by
  constructor
  · have hne : vs ≠ [] := by intro h; simp [h] at hlen
    have hi : (boot_q_idx (i : Int)).toNat = vs.length - 1 := by
      show ((i : Int)).toNat = _
      omega
    rw [hi, List.getLastD_eq_getLast?, List.getLast?_eq_some_getLast hne, List.getLast_eq_getElem]
    simp [List.getD_eq_getElem?_getD, List.getElem?_eq_getElem (show vs.length - 1 < vs.length by omega)]
  · have hw : (boot_f_write_idx ((vs ++ [x0]).length : Int)).toNat = vs.length := by
      show (((vs ++ [x0]).length : Int) - 1).toNat = _
      simp
    rw [hw]
    simp [List.set_append]

/-- C09 (tie, the pass count and the knot count): after the generated number of passes over `cs` the hand-model curve has
`1 + len(cs)` knots, so in pass `i` the precondition of `bootStep_reads_are_generated` holds. -/
theorem bootFrom_knot_count {κ : Type} (solve : (ℝ → ℝ) → ℝ → ℝ) (tmat : κ → ℝ) (obj : List ℝ → List ℝ → κ → ℝ)
    (cs : List κ) :
    (bootFrom solve tmat obj ([boot_init.1], [boot_init.2]) cs).2.length = cs.length + 1 ∧
    (bootFrom solve tmat obj ([boot_init.1], [boot_init.2]) cs).1.length = cs.length + 1 := by
  obtain ⟨sd, he, hl⟩ := C09b.bootFrom_extends solve tmat obj cs ([boot_init.1], [boot_init.2])
  rw [he]
  simp [hl]

/-! ### non-vacuity -/

example : ∃ (Q Z : ℝ → ℝ) (z1 full q1 t2 af : ℝ), 0 < af ∧ 0 < z1 ∧ 0 < Q t2 ∧ Q t2 ≤ q1 :=
  ⟨fun _ => 1, fun _ => 1, 1, 0, 1, 1, 1, by norm_num, by norm_num, by norm_num, by norm_num⟩

example : ∃ (vs : List ℝ) (i : Nat), vs.length = i + 1 := ⟨[1], 0, rfl⟩

end FinVerif.Props.C09j
