/-
  C10 (part a) — FX forward as generated from `FXForward.forward/value`: covered interest parity, the value entry, a forward
  struck at the forward is worth zero.
-/
import FinVerif.Props.C10t

set_option linter.unusedVariables false
set_option linter.unusedSimpArgs false

namespace FinVerif.Props.C10
open FinVerif FinVerif.Gen FinVerif.C05 FinVerif.C10 FinVerif.Props.C05

/-! ### FX forward -/

/-- C10: the coded forward rate is covered interest parity, `F = S·df_for/df_dom`, for every spot > 0 and t ≥ 0. -/
theorem forward_eq_spot_df_ratio (t s dfFor dfDom : ℝ) (hs : 0 < s) (ht : 0 ≤ t) :
    FXR.fx_forward t s dfFor dfDom = .ok (CIPForward s dfFor dfDom) := by
  have h1 : ¬ (s ≤ 0) := not_le.mpr hs
  have h2 : ¬ (t < 0) := not_lt.mpr ht
  simp only [FXR.fx_forward, CIPForward, h1, h2, decide_false, decide_true, if_false, Bool.false_eq_true]

/-- C10: what the coded forward rejects: non-positive spot, negative time (`FinError`). -/
theorem forward_errors (t s dfFor dfDom : ℝ) (h : s ≤ 0 ∨ t < 0) :
    FXR.fx_forward t s dfFor dfDom = .error .finError := by
  by_cases h1 : s ≤ 0
  · simp [FXR.fx_forward, h1]
  · have h2 : t < 0 := h.resolve_left h1
    simp [FXR.fx_forward, h1, h2]

example : FXR.fx_forward 1 (6/5) (99/100) (97/100) = .ok (CIPForward (6/5) (99/100) (97/100)) :=
  forward_eq_spot_df_ratio _ _ _ _ (by norm_num) (by norm_num)

/-- the value entry of the coded `FXForward.value` for a notional in the FOREIGN currency: `value = (F − K)·N·df_dom`
(the other four entries are the subject of `Props/C10w`). -/
theorem forward_value_for (t s dd tf ff fd K N : ℝ) (nc dn fn : Int) (hs : 0 < s) (ht : 0 ≤ t) (htf : 0 ≤ tf)
    (hnc : nc = fn) (hne : fn ≠ dn) :
    ∃ r, FXR.fx_forward_value t s dd tf ff fd K N nc dn fn = .ok r ∧ r.1 = (CIPForward s ff fd - K) * N * dd := by
  subst hnc
  have h1 : ¬ (s ≤ 0) := not_le.mpr hs
  have h2 : ¬ (t < 0) := not_lt.mpr ht
  simp only [FXR.fx_forward_value, forward_eq_spot_df_ratio tf s ff fd hs htf, h1, h2, hne, decide_false, decide_true,
    if_false, if_true, Bool.false_eq_true]
  exact ⟨_, rfl, rfl⟩

/-- the value entry of the coded `FXForward.value` for a notional in the DOMESTIC currency: `value = (F − K)·(N/K)·df_dom`,
the domestic value of the contract on `N/K` units of foreign currency (was `(F − K)·N·df·F` before /repo commit d214945). -/
theorem forward_value_dom (t s dd tf ff fd K N : ℝ) (nc dn fn : Int) (hs : 0 < s) (ht : 0 ≤ t) (htf : 0 ≤ tf)
    (hnc : nc = dn) (hne : dn ≠ fn) :
    ∃ r, FXR.fx_forward_value t s dd tf ff fd K N nc dn fn = .ok r ∧ r.1 = (CIPForward s ff fd - K) * (N / K) * dd := by
  subst hnc
  have h1 : ¬ (s ≤ 0) := not_le.mpr hs
  have h2 : ¬ (t < 0) := not_lt.mpr ht
  simp only [FXR.fx_forward_value, forward_eq_spot_df_ratio tf s ff fd hs htf, h1, h2, hne, decide_false, decide_true,
    if_false, if_true, Bool.false_eq_true]
  exact ⟨_, rfl, rfl⟩

/-- C10: **the value of a forward does not depend on the currency the notional is quoted in**: a domestic notional `N` and
the foreign notional `N/K` (the same contract) have the same coded value — for all inputs, any strike (including 0, where
both sides are the totalised 0-notional contract). -/
theorem forward_notional_currency_consistent (t s dd tf ff fd K N : ℝ) (dn fn : Int) (hs : 0 < s) (ht : 0 ≤ t)
    (htf : 0 ≤ tf) (hne : dn ≠ fn) :
    (okv (FXR.fx_forward_value t s dd tf ff fd K N dn dn fn)).1 = (okv (FXR.fx_forward_value t s dd tf ff fd K (N / K) fn dn fn)).1 := by
  obtain ⟨r1, e1, hr1⟩ := forward_value_dom t s dd tf ff fd K N dn dn fn hs ht htf rfl hne
  obtain ⟨r2, e2, hr2⟩ := forward_value_for t s dd tf ff fd K (N / K) fn dn fn hs ht htf rfl (Ne.symm hne)
  rw [e1, e2, okv_ok, okv_ok, hr1, hr2]

/-- C10: with a DOMESTIC notional the coded value is `(N/K) ×` the spec's forward value (same-df hypothesis as below). -/
theorem forward_value_dom_eq_spec_partial (t s tf ff fd K N : ℝ) (nc dn fn : Int) (hs : 0 < s) (ht : 0 ≤ t) (htf : 0 ≤ tf)
    (hnc : nc = dn) (hne : dn ≠ fn) :
    (okv (FXR.fx_forward_value t s fd tf ff fd K N nc dn fn)).1 = N / K * ForwardValue s K ff fd := by
  obtain ⟨r, h, hr⟩ := forward_value_dom t s fd tf ff fd K N nc dn fn hs ht htf hnc hne
  rw [h, okv_ok, hr]
  simp only [ForwardValue]; ring

/-- C10: a forward struck at the forward rate is worth zero — value and both cash views, either notional currency
(proved from the generated text directly, so it does not depend on how the non-zero values are scaled). -/
theorem forward_struck_at_forward_is_zero (t s dd tf ff fd N : ℝ) (nc dn fn : Int) (hs : 0 < s) (ht : 0 ≤ t)
    (htf : 0 ≤ tf) (hnc : nc = dn ∨ nc = fn) (hne : dn ≠ fn) :
    ∃ nd nf, FXR.fx_forward_value t s dd tf ff fd (CIPForward s ff fd) N nc dn fn = .ok (0, 0, 0, nd, nf) := by
  have h1 : ¬ (s ≤ 0) := not_le.mpr hs
  have h2 : ¬ (t < 0) := not_lt.mpr ht
  rcases hnc with h | h
  · subst h
    refine ⟨N, N / CIPForward s ff fd, ?_⟩
    simp only [FXR.fx_forward_value, forward_eq_spot_df_ratio tf s ff fd hs htf, h1, h2, hne, decide_false, decide_true,
      if_false, if_true, Bool.false_eq_true, sub_self, zero_mul, zero_div]
  · subst h
    refine ⟨N * CIPForward s ff fd, N, ?_⟩
    simp only [FXR.fx_forward_value, forward_eq_spot_df_ratio tf s ff fd hs htf, h1, h2, hne, Ne.symm hne, decide_false,
      decide_true, if_false, if_true, Bool.false_eq_true, sub_self, zero_mul, zero_div]

example : ∃ nd nf, FXR.fx_forward_value 1 (6/5) (97/100) 1 (99/100) (97/100) (CIPForward (6/5) (99/100) (97/100)) 1000000 1 1 2
    = .ok (0, 0, 0, nd, nf) :=
  forward_struck_at_forward_is_zero _ _ _ _ _ _ _ 1 1 2 (by norm_num) (by norm_num) (by norm_num) (Or.inl rfl) (by decide)

/-- C10: with a FOREIGN notional the coded value is `N ×` the spec's forward value when the discount factor used for
discounting (`dd`, at the expiry date) is the one used in the forward (`fd`, at the delivery date). -/
theorem forward_value_eq_spec_partial (t s tf ff fd K N : ℝ) (nc dn fn : Int) (hs : 0 < s) (ht : 0 ≤ t) (htf : 0 ≤ tf)
    (hnc : nc = fn) (hne : fn ≠ dn) :
    (okv (FXR.fx_forward_value t s fd tf ff fd K N nc dn fn)).1 = N * ForwardValue s K ff fd := by
  obtain ⟨r, h, hr⟩ := forward_value_for t s fd tf ff fd K N nc dn fn hs ht htf hnc hne
  rw [h, okv_ok, hr]
  simp only [ForwardValue]; ring

end FinVerif.Props.C10
