/-
  C10 (part b) — `FXVanillaOption.value` as generated: closed form, premium views, call − put = forward,
  foreign/domestic symmetry.  Statements are proved for the generated source with the cdf abstracted (`Gen/FXP`, any Φ)
  and specialised to the code's own `N` (`Gen/FXR`) through the `rfl` ties of part a.
-/
import FinVerif.Props.C10t

set_option linter.unusedVariables false
set_option linter.unusedSimpArgs false

namespace FinVerif.Props.C10
open FinVerif FinVerif.Gen FinVerif.C05 FinVerif.C10 FinVerif.Props.C05

/-- the continuously compounded rate the code extracts from a discount factor at the (clamped) delivery time -/
noncomputable def rateOf (df tdel : ℝ) : ℝ := -(Real.log df) / max tdel 1e-10

/-- the Garman–Kohlhagen value as the code forms it: `bs_value(S, t_exp, K, r_d(t_del), r_f(t_del), max(vol, 1e-10), type)` -/
noncomputable def gkVal (Φ : ℝ → ℝ) (td te s dd df K vol : ℝ) (ty : Int) : ℝ :=
  okVal (BSP.bs_value Φ s te K (rateOf dd td) (rateOf df td) (max vol 1e-10) ty)

/-- the two notionals as coded: premium currency = DOM ⇒ (N, N/K), = FOR ⇒ (N·K, N) -/
noncomputable def notDomOf (N K : ℝ) (pc dn : Int) : ℝ := if pc = dn then N else N * K
noncomputable def notForOf (N K : ℝ) (pc dn : Int) : ℝ := if pc = dn then N / K else N

/-- closed form of the generated `FXVanillaOption.value` on its domain (spot > 0, t_del ≥ 0, vol ≥ 0, European type,
premium currency one of the pair). -/
theorem vanilla_value_shape (Φ : ℝ → ℝ) (td te s dd df K N vol : ℝ) (ty pc dn fn : Int) (hs : 0 < s) (htd : 0 ≤ td)
    (hv : 0 ≤ vol) (hty : ty = 1 ∨ ty = 2) (hpc : pc = dn ∨ pc = fn) :
    FXP.fx_vanilla_value Φ td te s dd df K N vol ty pc dn fn
      = .ok (gkVal Φ td te s dd df K vol ty,
             gkVal Φ td te s dd df K vol ty * notDomOf N K pc dn / K,
             gkVal Φ td te s dd df K vol ty * notForOf N K pc dn / s,
             gkVal Φ td te s dd df K vol ty,
             gkVal Φ td te s dd df K vol ty / (s * K),
             gkVal Φ td te s dd df K vol ty / K,
             gkVal Φ td te s dd df K vol ty / s,
             notDomOf N K pc dn, notForOf N K pc dn) := by
  have h1 : ¬ (s ≤ 0) := not_le.mpr hs
  have h2 : ¬ (td < 0) := not_lt.mpr htd
  have h3 : ¬ (vol < 0) := not_lt.mpr hv
  have e1 := bs_value_shape Φ s te K (rateOf dd td) (rateOf df td) (max vol 1e-10) (ty := 1) (Or.inl rfl)
  have e2 := bs_value_shape Φ s te K (rateOf dd td) (rateOf df td) (max vol 1e-10) (ty := 2) (Or.inr rfl)
  unfold rateOf at e1 e2
  by_cases hd : pc = dn
  · rcases hty with rfl | rfl
    · simp only [FXP.fx_vanilla_value, gkVal, rateOf, notDomOf, notForOf, e1, h1, h2, h3, hd, decide_false, decide_true,
        if_false, if_true, Bool.false_eq_true, okVal_ok]
    · simp only [FXP.fx_vanilla_value, gkVal, rateOf, notDomOf, notForOf, e2, h1, h2, h3, hd, decide_false, decide_true,
        if_false, if_true, Bool.false_eq_true, okVal_ok, show ¬ ((2 : Int) = 1) by decide]
  · have hf : pc = fn := hpc.resolve_left hd
    subst hf
    rcases hty with rfl | rfl
    · simp only [FXP.fx_vanilla_value, gkVal, rateOf, notDomOf, notForOf, e1, h1, h2, h3, hd, decide_false, decide_true,
        if_false, if_true, Bool.false_eq_true, okVal_ok]
    · simp only [FXP.fx_vanilla_value, gkVal, rateOf, notDomOf, notForOf, e2, h1, h2, h3, hd, decide_false, decide_true,
        if_false, if_true, Bool.false_eq_true, okVal_ok, show ¬ ((2 : Int) = 1) by decide]

/-- the first component (key `"v"`) -/
theorem vanilla_v (Φ : ℝ → ℝ) (td te s dd df K N vol : ℝ) (ty pc dn fn : Int) (hs : 0 < s) (htd : 0 ≤ td)
    (hv : 0 ≤ vol) (hty : ty = 1 ∨ ty = 2) (hpc : pc = dn ∨ pc = fn) :
    (okv (FXP.fx_vanilla_value Φ td te s dd df K N vol ty pc dn fn)).1 = gkVal Φ td te s dd df K vol ty := by
  rw [vanilla_value_shape Φ td te s dd df K N vol ty pc dn fn hs htd hv hty hpc]; rfl

/-- C10: what the coded value rejects (`FinError`): spot ≤ 0, negative delivery time, negative volatility. -/
theorem vanilla_value_errors (Φ : ℝ → ℝ) (td te s dd df K N vol : ℝ) (ty pc dn fn : Int)
    (h : s ≤ 0 ∨ td < 0 ∨ vol < 0) :
    FXP.fx_vanilla_value Φ td te s dd df K N vol ty pc dn fn = .error .finError := by
  by_cases h1 : s ≤ 0
  · simp [FXP.fx_vanilla_value, h1]
  · by_cases h2 : td < 0
    · simp [FXP.fx_vanilla_value, h1, h2]
    · have h3 : vol < 0 := (h.resolve_left h1).resolve_left h2
      simp [FXP.fx_vanilla_value, h1, h2, h3]

/-! ### premium views -/

/-- C10: the nine numeric entries of the dictionary returned by the coded `FXVanillaOption.value` are ONE number `v`
converted at spot / strike, for both premium-currency choices and both option types, every spot > 0 and strike ≠ 0. -/
theorem premium_views_consistent (td te s dd df K N vol : ℝ) (ty pc dn fn : Int) (hs : 0 < s) (htd : 0 ≤ td)
    (hv : 0 ≤ vol) (hK : K ≠ 0) (hty : ty = 1 ∨ ty = 2) (hpc : pc = dn ∨ pc = fn) :
    ∃ v cd cf pd pf qd qf nd nf,
      FXR.fx_vanilla_value td te s dd df K N vol ty pc dn fn = .ok (v, cd, cf, pd, pf, qd, qf, nd, nf)
      ∧ PremiumViews v cd cf pd pf qd qf nd nf s K := by
  rw [← tie_vanilla_value, vanilla_value_shape BSR.N td te s dd df K N vol ty pc dn fn hs htd hv hty hpc]
  refine ⟨_, _, _, _, _, _, _, _, _, rfl, ?_⟩
  have hs' : s ≠ 0 := hs.ne'
  by_cases hd : pc = dn
  · constructor <;> simp only [notDomOf, notForOf, hd, if_true] <;> field_simp
  · constructor <;> simp only [notDomOf, notForOf, hd, if_false] <;> field_simp

example : ∃ r, FXR.fx_vanilla_value 1 1 (6/5) (97/100) (99/100) (5/4) 1000000 (1/10) 1 1 1 2 = .ok r := by
  obtain ⟨v, cd, cf, pd, pf, qd, qf, nd, nf, h, _⟩ := premium_views_consistent 1 1 (6/5) (97/100) (99/100) (5/4) 1000000
    (1/10) 1 1 1 2 (by norm_num) (by norm_num) (by norm_num) (by norm_num) (Or.inl rfl) (Or.inl rfl)
  exact ⟨_, h⟩

/-! ### call − put -/

/-- as coded, for ANY cdf symmetric at d₁, d₂ and any pair of times: call − put = S·e^{−r_f·t_exp} − K·e^{−r_d·t_exp}
with the rates implied at `t_del` (clamps of `bs_value` included). -/
theorem call_minus_put_as_coded (Φ : ℝ → ℝ) (td te s dd df K N vol : ℝ) (pc dn fn : Int) (hs : 0 < s) (htd : 0 ≤ td)
    (hv : 0 ≤ vol) (hpc : pc = dn ∨ pc = fn)
    (h1 : Φ (d1Of s te K (rateOf dd td) (rateOf df td) (max vol 1e-10)) + Φ (-d1Of s te K (rateOf dd td) (rateOf df td) (max vol 1e-10)) = 1)
    (h2 : Φ (d2Of s te K (rateOf dd td) (rateOf df td) (max vol 1e-10)) + Φ (-d2Of s te K (rateOf dd td) (rateOf df td) (max vol 1e-10)) = 1) :
    (okv (FXP.fx_vanilla_value Φ td te s dd df K N vol 1 pc dn fn)).1 - (okv (FXP.fx_vanilla_value Φ td te s dd df K N vol 2 pc dn fn)).1
      = ssOf s te (rateOf df td) - kkOf K te (rateOf dd td) := by
  rw [vanilla_v Φ td te s dd df K N vol 1 pc dn fn hs htd hv (Or.inl rfl) hpc,
    vanilla_v Φ td te s dd df K N vol 2 pc dn fn hs htd hv (Or.inr rfl) hpc]
  exact bs_put_call_parity_gen Φ s te K _ _ _ h1 h2

/-- `exp(−rateOf(df, t)·t) = df` when the option time IS the (clamped) delivery time -/
theorem exp_rate (df td : ℝ) (hdf : 0 < df) (htd : 1e-10 ≤ td) : Real.exp (-(rateOf df td) * td) = df := by
  have ht : td ≠ 0 := (lt_of_lt_of_le (by norm_num) htd).ne'
  rw [rateOf, max_eq_left htd]
  have : -(-Real.log df / td) * td = Real.log df := by field_simp
  rw [this, Real.exp_log hdf]

/-- The FULL statement of the property's parity clause for the generated formula: for every symmetric cdf and all inputs
in the domain (two independent times, as in the code), call − put = value of the forward struck at K. -/
def CallMinusPutEqForward : Prop :=
  ∀ Φ : ℝ → ℝ, (∀ x, Φ x + Φ (-x) = 1) → ∀ td te s dd df K N vol : ℝ, ∀ pc dn fn : Int,
    0 < s → 1e-10 ≤ td → 1e-12 ≤ te → 0 < dd → 0 < df → 1e-12 ≤ K → 0 ≤ vol → (pc = dn ∨ pc = fn) →
    CallPutParity (okv (FXP.fx_vanilla_value Φ td te s dd df K N vol 1 pc dn fn)).1
      (okv (FXP.fx_vanilla_value Φ td te s dd df K N vol 2 pc dn fn)).1 s K df dd

/-- C10: **call − put = forward value at the strike** when the option time equals the delivery time
(`t_exp = t_del`; the hypothesis the code forces — it prices with `t_exp` but implies the rates at `t_del`). -/
theorem call_minus_put_eq_forward_partial (Φ : ℝ → ℝ) (hΦ : ∀ x, Φ x + Φ (-x) = 1) (t s dd df K N vol : ℝ) (pc dn fn : Int)
    (hs : 0 < s) (ht : 1e-10 ≤ t) (hdd : 0 < dd) (hdf : 0 < df) (hK : 1e-12 ≤ K) (hv : 0 ≤ vol) (hpc : pc = dn ∨ pc = fn) :
    CallPutParity (okv (FXP.fx_vanilla_value Φ t t s dd df K N vol 1 pc dn fn)).1
      (okv (FXP.fx_vanilla_value Φ t t s dd df K N vol 2 pc dn fn)).1 s K df dd := by
  have ht0 : 0 ≤ t := le_trans (by norm_num) ht
  have ht12 : (1e-12 : ℝ) ≤ t := le_trans (by norm_num) ht
  unfold CallPutParity
  rw [call_minus_put_as_coded Φ t t s dd df K N vol pc dn fn hs ht0 hv hpc (hΦ _) (hΦ _)]
  rw [ssOf, kkOf, max_eq_left ht12, max_eq_left hK, exp_rate df t hdf ht, exp_rate dd t hdd ht, ForwardValue, CIPForward]
  field_simp

/-- the same for the code's own `N` (symmetric off 0): hypothesis d₁ ≠ 0, d₂ ≠ 0 as in C05 -/
theorem call_minus_put_eq_forward_coded_partial (t s dd df K N vol : ℝ) (pc dn fn : Int)
    (hs : 0 < s) (ht : 1e-10 ≤ t) (hdd : 0 < dd) (hdf : 0 < df) (hK : 1e-12 ≤ K) (hv : 0 ≤ vol) (hpc : pc = dn ∨ pc = fn)
    (hd1 : d1Of s t K (rateOf dd t) (rateOf df t) (max vol 1e-10) ≠ 0)
    (hd2 : d2Of s t K (rateOf dd t) (rateOf df t) (max vol 1e-10) ≠ 0) :
    CallPutParity (okv (FXR.fx_vanilla_value t t s dd df K N vol 1 pc dn fn)).1
      (okv (FXR.fx_vanilla_value t t s dd df K N vol 2 pc dn fn)).1 s K df dd := by
  have ht0 : 0 ≤ t := le_trans (by norm_num) ht
  have ht12 : (1e-12 : ℝ) ≤ t := le_trans (by norm_num) ht
  unfold CallPutParity
  rw [← tie_vanilla_value, ← tie_vanilla_value,
    call_minus_put_as_coded BSR.N t t s dd df K N vol pc dn fn hs ht0 hv hpc (N_symm _ hd1) (N_symm _ hd2)]
  rw [ssOf, kkOf, max_eq_left ht12, max_eq_left hK, exp_rate df t hdf ht, exp_rate dd t hdd ht, ForwardValue, CIPForward]
  field_simp

example : (1e-10 : ℝ) ≤ 1 ∧ (0 : ℝ) < 97/100 ∧ (1e-12 : ℝ) ≤ 5/4 := by norm_num

/-- C10 counterexample (finding `C10/parity-texp-vs-tdel`): t_del = 1, t_exp = 2, S = K = 1, df_for = 1, df_dom = e⁻¹
(r_d = 1): the coded call − put is 1 − e⁻², the forward struck at K is worth 1 − e⁻¹. -/
theorem call_minus_put_full_false : ¬ CallMinusPutEqForward := by
  intro h
  have hΦ : ∀ x : ℝ, (fun _ : ℝ => (1 / 2 : ℝ)) x + (fun _ : ℝ => (1 / 2 : ℝ)) (-x) = 1 := by intro x; norm_num
  have := h (fun _ => 1 / 2) hΦ 1 2 1 (Real.exp (-1)) 1 1 1 1 1 1 2 (by norm_num) (by norm_num) (by norm_num)
    (Real.exp_pos _) (by norm_num) (by norm_num) (by norm_num) (Or.inl rfl)
  unfold CallPutParity at this
  rw [call_minus_put_as_coded (fun _ => 1 / 2) 1 2 1 (Real.exp (-1)) 1 1 1 1 1 1 2 (by norm_num) (by norm_num) (by norm_num)
    (Or.inl rfl) (by norm_num) (by norm_num)] at this
  have r1 : rateOf (Real.exp (-1)) 1 = 1 := by
    rw [rateOf, Real.log_exp, max_eq_left (by norm_num)]; norm_num
  have r2 : rateOf 1 1 = 0 := by
    rw [rateOf, Real.log_one, max_eq_left (by norm_num)]; norm_num
  rw [r1, r2, ssOf, kkOf, ForwardValue, CIPForward, max_eq_left (by norm_num : (1e-12 : ℝ) ≤ 2),
    max_eq_left (by norm_num : (1e-12 : ℝ) ≤ 1)] at this
  have e : Real.exp (-2) = Real.exp (-1) := by
    have h' := this
    simp only [neg_zero, zero_mul, Real.exp_zero, mul_one, one_mul] at h'
    have hne : Real.exp (-1) ≠ 0 := (Real.exp_pos _).ne'
    field_simp at h'
    linarith
  have := Real.exp_injective e
  norm_num at this

/-! ### foreign / domestic symmetry -/

/-- C10: Garman–Kohlhagen symmetry of the generated `bs_value`, for ANY function Φ in place of the cdf:
`C(S, K, r_d, r_f) = S·K·P(1/S, 1/K, r_f, r_d)` for S > 0 and 1e-12 ≤ K ≤ 1e12 (the strike clamp of the code inactive on
both sides). -/
theorem bs_foreign_domestic_symmetry (Φ : ℝ → ℝ) (s t K rd rf v : ℝ) (hs : 0 < s) (hK : 1e-12 ≤ K) (hK2 : K ≤ 1e12) :
    okVal (BSP.bs_value Φ s t K rd rf v 1) = s * K * okVal (BSP.bs_value Φ (1 / s) t (1 / K) rf rd v 2) := by
  have hK0 : 0 < K := lt_of_lt_of_le (by norm_num) hK
  have hKi : (1e-12 : ℝ) ≤ 1 / K := by
    rw [le_div_iff₀ hK0]; calc (1e-12 : ℝ) * K ≤ 1e-12 * 1e12 := by gcongr
      _ = 1 := by norm_num
  rw [bs_value_shape Φ s t K rd rf v (Or.inl rfl), bs_value_shape Φ (1 / s) t (1 / K) rf rd v (Or.inr rfl)]
  simp only [okVal_ok, flipN, eps_one, eps_two]
  have hw : wOf t v ≠ 0 := (wOf_pos' t v).ne'
  have hE1 : 0 < Real.exp (-rf * max t 1e-12) := Real.exp_pos _
  have hE2 : 0 < Real.exp (-rd * max t 1e-12) := Real.exp_pos _
  -- d₁' = −d₂, d₂' = −d₁
  have hlog : Real.log (ssOf (1 / s) t rd / kkOf (1 / K) t rf) = -Real.log (ssOf s t rf / kkOf K t rd) := by
    rw [← Real.log_inv]; congr 1
    simp only [ssOf, kkOf, max_eq_left hK, max_eq_left hKi]
    field_simp
  have hd1 : d1Of (1 / s) t (1 / K) rf rd v = -d2Of s t K rd rf v := by
    simp only [d1Of, d2Of, D1, hlog]; field_simp; ring
  have hd2 : d2Of (1 / s) t (1 / K) rf rd v = -d1Of s t K rd rf v := by
    unfold d2Of; rw [hd1]; unfold d2Of; ring
  rw [hd1, hd2]
  simp only [ssOf, kkOf, max_eq_left hK, max_eq_left hKi]
  have hs' : s ≠ 0 := hs.ne'
  have hK' : K ≠ 0 := hK0.ne'
  field_simp
  ring
where
  wOf_pos' (t v : ℝ) : 0 < wOf t v :=
    mul_pos (lt_of_lt_of_le (by norm_num) (le_max_right v 1e-12))
      (Real.sqrt_pos.mpr (lt_of_lt_of_le (by norm_num) (le_max_right t 1e-12)))

/-- C10: **foreign/domestic symmetry of the coded FX option value**: the FOR/DOM call at (S, K) with curves (dom, for) is
worth S·K × the DOM/FOR put at (1/S, 1/K) with the curves exchanged — for the code's own `N`, every notional / premium
currency, both times as coded. -/
theorem gk_foreign_domestic_symmetry (td te s dd df K N N' vol : ℝ) (pc dn fn pc' dn' fn' : Int) (hs : 0 < s) (htd : 0 ≤ td)
    (hv : 0 ≤ vol) (hK : 1e-12 ≤ K) (hK2 : K ≤ 1e12) (hpc : pc = dn ∨ pc = fn) (hpc' : pc' = dn' ∨ pc' = fn') :
    ForDomSymmetric (okv (FXR.fx_vanilla_value td te s dd df K N vol 1 pc dn fn)).1
      (okv (FXR.fx_vanilla_value td te (1 / s) df dd (1 / K) N' vol 2 pc' dn' fn')).1 s K := by
  have hs1 : 0 < 1 / s := by positivity
  unfold ForDomSymmetric
  rw [← tie_vanilla_value, ← tie_vanilla_value,
    vanilla_v BSR.N td te s dd df K N vol 1 pc dn fn hs htd hv (Or.inl rfl) hpc,
    vanilla_v BSR.N td te (1 / s) df dd (1 / K) N' vol 2 pc' dn' fn' hs1 htd hv (Or.inr rfl) hpc']
  exact bs_foreign_domestic_symmetry BSR.N s te K _ _ _ hs hK hK2

end FinVerif.Props.C10
