/-
  C10 (part c) — every quoted delta of the coded `FXVanillaOption.delta` is the matching derivative of the coded
  `FXVanillaOption.value`.  Statements are about `Gen/FXP` (the generated source with the cdf abstracted) for EVERY pair
  (Φ, φ) with Φ' = φ, φ(x) = c·exp(−x²/2) (`IsGaussPair`; the standard normal is c = 1/√(2π)); the derivative machinery
  is C05's (`bs_delta_is_derivative`, itself from `hasDerivAt_blackForm`).
  The code clamps the volatility at 1e-10 in `value` and at 1e-12 in `delta`; both clamps are inactive for vol ≥ 1e-10,
  which is the hypothesis below.
-/
import FinVerif.Props.C10b
import FinVerif.Props.C05b
import FinVerif.Props.C05c

set_option linter.unusedVariables false
set_option linter.unusedSimpArgs false

namespace FinVerif.Props.C10
open FinVerif FinVerif.Gen FinVerif.C05 FinVerif.C10 FinVerif.Props.C05

variable {Φ φ : ℝ → ℝ} {c : ℝ}

/-- the reported value (key `"v"`) as a function of spot -/
noncomputable def vOf (Φ : ℝ → ℝ) (td te dd df K N vol : ℝ) (ty pc dn fn : Int) (x : ℝ) : ℝ :=
  (okv (FXP.fx_vanilla_value Φ td te x dd df K N vol ty pc dn fn)).1

/-- the Black–Scholes spot delta / value at the rates the code implies -/
noncomputable def gkDelta (Φ : ℝ → ℝ) (td te s dd df K vol : ℝ) (ty : Int) : ℝ :=
  okVal (BSP.bs_delta Φ s te K (rateOf dd td) (rateOf df td) vol ty)

theorem clamp10 {vol : ℝ} (hv : 1e-10 ≤ vol) : max vol 1e-10 = vol := max_eq_left hv
theorem clamp12 {vol : ℝ} (hv : 1e-10 ≤ vol) : max vol 1e-12 = vol := max_eq_left (le_trans (by norm_num) hv)

/-- `exp(r_f · max(t_del, 1e-10)) = 1/df_for`: the factor the code applies for the forward deltas -/
theorem exp_rf (df td : ℝ) (hdf : 0 < df) : Real.exp (rateOf df td * max td 1e-10) = 1 / df := by
  have ht : max td 1e-10 ≠ 0 := (lt_of_lt_of_le (by norm_num) (le_max_right td 1e-10)).ne'
  have : rateOf df td * max td 1e-10 = -Real.log df := by rw [rateOf]; field_simp
  rw [this, Real.exp_neg, Real.exp_log hdf, one_div]

/-- closed form of the generated `FXVanillaOption.delta` -/
theorem vanilla_delta_shape (Φ : ℝ → ℝ) (td te s dd df K vol : ℝ) (ty : Int) (hs : 0 < s) (htd : 0 ≤ td)
    (hv : 1e-10 ≤ vol) (hty : ty = 1 ∨ ty = 2) :
    FXP.fx_vanilla_delta Φ td te s dd df K vol ty
      = .ok (gkDelta Φ td te s dd df K vol ty,
             gkDelta Φ td te s dd df K vol ty * Real.exp (rateOf df td * max td 1e-10),
             gkDelta Φ td te s dd df K vol ty - gkVal Φ td te s dd df K vol ty / s,
             Real.exp (rateOf df td * max td 1e-10) * (gkDelta Φ td te s dd df K vol ty - gkVal Φ td te s dd df K vol ty / s)) := by
  have h1 : ¬ (s ≤ 0) := not_le.mpr hs
  have h2 : ¬ (td < 0) := not_lt.mpr htd
  have h3 : ¬ (vol < 0) := not_lt.mpr (le_trans (by norm_num) hv)
  have ev := bs_value_shape Φ s te K (rateOf dd td) (rateOf df td) vol hty
  have ed := bs_delta_shape Φ s te K (rateOf dd td) (rateOf df td) vol hty
  simp only [gkDelta, gkVal, clamp10 hv, ev, ed, okVal_ok]
  unfold rateOf at ev ed ⊢
  simp only [FXP.fx_vanilla_delta, clamp12 hv, ev, ed, h1, h2, h3, decide_false, decide_true, if_false, if_true,
    Bool.false_eq_true]

/-- near a positive spot the reported value is the generated `bs_value` at the implied rates -/
theorem vOf_eventually (Φ : ℝ → ℝ) (td te s dd df K N vol : ℝ) (ty pc dn fn : Int) (hs : 0 < s) (htd : 0 ≤ td)
    (hv : 1e-10 ≤ vol) (hty : ty = 1 ∨ ty = 2) (hpc : pc = dn ∨ pc = fn) :
    vOf Φ td te dd df K N vol ty pc dn fn =ᶠ[nhds s]
      fun x => okVal (BSP.bs_value Φ x te K (rateOf dd td) (rateOf df td) vol ty) := by
  filter_upwards [Ioi_mem_nhds hs] with x hx
  rw [vOf, vanilla_v Φ td te x dd df K N vol ty pc dn fn hx htd (le_trans (by norm_num) hv) hty hpc, gkVal, clamp10 hv]

theorem vOf_at (Φ : ℝ → ℝ) (td te s dd df K N vol : ℝ) (ty pc dn fn : Int) (hs : 0 < s) (htd : 0 ≤ td)
    (hv : 1e-10 ≤ vol) (hty : ty = 1 ∨ ty = 2) (hpc : pc = dn ∨ pc = fn) :
    vOf Φ td te dd df K N vol ty pc dn fn s = gkVal Φ td te s dd df K vol ty := by
  rw [vOf, vanilla_v Φ td te s dd df K N vol ty pc dn fn hs htd (le_trans (by norm_num) hv) hty hpc]

/-- base fact: ∂(reported value)/∂(spot) = the Black–Scholes spot delta at the implied rates -/
theorem vOf_hasDerivAt (h : IsGaussPair Φ φ c) (td te s dd df K N vol : ℝ) (ty pc dn fn : Int) (hs : 0 < s) (htd : 0 ≤ td)
    (hv : 1e-10 ≤ vol) (hty : ty = 1 ∨ ty = 2) (hpc : pc = dn ∨ pc = fn) :
    HasDerivAt (vOf Φ td te dd df K N vol ty pc dn fn) (gkDelta Φ td te s dd df K vol ty) s :=
  (bs_delta_is_derivative h hs te K (rateOf dd td) (rateOf df td) vol hty).congr_of_eventuallyEq
    (vOf_eventually Φ td te s dd df K N vol ty pc dn fn hs htd hv hty hpc)

/-- C10: **pips spot delta** as coded = ∂(coded value)/∂(spot). -/
theorem pips_spot_delta_is_derivative (h : IsGaussPair Φ φ c) (td te s dd df K N vol : ℝ) (ty pc dn fn : Int)
    (hs : 0 < s) (htd : 0 ≤ td) (hv : 1e-10 ≤ vol) (hty : ty = 1 ∨ ty = 2) (hpc : pc = dn ∨ pc = fn) :
    GreekIs (vOf Φ td te dd df K N vol ty pc dn fn) (okv (FXP.fx_vanilla_delta Φ td te s dd df K vol ty)).1 s := by
  rw [vanilla_delta_shape Φ td te s dd df K vol ty hs htd hv hty]
  exact vOf_hasDerivAt h td te s dd df K N vol ty pc dn fn hs htd hv hty hpc

/-- C10: **pips forward delta** as coded = ∂(coded value)/∂(S·df_for), the derivative with respect to the value of the
foreign leg of the forward contract (the hedge ratio in forwards), for every foreign discount factor > 0. -/
theorem pips_fwd_delta_is_derivative (h : IsGaussPair Φ φ c) (td te s dd df K N vol : ℝ) (ty pc dn fn : Int)
    (hs : 0 < s) (htd : 0 ≤ td) (hdf : 0 < df) (hv : 1e-10 ≤ vol) (hty : ty = 1 ∨ ty = 2) (hpc : pc = dn ∨ pc = fn) :
    GreekIs (fun u => vOf Φ td te dd df K N vol ty pc dn fn (u / df))
      (okv (FXP.fx_vanilla_delta Φ td te s dd df K vol ty)).2.1 (s * df) := by
  rw [vanilla_delta_shape Φ td te s dd df K vol ty hs htd hv hty]
  have hin : HasDerivAt (fun u : ℝ => u / df) (1 / df) (s * df) := by
    simpa using (hasDerivAt_id (s * df)).div_const df
  have e : s * df / df = s := by field_simp
  have hV := vOf_hasDerivAt h td te s dd df K N vol ty pc dn fn hs htd hv hty hpc
  rw [← e] at hV
  have := hV.comp (s * df) hin
  simp only [okv_ok, exp_rf df td hdf]
  rw [e] at this
  exact this

/-- C10: **premium-adjusted spot delta** as coded = S·∂(V/S)/∂S (the spot delta of the premium expressed in foreign
currency per unit of foreign notional, in percent terms). -/
theorem pct_spot_delta_prem_adj_is_derivative (h : IsGaussPair Φ φ c) (td te s dd df K N vol : ℝ) (ty pc dn fn : Int)
    (hs : 0 < s) (htd : 0 ≤ td) (hv : 1e-10 ≤ vol) (hty : ty = 1 ∨ ty = 2) (hpc : pc = dn ∨ pc = fn) :
    GreekIs (fun x => vOf Φ td te dd df K N vol ty pc dn fn x / x)
      ((okv (FXP.fx_vanilla_delta Φ td te s dd df K vol ty)).2.2.1 / s) s := by
  rw [vanilla_delta_shape Φ td te s dd df K vol ty hs htd hv hty]
  have hV := vOf_hasDerivAt h td te s dd df K N vol ty pc dn fn hs htd hv hty hpc
  have := hV.div (hasDerivAt_id s) hs.ne'
  refine this.congr_deriv ?_
  simp only [okv_ok, id, vOf_at Φ td te s dd df K N vol ty pc dn fn hs htd hv hty hpc]
  have hs' : s ≠ 0 := hs.ne'
  field_simp

/-- C10: **premium-adjusted forward delta** as coded = S·∂(V/S)/∂(S·df_for). -/
theorem pct_fwd_delta_prem_adj_is_derivative (h : IsGaussPair Φ φ c) (td te s dd df K N vol : ℝ) (ty pc dn fn : Int)
    (hs : 0 < s) (htd : 0 ≤ td) (hdf : 0 < df) (hv : 1e-10 ≤ vol) (hty : ty = 1 ∨ ty = 2) (hpc : pc = dn ∨ pc = fn) :
    GreekIs (fun u => vOf Φ td te dd df K N vol ty pc dn fn (u / df) / (u / df))
      ((okv (FXP.fx_vanilla_delta Φ td te s dd df K vol ty)).2.2.2 / s) (s * df) := by
  have hpa := pct_spot_delta_prem_adj_is_derivative h td te s dd df K N vol ty pc dn fn hs htd hv hty hpc
  rw [vanilla_delta_shape Φ td te s dd df K vol ty hs htd hv hty] at hpa ⊢
  have hin : HasDerivAt (fun u : ℝ => u / df) (1 / df) (s * df) := by
    simpa using (hasDerivAt_id (s * df)).div_const df
  have e : s * df / df = s := by field_simp
  unfold GreekIs at hpa
  rw [← e] at hpa
  have := HasDerivAt.comp (s * df) hpa hin
  rw [e] at this
  refine this.congr_deriv ?_
  simp only [okv_ok, exp_rf df td hdf]
  have hs' : s ≠ 0 := hs.ne'
  field_simp

/-- non-vacuity: a Gauss pair exists (`exists_gaussPair`, C05c), so the delta theorems have instances at concrete market
inputs (EURUSD-like: S = 1.2, K = 1.25, df_dom = 0.97, df_for = 0.99, vol = 10%, 1y, call, DOM premium). -/
example : ∃ Φ : ℝ → ℝ, ∃ g : ℝ, GreekIs (fun u => vOf Φ 1 1 (97/100) (99/100) (5/4) 1000000 (1/10) 1 1 1 2 (u / (99/100))) g
    (6/5 * (99/100)) := by
  obtain ⟨Φ, φ, h⟩ := exists_gaussPair 1
  exact ⟨Φ, _, pips_fwd_delta_is_derivative h 1 1 (6/5) (97/100) (99/100) (5/4) 1000000 (1/10) 1 1 1 2 (by norm_num)
    (by norm_num) (by norm_num) (by norm_num) (Or.inl rfl) (Or.inl rfl)⟩

/-! ### `fast_delta` (module level, one time `t`, rates given) -/

/-- closed form of the generated module-level `fast_delta` for the four delta conventions -/
theorem fast_delta_shape (Φ : ℝ → ℝ) (s t k rd rf vol : ℝ) (m ty : Int) (hty : ty = 1 ∨ ty = 2)
    (hm : m = 1 ∨ m = 2 ∨ m = 3 ∨ m = 4) :
    FXP.fast_delta Φ s t k rd rf vol m ty = .ok (
      if m = 1 then okVal (BSP.bs_delta Φ s t k rd rf vol ty)
      else if m = 2 then okVal (BSP.bs_delta Φ s t k rd rf vol ty) * Real.exp (rf * t)
      else if m = 3 then okVal (BSP.bs_delta Φ s t k rd rf vol ty) - okVal (BSP.bs_value Φ s t k rd rf vol ty) / s
      else Real.exp (rf * t) * (okVal (BSP.bs_delta Φ s t k rd rf vol ty) - okVal (BSP.bs_value Φ s t k rd rf vol ty) / s)) := by
  have ev := bs_value_shape Φ s t k rd rf vol hty
  have ed := bs_delta_shape Φ s t k rd rf vol hty
  rcases hm with rfl | rfl | rfl | rfl <;>
    simp only [FXP.fast_delta, ev, ed, okVal_ok, decide_false, decide_true, if_false, if_true, Bool.false_eq_true,
      show ¬ ((2 : Int) = 1) by decide, show ¬ ((3 : Int) = 1) by decide, show ¬ ((3 : Int) = 2) by decide,
      show ¬ ((4 : Int) = 1) by decide, show ¬ ((4 : Int) = 2) by decide, show ¬ ((4 : Int) = 3) by decide]

/-- C10: an unknown delta convention is rejected (`FinError`) -/
theorem fast_delta_unknown_method (Φ : ℝ → ℝ) (s t k rd rf vol : ℝ) (m ty : Int) (hty : ty = 1 ∨ ty = 2)
    (h1 : m ≠ 1) (h2 : m ≠ 2) (h3 : m ≠ 3) (h4 : m ≠ 4) :
    FXP.fast_delta Φ s t k rd rf vol m ty = .error .finError := by
  have ed := bs_delta_shape Φ s t k rd rf vol hty
  simp only [FXP.fast_delta, ed, h1, h2, h3, h4, decide_false, if_false, Bool.false_eq_true]

/-- C10: the module-level `fast_delta` is, convention by convention, the entry of the dictionary returned by the
method `FXVanillaOption.fast_delta` (same generated kernels, same arguments). -/
theorem fast_delta_eq_dict (Φ : ℝ → ℝ) (s t k rd rf vol : ℝ) (ty : Int) (hty : ty = 1 ∨ ty = 2) :
    ∃ d1 d2 d3 d4, FXP.fx_fast_delta_dict Φ t s rd rf vol k ty = .ok (d1, d2, d3, d4)
      ∧ FXP.fast_delta Φ s t k rd rf vol 1 ty = .ok d1 ∧ FXP.fast_delta Φ s t k rd rf vol 2 ty = .ok d2
      ∧ FXP.fast_delta Φ s t k rd rf vol 3 ty = .ok d3 ∧ FXP.fast_delta Φ s t k rd rf vol 4 ty = .ok d4 := by
  have ev := bs_value_shape Φ s t k rd rf vol hty
  have ed := bs_delta_shape Φ s t k rd rf vol hty
  refine ⟨okVal (BSP.bs_delta Φ s t k rd rf vol ty), okVal (BSP.bs_delta Φ s t k rd rf vol ty) * Real.exp (rf * t),
    okVal (BSP.bs_delta Φ s t k rd rf vol ty) - okVal (BSP.bs_value Φ s t k rd rf vol ty) / s,
    Real.exp (rf * t) * (okVal (BSP.bs_delta Φ s t k rd rf vol ty) - okVal (BSP.bs_value Φ s t k rd rf vol ty) / s),
    ?_, ?_, ?_, ?_, ?_⟩
  · simp only [FXP.fx_fast_delta_dict, ev, ed, okVal_ok]
  · rw [fast_delta_shape Φ s t k rd rf vol 1 ty hty (Or.inl rfl), ed]; simp
  · rw [fast_delta_shape Φ s t k rd rf vol 2 ty hty (Or.inr (Or.inl rfl)), ed]; simp
  · rw [fast_delta_shape Φ s t k rd rf vol 3 ty hty (Or.inr (Or.inr (Or.inl rfl))), ed, ev]; simp
  · rw [fast_delta_shape Φ s t k rd rf vol 4 ty hty (Or.inr (Or.inr (Or.inr rfl))), ed, ev]; simp

/-- C10: `fast_delta` with the spot convention = ∂ bs_value/∂S (C05), i.e. the same derivative as the class method. -/
theorem fast_delta_spot_is_derivative (h : IsGaussPair Φ φ c) {s : ℝ} (hs : 0 < s) (t k rd rf vol : ℝ) {ty : Int}
    (hty : ty = 1 ∨ ty = 2) :
    GreekIs (fun x => okVal (BSP.bs_value Φ x t k rd rf vol ty)) (okv (FXP.fast_delta Φ s t k rd rf vol 1 ty)) s := by
  rw [fast_delta_shape Φ s t k rd rf vol 1 ty hty (Or.inl rfl)]
  unfold GreekIs
  simpa using bs_delta_is_derivative h hs t k rd rf vol hty

end FinVerif.Props.C10
