/-
  C10 (part d) — the strike solved from a delta returns that delta.
  `solve_for_strike` (market/volatility/fx_vol_surface.py) as generated: closed forms for the spot / forward pips
  conventions through `norminvcdf` (abstracted to `Ninv`; hypothesis = its postcondition Φ(Ninv p) = p at the one point
  used), and `newton_secant(g, …)` for the two premium-adjusted conventions (solver = parameter `k_solver` with the
  postcondition |g(k_solver)| ≤ tol on the GENERATED objective `g`).
-/
import FinVerif.Props.C10c

set_option linter.unusedVariables false
set_option linter.unusedSimpArgs false

namespace FinVerif.Props.C10
open FinVerif FinVerif.Gen FinVerif.C05 FinVerif.C10 FinVerif.Props.C05

/-- the closed-form strike of the code: `F·exp(−w·(φ·Ninv(arg) − w/2))`, `F = S·e^{−r_f t}/e^{−r_d t}`, `w = σ√t` -/
noncomputable def kClosed (Ninv : ℝ → ℝ) (s t rd rf vol : ℝ) (ty : Int) (arg : ℝ) : ℝ :=
  s * Real.exp (-rf * t) / Real.exp (-rd * t)
    * Real.exp (-(vol * Real.sqrt t) * (eps ty * Ninv arg - vol * Real.sqrt t / 2))

theorem solve_for_strike_spot_shape (Ninv : ℝ → ℝ) (s t rd rf vol tg ks : ℝ) (ty : Int) :
    FXP.solve_for_strike Ninv s t rd rf ty tg 1 vol ks
      = .ok (kClosed Ninv s t rd rf vol ty (tg * eps ty / Real.exp (-rf * t))) := by
  simp only [FXP.solve_for_strike, kClosed, eps, decide_true, if_true, decide_eq_true_eq]

theorem solve_for_strike_fwd_shape (Ninv : ℝ → ℝ) (s t rd rf vol tg ks : ℝ) (ty : Int) :
    FXP.solve_for_strike Ninv s t rd rf ty tg 2 vol ks = .ok (kClosed Ninv s t rd rf vol ty (tg * eps ty)) := by
  simp only [FXP.solve_for_strike, kClosed, eps, decide_true, if_true, decide_eq_true_eq, show ¬ ((2 : Int) = 1) by decide,
    decide_false, if_false, Bool.false_eq_true]

theorem solve_for_strike_solver_shape (Ninv : ℝ → ℝ) (s t rd rf vol tg ks : ℝ) (ty m : Int) (hm : m = 3 ∨ m = 4) :
    FXP.solve_for_strike Ninv s t rd rf ty tg m vol ks = .ok ks := by
  rcases hm with rfl | rfl <;>
    simp only [FXP.solve_for_strike, decide_true, if_true, decide_eq_true_eq, show ¬ ((3 : Int) = 1) by decide,
      show ¬ ((3 : Int) = 2) by decide, show ¬ ((4 : Int) = 1) by decide, show ¬ ((4 : Int) = 2) by decide,
      show ¬ ((4 : Int) = 3) by decide, decide_false, if_false, Bool.false_eq_true]

theorem eps_sq {ty : Int} (hty : ty = 1 ∨ ty = 2) : eps ty * eps ty = 1 := by
  rcases eps_cases hty with h | h <;> rw [h] <;> norm_num

/-- at the closed-form strike, d₁ of the coded Black–Scholes formulas is `φ·Ninv(arg)` -/
theorem d1_at_kClosed (Ninv : ℝ → ℝ) (s t rd rf vol arg : ℝ) (ty : Int) (hs : 0 < s) (ht : 1e-12 ≤ t) (hv : 1e-12 ≤ vol)
    (hK : 1e-12 ≤ kClosed Ninv s t rd rf vol ty arg) :
    d1Of s t (kClosed Ninv s t rd rf vol ty arg) rd rf vol = eps ty * Ninv arg := by
  have ht0 : 0 < t := lt_of_lt_of_le (by norm_num) ht
  have hv0 : 0 < vol := lt_of_lt_of_le (by norm_num) hv
  have hw : vol * Real.sqrt t ≠ 0 := (mul_pos hv0 (Real.sqrt_pos.mpr ht0)).ne'
  set x := eps ty * Ninv arg - vol * Real.sqrt t / 2 with hx
  have hE1 : Real.exp (-rf * t) ≠ 0 := (Real.exp_pos _).ne'
  have hE2 : Real.exp (-rd * t) ≠ 0 := (Real.exp_pos _).ne'
  have hE3 : Real.exp (vol * Real.sqrt t * x) ≠ 0 := (Real.exp_pos _).ne'
  have hratio : ssOf s t rf / kkOf (kClosed Ninv s t rd rf vol ty arg) t rd = Real.exp (vol * Real.sqrt t * x) := by
    rw [ssOf, kkOf, max_eq_left ht, max_eq_left hK, kClosed, ← hx, neg_mul (vol * Real.sqrt t) x, Real.exp_neg]
    have hs' : s ≠ 0 := hs.ne'
    field_simp
  rw [d1Of, D1, hratio, Real.log_exp, wOf, max_eq_left ht, max_eq_left hv, hx]
  field_simp
  ring

/-- C10: **strike from a pips SPOT delta returns that delta**: with `Φ(Ninv p) = p` at the argument the code passes,
the coded `fast_delta` at the strike returned by the coded `solve_for_strike` is the target, calls and puts. -/
theorem strike_from_spot_delta_returns_delta (Φ Ninv : ℝ → ℝ) (s t rd rf vol tg ks : ℝ) (ty : Int) (hs : 0 < s)
    (ht : 1e-12 ≤ t) (hv : 1e-12 ≤ vol) (hty : ty = 1 ∨ ty = 2)
    (hinv : Φ (Ninv (tg * eps ty / Real.exp (-rf * t))) = tg * eps ty / Real.exp (-rf * t))
    (hK : 1e-12 ≤ kClosed Ninv s t rd rf vol ty (tg * eps ty / Real.exp (-rf * t))) :
    ∃ K, FXP.solve_for_strike Ninv s t rd rf ty tg 1 vol ks = .ok K ∧ FXP.fast_delta Φ s t K rd rf vol 1 ty = .ok tg := by
  refine ⟨_, solve_for_strike_spot_shape Ninv s t rd rf vol tg ks ty, ?_⟩
  rw [fast_delta_shape Φ s t _ rd rf vol 1 ty hty (Or.inl rfl), bs_delta_shape Φ s t _ rd rf vol hty]
  simp only [if_true, okVal_ok, flipN, d1_at_kClosed Ninv s t rd rf vol _ ty hs ht hv hK, max_eq_left ht]
  rw [← mul_assoc (eps ty) (eps ty), eps_sq hty, one_mul, hinv]
  have hE : Real.exp (-rf * t) ≠ 0 := (Real.exp_pos _).ne'
  congr 1
  field_simp
  have h2 : eps ty ^ 2 = 1 := by rw [pow_two]; exact eps_sq hty
  rw [h2, one_mul]

/-- the hypotheses of `strike_from_spot_delta_returns_delta` are satisfiable (Φ = Ninv = id, S = t = σ = 1, r = 0, Δ = ½) -/
example : ∃ K, FXP.solve_for_strike (fun x => x) 1 1 0 0 1 (1/2) 1 1 0 = .ok K
    ∧ FXP.fast_delta (fun x => x) 1 1 K 0 0 1 1 1 = .ok (1/2) := by
  have e : (1 / 2 : ℝ) * eps 1 / Real.exp (-0 * 1) = 1 / 2 := by simp [eps]
  refine strike_from_spot_delta_returns_delta (fun x => x) (fun x => x) 1 1 0 0 1 (1/2) 0 1 (by norm_num) (by norm_num)
    (by norm_num) (Or.inl rfl) rfl ?_
  rw [e, kClosed]
  simp [eps]
  norm_num

/-- C10: **strike from a pips FORWARD delta returns that delta**. -/
theorem strike_from_fwd_delta_returns_delta (Φ Ninv : ℝ → ℝ) (s t rd rf vol tg ks : ℝ) (ty : Int) (hs : 0 < s)
    (ht : 1e-12 ≤ t) (hv : 1e-12 ≤ vol) (hty : ty = 1 ∨ ty = 2)
    (hinv : Φ (Ninv (tg * eps ty)) = tg * eps ty)
    (hK : 1e-12 ≤ kClosed Ninv s t rd rf vol ty (tg * eps ty)) :
    ∃ K, FXP.solve_for_strike Ninv s t rd rf ty tg 2 vol ks = .ok K ∧ FXP.fast_delta Φ s t K rd rf vol 2 ty = .ok tg := by
  refine ⟨_, solve_for_strike_fwd_shape Ninv s t rd rf vol tg ks ty, ?_⟩
  rw [fast_delta_shape Φ s t _ rd rf vol 2 ty hty (Or.inr (Or.inl rfl)), bs_delta_shape Φ s t _ rd rf vol hty]
  simp only [show ¬ ((2 : Int) = 1) by decide, if_false, if_true, okVal_ok, flipN,
    d1_at_kClosed Ninv s t rd rf vol _ ty hs ht hv hK, max_eq_left ht]
  rw [← mul_assoc (eps ty) (eps ty), eps_sq hty, one_mul, hinv]
  have hE : Real.exp (-rf * t) * Real.exp (rf * t) = 1 := by rw [← Real.exp_add]; simp
  congr 1
  calc Real.exp (-rf * t) * (eps ty * (tg * eps ty)) * Real.exp (rf * t)
      = (Real.exp (-rf * t) * Real.exp (rf * t)) * (tg * (eps ty * eps ty)) := by ring
    _ = tg := by rw [hE, eps_sq hty]; ring

/-- C10: **strike from a premium-adjusted delta returns that delta, given the solver postcondition**: if the generated
objective `g` at the returned strike is within `tol` of zero, the coded delta at that strike is within `tol` of the
target (conventions 3 = spot premium-adjusted, 4 = forward premium-adjusted). -/
theorem strike_from_delta_returns_delta (Φ Ninv : ℝ → ℝ) (s t rd rf vol tg tol ks g : ℝ) (m ty : Int)
    (hm : m = 3 ∨ m = 4) (hty : ty = 1 ∨ ty = 2)
    (hg : FXP.strike_objective Φ ks s t rd rf vol m ty tg = .ok g) (hpost : |g| ≤ tol) :
    FXP.solve_for_strike Ninv s t rd rf ty tg m vol ks = .ok ks ∧
      ∃ d, FXP.fast_delta Φ s t ks rd rf vol m ty = .ok d ∧ |d - tg| ≤ tol := by
  refine ⟨solve_for_strike_solver_shape Ninv s t rd rf vol tg ks ty m hm, ?_⟩
  have hm' : m = 1 ∨ m = 2 ∨ m = 3 ∨ m = 4 := by rcases hm with h | h <;> simp [h]
  have hsh := fast_delta_shape Φ s t ks rd rf vol m ty hty hm'
  refine ⟨_, hsh, ?_⟩
  simp only [FXP.strike_objective, hsh, Except.ok.injEq] at hg
  rw [abs_sub_comm, hg]
  exact hpost

end FinVerif.Props.C10
