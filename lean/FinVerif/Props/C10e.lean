/-
  C10 (part e) — relations BETWEEN the quoted deltas of the generated code:
  * the module-level `fast_delta` (all four `FinFXDeltaMethod` branches) is the option class's own `delta` dictionary
    (spot conventions: for any pair of times; forward conventions: when the option time is the clamped delivery time —
    the hypothesis the code forces; kernel-checked counterexample otherwise);
  * forward delta = spot delta / df_for; premium-adjusted = unadjusted − premium/spot (the `pct_for` entry of `value`);
    closed form of the premium-adjusted delta, `φ·(K e^{−r_d t}/S)·Φ(φ·d₂)`;
  * call − put for every convention (delta form of put–call parity);
  * foreign/domestic symmetry of the DELTAS: the pips delta of the FOR/DOM option is −K/S × the premium-adjusted delta
    of the DOM/FOR option with reciprocal spot and strike, curves exchanged, opposite type — and vice versa.
  Everything is about `Gen/FXP` (generated text, any Φ).
-/
import FinVerif.Props.C10c

set_option linter.unusedVariables false
set_option linter.unusedSimpArgs false

namespace FinVerif.Props.C10
open FinVerif FinVerif.Gen FinVerif.C05 FinVerif.C10 FinVerif.Props.C05

/-! ### module-level `fast_delta` = the class method `FXVanillaOption.delta` -/

/-- C10: the SPOT conventions (1 = pips spot, 3 = premium-adjusted spot) of the module-level `fast_delta`, called with
the option time and the rates the class implies from the curves, are the entries of `FXVanillaOption.delta` — for ANY
pair of times (t_del, t_exp). -/
theorem class_spot_deltas_eq_fast_delta (Φ : ℝ → ℝ) (td te s dd df K vol : ℝ) (ty : Int) (hs : 0 < s) (htd : 0 ≤ td)
    (hv : 1e-10 ≤ vol) (hty : ty = 1 ∨ ty = 2) :
    FXP.fast_delta Φ s te K (rateOf dd td) (rateOf df td) vol 1 ty
        = .ok (okv (FXP.fx_vanilla_delta Φ td te s dd df K vol ty)).1
    ∧ FXP.fast_delta Φ s te K (rateOf dd td) (rateOf df td) vol 3 ty
        = .ok (okv (FXP.fx_vanilla_delta Φ td te s dd df K vol ty)).2.2.1 := by
  rw [vanilla_delta_shape Φ td te s dd df K vol ty hs htd hv hty,
    fast_delta_shape Φ s te K _ _ vol 1 ty hty (Or.inl rfl),
    fast_delta_shape Φ s te K _ _ vol 3 ty hty (Or.inr (Or.inr (Or.inl rfl)))]
  simp only [okv_ok, gkDelta, gkVal, clamp10 hv, if_true, show ¬ ((3 : Int) = 1) by decide,
    show ¬ ((3 : Int) = 2) by decide, if_false, and_self]

/-- C10: the FORWARD conventions (2 = pips forward, 4 = premium-adjusted forward) agree with the class when the option
time IS the clamped delivery time (`t_exp = max(t_del, 1e-10)`). -/
theorem class_fwd_deltas_eq_fast_delta_partial (Φ : ℝ → ℝ) (td te s dd df K vol : ℝ) (ty : Int) (hs : 0 < s)
    (htd : 0 ≤ td) (hv : 1e-10 ≤ vol) (hty : ty = 1 ∨ ty = 2) (hte : te = max td 1e-10) :
    FXP.fast_delta Φ s te K (rateOf dd td) (rateOf df td) vol 2 ty
        = .ok (okv (FXP.fx_vanilla_delta Φ td te s dd df K vol ty)).2.1
    ∧ FXP.fast_delta Φ s te K (rateOf dd td) (rateOf df td) vol 4 ty
        = .ok (okv (FXP.fx_vanilla_delta Φ td te s dd df K vol ty)).2.2.2 := by
  rw [vanilla_delta_shape Φ td te s dd df K vol ty hs htd hv hty,
    fast_delta_shape Φ s te K _ _ vol 2 ty hty (Or.inr (Or.inl rfl)),
    fast_delta_shape Φ s te K _ _ vol 4 ty hty (Or.inr (Or.inr (Or.inr rfl)))]
  simp only [okv_ok, gkDelta, gkVal, clamp10 hv, if_true, show ¬ ((2 : Int) = 1) by decide,
    show ¬ ((4 : Int) = 1) by decide, show ¬ ((4 : Int) = 2) by decide, show ¬ ((4 : Int) = 3) by decide, if_false,
    ← hte, and_self]

example : (1 : ℝ) = max 1 1e-10 := by norm_num

/-- FULL statement (two independent times, as in the code): the forward convention of `fast_delta` at the option time
is the class's `pips_fwd_delta`. -/
def ClassFwdDeltaEqFastDelta : Prop :=
  ∀ Φ : ℝ → ℝ, ∀ td te s dd df K vol : ℝ, ∀ ty : Int, 0 < s → 0 ≤ td → 1e-10 ≤ vol → 0 < dd → 0 < df → (ty = 1 ∨ ty = 2) →
    FXP.fast_delta Φ s te K (rateOf dd td) (rateOf df td) vol 2 ty
      = .ok (okv (FXP.fx_vanilla_delta Φ td te s dd df K vol ty)).2.1

/-- C10 counterexample (same root as finding `C10/parity-texp-vs-tdel`): t_del = 1, t_exp = 2, r_f = 1: the class
multiplies the spot delta `e^{−r_f·t_exp}Φ(d₁)` by `e^{r_f·t_del}`, `fast_delta` by `e^{r_f·t_exp}`. -/
theorem class_fwd_delta_eq_fast_delta_full_false : ¬ ClassFwdDeltaEqFastDelta := by
  intro h
  have := h (fun _ => 1 / 2) 1 2 1 1 (Real.exp (-1)) 1 1 1 (by norm_num) (by norm_num) (by norm_num) (by norm_num)
    (Real.exp_pos _) (Or.inl rfl)
  rw [vanilla_delta_shape _ 1 2 1 1 (Real.exp (-1)) 1 1 1 (by norm_num) (by norm_num) (by norm_num) (Or.inl rfl),
    fast_delta_shape _ 1 2 1 _ _ 1 2 1 (Or.inl rfl) (Or.inr (Or.inl rfl))] at this
  have r1 : rateOf (Real.exp (-1)) 1 = 1 := by
    rw [rateOf, Real.log_exp, max_eq_left (by norm_num)]; norm_num
  simp only [okv_ok, gkDelta, show ¬ ((2 : Int) = 1) by decide, if_false, if_true, Except.ok.injEq,
    bs_delta_shape _ _ _ _ _ _ _ (Or.inl rfl : (1 : Int) = 1 ∨ (1 : Int) = 2), okVal_ok, flipN, eps_one, r1,
    max_eq_left (by norm_num : (1e-10 : ℝ) ≤ 1), max_eq_left (by norm_num : (1e-12 : ℝ) ≤ 2)] at this
  have e2 : Real.exp (1 * 2) = Real.exp (1 * 1) := by
    have hpos : (0 : ℝ) < Real.exp (-1 * 2) * (1 * (1 / 2)) := by positivity
    exact mul_left_cancel₀ hpos.ne' this
  have := Real.exp_injective e2
  norm_num at this

/-! ### relations between the four conventions -/

/-- C10: **forward delta = spot delta / df_for**, for the unadjusted and the premium-adjusted pair, as coded. -/
theorem fwd_delta_eq_spot_delta_div_df (Φ : ℝ → ℝ) (td te s dd df K vol : ℝ) (ty : Int) (hs : 0 < s) (htd : 0 ≤ td)
    (hdf : 0 < df) (hv : 1e-10 ≤ vol) (hty : ty = 1 ∨ ty = 2) :
    (okv (FXP.fx_vanilla_delta Φ td te s dd df K vol ty)).2.1 = (okv (FXP.fx_vanilla_delta Φ td te s dd df K vol ty)).1 / df
    ∧ (okv (FXP.fx_vanilla_delta Φ td te s dd df K vol ty)).2.2.2
        = (okv (FXP.fx_vanilla_delta Φ td te s dd df K vol ty)).2.2.1 / df := by
  rw [vanilla_delta_shape Φ td te s dd df K vol ty hs htd hv hty]
  simp only [okv_ok, exp_rf df td hdf]
  constructor <;> ring

/-- C10: **premium-adjusted delta = unadjusted delta − premium/spot**, where premium/spot is the `pct_for` entry of the
dictionary returned by `value` on the same inputs (two different methods of the class, one number). -/
theorem prem_adj_delta_eq_spot_delta_minus_pct_for (Φ : ℝ → ℝ) (td te s dd df K N vol : ℝ) (ty pc dn fn : Int) (hs : 0 < s)
    (htd : 0 ≤ td) (hv : 1e-10 ≤ vol) (hty : ty = 1 ∨ ty = 2) (hpc : pc = dn ∨ pc = fn) :
    (okv (FXP.fx_vanilla_delta Φ td te s dd df K vol ty)).2.2.1
      = (okv (FXP.fx_vanilla_delta Φ td te s dd df K vol ty)).1
        - (okv (FXP.fx_vanilla_value Φ td te s dd df K N vol ty pc dn fn)).2.2.2.2.2.2.1 := by
  rw [vanilla_delta_shape Φ td te s dd df K vol ty hs htd hv hty,
    vanilla_value_shape Φ td te s dd df K N vol ty pc dn fn hs htd (le_trans (by norm_num) hv) hty hpc]
  simp only [okv_ok]

/-- C10: closed form of the premium-adjusted spot delta as coded: `φ·(K e^{−r_d t}/S)·Φ(φ·d₂)` — the strike leg of the
option per unit of spot (clamps of `bs_value` included in `kkOf`, `d2Of`). -/
theorem prem_adj_delta_closed_form (Φ : ℝ → ℝ) (td te s dd df K vol : ℝ) (ty : Int) (hs : 0 < s) (htd : 0 ≤ td)
    (hv : 1e-10 ≤ vol) (hty : ty = 1 ∨ ty = 2) :
    (okv (FXP.fx_vanilla_delta Φ td te s dd df K vol ty)).2.2.1
      = kkOf K te (rateOf dd td) / s * flipN (eps ty) Φ (d2Of s te K (rateOf dd td) (rateOf df td) vol) := by
  rw [vanilla_delta_shape Φ td te s dd df K vol ty hs htd hv hty]
  simp only [okv_ok, gkDelta, gkVal, clamp10 hv, bs_delta_shape Φ s te K _ _ vol hty, bs_value_shape Φ s te K _ _ vol hty,
    okVal_ok, ssOf]
  have hs' : s ≠ 0 := hs.ne'
  field_simp
  ring

/-- C10: the four branches of the module-level `fast_delta` are one spot delta and one premium:
forward = spot·e^{r_f t}; premium-adjusted spot = spot − V/S; premium-adjusted forward = e^{r_f t}·(premium-adjusted spot). -/
theorem fast_delta_branch_relations (Φ : ℝ → ℝ) (s t k rd rf vol : ℝ) (ty : Int) (hty : ty = 1 ∨ ty = 2) :
    okv (FXP.fast_delta Φ s t k rd rf vol 2 ty) = okv (FXP.fast_delta Φ s t k rd rf vol 1 ty) * Real.exp (rf * t)
    ∧ okv (FXP.fast_delta Φ s t k rd rf vol 3 ty)
        = okv (FXP.fast_delta Φ s t k rd rf vol 1 ty) - okVal (BSP.bs_value Φ s t k rd rf vol ty) / s
    ∧ okv (FXP.fast_delta Φ s t k rd rf vol 4 ty) = Real.exp (rf * t) * okv (FXP.fast_delta Φ s t k rd rf vol 3 ty) := by
  rw [fast_delta_shape Φ s t k rd rf vol 1 ty hty (Or.inl rfl),
    fast_delta_shape Φ s t k rd rf vol 2 ty hty (Or.inr (Or.inl rfl)),
    fast_delta_shape Φ s t k rd rf vol 3 ty hty (Or.inr (Or.inr (Or.inl rfl))),
    fast_delta_shape Φ s t k rd rf vol 4 ty hty (Or.inr (Or.inr (Or.inr rfl)))]
  simp only [okv_ok, if_true, show ¬ ((2 : Int) = 1) by decide, show ¬ ((3 : Int) = 1) by decide,
    show ¬ ((3 : Int) = 2) by decide, show ¬ ((4 : Int) = 1) by decide, show ¬ ((4 : Int) = 2) by decide,
    show ¬ ((4 : Int) = 3) by decide, if_false, and_self]

/-! ### call − put, convention by convention -/

/-- as coded, any Φ symmetric at d₁ and d₂, any two times: Δ_call − Δ_put for the four conventions. -/
theorem delta_call_minus_put_as_coded (Φ : ℝ → ℝ) (td te s dd df K vol : ℝ) (hs : 0 < s) (htd : 0 ≤ td) (hv : 1e-10 ≤ vol)
    (h1 : Φ (d1Of s te K (rateOf dd td) (rateOf df td) vol) + Φ (-d1Of s te K (rateOf dd td) (rateOf df td) vol) = 1)
    (h2 : Φ (d2Of s te K (rateOf dd td) (rateOf df td) vol) + Φ (-d2Of s te K (rateOf dd td) (rateOf df td) vol) = 1) :
    (okv (FXP.fx_vanilla_delta Φ td te s dd df K vol 1)).1 - (okv (FXP.fx_vanilla_delta Φ td te s dd df K vol 2)).1
        = Real.exp (-(rateOf df td) * max te 1e-12)
    ∧ (okv (FXP.fx_vanilla_delta Φ td te s dd df K vol 1)).2.1 - (okv (FXP.fx_vanilla_delta Φ td te s dd df K vol 2)).2.1
        = Real.exp (-(rateOf df td) * max te 1e-12) * Real.exp (rateOf df td * max td 1e-10)
    ∧ (okv (FXP.fx_vanilla_delta Φ td te s dd df K vol 1)).2.2.1 - (okv (FXP.fx_vanilla_delta Φ td te s dd df K vol 2)).2.2.1
        = kkOf K te (rateOf dd td) / s
    ∧ (okv (FXP.fx_vanilla_delta Φ td te s dd df K vol 1)).2.2.2 - (okv (FXP.fx_vanilla_delta Φ td te s dd df K vol 2)).2.2.2
        = Real.exp (rateOf df td * max td 1e-10) * (kkOf K te (rateOf dd td) / s) := by
  have c3 := prem_adj_delta_closed_form Φ td te s dd df K vol 1 hs htd hv (Or.inl rfl)
  have p3 := prem_adj_delta_closed_form Φ td te s dd df K vol 2 hs htd hv (Or.inr rfl)
  rw [vanilla_delta_shape Φ td te s dd df K vol 1 hs htd hv (Or.inl rfl)] at c3 ⊢
  rw [vanilla_delta_shape Φ td te s dd df K vol 2 hs htd hv (Or.inr rfl)] at p3 ⊢
  simp only [okv_ok] at c3 p3 ⊢
  have hd : gkDelta Φ td te s dd df K vol 1 - gkDelta Φ td te s dd df K vol 2
      = Real.exp (-(rateOf df td) * max te 1e-12) := by
    simp only [gkDelta, bs_delta_shape Φ s te K _ _ vol (Or.inl rfl : (1 : Int) = 1 ∨ (1 : Int) = 2),
      bs_delta_shape Φ s te K _ _ vol (Or.inr rfl : (2 : Int) = 1 ∨ (2 : Int) = 2), okVal_ok, flipN, eps_one, eps_two, one_mul, neg_one_mul]
    linear_combination Real.exp (-(rateOf df td) * max te 1e-12) * h1
  have hp : (gkDelta Φ td te s dd df K vol 1 - gkVal Φ td te s dd df K vol 1 / s)
      - (gkDelta Φ td te s dd df K vol 2 - gkVal Φ td te s dd df K vol 2 / s) = kkOf K te (rateOf dd td) / s := by
    rw [c3, p3]
    simp only [flipN, eps_one, eps_two, one_mul, neg_one_mul]
    linear_combination kkOf K te (rateOf dd td) / s * h2
  refine ⟨hd, ?_, hp, ?_⟩
  · rw [← hd]; ring
  · rw [← hp]; ring

/-- C10: **delta form of put–call parity** when the option time is the delivery time (t_exp = t_del = t ≥ 1e-10, the
hypothesis the code forces): spot deltas differ by df_for, forward deltas by 1, premium-adjusted spot deltas by
K·df_dom/S, premium-adjusted forward deltas by K·df_dom/(S·df_for) = K/F. -/
theorem delta_call_minus_put_partial (Φ : ℝ → ℝ) (hΦ : ∀ x, Φ x + Φ (-x) = 1) (t s dd df K vol : ℝ) (hs : 0 < s)
    (ht : 1e-10 ≤ t) (hdd : 0 < dd) (hdf : 0 < df) (hK : 1e-12 ≤ K) (hv : 1e-10 ≤ vol) :
    (okv (FXP.fx_vanilla_delta Φ t t s dd df K vol 1)).1 - (okv (FXP.fx_vanilla_delta Φ t t s dd df K vol 2)).1 = df
    ∧ (okv (FXP.fx_vanilla_delta Φ t t s dd df K vol 1)).2.1 - (okv (FXP.fx_vanilla_delta Φ t t s dd df K vol 2)).2.1 = 1
    ∧ (okv (FXP.fx_vanilla_delta Φ t t s dd df K vol 1)).2.2.1 - (okv (FXP.fx_vanilla_delta Φ t t s dd df K vol 2)).2.2.1
        = K * dd / s
    ∧ (okv (FXP.fx_vanilla_delta Φ t t s dd df K vol 1)).2.2.2 - (okv (FXP.fx_vanilla_delta Φ t t s dd df K vol 2)).2.2.2
        = K * dd / (s * df) := by
  have ht0 : 0 ≤ t := le_trans (by norm_num) ht
  have ht12 : (1e-12 : ℝ) ≤ t := le_trans (by norm_num) ht
  obtain ⟨a, b, c', d⟩ := delta_call_minus_put_as_coded Φ t t s dd df K vol hs ht0 hv (hΦ _) (hΦ _)
  have e1 : Real.exp (-(rateOf df t) * max t 1e-12) = df := by rw [max_eq_left ht12]; exact exp_rate df t hdf ht
  have e2 : Real.exp (rateOf df t * max t 1e-10) = 1 / df := exp_rf df t hdf
  have e3 : kkOf K t (rateOf dd t) = K * dd := by rw [kkOf, max_eq_left hK, max_eq_left ht12, exp_rate dd t hdd ht]
  rw [e1] at a b
  rw [e2] at b d
  rw [e3] at c' d
  refine ⟨a, ?_, c', ?_⟩
  · rw [b]; field_simp
  · rw [d]; field_simp

example : ∃ Φ : ℝ → ℝ, ∀ x, Φ x + Φ (-x) = 1 := ⟨fun _ => 1 / 2, fun _ => by norm_num⟩

/-! ### foreign / domestic symmetry of the deltas -/

/-- d₁ of the reciprocal problem (1/S, 1/K, rates exchanged) is −d₂ of the original, and d₂ is −d₁ -/
theorem d1Of_recip (s t K rd rf v : ℝ) (hs : 0 < s) (hK : 1e-12 ≤ K) (hK2 : K ≤ 1e12) :
    d1Of (1 / s) t (1 / K) rf rd v = -d2Of s t K rd rf v ∧ d2Of (1 / s) t (1 / K) rf rd v = -d1Of s t K rd rf v := by
  have hK0 : 0 < K := lt_of_lt_of_le (by norm_num) hK
  have hKi : (1e-12 : ℝ) ≤ 1 / K := by
    rw [le_div_iff₀ hK0]; calc (1e-12 : ℝ) * K ≤ 1e-12 * 1e12 := by gcongr
      _ = 1 := by norm_num
  have hw : wOf t v ≠ 0 := (wOf_pos t v).ne'
  have hE1 : 0 < Real.exp (-rf * max t 1e-12) := Real.exp_pos _
  have hE2 : 0 < Real.exp (-rd * max t 1e-12) := Real.exp_pos _
  have hlog : Real.log (ssOf (1 / s) t rd / kkOf (1 / K) t rf) = -Real.log (ssOf s t rf / kkOf K t rd) := by
    rw [← Real.log_inv]; congr 1
    simp only [ssOf, kkOf, max_eq_left hK, max_eq_left hKi]
    field_simp
  have hd1 : d1Of (1 / s) t (1 / K) rf rd v = -d2Of s t K rd rf v := by
    simp only [d1Of, d2Of, D1, hlog]; field_simp; ring
  refine ⟨hd1, ?_⟩
  unfold d2Of; rw [hd1]; unfold d2Of; ring

/-- C10: **foreign/domestic symmetry of the quoted deltas** (any Φ): for the FOR/DOM option of type `ty` at (S, K) with
curves (dom, for) and the DOM/FOR option of the OPPOSITE type `ty'` at (1/S, 1/K) with the curves exchanged,
  pips spot Δ            = −(K/S) × premium-adjusted spot Δ of the reciprocal option,
  premium-adjusted spot Δ = −(K/S) × pips spot Δ of the reciprocal option
(the premium-adjusted delta IS the pips delta seen from the other currency). 1e-12 ≤ K ≤ 1e12: strike clamps inactive. -/
theorem delta_foreign_domestic_symmetry (Φ : ℝ → ℝ) (td te s dd df K vol : ℝ) (ty ty' : Int) (hs : 0 < s) (htd : 0 ≤ td)
    (hv : 1e-10 ≤ vol) (hK : 1e-12 ≤ K) (hK2 : K ≤ 1e12) (hty : (ty = 1 ∧ ty' = 2) ∨ (ty = 2 ∧ ty' = 1)) :
    (okv (FXP.fx_vanilla_delta Φ td te s dd df K vol ty)).1
        = -(K / s) * (okv (FXP.fx_vanilla_delta Φ td te (1 / s) df dd (1 / K) vol ty')).2.2.1
    ∧ (okv (FXP.fx_vanilla_delta Φ td te s dd df K vol ty)).2.2.1
        = -(K / s) * (okv (FXP.fx_vanilla_delta Φ td te (1 / s) df dd (1 / K) vol ty')).1 := by
  have hs1 : 0 < 1 / s := by positivity
  have hK0 : 0 < K := lt_of_lt_of_le (by norm_num) hK
  have hKi : (1e-12 : ℝ) ≤ 1 / K := by
    rw [le_div_iff₀ hK0]; calc (1e-12 : ℝ) * K ≤ 1e-12 * 1e12 := by gcongr
      _ = 1 := by norm_num
  have h1 : ty = 1 ∨ ty = 2 := by rcases hty with h | h <;> simp [h.1]
  have h1' : ty' = 1 ∨ ty' = 2 := by rcases hty with h | h <;> simp [h.2]
  have heps : eps ty' = -eps ty := by rcases hty with h | h <;> simp [h.1, h.2, eps]
  obtain ⟨r1, r2⟩ := d1Of_recip s te K (rateOf dd td) (rateOf df td) vol hs hK hK2
  have pa := prem_adj_delta_closed_form Φ td te s dd df K vol ty hs htd hv h1
  have pa' := prem_adj_delta_closed_form Φ td te (1 / s) df dd (1 / K) vol ty' hs1 htd hv h1'
  rw [pa, pa']
  rw [vanilla_delta_shape Φ td te s dd df K vol ty hs htd hv h1,
    vanilla_delta_shape Φ td te (1 / s) df dd (1 / K) vol ty' hs1 htd hv h1']
  simp only [okv_ok, gkDelta, bs_delta_shape Φ s te K _ _ vol h1, bs_delta_shape Φ (1 / s) te (1 / K) _ _ vol h1',
    okVal_ok, flipN, heps, r1, r2, kkOf, max_eq_left hK, max_eq_left hKi]
  have hs' : s ≠ 0 := hs.ne'
  have hK' : K ≠ 0 := hK0.ne'
  constructor
  · field_simp
  · field_simp

example : (1e-12 : ℝ) ≤ 5/4 ∧ (5/4 : ℝ) ≤ 1e12 ∧ ((1 : Int) = 1 ∧ (2 : Int) = 2) := by norm_num

end FinVerif.Props.C10
