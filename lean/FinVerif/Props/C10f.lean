/-
  C10 (part f) — `solve_for_strike` and the quoted deltas are INVERSE to each other, and the strike is unique.
  * closed-form branches (pips spot / pips forward): part d proves  Δ(strike(Δ)) = Δ ; here the other direction
    strike(Δ(K)) = K  (exactly in ℝ, given `Ninv(Φ(x)) = x` at the one point used), positivity of the closed-form strike,
    and rejection of an unknown convention;
  * every pips delta as coded is STRICTLY DECREASING in the strike (any strictly increasing Φ), so the strike with a given
    delta is unique;
  * premium-adjusted conventions (solver branches): closed form of the generated objective; for PUTS the premium-adjusted
    delta is strictly decreasing in the strike (monotone positive Φ), hence a strike meeting the solver's postcondition
    exactly is THE strike (uniqueness); for CALLS the premium-adjusted delta `(K e^{−r_d t}/S)·Φ(d₂)` is not monotone in K
    (it vanishes at both ends), so only the postcondition theorem of part d is available — see notes/C10.md.
-/
import FinVerif.Props.C10d

set_option linter.unusedVariables false
set_option linter.unusedSimpArgs false

namespace FinVerif.Props.C10
open FinVerif FinVerif.Gen FinVerif.C05 FinVerif.C10 FinVerif.Props.C05

/-- C10: the closed-form strike of the code is positive for every positive spot (whatever `Ninv` returns). -/
theorem kClosed_pos (Ninv : ℝ → ℝ) (s t rd rf vol arg : ℝ) (ty : Int) (hs : 0 < s) :
    0 < kClosed Ninv s t rd rf vol ty arg := by
  unfold kClosed
  have h1 := Real.exp_pos (-rf * t)
  have h2 := Real.exp_pos (-rd * t)
  have h3 := Real.exp_pos (-(vol * Real.sqrt t) * (eps ty * Ninv arg - vol * Real.sqrt t / 2))
  positivity

/-- C10: an unknown delta convention is rejected by `solve_for_strike` (`FinError`). -/
theorem solve_for_strike_unknown_method (Ninv : ℝ → ℝ) (s t rd rf vol tg ks : ℝ) (ty m : Int)
    (h1 : m ≠ 1) (h2 : m ≠ 2) (h3 : m ≠ 3) (h4 : m ≠ 4) :
    FXP.solve_for_strike Ninv s t rd rf ty tg m vol ks = .error .finError := by
  simp only [FXP.solve_for_strike, h1, h2, h3, h4, decide_false, if_false, Bool.false_eq_true]

/-- if the inverse cdf returns `φ·d₁(K)` the closed-form strike of the code is `K` -/
theorem kClosed_of_ninv_eq_d1 (Ninv : ℝ → ℝ) (s t K rd rf vol arg : ℝ) (ty : Int) (hs : 0 < s) (ht : 1e-12 ≤ t)
    (hv : 1e-12 ≤ vol) (hK : 1e-12 ≤ K) (hty : ty = 1 ∨ ty = 2)
    (h : Ninv arg = eps ty * d1Of s t K rd rf vol) : kClosed Ninv s t rd rf vol ty arg = K := by
  have ht0 : 0 < t := lt_of_lt_of_le (by norm_num) ht
  have hv0 : 0 < vol := lt_of_lt_of_le (by norm_num) hv
  have hK0 : 0 < K := lt_of_lt_of_le (by norm_num) hK
  have hw0 : vol * Real.sqrt t ≠ 0 := (mul_pos hv0 (Real.sqrt_pos.mpr ht0)).ne'
  have hw : wOf t vol = vol * Real.sqrt t := by rw [wOf, max_eq_left hv, max_eq_left ht]
  have hss := ssOf_pos hs t rf
  have hkk := kkOf_pos K t rd
  rw [kClosed, h, ← mul_assoc, eps_sq hty, one_mul]
  have e : -(vol * Real.sqrt t) * (d1Of s t K rd rf vol - vol * Real.sqrt t / 2)
      = -Real.log (ssOf s t rf / kkOf K t rd) := by
    rw [d1Of, D1, hw]; field_simp; ring
  rw [e, Real.exp_neg, Real.exp_log (div_pos hss hkk), ssOf, kkOf, max_eq_left ht, max_eq_left hK]
  have hs' : s ≠ 0 := hs.ne'
  have hE1 : Real.exp (-rf * t) ≠ 0 := (Real.exp_pos _).ne'
  have hE2 : Real.exp (-rd * t) ≠ 0 := (Real.exp_pos _).ne'
  field_simp

/-- C10: **strike(Δ_spot(K)) = K**: the coded closed-form `solve_for_strike` applied to the coded pips SPOT delta of a
strike returns that strike, exactly (t, σ, K ≥ 1e-12: clamps inactive; `Ninv(Φ(x)) = x` at x = φ·d₁(K)). -/
theorem strike_of_spot_delta_of_strike (Φ Ninv : ℝ → ℝ) (s t K rd rf vol ks : ℝ) (ty : Int) (hs : 0 < s)
    (ht : 1e-12 ≤ t) (hv : 1e-12 ≤ vol) (hK : 1e-12 ≤ K) (hty : ty = 1 ∨ ty = 2)
    (hinv : Ninv (Φ (eps ty * d1Of s t K rd rf vol)) = eps ty * d1Of s t K rd rf vol) :
    ∃ Δ, FXP.fast_delta Φ s t K rd rf vol 1 ty = .ok Δ ∧ FXP.solve_for_strike Ninv s t rd rf ty Δ 1 vol ks = .ok K := by
  refine ⟨_, fast_delta_shape Φ s t K rd rf vol 1 ty hty (Or.inl rfl), ?_⟩
  rw [solve_for_strike_spot_shape]
  congr 1
  apply kClosed_of_ninv_eq_d1 Ninv s t K rd rf vol _ ty hs ht hv hK hty
  have hE : Real.exp (-rf * t) ≠ 0 := (Real.exp_pos _).ne'
  have harg : (if (1 : Int) = 1 then okVal (BSP.bs_delta Φ s t K rd rf vol ty)
        else if (1 : Int) = 2 then okVal (BSP.bs_delta Φ s t K rd rf vol ty) * Real.exp (rf * t)
        else if (1 : Int) = 3 then okVal (BSP.bs_delta Φ s t K rd rf vol ty) - okVal (BSP.bs_value Φ s t K rd rf vol ty) / s
        else Real.exp (rf * t) * (okVal (BSP.bs_delta Φ s t K rd rf vol ty) - okVal (BSP.bs_value Φ s t K rd rf vol ty) / s))
      * eps ty / Real.exp (-rf * t) = Φ (eps ty * d1Of s t K rd rf vol) := by
    rw [if_pos rfl, bs_delta_shape Φ s t K rd rf vol hty, okVal_ok, flipN, max_eq_left ht]
    field_simp
    rw [pow_two, eps_sq hty, one_mul]
  rw [harg, hinv]

/-- C10: **strike(Δ_fwd(K)) = K** for the pips FORWARD convention. -/
theorem strike_of_fwd_delta_of_strike (Φ Ninv : ℝ → ℝ) (s t K rd rf vol ks : ℝ) (ty : Int) (hs : 0 < s)
    (ht : 1e-12 ≤ t) (hv : 1e-12 ≤ vol) (hK : 1e-12 ≤ K) (hty : ty = 1 ∨ ty = 2)
    (hinv : Ninv (Φ (eps ty * d1Of s t K rd rf vol)) = eps ty * d1Of s t K rd rf vol) :
    ∃ Δ, FXP.fast_delta Φ s t K rd rf vol 2 ty = .ok Δ ∧ FXP.solve_for_strike Ninv s t rd rf ty Δ 2 vol ks = .ok K := by
  refine ⟨_, fast_delta_shape Φ s t K rd rf vol 2 ty hty (Or.inr (Or.inl rfl)), ?_⟩
  rw [solve_for_strike_fwd_shape]
  congr 1
  apply kClosed_of_ninv_eq_d1 Ninv s t K rd rf vol _ ty hs ht hv hK hty
  have hE : Real.exp (-rf * t) * Real.exp (rf * t) = 1 := by rw [← Real.exp_add]; simp
  have harg : (if (2 : Int) = 1 then okVal (BSP.bs_delta Φ s t K rd rf vol ty)
        else if (2 : Int) = 2 then okVal (BSP.bs_delta Φ s t K rd rf vol ty) * Real.exp (rf * t)
        else if (2 : Int) = 3 then okVal (BSP.bs_delta Φ s t K rd rf vol ty) - okVal (BSP.bs_value Φ s t K rd rf vol ty) / s
        else Real.exp (rf * t) * (okVal (BSP.bs_delta Φ s t K rd rf vol ty) - okVal (BSP.bs_value Φ s t K rd rf vol ty) / s))
      * eps ty = Φ (eps ty * d1Of s t K rd rf vol) := by
    rw [if_neg (by decide), if_pos rfl, bs_delta_shape Φ s t K rd rf vol hty, okVal_ok, flipN, max_eq_left ht]
    calc Real.exp (-rf * t) * (eps ty * Φ (eps ty * d1Of s t K rd rf vol)) * Real.exp (rf * t) * eps ty
        = (Real.exp (-rf * t) * Real.exp (rf * t)) * (eps ty * eps ty) * Φ (eps ty * d1Of s t K rd rf vol) := by ring
      _ = Φ (eps ty * d1Of s t K rd rf vol) := by rw [hE, eps_sq hty]; ring
  rw [harg, hinv]

/-- the hypotheses are satisfiable: Φ = Ninv = id, S = K = t = σ = 1, r = 0, call -/
example : ∃ Δ, FXP.fast_delta (fun x => x) 1 1 1 0 0 1 1 1 = .ok Δ
    ∧ FXP.solve_for_strike (fun x => x) 1 1 0 0 1 Δ 1 1 0 = .ok 1 :=
  strike_of_spot_delta_of_strike (fun x => x) (fun x => x) 1 1 1 0 0 1 0 1 (by norm_num) (by norm_num) (by norm_num)
    (by norm_num) (Or.inl rfl) rfl

/-! ### monotonicity in the strike ⇒ uniqueness of the strike -/

/-- d₁ (hence d₂) of the coded formulas is strictly decreasing in the strike on [1e-12, ∞) -/
theorem d1Of_strictAnti_in_strike (s t rd rf vol : ℝ) (hs : 0 < s) :
    StrictAntiOn (fun K => d1Of s t K rd rf vol) (Set.Ici (1e-12 : ℝ)) := by
  intro K1 h1 K2 h2 hlt
  have h1' : (1e-12 : ℝ) ≤ K1 := h1
  have h2' : (1e-12 : ℝ) ≤ K2 := h2
  have hw := wOf_pos t vol
  have hss := ssOf_pos hs t rf
  have hk1 := kkOf_pos K1 t rd
  have hkk : kkOf K1 t rd < kkOf K2 t rd := by
    rw [kkOf, kkOf, max_eq_left h1', max_eq_left h2']
    exact mul_lt_mul_of_pos_right hlt (Real.exp_pos _)
  have hdiv : ssOf s t rf / kkOf K2 t rd < ssOf s t rf / kkOf K1 t rd := div_lt_div_of_pos_left hss hk1 hkk
  have hlog := Real.log_lt_log (div_pos hss (kkOf_pos K2 t rd)) hdiv
  show d1Of s t K2 rd rf vol < d1Of s t K1 rd rf vol
  simp only [d1Of, D1]
  have := div_lt_div_of_pos_right hlog hw
  linarith

/-- C10: both pips deltas (spot and forward conventions of the coded `fast_delta`), calls and puts, are strictly
decreasing in the strike, for every strictly increasing Φ. -/
theorem pips_delta_strictAnti_in_strike (Φ : ℝ → ℝ) (hΦ : StrictMono Φ) (s t rd rf vol : ℝ) (m ty : Int) (hs : 0 < s)
    (hty : ty = 1 ∨ ty = 2) (hm : m = 1 ∨ m = 2) :
    StrictAntiOn (fun K => okv (FXP.fast_delta Φ s t K rd rf vol m ty)) (Set.Ici (1e-12 : ℝ)) := by
  intro K1 h1 K2 h2 hlt
  have hd := d1Of_strictAnti_in_strike s t rd rf vol hs h1 h2 hlt
  have hE := Real.exp_pos (-rf * max t 1e-12)
  have hE2 := Real.exp_pos (rf * t)
  have hm' : m = 1 ∨ m = 2 ∨ m = 3 ∨ m = 4 := by rcases hm with h | h <;> simp [h]
  have key : flipN (eps ty) Φ (d1Of s t K2 rd rf vol) < flipN (eps ty) Φ (d1Of s t K1 rd rf vol) := by
    rcases hty with rfl | rfl
    · simp only [flipN, eps_one, one_mul]; exact hΦ hd
    · simp only [flipN, eps_two, neg_one_mul, neg_lt_neg_iff]; exact hΦ (neg_lt_neg hd)
  show okv (FXP.fast_delta Φ s t K2 rd rf vol m ty) < okv (FXP.fast_delta Φ s t K1 rd rf vol m ty)
  rw [fast_delta_shape Φ s t K2 rd rf vol m ty hty hm', fast_delta_shape Φ s t K1 rd rf vol m ty hty hm',
    bs_delta_shape Φ s t K2 rd rf vol hty, bs_delta_shape Φ s t K1 rd rf vol hty]
  rcases hm with rfl | rfl
  · simp only [okv_ok, okVal_ok, if_true]
    exact mul_lt_mul_of_pos_left key hE
  · simp only [okv_ok, okVal_ok, show ¬ ((2 : Int) = 1) by decide, if_false, if_true]
    exact mul_lt_mul_of_pos_right (mul_lt_mul_of_pos_left key hE) hE2

/-- C10: **the strike with a given pips delta is unique**: two strikes (≥ 1e-12) with the same coded pips spot / forward
delta are equal — so the strike returned by `solve_for_strike` is the ONLY strike returning the target. -/
theorem strike_from_pips_delta_unique (Φ : ℝ → ℝ) (hΦ : StrictMono Φ) (s t rd rf vol K1 K2 : ℝ) (m ty : Int) (hs : 0 < s)
    (hty : ty = 1 ∨ ty = 2) (hm : m = 1 ∨ m = 2) (h1 : 1e-12 ≤ K1) (h2 : 1e-12 ≤ K2)
    (heq : FXP.fast_delta Φ s t K1 rd rf vol m ty = FXP.fast_delta Φ s t K2 rd rf vol m ty) : K1 = K2 :=
  (pips_delta_strictAnti_in_strike Φ hΦ s t rd rf vol m ty hs hty hm).injOn h1 h2 (by simp only [heq])

example : StrictMono (fun x : ℝ => x) := strictMono_id

/-! ### the premium-adjusted conventions (solver branches) -/

/-- closed form of the premium-adjusted branches of the generated `fast_delta`:
convention 3 = `φ·(K e^{−r_d t}/S)·Φ(φ·d₂)`, convention 4 = `e^{r_f t}` × that. -/
theorem fast_delta_prem_adj_closed_form (Φ : ℝ → ℝ) (s t K rd rf vol : ℝ) (ty : Int) (hs : 0 < s) (hty : ty = 1 ∨ ty = 2) :
    okv (FXP.fast_delta Φ s t K rd rf vol 3 ty) = kkOf K t rd / s * flipN (eps ty) Φ (d2Of s t K rd rf vol)
    ∧ okv (FXP.fast_delta Φ s t K rd rf vol 4 ty)
        = Real.exp (rf * t) * (kkOf K t rd / s * flipN (eps ty) Φ (d2Of s t K rd rf vol)) := by
  have hs' : s ≠ 0 := hs.ne'
  have e : okVal (BSP.bs_delta Φ s t K rd rf vol ty) - okVal (BSP.bs_value Φ s t K rd rf vol ty) / s
      = kkOf K t rd / s * flipN (eps ty) Φ (d2Of s t K rd rf vol) := by
    rw [bs_delta_shape Φ s t K rd rf vol hty, bs_value_shape Φ s t K rd rf vol hty]
    simp only [okVal_ok, ssOf]
    field_simp
    ring
  rw [fast_delta_shape Φ s t K rd rf vol 3 ty hty (Or.inr (Or.inr (Or.inl rfl))),
    fast_delta_shape Φ s t K rd rf vol 4 ty hty (Or.inr (Or.inr (Or.inr rfl)))]
  simp only [okv_ok, show ¬ ((3 : Int) = 1) by decide, show ¬ ((3 : Int) = 2) by decide, show ¬ ((4 : Int) = 1) by decide,
    show ¬ ((4 : Int) = 2) by decide, show ¬ ((4 : Int) = 3) by decide, if_false, if_true, e, and_self]

/-- C10: the premium-adjusted PUT deltas (spot and forward) as coded are strictly decreasing in the strike, for every
monotone positive Φ. -/
theorem prem_adj_put_delta_strictAnti_in_strike (Φ : ℝ → ℝ) (hΦ : Monotone Φ) (hpos : ∀ x, 0 < Φ x) (s t rd rf vol : ℝ)
    (m : Int) (hs : 0 < s) (hm : m = 3 ∨ m = 4) :
    StrictAntiOn (fun K => okv (FXP.fast_delta Φ s t K rd rf vol m 2)) (Set.Ici (1e-12 : ℝ)) := by
  intro K1 h1 K2 h2 hlt
  have h1' : (1e-12 : ℝ) ≤ K1 := h1
  have h2' : (1e-12 : ℝ) ≤ K2 := h2
  have hd : d2Of s t K2 rd rf vol < d2Of s t K1 rd rf vol := by
    have := d1Of_strictAnti_in_strike s t rd rf vol hs h1 h2 hlt
    simp only [d2Of]; linarith
  have hkk : kkOf K1 t rd < kkOf K2 t rd := by
    rw [kkOf, kkOf, max_eq_left h1', max_eq_left h2']
    exact mul_lt_mul_of_pos_right hlt (Real.exp_pos _)
  have hk1 := kkOf_pos K1 t rd
  have hmono : Φ (-d2Of s t K1 rd rf vol) ≤ Φ (-d2Of s t K2 rd rf vol) := hΦ (by linarith)
  have key : kkOf K1 t rd * Φ (-d2Of s t K1 rd rf vol) < kkOf K2 t rd * Φ (-d2Of s t K2 rd rf vol) :=
    lt_of_le_of_lt (mul_le_mul_of_nonneg_left hmono hk1.le) (mul_lt_mul_of_pos_right hkk (hpos _))
  have key2 : kkOf K2 t rd / s * flipN (eps 2) Φ (d2Of s t K2 rd rf vol)
      < kkOf K1 t rd / s * flipN (eps 2) Φ (d2Of s t K1 rd rf vol) := by
    simp only [flipN, eps_two, neg_one_mul]
    have : kkOf K1 t rd * Φ (-d2Of s t K1 rd rf vol) / s < kkOf K2 t rd * Φ (-d2Of s t K2 rd rf vol) / s :=
      div_lt_div_of_pos_right key hs
    have e1 : kkOf K2 t rd / s * -Φ (-d2Of s t K2 rd rf vol) = -(kkOf K2 t rd * Φ (-d2Of s t K2 rd rf vol) / s) := by ring
    have e2 : kkOf K1 t rd / s * -Φ (-d2Of s t K1 rd rf vol) = -(kkOf K1 t rd * Φ (-d2Of s t K1 rd rf vol) / s) := by ring
    rw [e1, e2]; linarith
  obtain ⟨c1, c2⟩ := fast_delta_prem_adj_closed_form Φ s t K1 rd rf vol 2 hs (Or.inr rfl)
  obtain ⟨c3, c4⟩ := fast_delta_prem_adj_closed_form Φ s t K2 rd rf vol 2 hs (Or.inr rfl)
  show okv (FXP.fast_delta Φ s t K2 rd rf vol m 2) < okv (FXP.fast_delta Φ s t K1 rd rf vol m 2)
  rcases hm with rfl | rfl
  · rw [c1, c3]; exact key2
  · rw [c2, c4]; exact mul_lt_mul_of_pos_left key2 (Real.exp_pos _)

/-- C10: **uniqueness of the strike for the solver branches, puts**: if the generated objective `g` vanishes at two
strikes (≥ 1e-12) they are the same strike — the solver's exact postcondition determines the strike. -/
theorem strike_from_prem_adj_put_delta_unique (Φ : ℝ → ℝ) (hΦ : Monotone Φ) (hpos : ∀ x, 0 < Φ x) (s t rd rf vol tg K1 K2 : ℝ)
    (m : Int) (hs : 0 < s) (hm : m = 3 ∨ m = 4) (h1 : 1e-12 ≤ K1) (h2 : 1e-12 ≤ K2)
    (g1 : FXP.strike_objective Φ K1 s t rd rf vol m 2 tg = .ok 0)
    (g2 : FXP.strike_objective Φ K2 s t rd rf vol m 2 tg = .ok 0) : K1 = K2 := by
  have hm' : m = 1 ∨ m = 2 ∨ m = 3 ∨ m = 4 := by rcases hm with h | h <;> simp [h]
  have s1 := fast_delta_shape Φ s t K1 rd rf vol m 2 (Or.inr rfl) hm'
  have s2 := fast_delta_shape Φ s t K2 rd rf vol m 2 (Or.inr rfl) hm'
  apply (prem_adj_put_delta_strictAnti_in_strike Φ hΦ hpos s t rd rf vol m hs hm).injOn h1 h2
  show okv (FXP.fast_delta Φ s t K1 rd rf vol m 2) = okv (FXP.fast_delta Φ s t K2 rd rf vol m 2)
  simp only [FXP.strike_objective, s1, Except.ok.injEq] at g1
  simp only [FXP.strike_objective, s2, Except.ok.injEq] at g2
  rw [s1, s2, okv_ok, okv_ok]
  linarith

/-- the hypotheses on Φ are satisfiable (a monotone, strictly positive function: the exponential) -/
example : Monotone Real.exp ∧ ∀ x, 0 < Real.exp x := ⟨Real.exp_monotone, Real.exp_pos⟩

end FinVerif.Props.C10
