/-
  C10 (part g) — zero-volatility and zero-time behaviour of the coded `FXVanillaOption.value`: BRANCHES vs LIMITS.

  As coded there is NO zero-volatility or zero-time branch: the volatility is clamped at 1e-10 (and at 1e-12 inside
  `bs_value`), the option time at 1e-12, and the one closed form is evaluated (`vanilla_value_vol_below_clamp`,
  `vanilla_value_time_below_clamp` — theorems about the generated text; a "no time value" fast path breaks them).
  Above the clamps the coded value IS the Black form of the discounted legs (`gkVal_eq_unclamped`), whose limits are
    σ → 0⁺ (T > 0):  max(φ·(S e^{−r_f T} − K e^{−r_d T}), 0)  — the DISCOUNTED FORWARD intrinsic = max(φ·ForwardValue, 0),
                     not the spot intrinsic max(φ·(S − K), 0)   (`zero_vol_limit_…`, `zero_vol_limit_is_not_spot_intrinsic`);
    T → 0⁺ (σ > 0):  max(φ·(S − K), 0)  — the spot intrinsic     (`zero_time_limit_is_spot_intrinsic`).
  Hypotheses on Φ (never axioms): Φ → 1 at +∞, Φ → 0 at −∞.
-/
import FinVerif.Props.C10b
import FinVerif.Lemmas.C10

set_option linter.unusedVariables false
set_option linter.unusedSimpArgs false

namespace FinVerif.Props.C10
open FinVerif FinVerif.Gen FinVerif.C05 FinVerif.C10 FinVerif.Props.C05 FinVerif.C10L Filter Topology

/-! ### as coded: clamps, no separate branch -/

/-- C10: **no zero-volatility branch**: for 0 ≤ vol ≤ 1e-10 (in particular `BlackScholes(0.0)`) the coded value — all nine
entries — is the coded value at vol = 1e-10. -/
theorem vanilla_value_vol_below_clamp (Φ : ℝ → ℝ) (td te s dd df K N vol : ℝ) (ty pc dn fn : Int) (hs : 0 < s)
    (htd : 0 ≤ td) (hv : 0 ≤ vol) (hv2 : vol ≤ 1e-10) (hty : ty = 1 ∨ ty = 2) (hpc : pc = dn ∨ pc = fn) :
    FXP.fx_vanilla_value Φ td te s dd df K N vol ty pc dn fn
      = FXP.fx_vanilla_value Φ td te s dd df K N 1e-10 ty pc dn fn := by
  rw [vanilla_value_shape Φ td te s dd df K N vol ty pc dn fn hs htd hv hty hpc,
    vanilla_value_shape Φ td te s dd df K N 1e-10 ty pc dn fn hs htd (by norm_num) hty hpc]
  simp only [gkVal, max_eq_right hv2, max_self]

/-- C10: **no zero-time branch**: for t_exp ≤ 1e-12 (expiry = valuation date: t_exp = 0; the code does not reject a
negative t_exp either) the coded value is the coded value at t_exp = 1e-12. -/
theorem vanilla_value_time_below_clamp (Φ : ℝ → ℝ) (td te s dd df K N vol : ℝ) (ty pc dn fn : Int) (hs : 0 < s)
    (htd : 0 ≤ td) (hv : 0 ≤ vol) (hte : te ≤ 1e-12) (hty : ty = 1 ∨ ty = 2) (hpc : pc = dn ∨ pc = fn) :
    FXP.fx_vanilla_value Φ td te s dd df K N vol ty pc dn fn
      = FXP.fx_vanilla_value Φ td 1e-12 s dd df K N vol ty pc dn fn := by
  rw [vanilla_value_shape Φ td te s dd df K N vol ty pc dn fn hs htd hv hty hpc,
    vanilla_value_shape Φ td 1e-12 s dd df K N vol ty pc dn fn hs htd hv hty hpc]
  have e : gkVal Φ td te s dd df K vol ty = gkVal Φ td 1e-12 s dd df K vol ty := by
    simp only [gkVal, bs_value_shape Φ _ _ _ _ _ _ hty, okVal_ok, ssOf, kkOf, wOf, d1Of, d2Of, max_eq_right hte, max_self]
  rw [e]

/-- the Black form of the discounted legs with every clamp removed: `a = S e^{−r_f T}`, `b = K e^{−r_d T}`, `w = σ√T` -/
noncomputable def gkUnclamped (Φ : ℝ → ℝ) (s te K rd rf vol : ℝ) (ty : Int) : ℝ :=
  blackForm Φ (eps ty) (s * Real.exp (-rf * te)) (K * Real.exp (-rd * te)) (vol * Real.sqrt te)

/-- C10: above the clamps (σ ≥ 1e-10, t_exp ≥ 1e-12, K ≥ 1e-12) the coded value IS the unclamped Black form at the rates
the code implies from the discount factors. -/
theorem gkVal_eq_unclamped (Φ : ℝ → ℝ) (td te s dd df K vol : ℝ) (ty : Int) (hv : 1e-10 ≤ vol) (hte : 1e-12 ≤ te)
    (hK : 1e-12 ≤ K) (hty : ty = 1 ∨ ty = 2) :
    gkVal Φ td te s dd df K vol ty = gkUnclamped Φ s te K (rateOf dd td) (rateOf df td) vol ty := by
  have hv12 : (1e-12 : ℝ) ≤ vol := le_trans (by norm_num) hv
  simp only [gkVal, gkUnclamped, blackForm, bs_value_shape Φ _ _ _ _ _ _ hty, okVal_ok, ssOf, kkOf, wOf, d1Of, d2Of,
    max_eq_left hv, max_eq_left hv12, max_eq_left hte, max_eq_left hK]

/-- the reported `v` in the same form (all hypotheses of the domain) -/
theorem vanilla_v_eq_unclamped (Φ : ℝ → ℝ) (td te s dd df K N vol : ℝ) (ty pc dn fn : Int) (hs : 0 < s) (htd : 0 ≤ td)
    (hv : 1e-10 ≤ vol) (hte : 1e-12 ≤ te) (hK : 1e-12 ≤ K) (hty : ty = 1 ∨ ty = 2) (hpc : pc = dn ∨ pc = fn) :
    (okv (FXP.fx_vanilla_value Φ td te s dd df K N vol ty pc dn fn)).1
      = gkUnclamped Φ s te K (rateOf dd td) (rateOf df td) vol ty := by
  rw [vanilla_v Φ td te s dd df K N vol ty pc dn fn hs htd (le_trans (by norm_num) hv) hty hpc,
    gkVal_eq_unclamped Φ td te s dd df K vol ty hv hte hK hty]

/-! ### limits of the closed form -/

/-- C10: **σ → 0⁺ with T > 0: the value tends to the intrinsic value of the DISCOUNTED legs**,
`max(φ·(S e^{−r_f T} − K e^{−r_d T}), 0)` (forward ≠ strike). -/
theorem zero_vol_limit_is_discounted_intrinsic (Φ : ℝ → ℝ) (hΦtop : Tendsto Φ atTop (𝓝 1)) (hΦbot : Tendsto Φ atBot (𝓝 0))
    (s te K rd rf : ℝ) (ty : Int) (hs : 0 < s) (hK : 0 < K) (hte : 0 < te) (hty : ty = 1 ∨ ty = 2)
    (hne : s * Real.exp (-rf * te) ≠ K * Real.exp (-rd * te)) :
    Tendsto (fun vol => gkUnclamped Φ s te K rd rf vol ty) (𝓝[>] 0)
      (𝓝 (max (eps ty * (s * Real.exp (-rf * te) - K * Real.exp (-rd * te))) 0)) :=
  blackForm_tendsto_intrinsic hΦtop hΦbot tendsto_const_nhds tendsto_const_nhds
    (tendsto_mul_const_nhdsGT (Real.sqrt_pos.mpr hte)) (mul_pos hs (Real.exp_pos _)) (mul_pos hK (Real.exp_pos _)) hne
    (eps_cases hty)

/-- C10: the same limit in the property's vocabulary, when the option time is the delivery time (t ≥ 1e-10) and the rates
are the ones the code implies from the curve discount factors: **value → max(φ·ForwardValue(S, K, df_for, df_dom), 0)**,
the discounted forward intrinsic. -/
theorem zero_vol_limit_is_forward_value_intrinsic (Φ : ℝ → ℝ) (hΦtop : Tendsto Φ atTop (𝓝 1))
    (hΦbot : Tendsto Φ atBot (𝓝 0)) (s t K dd df : ℝ) (ty : Int) (hs : 0 < s) (hK : 0 < K) (ht : 1e-10 ≤ t)
    (hdd : 0 < dd) (hdf : 0 < df) (hty : ty = 1 ∨ ty = 2) (hne : s * df ≠ K * dd) :
    Tendsto (fun vol => gkUnclamped Φ s t K (rateOf dd t) (rateOf df t) vol ty) (𝓝[>] 0)
      (𝓝 (max (eps ty * ForwardValue s K df dd) 0)) := by
  have ht0 : 0 < t := lt_of_lt_of_le (by norm_num) ht
  have h := zero_vol_limit_is_discounted_intrinsic Φ hΦtop hΦbot s t K (rateOf dd t) (rateOf df t) ty hs hK ht0 hty
    (by rw [exp_rate df t hdf ht, exp_rate dd t hdd ht]; exact hne)
  rw [exp_rate df t hdf ht, exp_rate dd t hdd ht] at h
  have e : ForwardValue s K df dd = s * df - K * dd := by
    simp only [ForwardValue, CIPForward]; field_simp
  rw [e]; exact h

/-- non-vacuity of the hypotheses on Φ: a function with the two cdf limits exists (a step function suffices) -/
example : ∃ Φ : ℝ → ℝ, Tendsto Φ atTop (𝓝 1) ∧ Tendsto Φ atBot (𝓝 0) := by
  refine ⟨fun x => if 0 ≤ x then 1 else 0, ?_, ?_⟩
  · apply tendsto_const_nhds.congr'
    filter_upwards [eventually_ge_atTop (0 : ℝ)] with x hx
    simp [hx]
  · apply tendsto_const_nhds.congr'
    filter_upwards [eventually_lt_atBot (0 : ℝ)] with x hx
    simp [not_le.mpr hx]

/-- C10: **the zero-volatility limit is NOT the spot intrinsic** (witness S = K = 1, T = 1, r_f = 0, r_d = 1 i.e.
df_for = 1, df_dom = e⁻¹, call): the spot intrinsic max(S − K, 0) = 0, the limit is 1 − e⁻¹. A fast path returning the spot
intrinsic for σ√T ≈ 0 is therefore discontinuous in σ and violates call − put = forward value. -/
theorem zero_vol_limit_is_not_spot_intrinsic (Φ : ℝ → ℝ) (hΦtop : Tendsto Φ atTop (𝓝 1)) (hΦbot : Tendsto Φ atBot (𝓝 0)) :
    ¬ Tendsto (fun vol => gkUnclamped Φ 1 1 1 (rateOf (Real.exp (-1)) 1) (rateOf 1 1) vol 1) (𝓝[>] 0)
      (𝓝 (max (eps 1 * ((1 : ℝ) - 1)) 0)) := by
  intro hbad
  have hlt : Real.exp (-1) < 1 := by
    have := Real.exp_lt_exp.mpr (show (-1 : ℝ) < 0 by norm_num); rwa [Real.exp_zero] at this
  have hgood := zero_vol_limit_is_forward_value_intrinsic Φ hΦtop hΦbot 1 1 1 (Real.exp (-1)) 1 1 (by norm_num)
    (by norm_num) (by norm_num) (Real.exp_pos _) (by norm_num) (Or.inl rfl) (by rw [one_mul, one_mul]; exact hlt.ne')
  have := tendsto_nhds_unique hbad hgood
  have e : ForwardValue 1 1 1 (Real.exp (-1)) = 1 - Real.exp (-1) := by
    have hne : Real.exp (-1) ≠ 0 := (Real.exp_pos _).ne'
    simp only [ForwardValue, CIPForward]; field_simp
  rw [e, eps_one, one_mul, one_mul, sub_self, max_self, max_eq_left (by linarith)] at this
  linarith

/-- C10: **T → 0⁺ with σ > 0 (rates fixed): the value tends to the SPOT intrinsic** `max(φ·(S − K), 0)` (S ≠ K). -/
theorem zero_time_limit_is_spot_intrinsic (Φ : ℝ → ℝ) (hΦtop : Tendsto Φ atTop (𝓝 1)) (hΦbot : Tendsto Φ atBot (𝓝 0))
    (s K rd rf vol : ℝ) (ty : Int) (hs : 0 < s) (hK : 0 < K) (hv : 0 < vol) (hty : ty = 1 ∨ ty = 2) (hne : s ≠ K) :
    Tendsto (fun te => gkUnclamped Φ s te K rd rf vol ty) (𝓝[>] 0) (𝓝 (max (eps ty * (s - K)) 0)) := by
  have ha : Tendsto (fun te : ℝ => s * Real.exp (-rf * te)) (𝓝[>] 0) (𝓝 s) := by
    have hc : Continuous fun te : ℝ => s * Real.exp (-rf * te) := by fun_prop
    exact (hc.tendsto' 0 s (by simp)).mono_left nhdsWithin_le_nhds
  have hb : Tendsto (fun te : ℝ => K * Real.exp (-rd * te)) (𝓝[>] 0) (𝓝 K) := by
    have hc : Continuous fun te : ℝ => K * Real.exp (-rd * te) := by fun_prop
    exact (hc.tendsto' 0 K (by simp)).mono_left nhdsWithin_le_nhds
  exact blackForm_tendsto_intrinsic hΦtop hΦbot ha hb (tendsto_mul_sqrt_nhdsGT hv) hs hK hne (eps_cases hty)

end FinVerif.Props.C10
