/-
  C10 (part h) — more of the anchored code, as generated:
  * `FXVanillaOption.gamma / vega / theta` (INLINE closed forms in the class, not calls of the `bs_*` kernels): each is the
    corresponding Black–Scholes kernel of `black_scholes_analytic.py` at the rates the method implies from the curves
    (t, σ ≥ 1e-10, K ≥ 1e-12, S > 0), hence inherits C05's "Greek = derivative" theorems; foreign/domestic symmetry of VEGA
    and GAMMA (the code's own density `nprime`, and any Gaussian density);
  * `FXDigitalOption.value`: digital call + digital put = notional × discounted unit of the premium currency;
  * premium views: the same trade quoted with either premium currency (DOM notional N ≡ FOR notional N/K) has the same
    nine entries; the notional in the premium currency is the trade notional;
  * `FXForward.value`: zero ONLY at the forward (iff), strictly decreasing in the strike; FULL statement "value = N ×
    ForwardValue" is false when the discounting df (expiry date) differs from the df inside the forward (delivery date).
-/
import FinVerif.Props.C10c
import FinVerif.Props.C10a

set_option linter.unusedVariables false
set_option linter.unusedSimpArgs false

namespace FinVerif.Props.C10
open FinVerif FinVerif.Gen FinVerif.C05 FinVerif.C10 FinVerif.Props.C05

/-! ### the inline d₁ of the class's Greeks -/

/-- d₁ as the Greek methods of the class write it: `(ln(S/K) + (r_d − r_f + σ²/2)·t) / (σ√t)` -/
noncomputable def fxD1 (s t K rd rf v : ℝ) : ℝ :=
  (Real.log (s / K) + (rd - rf + v * v / 2) * t) / (v * Real.sqrt t)

/-- … is the `D1` of the discounted legs -/
theorem fxD1_eq_D1 {s t K v : ℝ} (rd rf : ℝ) (hs : 0 < s) (hK : 0 < K) (ht : 0 < t) (hv : 0 < v) :
    fxD1 s t K rd rf v = D1 (s * Real.exp (-rf * t)) (K * Real.exp (-rd * t)) (v * Real.sqrt t) := by
  have hsq : Real.sqrt t * Real.sqrt t = t := Real.mul_self_sqrt ht.le
  have hst : Real.sqrt t ≠ 0 := (Real.sqrt_pos.mpr ht).ne'
  have hE1 := Real.exp_pos (-rf * t)
  have hE2 := Real.exp_pos (-rd * t)
  have hlog : Real.log (s * Real.exp (-rf * t) / (K * Real.exp (-rd * t))) = Real.log (s / K) + (rd - rf) * t := by
    rw [Real.log_div (mul_pos hs hE1).ne' (mul_pos hK hE2).ne', Real.log_mul hs.ne' hE1.ne', Real.log_mul hK.ne' hE2.ne',
      Real.log_exp, Real.log_exp, Real.log_div hs.ne' hK.ne']
    ring
  rw [fxD1, D1, hlog]
  have hv' : v ≠ 0 := hv.ne'
  field_simp
  nlinarith [hsq]

/-- above the clamps the inline d₁ is the d₁ of the `bs_*` kernels -/
theorem fxD1_eq_d1Of {s t K v : ℝ} (rd rf : ℝ) (hs : 0 < s) (hK : 1e-12 ≤ K) (ht : 1e-12 ≤ t) (hv : 1e-12 ≤ v) :
    fxD1 s t K rd rf v = d1Of s t K rd rf v := by
  rw [fxD1_eq_D1 rd rf hs (lt_of_lt_of_le (by norm_num) hK) (lt_of_lt_of_le (by norm_num) ht)
    (lt_of_lt_of_le (by norm_num) hv)]
  simp only [d1Of, ssOf, kkOf, wOf, max_eq_left hK, max_eq_left ht, max_eq_left hv]

/-! ### gamma, vega, theta of the class = the kernels -/

theorem vanilla_vega_shape (φ : ℝ → ℝ) (t s dd df K vol : ℝ) (hs : 0 < s) (ht : 0 ≤ t) :
    FXP.fx_vanilla_vega φ t s dd df K vol
      = .ok (s * Real.sqrt (max t 1e-10) * Real.exp (-(rateOf df t) * max t 1e-10)
              * φ (fxD1 s (max t 1e-10) K (rateOf dd t) (rateOf df t) (max vol 1e-10))) := by
  have h1 : ¬ (s ≤ 0) := not_le.mpr hs
  have h2 : ¬ (t < 0) := not_lt.mpr ht
  simp only [FXP.fx_vanilla_vega, fxD1, rateOf, h1, h2, decide_false, if_false, Bool.false_eq_true]

theorem vanilla_gamma_shape (φ : ℝ → ℝ) (t s dd df K vol : ℝ) (hs : 0 < s) (ht : 0 ≤ t) :
    FXP.fx_vanilla_gamma φ t s dd df K vol
      = .ok (Real.exp (-(rateOf df t) * max t 1e-10)
              * φ (fxD1 s (max t 1e-10) K (rateOf dd t) (rateOf df t) (max vol 1e-10)) / s
              / (max vol 1e-10 * Real.sqrt (max t 1e-10))) := by
  have h1 : ¬ (s ≤ 0) := not_le.mpr hs
  have h2 : ¬ (t < 0) := not_lt.mpr ht
  simp only [FXP.fx_vanilla_gamma, fxD1, rateOf, h1, h2, decide_false, if_false, Bool.false_eq_true]

/-- C10: the class's inline VEGA is the kernel `bs_vega` at the rates the method implies (t, σ ≥ 1e-10, K ≥ 1e-12). -/
theorem vanilla_vega_eq_bs_vega (φ : ℝ → ℝ) (t s dd df K vol : ℝ) (ty : Int) (hs : 0 < s) (ht : 1e-10 ≤ t)
    (hv : 1e-10 ≤ vol) (hK : 1e-12 ≤ K) :
    FXP.fx_vanilla_vega φ t s dd df K vol = .ok (BSP.bs_vega φ s t K (rateOf dd t) (rateOf df t) vol ty) := by
  have ht12 : (1e-12 : ℝ) ≤ t := le_trans (by norm_num) ht
  have hv12 : (1e-12 : ℝ) ≤ vol := le_trans (by norm_num) hv
  rw [vanilla_vega_shape φ t s dd df K vol hs (le_trans (by norm_num) ht), bs_vega_shape, max_eq_left ht, max_eq_left hv,
    fxD1_eq_d1Of _ _ hs hK ht12 hv12, ssOf, max_eq_left ht12]
  congr 1; ring

/-- C10: the class's inline GAMMA is the kernel `bs_gamma` at the rates the method implies. -/
theorem vanilla_gamma_eq_bs_gamma (φ : ℝ → ℝ) (t s dd df K vol : ℝ) (ty : Int) (hs : 0 < s) (ht : 1e-10 ≤ t)
    (hv : 1e-10 ≤ vol) (hK : 1e-12 ≤ K) :
    FXP.fx_vanilla_gamma φ t s dd df K vol = .ok (BSP.bs_gamma φ s t K (rateOf dd t) (rateOf df t) vol ty) := by
  have ht12 : (1e-12 : ℝ) ≤ t := le_trans (by norm_num) ht
  have hv12 : (1e-12 : ℝ) ≤ vol := le_trans (by norm_num) hv
  rw [vanilla_gamma_shape φ t s dd df K vol hs (le_trans (by norm_num) ht), bs_gamma_shape, max_eq_left ht, max_eq_left hv,
    fxD1_eq_d1Of _ _ hs hK ht12 hv12, wOf, max_eq_left ht12, max_eq_left hv12]

/-- d₂ as the theta method writes it -/
noncomputable def fxD2 (s t K rd rf v : ℝ) : ℝ :=
  (Real.log (s / K) + (rd - rf - v * v / 2) * t) / (v * Real.sqrt t)

theorem fxD2_eq_d2Of {s t K v : ℝ} (rd rf : ℝ) (hs : 0 < s) (hK : 1e-12 ≤ K) (ht : 1e-12 ≤ t) (hv : 1e-12 ≤ v) :
    fxD2 s t K rd rf v = d2Of s t K rd rf v := by
  have ht0 : 0 < t := lt_of_lt_of_le (by norm_num) ht
  have hv0 : 0 < v := lt_of_lt_of_le (by norm_num) hv
  have hst : Real.sqrt t ≠ 0 := (Real.sqrt_pos.mpr ht0).ne'
  have hsq : Real.sqrt t * Real.sqrt t = t := Real.mul_self_sqrt ht0.le
  rw [d2Of, ← fxD1_eq_d1Of rd rf hs hK ht hv, fxD1, fxD2, wOf, max_eq_left ht, max_eq_left hv]
  have hv' : v ≠ 0 := hv0.ne'
  field_simp
  nlinarith [hsq]

theorem vanilla_theta_shape (Φ φ : ℝ → ℝ) (t s dd df K vol : ℝ) (ty : Int) (hs : 0 < s) (ht : 0 ≤ t) (hty : ty = 1 ∨ ty = 2) :
    FXP.fx_vanilla_theta Φ φ t s dd df K vol ty
      = .ok (-s * Real.exp (-(rateOf df t) * max t 1e-10)
                * φ (fxD1 s (max t 1e-10) K (rateOf dd t) (rateOf df t) (max vol 1e-10)) * max vol 1e-10 / 2
                / Real.sqrt (max t 1e-10)
              + rateOf df t * s * Real.exp (-(rateOf df t) * max t 1e-10)
                * flipN (eps ty) Φ (fxD1 s (max t 1e-10) K (rateOf dd t) (rateOf df t) (max vol 1e-10))
              - rateOf dd t * K * Real.exp (-(rateOf dd t) * max t 1e-10)
                * flipN (eps ty) Φ (fxD2 s (max t 1e-10) K (rateOf dd t) (rateOf df t) (max vol 1e-10))) := by
  have h1 : ¬ (s ≤ 0) := not_le.mpr hs
  have h2 : ¬ (t < 0) := not_lt.mpr ht
  rcases hty with rfl | rfl
  · simp only [FXP.fx_vanilla_theta, fxD1, fxD2, rateOf, h1, h2, decide_false, decide_true, if_false, if_true,
      Bool.false_eq_true, flipN, eps_one, one_mul]
  · simp only [FXP.fx_vanilla_theta, fxD1, fxD2, rateOf, h1, h2, decide_false, decide_true, if_false, if_true,
      Bool.false_eq_true, flipN, eps_two, neg_one_mul, show ¬ ((2 : Int) = 1) by decide]
    congr 1; ring

/-- C10: the class's inline THETA is the kernel `bs_theta` at the rates the method implies (calls and puts). -/
theorem vanilla_theta_eq_bs_theta (Φ φ : ℝ → ℝ) (t s dd df K vol : ℝ) (ty : Int) (hs : 0 < s) (ht : 1e-10 ≤ t)
    (hv : 1e-10 ≤ vol) (hK : 1e-12 ≤ K) (hty : ty = 1 ∨ ty = 2) :
    FXP.fx_vanilla_theta Φ φ t s dd df K vol ty = BSP.bs_theta Φ φ s t K (rateOf dd t) (rateOf df t) vol ty := by
  have ht12 : (1e-12 : ℝ) ≤ t := le_trans (by norm_num) ht
  have hv12 : (1e-12 : ℝ) ≤ vol := le_trans (by norm_num) hv
  rw [vanilla_theta_shape Φ φ t s dd df K vol ty hs (le_trans (by norm_num) ht) hty, bs_theta_shape Φ φ s t K _ _ vol hty,
    max_eq_left ht, max_eq_left hv, fxD1_eq_d1Of _ _ hs hK ht12 hv12, fxD2_eq_d2Of _ _ hs hK ht12 hv12, ssOf, kkOf,
    max_eq_left ht12, max_eq_left hv12, max_eq_left hK]
  congr 1; ring

variable {Φ φ : ℝ → ℝ} {c : ℝ}

/-- C10: **the class's vega is ∂(coded value)/∂σ** when the option time is the delivery time (t_exp = t_del = t ≥ 1e-10 —
`vega` implies its rates at t_exp, `value` at t_del), σ > 1e-10, K ≥ 1e-12. -/
theorem vanilla_vega_is_derivative_partial (h : IsGaussPair Φ φ c) (t s dd df K vol : ℝ) (ty : Int) (hs : 0 < s)
    (ht : 1e-10 ≤ t) (hv : 1e-10 < vol) (hK : 1e-12 ≤ K) (hty : ty = 1 ∨ ty = 2) :
    GreekIs (fun x => gkVal Φ t t s dd df K x ty) (okv (FXP.fx_vanilla_vega φ t s dd df K vol)) vol := by
  rw [vanilla_vega_eq_bs_vega φ t s dd df K vol ty hs ht hv.le hK, okv_ok]
  have hb := bs_vega_is_derivative h hs t K (rateOf dd t) (rateOf df t) (lt_trans (by norm_num) hv) hty
  refine hb.congr_of_eventuallyEq ?_
  filter_upwards [Ioi_mem_nhds hv] with x hx
  rw [gkVal, max_eq_left (le_of_lt hx)]

/-- C10: **the class's gamma is ∂(pips spot delta)/∂S** under the same hypothesis. -/
theorem vanilla_gamma_is_derivative_partial (h : IsGaussPair Φ φ c) (t s dd df K vol : ℝ) (ty : Int) (hs : 0 < s)
    (ht : 1e-10 ≤ t) (hv : 1e-10 ≤ vol) (hK : 1e-12 ≤ K) (hty : ty = 1 ∨ ty = 2) :
    GreekIs (fun x => (okv (FXP.fx_vanilla_delta Φ t t x dd df K vol ty)).1) (okv (FXP.fx_vanilla_gamma φ t s dd df K vol)) s := by
  rw [vanilla_gamma_eq_bs_gamma φ t s dd df K vol ty hs ht hv hK, okv_ok]
  have hb := bs_gamma_is_derivative h hs t K (rateOf dd t) (rateOf df t) vol hty
  refine hb.congr_of_eventuallyEq ?_
  filter_upwards [Ioi_mem_nhds hs] with x hx
  rw [vanilla_delta_shape Φ t t x dd df K vol ty hx (le_trans (by norm_num) ht) hv hty]
  rfl

/-! ### foreign / domestic symmetry of vega and gamma -/

/-- a·φ(d₁) = b·φ(d₁ − w) for a Gaussian density, without reference to a cdf -/
theorem key_identity_pdf (hφ : ∀ x, φ x = c * Real.exp (-(x * x) / 2)) {a b w : ℝ} (ha : 0 < a) (hb : 0 < b) (hw : w ≠ 0) :
    a * φ (D1 a b w) = b * φ (D1 a b w - w) := by
  obtain ⟨Φ', φ', h'⟩ := exists_gaussPair c
  have e : φ = φ' := funext fun x => by rw [hφ x, h'.pdf x]
  rw [e]; exact key_identity h' ha hb hw

/-- C10: **foreign/domestic symmetry of VEGA and GAMMA as coded** (any Gaussian density φ = c·exp(−x²/2)): with reciprocal
spot and strike and the curves exchanged,  vega(S, K) = S·K·vega'(1/S, 1/K)  and  gamma(S, K) = (K/S³)·gamma'(1/S, 1/K). -/
theorem vega_gamma_foreign_domestic_symmetry (hφ : ∀ x, φ x = c * Real.exp (-(x * x) / 2)) (t s dd df K vol : ℝ)
    (hs : 0 < s) (hK : 0 < K) (ht : 0 ≤ t) :
    okv (FXP.fx_vanilla_vega φ t s dd df K vol) = s * K * okv (FXP.fx_vanilla_vega φ t (1 / s) df dd (1 / K) vol)
    ∧ okv (FXP.fx_vanilla_gamma φ t s dd df K vol) = K / s ^ 3 * okv (FXP.fx_vanilla_gamma φ t (1 / s) df dd (1 / K) vol) := by
  have hs1 : 0 < 1 / s := by positivity
  have hK1 : 0 < 1 / K := by positivity
  have hT0 : 0 < max t 1e-10 := lt_of_lt_of_le (by norm_num) (le_max_right t 1e-10)
  have hV0 : 0 < max vol 1e-10 := lt_of_lt_of_le (by norm_num) (le_max_right vol 1e-10)
  rw [vanilla_vega_shape φ t s dd df K vol hs ht, vanilla_vega_shape φ t (1 / s) df dd (1 / K) vol hs1 ht,
    vanilla_gamma_shape φ t s dd df K vol hs ht, vanilla_gamma_shape φ t (1 / s) df dd (1 / K) vol hs1 ht]
  simp only [okv_ok]
  generalize max t 1e-10 = T at hT0 ⊢
  generalize max vol 1e-10 = V at hV0 ⊢
  generalize rateOf dd t = rd
  generalize rateOf df t = rf
  have hw0 : 0 < V * Real.sqrt T := mul_pos hV0 (Real.sqrt_pos.mpr hT0)
  have hE1 := Real.exp_pos (-rf * T)
  have hE2 := Real.exp_pos (-rd * T)
  have ha0 : 0 < s * Real.exp (-rf * T) := mul_pos hs hE1
  have hb0 : 0 < K * Real.exp (-rd * T) := mul_pos hK hE2
  -- d₁ of the reciprocal problem = −(d₁ − w)
  have hrec : fxD1 (1 / s) T (1 / K) rf rd V
      = -(D1 (s * Real.exp (-rf * T)) (K * Real.exp (-rd * T)) (V * Real.sqrt T) - V * Real.sqrt T) := by
    rw [fxD1_eq_D1 rf rd hs1 hK1 hT0 hV0]
    have hr : 1 / s * Real.exp (-rd * T) / (1 / K * Real.exp (-rf * T))
        = (s * Real.exp (-rf * T) / (K * Real.exp (-rd * T)))⁻¹ := by
      have hs' : s ≠ 0 := hs.ne'
      have hK' : K ≠ 0 := hK.ne'
      field_simp
    rw [D1, D1, hr, Real.log_inv]
    have hw' : V * Real.sqrt T ≠ 0 := hw0.ne'
    field_simp
    ring
  have heven : ∀ x, φ (-x) = φ x := fun x => by rw [hφ, hφ]; congr 2; ring
  have key := key_identity_pdf hφ ha0 hb0 hw0.ne'
  rw [hrec, heven, fxD1_eq_D1 rd rf hs hK hT0 hV0]
  have hsT : 0 < Real.sqrt T := Real.sqrt_pos.mpr hT0
  generalize D1 (s * Real.exp (-rf * T)) (K * Real.exp (-rd * T)) (V * Real.sqrt T) = d at key ⊢
  generalize φ d = p1 at key ⊢
  generalize φ (d - V * Real.sqrt T) = p2 at key ⊢
  generalize Real.exp (-rf * T) = E1 at key hE1 ⊢
  generalize Real.exp (-rd * T) = E2 at key hE2 ⊢
  generalize Real.sqrt T = q at hsT ⊢
  have hs' : s ≠ 0 := hs.ne'
  have hK' : K ≠ 0 := hK.ne'
  have hV' : V ≠ 0 := hV0.ne'
  have hq' : q ≠ 0 := hsT.ne'
  constructor
  · field_simp
    linear_combination key
  · field_simp
    linear_combination key

/-- the same for the code's OWN density `nprime` (no hypothesis): `Gen/FXR` is `Gen/FXP` at `BSR.nprime` -/
theorem vega_gamma_foreign_domestic_symmetry_coded (t s dd df K vol : ℝ) (hs : 0 < s) (hK : 0 < K) (ht : 0 ≤ t) :
    okv (FXR.fx_vanilla_vega t s dd df K vol) = s * K * okv (FXR.fx_vanilla_vega t (1 / s) df dd (1 / K) vol)
    ∧ okv (FXR.fx_vanilla_gamma t s dd df K vol) = K / s ^ 3 * okv (FXR.fx_vanilla_gamma t (1 / s) df dd (1 / K) vol) :=
  vega_gamma_foreign_domestic_symmetry (φ := BSR.nprime) (c := 0.3989422804014327) nprime_form t s dd df K vol hs hK ht

example : (0 : ℝ) < 6/5 ∧ (0 : ℝ) < 5/4 ∧ (0 : ℝ) ≤ 1 := by norm_num

/-! ### FX digital -/

/-- d₂ as `FXDigitalOption.value` writes it (σ√t_exp in the denominator, t_del in the drift — as coded) -/
noncomputable def fxDigD2 (td te s dd df K vol : ℝ) : ℝ :=
  (Real.log (s / K) + (rateOf dd td - rateOf df td - vol * vol / 2) * max td 1e-10) / (vol * Real.sqrt te)

/-- C10: **FX digital call + digital put = notional × the discounted unit of the premium currency** (df_dom for a DOM
premium, S·df_for for a FOR premium), for any Φ symmetric at the coded d₂ and positive discount factors. -/
theorem digital_call_plus_put (Φ : ℝ → ℝ) (td te s dd df K N vol : ℝ) (pc dn fn : Int) (hs : 0 < s) (htd : 0 ≤ td)
    (hdd : 0 < dd) (hdf : 0 < df) (hne : dn ≠ fn) (hpc : pc = dn ∨ pc = fn)
    (hsym : Φ (fxDigD2 td te s dd df K vol) + Φ (-fxDigD2 td te s dd df K vol) = 1) :
    okVal (FXP.fx_digital_value Φ td te s dd df K N vol 5 pc dn fn) + okVal (FXP.fx_digital_value Φ td te s dd df K N vol 6 pc dn fn)
      = N * (if pc = dn then dd else s * df) := by
  have h1 : ¬ (s ≤ 0) := not_le.mpr hs
  have h2 : ¬ (td < 0) := not_lt.mpr htd
  have ht : max td 1e-10 ≠ 0 := (lt_of_lt_of_le (by norm_num) (le_max_right td 1e-10)).ne'
  have e1 : Real.exp (-(rateOf dd td) * max td 1e-10) = dd := by
    have : -(rateOf dd td) * max td 1e-10 = Real.log dd := by rw [rateOf]; field_simp
    rw [this, Real.exp_log hdd]
  have e2 : Real.exp (-(rateOf df td) * max td 1e-10) = df := by
    have : -(rateOf df td) * max td 1e-10 = Real.log df := by rw [rateOf]; field_simp
    rw [this, Real.exp_log hdf]
  unfold fxDigD2 rateOf at hsym
  unfold rateOf at e1 e2
  rcases hpc with rfl | rfl
  · simp only [FXP.fx_digital_value, h1, h2, Ne.symm hne, decide_false, decide_true, if_false, if_true, Bool.false_eq_true,
      Bool.and_false, Bool.and_true, Bool.true_and, show ¬ ((6 : Int) = 5) by decide, okVal_ok, e1]
    linear_combination (dd * N) * hsym
  · simp only [FXP.fx_digital_value, h1, h2, hne, decide_false, decide_true, if_false, if_true, Bool.false_eq_true,
      Bool.and_false, Bool.and_true, Bool.true_and, show ¬ ((6 : Int) = 5) by decide, okVal_ok, e2, Ne.symm hne]
    linear_combination (s * df * N) * hsym

example : ∃ Φ : ℝ → ℝ, ∀ x, Φ x + Φ (-x) = 1 := ⟨fun _ => 1 / 2, fun _ => by norm_num⟩

/-! ### premium views: the same trade in either premium currency -/

/-- C10: **the premium currency only re-labels the notional**: a DOM-premium trade with notional N and the FOR-premium
trade with notional N/K (the same amounts) report the same nine numbers; K ≠ 0. -/
theorem premium_currency_consistent (Φ : ℝ → ℝ) (td te s dd df K N vol : ℝ) (ty dn fn : Int) (hs : 0 < s) (htd : 0 ≤ td)
    (hv : 0 ≤ vol) (hK : K ≠ 0) (hty : ty = 1 ∨ ty = 2) (hne : dn ≠ fn) :
    FXP.fx_vanilla_value Φ td te s dd df K N vol ty dn dn fn = FXP.fx_vanilla_value Φ td te s dd df K (N / K) vol ty fn dn fn := by
  rw [vanilla_value_shape Φ td te s dd df K N vol ty dn dn fn hs htd hv hty (Or.inl rfl),
    vanilla_value_shape Φ td te s dd df K (N / K) vol ty fn dn fn hs htd hv hty (Or.inr rfl)]
  have e : N / K * K = N := by field_simp
  simp only [notDomOf, notForOf, if_true, Ne.symm hne, if_false, e]

/-- C10: the notional reported in the premium currency is the trade notional. -/
theorem own_notional_is_trade_notional (Φ : ℝ → ℝ) (td te s dd df K N vol : ℝ) (ty pc dn fn : Int) (hs : 0 < s)
    (htd : 0 ≤ td) (hv : 0 ≤ vol) (hty : ty = 1 ∨ ty = 2) (hne : dn ≠ fn) :
    (okv (FXP.fx_vanilla_value Φ td te s dd df K N vol ty dn dn fn)).2.2.2.2.2.2.2.1 = N
    ∧ (okv (FXP.fx_vanilla_value Φ td te s dd df K N vol ty fn dn fn)).2.2.2.2.2.2.2.2 = N := by
  rw [vanilla_value_shape Φ td te s dd df K N vol ty dn dn fn hs htd hv hty (Or.inl rfl),
    vanilla_value_shape Φ td te s dd df K N vol ty fn dn fn hs htd hv hty (Or.inr rfl)]
  simp only [okv_ok, notDomOf, notForOf, if_true, Ne.symm hne, if_false, and_self]

/-! ### FXForward.value: zero only at the forward; delivery-date vs expiry-date discount factors -/

/-- C10: **a forward contract is worth zero ONLY when struck at the forward** (FOR notional N ≠ 0, discount factor ≠ 0):
converse of `forward_struck_at_forward_is_zero`. -/
theorem forward_value_zero_iff_at_forward (t s dd tf ff fd K N : ℝ) (nc dn fn : Int) (hs : 0 < s) (ht : 0 ≤ t) (htf : 0 ≤ tf)
    (hnc : nc = fn) (hne : fn ≠ dn) (hN : N ≠ 0) (hdd : dd ≠ 0) :
    (okv (FXR.fx_forward_value t s dd tf ff fd K N nc dn fn)).1 = 0 ↔ K = CIPForward s ff fd := by
  obtain ⟨r, h, hr⟩ := forward_value_for t s dd tf ff fd K N nc dn fn hs ht htf hnc hne
  rw [h, okv_ok, hr]
  constructor
  · intro h0
    rcases mul_eq_zero.mp h0 with h1 | h1
    · rcases mul_eq_zero.mp h1 with h2 | h2
      · linarith
      · exact absurd h2 hN
    · exact absurd h1 hdd
  · intro hK; rw [hK]; ring

/-- C10: for a long FOR notional and a positive discount factor the coded value is strictly decreasing in the strike. -/
theorem forward_value_strictAnti_in_strike (t s dd tf ff fd N : ℝ) (nc dn fn : Int) (hs : 0 < s) (ht : 0 ≤ t) (htf : 0 ≤ tf)
    (hnc : nc = fn) (hne : fn ≠ dn) (hN : 0 < N) (hdd : 0 < dd) :
    StrictAnti (fun K => (okv (FXR.fx_forward_value t s dd tf ff fd K N nc dn fn)).1) := by
  intro K1 K2 hlt
  obtain ⟨r1, h1, hr1⟩ := forward_value_for t s dd tf ff fd K1 N nc dn fn hs ht htf hnc hne
  obtain ⟨r2, h2, hr2⟩ := forward_value_for t s dd tf ff fd K2 N nc dn fn hs ht htf hnc hne
  show (okv (FXR.fx_forward_value t s dd tf ff fd K2 N nc dn fn)).1 < (okv (FXR.fx_forward_value t s dd tf ff fd K1 N nc dn fn)).1
  rw [h1, h2, okv_ok, okv_ok, hr1, hr2]
  have : 0 < N * dd := mul_pos hN hdd
  nlinarith

/-- FULL statement: the coded value of a FOR-notional forward is N × the spec's forward value for EVERY discounting factor
`dd` (read at the expiry date) and forward dfs `ff, fd` (read at the delivery date). -/
def ForwardValueEqSpec : Prop := ∀ t s dd tf ff fd K N : ℝ, 0 < s → 0 ≤ t → 0 ≤ tf → 0 < dd → 0 < fd →
  (okv (FXR.fx_forward_value t s dd tf ff fd K N 2 1 2)).1 = N * ForwardValue s K ff fd

/-- C10 counterexample (the forward side of finding `C10/forward-option-spot-lag-mismatch`): the code discounts
`F − K` with the domestic df at the EXPIRY date but forms `F` with the dfs at the DELIVERY date; with dd = ½ ≠ fd = 1
(S = ff = N = 1, K = 0) the coded value is ½, the forward's value 1.  `forward_value_eq_spec_partial` is the true part. -/
theorem forward_value_full_false : ¬ ForwardValueEqSpec := by
  intro h
  have := h 1 1 (1/2) 1 1 1 0 1 (by norm_num) (by norm_num) (by norm_num) (by norm_num) (by norm_num)
  obtain ⟨r, hr, hv⟩ := forward_value_for 1 1 (1/2) 1 1 1 0 1 2 1 2 (by norm_num) (by norm_num) (by norm_num) rfl (by decide)
  rw [hr, okv_ok, hv] at this
  simp only [ForwardValue, CIPForward] at this
  norm_num at this

end FinVerif.Props.C10
