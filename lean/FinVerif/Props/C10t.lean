/-
  C10 (ties) — `Gen/FXP` (generated source with the cdf / inverse cdf abstracted to parameters) instantiated with the code's
  own `N` IS `Gen/FXR`, definitionally.  A theorem about `FXP.f Φ` for all Φ is therefore a theorem about the source text.
-/
import FinVerif.Gen.FXR
import FinVerif.Gen.FXP
import FinVerif.Props.C05a
import FinVerif.Spec.C10

set_option linter.unusedVariables false
set_option linter.unusedSimpArgs false

namespace FinVerif.Props.C10
open FinVerif FinVerif.Gen FinVerif.C05 FinVerif.C10 FinVerif.Props.C05

/-! ### `Gen/FXP` is the generated code: with the code's `N` it is `Gen/FXR` definitionally -/

theorem tie_vanilla_value (td te s dd df K N v : ℝ) (ty pc dn fn : Int) :
    FXP.fx_vanilla_value BSR.N td te s dd df K N v ty pc dn fn = FXR.fx_vanilla_value td te s dd df K N v ty pc dn fn := rfl
theorem tie_vanilla_delta (td te s dd df K v : ℝ) (ty : Int) :
    FXP.fx_vanilla_delta BSR.N td te s dd df K v ty = FXR.fx_vanilla_delta td te s dd df K v ty := rfl
theorem tie_fast_delta_dict (t s rd rf v K : ℝ) (ty : Int) :
    FXP.fx_fast_delta_dict BSR.N t s rd rf v K ty = FXR.fx_fast_delta_dict t s rd rf v K ty := rfl
theorem tie_fast_delta (s t k rd rf v : ℝ) (m ty : Int) :
    FXP.fast_delta BSR.N s t k rd rf v m ty = FXR.fast_delta s t k rd rf v m ty := rfl
theorem tie_strike_objective (k s t rd rf v : ℝ) (m ty : Int) (tg : ℝ) :
    FXP.strike_objective BSR.N k s t rd rf v m ty tg = FXR.strike_objective k s t rd rf v m ty tg := rfl
theorem tie_forward (t s ff fd : ℝ) : FXP.fx_forward t s ff fd = FXR.fx_forward t s ff fd := rfl
theorem tie_forward_value (t s dd tf ff fd K N : ℝ) (nc dn fn : Int) :
    FXP.fx_forward_value t s dd tf ff fd K N nc dn fn = FXR.fx_forward_value t s dd tf ff fd K N nc dn fn := rfl
theorem tie_vanilla_vega (t s dd df K v : ℝ) :
    FXP.fx_vanilla_vega BSR.nprime t s dd df K v = FXR.fx_vanilla_vega t s dd df K v := rfl
theorem tie_vanilla_gamma (t s dd df K v : ℝ) :
    FXP.fx_vanilla_gamma BSR.nprime t s dd df K v = FXR.fx_vanilla_gamma t s dd df K v := rfl
theorem tie_vanilla_theta (t s dd df K v : ℝ) (ty : Int) :
    FXP.fx_vanilla_theta BSR.N BSR.nprime t s dd df K v ty = FXR.fx_vanilla_theta t s dd df K v ty := rfl
theorem tie_digital_value (td te s dd df K N v : ℝ) (ty pc dn fn : Int) :
    FXP.fx_digital_value BSR.n_vect td te s dd df K N v ty pc dn fn = FXR.fx_digital_value td te s dd df K N v ty pc dn fn := rfl

end FinVerif.Props.C10
