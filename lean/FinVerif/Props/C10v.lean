/-
  C10 (part v) — a DEFECT of `FXForward.value`, stated and kernel-checked (finding `C10/forward-dom-notional-value`):
  with the notional in the DOMESTIC currency the coded value is (F − K)·N·df·F.  This module stops building when the
  defect is repaired (fixes/C10-forward-dom-notional.diff); the harness then reports the finding as stale provided its
  oracle `forward:value` holds everywhere it was tested.
-/
import FinVerif.Props.C10a

set_option linter.unusedVariables false
set_option linter.unusedSimpArgs false

namespace FinVerif.Props.C10
open FinVerif FinVerif.Gen FinVerif.C05 FinVerif.C10 FinVerif.Props.C05

/-- the value entry of the coded `FXForward.value` for a notional in the DOMESTIC currency, as coded: `(F − K)·N·df_dom·F` -/
theorem forward_value_dom (t s dd tf ff fd K N : ℝ) (nc dn fn : Int) (hs : 0 < s) (ht : 0 ≤ t) (htf : 0 ≤ tf)
    (hnc : nc = dn) (hne : dn ≠ fn) :
    ∃ r, FXR.fx_forward_value t s dd tf ff fd K N nc dn fn = .ok r
      ∧ r.1 = (CIPForward s ff fd - K) * N * dd * CIPForward s ff fd := by
  subst hnc
  have h1 : ¬ (s ≤ 0) := not_le.mpr hs
  have h2 : ¬ (t < 0) := not_lt.mpr ht
  simp only [FXR.fx_forward_value, forward_eq_spot_df_ratio tf s ff fd hs htf, h1, h2, hne, decide_false, decide_true,
    if_false, if_true, Bool.false_eq_true]
  exact ⟨_, rfl, rfl⟩

/-- FULL statement: the value for a DOM notional `N` is the value for the FOR notional `N/K` (same contract). -/
def ForwardNotionalCurrencyConsistent : Prop := ∀ t s dd tf ff fd K N : ℝ, 0 < s → 0 ≤ t → 0 ≤ tf → 0 < K →
  (okv (FXR.fx_forward_value t s dd tf ff fd K N 1 1 2)).1 = (okv (FXR.fx_forward_value t s dd tf ff fd K (N / K) 2 1 2)).1

/-- C10 counterexample: S = 6/5, K = 5/4, dfs = 1, N = 1: the coded DOM-notional value is (F−K)·N·df·F = −3/50, the same
contract with FOR notional N/K is worth −1/25. -/
theorem forward_notional_currency_inconsistent : ¬ ForwardNotionalCurrencyConsistent := by
  intro h
  have := h 1 (6/5) 1 1 1 1 (5/4) 1 (by norm_num) (by norm_num) (by norm_num) (by norm_num)
  obtain ⟨r1, e1, hr1⟩ := forward_value_dom 1 (6/5) 1 1 1 1 (5/4) 1 1 1 2 (by norm_num) (by norm_num) (by norm_num) rfl (by decide)
  obtain ⟨r2, e2, hr2⟩ := forward_value_for 1 (6/5) 1 1 1 1 (5/4) (1 / (5/4)) 2 1 2 (by norm_num) (by norm_num) (by norm_num) rfl (by decide)
  rw [e1, e2, okv_ok, okv_ok, hr1, hr2] at this
  simp only [CIPForward] at this
  norm_num at this

/-- what does hold: the two agree exactly when the contract is at par or `F·K = 1` -/
theorem forward_notional_currency_partial (t s dd tf ff fd K N : ℝ) (hs : 0 < s) (ht : 0 ≤ t) (htf : 0 ≤ tf) (hK : 0 < K)
    (h : CIPForward s ff fd = K ∨ CIPForward s ff fd * K = 1) :
    (okv (FXR.fx_forward_value t s dd tf ff fd K N 1 1 2)).1 = (okv (FXR.fx_forward_value t s dd tf ff fd K (N / K) 2 1 2)).1 := by
  obtain ⟨r1, e1, hr1⟩ := forward_value_dom t s dd tf ff fd K N 1 1 2 hs ht htf rfl (by decide)
  obtain ⟨r2, e2, hr2⟩ := forward_value_for t s dd tf ff fd K (N / K) 2 1 2 hs ht htf rfl (by decide)
  rw [e1, e2, okv_ok, okv_ok, hr1, hr2]
  rcases h with h | h
  · rw [h]; ring
  · have hk : K ≠ 0 := hK.ne'
    have : CIPForward s ff fd = 1 / K := by field_simp; linarith
    rw [this]; field_simp

end FinVerif.Props.C10
