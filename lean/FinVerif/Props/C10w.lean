/-
  C10 (part w) — a DEFECT of `FXForward.value`, stated and kernel-checked (finding `C10/forward-cash-double-notional`):
  the value already carries the notional and the two cash views multiply by the notional again.  This module stops
  building when the cash views are repaired; the harness then reports the finding as stale provided its oracle
  `forward:cash` holds everywhere it was tested.
-/
import FinVerif.Props.C10a

set_option linter.unusedVariables false
set_option linter.unusedSimpArgs false

namespace FinVerif.Props.C10
open FinVerif FinVerif.Gen FinVerif.C05 FinVerif.C10 FinVerif.Props.C05

/-- all five entries of the coded `FXForward.value` for a notional in the FOREIGN currency:
`value = (F − K)·N·df_dom`, cash_dom = value·(N·K)/K, cash_for = value·N/S. -/
theorem forward_value_for_shape (t s dd tf ff fd K N : ℝ) (nc dn fn : Int) (hs : 0 < s) (ht : 0 ≤ t) (htf : 0 ≤ tf)
    (hnc : nc = fn) (hne : fn ≠ dn) :
    FXR.fx_forward_value t s dd tf ff fd K N nc dn fn
      = .ok ((CIPForward s ff fd - K) * N * dd, (CIPForward s ff fd - K) * N * dd * (N * K) / K,
             (CIPForward s ff fd - K) * N * dd * N / s, N * K, N) := by
  subst hnc
  have h1 : ¬ (s ≤ 0) := not_le.mpr hs
  have h2 : ¬ (t < 0) := not_lt.mpr ht
  simp only [FXR.fx_forward_value, forward_eq_spot_df_ratio tf s ff fd hs htf, h1, h2, hne, decide_false, decide_true,
    if_false, if_true, Bool.false_eq_true]

/-- FULL statement: `cash_dom` is the value in DOM cash (the value already carries the notional). -/
def ForwardCashDomIsValue : Prop := ∀ t s dd tf ff fd K N : ℝ, 0 < s → 0 ≤ t → 0 ≤ tf → 0 < K →
  (okv (FXR.fx_forward_value t s dd tf ff fd K N 2 1 2)).2.1 = (okv (FXR.fx_forward_value t s dd tf ff fd K N 2 1 2)).1

/-- C10 counterexample: S = 6/5, K = 1, dfs = 1, N = 2: value = 2/5 but cash_dom = value × N = 4/5. -/
theorem forward_cash_dom_not_value : ¬ ForwardCashDomIsValue := by
  intro h
  have := h 1 (6/5) 1 1 1 1 1 2 (by norm_num) (by norm_num) (by norm_num) (by norm_num)
  rw [forward_value_for_shape _ _ _ _ _ _ _ _ 2 1 2 (by norm_num) (by norm_num) (by norm_num) rfl (by decide)] at this
  simp only [okv_ok, CIPForward] at this
  norm_num at this

/-- as coded: cash_dom = N × value for a FOR notional (so it is the value only for a unit notional) -/
theorem forward_cash_dom_partial (t s dd tf ff fd K N : ℝ) (hs : 0 < s) (ht : 0 ≤ t) (htf : 0 ≤ tf) (hK : 0 < K) :
    (okv (FXR.fx_forward_value t s dd tf ff fd K N 2 1 2)).2.1 = N * (okv (FXR.fx_forward_value t s dd tf ff fd K N 2 1 2)).1 := by
  rw [forward_value_for_shape _ _ _ _ _ _ _ _ 2 1 2 hs ht htf rfl (by decide)]
  simp only [okv_ok]
  field_simp

end FinVerif.Props.C10
