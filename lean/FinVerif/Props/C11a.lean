/-
  C11a — `value_barrier` (financepy/models/equity_barrier_models.py), GENERATED real model:
  knock-in + knock-out = vanilla for the four pairs, on every branch
  (spot beyond the barrier: the short-circuits; spot on the live side: shifted barrier below / above / at the strike).

  All `*_dead` and `*_live_ne` theorems are exact algebra of the coded branch formulas: they hold for every real
  input with no hypothesis on signs, on `N`, on `pow`, or on the monitoring frequency (the same shifted barrier is
  used by the in- and the out-option).  When the shifted barrier EQUALS the strike the in- and the out-option
  take different formula branches (`h >= k` vs `h <= k`, `h > k` vs `h >= k`); there the identity needs
  real-analysis facts (`log (k*k/(s*k)) = log (k/s)`, `x1 = d1`) and holds under `1e-5 ≤ |v|` and `0 < t`
  (`*_live_eq`); for `|v| < 1e-5` the code replaces `v` in `ll` only and the identity is not exact.
-/
import FinVerif.Gen.ExoticR
import FinVerif.Spec.Exotics
import FinVerif.Lemmas.C11
import Mathlib.Tactic.Ring
import Mathlib.Tactic.Linarith
import Mathlib.Tactic.FieldSimp
import Mathlib.Tactic.NormNum

set_option linter.unusedSimpArgs false
set_option linter.unusedVariables false

namespace FinVerif.Props.C11a
open FinVerif FinVerif.Gen.ExoticR FinVerif.Spec.Exotics FinVerif.Lemmas.C11

/-- C11/C05: the coded normal CDF is symmetric away from 0 (by its own `1 - N(-x)` branch). -/
theorem N_symm (x : ℝ) (hx : x ≠ 0) : N x + N (-x) = 1 := by
  unfold N
  rcases lt_or_gt_of_ne hx with h | h
  · have h1 : ¬ (x ≥ 0) := not_le.mpr h
    have h2 : (-x ≥ 0) := by linarith
    simp only [N_fuel, h1, h2, decide_false, decide_true, if_true, if_false, Bool.false_eq_true, neg_neg, abs_neg]
    ring
  · have h1 : (x ≥ 0) := le_of_lt h
    have h2 : ¬ (-x ≥ 0) := by intro h'; linarith
    simp only [N_fuel, h1, h2, decide_false, decide_true, if_true, if_false, Bool.false_eq_true, neg_neg, abs_neg]
    ring

/-- the vanilla call that `value_barrier` computes inline (`c`) -/
noncomputable def vanCall (t k s r q v : ℝ) : ℝ :=
  s * Real.exp (-q * t) * N ((Real.log (s / k) + (r - q + v * v / 2) * t) / (v * Real.sqrt t))
    - k * Real.exp (-r * t) * N ((Real.log (s / k) + (r - q - v * v / 2) * t) / (v * Real.sqrt t))

/-- the vanilla put that `value_barrier` computes inline (`p`) -/
noncomputable def vanPut (t k s r q v : ℝ) : ℝ :=
  k * Real.exp (-r * t) * N (-((Real.log (s / k) + (r - q - v * v / 2) * t) / (v * Real.sqrt t)))
    - s * Real.exp (-q * t) * N (-((Real.log (s / k) + (r - q + v * v / 2) * t) / (v * Real.sqrt t)))

/-- the barrier after the Broadie–Glasserman–Kou shift, as coded, for down barriers -/
noncomputable def hDown (t h v : ℝ) (nobs : Int) : ℝ :=
  h * Real.exp (-(0.5826 : ℝ) * v * Real.sqrt (t / (((1 : Int) : ℝ) + t * (nobs : ℝ))))

/-- … and for up barriers -/
noncomputable def hUp (t h v : ℝ) (nobs : Int) : ℝ :=
  h * Real.exp ((0.5826 : ℝ) * v * Real.sqrt (t / (((1 : Int) : ℝ) + t * (nobs : ℝ))))

open Lean.Parser.Tactic in
macro "vb_simp" "[" ts:simpLemma,* "]" : tactic =>
  `(tactic| simp only [value_barrier, decide_eq_true_eq, decide_true, decide_false, if_true, if_false, ite_true, ite_false,
      Int.reduceEq, Bool.or_false, Bool.or_true, Bool.true_or, Bool.false_or, Bool.not_true, Bool.not_false,
      Bool.false_eq_true, addE, vanCall, vanPut, InPlusOutIsVanilla, $ts,*])

/-! ### down call : DOWN_AND_IN_CALL (2) + DOWN_AND_OUT_CALL (1) -/

theorem down_call_dead (t k h s r q v : ℝ) (nobs : Int) (hs : s < h) :
    InPlusOutIsVanilla (value_barrier t k h s r q v 2 nobs) (value_barrier t k h s r q v 1 nobs) (vanCall t k s r q v) := by
  have hs' : ¬ (s ≥ h) := not_le.mpr hs
  vb_simp [hs']
  congr 1; ring

theorem down_call_live_ne (t k h s r q v : ℝ) (nobs : Int) (hs : s ≥ h) (hne : hDown t h v nobs ≠ k) :
    InPlusOutIsVanilla (value_barrier t k h s r q v 2 nobs) (value_barrier t k h s r q v 1 nobs) (vanCall t k s r q v) := by
  rcases lt_or_gt_of_ne hne with hlt | hgt
  · have h1 : ¬ (hDown t h v nobs ≥ k) := not_le.mpr hlt
    have h2 : hDown t h v nobs ≤ k := le_of_lt hlt
    unfold hDown at h1 h2
    vb_simp [hs, h1, h2]
    congr 1; ring
  · have h1 : hDown t h v nobs ≥ k := le_of_lt hgt
    have h2 : ¬ (hDown t h v nobs ≤ k) := not_le.mpr hgt
    unfold hDown at h1 h2
    vb_simp [hs, h1, h2]
    congr 1; ring

/-! ### up call : UP_AND_IN_CALL (4) + UP_AND_OUT_CALL (3) -/

theorem up_call_dead (t k h s r q v : ℝ) (nobs : Int) (hs : s ≥ h) :
    InPlusOutIsVanilla (value_barrier t k h s r q v 4 nobs) (value_barrier t k h s r q v 3 nobs) (vanCall t k s r q v) := by
  vb_simp [hs]
  congr 1; ring

theorem up_call_live_ne (t k h s r q v : ℝ) (nobs : Int) (hs : s < h) (hne : hUp t h v nobs ≠ k) :
    InPlusOutIsVanilla (value_barrier t k h s r q v 4 nobs) (value_barrier t k h s r q v 3 nobs) (vanCall t k s r q v) := by
  have hs' : ¬ (s ≥ h) := not_le.mpr hs
  rcases lt_or_gt_of_ne hne with hlt | hgt
  · have h1 : ¬ (hUp t h v nobs ≥ k) := not_le.mpr hlt
    have h2 : ¬ (hUp t h v nobs > k) := not_lt.mpr (le_of_lt hlt)
    unfold hUp at h1 h2
    vb_simp [hs', h1, h2]
    congr 1; ring
  · have h1 : hUp t h v nobs ≥ k := le_of_lt hgt
    have h2 : hUp t h v nobs > k := hgt
    unfold hUp at h1 h2
    vb_simp [hs', h1, h2]
    congr 1; ring

/-! ### up put : UP_AND_IN_PUT (6) + UP_AND_OUT_PUT (5) -/

theorem up_put_dead (t k h s r q v : ℝ) (nobs : Int) (hs : s ≥ h) :
    InPlusOutIsVanilla (value_barrier t k h s r q v 6 nobs) (value_barrier t k h s r q v 5 nobs) (vanPut t k s r q v) := by
  vb_simp [hs]
  congr 1; ring

theorem up_put_live_ne (t k h s r q v : ℝ) (nobs : Int) (hs : s < h) (hne : hUp t h v nobs ≠ k) :
    InPlusOutIsVanilla (value_barrier t k h s r q v 6 nobs) (value_barrier t k h s r q v 5 nobs) (vanPut t k s r q v) := by
  have hs' : ¬ (s ≥ h) := not_le.mpr hs
  rcases lt_or_gt_of_ne hne with hlt | hgt
  · have h1 : ¬ (hUp t h v nobs ≥ k) := not_le.mpr hlt
    have h2 : ¬ (hUp t h v nobs > k) := not_lt.mpr (le_of_lt hlt)
    unfold hUp at h1 h2
    vb_simp [hs', h1, h2]
    congr 1; ring
  · have h1 : hUp t h v nobs ≥ k := le_of_lt hgt
    have h2 : hUp t h v nobs > k := hgt
    unfold hUp at h1 h2
    vb_simp [hs', h1, h2]
    congr 1; ring

/-! ### down put : DOWN_AND_IN_PUT (8) + DOWN_AND_OUT_PUT (7) — both test `h >= k`: no exceptional case -/

theorem down_put_dead (t k h s r q v : ℝ) (nobs : Int) (hs : s < h) :
    InPlusOutIsVanilla (value_barrier t k h s r q v 8 nobs) (value_barrier t k h s r q v 7 nobs) (vanPut t k s r q v) := by
  have hs' : ¬ (s ≥ h) := not_le.mpr hs
  vb_simp [hs']
  congr 1; ring

theorem down_put_live (t k h s r q v : ℝ) (nobs : Int) (hs : s ≥ h) :
    InPlusOutIsVanilla (value_barrier t k h s r q v 8 nobs) (value_barrier t k h s r q v 7 nobs) (vanPut t k s r q v) := by
  by_cases h1 : hDown t h v nobs ≥ k
  · unfold hDown at h1
    vb_simp [hs, h1]
    congr 1; ring
  · unfold hDown at h1
    vb_simp [hs, h1]
    congr 1; ring

/-! ### shifted barrier exactly at the strike, live side: the in- and the out-option use different branches -/

theorem v_ne_zero {v : ℝ} (hv : (1e-5 : ℝ) ≤ |v|) : v ≠ 0 := by
  intro h0; rw [h0, abs_zero] at hv; norm_num at hv

theorem down_call_live_eq (t k h s r q v : ℝ) (nobs : Int) (hs : s ≥ h) (heq : hDown t h v nobs = k)
    (hv : (1e-5 : ℝ) ≤ |v|) (ht : 0 < t) :
    InPlusOutIsVanilla (value_barrier t k h s r q v 2 nobs) (value_barrier t k h s r q v 1 nobs) (vanCall t k s r q v) := by
  have h1 : hDown t h v nobs ≥ k := ge_of_eq heq
  have h2 : hDown t h v nobs ≤ k := le_of_eq heq
  have hv1 : ¬ (|v| < (1e-5 : ℝ)) := not_lt.mpr hv
  have hv0 := v_ne_zero hv
  unfold hDown at h1 h2 heq
  vb_simp [hs, h1, h2, hv1]
  rw [heq, log_sq_div, x1_sub_eq_d2 (Real.log (s / k)) (r - q) v t hv0 ht, x1_eq_d1 (Real.log (s / k)) (r - q) v t hv0 ht]
  congr 1; ring

theorem up_call_live_eq (t k h s r q v : ℝ) (nobs : Int) (hs : s < h) (heq : hUp t h v nobs = k)
    (hv : (1e-5 : ℝ) ≤ |v|) (ht : 0 < t) :
    InPlusOutIsVanilla (value_barrier t k h s r q v 4 nobs) (value_barrier t k h s r q v 3 nobs) (vanCall t k s r q v) := by
  have hs' : ¬ (s ≥ h) := not_le.mpr hs
  have h1 : hUp t h v nobs ≥ k := ge_of_eq heq
  have h2 : ¬ (hUp t h v nobs > k) := not_lt.mpr (le_of_eq heq)
  have hv1 : ¬ (|v| < (1e-5 : ℝ)) := not_lt.mpr hv
  have hv0 := v_ne_zero hv
  unfold hUp at h1 h2 heq
  vb_simp [hs', h1, h2, hv1]
  rw [heq, log_sq_div, x1_sub_eq_d2 (Real.log (s / k)) (r - q) v t hv0 ht, x1_eq_d1 (Real.log (s / k)) (r - q) v t hv0 ht]
  congr 1; ring

theorem up_put_live_eq (t k h s r q v : ℝ) (nobs : Int) (hs : s < h) (heq : hUp t h v nobs = k)
    (hv : (1e-5 : ℝ) ≤ |v|) (ht : 0 < t) :
    InPlusOutIsVanilla (value_barrier t k h s r q v 6 nobs) (value_barrier t k h s r q v 5 nobs) (vanPut t k s r q v) := by
  have hs' : ¬ (s ≥ h) := not_le.mpr hs
  have h1 : hUp t h v nobs ≥ k := ge_of_eq heq
  have h2 : ¬ (hUp t h v nobs > k) := not_lt.mpr (le_of_eq heq)
  have hv1 : ¬ (|v| < (1e-5 : ℝ)) := not_lt.mpr hv
  have hv0 := v_ne_zero hv
  unfold hUp at h1 h2 heq
  vb_simp [hs', h1, h2, hv1]
  rw [heq, log_sq_div, x1_eq_d1 (Real.log (s / k)) (r - q) v t hv0 ht, neg_d1_add (Real.log (s / k)) (r - q) v t hv0 ht]
  congr 1; ring

/-- the hypotheses of the `*_live_eq` theorems are satisfiable (shifted barrier exactly at the strike, live side) -/
example : ∃ t k h s v : ℝ, ∃ nobs : Int, s ≥ h ∧ hDown t h v nobs = k ∧ (1e-5 : ℝ) ≤ |v| ∧ 0 < t :=
  ⟨1, hDown 1 90 (1 / 5) 12, 90, 100, 1 / 5, 12, by norm_num, rfl, by rw [abs_of_pos] <;> norm_num, by norm_num⟩

end FinVerif.Props.C11a
