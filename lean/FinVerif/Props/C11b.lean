/-
  C11b — `FXBarrierOption.value` (financepy/products/fx/fx_barrier_option.py), GENERATED real model of the numerical
  part of the method: knock-in + knock-out = vanilla (the Garman–Kohlhagen value the method computes inline) for the
  four pairs on every branch.  `*_dead` / `*_live_ne` / `down_put_live` are exact algebra of the coded branches (no
  hypothesis on `N`, `pow`, signs or monitoring frequency); `*_live_eq` (shifted barrier exactly at the strike) need
  `v ≠ 0`, `0 < t`.  Spot AT the barrier is on the dead side for all eight FX types (`<=` / `>=`), unlike
  `value_barrier` where a down barrier is tested with `s < h`.
-/
import FinVerif.Gen.ExoticR
import FinVerif.Spec.Exotics
import FinVerif.Lemmas.C11
import Mathlib.Tactic.Ring
import Mathlib.Tactic.Linarith
import Mathlib.Tactic.FieldSimp
import Mathlib.Tactic.NormNum

set_option linter.unusedSimpArgs false
set_option linter.unusedVariables false

namespace FinVerif.Props.C11b
open FinVerif FinVerif.Gen.ExoticR FinVerif.Spec.Exotics FinVerif.Lemmas.C11

/-- the vanilla call computed inline by `FXBarrierOption.value` from the two discount factors -/
noncomputable def fxCall (t s dq df k v : ℝ) : ℝ :=
  s * dq * N ((Real.log (s / k) + (-Real.log df / t - -Real.log dq / t + v * v / 2) * t) / (v * Real.sqrt t))
    - k * df * N ((Real.log (s / k) + (-Real.log df / t - -Real.log dq / t - v * v / 2) * t) / (v * Real.sqrt t))

noncomputable def fxPut (t s dq df k v : ℝ) : ℝ :=
  k * df * N (-((Real.log (s / k) + (-Real.log df / t - -Real.log dq / t - v * v / 2) * t) / (v * Real.sqrt t)))
    - s * dq * N (-((Real.log (s / k) + (-Real.log df / t - -Real.log dq / t + v * v / 2) * t) / (v * Real.sqrt t)))

/-- barrier after the Broadie–Glasserman–Kou shift as coded in the FX method (`sqrt(t / (t * nobs))`) -/
noncomputable def hDown (t h v : ℝ) (nobs : Int) : ℝ :=
  h * Real.exp (-(0.5826 : ℝ) * v * Real.sqrt (t / (t * (nobs : ℝ))))

noncomputable def hUp (t h v : ℝ) (nobs : Int) : ℝ :=
  h * Real.exp ((0.5826 : ℝ) * v * Real.sqrt (t / (t * (nobs : ℝ))))

open Lean.Parser.Tactic in
macro "fx_simp" "[" ts:simpLemma,* "]" : tactic =>
  `(tactic| simp only [fx_barrier_value, decide_eq_true_eq, decide_true, decide_false, if_true, if_false, ite_true, ite_false,
      Int.reduceEq, Bool.or_false, Bool.or_true, Bool.true_or, Bool.false_or, Bool.not_true, Bool.not_false,
      Bool.and_eq_true, Bool.false_and, Bool.true_and, Bool.and_false, Bool.and_true, and_true, true_and, false_and, and_false,
      Bool.false_eq_true, addE, fxCall, fxPut, InPlusOutIsVanilla, $ts,*])

/-! ### down call : DOWN_AND_IN_CALL (2) + DOWN_AND_OUT_CALL (1) -/

theorem down_call_dead (t s dq df k h v : ℝ) (nobs : Int) (hs : s ≤ h) :
    InPlusOutIsVanilla (fx_barrier_value t s dq df k h v 2 nobs) (fx_barrier_value t s dq df k h v 1 nobs) (fxCall t s dq df k v) := by
  fx_simp [hs]
  congr 1; ring

theorem down_call_live_ne (t s dq df k h v : ℝ) (nobs : Int) (hs : h < s) (hne : hDown t h v nobs ≠ k) :
    InPlusOutIsVanilla (fx_barrier_value t s dq df k h v 2 nobs) (fx_barrier_value t s dq df k h v 1 nobs) (fxCall t s dq df k v) := by
  have hs1 : ¬ (s ≤ h) := not_le.mpr hs
  have hs2 : s ≥ h := le_of_lt hs
  rcases lt_or_gt_of_ne hne with hlt | hgt
  · have h1 : ¬ (hDown t h v nobs ≥ k) := not_le.mpr hlt
    have h2 : hDown t h v nobs ≤ k := le_of_lt hlt
    unfold hDown at h1 h2
    fx_simp [hs1, hs2, h1, h2]
    congr 1; ring
  · have h1 : hDown t h v nobs ≥ k := le_of_lt hgt
    have h2 : ¬ (hDown t h v nobs ≤ k) := not_le.mpr hgt
    unfold hDown at h1 h2
    fx_simp [hs1, hs2, h1, h2]
    congr 1; ring

theorem down_call_live_eq (t s dq df k h v : ℝ) (nobs : Int) (hs : h < s) (heq : hDown t h v nobs = k) (hv : v ≠ 0) (ht : 0 < t) :
    InPlusOutIsVanilla (fx_barrier_value t s dq df k h v 2 nobs) (fx_barrier_value t s dq df k h v 1 nobs) (fxCall t s dq df k v) := by
  have hs1 : ¬ (s ≤ h) := not_le.mpr hs
  have hs2 : s ≥ h := le_of_lt hs
  have h1 : hDown t h v nobs ≥ k := ge_of_eq heq
  have h2 : hDown t h v nobs ≤ k := le_of_eq heq
  unfold hDown at h1 h2 heq
  fx_simp [hs1, hs2, h1, h2]
  rw [heq, log_sq_div, x1_sub_eq_d2 (Real.log (s / k)) (-Real.log df / t - -Real.log dq / t) v t hv ht,
    x1_eq_d1 (Real.log (s / k)) (-Real.log df / t - -Real.log dq / t) v t hv ht]
  congr 1; ring

/-! ### up call : types 4 (in) + 3 (out) -/

theorem up_call_dead (t s dq df k h v : ℝ) (nobs : Int) (hs : s ≥ h) :
    InPlusOutIsVanilla (fx_barrier_value t s dq df k h v 4 nobs) (fx_barrier_value t s dq df k h v 3 nobs) (fxCall t s dq df k v) := by
  fx_simp [hs]
  congr 1; ring

theorem up_call_live_ne (t s dq df k h v : ℝ) (nobs : Int) (hs : s < h) (hne : hUp t h v nobs ≠ k) :
    InPlusOutIsVanilla (fx_barrier_value t s dq df k h v 4 nobs) (fx_barrier_value t s dq df k h v 3 nobs) (fxCall t s dq df k v) := by
  have hs1 : ¬ (s ≥ h) := not_le.mpr hs
  have hs2 : s ≤ h := le_of_lt hs
  rcases lt_or_gt_of_ne hne with hlt | hgt
  · have h1 : ¬ (hUp t h v nobs ≥ k) := not_le.mpr hlt
    have h2 : ¬ (hUp t h v nobs > k) := not_lt.mpr (le_of_lt hlt)
    unfold hUp at h1 h2
    fx_simp [hs1, hs2, h1, h2]
    congr 1; ring
  · have h1 : hUp t h v nobs ≥ k := le_of_lt hgt
    have h2 : hUp t h v nobs > k := hgt
    unfold hUp at h1 h2
    fx_simp [hs1, hs2, h1, h2]
    congr 1; ring

theorem up_call_live_eq (t s dq df k h v : ℝ) (nobs : Int) (hs : s < h) (heq : hUp t h v nobs = k) (hv : v ≠ 0) (ht : 0 < t) :
    InPlusOutIsVanilla (fx_barrier_value t s dq df k h v 4 nobs) (fx_barrier_value t s dq df k h v 3 nobs) (fxCall t s dq df k v) := by
  have hs1 : ¬ (s ≥ h) := not_le.mpr hs
  have hs2 : s ≤ h := le_of_lt hs
  have h1 : hUp t h v nobs ≥ k := ge_of_eq heq
  have h2 : ¬ (hUp t h v nobs > k) := not_lt.mpr (le_of_eq heq)
  unfold hUp at h1 h2 heq
  fx_simp [hs1, hs2, h1, h2]
  rw [heq, log_sq_div, x1_sub_eq_d2 (Real.log (s / k)) (-Real.log df / t - -Real.log dq / t) v t hv ht,
    x1_eq_d1 (Real.log (s / k)) (-Real.log df / t - -Real.log dq / t) v t hv ht]
  congr 1; ring

/-! ### up put : types 6 (in) + 5 (out) -/

theorem up_put_dead (t s dq df k h v : ℝ) (nobs : Int) (hs : s ≥ h) :
    InPlusOutIsVanilla (fx_barrier_value t s dq df k h v 6 nobs) (fx_barrier_value t s dq df k h v 5 nobs) (fxPut t s dq df k v) := by
  fx_simp [hs]
  congr 1; ring

theorem up_put_live_ne (t s dq df k h v : ℝ) (nobs : Int) (hs : s < h) (hne : hUp t h v nobs ≠ k) :
    InPlusOutIsVanilla (fx_barrier_value t s dq df k h v 6 nobs) (fx_barrier_value t s dq df k h v 5 nobs) (fxPut t s dq df k v) := by
  have hs1 : ¬ (s ≥ h) := not_le.mpr hs
  have hs2 : s ≤ h := le_of_lt hs
  rcases lt_or_gt_of_ne hne with hlt | hgt
  · have h1 : ¬ (hUp t h v nobs ≥ k) := not_le.mpr hlt
    have h2 : ¬ (hUp t h v nobs > k) := not_lt.mpr (le_of_lt hlt)
    unfold hUp at h1 h2
    fx_simp [hs1, hs2, h1, h2]
    congr 1; ring
  · have h1 : hUp t h v nobs ≥ k := le_of_lt hgt
    have h2 : hUp t h v nobs > k := hgt
    unfold hUp at h1 h2
    fx_simp [hs1, hs2, h1, h2]
    congr 1; ring

theorem up_put_live_eq (t s dq df k h v : ℝ) (nobs : Int) (hs : s < h) (heq : hUp t h v nobs = k) (hv : v ≠ 0) (ht : 0 < t) :
    InPlusOutIsVanilla (fx_barrier_value t s dq df k h v 6 nobs) (fx_barrier_value t s dq df k h v 5 nobs) (fxPut t s dq df k v) := by
  have hs1 : ¬ (s ≥ h) := not_le.mpr hs
  have hs2 : s ≤ h := le_of_lt hs
  have h1 : hUp t h v nobs ≥ k := ge_of_eq heq
  have h2 : ¬ (hUp t h v nobs > k) := not_lt.mpr (le_of_eq heq)
  unfold hUp at h1 h2 heq
  fx_simp [hs1, hs2, h1, h2]
  rw [heq, log_sq_div, x1_eq_d1 (Real.log (s / k)) (-Real.log df / t - -Real.log dq / t) v t hv ht,
    neg_d1_add (Real.log (s / k)) (-Real.log df / t - -Real.log dq / t) v t hv ht]
  congr 1; ring

/-! ### down put : DOWN_AND_IN_PUT (8) + DOWN_AND_OUT_PUT (7) — both test `h >= k` -/

theorem down_put_dead (t s dq df k h v : ℝ) (nobs : Int) (hs : s ≤ h) :
    InPlusOutIsVanilla (fx_barrier_value t s dq df k h v 8 nobs) (fx_barrier_value t s dq df k h v 7 nobs) (fxPut t s dq df k v) := by
  fx_simp [hs]
  congr 1; ring

theorem down_put_live (t s dq df k h v : ℝ) (nobs : Int) (hs : h < s) :
    InPlusOutIsVanilla (fx_barrier_value t s dq df k h v 8 nobs) (fx_barrier_value t s dq df k h v 7 nobs) (fxPut t s dq df k v) := by
  have hs1 : ¬ (s ≤ h) := not_le.mpr hs
  have hs2 : s ≥ h := le_of_lt hs
  by_cases h1 : hDown t h v nobs ≥ k
  · unfold hDown at h1
    fx_simp [hs1, hs2, h1]
    congr 1; ring
  · unfold hDown at h1
    fx_simp [hs1, hs2, h1]
    congr 1; ring

end FinVerif.Props.C11b
