/-
  C11c — one-touch / no-touch, digital, compound and two-asset rainbow parities on the GENERATED real models of
  `EquityOneTouchOption.value`, `FXOneTouchOption.value`, `EquityDigitalOption.value`, `EquityCompoundOption.value`,
  `EquityRainbowOption.value`.

  touch + no-touch and digital call + put use ONLY the symmetry of the coded `N` away from 0
  (`C11a.N_symm : x ≠ 0 → N x + N (-x) = 1`); the hypothesis `… ≠ 0` is the argument of `N` in the coded formula.
  At exactly 0 the coded `N` gives `2 N(0) = 1 + O(1e-9)`, so there the identities hold only to 1e-9 (not a theorem).
  Compound and rainbow parities are stated for the generated formulas under the bivariate symmetries of `phi2`
  as explicit hypotheses (they are properties of the exact bivariate normal CDF; for the coded Drezner approximation
  they are validated numerically by the harness, not proved).
-/
import FinVerif.Props.C11a
import Mathlib.Tactic.LinearCombination

set_option linter.unusedSimpArgs false
set_option linter.unusedVariables false

namespace FinVerif.Props.C11c
open FinVerif FinVerif.Gen.ExoticR FinVerif.Spec.Exotics FinVerif.Props.C11a

/-- `x2` of the one-touch formulas (Haug), with the clamps `max(t,1e-6)`, `max(v,1e-6)` of the code -/
noncomputable def otX2 (t s r q H v : ℝ) : ℝ :=
  Real.log (s / H) / max v 1e-6 / √(max t 1e-6)
    + ((r - q - max v 1e-6 * max v 1e-6 / 2) / max v 1e-6 / max v 1e-6 + 1) * max v 1e-6 * √(max t 1e-6)

/-- `x2 - σ√t`: the argument of `N` in the cash-at-expiry terms -/
noncomputable def otD (t s r q H v : ℝ) : ℝ := otX2 t s r q H v - max v 1e-6 * √(max t 1e-6)

open Lean.Parser.Tactic in
macro "ot_simp" "[" ts:simpLemma,* "]" : tactic =>
  `(tactic| simp only [eq_one_touch_value, fx_one_touch_value, n_vect, TouchPlusNoTouch, addE, decide_eq_true_eq, Int.reduceEq,
      if_true, if_false, ite_true, ite_false, neg_mul, one_mul, sub_neg_eq_add, neg_add_eq_sub, $ts,*])

/-- eq: types 3 (touch, paid at expiry) + 5 (no-touch), down barrier, cash -/
theorem eq_touch_plus_no_touch_cash_down (t s df r q H K v : ℝ) (hs : H < s) (hne : otD t s r q H v ≠ 0) :
    TouchPlusNoTouch (eq_one_touch_value t s df r q H K v 3) (eq_one_touch_value t s df r q H K v 5) (K * df) := by
  have hs' : ¬ (s ≤ H) := not_le.mpr hs
  have key := N_symm (otD t s r q H v) hne
  simp only [otD, otX2, neg_sub] at key
  ot_simp [hs']
  congr 1
  linear_combination (K * df) * key

/-- eq: types 4 (touch, paid at expiry) + 6 (no-touch), up barrier, cash -/
theorem eq_touch_plus_no_touch_cash_up (t s df r q H K v : ℝ) (hs : s < H) (hne : otD t s r q H v ≠ 0) :
    TouchPlusNoTouch (eq_one_touch_value t s df r q H K v 4) (eq_one_touch_value t s df r q H K v 6) (K * df) := by
  have hs' : ¬ (s ≥ H) := not_le.mpr hs
  have key := N_symm (otD t s r q H v) hne
  simp only [otD, otX2, neg_sub] at key
  ot_simp [hs']
  congr 1
  linear_combination (K * df) * key

/-- eq: types 9 (touch, paid at expiry) + 11 (no-touch), down barrier, asset -/
theorem eq_touch_plus_no_touch_asset_down (t s df r q H K v : ℝ) (hs : H < s) (hne : otX2 t s r q H v ≠ 0) :
    TouchPlusNoTouch (eq_one_touch_value t s df r q H K v 9) (eq_one_touch_value t s df r q H K v 11) (s * Real.exp (-(q * max t 1e-6))) := by
  have hs' : ¬ (s ≤ H) := not_le.mpr hs
  have key := N_symm (otX2 t s r q H v) hne
  simp only [otX2] at key
  ot_simp [hs']
  congr 1
  linear_combination (s * Real.exp (-(q * max t 1e-6))) * key

/-- eq: types 10 (touch, paid at expiry) + 12 (no-touch), up barrier, asset -/
theorem eq_touch_plus_no_touch_asset_up (t s df r q H K v : ℝ) (hs : s < H) (hne : otX2 t s r q H v ≠ 0) :
    TouchPlusNoTouch (eq_one_touch_value t s df r q H K v 10) (eq_one_touch_value t s df r q H K v 12) (s * Real.exp (-(q * max t 1e-6))) := by
  have hs' : ¬ (s ≥ H) := not_le.mpr hs
  have key := N_symm (otX2 t s r q H v) hne
  simp only [otX2] at key
  ot_simp [hs']
  congr 1
  linear_combination (s * Real.exp (-(q * max t 1e-6))) * key

/-- fx: types 3 (touch, paid at expiry) + 5 (no-touch), down barrier, cash -/
theorem fx_touch_plus_no_touch_cash_down (t s df r q H K v : ℝ) (hs : H < s) (hne : otD t s r q H v ≠ 0) :
    TouchPlusNoTouch (fx_one_touch_value t s df r q H K v 3) (fx_one_touch_value t s df r q H K v 5) (K * df) := by
  have hs' : ¬ (s ≤ H) := not_le.mpr hs
  have key := N_symm (otD t s r q H v) hne
  simp only [otD, otX2, neg_sub] at key
  ot_simp [hs']
  congr 1
  linear_combination (K * df) * key

/-- fx: types 4 (touch, paid at expiry) + 6 (no-touch), up barrier, cash -/
theorem fx_touch_plus_no_touch_cash_up (t s df r q H K v : ℝ) (hs : s < H) (hne : otD t s r q H v ≠ 0) :
    TouchPlusNoTouch (fx_one_touch_value t s df r q H K v 4) (fx_one_touch_value t s df r q H K v 6) (K * df) := by
  have hs' : ¬ (s ≥ H) := not_le.mpr hs
  have key := N_symm (otD t s r q H v) hne
  simp only [otD, otX2, neg_sub] at key
  ot_simp [hs']
  congr 1
  linear_combination (K * df) * key

/-- fx: types 9 (touch, paid at expiry) + 11 (no-touch), down barrier, asset -/
theorem fx_touch_plus_no_touch_asset_down (t s df r q H K v : ℝ) (hs : H < s) (hne : otX2 t s r q H v ≠ 0) :
    TouchPlusNoTouch (fx_one_touch_value t s df r q H K v 9) (fx_one_touch_value t s df r q H K v 11) (s * Real.exp (-(q * max t 1e-6))) := by
  have hs' : ¬ (s ≤ H) := not_le.mpr hs
  have key := N_symm (otX2 t s r q H v) hne
  simp only [otX2] at key
  ot_simp [hs']
  congr 1
  linear_combination (s * Real.exp (-(q * max t 1e-6))) * key

/-- fx: types 10 (touch, paid at expiry) + 12 (no-touch), up barrier, asset -/
theorem fx_touch_plus_no_touch_asset_up (t s df r q H K v : ℝ) (hs : s < H) (hne : otX2 t s r q H v ≠ 0) :
    TouchPlusNoTouch (fx_one_touch_value t s df r q H K v 10) (fx_one_touch_value t s df r q H K v 12) (s * Real.exp (-(q * max t 1e-6))) := by
  have hs' : ¬ (s ≥ H) := not_le.mpr hs
  have key := N_symm (otX2 t s r q H v) hne
  simp only [otX2] at key
  ot_simp [hs']
  congr 1
  linear_combination (s * Real.exp (-(q * max t 1e-6))) * key

/-! ### digital call + digital put (EquityDigitalOption) -/

/-- `d1` of the digital formula, with the clamps of the code -/
noncomputable def digD1 (t s df dq X v : ℝ) : ℝ :=
  (Real.log (s / X) + (-Real.log df / max t 1e-6 - -Real.log dq / max t 1e-6
      + (if |v| < 1e-12 then 1e-12 else v) * (if |v| < 1e-12 then 1e-12 else v) / 2) * max t 1e-6)
    / (if |v| < 1e-12 then 1e-12 else v) / √(max t 1e-6)

noncomputable def digD2 (t s df dq X v : ℝ) : ℝ :=
  digD1 t s df dq X v - (if |v| < 1e-12 then 1e-12 else v) * √(max t 1e-6)

/-- cash-or-nothing call + put = `exp(-r t)` with the rate the code implies from `df` -/
theorem digital_cash_call_plus_put (t s df dq X v : ℝ) (hne : digD2 t s df dq X v ≠ 0) :
    addE (eq_digital_value t s df dq X v 1 1) (eq_digital_value t s df dq X v 2 1)
      = .ok (Real.exp (-(-Real.log df / max t 1e-6) * max t 1e-6)) := by
  have key := N_symm (digD2 t s df dq X v) hne
  simp only [digD2, digD1] at key
  simp only [eq_digital_value, n_vect, addE, decide_eq_true_eq, Int.reduceEq, if_true, if_false, ite_true, ite_false]
  congr 1
  linear_combination (Real.exp (-(-Real.log df / max t 1e-6) * max t 1e-6)) * key

/-- … which is `df` itself for a positive discount factor (the clamp makes `max t 1e-6 > 0`) -/
theorem implied_rate_roundtrip (t df : ℝ) (hdf : 0 < df) :
    Real.exp (-(-Real.log df / max t 1e-6) * max t 1e-6) = df := by
  have ht : max t (1e-6 : ℝ) ≠ 0 := by
    have : (0 : ℝ) < max t 1e-6 := lt_of_lt_of_le (by norm_num) (le_max_right t (1e-6 : ℝ))
    exact this.ne'
  have e : -(-Real.log df / max t 1e-6) * max t 1e-6 = Real.log df := by field_simp
  rw [e, Real.exp_log hdf]

/-- asset-or-nothing call + put = `s · exp(-q t)` -/
theorem digital_asset_call_plus_put (t s df dq X v : ℝ) (hne : digD1 t s df dq X v ≠ 0) :
    addE (eq_digital_value t s df dq X v 1 2) (eq_digital_value t s df dq X v 2 2)
      = .ok (s * Real.exp (-(-Real.log dq / max t 1e-6) * max t 1e-6)) := by
  have key := N_symm (digD1 t s df dq X v) hne
  simp only [digD1] at key
  simp only [eq_digital_value, n_vect, addE, decide_eq_true_eq, Int.reduceEq, if_true, if_false, ite_true, ite_false]
  congr 1
  linear_combination (s * Real.exp (-(-Real.log dq / max t 1e-6) * max t 1e-6)) * key

/-! ### compound options: call-on-X minus put-on-X = X − strike·df  (given the bivariate symmetry) -/

theorem compound_alg (P : ℝ → ℝ → ℝ → ℝ) (Nf : ℝ → ℝ) (hP : ∀ a b c, P a b c + P (-a) b (-c) = Nf b)
    (A B D a1 a2 b1 b2 c : ℝ) (hN : Nf a2 + Nf (-a2) = 1) :
    (A * P a1 b1 c - B * P a2 b2 c - D * Nf a2) - (B * P (-a2) b2 (-c) - A * P (-a1) b1 (-c) + D * Nf (-a2))
      = A * Nf b1 - B * Nf b2 - D := by
  linear_combination A * hP a1 b1 c - B * hP a2 b2 c - D * hN

noncomputable def cmpQ (tc tu dq : ℝ) : ℝ := -Real.log dq / max (max tc 1e-12) tu
noncomputable def cmpA2 (tc tu s df dq sstar v : ℝ) : ℝ :=
  (Real.log (s / sstar) + (-Real.log df / tu - cmpQ tc tu dq + max v 1e-12 ^ 2 / 2) * max tc 1e-12) / max v 1e-12
    / √(max tc 1e-12) - max v 1e-12 * √(max tc 1e-12)
noncomputable def cmpB1 (tc tu s df dq ku v : ℝ) : ℝ :=
  (Real.log (s / ku) + (-Real.log df / tu - cmpQ tc tu dq + max v 1e-12 ^ 2 / 2) * max (max tc 1e-12) tu) / max v 1e-12
    / √(max (max tc 1e-12) tu)

/-- call-on-call − put-on-call = (underlying call, as the code's formula writes it) − kc·df(tc) -/
theorem compound_parity_on_call (tc tu s df dq sstar kc ku v : ℝ)
    (hphi : ∀ a b c, phi2 a b c + phi2 (-a) b (-c) = N b) (ha2 : cmpA2 tc tu s df dq sstar v ≠ 0) :
    subE (eq_compound_value tc tu s df dq sstar kc ku v 1 1) (eq_compound_value tc tu s df dq sstar kc ku v 2 1)
      = .ok (s * Real.exp (-cmpQ tc tu dq * max (max tc 1e-12) tu) * N (cmpB1 tc tu s df dq ku v)
             - ku * Real.exp (-(-Real.log df / tu) * max (max tc 1e-12) tu)
                 * N (cmpB1 tc tu s df dq ku v - max v 1e-12 * √(max (max tc 1e-12) tu))
             - Real.exp (-(-Real.log df / tu) * max tc 1e-12) * kc) := by
  simp only [eq_compound_value, subE, decide_eq_true_eq, Int.reduceEq, if_true, if_false, ite_true, ite_false,
    Bool.and_eq_true, and_true, true_and, false_and, and_false, and_self]
  congr 1
  exact compound_alg phi2 N hphi _ _ _ _ _ _ _ _ (N_symm _ ha2)

/-! ### two-asset rainbow -/

noncomputable def rbV (rho v1 v2 : ℝ) : ℝ := √(v1 * v1 + v2 * v2 - 2 * rho * v1 * v2)
noncomputable def rbD (t q1 q2 rho s1 s2 v1 v2 r : ℝ) : ℝ :=
  (Real.log (s1 / s2) + (r - q1 - (r - q2) + rbV rho v1 v2 * rbV rho v1 v2 / 2) * t) / rbV rho v1 v2 / √t
/-- the code's value of receiving max(S1,S2) at expiry -/
noncomputable def rbFwdMax (t q1 q2 rho s1 s2 v1 v2 r : ℝ) : ℝ :=
  s2 * Real.exp (-q2 * t) + s1 * Real.exp (-q1 * t) * N (rbD t q1 q2 rho s1 s2 v1 v2 r)
    - s2 * Real.exp (-q2 * t) * N (rbD t q1 q2 rho s1 s2 v1 v2 r - rbV rho v1 v2 * √t)
noncomputable def rbFwdMin (t q1 q2 rho s1 s2 v1 v2 r : ℝ) : ℝ :=
  s1 * Real.exp (-q1 * t) - s1 * Real.exp (-q1 * t) * N (rbD t q1 q2 rho s1 s2 v1 v2 r)
    + s2 * Real.exp (-q2 * t) * N (rbD t q1 q2 rho s1 s2 v1 v2 r - rbV rho v1 v2 * √t)

/-- put on the maximum − call on the maximum = k·df − value of max(S1,S2): exact algebra of the coded branches -/
theorem rainbow_put_call_on_max (t r q1 q2 rho s1 s2 v1 v2 k : ℝ) :
    subE (eq_rainbow_value t r q1 q2 rho s1 s2 v1 v2 k 2) (eq_rainbow_value t r q1 q2 rho s1 s2 v1 v2 k 1)
      = .ok (k * Real.exp (-r * t) - rbFwdMax t q1 q2 rho s1 s2 v1 v2 r) := by
  simp only [eq_rainbow_value, subE, rbFwdMax, rbD, rbV, decide_eq_true_eq, Int.reduceEq, if_true, if_false, ite_true, ite_false,
    Int.cast_ofNat]
  congr 1
  ring

/-- put on the minimum − call on the minimum = k·df − value of min(S1,S2) -/
theorem rainbow_put_call_on_min (t r q1 q2 rho s1 s2 v1 v2 k : ℝ) :
    subE (eq_rainbow_value t r q1 q2 rho s1 s2 v1 v2 k 4) (eq_rainbow_value t r q1 q2 rho s1 s2 v1 v2 k 3)
      = .ok (k * Real.exp (-r * t) - rbFwdMin t q1 q2 rho s1 s2 v1 v2 r) := by
  simp only [eq_rainbow_value, subE, rbFwdMin, rbD, rbV, decide_eq_true_eq, Int.reduceEq, if_true, if_false, ite_true, ite_false,
    Int.cast_ofNat]
  congr 1
  ring

theorem rainbow_alg (Mf : ℝ → ℝ → ℝ → ℝ) (Nf : ℝ → ℝ)
    (h1 : ∀ a b c, Mf a b c + Mf a (-b) (-c) = Nf a) (h2 : ∀ a b c, Mf a b c - Mf (-a) (-b) c = Nf a + Nf b - 1)
    (A B C y1 y2 d r1 r2 r dp dm u1 u2 w1 w2 : ℝ) (e1 : dm = -dp) (e2 : w1 = -u1) (e3 : w2 = -u2) :
    (A * Mf y1 d r1 + B * Mf y2 dp r2 - C * (1 - Mf w1 w2 r)) + (A * Mf y1 (-d) (-r1) + B * Mf y2 dm (-r2) - C * Mf u1 u2 r)
      = A * Nf y1 + B * Nf y2 - C * (Nf u1 + Nf u2) := by
  subst e1 e2 e3
  linear_combination A * h1 y1 d r1 + B * h1 y2 dp r2 - C * h2 u1 u2 r

noncomputable def rbY (t b s v k : ℝ) : ℝ := (Real.log (s / k) + (b + v * v / 2) * t) / v / √t

/-- call on the maximum + call on the minimum = sum of the two single-asset calls (as the code's formulas write them),
given the two symmetries of the exact bivariate normal CDF. -/
theorem rainbow_best_plus_worst (t r q1 q2 rho s1 s2 v1 v2 k : ℝ)
    (h1 : ∀ a b c, M a b c + M a (-b) (-c) = N a) (h2 : ∀ a b c, M a b c - M (-a) (-b) c = N a + N b - 1) :
    addE (eq_rainbow_value t r q1 q2 rho s1 s2 v1 v2 k 1) (eq_rainbow_value t r q1 q2 rho s1 s2 v1 v2 k 3)
      = .ok (s1 * Real.exp (-q1 * t) * N (rbY t (r - q1) s1 v1 k) + s2 * Real.exp (-q2 * t) * N (rbY t (r - q2) s2 v2 k)
             - k * Real.exp (-r * t) * (N (rbY t (r - q1) s1 v1 k - v1 * √t) + N (rbY t (r - q2) s2 v2 k - v2 * √t))) := by
  simp only [eq_rainbow_value, addE, rbY, decide_eq_true_eq, Int.reduceEq, if_true, if_false, ite_true, ite_false, Int.cast_ofNat]
  congr 1
  exact rainbow_alg M N h1 h2 _ _ _ _ _ _ _ _ _ _ _ _ _ _ _ (by ring) (by ring) (by ring)

end FinVerif.Props.C11c
