/-
  C11d — the discrete-monitoring (Broadie–Glasserman–Kou) barrier shift of `value_barrier` and of
  `FXBarrierOption.value`, as theorems about the GENERATED text:

  * direction: down barriers are shifted DOWN (`hDown ≤ h`), up barriers UP (`h ≤ hUp`) for `0 ≤ h`, `0 ≤ v`
    (strictly when the per-observation interval is positive);
  * per type: on the live side the value of each of the eight types depends on the barrier level and on the
    monitoring frequency ONLY through the shifted barrier of the right direction — `hDown` for the four DOWN types,
    `hUp` for the four UP types (`*_factors_through_*`).  A flipped sign of `0.5826` in any single enum branch of
    either copy of the formulas makes the corresponding theorem fail to build;
  * the shift vanishes in the continuous-monitoring limit: `hDown, hUp → h` as the number of observations per
    year → ∞ (`*_tendsto`), which is why the continuity oracle of the harness uses 10¹² observations per year;
  * the branches in which the (shifted) barrier lies on the far side of the strike: up-and-out call with barrier at or
    below the strike and down-and-out put with barrier at or above the strike are worth 0; the matching knock-ins are
    worth the vanilla (the dominating vanilla bound is attained).
-/
import FinVerif.Props.C11a
import FinVerif.Props.C11b
import Mathlib.Analysis.SpecialFunctions.Exp
import Mathlib.Analysis.SpecialFunctions.Sqrt
import Mathlib.Topology.Algebra.Order.Field
import Mathlib.Analysis.SpecificLimits.Basic

set_option linter.unusedSimpArgs false
set_option linter.unusedVariables false

namespace FinVerif.Props.C11d
open FinVerif FinVerif.Gen.ExoticR FinVerif.Spec.Exotics

/-! ### direction of the shift -/

/-- equity: a down barrier is never shifted upwards -/
theorem eq_hDown_le (t h v : ℝ) (nobs : Int) (hh : 0 ≤ h) (hv : 0 ≤ v) : C11a.hDown t h v nobs ≤ h := by
  unfold C11a.hDown
  have e : Real.exp (-(0.5826 : ℝ) * v * Real.sqrt (t / (((1 : Int) : ℝ) + t * (nobs : ℝ)))) ≤ 1 := by
    rw [Real.exp_le_one_iff]
    have := Real.sqrt_nonneg (t / (((1 : Int) : ℝ) + t * (nobs : ℝ)))
    nlinarith [mul_nonneg hv this]
  calc h * _ ≤ h * 1 := mul_le_mul_of_nonneg_left e hh
    _ = h := mul_one h

/-- equity: an up barrier is never shifted downwards -/
theorem eq_hUp_ge (t h v : ℝ) (nobs : Int) (hh : 0 ≤ h) (hv : 0 ≤ v) : h ≤ C11a.hUp t h v nobs := by
  unfold C11a.hUp
  have e : 1 ≤ Real.exp ((0.5826 : ℝ) * v * Real.sqrt (t / (((1 : Int) : ℝ) + t * (nobs : ℝ)))) := by
    rw [Real.one_le_exp_iff]
    have := Real.sqrt_nonneg (t / (((1 : Int) : ℝ) + t * (nobs : ℝ)))
    nlinarith [mul_nonneg hv this]
  calc h = h * 1 := (mul_one h).symm
    _ ≤ h * _ := mul_le_mul_of_nonneg_left e hh

/-- equity: strictly, for a positive barrier, positive vol and a positive per-observation interval -/
theorem eq_hDown_lt_hUp (t h v : ℝ) (nobs : Int) (hh : 0 < h) (hv : 0 < v) (hdt : 0 < t / (((1 : Int) : ℝ) + t * (nobs : ℝ))) :
    C11a.hDown t h v nobs < h ∧ h < C11a.hUp t h v nobs := by
  unfold C11a.hDown C11a.hUp
  have hs := Real.sqrt_pos.mpr hdt
  have hp : 0 < v * Real.sqrt (t / (((1 : Int) : ℝ) + t * (nobs : ℝ))) := mul_pos hv hs
  constructor
  · have e : Real.exp (-(0.5826 : ℝ) * v * Real.sqrt (t / (((1 : Int) : ℝ) + t * (nobs : ℝ)))) < 1 := by
      rw [Real.exp_lt_one_iff]; nlinarith
    calc h * _ < h * 1 := mul_lt_mul_of_pos_left e hh
      _ = h := mul_one h
  · have e : 1 < Real.exp ((0.5826 : ℝ) * v * Real.sqrt (t / (((1 : Int) : ℝ) + t * (nobs : ℝ)))) := by
      rw [Real.one_lt_exp_iff]; nlinarith
    calc h = h * 1 := (mul_one h).symm
      _ < h * _ := mul_lt_mul_of_pos_left e hh

/-- FX: a down barrier is never shifted upwards -/
theorem fx_hDown_le (t h v : ℝ) (nobs : Int) (hh : 0 ≤ h) (hv : 0 ≤ v) : C11b.hDown t h v nobs ≤ h := by
  unfold C11b.hDown
  have e : Real.exp (-(0.5826 : ℝ) * v * Real.sqrt (t / (t * (nobs : ℝ)))) ≤ 1 := by
    rw [Real.exp_le_one_iff]
    have := Real.sqrt_nonneg (t / (t * (nobs : ℝ)))
    nlinarith [mul_nonneg hv this]
  calc h * _ ≤ h * 1 := mul_le_mul_of_nonneg_left e hh
    _ = h := mul_one h

/-- FX: an up barrier is never shifted downwards -/
theorem fx_hUp_ge (t h v : ℝ) (nobs : Int) (hh : 0 ≤ h) (hv : 0 ≤ v) : h ≤ C11b.hUp t h v nobs := by
  unfold C11b.hUp
  have e : 1 ≤ Real.exp ((0.5826 : ℝ) * v * Real.sqrt (t / (t * (nobs : ℝ)))) := by
    rw [Real.one_le_exp_iff]
    have := Real.sqrt_nonneg (t / (t * (nobs : ℝ)))
    nlinarith [mul_nonneg hv this]
  calc h = h * 1 := (mul_one h).symm
    _ ≤ h * _ := mul_le_mul_of_nonneg_left e hh

example : C11a.hDown 1 100 0.2 12 ≤ 100 ∧ (100 : ℝ) ≤ C11a.hUp 1 100 0.2 12 :=
  ⟨eq_hDown_le _ _ _ _ (by norm_num) (by norm_num), eq_hUp_ge _ _ _ _ (by norm_num) (by norm_num)⟩

/-! ### per type: the value depends on (barrier, frequency) only through the shifted barrier of the right direction -/

open Lean.Parser.Tactic in
macro "vbd_simp" "[" ts:simpLemma,* "]" : tactic =>
  `(tactic| simp only [value_barrier, fx_barrier_value, decide_eq_true_eq, decide_true, decide_false, if_true, if_false, ite_true,
      ite_false, Int.reduceEq, Bool.or_false, Bool.or_true, Bool.true_or, Bool.false_or, Bool.not_true, Bool.not_false,
      Bool.and_eq_true, Bool.false_and, Bool.true_and, Bool.and_false, Bool.and_true, and_true, true_and, false_and, and_false,
      Bool.false_eq_true, $ts,*])

/-- `value_barrier`, the four DOWN types (1 out-call, 2 in-call, 7 out-put, 8 in-put), spot on the live side:
two (barrier, frequency) pairs with the same DOWN-shifted barrier give the same value. -/
theorem vb_down_factors_through_hDown (t k h h' s r q v : ℝ) (nobs nobs' : Int) (ty : Int)
    (hty : ty = 1 ∨ ty = 2 ∨ ty = 7 ∨ ty = 8) (hs : s ≥ h) (hs' : s ≥ h')
    (heq : C11a.hDown t h v nobs = C11a.hDown t h' v nobs') :
    value_barrier t k h s r q v ty nobs = value_barrier t k h' s r q v ty nobs' := by
  unfold C11a.hDown at heq
  rcases hty with rfl | rfl | rfl | rfl <;> (vbd_simp [hs, hs']; rw [heq])

/-- `value_barrier`, the four UP types (3 out-call, 4 in-call, 5 out-put, 6 in-put), spot on the live side:
the value depends on (barrier, frequency) only through the UP-shifted barrier. -/
theorem vb_up_factors_through_hUp (t k h h' s r q v : ℝ) (nobs nobs' : Int) (ty : Int)
    (hty : ty = 3 ∨ ty = 4 ∨ ty = 5 ∨ ty = 6) (hs : s < h) (hs' : s < h')
    (heq : C11a.hUp t h v nobs = C11a.hUp t h' v nobs') :
    value_barrier t k h s r q v ty nobs = value_barrier t k h' s r q v ty nobs' := by
  unfold C11a.hUp at heq
  have h1 : ¬ (s ≥ h) := not_le.mpr hs
  have h2 : ¬ (s ≥ h') := not_le.mpr hs'
  rcases hty with rfl | rfl | rfl | rfl <;> (vbd_simp [h1, h2]; rw [heq])

/-- `FXBarrierOption.value`, the four DOWN types, spot on the live side -/
theorem fxb_down_factors_through_hDown (t s dq df k h h' v : ℝ) (nobs nobs' : Int) (ty : Int)
    (hty : ty = 1 ∨ ty = 2 ∨ ty = 7 ∨ ty = 8) (hs : h < s) (hs' : h' < s)
    (heq : C11b.hDown t h v nobs = C11b.hDown t h' v nobs') :
    fx_barrier_value t s dq df k h v ty nobs = fx_barrier_value t s dq df k h' v ty nobs' := by
  unfold C11b.hDown at heq
  have h1 : ¬ (s ≤ h) := not_le.mpr hs
  have h2 : ¬ (s ≤ h') := not_le.mpr hs'
  rcases hty with rfl | rfl | rfl | rfl <;> (vbd_simp [h1, h2]; rw [heq])

/-- `FXBarrierOption.value`, the four UP types, spot on the live side -/
theorem fxb_up_factors_through_hUp (t s dq df k h h' v : ℝ) (nobs nobs' : Int) (ty : Int)
    (hty : ty = 3 ∨ ty = 4 ∨ ty = 5 ∨ ty = 6) (hs : s < h) (hs' : s < h')
    (heq : C11b.hUp t h v nobs = C11b.hUp t h' v nobs') :
    fx_barrier_value t s dq df k h v ty nobs = fx_barrier_value t s dq df k h' v ty nobs' := by
  unfold C11b.hUp at heq
  have h1 : ¬ (s ≥ h) := not_le.mpr hs
  have h2 : ¬ (s ≥ h') := not_le.mpr hs'
  rcases hty with rfl | rfl | rfl | rfl <;> (vbd_simp [h1, h2]; rw [heq])

/-! ### the shift vanishes in the continuous-monitoring limit -/

open Filter in
/-- `h · exp(c · v · √(t / den n)) → h` whenever the denominator tends to +∞ -/
theorem shift_tendsto (c v t h : ℝ) (den : ℕ → ℝ) (hd : Tendsto den atTop atTop) :
    Tendsto (fun n : ℕ => h * Real.exp (c * v * Real.sqrt (t / den n))) atTop (nhds h) := by
  have h2 : Tendsto (fun n : ℕ => t / den n) atTop (nhds 0) := Tendsto.div_atTop tendsto_const_nhds hd
  have h3 : Tendsto (fun n : ℕ => Real.sqrt (t / den n)) atTop (nhds 0) := by
    have := (Real.continuous_sqrt.tendsto 0).comp h2
    rw [Real.sqrt_zero] at this
    exact this
  have h4 : Tendsto (fun n : ℕ => c * v * Real.sqrt (t / den n)) atTop (nhds 0) := by
    have := h3.const_mul (c * v)
    rw [mul_zero] at this
    exact this
  have h5 : Tendsto (fun n : ℕ => Real.exp (c * v * Real.sqrt (t / den n))) atTop (nhds 1) := by
    have := (Real.continuous_exp.tendsto 0).comp h4
    rw [Real.exp_zero] at this
    exact this
  have h6 := h5.const_mul h
  rw [mul_one] at h6
  exact h6

open Filter in
/-- equity: both shifted barriers tend to the contractual barrier as observations per year → ∞ -/
theorem eq_shift_tendsto (t h v : ℝ) (ht : 0 < t) :
    Tendsto (fun n : ℕ => C11a.hDown t h v (n : Int)) atTop (nhds h)
      ∧ Tendsto (fun n : ℕ => C11a.hUp t h v (n : Int)) atTop (nhds h) := by
  unfold C11a.hDown C11a.hUp
  have hd : Tendsto (fun n : ℕ => ((1 : Int) : ℝ) + t * (((n : Int)) : ℝ)) atTop atTop := by
    apply tendsto_atTop_add_const_left
    apply Tendsto.const_mul_atTop ht
    simpa using tendsto_natCast_atTop_atTop (R := ℝ)
  exact ⟨shift_tendsto (-(0.5826 : ℝ)) v t h _ hd, shift_tendsto (0.5826 : ℝ) v t h _ hd⟩

open Filter in
/-- FX: the same for the FX copy of the shift (`sqrt(t / (t · nobs))`) -/
theorem fx_shift_tendsto (t h v : ℝ) (ht : 0 < t) :
    Tendsto (fun n : ℕ => C11b.hDown t h v (n : Int)) atTop (nhds h)
      ∧ Tendsto (fun n : ℕ => C11b.hUp t h v (n : Int)) atTop (nhds h) := by
  unfold C11b.hDown C11b.hUp
  have hd : Tendsto (fun n : ℕ => t * (((n : Int)) : ℝ)) atTop atTop := by
    apply Tendsto.const_mul_atTop ht
    simpa using tendsto_natCast_atTop_atTop (R := ℝ)
  exact ⟨shift_tendsto (-(0.5826 : ℝ)) v t h _ hd, shift_tendsto (0.5826 : ℝ) v t h _ hd⟩

/-! ### (shifted) barrier on the far side of the strike: knock-out worth 0, knock-in worth the vanilla -/

/-- up-and-out call with the shifted barrier at or below the strike is worthless (every in-the-money path has crossed) -/
theorem vb_up_out_call_barrier_le_strike (t k h s r q v : ℝ) (nobs : Int) (hs : s < h) (hk : C11a.hUp t h v nobs ≤ k) :
    value_barrier t k h s r q v 3 nobs = .ok 0 := by
  have h1 : ¬ (s ≥ h) := not_le.mpr hs
  have h2 : ¬ (C11a.hUp t h v nobs > k) := not_lt.mpr hk
  unfold C11a.hUp at h2
  vbd_simp [h1, h2]

/-- … and the up-and-in call is then the vanilla call (strictly below: the code tests `h >= k`) -/
theorem vb_up_in_call_barrier_lt_strike (t k h s r q v : ℝ) (nobs : Int) (hs : s < h) (hk : C11a.hUp t h v nobs < k) :
    value_barrier t k h s r q v 4 nobs = .ok (C11a.vanCall t k s r q v) := by
  have h1 : ¬ (s ≥ h) := not_le.mpr hs
  have h2 : ¬ (C11a.hUp t h v nobs ≥ k) := not_le.mpr hk
  unfold C11a.hUp at h2
  vbd_simp [h1, h2, C11a.vanCall]

/-- down-and-out put with the shifted barrier at or above the strike is worthless -/
theorem vb_down_out_put_barrier_ge_strike (t k h s r q v : ℝ) (nobs : Int) (hs : s ≥ h) (hk : C11a.hDown t h v nobs ≥ k) :
    value_barrier t k h s r q v 7 nobs = .ok 0 := by
  unfold C11a.hDown at hk
  vbd_simp [hs, hk]

/-- … and the down-and-in put is then the vanilla put -/
theorem vb_down_in_put_barrier_ge_strike (t k h s r q v : ℝ) (nobs : Int) (hs : s ≥ h) (hk : C11a.hDown t h v nobs ≥ k) :
    value_barrier t k h s r q v 8 nobs = .ok (C11a.vanPut t k s r q v) := by
  unfold C11a.hDown at hk
  vbd_simp [hs, hk, C11a.vanPut]

/-- FX copies of the four statements -/
theorem fxb_far_side_of_strike (t s dq df k h v : ℝ) (nobs : Int) :
    (s < h → C11b.hUp t h v nobs ≤ k → fx_barrier_value t s dq df k h v 3 nobs = .ok 0)
    ∧ (s < h → C11b.hUp t h v nobs < k → fx_barrier_value t s dq df k h v 4 nobs = .ok (C11b.fxCall t s dq df k v))
    ∧ (h < s → C11b.hDown t h v nobs ≥ k → fx_barrier_value t s dq df k h v 7 nobs = .ok 0)
    ∧ (h < s → C11b.hDown t h v nobs ≥ k → fx_barrier_value t s dq df k h v 8 nobs = .ok (C11b.fxPut t s dq df k v)) := by
  refine ⟨?_, ?_, ?_, ?_⟩
  · intro hs hk
    have h1 : ¬ (s ≥ h) := not_le.mpr hs
    have h2 : ¬ (C11b.hUp t h v nobs > k) := not_lt.mpr hk
    unfold C11b.hUp at h2
    vbd_simp [h1, h2]
  · intro hs hk
    have h1 : ¬ (s ≥ h) := not_le.mpr hs
    have h2 : ¬ (C11b.hUp t h v nobs ≥ k) := not_le.mpr hk
    unfold C11b.hUp at h2
    vbd_simp [h1, h2, C11b.fxCall]
  · intro hs hk
    have h1 : ¬ (s ≤ h) := not_le.mpr hs
    unfold C11b.hDown at hk
    vbd_simp [h1, hk]
  · intro hs hk
    have h1 : ¬ (s ≤ h) := not_le.mpr hs
    unfold C11b.hDown at hk
    vbd_simp [h1, hk, C11b.fxPut]

/-- non-vacuity: for every strike there is a barrier whose shifted level is exactly the strike -/
example (t k v : ℝ) (nobs : Int) :
    C11a.hUp t (k * Real.exp (-((0.5826 : ℝ) * v * Real.sqrt (t / (((1 : Int) : ℝ) + t * (nobs : ℝ)))))) v nobs ≤ k := by
  unfold C11a.hUp
  rw [mul_assoc, ← Real.exp_add, neg_add_cancel, Real.exp_zero, mul_one]

end FinVerif.Props.C11d
