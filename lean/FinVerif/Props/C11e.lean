/-
  C11e — more parities on the GENERATED real models of `EquityRainbowOption.value`, `EquityCompoundOption.value`,
  `EquityChooserOption.value`, `EquityDigitalOption.value`, `EquityOneTouchOption.value`, `FXOneTouchOption.value`.

  * rainbow: max + min = S1 + S2 (forward values as coded), put on max + put on min = call on max + call on min
    + 2·k·df − S1·dq1 − S2·dq2 (exact algebra, touches all four enum branches), and = sum of the two single-asset
    puts (given the bivariate symmetries and `N x + N (−x) = 1` away from 0);
  * compound: call-on-put − put-on-put = underlying put − kc·df(tc), with the dividend yield the code implies from `dq`;
  * chooser with equal strikes and expiries (the "simple" chooser): value = call(K, T) + the put-like term on the
    critical price, for ANY critical price handed back by the Newton solve (no post-condition needed);
  * digital: the two call + put sums expressed with `df` and `dq` themselves;
  * one-touch: spot at or beyond the barrier ⇒ `FinError` for all twelve types, equity and FX (the "rejects the dead
    side" clause of the harness as a theorem).

  The bivariate symmetries are hypotheses (properties of the exact bivariate normal CDF; validated numerically for the
  coded Drezner approximation), as in C11c.
-/
import FinVerif.Props.C11c
import Mathlib.Tactic.LinearCombination

set_option linter.unusedSimpArgs false
set_option linter.unusedVariables false

namespace FinVerif.Props.C11e
open FinVerif FinVerif.Gen.ExoticR FinVerif.Spec.Exotics FinVerif.Props.C11a FinVerif.Props.C11c

/-! ### rainbow -/

/-- the values of receiving max(S1,S2) and min(S1,S2), as the put branches of the code write them, add up to the two
forward-discounted assets: max + min = S1 + S2 -/
theorem rainbow_fwd_max_plus_min (t r q1 q2 rho s1 s2 v1 v2 : ℝ) :
    rbFwdMax t q1 q2 rho s1 s2 v1 v2 r + rbFwdMin t q1 q2 rho s1 s2 v1 v2 r
      = s1 * Real.exp (-q1 * t) + s2 * Real.exp (-q2 * t) := by
  unfold rbFwdMax rbFwdMin
  ring

/-- (put on max + put on min) − (call on max + call on min) = 2·k·df − S1·dq1 − S2·dq2 — exact algebra of the four
enum branches, no hypothesis at all.  (`PUT_ON_MAXIMUM` / `PUT_ON_MINIMUM` contain their own copies of the call
formulas: a slip in one copy, e.g. `rho1` for `rho2`, breaks this.) -/
theorem rainbow_puts_minus_calls (t r q1 q2 rho s1 s2 v1 v2 k : ℝ) :
    subE (addE (eq_rainbow_value t r q1 q2 rho s1 s2 v1 v2 k 2) (eq_rainbow_value t r q1 q2 rho s1 s2 v1 v2 k 4))
         (addE (eq_rainbow_value t r q1 q2 rho s1 s2 v1 v2 k 1) (eq_rainbow_value t r q1 q2 rho s1 s2 v1 v2 k 3))
      = .ok (2 * (k * Real.exp (-r * t)) - s1 * Real.exp (-q1 * t) - s2 * Real.exp (-q2 * t)) := by
  simp only [eq_rainbow_value, subE, addE, decide_eq_true_eq, Int.reduceEq, if_true, if_false, ite_true, ite_false,
    Int.cast_ofNat]
  congr 1
  ring

/-- put on the maximum + put on the minimum = sum of the two single-asset puts (as the code's formulas write them),
given the two symmetries of the exact bivariate normal CDF and the symmetry of `N` at the four arguments. -/
theorem rainbow_put_best_plus_worst (t r q1 q2 rho s1 s2 v1 v2 k : ℝ)
    (h1 : ∀ a b c, M a b c + M a (-b) (-c) = N a) (h2 : ∀ a b c, M a b c - M (-a) (-b) c = N a + N b - 1)
    (n1 : rbY t (r - q1) s1 v1 k ≠ 0) (n2 : rbY t (r - q2) s2 v2 k ≠ 0)
    (n3 : rbY t (r - q1) s1 v1 k - v1 * √t ≠ 0) (n4 : rbY t (r - q2) s2 v2 k - v2 * √t ≠ 0) :
    addE (eq_rainbow_value t r q1 q2 rho s1 s2 v1 v2 k 2) (eq_rainbow_value t r q1 q2 rho s1 s2 v1 v2 k 4)
      = .ok ((k * Real.exp (-r * t) * N (-(rbY t (r - q1) s1 v1 k - v1 * √t)) - s1 * Real.exp (-q1 * t) * N (-(rbY t (r - q1) s1 v1 k)))
           + (k * Real.exp (-r * t) * N (-(rbY t (r - q2) s2 v2 k - v2 * √t)) - s2 * Real.exp (-q2 * t) * N (-(rbY t (r - q2) s2 v2 k)))) := by
  have e1 := N_symm _ n1
  have e2 := N_symm _ n2
  have e3 := N_symm _ n3
  have e4 := N_symm _ n4
  have bw := rainbow_best_plus_worst t r q1 q2 rho s1 s2 v1 v2 k h1 h2
  have pc := rainbow_puts_minus_calls t r q1 q2 rho s1 s2 v1 v2 k
  -- expose the four values
  obtain ⟨a, ha⟩ : ∃ a, eq_rainbow_value t r q1 q2 rho s1 s2 v1 v2 k 1 = .ok a := by
    simp only [eq_rainbow_value, decide_eq_true_eq, Int.reduceEq, if_true, if_false, ite_true, ite_false]; exact ⟨_, rfl⟩
  obtain ⟨b, hb⟩ : ∃ b, eq_rainbow_value t r q1 q2 rho s1 s2 v1 v2 k 3 = .ok b := by
    simp only [eq_rainbow_value, decide_eq_true_eq, Int.reduceEq, if_true, if_false, ite_true, ite_false]; exact ⟨_, rfl⟩
  obtain ⟨c, hc⟩ : ∃ c, eq_rainbow_value t r q1 q2 rho s1 s2 v1 v2 k 2 = .ok c := by
    simp only [eq_rainbow_value, decide_eq_true_eq, Int.reduceEq, if_true, if_false, ite_true, ite_false]; exact ⟨_, rfl⟩
  obtain ⟨d, hd⟩ : ∃ d, eq_rainbow_value t r q1 q2 rho s1 s2 v1 v2 k 4 = .ok d := by
    simp only [eq_rainbow_value, decide_eq_true_eq, Int.reduceEq, if_true, if_false, ite_true, ite_false]; exact ⟨_, rfl⟩
  rw [ha, hb] at bw pc
  rw [hc, hd] at pc ⊢
  simp only [addE, subE, Except.ok.injEq] at bw pc ⊢
  linear_combination pc + bw + (s1 * Real.exp (-q1 * t)) * e1 + (s2 * Real.exp (-q2 * t)) * e2
    - (k * Real.exp (-r * t)) * e3 - (k * Real.exp (-r * t)) * e4

/-! ### compound: options on a put -/

/-- call-on-put − put-on-put = (underlying put, as the code's formula writes it) − kc·df(tc).  `cmpQ` is the dividend
yield the code implies from the dividend discount factor. -/
theorem compound_parity_on_put (tc tu s df dq sstar kc ku v : ℝ)
    (hphi : ∀ a b c, phi2 a b c + phi2 (-a) b (-c) = N b) (ha2 : cmpA2 tc tu s df dq sstar v ≠ 0) :
    subE (eq_compound_value tc tu s df dq sstar kc ku v 1 2) (eq_compound_value tc tu s df dq sstar kc ku v 2 2)
      = .ok (ku * Real.exp (-(-Real.log df / tu) * max (max tc 1e-12) tu)
                 * N (-(cmpB1 tc tu s df dq ku v - max v 1e-12 * √(max (max tc 1e-12) tu)))
             - s * Real.exp (-cmpQ tc tu dq * max (max tc 1e-12) tu) * N (-(cmpB1 tc tu s df dq ku v))
             - Real.exp (-(-Real.log df / tu) * max tc 1e-12) * kc) := by
  have hN := N_symm _ ha2
  simp only [cmpA2, cmpQ] at hN
  simp only [eq_compound_value, subE, cmpB1, cmpQ, decide_eq_true_eq, Int.reduceEq, if_true, if_false, ite_true, ite_false,
    Bool.and_eq_true, and_true, true_and, false_and, and_false, and_self]
  congr 1
  set A := s * Real.exp (-(-Real.log dq / max (max tc 1e-12) tu) * max (max tc 1e-12) tu) with hA
  set B := ku * Real.exp (-(-Real.log df / tu) * max (max tc 1e-12) tu) with hB
  set D := Real.exp (-(-Real.log df / tu) * max tc 1e-12) * kc with hD
  have p1 := hphi (-((Real.log (s / sstar) + (-Real.log df / tu - -Real.log dq / max (max tc 1e-12) tu + max v 1e-12 ^ 2 / 2) * max tc 1e-12)
      / max v 1e-12 / √(max tc 1e-12) - max v 1e-12 * √(max tc 1e-12)))
    (-((Real.log (s / ku) + (-Real.log df / tu - -Real.log dq / max (max tc 1e-12) tu + max v 1e-12 ^ 2 / 2) * max (max tc 1e-12) tu)
      / max v 1e-12 / √(max (max tc 1e-12) tu) - max v 1e-12 * √(max (max tc 1e-12) tu))) (√(max tc 1e-12 / max (max tc 1e-12) tu))
  have p2 := hphi (-((Real.log (s / sstar) + (-Real.log df / tu - -Real.log dq / max (max tc 1e-12) tu + max v 1e-12 ^ 2 / 2) * max tc 1e-12)
      / max v 1e-12 / √(max tc 1e-12)))
    (-((Real.log (s / ku) + (-Real.log df / tu - -Real.log dq / max (max tc 1e-12) tu + max v 1e-12 ^ 2 / 2) * max (max tc 1e-12) tu)
      / max v 1e-12 / √(max (max tc 1e-12) tu))) (√(max tc 1e-12 / max (max tc 1e-12) tu))
  simp only [neg_neg] at p1 p2
  linear_combination B * p1 - A * p2 - D * hN

/-! ### simple chooser (equal strikes and expiries) -/

theorem chooser_alg (Mf : ℝ → ℝ → ℝ → ℝ) (Nf : ℝ → ℝ) (h2 : ∀ a b c, Mf a b c - Mf (-a) (-b) c = Nf a + Nf b - 1)
    (A B d1 d2 y y' ρ w : ℝ) (e : w = -y') :
    A * Mf d1 y ρ - B * Mf d2 y' ρ - A * Mf (-d1) (-y) ρ + B * Mf (-d2) w ρ
      = A * (Nf d1 + Nf y - 1) - B * (Nf d2 + Nf y' - 1) := by
  subst e
  linear_combination A * h2 d1 y ρ - B * h2 d2 y' ρ

/-- `d1` of the chooser formula (strike or critical price `x`, time `t`, rate `rt`), with the clamps of the code -/
noncomputable def choD1 (t rt q s x v : ℝ) : ℝ :=
  (Real.log (s / x) + (rt - q + max v 1e-12 * max v 1e-12 / 2) * max t 1e-12) / max v 1e-12 / √(max t 1e-12)

/-- chooser on a call and a put with the same strike `K` and expiry `T`, chosen at `t`, for ANY critical price `istar`
returned by the root search:  value = [call(K, T) as coded] + [K·df(T)·(1 − N(d2*)) − S·dq(T)·(1 − N(d1*))], where `d1*`,
`d2*` are taken at the critical price and the choice date.  With the exact root `istar = K·e^{−(r−q)(T−t)}` the second
bracket is `e^{−q(T−t)}` × the put struck at `istar` expiring at `t` (Rubinstein's simple-chooser decomposition). -/
theorem chooser_simple_parity (t T rt rT q s istar K v : ℝ)
    (h2 : ∀ a b c, M a b c - M (-a) (-b) c = N a + N b - 1) :
    eq_chooser_value t T T rt rT rT q s istar K K v
      = (s * Real.exp (-q * max T 1e-12) * N (choD1 T rT q s K v)
           - K * Real.exp (-rT * max T 1e-12) * N (choD1 T rT q s K v - max v 1e-12 * √(max T 1e-12)))
        + (K * Real.exp (-rT * max T 1e-12) * (1 - N (choD1 t rt q s istar v - max v 1e-12 * √(max t 1e-12)))
           - s * Real.exp (-q * max T 1e-12) * (1 - N (choD1 t rt q s istar v))) := by
  simp only [eq_chooser_value, choD1, Int.cast_ofNat]
  refine (chooser_alg M N h2 _ _ _ _ _ _ _ _ ?_).trans ?_
  · ring
  · ring

/-- the same with `N(−d)` in the put-like term (needs the symmetry of the coded `N`, i.e. `d ≠ 0`) -/
theorem chooser_simple_parity_put_form (t T rt rT q s istar K v : ℝ)
    (h2 : ∀ a b c, M a b c - M (-a) (-b) c = N a + N b - 1)
    (n1 : choD1 t rt q s istar v ≠ 0) (n2 : choD1 t rt q s istar v - max v 1e-12 * √(max t 1e-12) ≠ 0) :
    eq_chooser_value t T T rt rT rT q s istar K K v
      = (s * Real.exp (-q * max T 1e-12) * N (choD1 T rT q s K v)
           - K * Real.exp (-rT * max T 1e-12) * N (choD1 T rT q s K v - max v 1e-12 * √(max T 1e-12)))
        + (K * Real.exp (-rT * max T 1e-12) * N (-(choD1 t rt q s istar v - max v 1e-12 * √(max t 1e-12)))
           - s * Real.exp (-q * max T 1e-12) * N (-(choD1 t rt q s istar v))) := by
  rw [chooser_simple_parity t T rt rT q s istar K v h2]
  linear_combination (-(K * Real.exp (-rT * max T 1e-12))) * N_symm _ n2 + (s * Real.exp (-q * max T 1e-12)) * N_symm _ n1

/-! ### digital: the sums with the discount factors themselves -/

/-- cash-or-nothing call + put = df -/
theorem digital_cash_call_plus_put_eq_df (t s df dq X v : ℝ) (hdf : 0 < df) (hne : digD2 t s df dq X v ≠ 0) :
    addE (eq_digital_value t s df dq X v 1 1) (eq_digital_value t s df dq X v 2 1) = .ok df := by
  rw [digital_cash_call_plus_put t s df dq X v hne, implied_rate_roundtrip t df hdf]

/-- asset-or-nothing call + put = S · dq -/
theorem digital_asset_call_plus_put_eq_fwd (t s df dq X v : ℝ) (hdq : 0 < dq) (hne : digD1 t s df dq X v ≠ 0) :
    addE (eq_digital_value t s df dq X v 1 2) (eq_digital_value t s df dq X v 2 2) = .ok (s * dq) := by
  rw [digital_asset_call_plus_put t s df dq X v hne, implied_rate_roundtrip t dq hdq]

/-- a digital of an unknown digital type is rejected; an unknown call/put code is an error of the other kind
(the Python raises `UnboundLocalError`) -/
theorem digital_unknown_types (t s df dq X v : ℝ) (cp dt : Int) :
    (dt ≠ 1 → dt ≠ 2 → eq_digital_value t s df dq X v cp dt = .error .finError)
    ∧ (cp ≠ 1 → cp ≠ 2 → (dt = 1 ∨ dt = 2) → eq_digital_value t s df dq X v cp dt = .error .other) := by
  constructor
  · intro h1 h2
    simp only [eq_digital_value, h1, h2, decide_eq_true_eq, if_true, if_false, ite_true, ite_false]
  · intro h1 h2 h
    rcases h with rfl | rfl <;>
      simp only [eq_digital_value, h1, h2, decide_eq_true_eq, Int.reduceEq, if_true, if_false, ite_true, ite_false]

/-! ### one-touch: dead side, asset at hit, bound, zero-rate consistency -/

def isDownTouch (ty : Int) : Prop := ty = 1 ∨ ty = 3 ∨ ty = 5 ∨ ty = 7 ∨ ty = 9 ∨ ty = 11
def isUpTouch (ty : Int) : Prop := ty = 2 ∨ ty = 4 ∨ ty = 6 ∨ ty = 8 ∨ ty = 10 ∨ ty = 12

/-- all six DOWN types, equity and FX: spot at or below the barrier is rejected with `FinError` -/
theorem one_touch_rejects_dead_side_down (t s df r q H K v : ℝ) (ty : Int) (hty : isDownTouch ty) (hs : s ≤ H) :
    eq_one_touch_value t s df r q H K v ty = .error .finError ∧ fx_one_touch_value t s df r q H K v ty = .error .finError := by
  rcases hty with rfl | rfl | rfl | rfl | rfl | rfl <;>
    exact ⟨by simp only [eq_one_touch_value, hs, decide_eq_true_eq, Int.reduceEq, if_true, if_false, ite_true, ite_false],
           by simp only [fx_one_touch_value, hs, decide_eq_true_eq, Int.reduceEq, if_true, if_false, ite_true, ite_false]⟩

/-- all six UP types, equity and FX: spot at or above the barrier is rejected with `FinError` -/
theorem one_touch_rejects_dead_side_up (t s df r q H K v : ℝ) (ty : Int) (hty : isUpTouch ty) (hs : s ≥ H) :
    eq_one_touch_value t s df r q H K v ty = .error .finError ∧ fx_one_touch_value t s df r q H K v ty = .error .finError := by
  rcases hty with rfl | rfl | rfl | rfl | rfl | rfl <;>
    exact ⟨by simp only [eq_one_touch_value, hs, decide_eq_true_eq, Int.reduceEq, if_true, if_false, ite_true, ite_false],
           by simp only [fx_one_touch_value, hs, decide_eq_true_eq, Int.reduceEq, if_true, if_false, ite_true, ite_false]⟩

/-- asset paid at hit is worth the barrier at the hitting time: K × (asset-at-hit value) = H × (cash-at-hit value of K),
down and up, equity and FX, on both sides of the barrier (errors included) -/
theorem one_touch_asset_at_hit (t s df r q H K v : ℝ) :
    ((eq_one_touch_value t s df r q H K v 7).map (K * ·) = (eq_one_touch_value t s df r q H K v 1).map (H * ·))
    ∧ ((eq_one_touch_value t s df r q H K v 8).map (K * ·) = (eq_one_touch_value t s df r q H K v 2).map (H * ·))
    ∧ ((fx_one_touch_value t s df r q H K v 7).map (K * ·) = (fx_one_touch_value t s df r q H K v 1).map (H * ·))
    ∧ ((fx_one_touch_value t s df r q H K v 8).map (K * ·) = (fx_one_touch_value t s df r q H K v 2).map (H * ·)) := by
  refine ⟨?_, ?_, ?_, ?_⟩
  · by_cases hs : s ≤ H
    · simp only [eq_one_touch_value, hs, decide_eq_true_eq, Int.reduceEq, if_true, if_false, ite_true, ite_false, Except.map]
    · simp only [eq_one_touch_value, hs, decide_eq_true_eq, Int.reduceEq, if_true, if_false, ite_true, ite_false, Except.map]
      congr 1; ring
  · by_cases hs : s ≥ H
    · simp only [eq_one_touch_value, hs, decide_eq_true_eq, Int.reduceEq, if_true, if_false, ite_true, ite_false, Except.map]
    · simp only [eq_one_touch_value, hs, decide_eq_true_eq, Int.reduceEq, if_true, if_false, ite_true, ite_false, Except.map]
      congr 1; ring
  · by_cases hs : s ≤ H
    · simp only [fx_one_touch_value, hs, decide_eq_true_eq, Int.reduceEq, if_true, if_false, ite_true, ite_false, Except.map]
    · simp only [fx_one_touch_value, hs, decide_eq_true_eq, Int.reduceEq, if_true, if_false, ite_true, ite_false, Except.map]
      congr 1; ring
  · by_cases hs : s ≥ H
    · simp only [fx_one_touch_value, hs, decide_eq_true_eq, Int.reduceEq, if_true, if_false, ite_true, ite_false, Except.map]
    · simp only [fx_one_touch_value, hs, decide_eq_true_eq, Int.reduceEq, if_true, if_false, ite_true, ite_false, Except.map]
      congr 1; ring

/-- "value ≤ df · payment": given touch + no-touch = unconditional payment, each leg is bounded by the unconditional
payment exactly when the other leg is non-negative -/
theorem touch_le_unconditional_iff (touch noTouch : Except PyErr ℝ) (u a b : ℝ) (ha : touch = .ok a) (hb : noTouch = .ok b)
    (h : TouchPlusNoTouch touch noTouch u) : (a ≤ u ↔ 0 ≤ b) ∧ (b ≤ u ↔ 0 ≤ a) := by
  subst ha hb
  simp only [TouchPlusNoTouch, addE, Except.ok.injEq] at h
  constructor <;> constructor <;> intro _ <;> linarith

theorem log_swap (s H : ℝ) : Real.log (s / H) = -Real.log (H / s) := by
  rw [← Real.log_inv, inv_div]

/-- core of the zero-rate consistency: with `lam = |mu|` the pay-at-hit combination is the pay-at-expiry one -/
theorem at_hit_core (Nf : ℝ → ℝ) (x L a mu : ℝ) (hx : 0 < x) :
    Real.rpow x (mu + |mu|) * Nf (L + |mu| * a) + Real.rpow x (mu - |mu|) * Nf (L + |mu| * a - 2 * |mu| * a)
      = Nf (L - mu * a) + Real.rpow x (2 * mu) * Nf (L + mu * a) := by
  rcases le_or_gt 0 mu with h | h
  · rw [abs_of_nonneg h]
    have e1 : mu + mu = 2 * mu := by ring
    have e2 : mu - mu = 0 := by ring
    have e3 : L + mu * a - 2 * mu * a = L - mu * a := by ring
    rw [e1, e2, e3]
    show _ + x ^ (0:ℝ) * _ = _
    rw [Real.rpow_zero]; ring
  · rw [abs_of_neg h]
    have e1 : mu + -mu = 0 := by ring
    have e2 : mu - -mu = 2 * mu := by ring
    have e3 : L + -mu * a - 2 * -mu * a = L + mu * a := by ring
    have e4 : L + -mu * a = L - mu * a := by ring
    rw [e1, e2, e3, e4]
    show x ^ (0:ℝ) * _ + _ = _
    rw [Real.rpow_zero]; ring

/-! At a zero discount rate (`r = 0`, `df = 1`) being paid at the hitting time and being paid at expiry are the same
contract: the pay-at-hit formula (types 1, 2: `lam = sqrt(mu² + 2r/σ²) = |mu|`) equals the pay-at-expiry formula
(types 3, 4) — both signs of the drift, equity and FX. -/

theorem eq_one_touch_at_hit_zero_rate_down (t s q H K v : ℝ) (hH : 0 < H) (hs : H < s) :
    eq_one_touch_value t s 1 0 q H K v 1 = eq_one_touch_value t s 1 0 q H K v 3 := by
  have hs' : ¬ (s ≤ H) := not_le.mpr hs
  have hx : 0 < H / s := div_pos hH (lt_trans hH hs)
  simp only [eq_one_touch_value, n_vect, hs', decide_eq_true_eq, Int.reduceEq, if_true, if_false, ite_true, ite_false]
  congr 1
  rw [mul_zero, zero_div, zero_div, add_zero, Real.sqrt_mul_self_eq_abs, log_swap s H]
  set w := max v 1e-6
  set st := √(max t 1e-6)
  set l := Real.log (H / s)
  set m := (0 - q - w * w / 2) / w / w
  have key := at_hit_core N (H / s) (l / w / st) (w * st) m hx
  have a2 : 1 * (l / w / st + |m| * w * st) - 2 * 1 * |m| * w * st = l / w / st + |m| * (w * st) - 2 * |m| * (w * st) := by ring
  have a1 : 1 * (l / w / st + |m| * w * st) = l / w / st + |m| * (w * st) := by ring
  have a3 : -1 * (-l / w / st + (m + 1) * w * st) - -1 * w * st = l / w / st - m * (w * st) := by ring
  have a4 : 1 * (l / w / st + (m + 1) * w * st) - 1 * w * st = l / w / st + m * (w * st) := by ring
  rw [a2, a1, a3, a4]
  linear_combination K * key

theorem eq_one_touch_at_hit_zero_rate_up (t s q H K v : ℝ) (hs0 : 0 < s) (hs : s < H) :
    eq_one_touch_value t s 1 0 q H K v 2 = eq_one_touch_value t s 1 0 q H K v 4 := by
  have hs' : ¬ (s ≥ H) := not_le.mpr hs
  have hx : 0 < H / s := div_pos (lt_trans hs0 hs) hs0
  simp only [eq_one_touch_value, n_vect, hs', decide_eq_true_eq, Int.reduceEq, if_true, if_false, ite_true, ite_false]
  congr 1
  rw [mul_zero, zero_div, zero_div, add_zero, Real.sqrt_mul_self_eq_abs, log_swap s H]
  set w := max v 1e-6
  set st := √(max t 1e-6)
  set l := Real.log (H / s)
  set m := (0 - q - w * w / 2) / w / w
  have key := at_hit_core (fun y => N (-y)) (H / s) (l / w / st) (w * st) m hx
  beta_reduce at key
  have a2 : -1 * (l / w / st + |m| * w * st) - 2 * -1 * |m| * w * st = -(l / w / st + |m| * (w * st) - 2 * |m| * (w * st)) := by ring
  have a1 : -1 * (l / w / st + |m| * w * st) = -(l / w / st + |m| * (w * st)) := by ring
  have a3 : 1 * (-l / w / st + (m + 1) * w * st) - 1 * w * st = -(l / w / st - m * (w * st)) := by ring
  have a4 : -1 * (l / w / st + (m + 1) * w * st) - -1 * w * st = -(l / w / st + m * (w * st)) := by ring
  rw [a2, a1, a3, a4]
  linear_combination K * key

theorem fx_one_touch_at_hit_zero_rate_down (t s q H K v : ℝ) (hH : 0 < H) (hs : H < s) :
    fx_one_touch_value t s 1 0 q H K v 1 = fx_one_touch_value t s 1 0 q H K v 3 := by
  have hs' : ¬ (s ≤ H) := not_le.mpr hs
  have hx : 0 < H / s := div_pos hH (lt_trans hH hs)
  simp only [fx_one_touch_value, n_vect, hs', decide_eq_true_eq, Int.reduceEq, if_true, if_false, ite_true, ite_false]
  congr 1
  rw [mul_zero, zero_div, zero_div, add_zero, Real.sqrt_mul_self_eq_abs, log_swap s H]
  set w := max v 1e-6
  set st := √(max t 1e-6)
  set l := Real.log (H / s)
  set m := (0 - q - w * w / 2) / w / w
  have key := at_hit_core N (H / s) (l / w / st) (w * st) m hx
  have a2 : 1 * (l / w / st + |m| * w * st) - 2 * 1 * |m| * w * st = l / w / st + |m| * (w * st) - 2 * |m| * (w * st) := by ring
  have a1 : 1 * (l / w / st + |m| * w * st) = l / w / st + |m| * (w * st) := by ring
  have a3 : -1 * (-l / w / st + (m + 1) * w * st) - -1 * w * st = l / w / st - m * (w * st) := by ring
  have a4 : 1 * (l / w / st + (m + 1) * w * st) - 1 * w * st = l / w / st + m * (w * st) := by ring
  rw [a2, a1, a3, a4]
  linear_combination K * key

theorem fx_one_touch_at_hit_zero_rate_up (t s q H K v : ℝ) (hs0 : 0 < s) (hs : s < H) :
    fx_one_touch_value t s 1 0 q H K v 2 = fx_one_touch_value t s 1 0 q H K v 4 := by
  have hs' : ¬ (s ≥ H) := not_le.mpr hs
  have hx : 0 < H / s := div_pos (lt_trans hs0 hs) hs0
  simp only [fx_one_touch_value, n_vect, hs', decide_eq_true_eq, Int.reduceEq, if_true, if_false, ite_true, ite_false]
  congr 1
  rw [mul_zero, zero_div, zero_div, add_zero, Real.sqrt_mul_self_eq_abs, log_swap s H]
  set w := max v 1e-6
  set st := √(max t 1e-6)
  set l := Real.log (H / s)
  set m := (0 - q - w * w / 2) / w / w
  have key := at_hit_core (fun y => N (-y)) (H / s) (l / w / st) (w * st) m hx
  beta_reduce at key
  have a2 : -1 * (l / w / st + |m| * w * st) - 2 * -1 * |m| * w * st = -(l / w / st + |m| * (w * st) - 2 * |m| * (w * st)) := by ring
  have a1 : -1 * (l / w / st + |m| * w * st) = -(l / w / st + |m| * (w * st)) := by ring
  have a3 : 1 * (-l / w / st + (m + 1) * w * st) - 1 * w * st = -(l / w / st - m * (w * st)) := by ring
  have a4 : -1 * (l / w / st + (m + 1) * w * st) - -1 * w * st = -(l / w / st + m * (w * st)) := by ring
  rw [a2, a1, a3, a4]
  linear_combination K * key

example : (0 : ℝ) < 90 ∧ (90 : ℝ) < 100 := by norm_num

end FinVerif.Props.C11e
