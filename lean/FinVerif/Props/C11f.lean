/-
  C11f — fixed- and floating-strike lookbacks, GENERATED real models of `EquityFixedLookbackOption.value` and
  `EquityFloatLookbackOption.value`.

  * strike vs running-extreme branch identity (the oracle `lookback-branch-identity` of the harness as a theorem): a fixed
    call struck above the running maximum is valued by the `K > Smax` branch exactly as the `K ≤ Smax` branch values it with
    the running maximum set to the strike (the payoff `max(max(Smax, M_T) − K, 0)` does not depend on `Smax < K`); same
    for a put struck below the running minimum;
  * fixed vs floating: `fixedCall(K ≤ Smax) − floatPut(Smax) = S·dq − K·df` for every input (both truncate the power term
    under the same test), and `fixedPut(K ≥ Smin) − floatCall(Smin) = K·df − S·dq` (`…_partial`) when the fixed put does NOT
    take its truncated branch;
  * `fixed_put_minus_float_call_truncated_gap`: in the truncated branch (`S > Smin` and `w = 2b/σ² < −100`) the same difference
    is off by EXACTLY the dropped term `S·df·(σ²/2b)·(S/Smin)^{−w}·N(−f1 + 2b√t/σ)` — the floating call never truncates (its
    test `S < Smin` is unsatisfiable past its own argument guard).  The dropped term is not small (finding
    `C11/lookback-truncated-power-term`, witnessed numerically by the harness);
  * inconsistent running extremes and unknown option types are rejected with `FinError`;
  * `*_shape`: the `s0 == extreme` special-case branches and the general branches of all six formulas are ONE expression
    (`fixCallGen`, `fixPutGen`, `floatCallGen`, `floatPutGen`: the general form, in which `(S/m)^{−w} = 1` at `S = m`), so the value is
    the same function of the running extreme on both sides of `extreme = spot` (a slip inside a special-case branch only,
    e.g. `t` for `sqrt(t)`, breaks these).

  The identities use only `N x + N (−x) = 1` for the coded polynomial (`x ≠ 0`) — hypotheses `n1`, `n2`.
-/
import FinVerif.Props.C11c
import Mathlib.Tactic.LinearCombination
import Mathlib.Tactic.NormNum
import Mathlib.Tactic.Positivity

set_option linter.unusedSimpArgs false
set_option linter.unusedVariables false

namespace FinVerif.Props.C11f
open FinVerif FinVerif.Gen.ExoticR FinVerif.Spec.Exotics FinVerif.Props.C11a

open Lean.Parser.Tactic in
macro "lb_simp" "[" ts:simpLemma,* "]" : tactic =>
  `(tactic| simp only [eq_fixed_lookback_value, eq_float_lookback_value, decide_eq_true_eq, decide_true, decide_false, if_true, if_false,
      ite_true, ite_false, Int.reduceEq, Int.cast_ofNat, Int.cast_neg, Bool.and_eq_true, gt_iff_lt, ge_iff_le, lt_self_iff_false, le_refl,
      sub_self, mul_zero, zero_add, Bool.false_eq_true, false_and, $ts,*])

/-! ### strike vs running extreme -/

/-- fixed call, `S ≤ Smax < K`: the value does not depend on the running maximum and equals the `K ≤ Smax` branch at `Smax := K` -/
theorem fixed_call_branch_identity (t s df dq v smax k : ℝ) (h1 : s ≤ smax) (h2 : smax < k) :
    eq_fixed_lookback_value t s df dq v smax k 1 = eq_fixed_lookback_value t s df dq v k k 1 := by
  have a1 : ¬ (smax < s) := not_lt.mpr h1
  have a2 : ¬ (k < s) := not_lt.mpr (le_trans h1 (le_of_lt h2))
  lb_simp [a1, a2, h2]

/-- fixed put, `K < Smin ≤ S`: equals the `K ≥ Smin` branch at `Smin := K` -/
theorem fixed_put_branch_identity (t s df dq v smin k : ℝ) (h1 : smin ≤ s) (h2 : k < smin) :
    eq_fixed_lookback_value t s df dq v smin k 2 = eq_fixed_lookback_value t s df dq v k k 2 := by
  have a1 : ¬ (s < smin) := not_lt.mpr h1
  have a2 : ¬ (s < k) := not_lt.mpr (le_trans (le_of_lt h2) h1)
  have a3 : ¬ (smin ≤ k) := not_le.mpr h2
  lb_simp [a1, a2, a3]
  split_ifs <;> first | rfl | (congr 1; ring)

example : (100 : ℝ) ≤ 105 ∧ (105 : ℝ) < 110 := by norm_num

/-! ### fixed vs floating -/

/-- the dividend yield after the code's `|r − q| < 1e-12` adjustment -/
noncomputable def lbQ (r q : ℝ) : ℝ := if |r - q| < 1e-12 then r + 1e-12 else q
/-- `e1`/`b1`/`f1`/`a1` of the lookback formulas on the running extreme `m` -/
noncomputable def lbE1 (t s r q v m : ℝ) : ℝ := (Real.log (s / m) + (r - lbQ r q + v * v / 2) * t) / v / √t

/-- fixed call struck at or below the running maximum − floating put on the same maximum = S·dq − K·df, where the rates
are the ones `EquityFixedLookbackOption.value` implies from its discount factors (every branch, truncated or not). -/
theorem fixed_call_minus_float_put (t s df dq v smax k : ℝ) (h1 : s ≤ smax) (h2 : k ≤ smax)
    (n1 : lbE1 t s (-Real.log df / t) (-Real.log dq / t) v smax ≠ 0)
    (n2 : lbE1 t s (-Real.log df / t) (-Real.log dq / t) v smax - v * √t ≠ 0) :
    subE (eq_fixed_lookback_value t s df dq v smax k 1)
         (eq_float_lookback_value t s (-Real.log df / t) (-Real.log dq / t) v smax 2)
      = .ok (s * Real.exp (-lbQ (-Real.log df / t) (-Real.log dq / t) * t) - k * Real.exp (-(-Real.log df / t) * t)) := by
  have a1 : ¬ (smax < s) := not_lt.mpr h1
  have a2 : ¬ (smax < k) := not_lt.mpr h2
  have e1 := N_symm _ n1
  have e2 := N_symm _ n2
  simp only [lbE1, lbQ] at e1 e2
  lb_simp [a1, a2, subE, lbQ, sq]
  generalize -Real.log df / t = r at e1 e2 ⊢
  generalize -Real.log dq / t = q0 at e1 e2 ⊢
  generalize (if |r - q0| < 1e-12 then r + 1e-12 else q0) = Q at e1 e2 ⊢
  rw [show 2 * (r - Q) / v / v = 2 * (r - Q) / (v * v) from div_div _ _ _]
  by_cases hsm : s = smax
  · rw [if_pos hsm, if_pos hsm.symm]
    simp only []
    congr 1
    linear_combination (s * Real.exp (-Q * t)) * e1 - (smax * Real.exp (-r * t)) * e2
  · rw [if_neg hsm, if_neg (Ne.symm hsm)]
    simp only []
    congr 1
    split_ifs <;> linear_combination (s * Real.exp (-Q * t)) * e1 - (smax * Real.exp (-r * t)) * e2

/-- FULL statement for puts — FALSE of the code: `fixed_put_minus_float_call_full_false` (machine-checked witness) and
`fixed_put_minus_float_call_truncated_gap` (the exact gap). -/
def FixedPutMinusFloatCall : Prop :=
  ∀ (t s df dq v smin k : ℝ), smin ≤ s → smin ≤ k →
    lbE1 t s (-Real.log df / t) (-Real.log dq / t) v smin ≠ 0 →
    lbE1 t s (-Real.log df / t) (-Real.log dq / t) v smin - v * √t ≠ 0 →
    subE (eq_fixed_lookback_value t s df dq v smin k 2)
         (eq_float_lookback_value t s (-Real.log df / t) (-Real.log dq / t) v smin 1)
      = .ok (k * Real.exp (-(-Real.log df / t) * t) - s * Real.exp (-lbQ (-Real.log df / t) (-Real.log dq / t) * t))

/-- fixed put struck at or above the running minimum − floating call on the same minimum = K·df − S·dq, PROVIDED the fixed
put is not in its truncated branch (`S > Smin ∧ 2b/σ² < −100`). -/
theorem fixed_put_minus_float_call_partial (t s df dq v smin k : ℝ) (h1 : smin ≤ s) (h2 : smin ≤ k)
    (n1 : lbE1 t s (-Real.log df / t) (-Real.log dq / t) v smin ≠ 0)
    (n2 : lbE1 t s (-Real.log df / t) (-Real.log dq / t) v smin - v * √t ≠ 0)
    (hw : ¬ (smin < s ∧ 2 * (-Real.log df / t - lbQ (-Real.log df / t) (-Real.log dq / t)) / (v * v) < -100)) :
    subE (eq_fixed_lookback_value t s df dq v smin k 2)
         (eq_float_lookback_value t s (-Real.log df / t) (-Real.log dq / t) v smin 1)
      = .ok (k * Real.exp (-(-Real.log df / t) * t) - s * Real.exp (-lbQ (-Real.log df / t) (-Real.log dq / t) * t)) := by
  have a1 : ¬ (s < smin) := not_lt.mpr h1
  have e1 := N_symm _ n1
  have e2 := N_symm _ n2
  simp only [lbE1, lbQ] at e1 e2 hw
  lb_simp [a1, h2, subE, lbQ, sq]
  generalize -Real.log df / t = r at e1 e2 hw ⊢
  generalize -Real.log dq / t = q0 at e1 e2 hw ⊢
  generalize (if |r - q0| < 1e-12 then r + 1e-12 else q0) = Q at e1 e2 hw ⊢
  rw [show 2 * (r - Q) / v / v = 2 * (r - Q) / (v * v) from div_div _ _ _]
  by_cases hsm : s = smin
  · rw [if_pos hsm, if_pos hsm.symm]
    simp only []
    congr 1
    linear_combination (-(s * Real.exp (-Q * t))) * e1 + (smin * Real.exp (-r * t)) * e2
  · rw [if_neg hsm, if_neg (Ne.symm hsm), if_neg hw]
    simp only []
    congr 1
    linear_combination (-(s * Real.exp (-Q * t))) * e1 + (smin * Real.exp (-r * t)) * e2

/-- in the truncated branch the parity is off by exactly the dropped power term -/
theorem fixed_put_minus_float_call_truncated_gap (t s df dq v smin k : ℝ) (h1 : smin < s) (h2 : smin ≤ k)
    (n1 : lbE1 t s (-Real.log df / t) (-Real.log dq / t) v smin ≠ 0)
    (n2 : lbE1 t s (-Real.log df / t) (-Real.log dq / t) v smin - v * √t ≠ 0)
    (hw : 2 * (-Real.log df / t - lbQ (-Real.log df / t) (-Real.log dq / t)) / (v * v) < -100) :
    subE (eq_fixed_lookback_value t s df dq v smin k 2)
         (eq_float_lookback_value t s (-Real.log df / t) (-Real.log dq / t) v smin 1)
      = .ok (k * Real.exp (-(-Real.log df / t) * t) - s * Real.exp (-lbQ (-Real.log df / t) (-Real.log dq / t) * t)
             - s * Real.exp (-(-Real.log df / t) * t)
                 * (v * v / 2 / (-Real.log df / t - lbQ (-Real.log df / t) (-Real.log dq / t)))
                 * (Real.rpow (s / smin) (-(2 * (-Real.log df / t - lbQ (-Real.log df / t) (-Real.log dq / t)) / (v * v)))
                     * N (-lbE1 t s (-Real.log df / t) (-Real.log dq / t) v smin
                          + 2 * (-Real.log df / t - lbQ (-Real.log df / t) (-Real.log dq / t)) * √t / v))) := by
  have a1 : ¬ (s < smin) := not_lt.mpr (le_of_lt h1)
  have hsm : ¬ (s = smin) := ne_of_gt h1
  have e1 := N_symm _ n1
  have e2 := N_symm _ n2
  simp only [lbE1, lbQ] at e1 e2 hw
  lb_simp [a1, h2, subE, lbQ, lbE1, sq]
  generalize -Real.log df / t = r at e1 e2 hw ⊢
  generalize -Real.log dq / t = q0 at e1 e2 hw ⊢
  generalize (if |r - q0| < 1e-12 then r + 1e-12 else q0) = Q at e1 e2 hw ⊢
  rw [show 2 * (r - Q) / v / v = 2 * (r - Q) / (v * v) from div_div _ _ _]
  rw [if_neg hsm, if_neg (Ne.symm hsm), if_pos ⟨h1, hw⟩]
  simp only []
  congr 1
  linear_combination (-(s * Real.exp (-Q * t))) * e1 + (smin * Real.exp (-r * t)) * e2

/-! ### argument guards -/

/-- a running maximum below spot (call) or a running minimum above spot (put) is rejected; so is an unknown option type -/
theorem fixed_lookback_rejects (t s df dq v m k : ℝ) (ty : Int) :
    (m < s → eq_fixed_lookback_value t s df dq v m k 1 = .error .finError)
    ∧ (s < m → eq_fixed_lookback_value t s df dq v m k 2 = .error .finError)
    ∧ (ty ≠ 1 → ty ≠ 2 → eq_fixed_lookback_value t s df dq v m k ty = .error .finError) := by
  refine ⟨?_, ?_, ?_⟩
  · intro h; lb_simp [h]
  · intro h; lb_simp [h]
  · intro h1 h2; lb_simp [h1, h2]

/-- floating: a running minimum above spot (call) or a running maximum below spot (put) is rejected; unknown types too -/
theorem float_lookback_rejects (t s r q v m : ℝ) (ty : Int) :
    (s < m → eq_float_lookback_value t s r q v m 1 = .error .finError)
    ∧ (m < s → eq_float_lookback_value t s r q v m 2 = .error .finError)
    ∧ (ty ≠ 1 → ty ≠ 2 → eq_float_lookback_value t s r q v m ty = .error .finError) := by
  refine ⟨?_, ?_, ?_⟩
  · intro h; lb_simp [h]
  · intro h; lb_simp [h]
  · intro h1 h2; lb_simp [h1, h2]

/-! ### one formula for the `==` special case and the general branch -/

noncomputable def lbB (r q : ℝ) : ℝ := r - lbQ r q
noncomputable def lbW (r q v : ℝ) : ℝ := 2 * lbB r q / (v * v)
noncomputable def lbU (r q v : ℝ) : ℝ := v * v / 2 / lbB r q
/-- `term` of the call-type formulas (fixed call, floating put) in its GENERAL form -/
noncomputable def lbTermUp (Nf : ℝ → ℝ) (t s r q v m : ℝ) : ℝ :=
  -(Real.rpow (s / m) (-lbW r q v)) * Nf (lbE1 t s r q v m - 2 * lbB r q * √t / v) + Real.exp (lbB r q * t) * Nf (lbE1 t s r q v m)
/-- `term` of the put-type formulas (fixed put, floating call) in its GENERAL form -/
noncomputable def lbTermDn (Nf : ℝ → ℝ) (t s r q v m : ℝ) : ℝ :=
  Real.rpow (s / m) (-lbW r q v) * Nf (-lbE1 t s r q v m + 2 * lbB r q * √t / v) - Real.exp (lbB r q * t) * Nf (-lbE1 t s r q v m)

noncomputable def fixCallGen (Nf : ℝ → ℝ) (t s r q v m k : ℝ) : ℝ :=
  Real.exp (-r * t) * (m - k) + s * Real.exp (-lbQ r q * t) * Nf (lbE1 t s r q v m) - m * Real.exp (-r * t) * Nf (lbE1 t s r q v m - v * √t)
    + s * Real.exp (-r * t) * lbU r q v * lbTermUp Nf t s r q v m

theorem rpow_div_self_eq_one (s x : ℝ) (hs : s ≠ 0) : Real.rpow (s / s) x = 1 := by
  rw [div_self hs, Real.rpow_eq_pow, Real.one_rpow]

/-- fixed call, `K ≤ Smax`: the `s0 == s_max` special case and the general branch are ONE formula (`(S/Smax)^{−w} = 1` at
`S = Smax`), provided the general branch is not truncated -/
theorem fixed_call_shape (t s df dq v smax k : ℝ) (h1 : s ≤ smax) (h2 : k ≤ smax) (hs : s ≠ 0)
    (hw : s < smax → ¬ (100 < lbW (-Real.log df / t) (-Real.log dq / t) v)) :
    eq_fixed_lookback_value t s df dq v smax k 1 = .ok (fixCallGen N t s (-Real.log df / t) (-Real.log dq / t) v smax k) := by
  have a1 : ¬ (smax < s) := not_lt.mpr h1
  have a2 : ¬ (smax < k) := not_lt.mpr h2
  rcases eq_or_lt_of_le h1 with heq | hlt
  · subst heq
    lb_simp [a2, fixCallGen, lbTermUp, lbE1, lbQ, lbB, lbW, lbU, rpow_div_self_eq_one s _ hs]
    congr 1; ring
  · have hne : ¬ (s = smax) := ne_of_lt hlt
    have hw' := hw hlt
    simp only [lbW, lbB, lbQ] at hw'
    have hc : ¬ (s < smax ∧ 100 < 2 * (-Real.log df / t - if |-Real.log df / t - -Real.log dq / t| < 1e-12 then -Real.log df / t + 1e-12 else -Real.log dq / t) / (v * v)) :=
      fun h => hw' h.2
    lb_simp [a1, a2, hne, hc, fixCallGen, lbTermUp, lbE1, lbQ, lbB, lbW, lbU]

/-- fixed call struck above the running maximum: the same formula with `Smax := K` -/
theorem fixed_call_shape_above (t s df dq v smax k : ℝ) (h1 : s ≤ smax) (h2 : smax < k) (hs : s ≠ 0)
    (hw : s < k → ¬ (100 < lbW (-Real.log df / t) (-Real.log dq / t) v)) :
    eq_fixed_lookback_value t s df dq v smax k 1 = .ok (fixCallGen N t s (-Real.log df / t) (-Real.log dq / t) v k k) := by
  rw [fixed_call_branch_identity t s df dq v smax k h1 h2]
  exact fixed_call_shape t s df dq v k k (le_trans h1 (le_of_lt h2)) (le_refl k) hs hw

noncomputable def fixPutGen (Nf : ℝ → ℝ) (t s r q v m k : ℝ) : ℝ :=
  Real.exp (-r * t) * (k - m) - s * Real.exp (-lbQ r q * t) * Nf (-lbE1 t s r q v m) + m * Real.exp (-r * t) * Nf (-(lbE1 t s r q v m - v * √t))
    + s * Real.exp (-r * t) * lbU r q v * lbTermDn Nf t s r q v m

/-- fixed put, `K ≥ Smin`: special case and general branch are one formula -/
theorem fixed_put_shape (t s df dq v smin k : ℝ) (h1 : smin ≤ s) (h2 : smin ≤ k) (hs : s ≠ 0)
    (hw : smin < s → ¬ (lbW (-Real.log df / t) (-Real.log dq / t) v < -100)) :
    eq_fixed_lookback_value t s df dq v smin k 2 = .ok (fixPutGen N t s (-Real.log df / t) (-Real.log dq / t) v smin k) := by
  have a1 : ¬ (s < smin) := not_lt.mpr h1
  rcases eq_or_lt_of_le h1 with heq | hlt
  · subst heq
    lb_simp [h2, fixPutGen, lbTermDn, lbE1, lbQ, lbB, lbW, lbU, rpow_div_self_eq_one smin _ hs]
    congr 1; ring
  · have hne : ¬ (s = smin) := ne_of_gt hlt
    have hw' := hw hlt
    simp only [lbW, lbB, lbQ] at hw'
    have hc : ¬ (smin < s ∧ 2 * (-Real.log df / t - if |-Real.log df / t - -Real.log dq / t| < 1e-12 then -Real.log df / t + 1e-12 else -Real.log dq / t) / (v * v) < -100) :=
      fun h => hw' h.2
    lb_simp [a1, h2, hne, hc, fixPutGen, lbTermDn, lbE1, lbQ, lbB, lbW, lbU]

theorem fixed_put_shape_below (t s df dq v smin k : ℝ) (h1 : smin ≤ s) (h2 : k < smin) (hs : s ≠ 0)
    (hw : k < s → ¬ (lbW (-Real.log df / t) (-Real.log dq / t) v < -100)) :
    eq_fixed_lookback_value t s df dq v smin k 2 = .ok (fixPutGen N t s (-Real.log df / t) (-Real.log dq / t) v k k) := by
  rw [fixed_put_branch_identity t s df dq v smin k h1 h2]
  exact fixed_put_shape t s df dq v k k (le_trans (le_of_lt h2) h1) (le_refl k) hs hw

noncomputable def floatCallGen (Nf : ℝ → ℝ) (t s r q v m : ℝ) : ℝ :=
  s * Real.exp (-lbQ r q * t) * Nf (lbE1 t s r q v m) - m * Real.exp (-r * t) * Nf (lbE1 t s r q v m - v * √t)
    + s * Real.exp (-r * t) * lbU r q v * lbTermDn Nf t s r q v m

noncomputable def floatPutGen (Nf : ℝ → ℝ) (t s r q v m : ℝ) : ℝ :=
  m * Real.exp (-r * t) * Nf (-(lbE1 t s r q v m - v * √t)) - s * Real.exp (-lbQ r q * t) * Nf (-lbE1 t s r q v m)
    + s * Real.exp (-r * t) * lbU r q v * lbTermUp Nf t s r q v m

/-- floating call: one formula for `Smin == S` and `Smin < S` (its truncation test `S < Smin` can never hold here) -/
theorem float_call_shape (t s r q v smin : ℝ) (h1 : smin ≤ s) (hs : s ≠ 0) :
    eq_float_lookback_value t s r q v smin 1 = .ok (floatCallGen N t s r q v smin) := by
  have a1 : ¬ (s < smin) := not_lt.mpr h1
  rcases eq_or_lt_of_le h1 with heq | hlt
  · subst heq
    lb_simp [floatCallGen, lbTermDn, lbE1, lbQ, lbB, lbW, lbU, rpow_div_self_eq_one smin _ hs, sq]
    congr 1; ring
  · have hne : ¬ (smin = s) := ne_of_lt hlt
    lb_simp [a1, hne, floatCallGen, lbTermDn, lbE1, lbQ, lbB, lbW, lbU, sq]
    rw [show ∀ x : ℝ, 2 * x / v / v = 2 * x / (v * v) from fun x => div_div _ _ _]

/-- floating put: one formula for `Smax == S` and `S < Smax` (not truncated) -/
theorem float_put_shape (t s r q v smax : ℝ) (h1 : s ≤ smax) (hs : s ≠ 0)
    (hw : s < smax → ¬ (100 < lbW r q v)) :
    eq_float_lookback_value t s r q v smax 2 = .ok (floatPutGen N t s r q v smax) := by
  have a1 : ¬ (smax < s) := not_lt.mpr h1
  rcases eq_or_lt_of_le h1 with heq | hlt
  · subst heq
    lb_simp [floatPutGen, lbTermUp, lbE1, lbQ, lbB, lbW, lbU, rpow_div_self_eq_one s _ hs, sq]
    congr 1; ring
  · have hne : ¬ (smax = s) := ne_of_gt hlt
    have hw' := hw hlt
    simp only [lbW, lbB, lbQ] at hw'
    rw [← div_div] at hw'
    have hc : ¬ (s < smax ∧ 100 < 2 * (r - if |r - q| < 1e-12 then r + 1e-12 else q) / v / v) := fun h => hw' h.2
    lb_simp [a1, hne, hc, floatPutGen, lbTermUp, lbE1, lbQ, lbB, lbW, lbU, sq]
    rw [show ∀ x : ℝ, 2 * x / v / v = 2 * x / (v * v) from fun x => div_div _ _ _]

/-! ### the full put parity is false of the code -/

/-- the coded `N` is strictly positive at −52.5 (the far tail is `poly(k)·φ(x)`, not 0) -/
theorem N_neg_tail_pos : 0 < N (-(105 / 2 : ℝ)) := by
  have h1 : ¬ ((-(105 / 2 : ℝ)) ≥ 0) := by norm_num
  have h2 : ((105 / 2 : ℝ)) ≥ 0 := by norm_num
  simp only [N, N_fuel, h1, h2, decide_false, decide_true, if_true, if_false, Bool.false_eq_true, neg_neg, abs_neg]
  have he : 0 < Real.exp (-(105 / 2 : ℝ) * (105 / 2) / 2) := Real.exp_pos _
  have habs : |(105 / 2 : ℝ)| = 105 / 2 := abs_of_pos (by norm_num)
  rw [habs]
  have hc : 0 < (0.31938153 * (1 / (1 + 0.2316419 * (105 / 2 : ℝ))) +
        -0.356563782 * (1 / (1 + 0.2316419 * (105 / 2 : ℝ)) * (1 / (1 + 0.2316419 * (105 / 2)))) +
        1.781477937 * (1 / (1 + 0.2316419 * (105 / 2 : ℝ)) * (1 / (1 + 0.2316419 * (105 / 2))) * (1 / (1 + 0.2316419 * (105 / 2)))) +
        -1.821255978 * (1 / (1 + 0.2316419 * (105 / 2 : ℝ)) * (1 / (1 + 0.2316419 * (105 / 2))) * (1 / (1 + 0.2316419 * (105 / 2))) * (1 / (1 + 0.2316419 * (105 / 2)))) +
        1.330274429 * (1 / (1 + 0.2316419 * (105 / 2 : ℝ)) * (1 / (1 + 0.2316419 * (105 / 2))) * (1 / (1 + 0.2316419 * (105 / 2))) * (1 / (1 + 0.2316419 * (105 / 2))) * (1 / (1 + 0.2316419 * (105 / 2))))) := by
    norm_num
  have hp := mul_pos (mul_pos hc he) (show (0 : ℝ) < 0.3989422804014327 by norm_num)
  linarith

/-- C11 counterexample (machine-checked): the FULL fixed-put / floating-call parity is FALSE of the code.  Witness (chosen so
that every quantity is exact): t = 1, S = e, Smin = K = 1, df = 1, dq = e^{−51}, σ = 1 — then r = 0, q = 51, w = −102 < −100,
the fixed put takes its truncated branch and the parity is off by `S·df·(σ²/2b)·(S/Smin)^{102}·N(−52.5) ≠ 0`.  (A realistic
witness, σ = 2 %, r − q = −2.5 %, is replayed numerically by the harness: finding `C11/lookback-truncated-power-term`.) -/
theorem fixed_put_minus_float_call_full_false : ¬ FixedPutMinusFloatCall := by
  intro h
  have hr : -Real.log (1 : ℝ) / 1 = 0 := by simp
  have hq : -Real.log (Real.exp (-51)) / 1 = (51 : ℝ) := by rw [Real.log_exp]; norm_num
  have hQ : lbQ 0 51 = 51 := by unfold lbQ; norm_num [abs_of_pos]
  have hE : lbE1 1 (Real.exp 1) 0 51 1 1 = -(99 / 2) := by
    unfold lbE1; rw [hQ, div_one, div_one, Real.log_exp, Real.sqrt_one]; norm_num
  have n1 : lbE1 1 (Real.exp 1) (-Real.log 1 / 1) (-Real.log (Real.exp (-51)) / 1) 1 1 ≠ 0 := by rw [hr, hq, hE]; norm_num
  have n2 : lbE1 1 (Real.exp 1) (-Real.log 1 / 1) (-Real.log (Real.exp (-51)) / 1) 1 1 - 1 * √1 ≠ 0 := by
    rw [hr, hq, hE, Real.sqrt_one]; norm_num
  have h1 : (1 : ℝ) < Real.exp 1 := by
    have := Real.add_one_lt_exp (show (1 : ℝ) ≠ 0 by norm_num); linarith
  have hw : 2 * (-Real.log 1 / 1 - lbQ (-Real.log 1 / 1) (-Real.log (Real.exp (-51)) / 1)) / (1 * 1) < (-100 : ℝ) := by
    rw [hr, hq, hQ]; norm_num
  have hfull := h 1 (Real.exp 1) 1 (Real.exp (-51)) 1 1 1 (le_of_lt h1) (le_refl 1) n1 n2
  rw [fixed_put_minus_float_call_truncated_gap 1 (Real.exp 1) 1 (Real.exp (-51)) 1 1 1 h1 (le_refl 1) n1 n2 hw] at hfull
  simp only [Except.ok.injEq] at hfull
  rw [hr, hq, hQ, hE, Real.sqrt_one] at hfull
  have hN : 0 < N (-(-(99 / 2)) + 2 * (0 - 51) * 1 / 1) := by
    have e : (-(-(99 / 2 : ℝ)) + 2 * (0 - 51) * 1 / 1) = -(105 / 2) := by norm_num
    rw [e]; exact N_neg_tail_pos
  have hpow : 0 < Real.rpow (Real.exp 1 / 1) (-(2 * (0 - 51) / (1 * 1))) := Real.rpow_pos_of_pos (by positivity) _
  have hX : Real.exp 1 * Real.exp (-0 * 1) * (1 * 1 / 2 / (0 - 51))
      * (Real.rpow (Real.exp 1 / 1) (-(2 * (0 - 51) / (1 * 1))) * N (-(-(99 / 2)) + 2 * (0 - 51) * 1 / 1)) < 0 := by
    have hpos : 0 < Real.exp 1 * Real.exp (-0 * 1) := by positivity
    have hneg : (1 * 1 / 2 / (0 - 51) : ℝ) < 0 := by norm_num
    have := mul_pos hpow hN
    nlinarith [mul_pos hpos this]
  linarith

end FinVerif.Props.C11f
