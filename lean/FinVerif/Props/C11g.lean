/-
  C11g — theorems on the second batch of GENERATED real models (`Gen/Exotic2R.lean`):

  * geometric Asian (`EquityAsianOption._value_geometric`): call − put = e^{−rT}(E[G] − K) before and inside the averaging
    period; the coded `d1` is the Black `d1` on the forward `EG` with total variance `varGeo`; the call value IS the generated
    Black–Scholes `bs_value` with dividend yield `r − (meanGeo + varGeo/2)/T` and volatility `√(varGeo/T)`; `varGeo` tends to
    the continuous-averaging variance `σ²(t0 + (T − t0)/3)` as the number of observations → ∞;
  * FX double digital / FX digital: additivity over adjacent ranges, "= difference of two digital puts" for the foreign
    premium AND for the domestic premium (after the repair of the domestic-discount finding), digital call + put = unconditional payment;
  * FX lookbacks (`FXFixedLookbackOption.value`, `FXFloatLookbackOption.value`, own copies of the formulas): strike vs running-extreme
    branch identities, fixed − floating parities (call: every branch; put: `…_partial` + the exact truncation gap), and
    `*_shape`: special-case (`s0 == extreme`) and general branch are one expression — the same statements as `Props/C11f`
    proves for the equity classes, so the equity and FX twins are the same function of (t, S, df, dq, σ, extreme, K).
-/
import FinVerif.Gen.Exotic2R
import FinVerif.Props.C11f
import FinVerif.Props.C05a
import Mathlib.Tactic.LinearCombination
import Mathlib.Analysis.SpecificLimits.Basic

set_option linter.unusedSimpArgs false
set_option linter.unusedVariables false

namespace FinVerif.Props.C11g
open FinVerif FinVerif.Gen FinVerif.Gen.Exotic2R FinVerif.Spec.Exotics FinVerif.Props.C11f

theorem N_eq_exotic : Exotic2R.N = ExoticR.N := rfl
theorem N_eq_bs : Exotic2R.N = BSR.N := rfl

theorem N_symm (x : ℝ) (hx : x ≠ 0) : N x + N (-x) = 1 := by
  rw [N_eq_exotic]; exact C11a.N_symm x hx

/-- mean and variance of the log of the geometric average, as coded (`meanGeo`, `varGeo`) -/
noncomputable def geoMean (t0 T r q v : ℝ) : ℝ := (r - q - v ^ 2 / 2) * (t0 + (T - t0) / 2)
noncomputable def geoVar (t0 T v n : ℝ) : ℝ := v ^ 2 * (t0 + (T - t0) * (2 * n - 1) / (6 * n))
/-- `EG`: the forward of the geometric average -/
noncomputable def geoFwd (t0 T r q s v n : ℝ) : ℝ := s * Real.exp (geoMean t0 T r q v + geoVar t0 T v n / 2)

open Lean.Parser.Tactic in
macro "ag_simp" "[" ts:simpLemma,* "]" : tactic =>
  `(tactic| simp only [eq_asian_geometric_value, decide_eq_true_eq, decide_true, decide_false, if_true, if_false,
      ite_true, ite_false, Int.reduceEq, Int.cast_ofNat, Int.cast_zero, Int.cast_one, Bool.false_eq_true, $ts,*])

/-- shape: before the averaging period (`t0 ≥ 0`) the call is the Black formula on `EG` with total variance `varGeo` -/
theorem asian_geo_call_shape (t0 T tau r q s acc v K n : ℝ) (ht : ¬ (t0 < 0)) (hV : ¬ (|geoVar t0 T v n| < 1e-10)) :
    eq_asian_geometric_value t0 T tau r q s acc v K n 1
      = .ok (Real.exp (-r * T) * (geoFwd t0 T r q s v n * N ((geoMean t0 T r q v + Real.log (s / K) + geoVar t0 T v n) / √(geoVar t0 T v n))
              - K * N ((geoMean t0 T r q v + Real.log (s / K) + geoVar t0 T v n) / √(geoVar t0 T v n) - √(geoVar t0 T v n))) * 1) := by
  unfold geoVar at hV
  ag_simp [ht, hV, geoFwd, geoMean, geoVar]

theorem asian_geo_put_shape (t0 T tau r q s acc v K n : ℝ) (ht : ¬ (t0 < 0)) (hV : ¬ (|geoVar t0 T v n| < 1e-10)) :
    eq_asian_geometric_value t0 T tau r q s acc v K n 2
      = .ok ((Real.exp (-r * T) * (geoFwd t0 T r q s v n * N ((geoMean t0 T r q v + Real.log (s / K) + geoVar t0 T v n) / √(geoVar t0 T v n))
              - K * N ((geoMean t0 T r q v + Real.log (s / K) + geoVar t0 T v n) / √(geoVar t0 T v n) - √(geoVar t0 T v n)))
              - (geoFwd t0 T r q s v n - K) * Real.exp (-r * T)) * 1) := by
  unfold geoVar at hV
  ag_simp [ht, hV, geoFwd, geoMean, geoVar]

/-- call − put = e^{−rT}·(E[G] − K): the put is DEFINED by parity in the code, so this is exact -/
theorem asian_geo_call_minus_put (t0 T tau r q s acc v K n : ℝ) (ht : ¬ (t0 < 0)) (hV : ¬ (|geoVar t0 T v n| < 1e-10)) :
    subE (eq_asian_geometric_value t0 T tau r q s acc v K n 1) (eq_asian_geometric_value t0 T tau r q s acc v K n 2)
      = .ok ((geoFwd t0 T r q s v n - K) * Real.exp (-r * T)) := by
  rw [asian_geo_call_shape _ _ _ _ _ _ _ _ _ _ ht hV, asian_geo_put_shape _ _ _ _ _ _ _ _ _ _ ht hV]
  simp only [subE]
  congr 1; ring

/-- inside the averaging period (`t0 < 0`): strike `K' = (K·tau + A·t0)/T`, `T/tau` options, no pre-averaging time,
`n·T/tau` observations — call − put = (T/tau)·e^{−rT}·(E[G] − K') -/
theorem asian_geo_call_minus_put_in_period (t0 T tau r q s acc v K n : ℝ) (ht : t0 < 0)
    (hV : ¬ (|geoVar 0 T v (n * T / tau)| < 1e-10)) :
    subE (eq_asian_geometric_value t0 T tau r q s acc v K n 1) (eq_asian_geometric_value t0 T tau r q s acc v K n 2)
      = .ok ((geoFwd 0 T r q s v (n * T / tau) - (K * tau + acc * t0) / T) * Real.exp (-r * T) * (T / tau)) := by
  unfold geoVar at hV
  ag_simp [ht, hV, geoFwd, geoMean, geoVar, subE]
  congr 1; ring

/-- "geometric Asian = Black–Scholes with adjusted drift and volatility": the coded `d1` is the Black `d1` on the
forward `EG` of the geometric average with total variance `varGeo`, `(log(EG/K) + varGeo/2)/√varGeo` -/
theorem asian_geo_d1_is_black (t0 T r q s v K n : ℝ) (hs : 0 < s) (hK : 0 < K) :
    (geoMean t0 T r q v + Real.log (s / K) + geoVar t0 T v n) / √(geoVar t0 T v n)
      = (Real.log (geoFwd t0 T r q s v n / K) + geoVar t0 T v n / 2) / √(geoVar t0 T v n) := by
  congr 1
  unfold geoFwd
  rw [mul_div_right_comm, Real.log_mul (div_pos hs hK).ne' (Real.exp_pos _).ne', Real.log_exp]
  ring


/-- … and the call value IS the generated Black–Scholes value `bs_value` (models/black_scholes_analytic.py) with the same
spot, strike, expiry and rate, dividend yield `q_G = r − (meanGeo + varGeo/2)/T` and volatility `σ_G = √(varGeo/T)`
(clamps of `bs_value` inactive: `T, K, σ_G ≥ 1e-12`). -/
theorem asian_geo_eq_bs_value (t0 T tau r q s acc v K n : ℝ) (ht : ¬ (t0 < 0)) (hV : 0 < geoVar t0 T v n)
    (hV' : ¬ (|geoVar t0 T v n| < 1e-10)) (hT : 1e-12 ≤ T) (hK : 1e-12 ≤ K) (hs : 0 < s)
    (hσ : 1e-12 ≤ √(geoVar t0 T v n / T)) :
    eq_asian_geometric_value t0 T tau r q s acc v K n 1
      = BSR.bs_value s T K r (r - (geoMean t0 T r q v + geoVar t0 T v n / 2) / T) (√(geoVar t0 T v n / T)) 1 := by
  have hT0 : 0 < T := lt_of_lt_of_le (by norm_num) hT
  have hK0 : 0 < K := lt_of_lt_of_le (by norm_num) hK
  rw [asian_geo_call_shape _ _ _ _ _ _ _ _ _ _ ht hV', asian_geo_d1_is_black t0 T r q s v K n hs hK0]
  simp only [BSR.bs_value, decide_eq_true_eq, if_true, ite_true, max_eq_left hT, max_eq_left hK, max_eq_left hσ, ← N_eq_bs]
  set V := geoVar t0 T v n with hVdef
  set m := geoMean t0 T r q v with hmdef
  have hw : √(V / T) * √T = √V := by
    rw [← Real.sqrt_mul (div_pos hV hT0).le, div_mul_cancel₀ _ hT0.ne']
  have hss : s * Real.exp (-(r - (m + V / 2) / T) * T) = geoFwd t0 T r q s v n * Real.exp (-r * T) := by
    unfold geoFwd
    rw [mul_assoc, ← Real.exp_add]
    congr 2
    field_simp
    ring
  have hsq : V / 2 / √V = √V / 2 := by
    have h := Real.mul_self_sqrt hV.le
    have hne : √V ≠ 0 := (Real.sqrt_pos.mpr hV).ne'
    field_simp
    linarith
  rw [hw, hss, mul_div_mul_right _ _ (Real.exp_pos _).ne']
  have hd : (Real.log (geoFwd t0 T r q s v n / K) + V / 2) / √V = Real.log (geoFwd t0 T r q s v n / K) / √V + √V / 2 := by
    rw [add_div, hsq]
  rw [hd]
  congr 1
  simp only [one_mul]
  ring


open Filter in
/-- continuous-averaging limit of the coded variance: `varGeo → σ²·(t0 + (T − t0)/3)` as the number of observations → ∞
(the law against which the harness integrates the payoff) -/
theorem geoVar_tendsto (t0 T v : ℝ) :
    Tendsto (fun n : ℕ => geoVar t0 T v (n : ℝ)) atTop (nhds (v ^ 2 * (t0 + (T - t0) / 3))) := by
  have h0 : Tendsto (fun n : ℕ => ((T - t0) / 6) / (n : ℝ)) atTop (nhds 0) := tendsto_const_div_atTop_nhds_zero_nat _
  have h1 : Tendsto (fun n : ℕ => v ^ 2 * (t0 + ((T - t0) / 3 - ((T - t0) / 6) / (n : ℝ)))) atTop
      (nhds (v ^ 2 * (t0 + ((T - t0) / 3 - 0)))) := (((h0.const_sub ((T - t0) / 3)).const_add t0).const_mul (v ^ 2))
  rw [sub_zero] at h1
  refine h1.congr' ?_
  filter_upwards [eventually_ge_atTop 1] with n hn
  have hn' : (n : ℝ) ≠ 0 := by
    have : (1 : ℝ) ≤ n := by exact_mod_cast hn
    linarith
  unfold geoVar
  field_simp
  ring

/-! ### FX double digital and FX digital -/

open Lean.Parser.Tactic in
macro "fd_simp" "[" ts:simpLemma,* "]" : tactic =>
  `(tactic| simp only [fx_double_digital_value, fx_digital_value, n_vect, addE, subE, decide_eq_true_eq, decide_true, decide_false, if_true,
      if_false, ite_true, ite_false, Int.reduceEq, Bool.and_eq_true, and_true, true_and, and_false, false_and, and_self,
      Bool.false_eq_true, $ts,*])

/-- adjacent ranges add up: DD(K1, K2) + DD(K2, K3) = DD(K1, K3), either premium currency -/
theorem fx_double_digital_additive (td te s dd fd v nt K1 K2 K3 : ℝ) (pf pd : Int) (h : pf = 1 ∨ pd = 1) :
    addE (fx_double_digital_value td te s dd fd pf pd v nt K1 K2) (fx_double_digital_value td te s dd fd pf pd v nt K2 K3)
      = fx_double_digital_value td te s dd fd pf pd v nt K1 K3 := by
  by_cases h1 : pf = 1
  · fd_simp [h1]
    congr 1; ring
  · have h2 : pd = 1 := h.resolve_left h1
    fd_simp [h1, h2]
    congr 1; ring

/-- foreign premium: the double digital IS the difference of the two digital puts of `FXDigitalOption` (as documented) -/
theorem fx_double_digital_for_eq_digital_puts (td te s dd fd v nt K1 K2 : ℝ) (pd : Int) :
    fx_double_digital_value td te s dd fd 1 pd v nt K1 K2
      = subE (fx_digital_value td te s dd fd 1 pd v nt K2 6) (fx_digital_value td te s dd fd 1 pd v nt K1 6) := by
  fd_simp []
  congr 1; ring

/-- domestic premium: the double digital IS the difference of the two domestic digital puts of `FXDigitalOption` (as documented),
both discounted with the DOMESTIC rate.  (Before the repair of finding `C11/fx-double-digital-domestic-payout-foreign-discount` the
double digital carried `e^{−r_f t}` and this theorem does not build on that source.) -/
theorem fx_double_digital_dom_eq_digital_puts (td te s dd fd v nt K1 K2 : ℝ) (pf : Int) (hpf : pf ≠ 1) :
    fx_double_digital_value td te s dd fd pf 1 v nt K1 K2
      = subE (fx_digital_value td te s dd fd pf 1 v nt K2 6) (fx_digital_value td te s dd fd pf 1 v nt K1 6) := by
  fd_simp [hpf]
  congr 1; ring

/-- `d2` of the FX digital formulas as coded (drift over `t_del`, volatility over `t_exp`) -/
noncomputable def fxdD2 (td te s dd fd v K : ℝ) : ℝ :=
  (Real.log (s / K) + (-Real.log dd / max td 1e-10 - -Real.log fd / max td 1e-10 - v * v / 2) * max td 1e-10) / (v * √te)

/-- FX digital call + put = the unconditional payment as coded: `notional · e^{−r_d t}` (domestic premium) -/
theorem fx_digital_call_plus_put_dom (td te s dd fd v nt K : ℝ) (pf : Int) (hpf : pf ≠ 1) (hne : fxdD2 td te s dd fd v K ≠ 0) :
    addE (fx_digital_value td te s dd fd pf 1 v nt K 5) (fx_digital_value td te s dd fd pf 1 v nt K 6)
      = .ok (Real.exp (-(-Real.log dd / max td 1e-10) * max td 1e-10) * nt) := by
  have key := N_symm _ hne
  simp only [fxdD2] at key
  fd_simp [hpf]
  congr 1
  linear_combination (Real.exp (-(-Real.log dd / max td 1e-10) * max td 1e-10) * nt) * key

/-- … and `notional · S · e^{−r_f t}` (foreign premium) -/
theorem fx_digital_call_plus_put_for (td te s dd fd v nt K : ℝ) (pd : Int) (hne : fxdD2 td te s dd fd v K ≠ 0) :
    addE (fx_digital_value td te s dd fd 1 pd v nt K 5) (fx_digital_value td te s dd fd 1 pd v nt K 6)
      = .ok (s * Real.exp (-(-Real.log fd / max td 1e-10) * max td 1e-10) * nt) := by
  have key := N_symm _ hne
  simp only [fxdD2] at key
  fd_simp []
  congr 1
  linear_combination (s * Real.exp (-(-Real.log fd / max td 1e-10) * max td 1e-10) * nt) * key


/-! ### FX lookbacks -/

open Lean.Parser.Tactic in
macro "fl_simp" "[" ts:simpLemma,* "]" : tactic =>
  `(tactic| simp only [fx_fixed_lookback_value, fx_float_lookback_value, decide_eq_true_eq, decide_true, decide_false, if_true, if_false,
      ite_true, ite_false, Int.reduceEq, Int.cast_ofNat, Int.cast_neg, Bool.and_eq_true, gt_iff_lt, ge_iff_le, lt_self_iff_false, le_refl,
      sub_self, mul_zero, zero_add, Bool.false_eq_true, false_and, $ts,*])

theorem fx_fixed_call_branch_identity (t s df dq v smax k : ℝ) (h1 : s ≤ smax) (h2 : smax < k) :
    fx_fixed_lookback_value t s df dq v smax k 1 = fx_fixed_lookback_value t s df dq v k k 1 := by
  have a1 : ¬ (smax < s) := not_lt.mpr h1
  have a2 : ¬ (k < s) := not_lt.mpr (le_trans h1 (le_of_lt h2))
  fl_simp [a1, a2, h2]

theorem fx_fixed_put_branch_identity (t s df dq v smin k : ℝ) (h1 : smin ≤ s) (h2 : k < smin) :
    fx_fixed_lookback_value t s df dq v smin k 2 = fx_fixed_lookback_value t s df dq v k k 2 := by
  have a1 : ¬ (s < smin) := not_lt.mpr h1
  have a2 : ¬ (s < k) := not_lt.mpr (le_trans (le_of_lt h2) h1)
  have a3 : ¬ (smin ≤ k) := not_le.mpr h2
  fl_simp [a1, a2, a3]
  try (split_ifs <;> first | rfl | (congr 1; ring))

/-- FX fixed call, `K ≤ Smax`: `s0 == s_max` special case and general branch are ONE formula — and it is the SAME formula
(`C11f.fixCallGen`) as the equity class's -/
theorem fx_fixed_call_shape (t s df dq v smax k : ℝ) (h1 : s ≤ smax) (h2 : k ≤ smax) (hs : s ≠ 0)
    (hw : s < smax → ¬ (100 < lbW (-Real.log df / t) (-Real.log dq / t) v)) :
    fx_fixed_lookback_value t s df dq v smax k 1 = .ok (fixCallGen N t s (-Real.log df / t) (-Real.log dq / t) v smax k) := by
  have a1 : ¬ (smax < s) := not_lt.mpr h1
  have a2 : ¬ (smax < k) := not_lt.mpr h2
  rcases eq_or_lt_of_le h1 with heq | hlt
  · subst heq
    fl_simp [a2, fixCallGen, lbTermUp, lbE1, lbQ, lbB, lbW, lbU, rpow_div_self_eq_one s _ hs]
    congr 1; ring
  · have hne : ¬ (s = smax) := ne_of_lt hlt
    have hw' := hw hlt
    simp only [lbW, lbB, lbQ] at hw'
    rw [← div_div] at hw'
    have hc : ¬ (s < smax ∧ 100 < 2 * (-Real.log df / t - if |-Real.log df / t - -Real.log dq / t| < 1e-12 then -Real.log df / t + 1e-12 else -Real.log dq / t) / v / v) :=
      fun h => hw' h.2
    fl_simp [a1, a2, hne, hc, fixCallGen, lbTermUp, lbE1, lbQ, lbB, lbW, lbU]
    rw [show ∀ x : ℝ, 2 * x / v / v = 2 * x / (v * v) from fun x => div_div _ _ _]

theorem fx_fixed_call_shape_above (t s df dq v smax k : ℝ) (h1 : s ≤ smax) (h2 : smax < k) (hs : s ≠ 0)
    (hw : s < k → ¬ (100 < lbW (-Real.log df / t) (-Real.log dq / t) v)) :
    fx_fixed_lookback_value t s df dq v smax k 1 = .ok (fixCallGen N t s (-Real.log df / t) (-Real.log dq / t) v k k) := by
  rw [fx_fixed_call_branch_identity t s df dq v smax k h1 h2]
  exact fx_fixed_call_shape t s df dq v k k (le_trans h1 (le_of_lt h2)) (le_refl k) hs hw

theorem fx_fixed_put_shape (t s df dq v smin k : ℝ) (h1 : smin ≤ s) (h2 : smin ≤ k) (hs : s ≠ 0)
    (hw : smin < s → ¬ (lbW (-Real.log df / t) (-Real.log dq / t) v < -100)) :
    fx_fixed_lookback_value t s df dq v smin k 2 = .ok (fixPutGen N t s (-Real.log df / t) (-Real.log dq / t) v smin k) := by
  have a1 : ¬ (s < smin) := not_lt.mpr h1
  rcases eq_or_lt_of_le h1 with heq | hlt
  · subst heq
    fl_simp [h2, fixPutGen, lbTermDn, lbE1, lbQ, lbB, lbW, lbU, rpow_div_self_eq_one smin _ hs]
    congr 1; ring
  · have hne : ¬ (s = smin) := ne_of_gt hlt
    have hw' := hw hlt
    simp only [lbW, lbB, lbQ] at hw'
    rw [← div_div] at hw'
    have hc : ¬ (smin < s ∧ 2 * (-Real.log df / t - if |-Real.log df / t - -Real.log dq / t| < 1e-12 then -Real.log df / t + 1e-12 else -Real.log dq / t) / v / v < -100) :=
      fun h => hw' h.2
    fl_simp [a1, h2, hne, hc, fixPutGen, lbTermDn, lbE1, lbQ, lbB, lbW, lbU]
    rw [show ∀ x : ℝ, 2 * x / v / v = 2 * x / (v * v) from fun x => div_div _ _ _]

theorem fx_fixed_put_shape_below (t s df dq v smin k : ℝ) (h1 : smin ≤ s) (h2 : k < smin) (hs : s ≠ 0)
    (hw : k < s → ¬ (lbW (-Real.log df / t) (-Real.log dq / t) v < -100)) :
    fx_fixed_lookback_value t s df dq v smin k 2 = .ok (fixPutGen N t s (-Real.log df / t) (-Real.log dq / t) v k k) := by
  rw [fx_fixed_put_branch_identity t s df dq v smin k h1 h2]
  exact fx_fixed_put_shape t s df dq v k k (le_trans (le_of_lt h2) h1) (le_refl k) hs hw

/-- FX floating call (rates implied from the discount factors): one formula on both sides of `Smin = S` -/
theorem fx_float_call_shape (t s df dq v smin : ℝ) (h1 : smin ≤ s) (hs : s ≠ 0) :
    fx_float_lookback_value t s df dq v smin 1 = .ok (floatCallGen N t s (-Real.log df / t) (-Real.log dq / t) v smin) := by
  have a1 : ¬ (s < smin) := not_lt.mpr h1
  rcases eq_or_lt_of_le h1 with heq | hlt
  · subst heq
    fl_simp [floatCallGen, lbTermDn, lbE1, lbQ, lbB, lbW, lbU, rpow_div_self_eq_one smin _ hs, sq]
    congr 1; ring
  · have hne : ¬ (smin = s) := ne_of_lt hlt
    fl_simp [a1, hne, floatCallGen, lbTermDn, lbE1, lbQ, lbB, lbW, lbU, sq]
    rw [show ∀ x : ℝ, 2 * x / v / v = 2 * x / (v * v) from fun x => div_div _ _ _]

theorem fx_float_put_shape (t s df dq v smax : ℝ) (h1 : s ≤ smax) (hs : s ≠ 0)
    (hw : s < smax → ¬ (100 < lbW (-Real.log df / t) (-Real.log dq / t) v)) :
    fx_float_lookback_value t s df dq v smax 2 = .ok (floatPutGen N t s (-Real.log df / t) (-Real.log dq / t) v smax) := by
  have a1 : ¬ (smax < s) := not_lt.mpr h1
  rcases eq_or_lt_of_le h1 with heq | hlt
  · subst heq
    fl_simp [floatPutGen, lbTermUp, lbE1, lbQ, lbB, lbW, lbU, rpow_div_self_eq_one s _ hs, sq]
    congr 1; ring
  · have hne : ¬ (smax = s) := ne_of_gt hlt
    have hw' := hw hlt
    simp only [lbW, lbB, lbQ] at hw'
    rw [← div_div] at hw'
    have hc : ¬ (s < smax ∧ 100 < 2 * (-Real.log df / t - if |-Real.log df / t - -Real.log dq / t| < 1e-12 then -Real.log df / t + 1e-12 else -Real.log dq / t) / v / v) :=
      fun h => hw' h.2
    fl_simp [a1, hne, hc, floatPutGen, lbTermUp, lbE1, lbQ, lbB, lbW, lbU, sq]
    rw [show ∀ x : ℝ, 2 * x / v / v = 2 * x / (v * v) from fun x => div_div _ _ _]

/-- equity and FX twins agree: the equity fixed lookback (ExoticR) and the FX fixed lookback (Exotic2R) are the same function
wherever both `*_shape` theorems apply (same `N` by `N_eq_exotic`) -/
theorem fx_fixed_call_eq_equity (t s df dq v smax k : ℝ) (h1 : s ≤ smax) (h2 : k ≤ smax) (hs : s ≠ 0)
    (hw : s < smax → ¬ (100 < lbW (-Real.log df / t) (-Real.log dq / t) v)) :
    fx_fixed_lookback_value t s df dq v smax k 1 = ExoticR.eq_fixed_lookback_value t s df dq v smax k 1 := by
  rw [fx_fixed_call_shape t s df dq v smax k h1 h2 hs hw, C11f.fixed_call_shape t s df dq v smax k h1 h2 hs hw, N_eq_exotic]

theorem fx_fixed_put_eq_equity (t s df dq v smin k : ℝ) (h1 : smin ≤ s) (h2 : smin ≤ k) (hs : s ≠ 0)
    (hw : smin < s → ¬ (lbW (-Real.log df / t) (-Real.log dq / t) v < -100)) :
    fx_fixed_lookback_value t s df dq v smin k 2 = ExoticR.eq_fixed_lookback_value t s df dq v smin k 2 := by
  rw [fx_fixed_put_shape t s df dq v smin k h1 h2 hs hw, C11f.fixed_put_shape t s df dq v smin k h1 h2 hs hw, N_eq_exotic]

theorem fx_float_eq_equity (t s df dq v m : ℝ) (hs : s ≠ 0) :
    (m ≤ s → fx_float_lookback_value t s df dq v m 1 = ExoticR.eq_float_lookback_value t s (-Real.log df / t) (-Real.log dq / t) v m 1)
    ∧ (s ≤ m → (s < m → ¬ (100 < lbW (-Real.log df / t) (-Real.log dq / t) v)) →
        fx_float_lookback_value t s df dq v m 2 = ExoticR.eq_float_lookback_value t s (-Real.log df / t) (-Real.log dq / t) v m 2) := by
  constructor
  · intro h1
    rw [fx_float_call_shape t s df dq v m h1 hs, C11f.float_call_shape t s _ _ v m h1 hs, N_eq_exotic]
  · intro h1 hw
    rw [fx_float_put_shape t s df dq v m h1 hs hw, C11f.float_put_shape t s _ _ v m h1 hs hw, N_eq_exotic]

/-- FX: fixed call − floating put = S·dq − K·df (`K ≤ Smax`), from the two shapes (untruncated or `S = Smax`) -/
theorem fx_fixed_call_minus_float_put (t s df dq v smax k : ℝ) (h1 : s ≤ smax) (h2 : k ≤ smax) (hs : s ≠ 0)
    (hw : s < smax → ¬ (100 < lbW (-Real.log df / t) (-Real.log dq / t) v))
    (n1 : lbE1 t s (-Real.log df / t) (-Real.log dq / t) v smax ≠ 0)
    (n2 : lbE1 t s (-Real.log df / t) (-Real.log dq / t) v smax - v * √t ≠ 0) :
    subE (fx_fixed_lookback_value t s df dq v smax k 1) (fx_float_lookback_value t s df dq v smax 2)
      = .ok (s * Real.exp (-lbQ (-Real.log df / t) (-Real.log dq / t) * t) - k * Real.exp (-(-Real.log df / t) * t)) := by
  rw [fx_fixed_call_shape t s df dq v smax k h1 h2 hs hw, fx_float_put_shape t s df dq v smax h1 hs hw]
  simp only [subE, fixCallGen, floatPutGen]
  congr 1
  linear_combination (s * Real.exp (-lbQ (-Real.log df / t) (-Real.log dq / t) * t)) * N_symm _ n1
    - (smax * Real.exp (-(-Real.log df / t) * t)) * N_symm _ n2

/-- FX: fixed put − floating call = K·df − S·dq (`K ≥ Smin`), when the fixed put is not truncated -/
theorem fx_fixed_put_minus_float_call_partial (t s df dq v smin k : ℝ) (h1 : smin ≤ s) (h2 : smin ≤ k) (hs : s ≠ 0)
    (hw : smin < s → ¬ (lbW (-Real.log df / t) (-Real.log dq / t) v < -100))
    (n1 : lbE1 t s (-Real.log df / t) (-Real.log dq / t) v smin ≠ 0)
    (n2 : lbE1 t s (-Real.log df / t) (-Real.log dq / t) v smin - v * √t ≠ 0) :
    subE (fx_fixed_lookback_value t s df dq v smin k 2) (fx_float_lookback_value t s df dq v smin 1)
      = .ok (k * Real.exp (-(-Real.log df / t) * t) - s * Real.exp (-lbQ (-Real.log df / t) (-Real.log dq / t) * t)) := by
  rw [fx_fixed_put_shape t s df dq v smin k h1 h2 hs hw, fx_float_call_shape t s df dq v smin h1 hs]
  simp only [subE, fixPutGen, floatCallGen]
  congr 1
  linear_combination (-(s * Real.exp (-lbQ (-Real.log df / t) (-Real.log dq / t) * t))) * N_symm _ n1
    + (smin * Real.exp (-(-Real.log df / t) * t)) * N_symm _ n2

example : ¬ ((100 : ℝ) < lbW 0.05 0.01 0.2) := by
  unfold lbW lbB lbQ
  norm_num [abs_of_pos]

end FinVerif.Props.C11g
