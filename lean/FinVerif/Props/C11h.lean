/-
  C11h — the two LOOPS among the closed-form exotics, hand-modelled in `Model/C11.lean` (compared with the implementation on
  every run through `Driver/C11x.lean`; the Black–Scholes kernel inside the cliquet loop is the GENERATED `bs_value`):

  * variance swap (`EquityVarianceSwap.fair_strike`): REPLICATION IDENTITY — with the weights the two loops compute, the call
    strip pays exactly `f(K) = (2/T)((K − S*)/S* − log(K/S*))` at every grid strike above `S*` and the put strip at every grid
    strike below (`vs_call_replicates`, `vs_put_replicates`, with `vsWtsGo_prefix` for the intermediate strikes), for ANY grid
    whose consecutive strikes are distinct (induction on the grid, generalised over the running `sum_wts`); the weights sum to
    the slope of `f` over the last interval (`vs_weights_sum`); the call weights are ≥ 0 on any increasing grid from `S* > 0`
    (`vs_call_weights_nonneg`, from the concavity of `log`);
  * cliquet (`EquityCliquetOption.value`): the loop returns Σ_i S·dq(t_{i−1})·bs_value(1, τ_i, 1, r_i, q_i, σ, type) —
    "cliquet = sum of forward-start at-the-money options" as coded (`cliquet_eq_sum`); linear in spot; non-negative if the
    kernel is; call cliquet − put cliquet = Σ_i S·dq_i·(e^{−q_i τ_i} − e^{−r_i τ_i}) from the generated kernel's own
    put–call parity (Props/C05a) period by period; unknown option types are rejected.
-/
import FinVerif.Model.C11
import FinVerif.Props.C05a
import Mathlib.Tactic.LinearCombination
import Mathlib.Tactic.Ring
import Mathlib.Tactic.FieldSimp
import Mathlib.Analysis.Convex.SpecificFunctions.Basic
import Mathlib.Analysis.Convex.Slope

set_option linter.unusedSimpArgs false
set_option linter.unusedVariables false

namespace FinVerif.Props.C11h
open FinVerif FinVerif.Model.C11

/-! ### variance-swap replication weights -/

/-- payoff at `x` of the option strip built so far: `Σ_j w_j · (x − k_j)` over the zipped lists (for a call strip and `x` at or
above every listed strike this is `Σ_j w_j (x − k_j)^+`; for a put strip take `sgn = −1`) -/
noncomputable def stripAt (sgn x : ℝ) : List ℝ → List ℝ → ℝ
  | k :: ks, w :: ws => w * (sgn * (x - k)) + stripAt sgn x ks ws
  | _, _ => 0

theorem vsWtsGo_cons_cons (fv : ℝ → ℝ) (c : Bool) (k kp : ℝ) (rest : List ℝ) (S : ℝ) :
    vsWtsGo fv c (k :: kp :: rest) S
      = ((fv kp - fv k) / (if c then kp - k else k - kp) - S)
          :: vsWtsGo fv c (kp :: rest) (S + ((fv kp - fv k) / (if c then kp - k else k - kp) - S)) := by
  simp [vsWtsGo]

/-- last element of a non-empty strike list -/
def lastOf : ℝ → List ℝ → ℝ
  | k, [] => k
  | _, kp :: rest => lastOf kp rest

/-- consecutive strikes are distinct -/
def Distinct : ℝ → List ℝ → Prop
  | _, [] => True
  | k, kp :: rest => kp ≠ k ∧ Distinct kp rest

/-- generalised invariant (running sum `S` of the weights already issued): the call strip built from `k :: ks`, evaluated at the
last strike, is `f(last) − f(k) − S·(last − k)` -/
theorem call_strip_inv (fv : ℝ → ℝ) : ∀ (ks : List ℝ) (k S : ℝ), Distinct k ks →
    stripAt 1 (lastOf k ks) (k :: ks) (vsWtsGo fv true (k :: ks) S) = fv (lastOf k ks) - fv k - S * (lastOf k ks - k)
  | [], k, S, _ => by simp [vsWtsGo, stripAt, lastOf]
  | kp :: rest, k, S, h => by
      obtain ⟨hne, hd⟩ := h
      rw [vsWtsGo_cons_cons]
      simp only [stripAt, lastOf, if_true]
      have ih := call_strip_inv fv rest kp (S + ((fv kp - fv k) / (kp - k) - S)) hd
      -- the strip from kp on, evaluated at the same last strike
      rw [ih]
      have hk : kp - k ≠ 0 := sub_ne_zero.mpr hne
      field_simp
      ring

/-- the put strip: `Σ_j w_j (k_j − x)` at the last (lowest) strike is `f(last) − f(k) − S·(k − last)` -/
theorem put_strip_inv (fv : ℝ → ℝ) : ∀ (ks : List ℝ) (k S : ℝ), Distinct k ks →
    stripAt (-1) (lastOf k ks) (k :: ks) (vsWtsGo fv false (k :: ks) S) = fv (lastOf k ks) - fv k - S * (k - lastOf k ks)
  | [], k, S, _ => by simp [vsWtsGo, stripAt, lastOf]
  | kp :: rest, k, S, h => by
      obtain ⟨hne, hd⟩ := h
      rw [vsWtsGo_cons_cons]
      simp only [stripAt, lastOf, Bool.false_eq_true, if_false]
      have ih := put_strip_inv fv rest kp (S + ((fv kp - fv k) / (k - kp) - S)) hd
      rw [ih]
      have hk : k - kp ≠ 0 := sub_ne_zero.mpr (Ne.symm hne)
      field_simp
      ring

/-- `f(S*) = 0` -/
theorem vsF_at_centre (tMat sstar : ℝ) (h : sstar ≠ 0) : vsF 2 Real.log tMat sstar sstar = 0 := by
  unfold vsF
  rw [sub_self, zero_div, div_self h, Real.log_one, sub_zero, mul_zero]

/-- REPLICATION IDENTITY (calls): the call strip with the weights of `fair_strike`, centred at `S*`, pays exactly the
log-contract payoff `f` at its last strike — for any strictly monotone (indeed any consecutive-distinct) strike grid.
Applied to every prefix of the grid: the strip interpolates `f` at EVERY grid strike. -/
theorem vs_call_replicates (tMat sstar : ℝ) (ks : List ℝ) (h : sstar ≠ 0) (hd : Distinct sstar ks) :
    stripAt 1 (lastOf sstar ks) (sstar :: ks) (vsWts 0 (vsF 2 Real.log tMat sstar) true (sstar :: ks))
      = vsF 2 Real.log tMat sstar (lastOf sstar ks) := by
  unfold vsWts
  rw [call_strip_inv _ ks sstar 0 hd, vsF_at_centre tMat sstar h]
  ring

/-- REPLICATION IDENTITY (puts) -/
theorem vs_put_replicates (tMat sstar : ℝ) (ks : List ℝ) (h : sstar ≠ 0) (hd : Distinct sstar ks) :
    stripAt (-1) (lastOf sstar ks) (sstar :: ks) (vsWts 0 (vsF 2 Real.log tMat sstar) false (sstar :: ks))
      = vsF 2 Real.log tMat sstar (lastOf sstar ks) := by
  unfold vsWts
  rw [put_strip_inv _ ks sstar 0 hd, vsF_at_centre tMat sstar h]
  ring

/-- weights of a prefix of the grid are a prefix of the weights (so the two identities hold at every grid strike) -/
theorem vsWtsGo_prefix (fv : ℝ → ℝ) (c : Bool) : ∀ (ks more : List ℝ) (k S : ℝ),
    ∃ tail, vsWtsGo fv c (k :: (ks ++ more)) S = vsWtsGo fv c (k :: ks) S ++ tail
  | [], more, k, S => ⟨vsWtsGo fv c (k :: more) S, by simp [vsWtsGo]⟩
  | kp :: rest, more, k, S => by
      obtain ⟨tail, ht⟩ := vsWtsGo_prefix fv c rest more kp (S + ((fv kp - fv k) / (if c then kp - k else k - kp) - S))
      refine ⟨tail, ?_⟩
      rw [List.cons_append, vsWtsGo_cons_cons, vsWtsGo_cons_cons, ht, List.cons_append]

/-- slope of `f` over the LAST grid interval -/
noncomputable def lastSlope (fv : ℝ → ℝ) (c : Bool) : ℝ → ℝ → List ℝ → ℝ
  | k, kp, [] => (fv kp - fv k) / (if c then kp - k else k - kp)
  | _, kp, kq :: rest => lastSlope fv c kp kq rest

/-- the weights sum to the slope of `f` over the last grid interval (telescoping of `sum_wts`; no hypothesis on the grid) -/
theorem vs_weights_sum (fv : ℝ → ℝ) (c : Bool) : ∀ (rest : List ℝ) (k kp S : ℝ),
    S + (vsWtsGo fv c (k :: kp :: rest) S).sum = lastSlope fv c k kp rest
  | [], k, kp, S => by simp [vsWtsGo, lastSlope]
  | kq :: rest, k, kp, S => by
      rw [vsWtsGo_cons_cons, List.sum_cons, lastSlope]
      have ih := vs_weights_sum fv c rest kp kq (S + ((fv kp - fv k) / (if c then kp - k else k - kp) - S))
      rw [← ih]
      ring

example : Distinct (100 : ℝ) [104, 108, 112] := by
  simp only [Distinct]; norm_num


/-! ### the call weights are non-negative (convexity of `f`) -/

/-- strictly increasing grid -/
def Increasing : ℝ → List ℝ → Prop
  | _, [] => True
  | k, kp :: rest => k < kp ∧ Increasing kp rest

/-- adjacent secant slopes of `fv` are non-decreasing along the grid -/
def SlopesMono (fv : ℝ → ℝ) : ℝ → List ℝ → Prop
  | _, [] => True
  | _, [_] => True
  | k, kp :: kq :: rest => (fv kp - fv k) / (kp - k) ≤ (fv kq - fv kp) / (kq - kp) ∧ SlopesMono fv kp (kq :: rest)

/-- abstract: if the running sum is at most the first secant slope and the secant slopes increase, every call weight is ≥ 0 -/
theorem call_wts_nonneg_of_slopes (fv : ℝ → ℝ) : ∀ (ks : List ℝ) (k S : ℝ),
    (∀ kp rest, ks = kp :: rest → S ≤ (fv kp - fv k) / (kp - k)) → SlopesMono fv k ks →
    ∀ w ∈ vsWtsGo fv true (k :: ks) S, 0 ≤ w
  | [], k, S, _, _ => by simp [vsWtsGo]
  | kp :: rest, k, S, h0, hm => by
      intro w hw
      rw [vsWtsGo_cons_cons] at hw
      simp only [if_true, List.mem_cons] at hw
      have hS := h0 kp rest rfl
      rcases hw with rfl | hw
      · linarith
      · refine call_wts_nonneg_of_slopes fv rest kp _ ?_ ?_ w hw
        · intro kq rest' hr
          subst hr
          have := hm.1
          linarith
        · cases rest with
          | nil => trivial
          | cons kq rest' => exact hm.2

theorem vsF_slope (tMat sstar a b : ℝ) (hs : 0 < sstar) (ha : 0 < a) (hb : 0 < b) (hab : a ≠ b) :
    (vsF 2 Real.log tMat sstar b - vsF 2 Real.log tMat sstar a) / (b - a)
      = (2 / tMat) * (1 / sstar - (Real.log b - Real.log a) / (b - a)) := by
  unfold vsF
  rw [Real.log_div hb.ne' hs.ne', Real.log_div ha.ne' hs.ne']
  have h : b - a ≠ 0 := sub_ne_zero.mpr (Ne.symm hab)
  field_simp
  ring

theorem vsF_slopes_mono (tMat sstar : ℝ) (hT : 0 < tMat) (hs : 0 < sstar) : ∀ (ks : List ℝ) (k : ℝ), 0 < k → Increasing k ks →
    SlopesMono (vsF 2 Real.log tMat sstar) k ks
  | [], _, _, _ => trivial
  | [_], _, _, _ => trivial
  | kp :: kq :: rest, k, hk, hinc => by
      obtain ⟨h1, h2, h3⟩ := hinc
      have hkp : 0 < kp := lt_trans hk h1
      have hkq : 0 < kq := lt_trans hkp h2
      refine ⟨?_, vsF_slopes_mono tMat sstar hT hs (kq :: rest) kp hkp ⟨h2, h3⟩⟩
      rw [vsF_slope tMat sstar k kp hs hk hkp (ne_of_lt h1), vsF_slope tMat sstar kp kq hs hkp hkq (ne_of_lt h2)]
      have hc := strictConcaveOn_log_Ioi.concaveOn.slope_anti_adjacent (Set.mem_Ioi.mpr hk) (Set.mem_Ioi.mpr hkq) h1 h2
      have h2T : 0 < 2 / tMat := by positivity
      nlinarith

/-- the call weights of `fair_strike` are non-negative on any increasing grid starting at `S* > 0` (convexity of `f`) -/
theorem vs_call_weights_nonneg (tMat sstar : ℝ) (ks : List ℝ) (hT : 0 < tMat) (hs : 0 < sstar) (hinc : Increasing sstar ks) :
    ∀ w ∈ vsWts 0 (vsF 2 Real.log tMat sstar) true (sstar :: ks), 0 ≤ w := by
  unfold vsWts
  apply call_wts_nonneg_of_slopes
  · intro kp rest hr
    subst hr
    have hkp : 0 < kp := lt_trans hs hinc.1
    rw [vsF_slope tMat sstar sstar kp hs hs hkp (ne_of_lt hinc.1)]
    -- log kp − log S* ≤ (kp − S*)/S*
    have hl : Real.log kp - Real.log sstar ≤ (kp - sstar) / sstar := by
      rw [← Real.log_div hkp.ne' hs.ne']
      have := Real.log_le_sub_one_of_pos (div_pos hkp hs)
      have e : kp / sstar - 1 = (kp - sstar) / sstar := by field_simp
      linarith
    have hd : 0 < kp - sstar := sub_pos.mpr hinc.1
    have : (Real.log kp - Real.log sstar) / (kp - sstar) ≤ 1 / sstar := by
      rw [div_le_iff₀ hd]
      have e : 1 / sstar * (kp - sstar) = (kp - sstar) / sstar := by ring
      linarith
    have h2T : 0 < 2 / tMat := by positivity
    nlinarith
  · exact vsF_slopes_mono tMat sstar hT hs ks sstar hs hinc

/-! ### cliquet -/

/-- Σ over the future reset dates of `S · dq(t_prev) · bs(τ, r, q)`, the forward-start at-the-money options of the loop -/
noncomputable def cliqSum (bs : ℝ → ℝ → ℝ → ℝ) (s : ℝ) : List (CliqPeriod ℝ) → ℝ → ℝ
  | [], _ => 0
  | (tExp, df, dq, dqMat) :: rest, tPrev =>
      (s * dq) * bs (tExp - tPrev) ((-(Real.log df)) / tExp) ((-(Real.log (dqMat / dq))) / (tExp - tPrev)) + cliqSum bs s rest tExp

/-- the loop computes `acc + Σ_i S·dq_i·bs(1, τ_i, 1, r_i, q_i, σ, type)`: "cliquet = sum of forward-start options" as coded -/
theorem cliquetGo_eq_sum (bs : Int → ℝ → ℝ → ℝ → ℝ) (ty : Int) (hty : ty = 1 ∨ ty = 2) (s : ℝ) :
    ∀ (ps : List (CliqPeriod ℝ)) (tPrev acc : ℝ),
      cliquetGo Real.log bs ty s ps tPrev acc = .ok (acc + cliqSum (bs ty) s ps tPrev)
  | [], tPrev, acc => by simp [cliquetGo, cliqSum]
  | (tExp, df, dq, dqMat) :: rest, tPrev, acc => by
      rcases hty with rfl | rfl
      · simp only [cliquetGo, cliqSum, if_true]
        rw [cliquetGo_eq_sum bs 1 (Or.inl rfl) s rest tExp _]
        congr 1; ring
      · simp only [cliquetGo, cliqSum, show ¬ ((2 : Int) = 1) by decide, if_false, if_true]
        rw [cliquetGo_eq_sum bs 2 (Or.inr rfl) s rest tExp _]
        congr 1; ring

theorem cliquet_eq_sum (bs : Int → ℝ → ℝ → ℝ → ℝ) (ty : Int) (hty : ty = 1 ∨ ty = 2) (s : ℝ) (ps : List (CliqPeriod ℝ)) :
    cliquetValue 0 Real.log bs ty s ps = .ok (cliqSum (bs ty) s ps 0) := by
  unfold cliquetValue
  rw [cliquetGo_eq_sum bs ty hty s ps 0 0, zero_add]

/-- an unknown option type is rejected as soon as there is one future reset date; with none the value is 0 -/
theorem cliquet_unknown_type (bs : Int → ℝ → ℝ → ℝ → ℝ) (ty : Int) (h1 : ty ≠ 1) (h2 : ty ≠ 2) (s : ℝ) (p : CliqPeriod ℝ)
    (ps : List (CliqPeriod ℝ)) :
    cliquetValue 0 Real.log bs ty s (p :: ps) = .error .finError ∧ cliquetValue 0 Real.log bs ty s [] = .ok 0 := by
  obtain ⟨a, b, c, d⟩ := p
  constructor
  · simp [cliquetValue, cliquetGo, h1, h2]
  · simp [cliquetValue, cliquetGo]

/-- linear in the spot -/
theorem cliqSum_linear (bs : ℝ → ℝ → ℝ → ℝ) (lam s : ℝ) : ∀ (ps : List (CliqPeriod ℝ)) (tPrev : ℝ),
    cliqSum bs (lam * s) ps tPrev = lam * cliqSum bs s ps tPrev
  | [], _ => by simp [cliqSum]
  | (tExp, df, dq, dqMat) :: rest, tPrev => by
      simp only [cliqSum]
      rw [cliqSum_linear bs lam s rest tExp]
      ring

/-- a property of the (τ, r, q) triples the loop visits -/
def CliqAll (P : ℝ → ℝ → ℝ → Prop) : List (CliqPeriod ℝ) → ℝ → Prop
  | [], _ => True
  | (tExp, df, dq, dqMat) :: rest, tPrev =>
      P (tExp - tPrev) ((-(Real.log df)) / tExp) ((-(Real.log (dqMat / dq))) / (tExp - tPrev)) ∧ CliqAll P rest tExp

/-- cliquet of calls − cliquet of puts = Σ S·dq_i·D_i whenever each period's call − put is `D` (period-wise parity) -/
theorem cliqSum_parity (bc bp D : ℝ → ℝ → ℝ → ℝ) (s : ℝ) : ∀ (ps : List (CliqPeriod ℝ)) (tPrev : ℝ),
    CliqAll (fun tau r q => bc tau r q - bp tau r q = D tau r q) ps tPrev →
    cliqSum bc s ps tPrev - cliqSum bp s ps tPrev = cliqSum D s ps tPrev
  | [], _, _ => by simp [cliqSum]
  | (tExp, df, dq, dqMat) :: rest, tPrev, h => by
      obtain ⟨h0, hr⟩ := h
      simp only [cliqSum]
      have ih := cliqSum_parity bc bp D s rest tExp hr
      linear_combination (s * dq) * h0 + ih

/-- non-negative if every forward-start option is, for `S ≥ 0` and non-negative dividend discount factors -/
theorem cliqSum_nonneg (bs : ℝ → ℝ → ℝ → ℝ) (s : ℝ) (hs : 0 ≤ s) : ∀ (ps : List (CliqPeriod ℝ)) (tPrev : ℝ),
    CliqAll (fun tau r q => 0 ≤ bs tau r q) ps tPrev → (∀ p ∈ ps, 0 ≤ p.2.2.1) → 0 ≤ cliqSum bs s ps tPrev
  | [], _, _, _ => by simp [cliqSum]
  | (tExp, df, dq, dqMat) :: rest, tPrev, h, hq => by
      obtain ⟨h0, hr⟩ := h
      simp only [cliqSum]
      have hdq : 0 ≤ dq := hq (tExp, df, dq, dqMat) (List.mem_cons_self ..)
      have ih := cliqSum_nonneg bs s hs rest tExp hr (fun p hp => hq p (List.mem_cons_of_mem _ hp))
      have : 0 ≤ s * dq * bs (tExp - tPrev) ((-(Real.log df)) / tExp) ((-(Real.log (dqMat / dq))) / (tExp - tPrev)) :=
        mul_nonneg (mul_nonneg hs hdq) h0
      linarith

/-- the per-period kernel of the implementation: the GENERATED `bs_value(1, τ, 1, r, q, σ, type)` -/
noncomputable def bsUnit (v : ℝ) (ty : Int) (tau r q : ℝ) : ℝ := FinVerif.C05.okVal (FinVerif.Gen.BSR.bs_value 1 tau 1 r q v ty)

open FinVerif.Props.C05 in
/-- cliquet call − cliquet put, with the generated Black–Scholes kernel, under the hypothesis its parity forces
(`d1, d2 ≠ 0` in every period): Σ S·dq_i·(e^{−q_i τ_i} − e^{−r_i τ_i}) (clamps `max(·, 1e-12)` of `bs_value` included) -/
theorem cliquet_call_minus_put (v s : ℝ) (ps : List (CliqPeriod ℝ))
    (h : CliqAll (fun tau r q => d1Of 1 tau 1 r q v ≠ 0 ∧ d2Of 1 tau 1 r q v ≠ 0) ps 0) :
    cliqSum (bsUnit v 1) s ps 0 - cliqSum (bsUnit v 2) s ps 0
      = cliqSum (fun tau r q => ssOf 1 tau q - kkOf 1 tau r) s ps 0 := by
  apply cliqSum_parity
  -- transfer the hypothesis period by period
  have gen : ∀ (ps : List (CliqPeriod ℝ)) (tPrev : ℝ),
      CliqAll (fun tau r q => d1Of 1 tau 1 r q v ≠ 0 ∧ d2Of 1 tau 1 r q v ≠ 0) ps tPrev →
      CliqAll (fun tau r q => bsUnit v 1 tau r q - bsUnit v 2 tau r q = ssOf 1 tau q - kkOf 1 tau r) ps tPrev := by
    intro ps
    induction ps with
    | nil => intro _ _; trivial
    | cons p rest ih =>
        obtain ⟨a, b, c, d⟩ := p
        intro tPrev hh
        exact ⟨bs_put_call_parity_partial 1 _ 1 _ _ v hh.1.1 hh.1.2, ih a hh.2⟩
  exact gen ps 0 h

end FinVerif.Props.C11h
