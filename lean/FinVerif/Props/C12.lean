/-
  C12 — no-arbitrage ordering on the CRR lattice and the projection step, proved for the hand model
  `FinVerif/Model/C12.lean` at ℝ: every step count, every exercise schedule, every terminal layer.
  Convergence of the schemes to the analytic price is NOT a theorem (validated numerically only).
-/
import FinVerif.Model.C12
import Mathlib.Data.Real.Basic
import Mathlib.Tactic.Linarith
import Mathlib.Tactic.Ring
import Mathlib.Tactic.FieldSimp
import Mathlib.Tactic.Positivity
import Mathlib.Algebra.Order.Field.Basic

namespace FinVerif.Props.C12
open FinVerif FinVerif.Model.C12

theorem maxG_eq_max (a b : ℝ) : maxG a b = max a b := by
  unfold maxG
  split
  · rw [max_eq_right (le_of_lt (by assumption))]
  · rw [max_eq_left (le_of_not_gt (by assumption))]

/-- C12 `crr_prob_in_unit_interval_iff`: with `d < u`, the CRR weight `(a − d)/(u − d)` is a probability
exactly when `d ≤ a ≤ u` (`a = e^{(r−q)dt}`); outside it the code computes with a negative weight. -/
theorem crr_prob_in_unit_interval_iff (a u d : ℝ) (h : d < u) :
    (0 ≤ (a - d) / (u - d) ∧ (a - d) / (u - d) ≤ 1) ↔ (d ≤ a ∧ a ≤ u) := by
  have hpos : 0 < u - d := by linarith
  rw [div_nonneg_iff, div_le_one hpos]
  constructor
  · rintro ⟨h1 | h1, h2⟩
    · exact ⟨by linarith [h1.1], by linarith⟩
    · exact absurd h1.2 (by linarith)
  · rintro ⟨h1, h2⟩
    exact ⟨Or.inl ⟨by linarith, le_of_lt hpos⟩, by linarith⟩

/-- pointwise order on lists of the same shape -/
abbrev LE2 (x y : List ℝ) : Prop := List.Forall₂ (· ≤ ·) x y

/-- The backward operator is monotone, and the early-exercise max only increases values. -/
theorem stepFrom_mono (p df : ℝ) (hp0 : 0 ≤ p) (hp1 : p ≤ 1) (hdf : 0 ≤ df) (ex : ℕ → ℝ) (j : ℕ)
    (v w : List ℝ) (h : LE2 v w) :
    LE2 (stepFrom false p df ex j v) (stepFrom true p df ex j w) := by
  induction h generalizing j with
  | nil => simp [stepFrom]
  | @cons a b v' w' hab hrest ih =>
    cases hrest with
    | nil => simp [stepFrom]
    | @cons a2 b2 v'' w'' hab2 hrest2 =>
      simp only [stepFrom, Bool.false_eq_true, if_false, if_true]
      refine List.Forall₂.cons ?_ (ih (j + 1))
      rw [maxG_eq_max]
      have h1 : df * (p * a2 + (1 - p) * a) ≤ df * (p * b2 + (1 - p) * b) := by
        apply mul_le_mul_of_nonneg_left _ hdf
        have := mul_le_mul_of_nonneg_left hab2 hp0
        have := mul_le_mul_of_nonneg_left hab (by linarith : (0:ℝ) ≤ 1 - p)
        linarith
      exact le_trans h1 (le_max_right _ _)

/-- C12 `american_ge_european`: on the same lattice (any `n`, any exercise values, probabilities in [0,1],
non-negative discount factor) every American node value dominates the European one. -/
theorem american_ge_european (p df : ℝ) (hp0 : 0 ≤ p) (hp1 : p ≤ 1) (hdf : 0 ≤ df) (ex : ℕ → ℕ → ℝ)
    (n : ℕ) (v w : List ℝ) (h : LE2 v w) :
    LE2 (rollDown false p df ex n v) (rollDown true p df ex n w) := by
  induction n generalizing v w with
  | zero => simpa [rollDown] using h
  | succ k ih =>
    simp only [rollDown]
    exact ih _ _ (stepFrom_mono p df hp0 hp1 hdf (ex k) 0 v w h)

/-- the CRR instance: American price ≥ European price for the same inputs. -/
theorem crr_american_ge_european (isCall : Bool) (s0 strike u d p df : ℝ) (hp0 : 0 ≤ p) (hp1 : p ≤ 1)
    (hdf : 0 ≤ df) (n : ℕ) :
    LE2 (crrValues false isCall s0 strike u d p df n) (crrValues true isCall s0 strike u d p df n) := by
  unfold crrValues
  apply american_ge_european p df hp0 hp1 hdf
  exact List.forall₂_same.mpr (fun _ _ => le_refl _)

/-- every value produced by an American step dominates the exercise value of its node -/
theorem stepFrom_ge_exercise (p df : ℝ) (ex : ℕ → ℝ) (j : ℕ) (v : List ℝ) (t : ℕ) (x : ℝ)
    (h : (stepFrom true p df ex j v)[t]? = some x) : ex (j + t) ≤ x := by
  induction v generalizing j t with
  | nil => simp [stepFrom] at h
  | cons a v' ih =>
    cases v' with
    | nil => simp [stepFrom] at h
    | cons b v'' =>
      simp only [stepFrom, if_true] at h
      cases t with
      | zero =>
        simp at h; subst h
        rw [maxG_eq_max]; simp
      | succ t' =>
        simp only [List.getElem?_cons_succ] at h
        have := ih (j + 1) t' h
        rwa [show j + 1 + t' = j + (t' + 1) by omega] at this

theorem rollDown_succ_last (amer : Bool) (p df : ℝ) (ex : ℕ → ℕ → ℝ) (k : ℕ) (v : List ℝ) :
    ∃ w, rollDown amer p df ex (k + 1) v = stepFrom amer p df (ex 0) 0 w := by
  induction k generalizing v with
  | zero => exact ⟨v, by simp [rollDown]⟩
  | succ k ih =>
    obtain ⟨w, hw⟩ := ih (stepFrom amer p df (ex (k + 1)) 0 v)
    exact ⟨w, by rw [← hw]; simp [rollDown]⟩

/-- C12 `american_ge_intrinsic`: with at least one step, the American value at the root (and every value
of the root layer) is at least the exercise value there. -/
theorem american_ge_intrinsic (p df : ℝ) (ex : ℕ → ℕ → ℝ) (k : ℕ) (v : List ℝ) (t : ℕ) (x : ℝ)
    (h : (rollDown true p df ex (k + 1) v)[t]? = some x) : ex 0 t ≤ x := by
  obtain ⟨w, hw⟩ := rollDown_succ_last true p df ex k v
  rw [hw] at h
  simpa using stepFrom_ge_exercise p df (ex 0) 0 w t x h

theorem stepFrom_nonneg (amer : Bool) (p df : ℝ) (hp0 : 0 ≤ p) (hp1 : p ≤ 1) (hdf : 0 ≤ df) (ex : ℕ → ℝ) (j : ℕ)
    (v : List ℝ) (h : ∀ x ∈ v, 0 ≤ x) : ∀ x ∈ stepFrom amer p df ex j v, 0 ≤ x := by
  induction v generalizing j with
  | nil => simp [stepFrom]
  | cons a v' ih =>
    cases v' with
    | nil => simp [stepFrom]
    | cons b v'' =>
      intro x hx
      simp only [stepFrom, List.mem_cons] at hx
      have ha : 0 ≤ a := h a (by simp)
      have hb : 0 ≤ b := h b (by simp)
      have hhold : 0 ≤ df * (p * b + (1 - p) * a) := by
        have : 0 ≤ 1 - p := by linarith
        positivity
      rcases hx with hx | hx
      · subst hx
        split
        · rw [maxG_eq_max]; exact le_trans hhold (le_max_right _ _)
        · exact hhold
      · exact ih (j + 1) (fun y hy => h y (List.mem_cons_of_mem _ hy)) x hx

/-- C12 `european_ge_0` (and American): non-negative terminal values stay non-negative through the tree. -/
theorem tree_values_nonneg (amer : Bool) (p df : ℝ) (hp0 : 0 ≤ p) (hp1 : p ≤ 1) (hdf : 0 ≤ df) (ex : ℕ → ℕ → ℝ)
    (n : ℕ) (v : List ℝ) (h : ∀ x ∈ v, 0 ≤ x) : ∀ x ∈ rollDown amer p df ex n v, 0 ≤ x := by
  induction n generalizing v with
  | zero => simpa [rollDown] using h
  | succ k ih =>
    simp only [rollDown]
    exact ih _ (stepFrom_nonneg amer p df hp0 hp1 hdf (ex k) 0 v h)

theorem payoff_nonneg (isCall : Bool) (k s : ℝ) : 0 ≤ payoff isCall k s := by
  unfold payoff
  split <;> rw [maxG_eq_max] <;> exact le_max_right _ _

/-- the CRR instance of `european_ge_0` -/
theorem crr_values_nonneg (amer isCall : Bool) (s0 strike u d p df : ℝ) (hp0 : 0 ≤ p) (hp1 : p ≤ 1)
    (hdf : 0 ≤ df) (n : ℕ) : ∀ x ∈ crrValues amer isCall s0 strike u d p df n, 0 ≤ x := by
  unfold crrValues
  apply tree_values_nonneg amer p df hp0 hp1 hdf
  intro x hx
  simp only [List.mem_map] at hx
  obtain ⟨s, _, rfl⟩ := hx
  exact payoff_nonneg isCall strike s

/-- C12 `psor_projection_ge_intrinsic`: after the projection `res[res < payoff] = payoff` every entry
dominates the payoff (and the solver's value). -/
theorem psor_projection_ge_intrinsic (res pay : List ℝ) (hlen : res.length = pay.length) :
    List.Forall₂ (· ≤ ·) pay (project res pay) ∧ List.Forall₂ (· ≤ ·) res (project res pay) := by
  induction res generalizing pay with
  | nil =>
    cases pay with
    | nil => simp [project]
    | cons _ _ => simp at hlen
  | cons r rs ih =>
    cases pay with
    | nil => simp at hlen
    | cons g gs =>
      have := ih gs (by simpa using hlen)
      simp only [project]
      refine ⟨List.Forall₂.cons ?_ this.1, List.Forall₂.cons ?_ this.2⟩
      · split
        · exact le_refl _
        · exact le_of_not_gt (by assumption)
      · split
        · exact le_of_lt (by assumption)
        · exact le_refl _

/-- non-vacuity: a one-step tree with p = 1/2, df = 1: European put value 1/2·max(K−S d,0)+… and the
American value dominates. -/
example : LE2 (crrValues false false 1 1 2 (1/2) (1/2) 1 1) (crrValues true false 1 1 2 (1/2) (1/2) 1 1) :=
  crr_american_ge_european false 1 1 2 (1/2) (1/2) 1 (by norm_num) (by norm_num) (by norm_num) 1

end FinVerif.Props.C12
