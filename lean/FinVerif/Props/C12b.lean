/-
  C12 (part b) — the CRR lattice of `equity_crr_tree.crr_tree_val` as coded (hand model `Model/C12.lean`, tied to the
  compiled function by the correspondence harness): exact statements for EVERY step count, proved by induction over the
  roll-back.  The list-level model (`stepFrom`, `rollDown`, `crrValues`) is first shown equal to a roll-back on
  node-indexed functions (`stepFn`, `rollFn`: bridge theorems `rollDown_map_range`, `crrValues_eq`), then:
  European value = discounted binomial expectation (closed form with binomial coefficients), put–call parity of the
  European tree values, monotonicity / 1-Lipschitz / convexity in the payoff and the strike, American = European when the
  exercise values are a discounted sub-martingale (calls without dividends and r ≥ 0; puts with r ≤ 0 and q ≥ 0),
  value bounds (call ≤ spot, put ≤ strike).  Convergence to the analytic value is NOT a theorem.
-/
import FinVerif.Props.C12
import Mathlib.Algebra.BigOperators.Intervals
import Mathlib.Data.Nat.Choose.Sum
import Mathlib.Tactic.NormNum
import Mathlib.Analysis.SpecialFunctions.Exp

namespace FinVerif.Props.C12
open FinVerif FinVerif.Model.C12
open Finset

/-- one backward step on node-indexed functions -/
noncomputable def stepFn (amer : Bool) (p df : ℝ) (ex : ℕ → ℝ) (f : ℕ → ℝ) : ℕ → ℝ := fun t =>
  if amer then maxG (ex t) (df * (p * f (t + 1) + (1 - p) * f t)) else df * (p * f (t + 1) + (1 - p) * f t)

noncomputable def rollFn (amer : Bool) (p df : ℝ) (ex : ℕ → ℕ → ℝ) : ℕ → (ℕ → ℝ) → ℕ → ℝ
  | 0, f => f
  | k + 1, f => rollFn amer p df ex k (stepFn amer p df (ex k) f)

theorem stepFrom_map_range (amer : Bool) (p df : ℝ) (ex : ℕ → ℝ) (j s m : ℕ) (f : ℕ → ℝ) :
    stepFrom amer p df ex j ((List.range' s (m + 1)).map f) =
      (List.range' s m).map (stepFn amer p df (fun t => ex (j + t - s)) f) := by
  induction m generalizing s j with
  | zero => simp [stepFrom]
  | succ m ih =>
    have h := ih (j + 1) (s + 1)
    rw [List.range'_succ, List.map_cons] at h
    rw [List.range'_succ, List.range'_succ, List.map_cons, List.map_cons]
    simp only [stepFrom]
    rw [h, List.range'_succ (n := m), List.map_cons]
    congr 1
    · simp [stepFn]
    · apply List.map_congr_left
      intro i hi
      have hi' : s + 1 ≤ i := by
        rw [List.mem_range'_1] at hi; exact hi.1
      simp only [stepFn]
      have e : j + 1 + i - (s + 1) = j + i - s := by omega
      rw [e]

theorem rollDown_map_range (amer : Bool) (p df : ℝ) (ex : ℕ → ℕ → ℝ) (n m : ℕ) (f : ℕ → ℝ) :
    rollDown amer p df ex n ((List.range' 0 (m + n + 1)).map f) =
      (List.range' 0 (m + 1)).map (rollFn amer p df ex n f) := by
  induction n generalizing f with
  | zero => simp [rollDown, rollFn]
  | succ n ih =>
    simp only [rollDown, rollFn]
    have h := stepFrom_map_range amer p df (ex n) 0 0 (m + n + 1) f
    rw [show m + (n + 1) + 1 = m + n + 1 + 1 by ring, h]
    simp only [Nat.zero_add, Nat.sub_zero]
    exact ih _


/-- `rollFn … n f t` only reads `f` on `t … t+n` and `ex i j` on `j ≤ i + t`-type cones: two problems that agree on
the cone below `m` give the same values at the nodes `t ≤ m` of the root layer. -/
theorem rollFn_congr (amer : Bool) (p df : ℝ) (ex ex' : ℕ → ℕ → ℝ) (n m : ℕ) (f g : ℕ → ℝ)
    (hex : ∀ i j, i < n → j ≤ i + m → ex i j = ex' i j) (hf : ∀ j, j ≤ n + m → f j = g j) :
    ∀ t, t ≤ m → rollFn amer p df ex n f t = rollFn amer p df ex' n g t := by
  induction n generalizing f g with
  | zero => intro t ht; simp only [rollFn]; exact hf t (by omega)
  | succ n ih =>
    intro t ht
    simp only [rollFn]
    apply ih _ _ (fun i j hi hj => hex i j (by omega) hj) _ t ht
    intro j hj
    simp only [stepFn]
    rw [hf j (by omega), hf (j + 1) (by omega), hex n j (by omega) hj]

theorem sLow_eq (d : ℝ) (i : ℕ) (s : ℝ) : sLow d i s = s * d ^ i := by
  induction i generalizing s with
  | zero => simp [sLow]
  | succ i ih => simp only [sLow]; rw [ih]; ring

theorem layer_eq (uu : ℝ) (k : ℕ) (s : ℝ) :
    layer uu k s = (List.range' 0 (k + 1)).map (fun j => s * uu ^ j) := by
  induction k generalizing s with
  | zero => simp [layer]
  | succ k ih =>
    simp only [layer]
    rw [ih, List.range'_succ (s := 0) (n := k + 1), List.map_cons, ← List.map_add_range' (a := 1) (s := 0) (n := k + 1) (step := 1), List.map_map]
    simp only [pow_zero, mul_one]
    congr 1
    apply List.map_congr_left
    intro j _
    simp only [Function.comp]
    rw [pow_add]; ring

/-- exercise values of the CRR lattice as a function of (layer, node): `payoff(K, s0·dⁱ·(u·u)ʲ)` -/
noncomputable def crrExFn (isCall : Bool) (strike s0 u d : ℝ) : ℕ → ℕ → ℝ :=
  fun i j => payoff isCall strike (s0 * d ^ i * (u * u) ^ j)

theorem crrEx_eq (isCall : Bool) (strike s0 u d : ℝ) (i j : ℕ) (h : j ≤ i) :
    crrEx isCall strike s0 u d i j = crrExFn isCall strike s0 u d i j := by
  simp only [crrEx, crrExFn, layer_eq, sLow_eq]
  congr 1
  simp [Nat.lt_succ_of_le h]

/-- The model's root layer is the function-level roll-back evaluated at node 0. -/
theorem crrValues_eq (amer isCall : Bool) (s0 strike u d p df : ℝ) (n : ℕ) :
    crrValues amer isCall s0 strike u d p df n =
      [rollFn amer p df (crrExFn isCall strike s0 u d) n (crrExFn isCall strike s0 u d n) 0] := by
  unfold crrValues
  simp only [layer_eq, sLow_eq, List.map_map]
  have h := rollDown_map_range amer p df (crrEx isCall strike s0 u d) n 0
    (payoff isCall strike ∘ fun j => s0 * d ^ n * (u * u) ^ j)
  simp only [Nat.zero_add] at h
  rw [h]
  simp only [List.range'_one, List.map_cons, List.map_nil]
  congr 1
  apply rollFn_congr _ _ _ _ _ n 0 _ _ _ _ 0 (le_refl 0)
  · intro i j _ hj; exact crrEx_eq _ _ _ _ _ _ _ (by omega)
  · intro j _; simp [crrExFn]

theorem pascal_sum (p q : ℝ) (n : ℕ) (g : ℕ → ℝ) :
    ∑ k ∈ range (n + 1), (n.choose k : ℝ) * p ^ k * q ^ (n - k) * (p * g (k + 1) + q * g k) =
    ∑ k ∈ range (n + 2), ((n + 1).choose k : ℝ) * p ^ k * q ^ (n + 1 - k) * g k := by
  have hA : ∑ k ∈ range (n + 1), (n.choose k : ℝ) * p ^ k * q ^ (n - k) * (q * g k)
      = ∑ k ∈ range (n + 1), (n.choose (k+1) : ℝ) * p ^ (k+1) * q ^ (n - k) * g (k+1) + q ^ (n+1) * g 0 := by
    rw [Finset.sum_range_succ' (fun k => (n.choose k : ℝ) * p ^ k * q ^ (n - k) * (q * g k))]
    rw [Finset.sum_range_succ (fun k => (n.choose (k+1) : ℝ) * p ^ (k+1) * q ^ (n - k) * g (k+1))]
    simp only [Nat.choose_succ_self, Nat.cast_zero, zero_mul, add_zero, Nat.choose_zero_right, Nat.cast_one,
      pow_zero, one_mul, Nat.sub_zero]
    congr 1
    · apply Finset.sum_congr rfl
      intro k hk
      have : n - k = (n - (k+1)) + 1 := by have := Finset.mem_range.mp hk; omega
      rw [this, pow_succ]; ring
    · ring
  rw [Finset.sum_range_succ' (fun k => ((n + 1).choose k : ℝ) * p ^ k * q ^ (n + 1 - k) * g k)]
  simp only [mul_add, Finset.sum_add_distrib]
  rw [hA, ← add_assoc, ← Finset.sum_add_distrib]
  simp only [Nat.choose_zero_right, Nat.cast_one, pow_zero, one_mul, Nat.sub_zero, mul_one]
  congr 1
  apply Finset.sum_congr rfl
  intro k _
  rw [Nat.choose_succ_succ, Nat.add_sub_add_right]
  push_cast
  ring

/-- C12 `european_tree = discounted binomial sum`: for EVERY step count `n`, every terminal layer `f` and every node
`t` of the root layer, the European roll-back equals `dfⁿ · Σₖ C(n,k) pᵏ (1−p)ⁿ⁻ᵏ f(t+k)`. -/
theorem rollFn_european_binomial (p df : ℝ) (ex : ℕ → ℕ → ℝ) (n : ℕ) (f : ℕ → ℝ) (t : ℕ) :
    rollFn false p df ex n f t =
      df ^ n * ∑ k ∈ range (n + 1), (n.choose k : ℝ) * p ^ k * (1 - p) ^ (n - k) * f (t + k) := by
  induction n generalizing f with
  | zero => simp [rollFn]
  | succ n ih =>
    simp only [rollFn]
    rw [ih]
    simp only [stepFn, Bool.false_eq_true, if_false]
    have h := pascal_sum p (1 - p) n (fun k => f (t + k))
    simp only [← add_assoc] at h
    rw [← h, pow_succ, mul_assoc, Finset.mul_sum (a := df)]
    congr 1
    apply Finset.sum_congr rfl
    intro k _
    ring

/-- the same for the code's lattice: the European `crr_tree_val` model value is the discounted binomial expectation
of the payoff over the terminal prices `s0·dⁿ·(u·u)ᵏ`. -/
theorem crr_european_eq_binomial_sum (isCall : Bool) (s0 strike u d p df : ℝ) (n : ℕ) :
    crrValues false isCall s0 strike u d p df n =
      [df ^ n * ∑ k ∈ range (n + 1), (n.choose k : ℝ) * p ^ k * (1 - p) ^ (n - k) *
        payoff isCall strike (s0 * d ^ n * (u * u) ^ k)] := by
  rw [crrValues_eq, rollFn_european_binomial]
  simp [crrExFn]


/-! ### linearity of the European roll-back, put–call parity on the tree -/

theorem rollFn_european_ex (p df : ℝ) (ex ex' : ℕ → ℕ → ℝ) (n : ℕ) (f : ℕ → ℝ) :
    rollFn false p df ex n f = rollFn false p df ex' n f := by
  induction n generalizing f with
  | zero => rfl
  | succ n ih => simp only [rollFn]; rw [ih]; rfl

theorem rollFn_european_sub (p df : ℝ) (ex : ℕ → ℕ → ℝ) (n : ℕ) (f g : ℕ → ℝ) (t : ℕ) :
    rollFn false p df ex n (fun j => f j - g j) t = rollFn false p df ex n f t - rollFn false p df ex n g t := by
  induction n generalizing f g with
  | zero => simp [rollFn]
  | succ n ih =>
    simp only [rollFn]
    rw [← ih]
    congr 1
    funext j
    simp only [stepFn, Bool.false_eq_true, if_false]
    ring

/-- a geometric layer `c·wʲ` is an eigenvector of the European step: factor `df·(p·w + 1 − p)` per step. -/
theorem rollFn_european_geometric (p df : ℝ) (ex : ℕ → ℕ → ℝ) (n : ℕ) (c w : ℝ) (t : ℕ) :
    rollFn false p df ex n (fun j => c * w ^ j) t = (df * (p * w + (1 - p))) ^ n * (c * w ^ t) := by
  induction n generalizing c with
  | zero => simp [rollFn]
  | succ n ih =>
    simp only [rollFn]
    have : stepFn false p df (ex n) (fun j => c * w ^ j) = fun j => (df * (p * w + (1 - p)) * c) * w ^ j := by
      funext j
      simp only [stepFn, Bool.false_eq_true, if_false]
      ring
    rw [this, ih]
    ring

theorem rollFn_european_const (p df : ℝ) (ex : ℕ → ℕ → ℝ) (n : ℕ) (c : ℝ) (t : ℕ) :
    rollFn false p df ex n (fun _ => c) t = df ^ n * c := by
  have h := rollFn_european_geometric p df ex n c 1 t
  simp only [one_pow, mul_one] at h
  rw [h]
  congr 2
  ring

theorem payoff_call_sub_put (k s : ℝ) : payoff true k s - payoff false k s = s - k := by
  simp only [payoff, if_true, Bool.false_eq_true, if_false, maxG_eq_max]
  rcases le_total s k with h | h
  · rw [max_eq_right (by linarith), max_eq_left (by linarith)]; ring
  · rw [max_eq_left (by linarith), max_eq_right (by linarith)]; ring

/-- the CRR weight is the risk-neutral probability: `p·u + (1−p)·d = a` for `p = (a−d)/(u−d)`. -/
theorem crr_prob_martingale (a u d : ℝ) (h : u ≠ d) :
    (a - d) / (u - d) * u + (1 - (a - d) / (u - d)) * d = a := by
  have : u - d ≠ 0 := sub_ne_zero.mpr h
  field_simp
  ring

/-- C12 put–call parity of the European TREE values, exact for EVERY step count `n` (no convergence involved): with
`u·d = 1` (the code sets `d = 1/u`) and the risk-neutral weight (`p·u + (1−p)·d = a`), on the lattice
`call − put = s0·(df·a)ⁿ − K·dfⁿ`. -/
theorem crr_tree_put_call_parity (s0 strike u d p df a : ℝ) (n : ℕ) (hud : u * d = 1)
    (hp : p * u + (1 - p) * d = a) :
    ∃ c pt, crrValues false true s0 strike u d p df n = [c] ∧ crrValues false false s0 strike u d p df n = [pt] ∧
      c - pt = s0 * (df * a) ^ n - strike * df ^ n := by
  refine ⟨_, _, crrValues_eq _ _ _ _ _ _ _ _ _, crrValues_eq _ _ _ _ _ _ _ _ _, ?_⟩
  rw [rollFn_european_ex p df (crrExFn false strike s0 u d) (crrExFn true strike s0 u d), ← rollFn_european_sub]
  have : (fun j => crrExFn true strike s0 u d n j - crrExFn false strike s0 u d n j)
      = fun j => (s0 * d ^ n) * (u * u) ^ j - strike := by
    funext j; simp only [crrExFn]; exact payoff_call_sub_put _ _
  rw [this, rollFn_european_sub, rollFn_european_geometric, rollFn_european_const]
  have e : d ^ n * (df * (p * (u * u) + (1 - p))) ^ n = (df * a) ^ n := by
    rw [← mul_pow]
    congr 1
    rw [← hp]
    have : d * (df * (p * (u * u) + (1 - p))) = df * (p * u * (u * d) + (1 - p) * d) := by ring
    rw [this, hud]; ring
  simp only [pow_zero, mul_one]
  rw [← e]; ring


/-! ### order structure preserved by the roll-back (European and American alike) -/

theorem hold_mono (p df : ℝ) (hp0 : 0 ≤ p) (hp1 : p ≤ 1) (hdf : 0 ≤ df) {a b a' b' : ℝ} (ha : a ≤ a') (hb : b ≤ b') :
    df * (p * a + (1 - p) * b) ≤ df * (p * a' + (1 - p) * b') := by
  apply mul_le_mul_of_nonneg_left _ hdf
  have := mul_le_mul_of_nonneg_left ha hp0
  have := mul_le_mul_of_nonneg_left hb (by linarith : (0:ℝ) ≤ 1 - p)
  linarith

/-- C12 monotonicity of tree values in the payoff: pointwise order of terminal layers and of exercise values is
preserved by the roll-back (any `n`, European or American). -/
theorem rollFn_mono (amer : Bool) (p df : ℝ) (hp0 : 0 ≤ p) (hp1 : p ≤ 1) (hdf : 0 ≤ df) (ex ex' : ℕ → ℕ → ℝ)
    (hex : ∀ i j, ex i j ≤ ex' i j) (n : ℕ) (f g : ℕ → ℝ) (hfg : ∀ j, f j ≤ g j) :
    ∀ t, rollFn amer p df ex n f t ≤ rollFn amer p df ex' n g t := by
  induction n generalizing f g with
  | zero => simpa [rollFn] using hfg
  | succ n ih =>
    simp only [rollFn]
    apply ih
    intro j
    simp only [stepFn]
    have hh := hold_mono p df hp0 hp1 hdf (hfg (j + 1)) (hfg j)
    split
    · rw [maxG_eq_max, maxG_eq_max]; exact max_le_max (hex n j) hh
    · exact hh

/-- 1-Lipschitz: shifting terminal layer and exercise values by a constant `c ≥ 0` moves every tree value by at most
`c` (needs `df ≤ 1`, i.e. `r ≥ 0`; for European values the shift is even `dfⁿ·c`). -/
theorem rollFn_add_const (amer : Bool) (p df : ℝ) (hp0 : 0 ≤ p) (hp1 : p ≤ 1) (hdf : 0 ≤ df) (hdf1 : df ≤ 1)
    (c : ℝ) (hc : 0 ≤ c) (ex ex' : ℕ → ℕ → ℝ) (hex : ∀ i j, ex i j ≤ ex' i j + c) (n : ℕ) (f g : ℕ → ℝ)
    (hfg : ∀ j, f j ≤ g j + c) : ∀ t, rollFn amer p df ex n f t ≤ rollFn amer p df ex' n g t + c := by
  induction n generalizing f g with
  | zero => simpa [rollFn] using hfg
  | succ n ih =>
    simp only [rollFn]
    apply ih
    intro j
    simp only [stepFn]
    have hh := hold_mono p df hp0 hp1 hdf (hfg (j + 1)) (hfg j)
    have h2 : df * (p * (g (j + 1) + c) + (1 - p) * (g j + c)) ≤ df * (p * g (j + 1) + (1 - p) * g j) + c := by
      have : df * c ≤ c := by nlinarith
      nlinarith
    split
    · rw [maxG_eq_max, maxG_eq_max, ← max_add_add_right]
      exact max_le_max (hex n j) (le_trans hh h2)
    · exact le_trans hh h2

/-- convexity is preserved: if terminal layer and exercise values of a "middle" problem lie below the `lam`-mixture
of two others, so does every tree value. -/
theorem rollFn_convex (amer : Bool) (p df : ℝ) (hp0 : 0 ≤ p) (hp1 : p ≤ 1) (hdf : 0 ≤ df) (lam : ℝ) (hl0 : 0 ≤ lam)
    (hl1 : lam ≤ 1) (ex1 ex2 exm : ℕ → ℕ → ℝ) (hex : ∀ i j, exm i j ≤ lam * ex1 i j + (1 - lam) * ex2 i j) (n : ℕ)
    (f1 f2 fm : ℕ → ℝ) (hf : ∀ j, fm j ≤ lam * f1 j + (1 - lam) * f2 j) :
    ∀ t, rollFn amer p df exm n fm t ≤ lam * rollFn amer p df ex1 n f1 t + (1 - lam) * rollFn amer p df ex2 n f2 t := by
  induction n generalizing f1 f2 fm with
  | zero => simpa [rollFn] using hf
  | succ n ih =>
    simp only [rollFn]
    apply ih
    intro j
    simp only [stepFn]
    have hh := hold_mono p df hp0 hp1 hdf (hf (j + 1)) (hf j)
    have e : df * (p * (lam * f1 (j + 1) + (1 - lam) * f2 (j + 1)) + (1 - p) * (lam * f1 j + (1 - lam) * f2 j))
        = lam * (df * (p * f1 (j + 1) + (1 - p) * f1 j)) + (1 - lam) * (df * (p * f2 (j + 1) + (1 - p) * f2 j)) := by
      ring
    rw [e] at hh
    have hl : 0 ≤ 1 - lam := by linarith
    split
    · rw [maxG_eq_max, maxG_eq_max, maxG_eq_max]
      apply max_le
      · refine le_trans (hex n j) (add_le_add (mul_le_mul_of_nonneg_left (le_max_left _ _) hl0)
          (mul_le_mul_of_nonneg_left (le_max_left _ _) hl))
      · refine le_trans hh (add_le_add (mul_le_mul_of_nonneg_left (le_max_right _ _) hl0)
          (mul_le_mul_of_nonneg_left (le_max_right _ _) hl))
    · exact hh

/-- C12 "equals the European value when early exercise is never optimal", on the tree, from the roll-back inequality:
if the exercise values are a discounted sub-martingale on the lattice (`ex i j ≤ df·(p·ex (i+1) (j+1) + (1−p)·ex (i+1) j)`)
and the terminal layer dominates the exercise values, the early-exercise max never binds: American = European at
every node, for every step count. -/
theorem rollFn_no_early_exercise (p df : ℝ) (hp0 : 0 ≤ p) (hp1 : p ≤ 1) (hdf : 0 ≤ df) (ex : ℕ → ℕ → ℝ)
    (hsub : ∀ i j, ex i j ≤ df * (p * ex (i + 1) (j + 1) + (1 - p) * ex (i + 1) j)) (n : ℕ) (f : ℕ → ℝ)
    (hf : ∀ j, ex n j ≤ f j) : rollFn true p df ex n f = rollFn false p df ex n f := by
  induction n generalizing f with
  | zero => rfl
  | succ n ih =>
    simp only [rollFn]
    have hge : ∀ j, ex n j ≤ df * (p * f (j + 1) + (1 - p) * f j) := fun j =>
      le_trans (hsub n j) (hold_mono p df hp0 hp1 hdf (hf (j + 1)) (hf j))
    have : stepFn true p df (ex n) f = stepFn false p df (ex n) f := by
      funext j
      simp only [stepFn, if_true, Bool.false_eq_true, if_false, maxG_eq_max]
      exact max_eq_right (hge j)
    rw [this]
    apply ih
    intro j
    simp only [stepFn, Bool.false_eq_true, if_false]
    exact hge j

/-- super-martingale bound: a family `B i j` that dominates the exercise values, the terminal layer and its own
discounted expectation dominates every tree value. -/
theorem rollFn_le_of_supermartingale (amer : Bool) (p df : ℝ) (hp0 : 0 ≤ p) (hp1 : p ≤ 1) (hdf : 0 ≤ df)
    (ex B : ℕ → ℕ → ℝ) (hB : ∀ i j, df * (p * B (i + 1) (j + 1) + (1 - p) * B (i + 1) j) ≤ B i j)
    (hex : ∀ i j, ex i j ≤ B i j) (n : ℕ) (f : ℕ → ℝ) (hf : ∀ j, f j ≤ B n j) :
    ∀ t, rollFn amer p df ex n f t ≤ B 0 t := by
  induction n generalizing f with
  | zero => simpa [rollFn] using hf
  | succ n ih =>
    simp only [rollFn]
    apply ih
    intro j
    simp only [stepFn]
    have hh := le_trans (hold_mono p df hp0 hp1 hdf (hf (j + 1)) (hf j)) (hB n j)
    split
    · rw [maxG_eq_max]; exact max_le (hex n j) hh
    · exact hh


/-! ### the CRR lattice of the code: instances -/

/-- the root value of the model (`crr_tree_val(...)[0]` is `(crrValues …).headD 0`) -/
noncomputable def crrRoot (amer isCall : Bool) (s0 strike u d p df : ℝ) (n : ℕ) : ℝ :=
  rollFn amer p df (crrExFn isCall strike s0 u d) n (crrExFn isCall strike s0 u d n) 0

theorem crrValues_eq_root (amer isCall : Bool) (s0 strike u d p df : ℝ) (n : ℕ) :
    crrValues amer isCall s0 strike u d p df n = [crrRoot amer isCall s0 strike u d p df n] :=
  crrValues_eq _ _ _ _ _ _ _ _ _

theorem crrValues_headD (amer isCall : Bool) (s0 strike u d p df : ℝ) (n : ℕ) :
    (crrValues amer isCall s0 strike u d p df n).headD 0 = crrRoot amer isCall s0 strike u d p df n := by
  rw [crrValues_eq_root]; rfl

theorem crr_node_up (s0 u d : ℝ) (hud : u * d = 1) (i j : ℕ) :
    s0 * d ^ (i + 1) * (u * u) ^ (j + 1) = s0 * d ^ i * (u * u) ^ j * u := by
  have : s0 * d ^ (i + 1) * (u * u) ^ (j + 1) = s0 * d ^ i * (u * u) ^ j * u * (u * d) := by ring
  rw [this, hud, mul_one]

theorem crr_node_dn (s0 u d : ℝ) (i j : ℕ) :
    s0 * d ^ (i + 1) * (u * u) ^ j = s0 * d ^ i * (u * u) ^ j * d := by ring

theorem crr_node_nonneg (s0 u d : ℝ) (hs0 : 0 ≤ s0) (hd : 0 ≤ d) (i j : ℕ) : 0 ≤ s0 * d ^ i * (u * u) ^ j := by
  have : 0 ≤ u * u := mul_self_nonneg u
  positivity

/-- put–call parity at the root of the model's tree. -/
theorem crr_root_put_call_parity (s0 strike u d p df a : ℝ) (n : ℕ) (hud : u * d = 1)
    (hp : p * u + (1 - p) * d = a) :
    crrRoot false true s0 strike u d p df n - crrRoot false false s0 strike u d p df n
      = s0 * (df * a) ^ n - strike * df ^ n := by
  obtain ⟨c, pt, h1, h2, h3⟩ := crr_tree_put_call_parity s0 strike u d p df a n hud hp
  rw [crrValues_eq_root] at h1 h2
  simp only [List.cons.injEq, and_true] at h1 h2
  rw [h1, h2]; exact h3

/-- with the code's `df = e^{−r·dt}` and `a = e^{(r−q)·dt}`: `call − put = s0·e^{−q·T} − K·e^{−r·T}` with `T = n·dt`,
exactly, for every `n`. -/
theorem crr_root_put_call_parity_exp (s0 strike u d p r q dt : ℝ) (n : ℕ) (hud : u * d = 1)
    (hp : p * u + (1 - p) * d = Real.exp ((r - q) * dt)) :
    crrRoot false true s0 strike u d p (Real.exp (-r * dt)) n - crrRoot false false s0 strike u d p (Real.exp (-r * dt)) n
      = s0 * Real.exp (-q * (n * dt)) - strike * Real.exp (-r * (n * dt)) := by
  rw [crr_root_put_call_parity s0 strike u d p _ _ n hud hp, ← Real.exp_add, ← Real.exp_nat_mul, ← Real.exp_nat_mul]
  congr 2 <;> ring_nf

theorem crrRoot_nonneg (amer isCall : Bool) (s0 strike u d p df : ℝ) (hp0 : 0 ≤ p) (hp1 : p ≤ 1) (hdf : 0 ≤ df)
    (n : ℕ) : 0 ≤ crrRoot amer isCall s0 strike u d p df n := by
  have := crr_values_nonneg amer isCall s0 strike u d p df hp0 hp1 hdf n
  rw [crrValues_eq_root] at this
  exact this _ (by simp)

/-- lower bound of the European tree call: at least the discounted forward intrinsic `s0·(df·a)ⁿ − K·dfⁿ`. -/
theorem crr_european_call_ge_forward (s0 strike u d p df a : ℝ) (n : ℕ) (hud : u * d = 1)
    (hp : p * u + (1 - p) * d = a) (hp0 : 0 ≤ p) (hp1 : p ≤ 1) (hdf : 0 ≤ df) :
    s0 * (df * a) ^ n - strike * df ^ n ≤ crrRoot false true s0 strike u d p df n := by
  have h := crr_root_put_call_parity s0 strike u d p df a n hud hp
  have := crrRoot_nonneg false false s0 strike u d p df hp0 hp1 hdf n
  linarith

/-- the call exercise values are a discounted sub-martingale on the lattice when `df·a ≥ 1` (no dividends: `q ≤ 0`)
and `df ≤ 1` (`r ≥ 0`). -/
theorem crr_call_exercise_submartingale (s0 strike u d p df a : ℝ) (hs0 : 0 ≤ s0) (hK : 0 ≤ strike) (hd : 0 ≤ d)
    (hud : u * d = 1) (hp0 : 0 ≤ p) (hp1 : p ≤ 1) (hp : p * u + (1 - p) * d = a) (hdf0 : 0 ≤ df) (hdf1 : df ≤ 1)
    (hq : 1 ≤ df * a) (i j : ℕ) :
    crrExFn true strike s0 u d i j ≤
      df * (p * crrExFn true strike s0 u d (i + 1) (j + 1) + (1 - p) * crrExFn true strike s0 u d (i + 1) j) := by
  simp only [crrExFn, payoff, if_true, maxG_eq_max]
  rw [crr_node_up s0 u d hud, crr_node_dn]
  have hS := crr_node_nonneg s0 u d hs0 hd i j
  set S := s0 * d ^ i * (u * u) ^ j with hSdef
  have h1p : 0 ≤ 1 - p := by linarith
  have hup : p * (S * u - strike) ≤ p * max (S * u - strike) 0 := mul_le_mul_of_nonneg_left (le_max_left _ _) hp0
  have hdn : (1 - p) * (S * d - strike) ≤ (1 - p) * max (S * d - strike) 0 :=
    mul_le_mul_of_nonneg_left (le_max_left _ _) h1p
  have e : df * (p * (S * u - strike) + (1 - p) * (S * d - strike)) = (df * a) * S - df * strike := by
    rw [← hp]; ring
  apply max_le
  · have h2 : S - strike ≤ (df * a) * S - df * strike := by
      nlinarith [mul_nonneg (sub_nonneg.mpr hq) hS, mul_nonneg (sub_nonneg.mpr hdf1) hK]
    have h3 := mul_le_mul_of_nonneg_left (add_le_add hup hdn) hdf0
    linarith
  · exact mul_nonneg hdf0 (add_nonneg (mul_nonneg hp0 (le_max_right _ _)) (mul_nonneg h1p (le_max_right _ _)))

/-- C12 `american_call_no_div_eq_european_on_tree`: on the code's lattice (`u·d = 1`, risk-neutral weight in [0,1]),
with no dividends (`df·a ≥ 1`, i.e. `q ≤ 0`) and `r ≥ 0` (`df ≤ 1`), the American call value EQUALS the European call
value for every step count — early exercise never binds. -/
theorem crr_american_call_eq_european (s0 strike u d p df a : ℝ) (hs0 : 0 ≤ s0) (hK : 0 ≤ strike) (hd : 0 ≤ d)
    (hud : u * d = 1) (hp0 : 0 ≤ p) (hp1 : p ≤ 1) (hp : p * u + (1 - p) * d = a) (hdf0 : 0 ≤ df) (hdf1 : df ≤ 1)
    (hq : 1 ≤ df * a) (n : ℕ) :
    crrValues true true s0 strike u d p df n = crrValues false true s0 strike u d p df n := by
  rw [crrValues_eq, crrValues_eq,
    rollFn_no_early_exercise p df hp0 hp1 hdf0 _
      (crr_call_exercise_submartingale s0 strike u d p df a hs0 hK hd hud hp0 hp1 hp hdf0 hdf1 hq) n _
      (fun _ => le_refl _)]

/-- the put exercise values are a discounted sub-martingale when `df ≥ 1` (`r ≤ 0`) and `df·a ≤ 1` (`q ≥ 0`). -/
theorem crr_put_exercise_submartingale (s0 strike u d p df a : ℝ) (hs0 : 0 ≤ s0) (hK : 0 ≤ strike) (hd : 0 ≤ d)
    (hud : u * d = 1) (hp0 : 0 ≤ p) (hp1 : p ≤ 1) (hp : p * u + (1 - p) * d = a) (hdf1 : 1 ≤ df)
    (hq : df * a ≤ 1) (i j : ℕ) :
    crrExFn false strike s0 u d i j ≤
      df * (p * crrExFn false strike s0 u d (i + 1) (j + 1) + (1 - p) * crrExFn false strike s0 u d (i + 1) j) := by
  simp only [crrExFn, payoff, Bool.false_eq_true, if_false, maxG_eq_max]
  rw [crr_node_up s0 u d hud, crr_node_dn]
  have hS := crr_node_nonneg s0 u d hs0 hd i j
  set S := s0 * d ^ i * (u * u) ^ j with hSdef
  have hdf0 : 0 ≤ df := by linarith
  have h1p : 0 ≤ 1 - p := by linarith
  have hup : p * (strike - S * u) ≤ p * max (strike - S * u) 0 := mul_le_mul_of_nonneg_left (le_max_left _ _) hp0
  have hdn : (1 - p) * (strike - S * d) ≤ (1 - p) * max (strike - S * d) 0 :=
    mul_le_mul_of_nonneg_left (le_max_left _ _) h1p
  have e : df * (p * (strike - S * u) + (1 - p) * (strike - S * d)) = df * strike - (df * a) * S := by
    rw [← hp]; ring
  apply max_le
  · have h2 : strike - S ≤ df * strike - (df * a) * S := by
      nlinarith [mul_nonneg (sub_nonneg.mpr hq) hS, mul_nonneg (sub_nonneg.mpr hdf1) hK]
    have h3 := mul_le_mul_of_nonneg_left (add_le_add hup hdn) hdf0
    linarith
  · exact mul_nonneg hdf0 (add_nonneg (mul_nonneg hp0 (le_max_right _ _)) (mul_nonneg h1p (le_max_right _ _)))

/-- C12 "puts with non-positive rates": with `r ≤ 0` (`df ≥ 1`) and `q ≥ 0` (`df·a ≤ 1`) the American put value on the
lattice EQUALS the European put value for every step count. -/
theorem crr_american_put_eq_european (s0 strike u d p df a : ℝ) (hs0 : 0 ≤ s0) (hK : 0 ≤ strike) (hd : 0 ≤ d)
    (hud : u * d = 1) (hp0 : 0 ≤ p) (hp1 : p ≤ 1) (hp : p * u + (1 - p) * d = a) (hdf1 : 1 ≤ df)
    (hq : df * a ≤ 1) (n : ℕ) :
    crrValues true false s0 strike u d p df n = crrValues false false s0 strike u d p df n := by
  rw [crrValues_eq, crrValues_eq,
    rollFn_no_early_exercise p df hp0 hp1 (by linarith) _
      (crr_put_exercise_submartingale s0 strike u d p df a hs0 hK hd hud hp0 hp1 hp hdf1 hq) n _
      (fun _ => le_refl _)]


/-! ### value bounds and dependence on the strike -/

/-- C12 value bound: the tree call (European or American) never exceeds the spot when `df·a ≤ 1` (`q ≥ 0`). -/
theorem crr_call_le_spot (amer : Bool) (s0 strike u d p df a : ℝ) (hs0 : 0 ≤ s0) (hK : 0 ≤ strike) (hd : 0 ≤ d)
    (hud : u * d = 1) (hp0 : 0 ≤ p) (hp1 : p ≤ 1) (hp : p * u + (1 - p) * d = a) (hdf0 : 0 ≤ df)
    (hq : df * a ≤ 1) (n : ℕ) : crrRoot amer true s0 strike u d p df n ≤ s0 := by
  have h := rollFn_le_of_supermartingale amer p df hp0 hp1 hdf0 (crrExFn true strike s0 u d)
    (fun i j => s0 * d ^ i * (u * u) ^ j) ?_ ?_ n (crrExFn true strike s0 u d n) ?_ 0
  · simpa [crrRoot] using h
  · intro i j
    show df * (p * (s0 * d ^ (i + 1) * (u * u) ^ (j + 1)) + (1 - p) * (s0 * d ^ (i + 1) * (u * u) ^ j))
      ≤ s0 * d ^ i * (u * u) ^ j
    rw [crr_node_up s0 u d hud, crr_node_dn]
    have hS := crr_node_nonneg s0 u d hs0 hd i j
    set S := s0 * d ^ i * (u * u) ^ j
    have e : df * (p * (S * u) + (1 - p) * (S * d)) = (df * a) * S := by rw [← hp]; ring
    rw [e]
    nlinarith [mul_nonneg (sub_nonneg.mpr hq) hS]
  · intro i j
    have hS := crr_node_nonneg s0 u d hs0 hd i j
    simp only [crrExFn, payoff, if_true, maxG_eq_max]
    exact max_le (by linarith) hS
  · intro j
    have hS := crr_node_nonneg s0 u d hs0 hd n j
    simp only [crrExFn, payoff, if_true, maxG_eq_max]
    exact max_le (by linarith) hS

/-- C12 value bound: the tree put (European or American) never exceeds the strike when `df ≤ 1` (`r ≥ 0`). -/
theorem crr_put_le_strike (amer : Bool) (s0 strike u d p df : ℝ) (hs0 : 0 ≤ s0) (hK : 0 ≤ strike) (hd : 0 ≤ d)
    (hp0 : 0 ≤ p) (hp1 : p ≤ 1) (hdf0 : 0 ≤ df) (hdf1 : df ≤ 1) (n : ℕ) :
    crrRoot amer false s0 strike u d p df n ≤ strike := by
  have hpay : ∀ i j, crrExFn false strike s0 u d i j ≤ strike := by
    intro i j
    have hS := crr_node_nonneg s0 u d hs0 hd i j
    simp only [crrExFn, payoff, Bool.false_eq_true, if_false, maxG_eq_max]
    exact max_le (by linarith) hK
  have h := rollFn_le_of_supermartingale amer p df hp0 hp1 hdf0 (crrExFn false strike s0 u d)
    (fun _ _ => strike) ?_ hpay n (crrExFn false strike s0 u d n) (hpay n) 0
  · simpa [crrRoot] using h
  · intro _ _
    have e : df * (p * strike + (1 - p) * strike) = df * strike := by ring
    rw [e]
    nlinarith [mul_nonneg (sub_nonneg.mpr hdf1) hK]

theorem payoff_strike_lipschitz (isCall : Bool) (k k' s : ℝ) : payoff isCall k s ≤ payoff isCall k' s + |k - k'| := by
  have h1 := le_abs_self (k - k')
  have h2 := neg_abs_le (k - k')
  have h0 := abs_nonneg (k - k')
  cases isCall <;> simp only [payoff, if_true, Bool.false_eq_true, if_false, maxG_eq_max]
  · apply max_le
    · have := le_max_left (k' - s) 0; linarith
    · have := le_max_right (k' - s) 0; linarith
  · apply max_le
    · have := le_max_left (s - k') 0; linarith
    · have := le_max_right (s - k') 0; linarith

/-- C12 the tree value (call or put, European or American, every `n`) is 1-Lipschitz in the strike when `r ≥ 0`. -/
theorem crr_value_lipschitz_in_strike (amer isCall : Bool) (s0 k k' u d p df : ℝ) (hp0 : 0 ≤ p) (hp1 : p ≤ 1)
    (hdf0 : 0 ≤ df) (hdf1 : df ≤ 1) (n : ℕ) :
    |crrRoot amer isCall s0 k u d p df n - crrRoot amer isCall s0 k' u d p df n| ≤ |k - k'| := by
  have h1 := rollFn_add_const amer p df hp0 hp1 hdf0 hdf1 |k - k'| (abs_nonneg _) (crrExFn isCall k s0 u d)
    (crrExFn isCall k' s0 u d) (fun i j => payoff_strike_lipschitz isCall k k' _) n
    (crrExFn isCall k s0 u d n) (crrExFn isCall k' s0 u d n) (fun j => payoff_strike_lipschitz isCall k k' _) 0
  have h2 := rollFn_add_const amer p df hp0 hp1 hdf0 hdf1 |k - k'| (abs_nonneg _) (crrExFn isCall k' s0 u d)
    (crrExFn isCall k s0 u d) (fun i j => by rw [abs_sub_comm]; exact payoff_strike_lipschitz isCall k' k _) n
    (crrExFn isCall k' s0 u d n) (crrExFn isCall k s0 u d n)
    (fun j => by rw [abs_sub_comm]; exact payoff_strike_lipschitz isCall k' k _) 0
  rw [abs_sub_le_iff]
  simp only [crrRoot]
  constructor <;> linarith

/-- C12 the tree call is non-increasing and the tree put non-decreasing in the strike (every `n`, both exercise styles). -/
theorem crr_call_antitone_in_strike (amer : Bool) (s0 k k' u d p df : ℝ) (hk : k ≤ k') (hp0 : 0 ≤ p) (hp1 : p ≤ 1)
    (hdf0 : 0 ≤ df) (n : ℕ) : crrRoot amer true s0 k' u d p df n ≤ crrRoot amer true s0 k u d p df n := by
  have hpay : ∀ s, payoff true k' s ≤ payoff true k s := by
    intro s; simp only [payoff, if_true, maxG_eq_max]; exact max_le_max (by linarith) (le_refl _)
  exact rollFn_mono amer p df hp0 hp1 hdf0 _ _ (fun i j => hpay _) n _ _ (fun j => hpay _) 0

theorem crr_put_monotone_in_strike (amer : Bool) (s0 k k' u d p df : ℝ) (hk : k ≤ k') (hp0 : 0 ≤ p) (hp1 : p ≤ 1)
    (hdf0 : 0 ≤ df) (n : ℕ) : crrRoot amer false s0 k u d p df n ≤ crrRoot amer false s0 k' u d p df n := by
  have hpay : ∀ s, payoff false k s ≤ payoff false k' s := by
    intro s; simp only [payoff, Bool.false_eq_true, if_false, maxG_eq_max]; exact max_le_max (by linarith) (le_refl _)
  exact rollFn_mono amer p df hp0 hp1 hdf0 _ _ (fun i j => hpay _) n _ _ (fun j => hpay _) 0

theorem payoff_strike_convex (isCall : Bool) (lam k1 k2 s : ℝ) (hl0 : 0 ≤ lam) (hl1 : lam ≤ 1) :
    payoff isCall (lam * k1 + (1 - lam) * k2) s ≤ lam * payoff isCall k1 s + (1 - lam) * payoff isCall k2 s := by
  have hl : 0 ≤ 1 - lam := by linarith
  cases isCall <;> simp only [payoff, if_true, Bool.false_eq_true, if_false, maxG_eq_max]
  · apply max_le
    · have a1 := mul_le_mul_of_nonneg_left (le_max_left (k1 - s) 0) hl0
      have a2 := mul_le_mul_of_nonneg_left (le_max_left (k2 - s) 0) hl
      nlinarith
    · have a1 := mul_nonneg hl0 (le_max_right (k1 - s) 0)
      have a2 := mul_nonneg hl (le_max_right (k2 - s) 0)
      linarith
  · apply max_le
    · have a1 := mul_le_mul_of_nonneg_left (le_max_left (s - k1) 0) hl0
      have a2 := mul_le_mul_of_nonneg_left (le_max_left (s - k2) 0) hl
      nlinarith
    · have a1 := mul_nonneg hl0 (le_max_right (s - k1) 0)
      have a2 := mul_nonneg hl (le_max_right (s - k2) 0)
      linarith

/-- C12 the tree value is convex in the strike (call or put, European or American, every `n`). -/
theorem crr_value_convex_in_strike (amer isCall : Bool) (s0 k1 k2 u d p df lam : ℝ) (hl0 : 0 ≤ lam) (hl1 : lam ≤ 1)
    (hp0 : 0 ≤ p) (hp1 : p ≤ 1) (hdf0 : 0 ≤ df) (n : ℕ) :
    crrRoot amer isCall s0 (lam * k1 + (1 - lam) * k2) u d p df n ≤
      lam * crrRoot amer isCall s0 k1 u d p df n + (1 - lam) * crrRoot amer isCall s0 k2 u d p df n :=
  rollFn_convex amer p df hp0 hp1 hdf0 lam hl0 hl1 _ _ _ (fun _ _ => payoff_strike_convex isCall lam k1 k2 _ hl0 hl1)
    n _ _ _ (fun _ => payoff_strike_convex isCall lam k1 k2 _ hl0 hl1) 0

/-- root forms of the dominance theorems of `Props/C12.lean`. -/
theorem crr_root_american_ge_european (isCall : Bool) (s0 strike u d p df : ℝ) (hp0 : 0 ≤ p) (hp1 : p ≤ 1)
    (hdf : 0 ≤ df) (n : ℕ) :
    crrRoot false isCall s0 strike u d p df n ≤ crrRoot true isCall s0 strike u d p df n := by
  have h := crr_american_ge_european isCall s0 strike u d p df hp0 hp1 hdf n
  rw [crrValues_eq_root, crrValues_eq_root] at h
  simpa using h

theorem crr_root_american_ge_intrinsic (isCall : Bool) (s0 strike u d p df : ℝ) (n : ℕ) :
    payoff isCall strike s0 ≤ crrRoot true isCall s0 strike u d p df (n + 1) := by
  have h := american_ge_intrinsic p df (crrEx isCall strike s0 u d) n
    ((layer (u * u) (n + 1) (sLow d (n + 1) s0)).map (payoff isCall strike)) 0
    (crrRoot true isCall s0 strike u d p df (n + 1)) ?_
  · rw [crrEx_eq _ _ _ _ _ _ _ (le_refl 0)] at h
    simpa [crrExFn] using h
  · have := crrValues_eq_root true isCall s0 strike u d p df (n + 1)
    unfold crrValues at this
    simp only at this
    rw [this]; rfl


/-! ### with the parameters exactly as `crr_tree_val` computes them -/

/-- `u = e^x` (`x = σ√dt ≠ 0`), `d = 1/u`, `p = (e^{(r−q)dt} − d)/(u − d)` satisfy the two structural hypotheses used
above: `u·d = 1` and `p·u + (1−p)·d = e^{(r−q)dt}`. -/
theorem crr_code_parameters (x a : ℝ) (hx : x ≠ 0) :
    Real.exp x * (1 / Real.exp x) = 1 ∧
      ((a - 1 / Real.exp x) / (Real.exp x - 1 / Real.exp x)) * Real.exp x
        + (1 - (a - 1 / Real.exp x) / (Real.exp x - 1 / Real.exp x)) * (1 / Real.exp x) = a := by
  have hu : Real.exp x ≠ 0 := (Real.exp_pos x).ne'
  refine ⟨by field_simp, crr_prob_martingale a _ _ ?_⟩
  rw [one_div, ← Real.exp_neg]
  intro h
  have := Real.exp_injective h
  apply hx; linarith

/-- C12 put–call parity of the European tree values for the code's own `u, d, p, df`: for every step count,
`call − put = s0·e^{−q·n·dt} − K·e^{−r·n·dt}` exactly (no discretisation error in the parity). -/
theorem crr_code_put_call_parity (s0 strike r q dt x : ℝ) (hx : x ≠ 0) (n : ℕ) :
    crrRoot false true s0 strike (Real.exp x) (1 / Real.exp x)
        ((Real.exp ((r - q) * dt) - 1 / Real.exp x) / (Real.exp x - 1 / Real.exp x)) (Real.exp (-r * dt)) n
      - crrRoot false false s0 strike (Real.exp x) (1 / Real.exp x)
        ((Real.exp ((r - q) * dt) - 1 / Real.exp x) / (Real.exp x - 1 / Real.exp x)) (Real.exp (-r * dt)) n
      = s0 * Real.exp (-q * (n * dt)) - strike * Real.exp (-r * (n * dt)) := by
  obtain ⟨h1, h2⟩ := crr_code_parameters x (Real.exp ((r - q) * dt)) hx
  exact crr_root_put_call_parity_exp s0 strike _ _ _ r q dt n h1 h2

/-- C12 American call = European call on the code's lattice when `q ≤ 0 ≤ r` (and the weight is a probability —
`crr_prob_in_unit_interval_iff`), for every step count. -/
theorem crr_code_american_call_eq_european (s0 strike r q dt x : ℝ) (hx : x ≠ 0) (hs0 : 0 ≤ s0) (hK : 0 ≤ strike)
    (hr : 0 ≤ r) (hq : q ≤ 0) (hdt : 0 ≤ dt)
    (hp0 : 0 ≤ (Real.exp ((r - q) * dt) - 1 / Real.exp x) / (Real.exp x - 1 / Real.exp x))
    (hp1 : (Real.exp ((r - q) * dt) - 1 / Real.exp x) / (Real.exp x - 1 / Real.exp x) ≤ 1) (n : ℕ) :
    crrValues true true s0 strike (Real.exp x) (1 / Real.exp x)
        ((Real.exp ((r - q) * dt) - 1 / Real.exp x) / (Real.exp x - 1 / Real.exp x)) (Real.exp (-r * dt)) n
      = crrValues false true s0 strike (Real.exp x) (1 / Real.exp x)
        ((Real.exp ((r - q) * dt) - 1 / Real.exp x) / (Real.exp x - 1 / Real.exp x)) (Real.exp (-r * dt)) n := by
  obtain ⟨h1, h2⟩ := crr_code_parameters x (Real.exp ((r - q) * dt)) hx
  refine crr_american_call_eq_european s0 strike _ _ _ _ _ hs0 hK (by positivity) h1 hp0 hp1 h2 (Real.exp_pos _).le ?_ ?_ n
  · rw [Real.exp_le_one_iff]; nlinarith
  · rw [← Real.exp_add, Real.one_le_exp_iff]; nlinarith

/-- C12 American put = European put on the code's lattice when `r ≤ 0 ≤ q`, for every step count. -/
theorem crr_code_american_put_eq_european (s0 strike r q dt x : ℝ) (hx : x ≠ 0) (hs0 : 0 ≤ s0) (hK : 0 ≤ strike)
    (hr : r ≤ 0) (hq : 0 ≤ q) (hdt : 0 ≤ dt)
    (hp0 : 0 ≤ (Real.exp ((r - q) * dt) - 1 / Real.exp x) / (Real.exp x - 1 / Real.exp x))
    (hp1 : (Real.exp ((r - q) * dt) - 1 / Real.exp x) / (Real.exp x - 1 / Real.exp x) ≤ 1) (n : ℕ) :
    crrValues true false s0 strike (Real.exp x) (1 / Real.exp x)
        ((Real.exp ((r - q) * dt) - 1 / Real.exp x) / (Real.exp x - 1 / Real.exp x)) (Real.exp (-r * dt)) n
      = crrValues false false s0 strike (Real.exp x) (1 / Real.exp x)
        ((Real.exp ((r - q) * dt) - 1 / Real.exp x) / (Real.exp x - 1 / Real.exp x)) (Real.exp (-r * dt)) n := by
  obtain ⟨h1, h2⟩ := crr_code_parameters x (Real.exp ((r - q) * dt)) hx
  refine crr_american_put_eq_european s0 strike _ _ _ _ _ hs0 hK (by positivity) h1 hp0 hp1 h2 ?_ ?_ n
  · rw [Real.one_le_exp_iff]; nlinarith
  · rw [← Real.exp_add, Real.exp_le_one_iff]; nlinarith

/-- non-vacuity: the hypotheses of the no-early-exercise / parity / bound theorems are met by a concrete lattice
(`u = 2, d = 1/2, a = 1` gives `p = 1/3`; `df = 1`, i.e. `r = q = 0`). -/
example : crrValues true true (100 : ℝ) 90 2 (1/2) (1/3) 1 7 = crrValues false true 100 90 2 (1/2) (1/3) 1 7 :=
  crr_american_call_eq_european 100 90 2 (1/2) (1/3) 1 1 (by norm_num) (by norm_num) (by norm_num) (by norm_num)
    (by norm_num) (by norm_num) (by norm_num) (by norm_num) (by norm_num) (by norm_num) 7

example : crrValues true false (100 : ℝ) 90 2 (1/2) (1/3) 1 7 = crrValues false false 100 90 2 (1/2) (1/3) 1 7 :=
  crr_american_put_eq_european 100 90 2 (1/2) (1/3) 1 1 (by norm_num) (by norm_num) (by norm_num) (by norm_num)
    (by norm_num) (by norm_num) (by norm_num) (by norm_num) (by norm_num) 7

example : crrRoot false true 100 90 2 (1/2) (1/3) 1 5 - crrRoot false false 100 90 2 (1/2) (1/3) 1 5 = 10 := by
  rw [crr_root_put_call_parity 100 90 2 (1/2) (1/3) 1 1 5 (by norm_num) (by norm_num)]; norm_num

/-- the closed form is not vacuous either: a one-step European call, `p = 1/3`, `df = 1`:
`1/3 · max(200 − 90, 0) + 2/3 · max(50 − 90, 0) = 110/3`. -/
example : crrValues false true (100 : ℝ) 90 2 (1/2) (1/3) 1 1 = [110 / 3] := by
  rw [crr_european_eq_binomial_sum]
  simp [Finset.sum_range_succ, payoff, maxG_eq_max]
  norm_num

end FinVerif.Props.C12
