/-
  C12 (part c) — the theta-scheme finite-difference pricer and the PSOR sweep AS CODED (hand model `Model/C12FD.lean`,
  tied to `calculate_fd_matrix`, `fd_roll_backwards`, `black_scholes_fd`, `PSOR`, `black_scholes_fd_PSOR` by the
  correspondence harness), proved at ℝ for every grid size:
  * the difference operators are consistent (row sums 0, exact on polynomials of degree ≤ 2 on non-uniform grids);
  * every row of `calculate_fd_matrix` sums to `1 − dt·θ·r` (also in the index form that the band product / Thomas solve use);
  * discrete maximum principle: non-negative explicit weights and an implicit M-matrix keep values within
    `[(1−dt(1−θ)r)·lo/(1+dtθr), (1−dt(1−θ)r)·hi/(1+dtθr)]`, and the step is monotone; the implicit part uses the
    post-condition of `solve_tridiagonal_matrix` proved in C20 (`thomas_solves_tridiagonal`), brought to index form here;
  * closed forms of the interior off-diagonal entries: the sign conditions hold iff the local Péclet condition holds;
  * time loop: American ≥ European and American ≥ payoff node by node; projection = linear complementarity;
  * PSOR: a fixed point of the sweep solves every interior equation; boundary entries are never updated.
  Convergence (in dt, dx, or of the SOR iteration) is NOT a theorem.
-/
import FinVerif.Model.C12FD
import FinVerif.Props.C12
import FinVerif.Props.C20b
import Mathlib.Data.Real.Basic
import Mathlib.Tactic.Linarith
import Mathlib.Tactic.Ring
import Mathlib.Tactic.FieldSimp
import Mathlib.Tactic.Positivity
import Mathlib.Algebra.Order.Field.Basic
import Mathlib.Data.Finset.Max
import Mathlib.Tactic.IntervalCases
import Mathlib.Tactic.NormNum

namespace FinVerif.Props.C12
open FinVerif FinVerif.Model.C12 FinVerif.Model.C12FD FinVerif.Model.C20

/-! ## difference operators `dx`, `dxx` (wind = 0) -/

/-- every row of the first-derivative operator annihilates constants (row sum 0) -/
theorem dxRow_sum (xm x xp : ℝ) : (dxRow xm x xp).a + (dxRow xm x xp).b + (dxRow xm x xp).c = 0 := by
  simp only [dxRow]
  rw [← add_div, ← add_div]
  have : -(xp - x) / (x - xm) + ((xp - x) / (x - xm) - (x - xm) / (xp - x)) + (x - xm) / (xp - x) = 0 := by ring
  rw [this, zero_div]

theorem dxFirst_sum (x0 x1 : ℝ) : (dxFirst x0 x1).a + (dxFirst x0 x1).b + (dxFirst x0 x1).c = 0 := by
  simp only [dxFirst]; ring

theorem dxLast_sum (xm x : ℝ) : (dxLast xm x).a + (dxLast xm x).b + (dxLast xm x).c = 0 := by
  simp only [dxLast]; ring

theorem dxxRow_sum (xm x xp : ℝ) : (dxxRow xm x xp).a + (dxxRow xm x xp).b + (dxxRow xm x xp).c = 0 := by
  simp only [dxxRow]
  rw [← add_div, ← add_div]
  have : 2 / (x - xm) + -(2 / (x - xm) + 2 / (xp - x)) + 2 / (xp - x) = 0 := by ring
  rw [this, zero_div]

/-- consistency: on an increasing (possibly non-uniform) grid the interior row of `dx` differentiates every
polynomial of degree ≤ 2 exactly: `x ↦ x` gives 1, `x ↦ x²` gives `2x`. -/
theorem dxRow_linear (xm x xp : ℝ) (h1 : xm < x) (h2 : x < xp) :
    (dxRow xm x xp).a * xm + (dxRow xm x xp).b * x + (dxRow xm x xp).c * xp = 1 := by
  have hl : x - xm ≠ 0 := by linarith
  have hu : xp - x ≠ 0 := by linarith
  have hs : x - xm + (xp - x) ≠ 0 := by linarith
  simp only [dxRow]
  field_simp
  ring

theorem dxRow_quadratic (xm x xp : ℝ) (h1 : xm < x) (h2 : x < xp) :
    (dxRow xm x xp).a * xm ^ 2 + (dxRow xm x xp).b * x ^ 2 + (dxRow xm x xp).c * xp ^ 2 = 2 * x := by
  have hl : x - xm ≠ 0 := by linarith
  have hu : xp - x ≠ 0 := by linarith
  have hs : x - xm + (xp - x) ≠ 0 := by linarith
  simp only [dxRow]
  field_simp
  ring

/-- the interior row of `dxx` annihilates linear functions and returns 2 on `x²`. -/
theorem dxxRow_linear (xm x xp : ℝ) (h1 : xm < x) (h2 : x < xp) :
    (dxxRow xm x xp).a * xm + (dxxRow xm x xp).b * x + (dxxRow xm x xp).c * xp = 0 := by
  have hl : x - xm ≠ 0 := by linarith
  have hu : xp - x ≠ 0 := by linarith
  have hs : xp - x + (x - xm) ≠ 0 := by linarith
  simp only [dxxRow]
  field_simp
  ring

theorem dxxRow_quadratic (xm x xp : ℝ) (h1 : xm < x) (h2 : x < xp) :
    (dxxRow xm x xp).a * xm ^ 2 + (dxxRow xm x xp).b * x ^ 2 + (dxxRow xm x xp).c * xp ^ 2 = 2 := by
  have hl : x - xm ≠ 0 := by linarith
  have hu : xp - x ≠ 0 := by linarith
  have hs : xp - x + (x - xm) ≠ 0 := by linarith
  simp only [dxxRow]
  field_simp
  ring

/-- boundary rows: one-sided first differences, exact on linear functions -/
theorem dxFirst_linear (x0 x1 : ℝ) (h : x0 < x1) : (dxFirst x0 x1).b * x0 + (dxFirst x0 x1).c * x1 = 1 := by
  have : x1 - x0 ≠ 0 := by linarith
  simp only [dxFirst]; field_simp; ring

theorem dxLast_linear (xm x : ℝ) (h : xm < x) : (dxLast xm x).a * xm + (dxLast xm x).b * x = 1 := by
  have : x - xm ≠ 0 := by linarith
  simp only [dxLast]; field_simp; ring

/-! ## `calculate_fd_matrix` -/

/-- one row of the theta-scheme matrix sums to `1 − dt·theta·r` whenever the difference rows sum to 0 -/
theorem fdRow_sum (dtTheta : ℝ) (nd : Node ℝ) (d1 d2 : Tri ℝ) (h1 : d1.a + d1.b + d1.c = 0)
    (h2 : d2.a + d2.b + d2.c = 0) :
    (fdRow dtTheta nd d1 d2).a + (fdRow dtTheta nd d1 d2).b + (fdRow dtTheta nd d1 d2).c = 1 - dtTheta * nd.r := by
  simp only [fdRow]
  have : dtTheta * (nd.mu * d1.a + 1 / 2 * nd.var * d2.a) + (dtTheta * (nd.mu * d1.b + 1 / 2 * nd.var * d2.b)
      + (1 - dtTheta * nd.r)) + dtTheta * (nd.mu * d1.c + 1 / 2 * nd.var * d2.c)
      = dtTheta * nd.mu * (d1.a + d1.b + d1.c) + dtTheta * (1 / 2) * nd.var * (d2.a + d2.b + d2.c)
        + (1 - dtTheta * nd.r) := by ring
  rw [this, h1, h2]; ring

theorem zeroTri_sum : (zeroTri : Tri ℝ).a + (zeroTri : Tri ℝ).b + (zeroTri : Tri ℝ).c = 0 := by
  simp [zeroTri]

theorem fdRows_row_sums (dtTheta : ℝ) (prev : Option (Node ℝ)) (nodes : List (Node ℝ))
    (h : prev.isSome ∨ 2 ≤ nodes.length) :
    List.Forall₂ (fun nd t => t.a + t.b + t.c = 1 - dtTheta * nd.r) nodes (fdRows dtTheta prev nodes) := by
  induction nodes generalizing prev with
  | nil => cases prev <;> simp [fdRows]
  | cons n0 rest ih =>
    cases rest with
    | nil =>
      cases prev with
      | none => simp at h
      | some nm =>
        simp only [fdRows]
        exact List.Forall₂.cons (fdRow_sum _ _ _ _ (dxLast_sum _ _) zeroTri_sum) List.Forall₂.nil
    | cons n1 rest' =>
      cases prev with
      | none =>
        simp only [fdRows]
        exact List.Forall₂.cons (fdRow_sum _ _ _ _ (dxFirst_sum _ _) zeroTri_sum) (ih (some n0) (Or.inl rfl))
      | some nm =>
        simp only [fdRows]
        exact List.Forall₂.cons (fdRow_sum _ _ _ _ (dxRow_sum _ _ _) (dxxRow_sum _ _ _)) (ih (some n0) (Or.inl rfl))

/-- C12 (theta scheme): for every grid with at least two nodes every row of `calculate_fd_matrix(x, r, mu, var, dt, theta)`
sums to `1 − dt·theta·r_i` — the explicit matrix `Ae` to `1 − dt(1−θ)r`, the implicit matrix `Ai` (called with `−dt`) to
`1 + dt·θ·r`: constants are discounted, nothing else. -/
theorem calcFdMatrix_row_sums (nodes : List (Node ℝ)) (dt theta : ℝ) (h : 2 ≤ nodes.length) :
    List.Forall₂ (fun nd t => t.a + t.b + t.c = 1 - dt * theta * nd.r) nodes (calcFdMatrix nodes dt theta) :=
  fdRows_row_sums (dt * theta) none nodes (Or.inr h)


/-! ## discrete maximum principle -/

/-- explicit part, one entry of `band_matrix_multiplication(Ae, 1, 1, v)`: with non-negative weights whose effective
sum (the entries that the band product really uses) is `ρ`, the entry lies between `ρ·lo` and `ρ·hi`. -/
theorem rowApply_bounds (t : Tri ℝ) (n i : ℕ) (vm v vp lo hi ρ : ℝ) (ha : 0 ≤ t.a) (hb : 0 ≤ t.b) (hc : 0 ≤ t.c)
    (hsum : (if 0 < i then t.a else 0) + t.b + (if i + 1 < n then t.c else 0) = ρ)
    (hm : 0 < i → lo ≤ vm ∧ vm ≤ hi) (h0 : lo ≤ v ∧ v ≤ hi) (hp : i + 1 < n → lo ≤ vp ∧ vp ≤ hi) :
    ρ * lo ≤ rowApply t n i vm v vp ∧ rowApply t n i vm v vp ≤ ρ * hi := by
  simp only [rowApply]
  rw [← hsum]
  have b1 := mul_le_mul_of_nonneg_left h0.1 hb
  have b2 := mul_le_mul_of_nonneg_left h0.2 hb
  by_cases h1 : 0 < i <;> by_cases h2 : i + 1 < n <;> simp only [h1, h2, if_true, if_false]
  · have a1 := mul_le_mul_of_nonneg_left (hm h1).1 ha
    have a2 := mul_le_mul_of_nonneg_left (hm h1).2 ha
    have c1 := mul_le_mul_of_nonneg_left (hp h2).1 hc
    have c2 := mul_le_mul_of_nonneg_left (hp h2).2 hc
    constructor <;> nlinarith
  · have a1 := mul_le_mul_of_nonneg_left (hm h1).1 ha
    have a2 := mul_le_mul_of_nonneg_left (hm h1).2 ha
    constructor <;> nlinarith
  · have c1 := mul_le_mul_of_nonneg_left (hp h2).1 hc
    have c2 := mul_le_mul_of_nonneg_left (hp h2).2 hc
    constructor <;> nlinarith
  · constructor <;> nlinarith

/-- the explicit part is monotone when the weights are non-negative -/
theorem rowApply_mono (t : Tri ℝ) (n i : ℕ) (vm v vp wm w wp : ℝ) (ha : 0 ≤ t.a) (hb : 0 ≤ t.b) (hc : 0 ≤ t.c)
    (hm : 0 < i → vm ≤ wm) (h0 : v ≤ w) (hp : i + 1 < n → vp ≤ wp) :
    rowApply t n i vm v vp ≤ rowApply t n i wm w wp := by
  simp only [rowApply]
  have b1 := mul_le_mul_of_nonneg_left h0 hb
  by_cases h1 : 0 < i <;> by_cases h2 : i + 1 < n <;> simp only [h1, h2, if_true, if_false]
  · have a1 := mul_le_mul_of_nonneg_left (hm h1) ha
    have c1 := mul_le_mul_of_nonneg_left (hp h2) hc
    linarith
  · have a1 := mul_le_mul_of_nonneg_left (hm h1) ha
    linarith
  · have c1 := mul_le_mul_of_nonneg_left (hp h2) hc
    linarith
  · linarith

/-- the equations of a tridiagonal system `A x = z` of size `n`, row by row (`a 0` and `c (n−1)` are not part of it) -/
def TriSystem (n : ℕ) (a b c z x : ℕ → ℝ) : Prop :=
  ∀ i, i < n → (if 0 < i then a i * x (i - 1) else 0) + b i * x i + (if i + 1 < n then c i * x (i + 1) else 0) = z i

/-- C12 discrete maximum principle for the implicit part: if the off-diagonal entries are ≤ 0 and every effective row
sum equals `ρ > 0` (an M-matrix, e.g. `Ai` with `ρ = 1 + dt·θ·r`), the solution of `A x = z` satisfies
`x i ≤ Z/ρ` whenever `z ≤ Z` — no new maximum is created by the implicit solve. -/
theorem implicit_max_principle (n : ℕ) (a b c z x : ℕ → ℝ) (ρ Z : ℝ) (hρ : 0 < ρ) (hsys : TriSystem n a b c z x)
    (ha : ∀ i, i < n → a i ≤ 0) (hc : ∀ i, i < n → c i ≤ 0)
    (hsum : ∀ i, i < n → (if 0 < i then a i else 0) + b i + (if i + 1 < n then c i else 0) = ρ)
    (hz : ∀ i, i < n → z i ≤ Z) : ∀ i, i < n → x i ≤ Z / ρ := by
  intro i hi
  obtain ⟨k, hk, hmax⟩ := Finset.exists_max_image (Finset.range n) x ⟨i, Finset.mem_range.mpr hi⟩
  have hk' : k < n := Finset.mem_range.mp hk
  have hxk : ρ * x k ≤ z k := by
    rw [← hsys k hk', ← hsum k hk']
    have e1 : (if 0 < k then a k else 0) * x k ≤ (if 0 < k then a k * x (k - 1) else 0) := by
      split
      · have := hmax (k - 1) (Finset.mem_range.mpr (by omega))
        nlinarith [ha k hk']
      · simp
    have e2 : (if k + 1 < n then c k else 0) * x k ≤ (if k + 1 < n then c k * x (k + 1) else 0) := by
      split
      · rename_i h
        have := hmax (k + 1) (Finset.mem_range.mpr h)
        nlinarith [hc k hk']
      · simp
    nlinarith
  have h1 : x i ≤ x k := hmax i (Finset.mem_range.mpr hi)
  rw [le_div_iff₀ hρ]
  nlinarith [hz k hk']

/-- lower version (minimum principle) -/
theorem implicit_min_principle (n : ℕ) (a b c z x : ℕ → ℝ) (ρ Z : ℝ) (hρ : 0 < ρ) (hsys : TriSystem n a b c z x)
    (ha : ∀ i, i < n → a i ≤ 0) (hc : ∀ i, i < n → c i ≤ 0)
    (hsum : ∀ i, i < n → (if 0 < i then a i else 0) + b i + (if i + 1 < n then c i else 0) = ρ)
    (hz : ∀ i, i < n → Z ≤ z i) : ∀ i, i < n → Z / ρ ≤ x i := by
  intro i hi
  have hneg : TriSystem n a b c (fun j => -z j) (fun j => -x j) := by
    intro j hj
    have := hsys j hj
    split_ifs at this ⊢ <;> linarith
  have := implicit_max_principle n a b c (fun j => -z j) (fun j => -x j) ρ (-Z) hρ hneg ha hc hsum
    (fun j hj => by linarith [hz j hj]) i hi
  rw [neg_div] at this
  linarith

/-- the implicit solve is monotone in the right-hand side (inverse of an M-matrix is non-negative) -/
theorem implicit_monotone (n : ℕ) (a b c z z' x x' : ℕ → ℝ) (ρ : ℝ) (hρ : 0 < ρ) (hsys : TriSystem n a b c z x)
    (hsys' : TriSystem n a b c z' x') (ha : ∀ i, i < n → a i ≤ 0) (hc : ∀ i, i < n → c i ≤ 0)
    (hsum : ∀ i, i < n → (if 0 < i then a i else 0) + b i + (if i + 1 < n then c i else 0) = ρ)
    (hz : ∀ i, i < n → z i ≤ z' i) : ∀ i, i < n → x i ≤ x' i := by
  intro i hi
  have hd : TriSystem n a b c (fun j => z j - z' j) (fun j => x j - x' j) := by
    intro j hj
    have h1 := hsys j hj
    have h2 := hsys' j hj
    split_ifs at h1 h2 ⊢ <;> linarith
  have := implicit_max_principle n a b c _ _ ρ 0 hρ hd ha hc hsum (fun j hj => by linarith [hz j hj]) i hi
  simp only [zero_div] at this
  linarith


/-! ## from the solver's post-condition to the system in index form -/

def rowD : Row ℝ := ⟨0, 0, 0, 0⟩

theorem triMulAux_getD (rows : List (Row ℝ)) : ∀ (xprev : Option ℝ) (xs : List ℝ), xs.length = rows.length →
    ∀ i, i < rows.length →
    (triMulAux xprev rows xs).getD i 0 =
      (if 0 < i then (rows.getD i rowD).a * xs.getD (i - 1) 0
        else match xprev with | some xp => (rows.getD i rowD).a * xp | none => 0)
      + (rows.getD i rowD).b * xs.getD i 0
      + (if i + 1 < rows.length then (rows.getD i rowD).c * xs.getD (i + 1) 0 else 0) := by
  induction rows with
  | nil => intro _ _ _ i hi; simp at hi
  | cons row rows ih =>
    intro xprev xs hlen i hi
    cases xs with
    | nil => simp at hlen
    | cons x xs' =>
      have hlen' : xs'.length = rows.length := by simpa using hlen
      cases i with
      | zero =>
        cases xs' with
        | nil =>
          have : rows = [] := List.length_eq_zero_iff.mp (by simpa using hlen'.symm)
          subst this
          cases xprev <;> simp [triMulAux]
        | cons xn xs'' =>
          have : 0 + 1 < (row :: rows).length := by simp at hlen' ⊢; omega
          cases xprev <;> simp [triMulAux, ← hlen']
      | succ k =>
        have hk : k < rows.length := by simpa using hi
        simp only [triMulAux, List.getD_cons_succ]
        rw [ih (some x) xs' hlen' k hk]
        cases k with
        | zero => simp; rfl
        | succ m => simp

theorem getD_of_lt {α : Type} (l : List α) (d : α) (i : ℕ) (h : i < l.length) : l.getD i d = l[i] := by
  simp [List.getD_eq_getElem?_getD, h]


/-- the post-condition of `solve_tridiagonal_matrix` (theorem `thomas_solves_tridiagonal` of C20) in index form:
whenever `triSolve` returns, the result solves the system row by row. -/
theorem triSolve_system (rows : List (Tri ℝ)) (z xs : List ℝ) (hlen : z.length = rows.length)
    (h : triSolve rows z = some xs) :
    xs.length = rows.length ∧
      TriSystem rows.length (fun i => (rows.getD i zeroTri).a) (fun i => (rows.getD i zeroTri).b)
        (fun i => (rows.getD i zeroTri).c) (fun i => z.getD i 0) (fun i => xs.getD i 0) := by
  unfold triSolve at h
  set R := List.zipWith (fun t r => (⟨t.a, t.b, t.c, r⟩ : Row ℝ)) rows z with hR
  have hRlen : R.length = rows.length := by simp [hR, hlen]
  obtain ⟨hx, hmul⟩ := FinVerif.Props.C20.thomas_solves_tridiagonal R xs h
  refine ⟨by rw [hx, hRlen], ?_⟩
  intro i hi
  have hiR : i < R.length := by rw [hRlen]; exact hi
  have hiz : i < z.length := by rw [hlen]; exact hi
  have hget := triMulAux_getD R none xs hx i hiR
  have hRi : R.getD i rowD = ⟨(rows.getD i zeroTri).a, (rows.getD i zeroTri).b, (rows.getD i zeroTri).c, z.getD i 0⟩ := by
    rw [getD_of_lt _ _ _ hiR, getD_of_lt _ _ _ hi, getD_of_lt _ _ _ hiz]
    simp [hR]
  have hr : (triMulAux none R xs).getD i 0 = z.getD i 0 := by
    have : triMulAux none R xs = R.map (·.r) := hmul
    rw [this, getD_of_lt _ _ _ (by simpa using hiR)]
    simp only [List.getElem_map]
    rw [← getD_of_lt _ rowD _ hiR, hRi]
  rw [hr, hRi, hRlen] at hget
  simp only at hget
  show _ = z.getD i 0
  rw [hget]


/-! ## the matrices of the code in index form -/

/-- effective row sum: the entries that `band_matrix_multiplication` / `solve_tridiagonal_matrix` really use
(`a[0]` and `c[n−1]` are not part of the matrix) -/
def effSum (rows : List (Tri ℝ)) (i : ℕ) : ℝ :=
  (if 0 < i then (rows.getD i zeroTri).a else 0) + (rows.getD i zeroTri).b +
    (if i + 1 < rows.length then (rows.getD i zeroTri).c else 0)

theorem fdRows_length (dtTheta : ℝ) (prev : Option (Node ℝ)) (nodes : List (Node ℝ))
    (h : prev.isSome ∨ 2 ≤ nodes.length) : (fdRows dtTheta prev nodes).length = nodes.length :=
  (fdRows_row_sums dtTheta prev nodes h).length_eq.symm

theorem fdRows_last_c (dtTheta : ℝ) (nodes : List (Node ℝ)) : ∀ (nm : Node ℝ) (i : ℕ), i + 1 = nodes.length →
    ((fdRows dtTheta (some nm) nodes).getD i zeroTri).c = 0 := by
  induction nodes with
  | nil => intro _ i hi; simp at hi
  | cons n rest ih =>
    intro nm i hi
    cases rest with
    | nil =>
      have : i = 0 := by simpa using hi
      subst this
      simp [fdRows, fdRow, dxLast, zeroTri]
    | cons np rest' =>
      cases i with
      | zero => simp at hi
      | succ k =>
        simp only [fdRows, List.getD_cons_succ]
        exact ih n k (by simpa using hi)

/-- C12: in index form, every effective row sum of `calculate_fd_matrix` is `1 − dt·theta·r` (constant rate `r`): the first
row's unused `a` and the last row's unused `c` are 0 as built. -/
theorem calcFdMatrix_effSum (nodes : List (Node ℝ)) (dt theta r : ℝ) (h : 2 ≤ nodes.length)
    (hr : ∀ nd ∈ nodes, nd.r = r) (i : ℕ) (hi : i < nodes.length) :
    effSum (calcFdMatrix nodes dt theta) i = 1 - dt * theta * r := by
  have hF := calcFdMatrix_row_sums nodes dt theta h
  have hlen : (calcFdMatrix nodes dt theta).length = nodes.length := hF.length_eq.symm
  obtain ⟨_, hget⟩ := List.forall₂_iff_get.mp hF
  have hrow := hget i hi (by rw [hlen]; exact hi)
  simp only [List.get_eq_getElem] at hrow
  rw [hr _ (List.getElem_mem hi)] at hrow
  have hD : (calcFdMatrix nodes dt theta).getD i zeroTri = (calcFdMatrix nodes dt theta)[i]'(by rw [hlen]; exact hi) :=
    getD_of_lt _ _ _ _
  have hrow' : ((calcFdMatrix nodes dt theta).getD i zeroTri).a + ((calcFdMatrix nodes dt theta).getD i zeroTri).b
      + ((calcFdMatrix nodes dt theta).getD i zeroTri).c = 1 - dt * theta * r := by rw [hD]; exact hrow
  have ha : ¬ 0 < i → ((calcFdMatrix nodes dt theta).getD i zeroTri).a = 0 := by
    intro h0
    have : i = 0 := by omega
    subst this
    match nodes, h with
    | n0 :: n1 :: rest, _ => simp [calcFdMatrix, fdRows, fdRow, dxFirst, zeroTri]
  have hc : ¬ i + 1 < nodes.length → ((calcFdMatrix nodes dt theta).getD i zeroTri).c = 0 := by
    intro h1
    match nodes, h, hi, h1 with
    | n0 :: n1 :: rest, _, hi, h1 =>
      cases i with
      | zero => simp at h1
      | succ k =>
        simp only [calcFdMatrix, fdRows, List.getD_cons_succ]
        exact fdRows_last_c _ _ n0 k (by simp at hi h1 ⊢; omega)
  unfold effSum
  simp only [hlen]
  rw [← hrow']
  by_cases h0 : 0 < i <;> by_cases h1 : i + 1 < nodes.length <;> simp only [h0, h1, if_true, if_false]
  · rw [hc h1]
  · rw [ha h0]
  · rw [ha h0, hc h1]


/-! ## one theta step as coded: bounds and monotonicity -/

theorem triApply_getD (rows : List (Tri ℝ)) (v : List ℝ) (i : ℕ) (hi : i < rows.length) :
    (triApply rows.toArray v.toArray).getD i 0 =
      rowApply (rows.getD i zeroTri) rows.length i (v.getD (i - 1) 0) (v.getD i 0) (v.getD (i + 1) 0) := by
  unfold triApply
  rw [getD_of_lt _ _ _ (by simpa using hi)]
  simp [List.getD_eq_getElem?_getD]

theorem triApply_length (rows : List (Tri ℝ)) (v : List ℝ) :
    (triApply rows.toArray v.toArray).length = rows.length := by
  simp [triApply]

/-- the explicit half step `band_matrix_multiplication(Ae, 1, 1, v)` keeps values within `[ρ·lo, ρ·hi]` when all
weights are non-negative and every effective row sum is `ρ` -/
theorem triApply_bounds (rows : List (Tri ℝ)) (v : List ℝ) (ρ lo hi : ℝ)
    (hnn : ∀ i, i < rows.length → 0 ≤ (rows.getD i zeroTri).a ∧ 0 ≤ (rows.getD i zeroTri).b ∧ 0 ≤ (rows.getD i zeroTri).c)
    (hsum : ∀ i, i < rows.length → effSum rows i = ρ)
    (hv : ∀ i, i < rows.length → lo ≤ v.getD i 0 ∧ v.getD i 0 ≤ hi) (i : ℕ) (hlt : i < rows.length) :
    ρ * lo ≤ (triApply rows.toArray v.toArray).getD i 0 ∧ (triApply rows.toArray v.toArray).getD i 0 ≤ ρ * hi := by
  rw [triApply_getD rows v i hlt]
  obtain ⟨ha, hb, hc⟩ := hnn i hlt
  exact rowApply_bounds _ _ _ _ _ _ lo hi ρ ha hb hc (hsum i hlt) (fun h0 => hv (i - 1) (by omega)) (hv i hlt)
    (fun h1 => hv (i + 1) h1)

theorem triApply_mono (rows : List (Tri ℝ)) (v w : List ℝ)
    (hnn : ∀ i, i < rows.length → 0 ≤ (rows.getD i zeroTri).a ∧ 0 ≤ (rows.getD i zeroTri).b ∧ 0 ≤ (rows.getD i zeroTri).c)
    (hvw : ∀ i, i < rows.length → v.getD i 0 ≤ w.getD i 0) (i : ℕ) (hi : i < rows.length) :
    (triApply rows.toArray v.toArray).getD i 0 ≤ (triApply rows.toArray w.toArray).getD i 0 := by
  rw [triApply_getD rows v i hi, triApply_getD rows w i hi]
  obtain ⟨ha, hb, hc⟩ := hnn i hi
  exact rowApply_mono _ _ _ _ _ _ _ _ _ ha hb hc (fun h0 => hvw (i - 1) (by omega)) (hvw i hi) (fun h1 => hvw (i + 1) h1)

/-- sign pattern of an M-matrix row set: off-diagonal entries ≤ 0 -/
def OffDiagNonpos (rows : List (Tri ℝ)) : Prop :=
  ∀ i, i < rows.length → (rows.getD i zeroTri).a ≤ 0 ∧ (rows.getD i zeroTri).c ≤ 0

def WeightsNonneg (rows : List (Tri ℝ)) : Prop :=
  ∀ i, i < rows.length → 0 ≤ (rows.getD i zeroTri).a ∧ 0 ≤ (rows.getD i zeroTri).b ∧ 0 ≤ (rows.getD i zeroTri).c

/-- C12 discrete maximum principle of one theta step AS CODED (`fd_roll_backwards`: explicit band product, then
`solve_tridiagonal_matrix`): if the explicit weights are ≥ 0 with effective row sums `ρe ≥ 0` and the implicit matrix
has off-diagonals ≤ 0 with effective row sums `ρi > 0`, then values in `[lo, hi]` are mapped into
`[ρe·lo/ρi, ρe·hi/ρi]`; with the code's matrices `ρe/ρi = (1 − dt(1−θ)r)/(1 + dt·θ·r)`. -/
theorem thetaStep_bounds (ae ai : List (Tri ℝ)) (res out : List ℝ) (ρe ρi lo hi : ℝ) (hρi : 0 < ρi)
    (hlen' : ai.length = ae.length)
    (hae : WeightsNonneg ae) (hsumE : ∀ i, i < ae.length → effSum ae i = ρe)
    (hai : OffDiagNonpos ai) (hsumI : ∀ i, i < ai.length → effSum ai i = ρi)
    (hres : ∀ i, i < ae.length → lo ≤ res.getD i 0 ∧ res.getD i 0 ≤ hi)
    (h : thetaStep true true ae ai res = some out) :
    out.length = ae.length ∧ ∀ i, i < ae.length → ρe * lo / ρi ≤ out.getD i 0 ∧ out.getD i 0 ≤ ρe * hi / ρi := by
  simp only [thetaStep, if_true] at h
  have hz := triApply_bounds ae res ρe lo hi hae hsumE hres
  have hzl : (triApply ae.toArray res.toArray).length = ai.length := by rw [triApply_length, hlen']
  obtain ⟨hol, hsys⟩ := triSolve_system ai _ out hzl h
  refine ⟨by rw [hol, hlen'], fun i hlt => ?_⟩
  have hi' : i < ai.length := by rw [hlen']; exact hlt
  constructor
  · exact implicit_min_principle ai.length _ _ _ _ _ ρi (ρe * lo) hρi hsys (fun j hj => (hai j hj).1)
      (fun j hj => (hai j hj).2) hsumI (fun j hj => (hz j (by rw [← hlen']; exact hj)).1) i hi'
  · exact implicit_max_principle ai.length _ _ _ _ _ ρi (ρe * hi) hρi hsys (fun j hj => (hai j hj).1)
      (fun j hj => (hai j hj).2) hsumI (fun j hj => (hz j (by rw [← hlen']; exact hj)).2) i hi'

/-- … and the step is monotone: pointwise larger input gives pointwise larger output. -/
theorem thetaStep_mono (ae ai : List (Tri ℝ)) (v w v' w' : List ℝ) (ρi : ℝ) (hρi : 0 < ρi)
    (hlen' : ai.length = ae.length) (hae : WeightsNonneg ae)
    (hai : OffDiagNonpos ai) (hsumI : ∀ i, i < ai.length → effSum ai i = ρi)
    (hvw : ∀ i, i < ae.length → v.getD i 0 ≤ w.getD i 0)
    (hv : thetaStep true true ae ai v = some v') (hw : thetaStep true true ae ai w = some w') :
    ∀ i, i < ae.length → v'.getD i 0 ≤ w'.getD i 0 := by
  simp only [thetaStep, if_true] at hv hw
  have hz := triApply_mono ae v w hae hvw
  obtain ⟨_, hsv⟩ := triSolve_system ai _ v' (by rw [triApply_length, hlen']) hv
  obtain ⟨_, hsw⟩ := triSolve_system ai _ w' (by rw [triApply_length, hlen']) hw
  intro i hi
  exact implicit_monotone ai.length _ _ _ _ _ _ _ ρi hρi hsv hsw (fun j hj => (hai j hj).1)
    (fun j hj => (hai j hj).2) hsumI (fun j hj => hz j (by rw [← hlen']; exact hj)) i (by rw [hlen']; exact hi)


/-- the theta step of `black_scholes_fd` with the code's own matrices `Ae = calculate_fd_matrix(…, dt, 1−θ)`,
`Ai = calculate_fd_matrix(…, −dt, θ)` on any grid with ≥ 2 nodes and constant rate `r`: under the sign conditions
(explicit weights ≥ 0, implicit off-diagonals ≤ 0) values in `[lo, hi]` stay in
`[(1 − dt(1−θ)r)·lo/(1 + dtθr), (1 − dt(1−θ)r)·hi/(1 + dtθr)]`. -/
theorem fd_theta_step_max_principle (nodes : List (Node ℝ)) (dt theta r lo hi : ℝ) (res out : List ℝ)
    (h2 : 2 ≤ nodes.length) (hr : ∀ nd ∈ nodes, nd.r = r) (hρi : 0 < 1 + dt * theta * r)
    (hae : WeightsNonneg (calcFdMatrix nodes dt (1 - theta))) (hai : OffDiagNonpos (calcFdMatrix nodes (-dt) theta))
    (hres : ∀ i, i < nodes.length → lo ≤ res.getD i 0 ∧ res.getD i 0 ≤ hi)
    (h : thetaStep true true (calcFdMatrix nodes dt (1 - theta)) (calcFdMatrix nodes (-dt) theta) res = some out) :
    out.length = nodes.length ∧ ∀ i, i < nodes.length →
      (1 - dt * (1 - theta) * r) * lo / (1 + dt * theta * r) ≤ out.getD i 0 ∧
      out.getD i 0 ≤ (1 - dt * (1 - theta) * r) * hi / (1 + dt * theta * r) := by
  have hle : (calcFdMatrix nodes dt (1 - theta)).length = nodes.length := fdRows_length _ _ _ (Or.inr h2)
  have hli : (calcFdMatrix nodes (-dt) theta).length = nodes.length := fdRows_length _ _ _ (Or.inr h2)
  have e : (1 : ℝ) - -dt * theta * r = 1 + dt * theta * r := by ring
  have := thetaStep_bounds _ _ res out (1 - dt * (1 - theta) * r) (1 + dt * theta * r) lo hi hρi (by rw [hle, hli]) hae
    (fun i hi' => calcFdMatrix_effSum nodes dt (1 - theta) r h2 hr i (by rw [← hle]; exact hi'))
    hai (fun i hi' => by rw [calcFdMatrix_effSum nodes (-dt) theta r h2 hr i (by rw [← hli]; exact hi'), e])
    (by rw [hle]; exact hres) h
  rw [hle] at this
  exact this

/-! ### when do the sign conditions hold?  closed forms of the off-diagonal entries of an interior row -/

theorem fd_interior_a (dtTheta : ℝ) (nd : Node ℝ) (xm x xp : ℝ) (h1 : xm < x) (h2 : x < xp) :
    (fdRow dtTheta nd (dxRow xm x xp) (dxxRow xm x xp)).a =
      dtTheta * (nd.var - nd.mu * (xp - x)) / ((x - xm) * (xp - xm)) := by
  have hl : x - xm ≠ 0 := by linarith
  have hu : xp - x ≠ 0 := by linarith
  have hs : x - xm + (xp - x) ≠ 0 := by linarith
  have hs' : xp - x + (x - xm) ≠ 0 := by linarith
  have hs'' : xp - xm ≠ 0 := by linarith
  simp only [fdRow, dxRow, dxxRow]
  field_simp
  ring

theorem fd_interior_c (dtTheta : ℝ) (nd : Node ℝ) (xm x xp : ℝ) (h1 : xm < x) (h2 : x < xp) :
    (fdRow dtTheta nd (dxRow xm x xp) (dxxRow xm x xp)).c =
      dtTheta * (nd.var + nd.mu * (x - xm)) / ((xp - x) * (xp - xm)) := by
  have hl : x - xm ≠ 0 := by linarith
  have hu : xp - x ≠ 0 := by linarith
  have hs : x - xm + (xp - x) ≠ 0 := by linarith
  have hs' : xp - x + (x - xm) ≠ 0 := by linarith
  have hs'' : xp - xm ≠ 0 := by linarith
  simp only [fdRow, dxRow, dxxRow]
  field_simp
  ring

/-- interior off-diagonals of `Ae` (`dt·(1−θ) > 0`) are ≥ 0, and those of `Ai` (`−dt·θ < 0`) are ≤ 0, exactly when the
local Péclet condition holds: `mu·(x₊ − x) ≤ var` and `−mu·(x − x₋) ≤ var`
(for Black–Scholes on the code's log-uniform grid: `|r−q|·(e^{h} − 1) ≤ σ²`, independent of the node). -/
theorem fd_interior_offdiag_nonneg_iff (dtTheta : ℝ) (hpos : 0 < dtTheta) (nd : Node ℝ) (xm x xp : ℝ) (h1 : xm < x)
    (h2 : x < xp) :
    (0 ≤ (fdRow dtTheta nd (dxRow xm x xp) (dxxRow xm x xp)).a ∧ 0 ≤ (fdRow dtTheta nd (dxRow xm x xp) (dxxRow xm x xp)).c)
      ↔ (nd.mu * (xp - x) ≤ nd.var ∧ -(nd.mu * (x - xm)) ≤ nd.var) := by
  rw [fd_interior_a dtTheta nd xm x xp h1 h2, fd_interior_c dtTheta nd xm x xp h1 h2]
  have d1 : 0 < (x - xm) * (xp - xm) := mul_pos (by linarith) (by linarith)
  have d2 : 0 < (xp - x) * (xp - xm) := mul_pos (by linarith) (by linarith)
  rw [div_nonneg_iff, div_nonneg_iff]
  constructor
  · rintro ⟨ha | ha, hc | hc⟩
    · exact ⟨by nlinarith [ha.1], by nlinarith [hc.1]⟩
    · linarith [hc.2]
    · linarith [ha.2]
    · linarith [ha.2]
  · rintro ⟨ha, hc⟩
    exact ⟨Or.inl ⟨mul_nonneg hpos.le (by linarith), d1.le⟩, Or.inl ⟨mul_nonneg hpos.le (by linarith), d2.le⟩⟩

theorem fd_interior_offdiag_nonpos_iff (dtTheta : ℝ) (hneg : dtTheta < 0) (nd : Node ℝ) (xm x xp : ℝ) (h1 : xm < x)
    (h2 : x < xp) :
    ((fdRow dtTheta nd (dxRow xm x xp) (dxxRow xm x xp)).a ≤ 0 ∧ (fdRow dtTheta nd (dxRow xm x xp) (dxxRow xm x xp)).c ≤ 0)
      ↔ (nd.mu * (xp - x) ≤ nd.var ∧ -(nd.mu * (x - xm)) ≤ nd.var) := by
  rw [fd_interior_a dtTheta nd xm x xp h1 h2, fd_interior_c dtTheta nd xm x xp h1 h2]
  have d1 : 0 < (x - xm) * (xp - xm) := mul_pos (by linarith) (by linarith)
  have d2 : 0 < (xp - x) * (xp - xm) := mul_pos (by linarith) (by linarith)
  rw [div_nonpos_iff, div_nonpos_iff]
  constructor
  · rintro ⟨ha | ha, hc | hc⟩
    · linarith [ha.2]
    · linarith [ha.2]
    · linarith [hc.2]
    · exact ⟨by nlinarith [ha.1], by nlinarith [hc.1]⟩
  · rintro ⟨ha, hc⟩
    exact ⟨Or.inr ⟨mul_nonpos_of_nonpos_of_nonneg hneg.le (by linarith), d1.le⟩,
      Or.inr ⟨mul_nonpos_of_nonpos_of_nonneg hneg.le (by linarith), d2.le⟩⟩


/-! ## the time loop of `black_scholes_fd`: American ≥ European, American ≥ payoff -/

theorem project_length (r g : List ℝ) : (project r g).length = r.length := by
  induction r generalizing g with
  | nil => cases g <;> simp [project]
  | cons a r ih => cases g with
    | nil => simp [project]
    | cons b g => simp [project, ih]

theorem project_getD (r g : List ℝ) (hlen : r.length = g.length) (i : ℕ) (hi : i < r.length) :
    (project r g).getD i 0 = max (r.getD i 0) (g.getD i 0) := by
  induction r generalizing g i with
  | nil => simp at hi
  | cons a r ih =>
    cases g with
    | nil => simp at hlen
    | cons b g =>
      cases i with
      | zero =>
        simp only [project, List.getD_cons_zero]
        split
        · rw [max_eq_right (le_of_lt (by assumption))]
        · rw [max_eq_left (le_of_not_gt (by assumption))]
      | succ k =>
        simp only [project, List.getD_cons_succ]
        exact ih g (by simpa using hlen) k (by simpa using hi)

/-- linear-complementarity form of the projection step `res[res < payoff] = payoff`: the projected vector dominates
both the payoff and the solver's output, and at every node it EQUALS one of the two. -/
theorem project_complementarity (r g : List ℝ) (hlen : r.length = g.length) (i : ℕ) (hi : i < r.length) :
    g.getD i 0 ≤ (project r g).getD i 0 ∧ r.getD i 0 ≤ (project r g).getD i 0 ∧
      ((project r g).getD i 0 - g.getD i 0) * ((project r g).getD i 0 - r.getD i 0) = 0 := by
  rw [project_getD r g hlen i hi]
  refine ⟨le_max_right _ _, le_max_left _ _, ?_⟩
  rcases le_total (r.getD i 0) (g.getD i 0) with h | h
  · rw [max_eq_right h]; ring
  · rw [max_eq_left h]; ring

/-- C12 (finite differences, as coded): with a length-preserving monotone time step, the American loop dominates the
European loop node by node after every number of steps. -/
theorem fdLoop_american_ge_european (N : ℕ) (step : List ℝ → Option (List ℝ)) (payoff : List ℝ) (hpl : payoff.length = N)
    (hstep_len : ∀ v v', v.length = N → step v = some v' → v'.length = N)
    (hmono : ∀ v w v' w', v.length = N → w.length = N → (∀ i, i < N → v.getD i 0 ≤ w.getD i 0) → step v = some v' →
      step w = some w' → ∀ i, i < N → v'.getD i 0 ≤ w'.getD i 0)
    (n : ℕ) (res res' e a : List ℝ) (hl : res.length = N) (hl' : res'.length = N)
    (h : ∀ i, i < N → res.getD i 0 ≤ res'.getD i 0)
    (he : fdLoop false step payoff n res = some e) (ha : fdLoop true step payoff n res' = some a) :
    ∀ i, i < N → e.getD i 0 ≤ a.getD i 0 := by
  induction n generalizing res res' with
  | zero =>
    simp only [fdLoop, Option.some.injEq] at he ha
    subst he; subst ha; exact h
  | succ n ih =>
    unfold fdLoop at he ha
    cases hs : step res with
    | none => rw [hs] at he; simp at he
    | some r =>
      cases hs' : step res' with
      | none => rw [hs'] at ha; simp at ha
      | some r' =>
        rw [hs] at he; rw [hs'] at ha
        simp only [Bool.false_eq_true, if_false, if_true] at he ha
        have hrl := hstep_len _ _ hl hs
        have hrl' := hstep_len _ _ hl' hs'
        have hm := hmono _ _ _ _ hl hl' h hs hs'
        refine ih r (project r' payoff) hrl (by rw [project_length, hrl']) ?_ he ha
        intro i hi
        rw [project_getD r' payoff (by rw [hrl', hpl]) i (by rw [hrl']; exact hi)]
        exact le_trans (hm i hi) (le_max_left _ _)

/-- … and after at least one step every American value dominates the payoff (intrinsic value) of its node. -/
theorem fdLoop_american_ge_payoff (N : ℕ) (step : List ℝ → Option (List ℝ)) (payoff : List ℝ) (hpl : payoff.length = N)
    (hstep_len : ∀ v v', v.length = N → step v = some v' → v'.length = N)
    (n : ℕ) (res a : List ℝ) (hl : res.length = N) (ha : fdLoop true step payoff (n + 1) res = some a) :
    ∀ i, i < N → payoff.getD i 0 ≤ a.getD i 0 := by
  induction n generalizing res with
  | zero =>
    unfold fdLoop at ha
    cases hs : step res with
    | none => rw [hs] at ha; simp at ha
    | some r =>
      rw [hs] at ha
      simp only [if_true, fdLoop, Option.some.injEq] at ha
      subst ha
      have hrl := hstep_len _ _ hl hs
      intro i hi
      rw [project_getD r payoff (by rw [hrl, hpl]) i (by rw [hrl]; exact hi)]
      exact le_max_right _ _
  | succ n ih =>
    unfold fdLoop at ha
    cases hs : step res with
    | none => rw [hs] at ha; simp at ha
    | some r =>
      rw [hs] at ha
      simp only [if_true] at ha
      exact ih (project r payoff) (by rw [project_length]; exact hstep_len _ _ hl hs) ha

/-- the instance for the code's step `fd_roll_backwards` (explicit band product + tridiagonal solve) under the sign
conditions of the discrete maximum principle. -/
theorem fd_american_ge_european (ae ai : List (Tri ℝ)) (ρi : ℝ) (hρi : 0 < ρi) (hlen' : ai.length = ae.length)
    (hae : WeightsNonneg ae) (hai : OffDiagNonpos ai) (hsumI : ∀ i, i < ai.length → effSum ai i = ρi)
    (payoff : List ℝ) (hpl : payoff.length = ae.length) (n : ℕ) (e a : List ℝ)
    (he : fdLoop false (thetaStep true true ae ai) payoff n payoff = some e)
    (ha : fdLoop true (thetaStep true true ae ai) payoff n payoff = some a) :
    ∀ i, i < ae.length → e.getD i 0 ≤ a.getD i 0 := by
  refine fdLoop_american_ge_european ae.length _ payoff hpl ?_ ?_ n payoff payoff e a hpl hpl (fun _ _ => le_refl _) he ha
  · intro v v' _ hv
    simp only [thetaStep, if_true] at hv
    rw [(triSolve_system ai _ v' (by rw [triApply_length, hlen']) hv).1, hlen']
  · intro v w v' w' _ _ hvw hv hw
    exact thetaStep_mono ae ai v w v' w' ρi hρi hlen' hae hai hsumI hvw hv hw

theorem fd_american_ge_payoff (ae ai : List (Tri ℝ)) (hlen' : ai.length = ae.length)
    (payoff : List ℝ) (hpl : payoff.length = ae.length) (n : ℕ) (a : List ℝ)
    (ha : fdLoop true (thetaStep true true ae ai) payoff (n + 1) payoff = some a) :
    ∀ i, i < ae.length → payoff.getD i 0 ≤ a.getD i 0 := by
  refine fdLoop_american_ge_payoff ae.length _ payoff hpl ?_ n payoff a hpl ha
  intro v v' _ hv
  simp only [thetaStep, if_true] at hv
  rw [(triSolve_system ai _ v' (by rw [triApply_length, hlen']) hv).1, hlen']


/-! ## PSOR: what a fixed point of the sweep satisfies -/

/-- the interior equations `a_j·x_{j−1} + b_j·x_j + c_j·x_{j+1} = z_j` along the lists (left neighbour `p` first) -/
def SorEqs (p : ℝ) : List (Tri ℝ) → List ℝ → List ℝ → Prop
  | t :: ts, z :: zs, o :: on :: olds => t.a * p + t.b * o + t.c * on = z ∧ SorEqs o ts zs (on :: olds)
  | _, _, _ => True

theorem sorSweepAux_fixed_point (omega : ℝ) (hω : omega ≠ 0) (ts : List (Tri ℝ)) :
    ∀ (p : ℝ) (zs olds : List ℝ), (∀ t ∈ ts, t.b ≠ 0) → sorSweepAux omega p ts zs olds = olds → SorEqs p ts zs olds := by
  induction ts with
  | nil => intro p zs olds _ _; simp [SorEqs]
  | cons t ts ih =>
    intro p zs olds hb h
    cases zs with
    | nil => simp [SorEqs]
    | cons z zs =>
      cases olds with
      | nil => simp [SorEqs]
      | cons o olds' =>
        cases olds' with
        | nil => simp [SorEqs]
        | cons on olds'' =>
          simp only [sorSweepAux, List.cons.injEq] at h
          obtain ⟨h1, h2⟩ := h
          have hb0 : t.b ≠ 0 := hb t (by simp)
          simp only [SorEqs]
          rw [h1] at h2
          refine ⟨?_, ih o zs (on :: olds'') (fun t' ht' => hb t' (by simp [ht'])) h2⟩
          have h3 : omega * ((z - t.a * p - t.c * on) / t.b - o) = 0 := by linarith
          have h4 : (z - t.a * p - t.c * on) / t.b - o = 0 := by
            rcases mul_eq_zero.mp h3 with h | h
            · exact absurd h hω
            · exact h
          have h5 : (z - t.a * p - t.c * on) / t.b = o := by linarith
          rw [div_eq_iff hb0] at h5
          linarith

/-- C12 (PSOR as coded): a fixed point of the SOR sweep (`omega ≠ 0`, non-zero diagonal) solves every INTERIOR equation
of `Ai x = z` exactly; the first and last entries are never updated by the sweep (they keep the values of the previous
time level — the code's PSOR uses no boundary rows). -/
theorem sorSweep_fixed_point (omega : ℝ) (hω : omega ≠ 0) (t0 : Tri ℝ) (ts : List (Tri ℝ)) (z0 : ℝ) (zs : List ℝ)
    (o0 : ℝ) (olds : List ℝ) (hb : ∀ t ∈ ts, t.b ≠ 0)
    (h : sorSweep omega (t0 :: ts) (z0 :: zs) (o0 :: olds) = o0 :: olds) : SorEqs o0 ts zs olds := by
  simp only [sorSweep, List.cons.injEq, true_and] at h
  exact sorSweepAux_fixed_point omega hω ts o0 zs olds hb h

/-- the sweep never touches the first entry -/
theorem sorSweep_head (omega : ℝ) (rows : List (Tri ℝ)) (z : List ℝ) (o0 : ℝ) (olds : List ℝ) :
    (sorSweep omega rows z (o0 :: olds)).head? = some o0 := by
  cases rows with
  | nil => simp [sorSweep]
  | cons t ts => cases z with
    | nil => simp [sorSweep]
    | cons z0 zs => simp [sorSweep]

/-- when the loop of `PSOR` stops with `delta = Σ (new − old)² = 0` the last sweep was a fixed point -/
theorem sumSqDiff_eq_zero (a b : List ℝ) (hlen : a.length = b.length) (h : sumSqDiff a b = 0) : a = b := by
  unfold sumSqDiff at h
  have key : ∀ (l : List ℝ) (acc : ℝ), (∀ x ∈ l, 0 ≤ x) → 0 ≤ acc → l.foldl (· + ·) acc = 0 → acc = 0 ∧ ∀ x ∈ l, x = 0 := by
    intro l
    induction l with
    | nil => intro acc _ _ h; exact ⟨by simpa using h, by simp⟩
    | cons y l ih =>
      intro acc hl hacc h
      simp only [List.foldl_cons] at h
      have hy : 0 ≤ y := hl y (by simp)
      obtain ⟨h1, h2⟩ := ih (acc + y) (fun x hx => hl x (by simp [hx])) (by linarith) h
      refine ⟨by linarith, ?_⟩
      intro x hx
      rcases List.mem_cons.mp hx with rfl | hx
      · linarith
      · exact h2 x hx
  induction a generalizing b with
  | nil => cases b with
    | nil => rfl
    | cons _ _ => simp at hlen
  | cons x a ih =>
    cases b with
    | nil => simp at hlen
    | cons y b =>
      have hnn : ∀ w ∈ List.zipWith (fun x y : ℝ => (x - y) * (x - y)) (x :: a) (y :: b), 0 ≤ w := by
        intro w hw
        rw [List.mem_iff_getElem] at hw
        obtain ⟨i, hi, rfl⟩ := hw
        simp only [List.getElem_zipWith]
        exact mul_self_nonneg _
      obtain ⟨_, hz⟩ := key _ 0 hnn (le_refl 0) h
      have hx : (x - y) * (x - y) = 0 := hz _ (by simp)
      have hxy : x = y := by
        have := mul_self_eq_zero.mp hx; linarith
      subst hxy
      congr 1
      apply ih b (by simpa using hlen)
      have hz' : ∀ w ∈ List.zipWith (fun x y : ℝ => (x - y) * (x - y)) a b, w = 0 := fun w hw => hz w (by simp [hw])
      have : ∀ (l : List ℝ), (∀ w ∈ l, w = 0) → l.foldl (· + ·) 0 = 0 := by
        intro l hl
        induction l with
        | nil => rfl
        | cons w l ihl =>
          simp only [List.foldl_cons]
          rw [hl w (by simp), add_zero]
          exact ihl (fun w' hw' => hl w' (by simp [hw']))
      exact this _ hz'


/-! ## non-vacuity -/

/-- a three-node grid `x = 0, 1, 2`, pure diffusion (`mu = 0`, `var = 2`), `r = 1/10`, `dt = 1/2`, `θ = 1/2` -/
noncomputable def exNodes : List (Node ℝ) := [⟨0, 1/10, 0, 2⟩, ⟨1, 1/10, 0, 2⟩, ⟨2, 1/10, 0, 2⟩]

example : calcFdMatrix exNodes (1/2) (1 - 1/2) = [⟨0, 39/40, 0⟩, ⟨1/4, 19/40, 1/4⟩, ⟨0, 39/40, 0⟩] := by
  simp [exNodes, calcFdMatrix, fdRows, fdRow, dxRow, dxxRow, dxFirst, dxLast, zeroTri]
  norm_num

example : WeightsNonneg (calcFdMatrix exNodes (1/2) (1 - 1/2)) ∧ OffDiagNonpos (calcFdMatrix exNodes (-(1/2)) (1/2)) ∧
    (0 : ℝ) < 1 + 1/2 * (1/2) * (1/10) := by
  refine ⟨?_, ?_, by norm_num⟩
  · intro i hi
    have : i < 3 := by simpa [exNodes, calcFdMatrix, fdRows] using hi
    interval_cases i <;>
      simp [exNodes, calcFdMatrix, fdRows, fdRow, dxRow, dxxRow, dxFirst, dxLast, zeroTri] <;> norm_num
  · intro i hi
    have : i < 3 := by simpa [exNodes, calcFdMatrix, fdRows] using hi
    interval_cases i <;>
      simp [exNodes, calcFdMatrix, fdRows, fdRow, dxRow, dxxRow, dxFirst, dxLast, zeroTri] <;> norm_num

/-- the maximum principle is about solvable systems: `2·x₀ = 4` -/
example : ∀ i, i < 1 → (fun _ => (2 : ℝ)) i ≤ 4 / 2 :=
  implicit_max_principle 1 (fun _ => 0) (fun _ => 2) (fun _ => 0) (fun _ => 4) (fun _ => 2) 2 4 (by norm_num)
    (by intro i hi; have : i = 0 := by omega
        subst this; norm_num)
    (by intro _ _; norm_num) (by intro _ _; norm_num)
    (by intro i hi; have : i = 0 := by omega
        subst this; norm_num)
    (by intro _ _; norm_num)

/-- a fixed point of the sweep: `x = [1, 2, 3]` with row `(1, −2, 1)`, `z = 0` (`1 − 4 + 3 = 0`) -/
example : sorSweep (3/2 : ℝ) [⟨0, 1, 0⟩, ⟨1, -2, 1⟩, ⟨0, 1, 0⟩] [0, 0, 0] [1, 2, 3] = [1, 2, 3] := by
  simp [sorSweep, sorSweepAux]
  norm_num

end FinVerif.Props.C12
