/-
  C12 (part d) — the closed-form parts of the Barone-Adesi–Whaley approximation AS CODED: theorems about the GENERATED
  model `Gen/BAWP.lean` (regenerated from `black_scholes_analytic.py` on every run: `_fcall`, `_fput`, `baw_value` with
  the root-finder call replaced by the parameter `sstar_in`; the normal cdf abstracted to `Ncdf`).
  Proved for all inputs: calls with `q ≤ 0` ARE the European value; exercise region = intrinsic; on the continuation
  branch value ≥ European (premium = product of non-negative factors, `q2 > 0`, `q1 < 0` for `r > 0`); the jump of the
  call value at `S*` is exactly minus the residual `_fcall(S*)` (continuity ⇔ solver post-condition); for the put the
  jump is minus the SPECIFICATION residual, which the generated `_fput` is not: `_fput` raises on every input
  (`bs_value(…, -1)`) — finding C12/baw-fput-wrong-residual.  Accuracy of the approximation is NOT a theorem.
-/
import FinVerif.Gen.BAWP
import Mathlib.Tactic.Linarith
import Mathlib.Tactic.Ring
import Mathlib.Tactic.FieldSimp
import Mathlib.Tactic.Positivity
import Mathlib.Tactic.NormNum

namespace FinVerif.Props.C12
open FinVerif FinVerif.Gen.BAWP

variable (Ncdf : ℝ → ℝ)

theorem bs_value_call_ok (s t k r q v : ℝ) :
    FinVerif.Gen.BSP.bs_value Ncdf s t k r q v 1 = .ok (bsVal Ncdf s t k r q v 1) ∧ bsFails Ncdf s t k r q v 1 = false := by
  simp [bsVal, bsFails, FinVerif.Gen.BSP.bs_value]

theorem bs_value_put_ok (s t k r q v : ℝ) :
    FinVerif.Gen.BSP.bs_value Ncdf s t k r q v 2 = .ok (bsVal Ncdf s t k r q v 2) ∧ bsFails Ncdf s t k r q v 2 = false := by
  simp [bsVal, bsFails, FinVerif.Gen.BSP.bs_value]

theorem bsFails_minus_one (s t k r q v : ℝ) : bsFails Ncdf s t k r q v (-1) = true := by
  simp [bsFails, FinVerif.Gen.BSP.bs_value]

/-- FINDING (root cause of the wrong BAW put critical prices): `_fput` calls `bs_value(si, t, k, r, q, v, -1)`; `-1` is not
an option type value, so under Python semantics EVERY evaluation of `_fput` raises FinError.  (The Numba-compiled `_fput`
swallows the error and continues with 0 — measured by the harness.) -/
theorem fput_always_raises (si t k r q v : ℝ) : fput Ncdf si t k r q v = .error .finError := by
  simp only [fput]
  rw [show (-(1 : Int)) = -1 from rfl, bsFails_minus_one]
  simp

/-- C12 "equals the European value when early exercise is never optimal (calls with no dividends)": for `q ≤ 0` the BAW
call AS CODED is the European value, whatever the solver would return. -/
theorem baw_call_no_dividends_is_european (s t k r q v sstar : ℝ) (hq : q ≤ 0) :
    baw_value Ncdf s t k r q v 1 sstar = FinVerif.Gen.BSP.bs_value Ncdf s t k r q v 1 := by
  have hb : r - q ≥ r := by linarith
  simp only [baw_value, decide_true, if_true, decide_eq_true hb, (bs_value_call_ok Ncdf s t k r q v).2,
    (bs_value_call_ok Ncdf s t k r q v).1]
  simp

/-- in the exercise region (spot at or beyond the critical price the solver returned) the value is the intrinsic value -/
theorem baw_call_exercise_region (s t k r q v sstar : ℝ) (hq : 0 < q) (hs : sstar ≤ s) :
    baw_value Ncdf s t k r q v 1 sstar = .ok (s - k) := by
  have hb : ¬ (r - q ≥ r) := by intro h; linarith
  have hs' : ¬ (s < sstar) := not_lt.mpr hs
  simp [baw_value, hb, hs']

theorem baw_put_exercise_region (s t k r q v sstar : ℝ) (hs : s ≤ sstar) :
    baw_value Ncdf s t k r q v (-1) sstar = .ok (k - s) := by
  have hs' : ¬ (s > sstar) := not_lt.mpr hs
  simp [baw_value, hs']

theorem baw_value_bad_phi (s t k r q v sstar : ℝ) (phi : Int) (h1 : phi ≠ 1) (h2 : phi ≠ -1) :
    baw_value Ncdf s t k r q v phi sstar = .error .finError := by
  simp [baw_value, h1, h2]


/-! ### the continuation branch: early-exercise premium, value matching at the critical price -/

/-- `q2` of `baw_value` / `_fcall` -/
noncomputable def bawQ2 (t r q v : ℝ) : ℝ :=
  (-1 * (2 * (r - q) / (v * v) - 1) + Real.sqrt ((2 * (r - q) / (v * v) - 1) ^ 2 + 4 * (2 * r / (v * v)) / (1 - Real.exp (-r * t)))) / 2

/-- `q1` of `baw_value` -/
noncomputable def bawQ1 (t r q v : ℝ) : ℝ :=
  (-1 * (2 * (r - q) / (v * v) - 1) - Real.sqrt ((2 * (r - q) / (v * v) - 1) ^ 2 + 4 * (2 * r / (v * v)) / (1 - Real.exp (-r * t)))) / 2

/-- `d1` at the critical price -/
noncomputable def bawD1 (x t k r q v : ℝ) : ℝ :=
  (Real.log (x / k) + ((r - q) + v * v / 2) * t) / (v * Real.sqrt t)

/-- continuation value of the call as coded: `bs_value + A2·(s/S*)^q2` -/
noncomputable def bawCallCont (s t k r q v sstar : ℝ) : ℝ :=
  bsVal Ncdf s t k r q v 1 +
    (sstar / bawQ2 t r q v) * (1 - Real.exp (-q * t) * Ncdf (bawD1 sstar t k r q v)) * Real.rpow (s / sstar) (bawQ2 t r q v)

/-- continuation value of the put as coded: `bs_value + a1·(s/S*)^q1` -/
noncomputable def bawPutCont (s t k r q v sstar : ℝ) : ℝ :=
  bsVal Ncdf s t k r q v 2 +
    (-(sstar / bawQ1 t r q v)) * (1 - Real.exp (-q * t) * Ncdf (-bawD1 sstar t k r q v)) * Real.rpow (s / sstar) (bawQ1 t r q v)

theorem baw_call_continuation_shape (s t k r q v sstar : ℝ) (hq : 0 < q) (hs : s < sstar) :
    baw_value Ncdf s t k r q v 1 sstar = .ok (bawCallCont Ncdf s t k r q v sstar) := by
  have hb : ¬ (r - q ≥ r) := by intro h; linarith
  simp only [baw_value, decide_true, if_true, decide_eq_false hb, decide_eq_true hs,
    (bs_value_call_ok Ncdf s t k r q v).2, bawCallCont, bawQ2, bawD1]
  simp

theorem baw_put_continuation_shape (s t k r q v sstar : ℝ) (hs : sstar < s) :
    baw_value Ncdf s t k r q v (-1) sstar = .ok (bawPutCont Ncdf s t k r q v sstar) := by
  have hs' : s > sstar := hs
  simp only [baw_value, decide_eq_true hs', (bs_value_put_ok Ncdf s t k r q v).2, bawPutCont, bawQ1, bawD1]
  simp

theorem baw_disc_pos (t r v : ℝ) (hr : 0 < r) (ht : 0 < t) (hv : v ≠ 0) :
    0 < 4 * (2 * r / (v * v)) / (1 - Real.exp (-r * t)) := by
  have hvv : 0 < v * v := mul_self_pos.mpr hv
  have hK : 0 < 1 - Real.exp (-r * t) := by
    have : Real.exp (-r * t) < 1 := by
      rw [Real.exp_lt_one_iff]
      nlinarith
    linarith
  positivity


/-- `q2 > 0` and `q1 < 0` for `r > 0`, `t > 0`, `v ≠ 0` -/
theorem bawQ2_pos (t r q v : ℝ) (hr : 0 < r) (ht : 0 < t) (hv : v ≠ 0) : 0 < bawQ2 t r q v := by
  have hd := baw_disc_pos t r v hr ht hv
  unfold bawQ2
  set w := 2 * (r - q) / (v * v) - 1
  set D := 4 * (2 * r / (v * v)) / (1 - Real.exp (-r * t))
  have h1 : |w| < Real.sqrt (w ^ 2 + D) := by
    rw [← Real.sqrt_sq_eq_abs]
    exact Real.sqrt_lt_sqrt (sq_nonneg w) (by linarith)
  have h2 : w ≤ |w| := le_abs_self w
  linarith

theorem bawQ1_neg (t r q v : ℝ) (hr : 0 < r) (ht : 0 < t) (hv : v ≠ 0) : bawQ1 t r q v < 0 := by
  have hd := baw_disc_pos t r v hr ht hv
  unfold bawQ1
  set w := 2 * (r - q) / (v * v) - 1
  set D := 4 * (2 * r / (v * v)) / (1 - Real.exp (-r * t))
  have h1 : |w| < Real.sqrt (w ^ 2 + D) := by
    rw [← Real.sqrt_sq_eq_abs]
    exact Real.sqrt_lt_sqrt (sq_nonneg w) (by linarith)
  have h2 : -w ≤ |w| := neg_le_abs w
  linarith

/-- C12 "at least the European value" for the BAW call AS CODED, continuation branch: for `r > 0`, `q > 0`, a positive
critical price and a cdf with values in [0, 1] the early-exercise premium `A2·(s/S*)^q2` is a product of non-negative
factors. -/
theorem baw_call_ge_european_continuation (s t k r q v sstar : ℝ) (hr : 0 < r) (hq : 0 < q) (ht : 0 < t) (hv : v ≠ 0)
    (hs0 : 0 ≤ s) (hs : s < sstar) (hN : ∀ x, 0 ≤ Ncdf x ∧ Ncdf x ≤ 1) :
    ∃ c e, baw_value Ncdf s t k r q v 1 sstar = .ok c ∧ FinVerif.Gen.BSP.bs_value Ncdf s t k r q v 1 = .ok e ∧ e ≤ c := by
  refine ⟨_, _, baw_call_continuation_shape Ncdf s t k r q v sstar hq hs, (bs_value_call_ok Ncdf s t k r q v).1, ?_⟩
  unfold bawCallCont
  have hq2 := bawQ2_pos t r q v hr ht hv
  have hss : 0 < sstar := lt_of_le_of_lt hs0 hs
  have hexp : Real.exp (-q * t) ≤ 1 := by
    rw [Real.exp_le_one_iff]; nlinarith
  have hexp0 : 0 ≤ Real.exp (-q * t) := (Real.exp_pos _).le
  obtain ⟨hn0, hn1⟩ := hN (bawD1 sstar t k r q v)
  have hfac : 0 ≤ 1 - Real.exp (-q * t) * Ncdf (bawD1 sstar t k r q v) := by nlinarith
  have hpow : 0 ≤ Real.rpow (s / sstar) (bawQ2 t r q v) := Real.rpow_nonneg (div_nonneg hs0 hss.le) _
  have : 0 ≤ sstar / bawQ2 t r q v * (1 - Real.exp (-q * t) * Ncdf (bawD1 sstar t k r q v)) *
      Real.rpow (s / sstar) (bawQ2 t r q v) := mul_nonneg (mul_nonneg (div_nonneg hss.le hq2.le) hfac) hpow
  linarith

theorem baw_put_ge_european_continuation (s t k r q v sstar : ℝ) (hr : 0 < r) (hq : 0 ≤ q) (ht : 0 < t) (hv : v ≠ 0)
    (hss : 0 < sstar) (hs : sstar < s) (hN : ∀ x, 0 ≤ Ncdf x ∧ Ncdf x ≤ 1) :
    ∃ c e, baw_value Ncdf s t k r q v (-1) sstar = .ok c ∧ FinVerif.Gen.BSP.bs_value Ncdf s t k r q v 2 = .ok e ∧ e ≤ c := by
  refine ⟨_, _, baw_put_continuation_shape Ncdf s t k r q v sstar hs, (bs_value_put_ok Ncdf s t k r q v).1, ?_⟩
  unfold bawPutCont
  have hq1 := bawQ1_neg t r q v hr ht hv
  have hexp : Real.exp (-q * t) ≤ 1 := by
    rw [Real.exp_le_one_iff]; nlinarith
  have hexp0 : 0 ≤ Real.exp (-q * t) := (Real.exp_pos _).le
  obtain ⟨hn0, hn1⟩ := hN (-bawD1 sstar t k r q v)
  have hfac : 0 ≤ 1 - Real.exp (-q * t) * Ncdf (-bawD1 sstar t k r q v) := by nlinarith
  have hpow : 0 ≤ Real.rpow (s / sstar) (bawQ1 t r q v) := Real.rpow_nonneg (div_nonneg (by linarith) hss.le) _
  have hcoef : 0 ≤ -(sstar / bawQ1 t r q v) := by
    rw [neg_nonneg]; exact div_nonpos_of_nonneg_of_nonpos hss.le hq1.le
  have : 0 ≤ -(sstar / bawQ1 t r q v) * (1 - Real.exp (-q * t) * Ncdf (-bawD1 sstar t k r q v)) *
      Real.rpow (s / sstar) (bawQ1 t r q v) := mul_nonneg (mul_nonneg hcoef hfac) hpow
  linarith

/-- shape of the generated `_fcall`: the residual of the critical-price equation of the call -/
theorem fcall_shape (x t k r q v : ℝ) :
    fcall Ncdf x t k r q v = .ok ((x - k) - bsVal Ncdf x t k r q v 1 -
      (1 - Real.exp (-q * t) * Ncdf (bawD1 x t k r q v)) * x / bawQ2 t r q v) := by
  simp only [fcall, (bs_value_call_ok Ncdf x t k r q v).2, bawQ2, bawD1]
  simp

/-- C12 BAW call AS CODED, value matching: the jump of the value at the critical price (continuation formula evaluated
at `S*` minus the exercise value `S* − k` returned there) is EXACTLY minus the residual `_fcall(S*)` of the equation
that the root finder is asked to solve — the value is continuous at `S*` iff the solver's post-condition `f(S*) = 0`
holds, and `|jump| ≤ tol` if `|f(S*)| ≤ tol`. -/
theorem baw_call_jump_eq_neg_residual (t k r q v sstar res : ℝ) (hss : 0 < sstar)
    (hres : fcall Ncdf sstar t k r q v = .ok res) :
    bawCallCont Ncdf sstar t k r q v sstar - (sstar - k) = -res := by
  rw [fcall_shape] at hres
  simp only [Except.ok.injEq] at hres
  unfold bawCallCont
  rw [div_self hss.ne']
  have : Real.rpow 1 (bawQ2 t r q v) = 1 := Real.one_rpow _
  rw [this, ← hres]
  ring

theorem baw_call_continuous_at_sstar (t k r q v sstar : ℝ) (hq : 0 < q) (hss : 0 < sstar)
    (hres : fcall Ncdf sstar t k r q v = .ok 0) :
    baw_value Ncdf sstar t k r q v 1 sstar = .ok (bawCallCont Ncdf sstar t k r q v sstar) := by
  rw [baw_call_exercise_region Ncdf sstar t k r q v sstar hq (le_refl _)]
  have := baw_call_jump_eq_neg_residual Ncdf t k r q v sstar 0 hss hres
  congr 1
  linarith

/-- the residual that the put's critical price SHOULD annihilate (Barone-Adesi & Whaley 1987, with `baw_value`'s own `q1`):
`(k − x) − p(x) + (1 − e^{−qt}·N(−d1(x)))·x/q1`. -/
noncomputable def bawPutResidualSpec (x t k r q v : ℝ) : ℝ :=
  (k - x) - bsVal Ncdf x t k r q v 2 + (1 - Real.exp (-q * t) * Ncdf (-bawD1 x t k r q v)) * x / bawQ1 t r q v

/-- BAW put AS CODED: the jump of the value at the critical price is minus the SPECIFICATION residual at `S*`.  The
generated `_fput` is not this function (it raises — `fput_always_raises` — and, as compiled, evaluates a different
expression), so nothing makes the coded put value continuous at the `S*` it uses. -/
theorem baw_put_jump_eq_neg_spec_residual (t k r q v sstar : ℝ) (hss : 0 < sstar) :
    bawPutCont Ncdf sstar t k r q v sstar - (k - sstar) = -bawPutResidualSpec Ncdf sstar t k r q v := by
  unfold bawPutCont bawPutResidualSpec
  rw [div_self hss.ne']
  have : Real.rpow 1 (bawQ1 t r q v) = 1 := Real.one_rpow _
  rw [this]
  ring

/-- non-vacuity of the hypotheses on the cdf: a constant 1/2 "cdf" (the theorems quantify over every `Ncdf`, the Hull
polynomial of the code included — its range is validated by C05/C20). -/
example : ∃ c e, baw_value (fun _ => (1/2 : ℝ)) 90 1 100 (5/100) (2/100) (2/10) 1 120 = .ok c ∧
    FinVerif.Gen.BSP.bs_value (fun _ => (1/2 : ℝ)) 90 1 100 (5/100) (2/100) (2/10) 1 = .ok e ∧ e ≤ c :=
  baw_call_ge_european_continuation _ 90 1 100 (5/100) (2/100) (2/10) 120 (by norm_num) (by norm_num) (by norm_num)
    (by norm_num) (by norm_num) (by norm_num) (fun _ => by norm_num)

end FinVerif.Props.C12
