/-
  C12 (part e) — the LOOPS of `equity_crr_tree.crr_tree_val` are GENERATED (`Gen/CrrLoopR.lean`, cut out of the source's
  `for` statements by `tools/py2lean/registry/crrloops.py`: range bounds, initial values, bodies, flat-array subscripts)
  and the hand-written lattice model (`Model/C12.lean`) is proved to BE those loops:

  * frame: every loop header / initial value / body is the one the hand model uses (`*_is_generated`);
  * layout: the flat subscripts are the triangular layout `tri i + j`, the reads of the backward step are exactly the
    cells the next layer stored, no cell is out of range, layers do not overlap;
  * whole function: the Python program on flat arrays — nested `for` loops assembled ONLY from generated pieces
    (`pyCrrPrice`) — returns the hand model's root value `crrRoot` = `(crrValues …).headD 0`, for every step count;
  * corollaries that become statements about the generated program: put–call parity with the generated parameters.
-/
import FinVerif.Props.C12b
import FinVerif.Gen.CrrLoopR
import FinVerif.Lemmas.C12Loop

namespace FinVerif.Props.C12
open FinVerif FinVerif.Model.C12 FinVerif.Gen.CrrLoopR FinVerif.Lemmas.C12

/-! ### option-type decoding (as `crrTreeVal`: `amer := t == 3 || t == 4`, `isCall := t == 1 || t == 3`) -/

def amerOf (t : Int) : Bool := t == 3 || t == 4
def isCallOf (t : Int) : Bool := t == 1 || t == 3

/-- the four `OptionTypes` values `crr_tree_val` handles -/
def crrType (t : Int) : Prop := t = 1 ∨ t = 2 ∨ t = 3 ∨ t = 4

/-! ### frame: headers, initial values, scalar pieces -/

/-- the step-count rule of the hand model IS the generated one -/
theorem crr_steps_is_generated (n : ℕ) (e : Int) : crr_steps (n : Int) e = (crrSteps n e : Int) := by
  unfold crr_steps crrSteps
  have h0 : (((n : Int) % 2 = 0) ↔ (n % 2 = 0)) := by omega
  have h1 : (((n : Int) % 2 = 1) ↔ (n % 2 = 1)) := by omega
  by_cases a : n % 2 = 0 <;> by_cases b : e = 0 <;> by_cases c : e = 1 <;>
    simp [a, b, c, h0, h1]

/-- `range(0, num_steps)` for the probabilities, `range(1, num_steps + 1)` for the lattice, `range(0, i_time + 1)` for
every node loop, `range(num_steps - 1, -1, -1)` for the backward induction -/
theorem crr_ranges_are_generated (n i : Int) :
    crr_prob_range n = (0, n) ∧ crr_lat_range n = (1, n + 1) ∧ crr_lat_inner_range i = (0, i + 1) ∧
      crr_term_range i = (0, i + 1) ∧ crr_back_range n = (n - 1, -1, -1) ∧ crr_back_inner_range i = (0, i + 1) ∧
      crr_price_idx = 0 :=
  ⟨rfl, rfl, rfl, rfl, rfl, rfl, rfl⟩

/-- the expiry loop runs over the LAST layer built by the lattice loop (it re-uses the lattice loop's variable) -/
theorem crr_term_range_is_last_layer (n : Int) :
    crr_term_range ((crr_lat_range n).2 - 1) = crr_lat_inner_range n := by
  simp [crr_term_range, crr_lat_range, crr_lat_inner_range]

/-- every `probs[i_time]` / `period_dfs[i_time]` read by the backward loop was written by the initialisation loop -/
theorem crr_back_reads_initialised_probs (n : ℕ) (k : ℕ) (hk : k < n) :
    (crr_prob_range n).1 ≤ (crr_back_range n).1 - (k : Int) ∧ (crr_back_range n).1 - (k : Int) < (crr_prob_range n).2 := by
  simp only [crr_prob_range, crr_back_range]; omega

/-- `u = e^{σ√dt}`, `d = 1/u`, `p = (e^{(r−q)dt} − d)/(u − d)`, `df = e^{−r dt}`, `dt = T/n`, `(r, q)` as passed -/
theorem crr_parameters_are_generated (vol dt r q u d T : ℝ) (n : Int) :
    crr_ud vol dt = (Real.exp (vol * Real.sqrt dt), 1 / Real.exp (vol * Real.sqrt dt)) ∧
      crr_prob_step r q dt u d = ((Real.exp ((r - q) * dt) - d) / (u - d), Real.exp (-r * dt)) ∧
      crr_dt T n = T / (n : ℝ) ∧ crr_rq r q = (r, q) :=
  ⟨rfl, rfl, rfl, rfl⟩

/-- the lattice starts at the spot: `stock_values[0] = s_low = stock_price` -/
theorem crr_lat_init_is_generated (s0 : ℝ) : crr_lat_init s0 = (s0, s0) := rfl

/-- one unfolding of the hand model's `sLow` = the generated outer statement `s_low *= d; s = s_low` -/
theorem sLow_step_is_generated (d s : ℝ) (i : ℕ) :
    sLow d (i + 1) s = sLow d i (crr_lat_outer_step s d).1 ∧ (crr_lat_outer_step s d).2 = (crr_lat_outer_step s d).1 :=
  ⟨rfl, rfl⟩

/-- one unfolding of the hand model's `layer` = the generated inner body (store `s`, then `s = s * (u * u)`) -/
theorem layer_step_is_generated (u s : ℝ) (k : ℕ) :
    layer (u * u) (k + 1) s = (crr_lat_inner_step s u).1 :: layer (u * u) k (crr_lat_inner_step s u).2 := rfl

/-- the value stored at expiry IS the hand model's payoff -/
theorem payoff_is_generated_terminal (t : Int) (ht : crrType t) (K s : ℝ) :
    crr_term_node t K s = payoff (isCallOf t) K s := by
  rcases ht with rfl | rfl | rfl | rfl <;> simp [crr_term_node, payoff, isCallOf, maxG_eq_max]

/-- the value stored at an interior node IS the hand model's backward step (order of operations included) -/
theorem back_node_is_generated (t : Int) (ht : crrType t) (K s vup vdn p df : ℝ) :
    crr_back_node t K s vup vdn p df =
      (if amerOf t then maxG (payoff (isCallOf t) K s) (df * (p * vup + (1 - p) * vdn)) else df * (p * vup + (1 - p) * vdn)) := by
  rcases ht with rfl | rfl | rfl | rfl <;> simp [crr_back_node, payoff, isCallOf, amerOf, maxG_eq_max]

/-- one unfolding of the hand model's `stepFrom` = one generated node body -/
theorem stepFrom_step_is_generated (t : Int) (ht : crrType t) (K s p df : ℝ) (ex : ℕ → ℝ) (j : ℕ)
    (hex : ex j = payoff (isCallOf t) K s) (vdn vup : ℝ) (rest : List ℝ) :
    stepFrom (amerOf t) p df ex j (vdn :: vup :: rest) =
      crr_back_node t K s vup vdn p df :: stepFrom (amerOf t) p df ex (j + 1) (vup :: rest) := by
  rw [back_node_is_generated t ht]
  simp only [stepFrom, hex]

/-! ### layout of the flat arrays -/

theorem crr_lat_store_idx_is_tri (i j : ℕ) : crr_lat_store_idx (i : Int) (j : Int) = ((tri i + j : ℕ) : ℝ) := by
  simp only [crr_lat_store_idx]
  push_cast
  rw [← tri_real i]

theorem crr_bases_are_tri (i : ℕ) :
    crr_term_base (i : Int) = (tri i : ℝ) ∧ crr_back_base (i : Int) = (tri i : ℝ) ∧
      crr_back_next_base (i : Int) = (tri (i + 1) : ℝ) ∧ crr_num_nodes (i : Int) = (tri (i + 1) : ℝ) := by
  refine ⟨?_, ?_, ?_, ?_⟩
  · simp only [crr_term_base]; push_cast; rw [← tri_real i]
  · simp only [crr_back_base]; push_cast; rw [← tri_real i]
  · simp only [crr_back_next_base]; push_cast; rw [← tri_real (i + 1)]; push_cast; ring
  · simp only [crr_num_nodes]; push_cast; rw [← tri_real (i + 1)]; push_cast; ring

/-- every `int(·)` of the function is applied to an integer (the truncation never changes a value) -/
theorem crr_int_casts_are_exact (i j : ℕ) :
    pyInt (crr_lat_store_idx (i : Int) (j : Int)) = tri i + j ∧ pyInt (crr_term_base (i : Int)) = tri i ∧
      pyInt (crr_back_base (i : Int)) = tri i ∧ pyInt (crr_back_next_base (i : Int)) = tri (i + 1) ∧
      pyInt (crr_num_nodes (i : Int)) = tri (i + 1) := by
  obtain ⟨h1, h2, h3, h4⟩ := crr_bases_are_tri i
  rw [crr_lat_store_idx_is_tri, h1, h2, h3, h4]
  exact ⟨pyInt_natCast _, pyInt_natCast _, pyInt_natCast _, pyInt_natCast _, pyInt_natCast _⟩

theorem crr_back_idx_spec (a b k : ℕ) :
    crr_back_idx (a : Int) (b : Int) (k : Int) = (((a + k : ℕ) : Int), ((b + k : ℕ) : Int), ((b + k + 1 : ℕ) : Int)) := by
  simp only [crr_back_idx]; push_cast; rfl

/-- the backward step of node `(i, j)` stores where the lattice loop stored the node's stock price, reads `v_dn` from
the cell of node `(i+1, j)` and `v_up` from the cell of node `(i+1, j+1)` -/
theorem crr_back_reads_are_next_layer_stores (i j : ℕ) :
    crr_back_idx (pyInt (crr_back_base (i : Int)) : ℕ) (pyInt (crr_back_next_base (i : Int)) : ℕ) (j : Int)
      = (((pyInt (crr_lat_store_idx (i : Int) (j : Int)) : ℕ) : Int),
         ((pyInt (crr_lat_store_idx ((i + 1 : ℕ) : Int) (j : Int)) : ℕ) : Int),
         ((pyInt (crr_lat_store_idx ((i + 1 : ℕ) : Int) ((j + 1 : ℕ) : Int)) : ℕ) : Int)) := by
  obtain ⟨h1, _, h3, h4, _⟩ := crr_int_casts_are_exact i j
  obtain ⟨h5, _⟩ := crr_int_casts_are_exact (i + 1) j
  obtain ⟨h6, _⟩ := crr_int_casts_are_exact (i + 1) (j + 1)
  rw [h1, h3, h4, h5, h6, crr_back_idx_spec]
  push_cast
  refine Prod.ext ?_ (Prod.ext ?_ ?_) <;> first | (simp; ring) | simp

/-- no out-of-range access: every subscript used for layer `i ≤ n`, node `j ≤ i` (stores, and the reads of layer
`i + 1` made for `i < n`) is below `num_nodes`, the length of both arrays -/
theorem crr_no_out_of_range (n i j : ℕ) (hi : i ≤ n) (hj : j ≤ i) :
    pyInt (crr_lat_store_idx (i : Int) (j : Int)) < pyInt (crr_num_nodes (n : Int)) := by
  obtain ⟨h1, _⟩ := crr_int_casts_are_exact i j
  obtain ⟨_, _, _, _, h5⟩ := crr_int_casts_are_exact n 0
  rw [h1, h5]
  have := tri_mono (show i + 1 ≤ n + 1 by omega)
  rw [tri_succ] at this
  omega

/-- distinct nodes are stored in distinct cells -/
theorem crr_layout_injective (i j i' j' : ℕ) (hj : j ≤ i) (hj' : j' ≤ i')
    (h : pyInt (crr_lat_store_idx (i : Int) (j : Int)) = pyInt (crr_lat_store_idx (i' : Int) (j' : Int))) :
    i = i' ∧ j = j' := by
  rw [(crr_int_casts_are_exact i j).1, (crr_int_casts_are_exact i' j').1] at h
  exact tri_layout_injective hj hj' h

/-! ### the Python program on flat arrays, assembled from the generated pieces only -/

/-- `stock_values` after the lattice loops -/
noncomputable def pyLattice (s0 u d : ℝ) (n : Int) : Arr :=
  (forRange (crr_lat_range n) (fun (st : Arr × ℝ) i_time =>
      let o := crr_lat_outer_step st.2 d
      let inner := forRange (crr_lat_inner_range i_time) (fun (t : Arr × ℝ) i_node =>
          (Function.update t.1 (pyInt (crr_lat_store_idx i_time i_node)) (crr_lat_inner_step t.2 u).1,
           (crr_lat_inner_step t.2 u).2)) (st.1, o.2)
      (inner.1, o.1))
    (Function.update (fun _ => 0) 0 (crr_lat_init s0).1, (crr_lat_init s0).2)).1

/-- `option_values` after the expiry loop -/
noncomputable def pyTerminal (t : Int) (K : ℝ) (n : Int) (sv : Arr) : Arr :=
  forRange (crr_term_range ((crr_lat_range n).2 - 1)) (fun (ov : Arr) i_node =>
      Function.update ov (crr_term_idx (pyInt (crr_term_base n) : ℕ) i_node).toNat
        (crr_term_node t K (sv (crr_term_idx (pyInt (crr_term_base n) : ℕ) i_node).toNat)))
    (fun _ => 0)

/-- one backward pass over layer `i_time` -/
noncomputable def pyBackLayer (t : Int) (K p df : ℝ) (sv : Arr) (i_time : Int) (ov : Arr) : Arr :=
  forRange (crr_back_inner_range i_time) (fun (ov : Arr) i_node =>
      let ix := crr_back_idx (pyInt (crr_back_base i_time) : ℕ) (pyInt (crr_back_next_base i_time) : ℕ) i_node
      Function.update ov ix.1.toNat (crr_back_node t K (sv ix.1.toNat) (ov ix.2.2.toNat) (ov ix.2.1.toNat) p df))
    ov

/-- `option_values` after the backward induction -/
noncomputable def pyBackward (t : Int) (K p df : ℝ) (n : Int) (sv ov : Arr) : Arr :=
  forRange3 (crr_back_range n) (fun ov i_time => pyBackLayer t K p df sv i_time ov) ov

/-- `price = option_values[0]` of the whole program (`p`, `df` = the constant content of `probs`, `period_dfs`) -/
noncomputable def pyCrrPrice (t : Int) (s0 K u d p df : ℝ) (n : Int) : ℝ :=
  pyBackward t K p df n (pyLattice s0 u d n) (pyTerminal t K n (pyLattice s0 u d n)) crr_price_idx.toNat

/-! ### the loops compute the hand model -/

/-- state of the lattice loop after `m` outer iterations -/
theorem pyLattice_fold (s0 u d : ℝ) (m : ℕ) :
    ∃ sv : Arr, (List.range m).foldl (fun (st : Arr × ℝ) (k : ℕ) =>
        let o := crr_lat_outer_step st.2 d
        let inner := forRange (crr_lat_inner_range ((k + 1 : ℕ) : Int)) (fun (t : Arr × ℝ) i_node =>
            (Function.update t.1 (pyInt (crr_lat_store_idx ((k + 1 : ℕ) : Int) i_node)) (crr_lat_inner_step t.2 u).1,
             (crr_lat_inner_step t.2 u).2)) (st.1, o.2)
        (inner.1, o.1))
      (Function.update (fun _ => 0) 0 s0, s0) = (sv, s0 * d ^ m) ∧
      ∀ i j, i ≤ m → j ≤ i → sv (tri i + j) = s0 * d ^ i * (u * u) ^ j := by
  induction m with
  | zero =>
    refine ⟨Function.update (fun _ => 0) 0 s0, by simp, ?_⟩
    intro i j hi hj
    have hi0 : i = 0 := by omega
    have hj0 : j = 0 := by omega
    subst hi0; subst hj0
    simp [tri_zero]
  | succ m ih =>
    obtain ⟨sv, hfold, hsv⟩ := ih
    rw [List.range_succ, List.foldl_append, hfold]
    simp only [List.foldl_cons, List.foldl_nil]
    have hr : crr_lat_inner_range ((m + 1 : ℕ) : Int) = ((0 : Int), ((m + 2 : ℕ) : Int)) := by
      simp only [crr_lat_inner_range]; push_cast; ring_nf
    rw [hr, forRange_zero]
    have hbody : (fun (t : Arr × ℝ) (k : ℕ) =>
          (Function.update t.1 (pyInt (crr_lat_store_idx ((m + 1 : ℕ) : Int) (k : Int))) (crr_lat_inner_step t.2 u).1,
           (crr_lat_inner_step t.2 u).2))
        = (fun (t : Arr × ℝ) (k : ℕ) => (Function.update t.1 (tri (m + 1) + k) t.2, t.2 * (u * u))) := by
      funext t k
      rw [(crr_int_casts_are_exact (m + 1) k).1]
      rfl
    rw [hbody, foldl_lattice_inner]
    refine ⟨fun k => if tri (m + 1) ≤ k ∧ k < tri (m + 1) + (m + 2) then s0 * d ^ m * d * (u * u) ^ (k - tri (m + 1)) else sv k, ?_, ?_⟩
    · simp only [crr_lat_outer_step]
      rw [pow_succ, ← mul_assoc]
    · intro i j hi hj
      dsimp only
      by_cases him : i ≤ m
      · have hlt : tri i + j < tri (m + 1) := by
          have := tri_mono (show i + 1 ≤ m + 1 by omega)
          rw [tri_succ] at this; omega
        have : ¬(tri (m + 1) ≤ tri i + j ∧ tri i + j < tri (m + 1) + (m + 2)) := by omega
        simp only [this, if_false]
        exact hsv i j him hj
      · have him' : i = m + 1 := by omega
        subst him'
        have : tri (m + 1) ≤ tri (m + 1) + j ∧ tri (m + 1) + j < tri (m + 1) + (m + 2) := by omega
        simp only [this, and_self, if_true, Nat.add_sub_cancel_left]
        rw [pow_succ]; ring

/-- the generated lattice loops fill the flat array with the hand model's node prices `s0 · dⁱ · (u·u)ʲ` -/
theorem pyLattice_is_generated_loop (s0 u d : ℝ) (n i j : ℕ) (hi : i ≤ n) (hj : j ≤ i) :
    pyLattice s0 u d (n : Int) (tri i + j) = s0 * d ^ i * (u * u) ^ j := by
  obtain ⟨sv, hfold, hsv⟩ := pyLattice_fold s0 u d n
  unfold pyLattice
  have hr : crr_lat_range (n : Int) = ((1 : Int), (n : Int) + 1) := rfl
  rw [hr, forRange_one]
  simp only [crr_lat_init]
  rw [hfold]
  exact hsv i j hi hj

/-- the generated expiry loop stores the hand model's payoff of the last layer (and nothing else) -/
theorem pyTerminal_is_generated_loop (t : Int) (ht : crrType t) (K : ℝ) (n : ℕ) (sv : Arr) (j : ℕ) (hj : j ≤ n) :
    pyTerminal t K (n : Int) sv (tri n + j) = payoff (isCallOf t) K (sv (tri n + j)) := by
  unfold pyTerminal
  have hr : crr_term_range ((crr_lat_range (n : Int)).2 - 1) = ((0 : Int), ((n + 1 : ℕ) : Int)) := by
    simp only [crr_term_range, crr_lat_range]; push_cast; ring_nf
  rw [hr, forRange_zero, (crr_int_casts_are_exact n 0).2.1]
  have hbody : (fun (ov : Arr) (k : ℕ) =>
        Function.update ov (crr_term_idx ((tri n : ℕ) : Int) (k : Int)).toNat
          (crr_term_node t K (sv (crr_term_idx ((tri n : ℕ) : Int) (k : Int)).toNat)))
      = (fun (ov : Arr) (k : ℕ) => Function.update ov (tri n + k) ((fun (_ : Arr) k => payoff (isCallOf t) K (sv (tri n + k))) ov k)) := by
    funext ov k
    have : (crr_term_idx ((tri n : ℕ) : Int) (k : Int)).toNat = tri n + k := by
      simp only [crr_term_idx]; omega
    rw [this, payoff_is_generated_terminal t ht]
  rw [hbody, foldl_update_window _ _ _ _ (fun _ _ _ => rfl)]
  have : tri n ≤ tri n + j ∧ tri n + j < tri n + (n + 1) := by omega
  simp only [this, and_self, if_true, Nat.add_sub_cancel_left]

/-- one generated backward pass over layer `i`: the cells of layer `i` receive the hand model's `stepFn` of the values
held in layer `i + 1`; every other cell is unchanged -/
theorem pyBackLayer_spec (t : Int) (ht : crrType t) (K p df : ℝ) (sv ov : Arr) (i : ℕ) :
    pyBackLayer t K p df sv (i : Int) ov = fun x =>
      if tri i ≤ x ∧ x < tri i + (i + 1) then
        stepFn (amerOf t) p df (fun j => payoff (isCallOf t) K (sv (tri i + j))) (fun j => ov (tri (i + 1) + j)) (x - tri i)
      else ov x := by
  unfold pyBackLayer
  have hr : crr_back_inner_range (i : Int) = ((0 : Int), ((i + 1 : ℕ) : Int)) := by
    simp only [crr_back_inner_range]; push_cast; rfl
  rw [hr, forRange_zero, (crr_int_casts_are_exact i 0).2.2.1, (crr_int_casts_are_exact i 0).2.2.2.1]
  have hbody : (fun (ov : Arr) (k : ℕ) =>
        let ix := crr_back_idx ((tri i : ℕ) : Int) ((tri (i + 1) : ℕ) : Int) (k : Int)
        Function.update ov ix.1.toNat (crr_back_node t K (sv ix.1.toNat) (ov ix.2.2.toNat) (ov ix.2.1.toNat) p df))
      = (fun (ov : Arr) (k : ℕ) => Function.update ov (tri i + k)
          ((fun (a : Arr) k => stepFn (amerOf t) p df (fun j => payoff (isCallOf t) K (sv (tri i + j)))
              (fun j => a (tri (i + 1) + j)) k) ov k)) := by
    funext ov k
    simp only [crr_back_idx_spec, Int.toNat_natCast]
    rw [back_node_is_generated t ht]
    simp only [stepFn]
    rfl
  rw [hbody, foldl_update_window]
  intro a j ha
  have h1 : a (tri (i + 1) + (j + 1)) = ov (tri (i + 1) + (j + 1)) := by
    apply ha; rw [tri_succ]; omega
  have h2 : a (tri (i + 1) + j) = ov (tri (i + 1) + j) := by
    apply ha; rw [tri_succ]; omega
  simp only [stepFn, h1, h2]

/-- counting the layers down from `k - 1` to `0`, starting from an array that holds `f` in layer `k`, leaves the hand
model's `rollFn k f` at the root -/
theorem pyBackward_fold (t : Int) (ht : crrType t) (s0 K u d p df : ℝ) (sv : Arr) (N : ℕ)
    (hsv : ∀ i j, i ≤ N → j ≤ i → sv (tri i + j) = s0 * d ^ i * (u * u) ^ j) (k : ℕ) : k ≤ N → ∀ (ov : Arr) (f : ℕ → ℝ),
    (∀ j, j ≤ k → ov (tri k + j) = f j) →
    (List.range k).foldl (fun ov (m : ℕ) => pyBackLayer t K p df sv ((k - 1 - m : ℕ) : Int) ov) ov 0
      = rollFn (amerOf t) p df (crrExFn (isCallOf t) K s0 u d) k f 0 := by
  induction k with
  | zero =>
    intro hk ov f hov
    simp only [List.range_zero, List.foldl_nil, rollFn]
    have := hov 0 (le_refl 0)
    simpa [tri_zero] using this
  | succ k ih =>
    intro hk ov f hov
    have hpeel := foldl_down_succ k (fun i ov => pyBackLayer t K p df sv ((i : ℕ) : Int) ov) ov
    simp only [Nat.add_sub_cancel] at hpeel ⊢
    rw [hpeel]
    simp only [rollFn]
    apply ih (by omega)
    intro j hj
    rw [pyBackLayer_spec t ht]
    have : tri k ≤ tri k + j ∧ tri k + j < tri k + (k + 1) := by omega
    simp only [this, and_self, if_true, Nat.add_sub_cancel_left]
    simp only [stepFn, crrExFn]
    rw [hov j (by omega), hov (j + 1) (by omega), hsv k j (by omega) hj]

/-- **The nest of generated loops IS the hand model.**  For every step count `n` and each of the four option types, the
Python program on flat arrays (`pyCrrPrice`: lattice loops, expiry loop, backward induction with `range(n-1, -1, -1)`,
all subscripts, ranges and bodies generated from the source) returns the root value of the hand-written lattice model
— the quantity all theorems of `Props/C12.lean` and `Props/C12b.lean` are about. -/
theorem crr_price_is_generated_loops (t : Int) (ht : crrType t) (s0 K u d p df : ℝ) (n : ℕ) :
    pyCrrPrice t s0 K u d p df (n : Int) = (crrValues (amerOf t) (isCallOf t) s0 K u d p df n).headD 0 := by
  rw [crrValues_headD]
  unfold pyCrrPrice pyBackward crrRoot
  have hr : crr_back_range (n : Int) = ((n : Int) - 1, (-1 : Int), (-1 : Int)) := rfl
  rw [hr, forRange3_down]
  have hidx : crr_price_idx.toNat = 0 := by simp [crr_price_idx]
  rw [hidx]
  have hfun : (fun ov (k : ℕ) => pyBackLayer t K p df (pyLattice s0 u d n) ((n : Int) - 1 - (k : Int)) ov)
      = (fun ov (k : ℕ) => if k < n then pyBackLayer t K p df (pyLattice s0 u d n) ((n - 1 - k : ℕ) : Int) ov
          else pyBackLayer t K p df (pyLattice s0 u d n) ((n : Int) - 1 - (k : Int)) ov) := by
    funext ov k
    split
    · congr 1; omega
    · rfl
  have hfold : ∀ (a : Arr), (List.range n).foldl (fun ov (k : ℕ) => pyBackLayer t K p df (pyLattice s0 u d n) ((n : Int) - 1 - (k : Int)) ov) a
      = (List.range n).foldl (fun ov (k : ℕ) => pyBackLayer t K p df (pyLattice s0 u d n) ((n - 1 - k : ℕ) : Int) ov) a := by
    intro a
    apply List.foldl_ext
    intro ov k hk
    have hk' : k < n := List.mem_range.mp hk
    congr 1; omega
  rw [hfold]
  apply pyBackward_fold t ht s0 K u d p df _ n (fun i j hi hj => pyLattice_is_generated_loop s0 u d n i j hi hj) n (le_refl n)
  intro j hj
  rw [pyTerminal_is_generated_loop t ht K n _ j hj, pyLattice_is_generated_loop s0 u d n n j (le_refl n) hj]
  rfl

/-- the same with the step count, `dt`, `u`, `d`, `p`, `df` ALSO computed by the generated statements: the value
`crr_tree_val` returns for `(S, r, q, σ, num_steps_per_year, T, type, K, isEven)` over ℝ is the hand model's value with
the hand model's step rule -/
theorem crr_tree_val_is_generated (t : Int) (ht : crrType t) (s0 r q vol T K : ℝ) (nPerYear : ℕ) (isEven : Int) :
    let n := crr_steps (nPerYear : Int) isEven
    let dt := crr_dt T n
    let ud := crr_ud vol dt
    let pd := crr_prob_step (crr_rq r q).1 (crr_rq r q).2 dt ud.1 ud.2
    pyCrrPrice t s0 K ud.1 ud.2 pd.1 pd.2 n =
      (crrValues (amerOf t) (isCallOf t) s0 K (Real.exp (vol * Real.sqrt (T / (crrSteps nPerYear isEven : ℝ))))
        (1 / Real.exp (vol * Real.sqrt (T / (crrSteps nPerYear isEven : ℝ))))
        ((Real.exp ((r - q) * (T / (crrSteps nPerYear isEven : ℝ))) - 1 / Real.exp (vol * Real.sqrt (T / (crrSteps nPerYear isEven : ℝ))))
          / (Real.exp (vol * Real.sqrt (T / (crrSteps nPerYear isEven : ℝ))) - 1 / Real.exp (vol * Real.sqrt (T / (crrSteps nPerYear isEven : ℝ)))))
        (Real.exp (-r * (T / (crrSteps nPerYear isEven : ℝ)))) (crrSteps nPerYear isEven)).headD 0 := by
  intro n dt ud pd
  have hn : n = ((crrSteps nPerYear isEven : ℕ) : Int) := crr_steps_is_generated nPerYear isEven
  have := crr_price_is_generated_loops t ht s0 K ud.1 ud.2 pd.1 pd.2 (crrSteps nPerYear isEven)
  rw [← hn] at this
  rw [this]
  have hdt : dt = T / (crrSteps nPerYear isEven : ℝ) := by
    show crr_dt T n = _
    rw [hn]; simp [crr_dt]
  simp only [ud, pd, crr_ud, crr_prob_step, crr_rq, hdt]

/-! ### statements about the generated program that the tie makes available -/

/-- put–call parity of the GENERATED program with the generated parameters: European call − put
`= S e^{−q n dt} − K e^{−r n dt}` for every step count (`σ√dt ≠ 0`). -/
theorem generated_crr_put_call_parity (s0 K r q vol dt : ℝ) (n : ℕ) (hx : vol * Real.sqrt dt ≠ 0) :
    let ud := crr_ud vol dt
    let pd := crr_prob_step r q dt ud.1 ud.2
    pyCrrPrice 1 s0 K ud.1 ud.2 pd.1 pd.2 n - pyCrrPrice 2 s0 K ud.1 ud.2 pd.1 pd.2 n
      = s0 * Real.exp (-q * (n * dt)) - K * Real.exp (-r * (n * dt)) := by
  intro ud pd
  rw [crr_price_is_generated_loops 1 (Or.inl rfl), crr_price_is_generated_loops 2 (Or.inr (Or.inl rfl)),
    crrValues_headD, crrValues_headD]
  exact crr_code_put_call_parity s0 K r q dt (vol * Real.sqrt dt) hx n

/-- American ≥ European and ≥ 0 for the GENERATED program whenever the generated weight is a probability and the
generated discount factor is non-negative -/
theorem generated_crr_american_ge_european (s0 K u d p df : ℝ) (n : ℕ) (hp0 : 0 ≤ p) (hp1 : p ≤ 1) (hdf : 0 ≤ df) :
    pyCrrPrice 1 s0 K u d p df n ≤ pyCrrPrice 3 s0 K u d p df n ∧
      pyCrrPrice 2 s0 K u d p df n ≤ pyCrrPrice 4 s0 K u d p df n := by
  rw [crr_price_is_generated_loops 1 (Or.inl rfl), crr_price_is_generated_loops 2 (Or.inr (Or.inl rfl)),
    crr_price_is_generated_loops 3 (Or.inr (Or.inr (Or.inl rfl))), crr_price_is_generated_loops 4 (Or.inr (Or.inr (Or.inr rfl))),
    crrValues_headD, crrValues_headD, crrValues_headD, crrValues_headD]
  exact ⟨crr_root_american_ge_european true s0 K u d p df hp0 hp1 hdf n,
    crr_root_american_ge_european false s0 K u d p df hp0 hp1 hdf n⟩

/-- non-vacuity: the hypotheses of the parity theorem are satisfiable, the four option types exist -/
example : (0.2 : ℝ) * Real.sqrt 1 ≠ 0 := by norm_num
example : crrType 1 ∧ crrType 2 ∧ crrType 3 ∧ crrType 4 :=
  ⟨Or.inl rfl, Or.inr (Or.inl rfl), Or.inr (Or.inr (Or.inl rfl)), Or.inr (Or.inr (Or.inr rfl))⟩

end FinVerif.Props.C12
