/-
  C12 (part f) — `finite_difference.py` read ROW-WISE and loop-wise is GENERATED (`Gen/FdLoopR.lean`, cut out of the
  vectorised NumPy expressions and of the `for h in range(num_steps)` statement by `tools/py2lean/registry/fdloops.py`)
  and the hand-written model `Model/C12FD.lean` is proved to BE that text:

  * rows: the interior / first / last rows of `dx` (wind = 0) and `dxx`, and the bands of `calculate_fd_matrix`
    (factor `dt * theta`, `0.5 * var`, the diagonal column `mm = 3 // 2`, the added `1 - dt theta r`) are the generated ones;
  * whole matrix: row `i` of the hand model `calcFdMatrix` is, for every grid with at least two nodes, the row the Python
    program produces at index `i` (vectorised interior formula with `np.roll` neighbours, then `out[0]`, `out[-1]` overwritten);
  * time loop: `fdLoop` is the fold of the generated step (roll back, then the generated projection under the generated
    American test) over the generated `range`; step count, dt, node count, returned subscript are the generated ones;
  * invariants stated on the generated text: row sums, the matrices are built before they are used (guards of
    `black_scholes_fd` and `fd_roll_backwards` agree, rebuild at the first index of the range), the returned subscript is in
    range, the projection dominates both arguments and is idempotent.
-/
import FinVerif.Props.C12c
import FinVerif.Props.C12e
import FinVerif.Gen.FdLoopR

namespace FinVerif.Props.C12
open FinVerif FinVerif.Model.C12 FinVerif.Model.C12FD FinVerif.Gen.FdLoopR

/-- a generated row `(sub, diag, super)` as a band-matrix row -/
def triOf (t : ℝ × ℝ × ℝ) : Tri ℝ := ⟨t.1, t.2.1, t.2.2⟩

/-- a generated integer row (the zero rows of `dxx`) as a band-matrix row -/
def triOfInt (t : Int × Int × Int) : Tri ℝ := ⟨(t.1 : ℝ), (t.2.1 : ℝ), (t.2.2 : ℝ)⟩

/-! ### rows of `dx` / `dxx` -/

/-- with `wind = 0`, `dx` takes the SECOND branch of its first `if` (central differences) and the first branch of the
first-row and last-row `if`s (one-sided differences, not zero rows) -/
theorem dx_branches_at_wind_zero : fd_dx_sel 0 = (1, 0, 0) := by
  simp [fd_dx_sel]

/-- upwind / downwind settings do not take the central branch -/
theorem dx_branches_other_wind : (fd_dx_sel (-1)).1 = 0 ∧ (fd_dx_sel 1).1 = 2 := by
  constructor <;> simp [fd_dx_sel]

/-- the hand model's interior row of `dx` IS the generated row -/
theorem dxRow_is_generated (xm x xp : ℝ) : dxRow xm x xp = triOf (fd_dx_row xm x xp) := rfl

/-- the hand model's first row of `dx` IS the generated row -/
theorem dxFirst_is_generated (x0 x1 : ℝ) : dxFirst x0 x1 = triOf (fd_dx_first x0 x1) := by
  simp [dxFirst, triOf, fd_dx_first]

/-- the hand model's last row of `dx` IS the generated row -/
theorem dxLast_is_generated (xm x : ℝ) : dxLast xm x = triOf (fd_dx_last xm x) := by
  simp [dxLast, triOf, fd_dx_last]

/-- the hand model's interior row of `dxx` IS the generated row -/
theorem dxxRow_is_generated (xm x xp : ℝ) : dxxRow xm x xp = triOf (fd_dxx_row xm x xp) := by
  simp [dxxRow, triOf, fd_dxx_row]

/-- the first and last rows of `dxx` are the generated zero rows -/
theorem dxx_edges_are_generated : (zeroTri : Tri ℝ) = triOfInt fd_dxx_first ∧ (zeroTri : Tri ℝ) = triOfInt fd_dxx_last := by
  constructor <;> simp [zeroTri, triOfInt, fd_dxx_first, fd_dxx_last]

/-! ### rows of `calculate_fd_matrix` -/

/-- `mm = Dx.shape[1] // 2` with three bands is the DIAGONAL column -/
theorem fd_matrix_mm_is_diagonal : fd_matrix_mm 3 = 1 := by
  simp [fd_matrix_mm]

/-- one row of `A` assembled from the generated band expression; the column `fd_matrix_mm 3` receives the generated term -/
noncomputable def genFdRow (dt theta : ℝ) (nd : Node ℝ) (d1 d2 : Tri ℝ) : Tri ℝ :=
  let add (k : Int) : ℝ := if fd_matrix_mm 3 = k then fd_matrix_diag_add dt theta nd.r else 0
  ⟨fd_matrix_band dt theta nd.mu nd.var d1.a d2.a + add 0,
   fd_matrix_band dt theta nd.mu nd.var d1.b d2.b + add 1,
   fd_matrix_band dt theta nd.mu nd.var d1.c d2.c + add 2⟩

/-- the hand model's matrix row IS the generated one (factor `dt * theta`, `0.5 * var`, diagonal term and its column) -/
theorem fdRow_is_generated (dt theta : ℝ) (nd : Node ℝ) (d1 d2 : Tri ℝ) :
    fdRow (dt * theta) nd d1 d2 = genFdRow dt theta nd d1 d2 := by
  have h : (1 / 2 : ℝ) = 0.5 := by norm_num
  simp [fdRow, genFdRow, fd_matrix_band, fd_matrix_diag_add, fd_matrix_mm, h]

/-- the row the Python program leaves at index `i` of `calculate_fd_matrix(x, r, mu, var, dt, theta, 0)`: the vectorised
interior expression with the `np.roll` neighbours, overwritten by `out[0] = …` / `out[-1] = …` at the two ends -/
noncomputable def pyFdRow (dt theta : ℝ) (L : List (Node ℝ)) (i : ℕ) : Tri ℝ :=
  let z : Node ℝ := ⟨0, 0, 0, 0⟩
  let nd := L.getD i z
  if i = 0 then genFdRow dt theta nd (triOf (fd_dx_first (L.getD 0 z).x (L.getD 1 z).x)) (triOfInt fd_dxx_first)
  else if i + 1 = L.length then genFdRow dt theta nd (triOf (fd_dx_last (L.getD (i - 1) z).x nd.x)) (triOfInt fd_dxx_last)
  else genFdRow dt theta nd (triOf (fd_dx_row (L.getD (i - 1) z).x nd.x (L.getD (i + 1) z).x))
    (triOf (fd_dxx_row (L.getD (i - 1) z).x nd.x (L.getD (i + 1) z).x))

theorem pyFdRow_shift (dt theta : ℝ) (a : Node ℝ) (L : List (Node ℝ)) (j : ℕ) :
    pyFdRow dt theta (a :: L) (j + 2) = pyFdRow dt theta L (j + 1) := by
  simp [pyFdRow]

theorem fdRows_getD_is_generated (dt theta : ℝ) : ∀ (nodes : List (Node ℝ)) (nm : Node ℝ) (k : ℕ), k < nodes.length →
    (fdRows (dt * theta) (some nm) nodes).getD k zeroTri = pyFdRow dt theta (nm :: nodes) (k + 1) := by
  intro nodes
  induction nodes with
  | nil => intro _ k hk; simp at hk
  | cons n rest ih =>
    intro nm k hk
    cases rest with
    | nil =>
      have : k = 0 := by simpa using hk
      subst this
      simp [fdRows, pyFdRow, fdRow_is_generated, dxLast_is_generated, dxx_edges_are_generated.2.symm]
    | cons np rest' =>
      cases k with
      | zero =>
        simp [fdRows, pyFdRow, fdRow_is_generated, dxRow_is_generated, dxxRow_is_generated]
      | succ j =>
        simp only [fdRows, List.getD_cons_succ]
        rw [ih n j (by simpa using hk), pyFdRow_shift]

/-- WHOLE MATRIX: for every grid with at least two nodes, row `i` of the hand model `calcFdMatrix` is the row the Python
program produces at index `i` from the generated row expressions -/
theorem calcFdMatrix_is_generated (nodes : List (Node ℝ)) (dt theta : ℝ) (_h : 2 ≤ nodes.length) (i : ℕ)
    (_hi : i < nodes.length) : (calcFdMatrix nodes dt theta).getD i zeroTri = pyFdRow dt theta nodes i := by
  match nodes, _h, _hi with
  | n0 :: n1 :: rest, _, hi =>
    cases i with
    | zero =>
      simp [calcFdMatrix, fdRows, pyFdRow, fdRow_is_generated, dxFirst_is_generated, dxx_edges_are_generated.1.symm]
    | succ k =>
      simp only [calcFdMatrix, fdRows, List.getD_cons_succ]
      exact fdRows_getD_is_generated dt theta (n1 :: rest) n0 k (by simpa using hi)

/-- row sums of the generated rows (stated on the generated text): the differences annihilate constants -/
theorem generated_dx_rows_sum_zero (xm x xp x0 x1 : ℝ) :
    (fd_dx_row xm x xp).1 + (fd_dx_row xm x xp).2.1 + (fd_dx_row xm x xp).2.2 = 0 ∧
      (fd_dx_first x0 x1).1 + (fd_dx_first x0 x1).2.1 + (fd_dx_first x0 x1).2.2 = 0 ∧
      (fd_dx_last x0 x1).1 + (fd_dx_last x0 x1).2.1 + (fd_dx_last x0 x1).2.2 = 0 ∧
      (fd_dxx_row xm x xp).1 + (fd_dxx_row xm x xp).2.1 + (fd_dxx_row xm x xp).2.2 = 0 := by
  have a := dxRow_sum xm x xp
  have b := dxFirst_sum x0 x1
  have c := dxLast_sum x0 x1
  have d := dxxRow_sum xm x xp
  rw [dxRow_is_generated] at a
  rw [dxFirst_is_generated] at b
  rw [dxLast_is_generated] at c
  rw [dxxRow_is_generated] at d
  exact ⟨a, b, c, d⟩

/-- every row of the generated matrix sums to `1 − dt·theta·r` (at every index, the two overwritten end rows included) -/
theorem pyFdRow_sum (dt theta : ℝ) (nodes : List (Node ℝ)) (i : ℕ) :
    (pyFdRow dt theta nodes i).a + (pyFdRow dt theta nodes i).b + (pyFdRow dt theta nodes i).c =
      1 - dt * theta * (nodes.getD i ⟨0, 0, 0, 0⟩).r := by
  obtain ⟨g1, g2, g3, g4⟩ := generated_dx_rows_sum_zero
    (nodes.getD (i - 1) ⟨0, 0, 0, 0⟩).x (nodes.getD i ⟨0, 0, 0, 0⟩).x (nodes.getD (i + 1) ⟨0, 0, 0, 0⟩).x
    (nodes.getD 0 ⟨0, 0, 0, 0⟩).x (nodes.getD 1 ⟨0, 0, 0, 0⟩).x
  have g3' := (generated_dx_rows_sum_zero 0 0 0 (nodes.getD (i - 1) ⟨0, 0, 0, 0⟩).x (nodes.getD i ⟨0, 0, 0, 0⟩).x).2.2.1
  have z1 : (triOfInt fd_dxx_first).a + (triOfInt fd_dxx_first).b + (triOfInt fd_dxx_first).c = 0 := by
    rw [← dxx_edges_are_generated.1]; exact zeroTri_sum
  have z2 : (triOfInt fd_dxx_last).a + (triOfInt fd_dxx_last).b + (triOfInt fd_dxx_last).c = 0 := by
    rw [← dxx_edges_are_generated.2]; exact zeroTri_sum
  unfold pyFdRow
  simp only
  split_ifs with h0 h1
  · rw [← fdRow_is_generated]; exact fdRow_sum _ _ _ _ (by simpa [triOf] using g2) z1
  · rw [← fdRow_is_generated]; exact fdRow_sum _ _ _ _ (by simpa [triOf] using g3') z2
  · rw [← fdRow_is_generated]; exact fdRow_sum _ _ _ _ (by simpa [triOf] using g1) (by simpa [triOf] using g4)

/-! ### the time loop of `black_scholes_fd` -/

/-- the projection of one node: `res[idx] = payoff[idx]` where `res < payoff` -/
theorem fd_project_eq (r g : ℝ) : fd_project r g = if r < g then g else r := by
  simp [fd_project]

/-- the generated projection applied node by node -/
noncomputable def genProject : List ℝ → List ℝ → List ℝ
  | r :: rs, g :: gs => fd_project r g :: genProject rs gs
  | rs, _ => rs

/-- the hand model's projection IS the generated one at every node (comparison `<`, value taken from the payoff) -/
theorem project_is_generated : ∀ (r g : List ℝ), project r g = genProject r g
  | [], _ => by simp [project, genProject]
  | _ :: _, [] => by simp [project, genProject]
  | r :: rs, g :: gs => by
    simp only [project, genProject, fd_project_eq]
    rw [project_is_generated rs gs]

/-- the American test of the loop is the hand model's `optType == 3 || optType == 4` -/
theorem fd_is_american_is_amerOf (t : Int) : fd_is_american t = amerOf t := by
  by_cases h3 : t = 3 <;> by_cases h4 : t = 4 <;> simp [fd_is_american, amerOf, h3, h4]

/-- one generated iteration: `res = fd_roll_backwards(…)` (`step`), then the generated projection under the generated test -/
noncomputable def genTimeStep (t : Int) (step : List ℝ → Option (List ℝ)) (payoff : List ℝ) (res : List ℝ) (_h : ℕ) :
    Option (List ℝ) :=
  (step res).map (fun r => if fd_is_american t then genProject r payoff else r)

/-- one unfolding of the hand model's loop = one generated iteration -/
theorem fdLoop_step_is_generated (t : Int) (step : List ℝ → Option (List ℝ)) (payoff res : List ℝ) (n h : ℕ) :
    fdLoop (amerOf t) step payoff (n + 1) res = (genTimeStep t step payoff res h).bind (fdLoop (amerOf t) step payoff n) := by
  simp only [fdLoop, genTimeStep, fd_is_american_is_amerOf]
  cases step res with
  | none => rfl
  | some r => simp [project_is_generated]

theorem fdLoop_eq_foldlM (t : Int) (step : List ℝ → Option (List ℝ)) (payoff : List ℝ) :
    ∀ (n s : ℕ) (res : List ℝ),
      fdLoop (amerOf t) step payoff n res = (List.range' s n).foldlM (genTimeStep t step payoff) res := by
  intro n
  induction n with
  | zero => intro s res; simp [fdLoop]
  | succ n ih =>
    intro s res
    rw [fdLoop_step_is_generated t step payoff res n s, List.range'_succ, List.foldlM_cons]
    cases genTimeStep t step payoff res s with
    | none => rfl
    | some r => simpa using ih (s + 1) r

/-- WHOLE LOOP: the hand model's time loop is the fold of the generated iteration over the generated
`for h in range(lo, hi)`, started from the payoff (`res = deepcopy(payoff)` is pinned by the generator), for every step count -/
theorem fdLoop_is_generated_loop (t : Int) (step : List ℝ → Option (List ℝ)) (payoff res : List ℝ) (n : ℕ) :
    fdLoop (amerOf t) step payoff n res =
      (List.range' (fd_time_range n).1.toNat ((fd_time_range n).2 - (fd_time_range n).1).toNat).foldlM
        (genTimeStep t step payoff) res := by
  have : ((fd_time_range n).2 - (fd_time_range n).1).toNat = n := by simp [fd_time_range]
  rw [this]
  exact fdLoop_eq_foldlM t step payoff n _ res

/-- step count, time step, node count and returned subscript of the hand model are the generated ones
(`numTimeSteps = 0` stands for `None`; `ns1` is the node count) -/
theorem fd_frame_is_generated (k ns1 ns : ℕ) (T xl xu : ℝ) (hx : xl ≠ xu) (hns : 0 < ns) :
    fd_num_steps k ns1 = ((if k == 0 then ns1 / 2 else k : ℕ) : Int) ∧
      fd_dt T (k : Int) = T / ((max 1 k : ℕ) : ℝ) ∧
      fd_num_nodes ns xl xu = ((ns + 1 : ℕ) : Int) ∧
      fd_result_idx ns1 = ((ns1 / 2 : ℕ) : Int) ∧
      fd_time_range k = (0, (k : Int)) := by
  refine ⟨?_, ?_, ?_, rfl, rfl⟩
  · by_cases h : k = 0 <;> simp [fd_num_steps, h]
  · simp [fd_dt]
  · have h0 : ns ≠ 0 := by omega
    simp [fd_num_nodes, hx, h0]

/-- the matrices: `Ae = calculate_fd_matrix(…, dt, 1 - theta, …)` if `theta != 1`, `Ai = calculate_fd_matrix(…, -dt, theta, …)`
if `theta != 0` (the arguments `calcFdMatrix nodes dt (1 - theta)` / `calcFdMatrix nodes (-dt) theta` of the hand model) -/
theorem fd_matrix_args_are_generated (dt theta : ℝ) :
    fd_matrix_args dt theta = (decide (theta ≠ 1), decide (theta ≠ 0), dt, 1 - theta, -dt, theta) := by
  simp [fd_matrix_args]

/-- `fd_roll_backwards` multiplies by `Ae` exactly when `black_scholes_fd` built `Ae`, and solves with `Ai` exactly when it
built `Ai`: no empty matrix `np.array([])` is ever used; the band half-width is 1 (tridiagonal), as in `thetaStep` -/
theorem fd_guards_agree (dt theta : ℝ) :
    (fd_roll_guards theta).1 = (fd_matrix_args dt theta).1 ∧ (fd_roll_guards theta).2.1 = (fd_matrix_args dt theta).2.1 ∧
      (fd_roll_guards theta).2.2 = 1 ∧ (fd_roll_guards theta).1 = decide (theta ≠ 1) ∧
      (fd_roll_guards theta).2.1 = decide (theta ≠ 0) := by
  simp [fd_roll_guards, fd_matrix_args]

/-- the matrices are built in the FIRST iteration of the generated range (before their first use) and, without `update`,
never again — the hand model builds them once before the loop -/
theorem fd_rebuild_once (n : ℕ) (h : ℕ) :
    fd_rebuild false (fd_time_range n).1 = true ∧ fd_rebuild false ((fd_time_range n).1 + (h + 1 : ℕ)) = false ∧
      fd_rebuild true h = true := by
  refine ⟨by simp [fd_rebuild, fd_time_range], ?_, by simp [fd_rebuild]⟩
  have : ¬ ((0 : Int) + ((h + 1 : ℕ) : Int) = 0) := by omega
  simpa [fd_rebuild, fd_time_range] using this

/-- the vector loops of `fd_roll_backwards` run over every vector: `range(0, num_vectors)` twice -/
theorem fd_roll_ranges_are_generated (m : Int) : fd_roll_ranges m = (0, m, 0, m) := rfl

/-- no out-of-range read: the returned subscript is a valid node index for every node count -/
theorem fd_result_idx_in_range (ns : ℕ) (xl xu : ℝ) :
    0 ≤ fd_result_idx (fd_num_nodes ns xl xu) ∧ fd_result_idx (fd_num_nodes ns xl xu) < fd_num_nodes ns xl xu := by
  have h1 : 1 ≤ fd_num_nodes ns xl xu := by
    unfold fd_num_nodes
    simp only
    split_ifs <;> omega
  unfold fd_result_idx
  simp only
  constructor <;> omega

/-- the generated projection dominates both the continuation value and the payoff, and is idempotent -/
theorem fd_project_dominates (r g : ℝ) :
    r ≤ fd_project r g ∧ g ≤ fd_project r g ∧ fd_project (fd_project r g) g = fd_project r g := by
  rw [fd_project_eq]
  by_cases h : r < g
  · simp [h, fd_project_eq, le_of_lt h]
  · simp [h, fd_project_eq, not_lt.mp h]

/-- non-vacuity: a three-node grid satisfies the hypotheses of `calcFdMatrix_is_generated` / `fd_frame_is_generated` -/
example : 2 ≤ ([⟨1, 0, 0, 0⟩, ⟨2, 0, 0, 0⟩, ⟨3, 0, 0, 0⟩] : List (Node ℝ)).length ∧ (1 : ℝ) ≠ 2 ∧ 0 < 1 := by
  simp

end FinVerif.Props.C12
