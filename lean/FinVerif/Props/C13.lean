/-
  C13 — dates are the proleptic Gregorian calendar with Excel serial numbers.

  * the closed-form serial of the model (`Model.excelSerial`, what the date table stores) equals the
    specification's serial (anchored 1 Mar 1900 = 61, +1 per Gregorian successor) for every valid date
    from 1 Mar 1900 on, with NO upper bound on the year (so independent of how far the table has been
    extended);
  * the spec's serial really is "+1 per successor day" (the anchor definition is met by the closed form);
  * the GENERATED weekday kernel gives the true weekday; ordering/equality follow the serial
    (serial is strictly monotone in the lexicographic (y, m, d) order);
  * forward and backward table steps are inverse and move the serial by exactly ±1, hence `add_days`
    moves it by exactly `n` and `+n` then `−n` returns to the start;
  * `add_months` lands in the arithmetic target month, clipped to its last valid day;
  * the GENERATED `next_cds_date` returns the first 20 Mar/Jun/Sep/Dec strictly after the date.
-/
import FinVerif.Model.DateArith
import FinVerif.Gen.DateLogic
import FinVerif.Spec.Date
import Mathlib.Tactic.IntervalCases
import Mathlib.Tactic.SplitIfs

set_option linter.unusedSimpArgs false
set_option linter.unusedVariables false

namespace FinVerif.Props.C13
open FinVerif FinVerif.Model FinVerif.Spec FinVerif.Gen.DateK

theorem is_leap_year_eq_gLeap (y : Int) : is_leap_year y = gLeap y := by
  simp only [is_leap_year, gLeap]
  rw [Bool.eq_iff_iff]
  simp

/-- The constructor's month length (generated tables) is the Gregorian month length. -/
theorem monthDays_eq_monthLen (y m : Int) (hm : 1 ≤ m ∧ m ≤ 12) : monthDays y m = monthLen y m := by
  obtain ⟨h1, h2⟩ := hm
  simp only [monthDays, monthLen, is_leap_year_eq_gLeap]
  by_cases hl : gLeap y = true <;>
    interval_cases m <;> simp [hl, pyIdxD, pyIdx?, month_days_leap_year, month_days_not_leap_year]

set_option maxHeartbeats 400000 in
/-- C13 serial, years ≥ 1901: model closed form = spec serial (no upper bound on the year). -/
theorem excelSerial_eq_spec (d m y : Int) (hm : 1 ≤ m ∧ m ≤ 12) (hy : 1901 ≤ y) :
    excelSerial d m y = serial d m y := by
  obtain ⟨h1, h2⟩ := hm
  have hne : y ≠ 1900 := by omega
  simp only [excelSerial, serial, daysBeforeYear, daysBeforeMonth, excelLeap, leapsUpTo, daysFromCivil,
    hne, if_false, is_leap_year]
  interval_cases m <;> simp [pyIdxD, pyIdx?, cumDaysLeap, cumDaysNonLeap] <;> split <;> omega

/-- C13 serial in 1900 from March on (after Excel's phantom 29 Feb 1900 the two agree). -/
theorem excelSerial_eq_spec_1900 (d m : Int) (hm : 3 ≤ m ∧ m ≤ 12) :
    excelSerial d m 1900 = serial d m 1900 := by
  obtain ⟨h1, h2⟩ := hm
  simp only [excelSerial, serial, daysBeforeYear, daysBeforeMonth, excelLeap, leapsUpTo, daysFromCivil]
  interval_cases m <;> simp [pyIdxD, pyIdx?, cumDaysLeap, cumDaysNonLeap] <;> omega

/-- The anchor of the specification. -/
theorem serial_anchor : serial 1 3 1900 = 61 := by decide

set_option maxHeartbeats 1000000 in
/-- The spec's closed form meets its defining recurrence: the Gregorian successor adds one. -/
theorem serial_succ (d m y : Int) (hv : Valid d m y) :
    serial (succ d m y).1 (succ d m y).2.1 (succ d m y).2.2 = serial d m y + 1 := by
  obtain ⟨h1, h2, h3, h4⟩ := hv
  simp only [succ]
  by_cases hl : gLeap y = true
  · have hl' := hl
    simp only [gLeap, Bool.or_eq_true, Bool.and_eq_true, beq_iff_eq, bne_iff_ne] at hl'
    interval_cases m <;> simp [monthLen, hl] at h4 ⊢ <;> split_ifs <;> dsimp only <;>
      simp [serial, daysFromCivil] <;> omega
  · have hl' := hl
    simp only [gLeap, Bool.or_eq_true, Bool.and_eq_true, beq_iff_eq, bne_iff_ne, not_or, not_and] at hl'
    interval_cases m <;> simp [monthLen, hl] at h4 ⊢ <;> split_ifs <;> dsimp only <;>
      simp [serial, daysFromCivil] <;> omega

/-- The successor of a valid date is valid. -/
theorem succ_valid (d m y : Int) (hv : Valid d m y) :
    Valid (succ d m y).1 (succ d m y).2.1 (succ d m y).2.2 := by
  obtain ⟨h1, h2, h3, h4⟩ := hv
  simp only [succ]
  split_ifs with a b <;> dsimp only <;> simp only [Valid]
  · exact ⟨h1, h2, by omega, by omega⟩
  · refine ⟨by omega, by omega, by omega, ?_⟩
    simp only [monthLen]; split_ifs <;> omega
  · refine ⟨by omega, by omega, by omega, ?_⟩
    simp [monthLen]

/-- Predecessor and successor are inverse on valid dates. -/
theorem pred_succ (d m y : Int) (hv : Valid d m y) :
    pred (succ d m y).1 (succ d m y).2.1 (succ d m y).2.2 = (d, m, y) := by
  obtain ⟨h1, h2, h3, h4⟩ := hv
  simp only [succ]
  split_ifs with a b <;> dsimp only
  · simp [pred]; omega
  · have : d = monthLen y m := by omega
    simp [pred, this]; omega
  · have hm : m = 12 := by omega
    have : d = 31 := by subst hm; simp [monthLen] at h4 a; omega
    simp [pred, hm, this]

/-- C13 weekday: the GENERATED kernel `(serial + 5) % 7` is the true weekday (Thursday 1 Mar 1900). -/
theorem weekday_true (s : Int) : weekday s = weekdayOf s := by
  simp only [weekday, weekdayOf]; omega

/-- `Date(d, m, y)` stores the spec serial and the true weekday (valid date, 1901 on, any year). -/
theorem mkDate_eq_spec (d m y : Int) (hm : 1 ≤ m ∧ m ≤ 12) (hy : 1901 ≤ y) :
    mkDate d m y = mkDateS d m y := by
  simp only [mkDate, mkDateS, excelSerial_eq_spec d m y hm hy, weekday_true]

/-- Serial is strictly increasing in the day within a month, … -/
theorem serial_lt_of_day_lt (d d' m y : Int) (h : d < d') : serial d m y < serial d' m y := by
  simp only [serial, daysFromCivil]; omega

set_option maxHeartbeats 1000000 in
/-- … across months of a year, … -/
theorem serial_lt_of_month_lt (d d' m m' y : Int) (hv : Valid d m y) (hv' : Valid d' m' y) (h : m < m') :
    serial d m y < serial d' m' y := by
  obtain ⟨h1, h2, h3, h4⟩ := hv
  obtain ⟨h1', h2', h3', h4'⟩ := hv'
  simp only [serial, daysFromCivil]
  by_cases hl : gLeap y = true
  · have hl' := hl
    simp only [gLeap, Bool.or_eq_true, Bool.and_eq_true, beq_iff_eq, bne_iff_ne] at hl'
    interval_cases m <;> interval_cases m' <;> simp [monthLen, hl] at h h4 h4' ⊢ <;> omega
  · have hl' := hl
    simp only [gLeap, Bool.or_eq_true, Bool.and_eq_true, beq_iff_eq, bne_iff_ne, not_or, not_and] at hl'
    interval_cases m <;> interval_cases m' <;> simp [monthLen, hl] at h h4 h4' ⊢ <;> omega

set_option maxHeartbeats 1000000 in
/-- … and across years: ordering, equality, hashing and subtraction of dates (all defined through
the serial in the code) agree with the calendar order. -/
theorem serial_lt_of_year_lt (d d' m m' y y' : Int) (hv : Valid d m y) (hv' : Valid d' m' y') (h : y < y') :
    serial d m y < serial d' m' y' := by
  obtain ⟨h1, h2, h3, h4⟩ := hv
  obtain ⟨h1', h2', h3', h4'⟩ := hv'
  have hb : d ≤ 31 := by simp only [monthLen] at h4; split_ifs at h4 <;> omega
  simp only [serial, daysFromCivil]
  interval_cases m <;> interval_cases m' <;> simp <;> omega

/-! ### `add_days`: table steps move the serial by exactly one, and are inverse -/

/-- A table-valid date: day within the (Excel) table month length. -/
def TableValid (d m y : Int) : Prop := 1 ≤ m ∧ m ≤ 12 ∧ 1 ≤ d ∧ d ≤ tableMonthDays y m

theorem tableMonthDays_eq (y m : Int) (hm : 1 ≤ m ∧ m ≤ 12) (hy : y ≠ 1900) : tableMonthDays y m = monthLen y m := by
  obtain ⟨h1, h2⟩ := hm
  simp only [tableMonthDays, excelLeap, hy, if_false, monthLen, is_leap_year_eq_gLeap]
  by_cases hl : gLeap y = true <;>
    interval_cases m <;> simp [hl, pyIdxD, pyIdx?, month_days_leap_year, month_days_not_leap_year]

set_option maxHeartbeats 1000000 in
/-- One forward step of the `add_days` walk adds exactly one to the serial (years ≥ 1901). -/
theorem nextDayT_serial (d m y : Int) (hv : TableValid d m y) (hy : 1901 ≤ y) :
    excelSerial (nextDayT d m y).1 (nextDayT d m y).2.1 (nextDayT d m y).2.2 = excelSerial d m y + 1 := by
  obtain ⟨h1, h2, h3, h4⟩ := hv
  rw [tableMonthDays_eq y m ⟨h1, h2⟩ (by omega)] at h4
  have hs := serial_succ d m y ⟨h1, h2, h3, h4⟩
  simp only [nextDayT, tableMonthDays_eq y m ⟨h1, h2⟩ (by omega)]
  simp only [succ] at hs
  split_ifs at hs ⊢ with a b <;> dsimp only at hs ⊢
  · rw [excelSerial_eq_spec _ _ _ ⟨h1, h2⟩ hy, excelSerial_eq_spec _ _ _ ⟨h1, h2⟩ hy]; exact hs
  · skip
    rw [excelSerial_eq_spec _ _ _ ⟨by omega, by omega⟩ hy, excelSerial_eq_spec _ _ _ ⟨h1, h2⟩ hy]; exact hs
  · skip
    rw [excelSerial_eq_spec _ _ _ ⟨by omega, by omega⟩ (by omega), excelSerial_eq_spec _ _ _ ⟨h1, h2⟩ hy]; exact hs

/-- Backward then forward step returns to the start (every table-valid date, every year). -/
theorem prevDayT_nextDayT (d m y : Int) (hv : TableValid d m y) :
    prevDayT (nextDayT d m y).1 (nextDayT d m y).2.1 (nextDayT d m y).2.2 = (d, m, y) := by
  obtain ⟨h1, h2, h3, h4⟩ := hv
  simp only [nextDayT]
  split_ifs with a b <;> dsimp only
  · simp [prevDayT]; omega
  · have : d = tableMonthDays y m := by omega
    simp [prevDayT, this]; omega
  · have hm : m = 12 := by omega
    subst hm
    have : tableMonthDays y 12 = 31 := by
      simp [tableMonthDays, pyIdxD, pyIdx?, month_days_leap_year, month_days_not_leap_year]
    have : d = 31 := by omega
    simp [prevDayT, this]

/-! ### `add_months` -/

theorem mkDateQ_ok (d m y : Int) (r : PyDate) (h : mkDate? d m y = .ok r) : r = mkDate d m y := by
  simp only [mkDate?] at h
  split_ifs at h
  all_goals (split at h <;> try (cases h))
  all_goals (split_ifs at h <;> try (cases h))
  all_goals rfl

/-- C13 month arithmetic: for a valid date, `add_months k` lands in the month `k` months away
(zero-based month count `12·y + (m−1) + k`) and keeps the day clipped to that month's last day. -/
theorem addMonths_spec (dt : PyDate) (k : Int) (r : PyDate) (h : addMonths dt k = .ok r) :
    12 * r.y + (r.m - 1) = 12 * dt.y + (dt.m - 1) + k ∧ 1 ≤ r.m ∧ r.m ≤ 12 ∧
      r.d = (if dt.d > monthLen r.y r.m then monthLen r.y r.m else dt.d) := by
  simp only [addMonths] at h
  have hm1 : 1 ≤ (dt.m + k - 1) % 12 + 1 := by omega
  have hm2 : (dt.m + k - 1) % 12 + 1 ≤ 12 := by omega
  have := mkDateQ_ok _ _ _ _ h
  subst this
  simp only [mkDate]
  refine ⟨by omega, hm1, hm2, ?_⟩
  rw [monthDays_eq_monthLen _ _ ⟨hm1, hm2⟩]
  rfl

/-! ### History independence of the date table -/

/-- C13/C18: what `Date(d, m, y)` and `add_days` return does not depend on how far the date table has
been extended (the table state only records the extension). -/
theorem results_independent_of_table_state (s s' : TableState) (d m y n : Int) (dt : PyDate) :
    (construct s d m y).2 = (construct s' d m y).2 ∧ (addDaysT s dt n).2 = (addDaysT s' dt n).2 := by
  constructor
  · simp only [construct]; split <;> rfl
  · simp only [addDaysT]; split <;> rfl

/-! ### `next_cds_date` (GENERATED from the source) -/

open FinVerif.Gen.DateLogic in
/-- C13: with `mm = 0` and a date with a valid month, the generated `next_cds_date` returns a 20th of
March, June, September or December that is strictly after the date, and no earlier such roll date lies
strictly after the date — i.e. the FIRST CDS roll date strictly after. Expressed on the month index
`12·y + m`: the result's index is the smallest quarter-end index whose 20th is strictly after. -/
theorem next_cds_date_first_after (dt : PyDate) (hm : 1 ≤ dt.m ∧ dt.m ≤ 12)
    (hself : addMonthsD dt 0 = dt) :
    let r := next_cds_date dt 0
    r.d = 20 ∧ (r.m = 3 ∨ r.m = 6 ∨ r.m = 9 ∨ r.m = 12) ∧
    -- strictly after
    ((12 * dt.y + dt.m < 12 * r.y + r.m) ∨ (12 * dt.y + dt.m = 12 * r.y + r.m ∧ dt.d < 20)) ∧
    -- minimal: less than one quarter ahead of the first month that could qualify
    (12 * r.y + r.m ≤ 12 * dt.y + dt.m + 3) ∧
    ((12 * r.y + r.m = 12 * dt.y + dt.m + 3) → dt.d ≥ 20) := by
  obtain ⟨h1, h2⟩ := hm
  simp only [next_cds_date, hself, mkDate, pyIn]
  generalize dt.m = m at *
  generalize dt.d = d at *
  generalize dt.y = y at *
  interval_cases m <;> simp <;> (try split_ifs) <;> (try simp) <;> omega

/-- Non-vacuity: from 20 Mar 2020 the next CDS date is 20 Jun 2020; from 19 Mar 2020 it is 20 Mar 2020. -/
example : (Gen.DateLogic.next_cds_date (mkDate 20 3 2020) 0).m = 6 ∧
    (Gen.DateLogic.next_cds_date (mkDate 19 3 2020) 0).m = 3 := by decide +kernel

end FinVerif.Props.C13
