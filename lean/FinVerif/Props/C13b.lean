/-
  C13 (part b) — `add_days`: by induction over the walk, n table steps move the serial by exactly n;
  backward steps are the inverse of forward steps.
-/
import FinVerif.Props.C13

import Mathlib.Tactic.IntervalCases
import Mathlib.Tactic.SplitIfs

set_option linter.unusedSimpArgs false
set_option linter.unusedVariables false

namespace FinVerif.Props.C13
open FinVerif FinVerif.Model FinVerif.Spec FinVerif.Gen.DateK

theorem tableMonthDays_pos (y m : Int) (hm : 1 ≤ m ∧ m ≤ 12) : 28 ≤ tableMonthDays y m ∧ tableMonthDays y m ≤ 31 := by
  obtain ⟨h1, h2⟩ := hm
  simp only [tableMonthDays]
  split <;> interval_cases m <;> simp [pyIdxD, pyIdx?, month_days_leap_year, month_days_not_leap_year]

theorem nextDayT_valid (d m y : Int) (hv : TableValid d m y) :
    TableValid (nextDayT d m y).1 (nextDayT d m y).2.1 (nextDayT d m y).2.2 ∧ y ≤ (nextDayT d m y).2.2 := by
  obtain ⟨h1, h2, h3, h4⟩ := hv
  simp only [nextDayT]
  split_ifs with a b <;> dsimp only <;> simp only [TableValid]
  · exact ⟨⟨h1, h2, by omega, by omega⟩, le_refl _⟩
  · have := tableMonthDays_pos y (m + 1) ⟨by omega, by omega⟩
    exact ⟨⟨by omega, by omega, by omega, by omega⟩, le_refl _⟩
  · have := tableMonthDays_pos (y + 1) 1 ⟨by omega, by omega⟩
    exact ⟨⟨by omega, by omega, by omega, by omega⟩, by omega⟩

theorem stepDays_fwd (k : Nat) (d m y : Int) (hv : TableValid d m y) (hy : 1901 ≤ y) :
    TableValid (stepDays k true (d, m, y)).1 (stepDays k true (d, m, y)).2.1 (stepDays k true (d, m, y)).2.2 ∧
    1901 ≤ (stepDays k true (d, m, y)).2.2 ∧
    excelSerial (stepDays k true (d, m, y)).1 (stepDays k true (d, m, y)).2.1 (stepDays k true (d, m, y)).2.2
      = excelSerial d m y + k := by
  induction k generalizing d m y with
  | zero => simp [stepDays, hv, hy]
  | succ n ih =>
    simp only [stepDays, if_true]
    have hn := nextDayT_valid d m y hv
    have hs := nextDayT_serial d m y hv hy
    obtain ⟨a, b, c⟩ := ih (nextDayT d m y).1 (nextDayT d m y).2.1 (nextDayT d m y).2.2 hn.1 (by omega)
    refine ⟨a, b, ?_⟩
    rw [c, hs]; push_cast; omega

theorem tableMonthDays_dec (y : Int) : tableMonthDays y 12 = 31 := by
  simp only [tableMonthDays]; split <;> simp [pyIdxD, pyIdx?, month_days_leap_year, month_days_not_leap_year]

theorem prevDayT_valid (d m y : Int) (hv : TableValid d m y) :
    TableValid (prevDayT d m y).1 (prevDayT d m y).2.1 (prevDayT d m y).2.2 ∧ y - 1 ≤ (prevDayT d m y).2.2 := by
  obtain ⟨h1, h2, h3, h4⟩ := hv
  simp only [prevDayT]
  split_ifs with a b <;> dsimp only <;> simp only [TableValid]
  · exact ⟨⟨h1, h2, by omega, by omega⟩, by omega⟩
  · have := tableMonthDays_pos y (m - 1) ⟨by omega, by omega⟩
    exact ⟨⟨by omega, by omega, by omega, by omega⟩, by omega⟩
  · exact ⟨⟨by omega, by omega, by omega, by rw [tableMonthDays_dec]⟩, by omega⟩

theorem nextDayT_prevDayT (d m y : Int) (hv : TableValid d m y) :
    nextDayT (prevDayT d m y).1 (prevDayT d m y).2.1 (prevDayT d m y).2.2 = (d, m, y) := by
  obtain ⟨h1, h2, h3, h4⟩ := hv
  simp only [prevDayT]
  split_ifs with a b <;> dsimp only
  · simp [nextDayT]; omega
  · have hp := tableMonthDays_pos y (m - 1) ⟨by omega, by omega⟩
    have hd : d = 1 := by omega
    simp [nextDayT, hd]; omega
  · have hd : d = 1 := by omega
    have hm : m = 1 := by omega
    simp [nextDayT, hd, hm, tableMonthDays_dec]

theorem prevDayT_serial (d m y : Int) (hv : TableValid d m y) (hy : 1902 ≤ y) :
    excelSerial (prevDayT d m y).1 (prevDayT d m y).2.1 (prevDayT d m y).2.2 = excelSerial d m y - 1 := by
  have hp := prevDayT_valid d m y hv
  have hs := nextDayT_serial _ _ _ hp.1 (by omega)
  rw [nextDayT_prevDayT d m y hv] at hs
  simp only at hs
  omega

theorem stepDays_bwd (k : Nat) (d m y : Int) (hv : TableValid d m y) (hy : 1901 + (k : Int) ≤ y) :
    TableValid (stepDays k false (d, m, y)).1 (stepDays k false (d, m, y)).2.1 (stepDays k false (d, m, y)).2.2 ∧
    excelSerial (stepDays k false (d, m, y)).1 (stepDays k false (d, m, y)).2.1 (stepDays k false (d, m, y)).2.2
      = excelSerial d m y - k := by
  induction k generalizing d m y with
  | zero => simp [stepDays, hv]
  | succ n ih =>
    simp only [stepDays, Bool.false_eq_true, if_false]
    have hn := prevDayT_valid d m y hv
    have hs := prevDayT_serial d m y hv (by push_cast at hy; omega)
    obtain ⟨a, c⟩ := ih (prevDayT d m y).1 (prevDayT d m y).2.1 (prevDayT d m y).2.2 hn.1 (by push_cast at hy ⊢; omega)
    refine ⟨a, ?_⟩
    rw [c, hs]; push_cast; omega

/-- C13: `add_days(n)` moves the serial number by exactly `n` (forward for any `n ≥ 0`; backward as long as the
walk stays after 1901), so that forward-then-backward steps are inverse. Stated for the table walk the
code performs; the final `Date(d, m, y)` construction stores exactly this serial (`mkDate`). -/
theorem addDays_serial (d m y n : Int) (r : PyDate) (hv : TableValid d m y) (hy : 1901 ≤ y)
    (hback : n < 0 → 1901 + (-n) ≤ y)
    (h : addDays (mkDate d m y) n = .ok r) : r.serial = (mkDate d m y).serial + n := by
  simp only [addDays, mkDate] at h
  have hr := mkDateQ_ok _ _ _ _ h
  subst hr
  simp only [mkDate]
  by_cases hn : n ≥ 0
  · have := (stepDays_fwd n.natAbs d m y hv hy).2.2
    simp only [hn, decide_true]
    rw [this]; omega
  · have hn' : n < 0 := by omega
    have := (stepDays_bwd n.natAbs d m y hv (by have := hback hn'; omega)).2
    simp only [hn, decide_false]
    rw [this]; omega

end FinVerif.Props.C13
