/-
  C13 — more of the arithmetic of `Date`, for EVERY date (no bound on the year or the step count):

  * `third_wednesday_of_month`: always succeeds, returns a day 15..21 that is a Wednesday, and it is the only
    Wednesday among 15..21 (`thirdWednesday_spec`, `thirdWednesday_total`, `thirdWednesday_unique`);
  * `next_imm_date`: the result is the third Wednesday of March, June, September or December, strictly after
    the date, and no IMM date lies strictly between (`nextIMM_first_after`);
  * `add_tenor`: "nY" and "12nM" give the same date (`add_tenor_years_eq_months_partial`: whenever both succeed
    — they fail together only for results before 1900, which is not proved here but compared exhaustively by the
    correspondence check), and month iteration adds exactly `k·step` months (`iterE_addMonths_index`);
  * `add_weekdays`: the result is never a Saturday or Sunday for `n ≠ 0` (`addWeekdays_lands_on_weekday`).
-/
import FinVerif.Props.C13
import Mathlib.Tactic.IntervalCases
import Mathlib.Tactic.Ring

set_option linter.unusedVariables false
set_option linter.unusedSimpArgs false

namespace FinVerif.Props.C13
open FinVerif FinVerif.Model FinVerif.Gen.DateK

/-! ### third Wednesday -/

theorem excelSerial_add_day (d i m y : Int) : excelSerial (d + i) m y = excelSerial d m y + i := by
  simp only [excelSerial]; ring

/-- `third_wednesday_of_month(m, y)` returns a day 15..21 whose weekday is Wednesday (2). -/
theorem thirdWednesday_spec (m y d : Int) (h : thirdWednesday m y = .ok d) :
    15 ≤ d ∧ d ≤ 21 ∧ (mkDate d m y).wd = 2 := by
  simp only [thirdWednesday] at h
  split at h
  · rename_i i hf
    simp only [Except.ok.injEq] at h
    have hp := List.find?_some hf
    have hmem := List.mem_of_find?_eq_some hf
    simp only [List.mem_range] at hmem
    simp only [beq_iff_eq] at hp
    subst h
    exact ⟨by omega, by omega, hp⟩
  · cases h

/-- It never fails: one of seven consecutive days is a Wednesday. -/
theorem thirdWednesday_total (m y : Int) : ∃ d, thirdWednesday m y = .ok d := by
  simp only [thirdWednesday]
  have key : ∃ i ∈ List.range 7, ((mkDate (15 + (i : Int)) m y).wd == 2) = true := by
    simp only [mkDate, excelSerial_add_day, weekday, beq_iff_eq]
    generalize excelSerial 15 m y = b
    have : ∃ i : Nat, i < 7 ∧ (b + (i : Int) + 5) % 7 = 2 := by
      refine ⟨((2 - (b + 5)) % 7).toNat, by omega, by omega⟩
    obtain ⟨i, hi, he⟩ := this
    exact ⟨i, List.mem_range.mpr hi, he⟩
  obtain ⟨i, hi, hp⟩ := key
  cases hf : (List.range 7).find? (fun (i : Nat) => (mkDate (15 + (i : Int)) m y).wd == 2) with
  | some j => exact ⟨_, rfl⟩
  | none =>
    have := List.find?_eq_none.mp hf i hi
    simp [hp] at this

/-- The Wednesday among the days 15..21 is unique. -/
theorem thirdWednesday_unique (m y d d' : Int) (h : thirdWednesday m y = .ok d)
    (h1 : 15 ≤ d' ∧ d' ≤ 21) (h2 : (mkDate d' m y).wd = 2) : d' = d := by
  obtain ⟨a, b, c⟩ := thirdWednesday_spec m y d h
  simp only [mkDate, weekday] at c h2
  have e1 : excelSerial d m y = excelSerial 15 m y + (d - 15) := by rw [← excelSerial_add_day]; ring_nf
  have e2 : excelSerial d' m y = excelSerial 15 m y + (d' - 15) := by rw [← excelSerial_add_day]; ring_nf
  rw [e1] at c; rw [e2] at h2
  omega

theorem thirdWednesdayD_spec (m y : Int) :
    15 ≤ thirdWednesdayD m y ∧ thirdWednesdayD m y ≤ 21 ∧ thirdWednesday m y = .ok (thirdWednesdayD m y) := by
  obtain ⟨d, hd⟩ := thirdWednesday_total m y
  have := thirdWednesday_spec m y d hd
  simp only [thirdWednesdayD, hd]
  exact ⟨this.1, this.2.1, trivial⟩

/-! ### next IMM date -/

/-- C13: `next_imm_date` of a date with a valid month returns the third Wednesday of a quarter month
(Mar, Jun, Sep, Dec), strictly after the date, and it is the FIRST such date: its month is at most one quarter
ahead of the date's month, a full quarter ahead only when the date is itself in a quarter month on/after that
month's third Wednesday, and when the date is in a quarter month before its third Wednesday the result is in
that very month. -/
theorem nextIMM_first_after (dt : PyDate) (hm : 1 ≤ dt.m ∧ dt.m ≤ 12) (hy : 1900 ≤ dt.y)
    (r : PyDate) (h : nextIMM dt = .ok r) :
    (r.m = 3 ∨ r.m = 6 ∨ r.m = 9 ∨ r.m = 12) ∧ thirdWednesday r.m r.y = .ok r.d ∧
    -- strictly after the date
    ((12 * dt.y + dt.m < 12 * r.y + r.m) ∨ (12 * dt.y + dt.m = 12 * r.y + r.m ∧ dt.d < r.d)) ∧
    -- first: no quarter month is skipped
    (12 * r.y + r.m ≤ 12 * dt.y + dt.m + 3) ∧
    ((12 * r.y + r.m = 12 * dt.y + dt.m + 3) → dt.d ≥ thirdWednesdayD dt.m dt.y) ∧
    (∀ q, q = 12 * r.y + r.m → 12 * dt.y + dt.m < q → q < 12 * dt.y + dt.m + 3 →
        ¬ (dt.m = 3 ∨ dt.m = 6 ∨ dt.m = 9 ∨ dt.m = 12)) := by
  obtain ⟨h1, h2⟩ := hm
  simp only [nextIMM] at h
  generalize hm' : dt.m = m at *
  generalize hd' : dt.d = d at *
  generalize hy' : dt.y = y at *
  have T := fun mm yy => thirdWednesdayD_spec mm yy
  interval_cases m <;> simp at h
  all_goals (
    try split_ifs at h
    all_goals (
      rw [(T _ _).2.2] at h
      simp only at h
      have hr := mkDateQ_ok _ _ _ _ h
      subst hr
      have t1 := (T 3 y).1; have t2 := (T 3 y).2.1
      have t3 := (T 6 y).1; have t4 := (T 6 y).2.1
      have t5 := (T 9 y).1; have t6 := (T 9 y).2.1
      have t7 := (T 12 y).1; have t8 := (T 12 y).2.1
      refine ⟨?_, ?_, ?_, ?_, ?_, ?_⟩
      · simp [mkDate]
      · exact (T _ _).2.2
      · simp only [mkDate]; first | omega | (right; exact ⟨trivial, by omega⟩)
      · simp only [mkDate]; omega
      · simp only [mkDate]; omega
      · simp only [mkDate]; intros; omega))

/-- Non-vacuity: from 18 Mar 2020 (a Wednesday, the third) the next IMM date is 17 Jun 2020; from 17 Mar 2020
it is 18 Mar 2020. -/
example : (match nextIMM (mkDate 18 3 2020) with | .ok r => (r.d, r.m, r.y) | .error _ => (0, 0, 0)) = (17, 6, 2020) ∧
    (match nextIMM (mkDate 17 3 2020) with | .ok r => (r.d, r.m, r.y) | .error _ => (0, 0, 0)) = (18, 3, 2020) := by
  decide +kernel

/-! ### tenors: nY = 12nM -/

/-- the zero-based month index of a date -/
def monthIndex (dt : PyDate) : Int := 12 * dt.y + (dt.m - 1)

/-- Iterating `add_months(step)` `k` times moves the month index by exactly `k·step` (no drift in the month),
and keeps the month in 1..12. -/
theorem iterE_addMonths_index (step : Int) (k : Nat) (d0 r : PyDate) (hm : 1 ≤ d0.m ∧ d0.m ≤ 12)
    (h : iterE (fun x => addMonths x step) k d0 = .ok r) :
    monthIndex r = monthIndex d0 + (k : Int) * step ∧ 1 ≤ r.m ∧ r.m ≤ 12 := by
  induction k generalizing d0 with
  | zero =>
    simp only [iterE, Except.ok.injEq] at h; subst h
    exact ⟨by simp, hm⟩
  | succ n ih =>
    simp only [iterE] at h
    cases ha : addMonths d0 step with
    | error e => simp [ha] at h
    | ok nd =>
      simp only [ha] at h
      obtain ⟨s1, s2, s3, _⟩ := addMonths_spec d0 step nd ha
      obtain ⟨i1, i2, i3⟩ := ih nd ⟨s2, s3⟩ h
      refine ⟨?_, i2, i3⟩
      simp only [monthIndex] at *
      push_cast
      have : 12 * nd.y + (nd.m - 1) = 12 * d0.y + (d0.m - 1) + step := s1
      rw [i1, this]; ring

theorem month_year_of_index (a b : PyDate) (ha : 1 ≤ a.m ∧ a.m ≤ 12) (hb : 1 ≤ b.m ∧ b.m ≤ 12)
    (h : monthIndex a = monthIndex b) : a.m = b.m ∧ a.y = b.y := by
  simp only [monthIndex] at h; omega

theorem mkDateQ_month (d m y : Int) (r : PyDate) (h : mkDate? d m y = .ok r) : 1 ≤ r.m ∧ r.m ≤ 12 := by
  have := mkDateQ_ok d m y r h
  subst this
  simp only [mkDate?] at h
  split_ifs at h with a b c
  all_goals (simp only [mkDate]; omega)

/-- C13 "nY and 12nM agree" (partial: whenever both calls succeed; they can fail only by reaching a year
before 1900). `unit` 4 = years, 3 = months. -/
theorem add_tenor_years_eq_months_partial (dt : PyDate) (n : Int) (a b : PyDate)
    (ha : addTenor dt n 4 = .ok a) (hb : addTenor dt (12 * n) 3 = .ok b) : a = b := by
  simp only [addTenor] at ha hb
  cases h0 : mkDate? dt.d dt.m dt.y with
  | error e => simp [h0] at ha
  | ok d0 =>
    simp only [h0] at ha hb
    have hm0 := mkDateQ_month _ _ _ _ h0
    norm_num at ha hb
    cases hy : iterE (fun x => addMonths x (if 0 ≤ n then 12 else -12)) n.natAbs d0 with
    | error e => simp [hy] at ha
    | ok ry =>
      cases hmn : iterE (fun x => addMonths x (if 0 ≤ n then 1 else -1)) (12 * n).natAbs d0 with
      | error e => simp [hmn] at hb
      | ok rm =>
        simp only [hy] at ha
        simp only [hmn] at hb
        obtain ⟨iy, my1, my2⟩ := iterE_addMonths_index _ _ _ _ hm0 hy
        obtain ⟨im, mm1, mm2⟩ := iterE_addMonths_index _ _ _ _ hm0 hmn
        have hidx : monthIndex ry = monthIndex rm := by
          rw [iy, im]
          have : ((12 * n).natAbs : Int) = 12 * (n.natAbs : Int) := by
            rw [Int.natAbs_mul]; push_cast; rfl
          rw [this]; split_ifs <;> ring
        obtain ⟨e1, e2⟩ := month_year_of_index ry rm ⟨my1, my2⟩ ⟨mm1, mm2⟩ hidx
        simp only [eom, e1, e2] at ha
        simp only [eom] at hb
        rw [hb] at ha
        exact (Except.ok.inj ha).symm

/-- Non-vacuity: 29 Feb 2020 + 4Y = 29 Feb 2024 = + 48M (the day of month is restored, not kept at 28). -/
example : (match addTenor (mkDate 29 2 2020) 4 4, addTenor (mkDate 29 2 2020) 48 3 with
    | .ok a, .ok b => (a.d, a.m, a.y, b.d, b.m, b.y) | _, _ => (0, 0, 0, 0, 0, 0)) = (29, 2, 2024, 29, 2, 2024) := by
  decide +kernel

/-! ### add_weekdays -/

theorem addWeekdaysLoop_weekday (fwd : Bool) (fuel left : Nat) (cur r : PyDate) (hl : 0 < left)
    (h : addWeekdaysLoop fwd fuel left cur = .ok r) : ¬ (r.wd = 5 ∨ r.wd = 6) := by
  induction fuel generalizing left cur with
  | zero =>
    cases left with
    | zero => omega
    | succ l => simp [addWeekdaysLoop] at h
  | succ f ih =>
    cases left with
    | zero => omega
    | succ l =>
      simp only [addWeekdaysLoop] at h
      cases hs : addDays cur (if fwd then 1 else -1) with
      | error e => simp [hs] at h
      | ok nd =>
        simp only [hs] at h
        by_cases hw : nd.wd = 5 ∨ nd.wd = 6
        · rw [if_pos hw] at h
          exact ih (l + 1) nd (by omega) h
        · rw [if_neg hw] at h
          cases l with
          | zero =>
            cases f with
            | zero => simp only [addWeekdaysLoop, Except.ok.injEq] at h; subst h; exact hw
            | succ f' => simp only [addWeekdaysLoop, Except.ok.injEq] at h; subst h; exact hw
          | succ l' => exact ih (l' + 1) nd (by omega) h

/-- C13: `add_weekdays(n)` with `n ≠ 0` never lands on a Saturday or Sunday. -/
theorem addWeekdays_lands_on_weekday (dt r : PyDate) (n : Int) (hn : n ≠ 0) (h : addWeekdays dt n = .ok r) :
    r.wd ≠ 5 ∧ r.wd ≠ 6 := by
  have := addWeekdaysLoop_weekday _ _ _ _ _ (by omega : 0 < n.natAbs) h
  omega

end FinVerif.Props.C13
