/-
  C13 — the index arithmetic of the date table (GENERATED `date_index` / `date_from_index`):
  for every day 1..31, month 1..12 and year ≥ 1900, `date_from_index (date_index d m y) = (d, m, y)`
  in exact arithmetic (the compiled code evaluates the two divisions in floating point with fastmath; that
  the floating-point evaluation agrees is validated exhaustively by the correspondence, not proved), and
  `date_index` is strictly increasing in (y, m, d) — so the table look-up `g_dt_counter_list[date_index …]`
  addresses a distinct slot for every date.
-/
import FinVerif.Gen.DateK
import FinVerif.Props.C13
import Mathlib.Data.Rat.Floor
import Mathlib.Tactic.Ring
import Mathlib.Tactic.Linarith
import Mathlib.Tactic.NormNum
import Mathlib.Tactic.FieldSimp

set_option linter.unusedVariables false

namespace FinVerif.Props.C13
open FinVerif FinVerif.Gen.DateK

theorem pyIntRat_of_nonneg (q : Rat) (h : 0 ≤ q) : pyIntRat q = ⌊q⌋ := by
  simp only [pyIntRat, h, if_true]
  rfl

/-- truncation of `a + r/n` for `0 ≤ r < n`, `a` an integer with `0 ≤ a + r/n` -/
theorem floor_int_add_frac (a r n : Int) (hn : 0 < n) (hr0 : 0 ≤ r) (hr : r < n) :
    ⌊((a : Rat) + (r : Rat) / (n : Rat))⌋ = a := by
  rw [Int.floor_eq_iff]
  have hnq : (0 : Rat) < (n : Rat) := by exact_mod_cast hn
  have h0 : (0 : Rat) ≤ (r : Rat) / (n : Rat) := div_nonneg (by exact_mod_cast hr0) hnq.le
  have h1 : (r : Rat) / (n : Rat) < 1 := by
    rw [div_lt_one hnq]; exact_mod_cast hr
  constructor <;> linarith

/-- C13: the generated index maps are inverse on the whole padded table domain. -/
theorem date_from_index_date_index (d m y : Int) (hd : 1 ≤ d ∧ d ≤ 31) (hm : 1 ≤ m ∧ m ≤ 12) (hy : 1900 ≤ y) :
    date_from_index (date_index d m y) = (d, m, y) := by
  obtain ⟨hd1, hd2⟩ := hd
  obtain ⟨hm1, hm2⟩ := hm
  have hyq : ((1900 : Int) : Rat) + (((date_index d m y : Int) : Rat) / ((12 : Int) : Rat)) / ((31 : Int) : Rat)
      = ((y : Int) : Rat) + (((31 * (m - 1) + (d - 1) : Int)) : Rat) / ((372 : Int) : Rat) := by
    simp only [date_index]; push_cast; field_simp; ring
  have hy' : pyIntRat (((1900 : Int) : Rat) + (((date_index d m y : Int) : Rat) / ((12 : Int) : Rat)) / ((31 : Int) : Rat)) = y := by
    rw [hyq]
    have hnn : (0 : Rat) ≤ ((y : Int) : Rat) + (((31 * (m - 1) + (d - 1) : Int)) : Rat) / ((372 : Int) : Rat) := by
      have : (0 : Rat) ≤ ((y : Int) : Rat) := by exact_mod_cast (by omega : (0 : Int) ≤ y)
      have h2 : (0 : Rat) ≤ (((31 * (m - 1) + (d - 1) : Int)) : Rat) / ((372 : Int) : Rat) :=
        div_nonneg (by exact_mod_cast (by omega : (0 : Int) ≤ 31 * (m - 1) + (d - 1))) (by norm_num)
      linarith
    rw [pyIntRat_of_nonneg _ hnn]
    exact floor_int_add_frac y (31 * (m - 1) + (d - 1)) 372 (by norm_num) (by omega) (by omega)
  have hmq : ((((date_index d m y) - (((y - (1900 : Int)) * (12 : Int)) * (31 : Int)) : Int)) : Rat) / ((31 : Int) : Rat)
      = (((m - 1 : Int)) : Rat) + (((d - 1 : Int)) : Rat) / ((31 : Int) : Rat) := by
    simp only [date_index]; push_cast; field_simp; ring
  have hm' : pyIntRat (((((date_index d m y) - (((y - (1900 : Int)) * (12 : Int)) * (31 : Int)) : Int)) : Rat) / ((31 : Int) : Rat)) = m - 1 := by
    rw [hmq]
    have hnn : (0 : Rat) ≤ (((m - 1 : Int)) : Rat) + (((d - 1 : Int)) : Rat) / ((31 : Int) : Rat) := by
      have : (0 : Rat) ≤ (((m - 1 : Int)) : Rat) := by exact_mod_cast (by omega : (0 : Int) ≤ m - 1)
      have h2 : (0 : Rat) ≤ (((d - 1 : Int)) : Rat) / ((31 : Int) : Rat) :=
        div_nonneg (by exact_mod_cast (by omega : (0 : Int) ≤ d - 1)) (by norm_num)
      linarith
    rw [pyIntRat_of_nonneg _ hnn]
    exact floor_int_add_frac (m - 1) (d - 1) 31 (by norm_num) (by omega) (by omega)
  unfold date_from_index
  simp only [hy', hm']
  simp only [date_index]
  refine Prod.ext ?_ (Prod.ext ?_ rfl) <;> simp <;> ring

/-- `date_index` is strictly increasing in (y, m, d) on the table domain: distinct dates, distinct slots. -/
theorem date_index_strictMono (d m y d' m' y' : Int) (hd : 1 ≤ d ∧ d ≤ 31) (hm : 1 ≤ m ∧ m ≤ 12)
    (hd' : 1 ≤ d' ∧ d' ≤ 31) (hm' : 1 ≤ m' ∧ m' ≤ 12)
    (h : y < y' ∨ (y = y' ∧ (m < m' ∨ (m = m' ∧ d < d')))) : date_index d m y < date_index d' m' y' := by
  simp only [date_index]
  omega

theorem date_index_injective (d m y d' m' y' : Int) (hd : 1 ≤ d ∧ d ≤ 31) (hm : 1 ≤ m ∧ m ≤ 12)
    (hd' : 1 ≤ d' ∧ d' ≤ 31) (hm' : 1 ≤ m' ∧ m' ≤ 12) (h : date_index d m y = date_index d' m' y') :
    d = d' ∧ m = m' ∧ y = y' := by
  simp only [date_index] at h
  omega

/-- Non-vacuity: 29 Feb 2024 sits in slot 46187 and maps back. -/
example : date_index 29 2 2024 = 46187 ∧ date_from_index 46187 = (29, 2, 2024) := by decide +kernel

end FinVerif.Props.C13

/-! ### equality / hashing agree with the calendar: the serial is injective on valid dates -/

namespace FinVerif.Props.C13
open FinVerif FinVerif.Spec

/-- C13: two valid dates with the same serial are the same calendar date — so `==`, `hash` and ordering, all defined
through the serial in the code, agree with calendar equality. -/
theorem serial_injective (d m y d' m' y' : Int) (hv : Valid d m y) (hv' : Valid d' m' y')
    (h : serial d m y = serial d' m' y') : d = d' ∧ m = m' ∧ y = y' := by
  have hy : y = y' := by
    rcases lt_trichotomy y y' with hlt | heq | hgt
    · have := serial_lt_of_year_lt d d' m m' y y' hv hv' hlt; omega
    · exact heq
    · have := serial_lt_of_year_lt d' d m' m y' y hv' hv hgt; omega
  subst hy
  have hm : m = m' := by
    rcases lt_trichotomy m m' with hlt | heq | hgt
    · have := serial_lt_of_month_lt d d' m m' y hv hv' hlt; omega
    · exact heq
    · have := serial_lt_of_month_lt d' d m' m y hv' hv hgt; omega
  subst hm
  have hd : d = d' := by
    rcases lt_trichotomy d d' with hlt | heq | hgt
    · have := serial_lt_of_day_lt d d' m y hlt; omega
    · exact heq
    · have := serial_lt_of_day_lt d' d m y hgt; omega
  exact ⟨hd, rfl, rfl⟩

/-- … and the order of serials is the lexicographic order of (year, month, day). -/
theorem serial_lt_iff_lex (d m y d' m' y' : Int) (hv : Valid d m y) (hv' : Valid d' m' y') :
    serial d m y < serial d' m' y' ↔ (y < y' ∨ (y = y' ∧ (m < m' ∨ (m = m' ∧ d < d')))) := by
  constructor
  · intro h
    by_contra hc
    have hc' : y' < y ∨ (y' = y ∧ (m' < m ∨ (m' = m ∧ d' ≤ d))) := by omega
    rcases hc' with h1 | ⟨h1, h2 | ⟨h2, h3⟩⟩
    · have := serial_lt_of_year_lt d' d m' m y' y hv' hv h1; omega
    · subst h1; have := serial_lt_of_month_lt d' d m' m y' hv' hv h2; omega
    · subst h1; subst h2
      rcases Int.lt_or_eq_of_le h3 with h4 | h4
      · have := serial_lt_of_day_lt d' d m' y' h4; omega
      · subst h4; omega
  · rintro (h1 | ⟨h1, h2 | ⟨h2, h3⟩⟩)
    · exact serial_lt_of_year_lt d d' m m' y y' hv hv' h1
    · subst h1; exact serial_lt_of_month_lt d d' m m' y hv hv' h2
    · subst h1; subst h2; exact serial_lt_of_day_lt d d' m y h3

end FinVerif.Props.C13
