/-
  C13 (part e) — the date TABLE.  `calculate_list()` builds `g_dt_counter_list` by three nested loops with a running
  day counter and `-999` padding to 31 slots per month; every serial the code ever reports is a read of that table at
  `date_index d m y`.  Here the fold model of the loops (`Model.calcList E`) is linked, for EVERY table end `E` and
  every date, to the closed-form serial used by all other C13 theorems:

  * `calcList_closed`   — the table is the concatenation, year by year, of 372-slot year blocks whose starting counter is
                          the closed form `daysBeforeYear` (induction over the year loop, invariant of the counter);
  * `yearBlocks_closed` — a year block is the concatenation of twelve 31-slot month blocks with starting counters
                          `daysBeforeMonth`, and the counter leaves the year advanced by 365/366;
  * `table_lookup`      — `(calcList E)[date_index d m y] = excelSerial d m y` for every table-valid date 1900 ≤ y ≤ E;
  * `table_pad`         — the slots of non-existent days (30 Feb, 31 Apr, …) hold exactly the padding value −999;
  * `calcList_length`, `table_prefix_stable` — 372 slots per year; extending the table never changes an existing entry;
  * `table_lookup_spec` — hence the table entry is the SPEC serial (anchor 1 Mar 1900 = 61, +1 per Gregorian day) for
                          every valid date from 1 Mar 1900 on.
  Tie to the code: op `TBL` of the model driver prints slices of `calcList E`; the harness compares them with the
  implementation's `g_dt_counter_list` (whole table, several table ends).
-/
import FinVerif.Props.C13b
import Mathlib.Tactic.IntervalCases
import Mathlib.Tactic.SplitIfs

set_option linter.unusedSimpArgs false
set_option linter.unusedVariables false

namespace FinVerif.Props.C13
open FinVerif FinVerif.Model FinVerif.Spec FinVerif.Gen.DateK

/-! ### generic: a loop that appends one block per iteration and advances a counter -/

/-- Invariant of an "append a block, advance the counter" loop: if `cnt` is a closed form of the counter, the loop
produces the concatenation of the blocks evaluated at the closed-form counters. -/
theorem foldl_blocks (blk : Nat → Int → List Int) (nxt : Nat → Int → Int) (cnt : Nat → Int) (c0 : Int) (n : Nat)
    (h0 : cnt 0 = c0) (hrec : ∀ i, i < n → nxt i (cnt i) = cnt (i + 1)) :
    (List.range n).foldl (fun (acc : List Int × Int) (i : Nat) => (acc.1 ++ blk i acc.2, nxt i acc.2)) ([], c0)
      = ((List.range n).flatMap (fun i => blk i (cnt i)), cnt n) := by
  induction n with
  | zero => simp [h0]
  | succ k ih =>
    rw [List.range_succ, List.foldl_append, ih (fun i hi => hrec i (by omega))]
    simp [List.flatMap_append, hrec k (by omega)]

theorem flatMap_blocks_length (g : Nat → List Int) (L n : Nat) (hL : ∀ i, i < n → (g i).length = L) :
    ((List.range n).flatMap g).length = L * n := by
  induction n with
  | zero => simp
  | succ k ih =>
    rw [List.range_succ, List.flatMap_append, List.length_append, ih (fun i hi => hL i (by omega))]
    simp [hL k (by omega), Nat.mul_succ]

/-- Slot `L·i + j` of a concatenation of blocks of equal length `L` is slot `j` of block `i`. -/
theorem flatMap_blocks_get (g : Nat → List Int) (L n i j : Nat) (hL : ∀ i, i < n → (g i).length = L)
    (hi : i < n) (hj : j < L) : ((List.range n).flatMap g)[L * i + j]? = (g i)[j]? := by
  induction n with
  | zero => omega
  | succ k ih =>
    have hlen := flatMap_blocks_length g L k (fun i hi => hL i (by omega))
    rw [List.range_succ, List.flatMap_append]
    by_cases hik : i < k
    · have h1 : L * (i + 1) ≤ L * k := Nat.mul_le_mul_left L hik
      rw [Nat.mul_succ] at h1
      rw [List.getElem?_append_left (by rw [hlen]; omega)]
      exact ih (fun i hi => hL i (by omega)) hik
    · have hik' : i = k := by omega
      subst hik'
      rw [List.getElem?_append_right (by rw [hlen]; omega), hlen]
      simp

/-! ### one month block -/

theorem monthBlock_length (c : Int) (n : Nat) (hn : n ≤ 31) : (monthBlock c n).length = 31 := by
  simp [monthBlock]; omega

/-- A month block holds the counters `c+1 … c+n` in its first `n` slots and the padding value in the others. -/
theorem monthBlock_get (c : Int) (n j : Nat) (hn : n ≤ 31) (hj : j < 31) :
    (monthBlock c n)[j]? = some (if j < n then c + 1 + (j : Int) else -999) := by
  simp only [monthBlock]
  by_cases h : j < n
  · rw [List.getElem?_append_left (by simp [h])]; simp [h]
  · rw [List.getElem?_append_right (by simp; omega)]
    simp [h, List.getElem?_replicate]; omega

/-! ### one year -/

/-- Days in the table's year (1900 counted as leap, as Excel does). -/
def yearLen (yy : Int) : Int := if excelLeap yy then 366 else 365

/-- closed form of the running counter before month `i+1` (0-based `i`), and after December for `i = 12` -/
def cntM (yy c : Int) (i : Nat) : Int := c + (if i < 12 then daysBeforeMonth yy ((i : Int) + 1) else yearLen yy)

theorem tableMonthDays_toNat_le (yy : Int) (i : Nat) (hi : i < 12) : (tableMonthDays yy ((i : Int) + 1)).toNat ≤ 31 := by
  have := tableMonthDays_pos yy ((i : Int) + 1) ⟨by omega, by omega⟩
  omega

theorem cntM_step (yy c : Int) (i : Nat) (hi : i < 12) :
    cntM yy c i + ((tableMonthDays yy ((i : Int) + 1)).toNat : Int) = cntM yy c (i + 1) := by
  simp only [cntM, daysBeforeMonth, tableMonthDays, yearLen]
  by_cases hl : excelLeap yy = true
  · interval_cases i <;>
      simp [hl, pyIdxD, pyIdx?, cumDaysLeap, cumDaysNonLeap, month_days_leap_year, month_days_not_leap_year] <;> omega
  · interval_cases i <;>
      simp [hl, pyIdxD, pyIdx?, cumDaysLeap, cumDaysNonLeap, month_days_leap_year, month_days_not_leap_year] <;> omega

/-- The month loop of `calculate_list` for one year: twelve 31-slot blocks starting at the closed-form counters
`c + daysBeforeMonth`, and the counter leaves the year advanced by the year's length. -/
theorem yearBlocks_closed (yy c : Int) :
    yearBlocks yy c =
      ((List.range 12).flatMap (fun i => monthBlock (cntM yy c i) (tableMonthDays yy ((i : Int) + 1)).toNat),
       c + yearLen yy) := by
  have h0 : cntM yy c 0 = c := by
    have : daysBeforeMonth yy 1 = 0 := by
      simp only [daysBeforeMonth]; split <;> simp [pyIdxD, pyIdx?, cumDaysLeap, cumDaysNonLeap]
    simp [cntM, this]
  have := foldl_blocks (fun i c' => monthBlock c' (tableMonthDays yy ((i : Int) + 1)).toNat)
    (fun i c' => c' + ((tableMonthDays yy ((i : Int) + 1)).toNat : Int)) (cntM yy c) c 12 h0
    (fun i hi => cntM_step yy c i hi)
  simp only [yearBlocks]
  rw [this]
  simp [cntM]

theorem yearBlocks_length (yy c : Int) : (yearBlocks yy c).1.length = 372 := by
  rw [yearBlocks_closed]
  exact flatMap_blocks_length _ 31 12 (fun i hi => monthBlock_length _ _ (tableMonthDays_toNat_le yy i hi))

/-! ### the year loop -/

/-- The closed-form year counter obeys the loop's recurrence: + 366 after an (Excel-)leap year, + 365 otherwise. -/
theorem daysBeforeYear_step (k : Nat) :
    daysBeforeYear (1900 + (k : Int)) + yearLen (1900 + (k : Int)) = daysBeforeYear (1900 + ((k + 1 : Nat) : Int)) := by
  rcases Nat.eq_zero_or_pos k with hk | hk
  · subst hk; decide
  · have hne : (1900 + (k : Int)) ≠ 1900 := by omega
    have h1 : (1900 + (k : Int)) > 1900 := by omega
    have h2 : (1900 + ((k + 1 : Nat) : Int)) > 1900 := by push_cast; omega
    simp only [daysBeforeYear, yearLen, excelLeap, hne, if_false, h1, h2, if_true, leapsUpTo]
    by_cases hl : is_leap_year (1900 + (k : Int)) = true
    · have hl' := hl
      simp only [is_leap_year, Bool.or_eq_true, Bool.and_eq_true, decide_eq_true_eq] at hl'
      simp only [hl, if_true]; push_cast; omega
    · have hl' := hl
      simp only [is_leap_year, Bool.or_eq_true, Bool.and_eq_true, decide_eq_true_eq, not_or, not_and] at hl'
      simp only [hl, if_false]; push_cast; omega

/-- number of years in the table with end year `E` -/
def tableYears (E : Int) : Nat := (E - 1900 + 1).toNat

/-- C13 table, closed form: `calculate_list()` with end year `E` is the concatenation over the years 1900 … E of the
year blocks started at the closed-form counter `daysBeforeYear` — the loop's running `day_counter` never drifts. -/
theorem calcList_closed (E : Int) :
    calcList E = (List.range (tableYears E)).flatMap
      (fun (k : Nat) => (yearBlocks (1900 + (k : Int)) (daysBeforeYear (1900 + (k : Int)))).1) := by
  have h0 : daysBeforeYear (1900 + ((0 : Nat) : Int)) = 0 := by decide
  have := foldl_blocks (fun k c => (yearBlocks (1900 + (k : Int)) c).1) (fun k c => (yearBlocks (1900 + (k : Int)) c).2)
    (fun k => daysBeforeYear (1900 + (k : Int))) 0 (tableYears E) h0
    (fun k hk => by simp only [yearBlocks_closed]; exact daysBeforeYear_step k)
  simp only [calcList, tableYears] at this ⊢
  rw [this]

/-- The table has 372 slots per year. -/
theorem calcList_length (E : Int) : (calcList E).length = 372 * tableYears E := by
  rw [calcList_closed]
  exact flatMap_blocks_length _ 372 _ (fun i hi => yearBlocks_length _ _)

/-- the slot of a date, as a natural number -/
theorem date_index_toNat (d m y : Int) (hd : 1 ≤ d ∧ d ≤ 31) (hm : 1 ≤ m ∧ m ≤ 12) (hy : 1900 ≤ y) :
    (date_index d m y).toNat = 372 * (y - 1900).toNat + (31 * (m - 1).toNat + (d - 1).toNat) := by
  simp only [date_index]; omega

/-- Raw form of the table entry at the slot of day `d` (1..31) of month `m` of year `y ≤ E`: the counter for existing
days, the padding value otherwise. -/
theorem table_entry (E d m y : Int) (hd : 1 ≤ d ∧ d ≤ 31) (hm : 1 ≤ m ∧ m ≤ 12) (hy : 1900 ≤ y) (hE : y ≤ E) :
    (calcList E)[(date_index d m y).toNat]? =
      some (if d ≤ tableMonthDays y m then excelSerial d m y else -999) := by
  obtain ⟨hd1, hd2⟩ := hd
  obtain ⟨hm1, hm2⟩ := hm
  rw [date_index_toNat d m y ⟨hd1, hd2⟩ ⟨hm1, hm2⟩ hy, calcList_closed]
  rw [flatMap_blocks_get _ 372 _ _ _ (fun i hi => yearBlocks_length _ _) (by simp only [tableYears]; omega) (by omega)]
  have hyk : (1900 + (((y - 1900).toNat : Nat) : Int)) = y := by omega
  rw [hyk, yearBlocks_closed]
  simp only
  have hmi : (m - 1).toNat < 12 := by omega
  rw [flatMap_blocks_get _ 31 12 _ _ (fun i hi => monthBlock_length _ _ (tableMonthDays_toNat_le y i hi)) hmi (by omega)]
  have hmk : ((((m - 1).toNat : Nat) : Int) + 1) = m := by omega
  rw [hmk, monthBlock_get _ _ _ (by have := tableMonthDays_pos y m ⟨hm1, hm2⟩; omega) (by omega)]
  have hp := tableMonthDays_pos y m ⟨hm1, hm2⟩
  congr 1
  by_cases hdv : d ≤ tableMonthDays y m
  · have : (d - 1).toNat < (tableMonthDays y m).toNat := by omega
    simp only [this, hdv, if_true, cntM, hmi, hmk, excelSerial]
    omega
  · have : ¬ (d - 1).toNat < (tableMonthDays y m).toNat := by omega
    simp only [this, hdv, if_false]

/-- C13 table look-up: for every table-valid date of a year 1900 ≤ y ≤ E, the entry of the table built by
`calculate_list` at `date_index d m y` is the closed-form serial — for every table end `E`. -/
theorem table_lookup (E d m y : Int) (hv : TableValid d m y) (hy : 1900 ≤ y) (hE : y ≤ E) :
    (calcList E)[(date_index d m y).toNat]? = some (excelSerial d m y) := by
  obtain ⟨h1, h2, h3, h4⟩ := hv
  have hp := tableMonthDays_pos y m ⟨h1, h2⟩
  rw [table_entry E d m y ⟨h3, by omega⟩ ⟨h1, h2⟩ hy hE, if_pos h4]

/-- … and the slots of days that do not exist in the month (30 Feb, 31 Apr, …) hold exactly the padding value, which
is what `add_days` skips and what the constructor can never return as a serial. -/
theorem table_pad (E d m y : Int) (hm : 1 ≤ m ∧ m ≤ 12) (hd : tableMonthDays y m < d ∧ d ≤ 31) (hy : 1900 ≤ y)
    (hE : y ≤ E) : (calcList E)[(date_index d m y).toNat]? = some (-999) := by
  have hp := tableMonthDays_pos y m hm
  rw [table_entry E d m y ⟨by omega, hd.2⟩ hm hy hE, if_neg (by omega)]

/-- A genuine serial is never confused with padding: every stored counter of a table-valid date is positive. -/
theorem excelSerial_pos (d m y : Int) (hv : TableValid d m y) (hy : 1900 ≤ y) : 0 < excelSerial d m y := by
  obtain ⟨h1, h2, h3, h4⟩ := hv
  have hY : 0 ≤ daysBeforeYear y := by
    simp only [daysBeforeYear, leapsUpTo]; split_ifs <;> omega
  have hM : 0 ≤ daysBeforeMonth y m := by
    simp only [daysBeforeMonth]
    split <;> interval_cases m <;> simp [pyIdxD, pyIdx?, cumDaysLeap, cumDaysNonLeap]
  simp only [excelSerial]; omega

/-- C13 histories: extending the table (constructing a later year) never changes an existing entry — the table for
end year `E₁` is a prefix of the table for any later end year. -/
theorem table_prefix_stable (E₁ E₂ : Int) (h : E₁ ≤ E₂) : calcList E₁ <+: calcList E₂ := by
  rw [calcList_closed, calcList_closed]
  have hle : tableYears E₁ ≤ tableYears E₂ := by simp only [tableYears]; omega
  obtain ⟨t, ht⟩ := Nat.exists_eq_add_of_le hle
  rw [ht, List.range_add, List.flatMap_append]
  exact List.prefix_append _ _

/-- Entries are the same in every table that contains the year. -/
theorem table_entry_independent_of_end (E₁ E₂ d m y : Int) (hd : 1 ≤ d ∧ d ≤ 31) (hm : 1 ≤ m ∧ m ≤ 12)
    (hy : 1900 ≤ y) (h1 : y ≤ E₁) (h2 : y ≤ E₂) :
    (calcList E₁)[(date_index d m y).toNat]? = (calcList E₂)[(date_index d m y).toNat]? := by
  rw [table_entry E₁ d m y hd hm hy h1, table_entry E₂ d m y hd hm hy h2]

/-- C13, the table against the SPECIFICATION: for every valid calendar date from 1 Mar 1900 on and every table end
`E ≥ y`, the table entry at the date's slot is the Excel serial of the specification (anchor 1 Mar 1900 = 61, +1 per
Gregorian successor day). -/
theorem table_lookup_spec (E d m y : Int) (hv : Valid d m y) (hy : 1901 ≤ y ∨ (y = 1900 ∧ 3 ≤ m)) (hE : y ≤ E) :
    (calcList E)[(date_index d m y).toNat]? = some (serial d m y) := by
  obtain ⟨h1, h2, h3, h4⟩ := hv
  rcases hy with hy | ⟨hy, hm3⟩
  · rw [table_lookup E d m y ⟨h1, h2, h3, by rw [tableMonthDays_eq y m ⟨h1, h2⟩ (by omega)]; exact h4⟩ (by omega) hE,
      excelSerial_eq_spec d m y ⟨h1, h2⟩ hy]
  · subst hy
    have ht : tableMonthDays 1900 m = monthLen 1900 m := by
      interval_cases m <;> decide
    rw [table_lookup E d m 1900 ⟨h1, h2, h3, by rw [ht]; exact h4⟩ (by omega) hE,
      excelSerial_eq_spec_1900 d m ⟨hm3, h2⟩]

/-- Non-vacuity: in the table with end year 1901, the slot of 1 Mar 1900 holds 61, the slot of 31 Dec 1901 holds 731,
the slot of "30 Feb 1901" is padding, and the table has 2·372 slots. -/
example : (calcList 1901)[(date_index 1 3 1900).toNat]? = some 61 ∧
    (calcList 1901)[(date_index 31 12 1901).toNat]? = some 731 ∧
    (calcList 1901)[(date_index 30 2 1901).toNat]? = some (-999) ∧ (calcList 1901).length = 744 := by
  decide +kernel

end FinVerif.Props.C13
